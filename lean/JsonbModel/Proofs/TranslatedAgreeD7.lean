/-
Phase 4: `concat_jsonb` / `concat` of functions.rs, translated from source, against `Fn.concat`
(Functions/Edit.lean).
-/
import JsonbModel.Proofs.TranslatedAgreeD6

set_option linter.unusedSimpArgs false
set_option linter.unusedVariables false

namespace Jsonb.TrAgree
open Jsonb.Rs

theorem read_u32_four (value : Bytes) :
    Tr.read_u32 value 4 = match readU32At value 4 with
      | some w => .ok (w : Int)
      | none => .err "InvalidEOF" := by
  exact read_u32_agrees value 4 (by omega)

theorem readU32At_some_len (value : Bytes) (i w : Nat) (h : readU32At value i = some w) : i + 4 ≤ value.length := by
  unfold readU32At at h
  split at h
  · assumption
  · cases h

theorem sliceFrom_eight (value : Bytes) (h : 8 ≤ value.length) :
    Rs.sliceFrom value 8 = .ok (value.drop 8) ∧ Jsonb.sliceFrom value 8 = .ok (value.drop 8) := by
  refine ⟨sliceFrom_nat value 8 h, ?_⟩
  unfold Jsonb.sliceFrom; rw [if_pos h]

/-- the six loop bodies of `concat_jsonb` push one raw entry -/
theorem concat_loop1_step (x : Bytes × Tr.JEntry × Bytes) (b : Tr.ObjectBuilder) :
    Tr.concat_jsonb.loop1 x b = (Ctl.val (.next (pushObj x b)) : Ctl Bytes (Step Tr.ObjectBuilder)) := by
  obtain ⟨k, je, d⟩ := x
  unfold Tr.concat_jsonb.loop1 pushObj
  simp only [object_push_raw_any, Ctl.ofRes_ok', Ctl.val_bind', Ctl.pure_eq', Rs.loopStep_val']
theorem concat_loop2_step (x : Bytes × Tr.JEntry × Bytes) (b : Tr.ObjectBuilder) :
    Tr.concat_jsonb.loop2 x b = (Ctl.val (.next (pushObj x b)) : Ctl Bytes (Step Tr.ObjectBuilder)) := by
  obtain ⟨k, je, d⟩ := x
  unfold Tr.concat_jsonb.loop2 pushObj
  simp only [object_push_raw_any, Ctl.ofRes_ok', Ctl.val_bind', Ctl.pure_eq', Rs.loopStep_val']
theorem concat_loop3_step (x : Tr.JEntry × Bytes) (b : Tr.ArrayBuilder) :
    Tr.concat_jsonb.loop3 x b = (Ctl.val (.next (pushArr x b)) : Ctl Bytes (Step Tr.ArrayBuilder)) := by
  obtain ⟨je, d⟩ := x
  unfold Tr.concat_jsonb.loop3 pushArr
  simp only [array_push_raw_any, Ctl.ofRes_ok', Ctl.val_bind', Ctl.pure_eq', Rs.loopStep_val']
theorem concat_loop4_step (x : Tr.JEntry × Bytes) (b : Tr.ArrayBuilder) :
    Tr.concat_jsonb.loop4 x b = (Ctl.val (.next (pushArr x b)) : Ctl Bytes (Step Tr.ArrayBuilder)) := by
  obtain ⟨je, d⟩ := x
  unfold Tr.concat_jsonb.loop4 pushArr
  simp only [array_push_raw_any, Ctl.ofRes_ok', Ctl.val_bind', Ctl.pure_eq', Rs.loopStep_val']
theorem concat_loop5_step (x : Tr.JEntry × Bytes) (b : Tr.ArrayBuilder) :
    Tr.concat_jsonb.loop5 x b = (Ctl.val (.next (pushArr x b)) : Ctl Bytes (Step Tr.ArrayBuilder)) := by
  obtain ⟨je, d⟩ := x
  unfold Tr.concat_jsonb.loop5 pushArr
  simp only [array_push_raw_any, Ctl.ofRes_ok', Ctl.val_bind', Ctl.pure_eq', Rs.loopStep_val']
theorem concat_loop6_step (x : Tr.JEntry × Bytes) (b : Tr.ArrayBuilder) :
    Tr.concat_jsonb.loop6 x b = (Ctl.val (.next (pushArr x b)) : Ctl Bytes (Step Tr.ArrayBuilder)) := by
  obtain ⟨je, d⟩ := x
  unfold Tr.concat_jsonb.loop6 pushArr
  simp only [array_push_raw_any, Ctl.ofRes_ok', Ctl.val_bind', Ctl.pure_eq', Rs.loopStep_val']

theorem concat_jsonb_agrees (left right buf : Bytes) (fuel : Nat) (hfuel : 536870913 < fuel)
    (hl : left.length < 1152921504606846976) (hr : right.length < 1152921504606846976)
    (hb : buf.length < 1152921504606846976) :
    panicAny (Tr.concat_jsonb fuel left right buf) = panicAny (Fn.concat left right buf) := by
  unfold Tr.concat_jsonb Fn.concat
  simp only [read_u32_zero]
  cases hrl : readU32At left 0 with
  | none => simp only [Ctl.ofRes_err', Ctl.ret_bind', Ctl.run_ret']
  | some lh =>
    cases hrr : readU32At right 0 with
    | none => simp only [Ctl.ofRes_ok', Ctl.val_bind', Ctl.ofRes_err', Ctl.ret_bind', Ctl.run_ret']
    | some rh =>
      have hLl := hdrLen_lt lh
      have hLr := hdrLen_lt rh
      simp only [Ctl.ofRes_ok', Ctl.val_bind', hdrType_eq, hdrLen_cast]
      simp only [← Bool.decide_and]
      by_cases hA : hdrType lh = C.OBJECT_CONTAINER_TAG ∧ hdrType rh = C.OBJECT_CONTAINER_TAG
      · simp only [eq_true hA, decide_true, if_true, object_builder_new_agrees, Ctl.ofRes_ok', Ctl.val_bind',
          iterate_object_entries_agrees]
        rw [forIter_object left lh fuel (by omega) pushObj _ concat_loop1_step]
        unfold iterObjEntries
        dsimp only
        cases hfl : fillKeys left (hdrLen lh) 4 (4 + hdrLen lh * 8) with
        | none =>
          simp only [Ctl.ret_bind', Ctl.run_ret']
          cases (match fillKeys right (hdrLen rh) 4 (4 + hdrLen rh * 8) with
            | none => (Res.panic "ObjectEntryIterator: keys.as_mut().unwrap() after a failed fill_keys" : Res (List (Bytes × JE × Bytes)))
            | some (ks, jo, vo) => iterObjLoop right ks (4 + hdrLen rh * 8) jo vo) <;> rfl
        | some ql =>
          obtain ⟨ksl, jol, vol⟩ := ql
          simp only []
          obtain ⟨fl1, fl2, fl3, fl4⟩ := fillKeys_facts left _ _ _ _ _ _ hfl
          cases hll : iterObjLoop left ksl (4 + hdrLen lh * 8) jol vol with
          | ok ls =>
            obtain ⟨bl1, bl2, bl3⟩ := iterObjLoop_bounds left _ _ _ _ ls hll
            have hfoldl := fold_pushObj ls []
            simp only [Ctl.val_bind', hfoldl]
            rw [forIter_object right rh fuel (by omega) pushObj _ concat_loop2_step]
            cases hfr : fillKeys right (hdrLen rh) 4 (4 + hdrLen rh * 8) with
            | none => simp only [Ctl.ret_bind', Ctl.run_ret']; rfl
            | some qr =>
              obtain ⟨ksr, jor, vor⟩ := qr
              simp only []
              obtain ⟨fr1, fr2, fr3, fr4⟩ := fillKeys_facts right _ _ _ _ _ _ hfr
              cases hlr : iterObjLoop right ksr (4 + hdrLen rh * 8) jor vor with
              | ok rs =>
                obtain ⟨br1, br2, br3⟩ := iterObjLoop_bounds right _ _ _ _ rs hlr
                have hfoldr := fold_pushObj rs (Fn.pushAll [] (ls.map Fn.memberRaw))
                simp only [Ctl.val_bind', hfoldr]
                obtain ⟨p1, p2, p3, p4⟩ := pushAll_bounds ls [] bl2 (by simp [RawFitsK])
                obtain ⟨q1, q2, q3, q4⟩ := pushAll_bounds rs _ br2 p1
                simp only [keySum, paySum, List.length_nil] at p2 p3 p4
                have hkl : mKeySum ls ≤ left.length ∧ mPaySum ls ≤ left.length := by
                  by_cases he : ls = []
                  · subst he; simp [mKeySum, mPaySum]
                  · have := bl3 he; omega
                have hkr : mKeySum rs ≤ right.length ∧ mPaySum rs ≤ right.length := by
                  by_cases he : rs = []
                  · subst he; simp [mKeySum, mPaySum]
                  · have := br3 he; omega
                obtain ⟨n, hT, hM⟩ := object_build_raw _ q1 buf fuel (by omega) (by omega)
                  (by rw [bkeyBytes_length]; omega) (by rw [bkeyBytes_length, bpaysK_length]; omega)
                rw [hT, hM]
                simp only [Ctl.ofRes_ok', Ctl.val_bind', Ctl.pure_eq', Ctl.run_ret']
              | err e => exact absurd hlr (iterObjLoop_ne_err _ _ _ _ _ _)
              | panic p => simp only [Ctl.ret_bind', Ctl.run_ret']
              | fuel => exact absurd hlr (iterObjLoop_ne_fuel _ _ _ _ _)
          | err e => exact absurd hll (iterObjLoop_ne_err _ _ _ _ _ _)
          | panic p => simp only [Ctl.ret_bind', Ctl.run_ret']
          | fuel => exact absurd hll (iterObjLoop_ne_fuel _ _ _ _ _)
      · simp only [eq_false hA, decide_false, Bool.false_eq_true, if_false]
        by_cases hB : hdrType lh = C.ARRAY_CONTAINER_TAG ∧ hdrType rh = C.ARRAY_CONTAINER_TAG
        · -- array ++ array
          have hadd : Rs.add .usize ((hdrLen lh : Nat) : Int) ((hdrLen rh : Nat) : Int) = .ok ((hdrLen lh + hdrLen rh : Nat) : Int) :=
            Rs.add_usize_nat _ _ (by omega)
          simp only [eq_true hB, decide_true, if_true, hadd, Ctl.ofRes_ok', Ctl.val_bind',
            array_builder_new_agrees (hdrLen lh + hdrLen rh) (by omega), iterate_array_agrees]
          rw [forIter_array left lh fuel (by omega) pushArr _ concat_loop3_step]
          cases hil : iterArray left lh with
          | ok ls =>
            obtain ⟨bl1, bl2, bl3⟩ := iterArray_bounds left lh ls hil
            simp only [Ctl.val_bind', fold_pushArr ls [], List.nil_append]
            rw [forIter_array right rh fuel (by omega) pushArr _ concat_loop4_step]
            cases hir : iterArray right rh with
            | ok rs =>
              obtain ⟨br1, br2, br3⟩ := iterArray_bounds right rh rs hir
              simp only [Ctl.val_bind', fold_pushArr rs (ls.map Fn.rawOf)]
              have hraw : RawFits (ls.map Fn.rawOf ++ rs.map Fn.rawOf) :=
                (rawFits_append _ _).2 ⟨rawFits_map_rawOf _ bl2, rawFits_map_rawOf _ br2⟩
              obtain ⟨n, hT, hM⟩ := array_build_raw _ hraw buf fuel (by omega) (by simp only [List.length_append, List.length_map]; omega)
                (by simp only [bpaysL_append, List.length_append, bpaysL_map_rawOf, List.length_map]; omega)
              rw [hT, hM]
              simp only [Ctl.ofRes_ok', Ctl.val_bind', Ctl.pure_eq', Ctl.run_ret']
            | err e => exact absurd hir (iterArray_ne_err _ _ _)
            | panic p => simp only [Ctl.ret_bind', Ctl.run_ret']
            | fuel => exact absurd hir (iterArray_ne_fuel _ _)
          | err e => exact absurd hil (iterArray_ne_err _ _ _)
          | panic p => simp only [Ctl.ret_bind', Ctl.run_ret']
          | fuel => exact absurd hil (iterArray_ne_fuel _ _)
        · simp only [eq_false hB, decide_false, Bool.false_eq_true, if_false]
          have h1 : ((1 : Nat) : Int) = 1 := rfl
          by_cases hC : hdrType rh = C.ARRAY_CONTAINER_TAG
          · -- left document :: right array
            have hadd : Rs.add .usize ((hdrLen rh : Nat) : Int) 1 = .ok ((hdrLen rh + 1 : Nat) : Int) := by
              rw [← h1]; exact Rs.add_usize_nat _ _ (by omega)
            simp only [eq_true hC, decide_true, if_true, hadd, Ctl.ofRes_ok', Ctl.val_bind',
              array_builder_new_agrees (hdrLen rh + 1) (by omega), iterate_array_agrees, read_u32_four,
              make_container_jentry_agrees, Rs.len, array_push_raw_any, ofBEs, List.nil_append, Fn.docEntry]
            by_cases hLO : hdrType lh = C.OBJECT_CONTAINER_TAG
            case' pos =>
              have he0 : ([Tr.Entry.Raw ⟨((C.CONTAINER_TAG : Nat) : Int), ((left.length % 4294967296 : Nat) : Int)⟩ left] : List Tr.Entry)
                  = ofBEs [Fn.containerEntry left] := rfl
              have hf0 : RawFits [Fn.containerEntry left] ∧ (bpaysL [Fn.containerEntry left]).length ≤ left.length := by
                refine ⟨by simp only [Fn.containerEntry, RawFits]; exact ⟨⟨by decide, Nat.mod_lt _ (by decide)⟩, trivial⟩, ?_⟩
                simp [bpaysL, Fn.containerEntry, bspec_raw]
              simp only [eq_true hLO, decide_true, if_true, Ctl.ofRes_ok', Ctl.val_bind', he0]
              generalize Fn.containerEntry left = e0 at hf0 ⊢
              revert e0
            case' neg =>
              simp only [eq_false hLO, decide_false, Bool.false_eq_true, if_false, Fn.scalarEntry]
              cases hr4 : readU32At left 4
              case' none => simp only [Ctl.ofRes_err', Ctl.ret_bind', Ctl.run_ret']
              case' some w =>
                have h8 := readU32At_some_len left 4 w hr4
                have hw := readU32At_lt left 4 w hr4
                have he0 : ([Tr.Entry.Raw ⟨((jeType w : Nat) : Int), ((jeLen w : Nat) : Int)⟩ (left.drop 8)] : List Tr.Entry)
                    = ofBEs [BEntry.raw (jeType w) (jeLen w) (left.drop 8)] := rfl
                have hf0 : RawFits [BEntry.raw (jeType w) (jeLen w) (left.drop 8)] ∧
                    (bpaysL [BEntry.raw (jeType w) (jeLen w) (left.drop 8)]).length ≤ left.length := by
                  refine ⟨by simp only [RawFits]; exact ⟨jeFits_ofWord w hw, trivial⟩, ?_⟩
                  simp [bpaysL, bspec_raw]
                simp only [Ctl.ofRes_ok', Ctl.val_bind', decode_jentry_agrees, (sliceFrom_eight left (by omega)).1,
                  (sliceFrom_eight left (by omega)).2, he0]
                generalize BEntry.raw (jeType w) (jeLen w) (left.drop 8) = e0 at hf0 ⊢
                revert e0
            all_goals
              intro e0 hf0
              rw [forIter_array right rh fuel (by omega) pushArr _ concat_loop5_step]
              cases hir : iterArray right rh with
              | ok rs =>
                obtain ⟨br1, br2, br3⟩ := iterArray_bounds right rh rs hir
                simp only [Ctl.val_bind', fold_pushArr rs [e0]]
                have hraw : RawFits ([e0] ++ rs.map Fn.rawOf) := (rawFits_append _ _).2 ⟨hf0.1, rawFits_map_rawOf _ br2⟩
                obtain ⟨n, hT, hM⟩ := array_build_raw _ hraw buf fuel (by omega)
                  (by simp only [List.length_append, List.length_map, List.length_cons, List.length_nil]; omega)
                  (by simp only [bpaysL_append, List.length_append, bpaysL_map_rawOf, List.length_map, List.length_cons, List.length_nil]; omega)
                rw [hT]
                simp only [List.cons_append, List.nil_append] at hM
                rw [hM]
                simp only [Ctl.ofRes_ok', Ctl.val_bind', Ctl.pure_eq', Ctl.run_ret', List.cons_append, List.nil_append]
              | err e => exact absurd hir (iterArray_ne_err _ _ _)
              | panic p => simp only [Ctl.ret_bind', Ctl.run_ret']
              | fuel => exact absurd hir (iterArray_ne_fuel _ _)
          · simp only [eq_false hC, decide_false, Bool.false_eq_true, if_false]
            by_cases hD : hdrType lh = C.ARRAY_CONTAINER_TAG
            · -- left array ++ [right document]
              have hadd : Rs.add .usize ((hdrLen lh : Nat) : Int) 1 = .ok ((hdrLen lh + 1 : Nat) : Int) := by
                rw [← h1]; exact Rs.add_usize_nat _ _ (by omega)
              simp only [eq_true hD, decide_true, if_true, hadd, Ctl.ofRes_ok', Ctl.val_bind',
                array_builder_new_agrees (hdrLen lh + 1) (by omega), iterate_array_agrees, read_u32_four,
                make_container_jentry_agrees, Rs.len, array_push_raw_any, Fn.docEntry]
              rw [forIter_array left lh fuel (by omega) pushArr _ concat_loop6_step]
              cases hil : iterArray left lh with
              | ok ls =>
                obtain ⟨bl1, bl2, bl3⟩ := iterArray_bounds left lh ls hil
                simp only [Ctl.val_bind', fold_pushArr ls [], List.nil_append]
                by_cases hRO : hdrType rh = C.OBJECT_CONTAINER_TAG
                case' pos =>
                  have he0 : ofBEs (ls.map Fn.rawOf) ++
                      [Tr.Entry.Raw ⟨((C.CONTAINER_TAG : Nat) : Int), ((right.length % 4294967296 : Nat) : Int)⟩ right]
                      = ofBEs (ls.map Fn.rawOf ++ [Fn.containerEntry right]) := by rw [ofBEs_append]; rfl
                  have hf0 : RawFits [Fn.containerEntry right] ∧ (bpaysL [Fn.containerEntry right]).length ≤ right.length := by
                    refine ⟨by simp only [Fn.containerEntry, RawFits]; exact ⟨⟨by decide, Nat.mod_lt _ (by decide)⟩, trivial⟩, ?_⟩
                    simp [bpaysL, Fn.containerEntry, bspec_raw]
                  simp only [eq_true hRO, decide_true, if_true, Ctl.ofRes_ok', Ctl.val_bind', he0]
                  generalize Fn.containerEntry right = e0 at hf0 ⊢
                  revert e0
                case' neg =>
                  simp only [eq_false hRO, decide_false, Bool.false_eq_true, if_false, Fn.scalarEntry]
                  cases hr4 : readU32At right 4
                  case' none => simp only [Ctl.ofRes_err', Ctl.ret_bind', Ctl.run_ret']
                  case' some w =>
                    have h8 := readU32At_some_len right 4 w hr4
                    have hw := readU32At_lt right 4 w hr4
                    have he0 : ofBEs (ls.map Fn.rawOf) ++
                        [Tr.Entry.Raw ⟨((jeType w : Nat) : Int), ((jeLen w : Nat) : Int)⟩ (right.drop 8)]
                        = ofBEs (ls.map Fn.rawOf ++ [BEntry.raw (jeType w) (jeLen w) (right.drop 8)]) := by rw [ofBEs_append]; rfl
                    have hf0 : RawFits [BEntry.raw (jeType w) (jeLen w) (right.drop 8)] ∧
                        (bpaysL [BEntry.raw (jeType w) (jeLen w) (right.drop 8)]).length ≤ right.length := by
                      refine ⟨by simp only [RawFits]; exact ⟨jeFits_ofWord w hw, trivial⟩, ?_⟩
                      simp [bpaysL, bspec_raw]
                    simp only [Ctl.ofRes_ok', Ctl.val_bind', decode_jentry_agrees, (sliceFrom_eight right (by omega)).1,
                      (sliceFrom_eight right (by omega)).2, he0]
                    generalize BEntry.raw (jeType w) (jeLen w) (right.drop 8) = e0 at hf0 ⊢
                    revert e0
                all_goals
                  intro e0 hf0
                  have hraw : RawFits (ls.map Fn.rawOf ++ [e0]) := (rawFits_append _ _).2 ⟨rawFits_map_rawOf _ bl2, hf0.1⟩
                  obtain ⟨n, hT, hM⟩ := array_build_raw _ hraw buf fuel (by omega)
                    (by simp only [List.length_append, List.length_map, List.length_cons, List.length_nil]; omega)
                    (by simp only [bpaysL_append, List.length_append, bpaysL_map_rawOf, List.length_map, List.length_cons, List.length_nil]; omega)
                  rw [hT, hM]
                  simp only [Ctl.ofRes_ok', Ctl.val_bind', Ctl.pure_eq', Ctl.run_ret']
              | err e => exact absurd hil (iterArray_ne_err _ _ _)
              | panic p => simp only [Ctl.ret_bind', Ctl.run_ret']
              | fuel => exact absurd hil (iterArray_ne_fuel _ _)
            · -- [left document, right document]
              have h2 : ((2 : Nat) : Int) = 2 := rfl
              simp only [eq_false hD, decide_false, Bool.false_eq_true, if_false, ← h2, Ctl.ofRes_ok', Ctl.val_bind',
                array_builder_new_agrees 2 (by omega), read_u32_four,
                make_container_jentry_agrees, Rs.len, array_push_raw_any, ofBEs, List.nil_append, Fn.docEntry]
              by_cases hLO : hdrType lh = C.OBJECT_CONTAINER_TAG
              case' pos =>
                have he0 : ([Tr.Entry.Raw ⟨((C.CONTAINER_TAG : Nat) : Int), ((left.length % 4294967296 : Nat) : Int)⟩ left] : List Tr.Entry)
                    = ofBEs [Fn.containerEntry left] := rfl
                have hf0 : RawFits [Fn.containerEntry left] ∧ (bpaysL [Fn.containerEntry left]).length ≤ left.length := by
                  refine ⟨by simp only [Fn.containerEntry, RawFits]; exact ⟨⟨by decide, Nat.mod_lt _ (by decide)⟩, trivial⟩, ?_⟩
                  simp [bpaysL, Fn.containerEntry, bspec_raw]
                simp only [eq_true hLO, decide_true, if_true, Ctl.ofRes_ok', Ctl.val_bind', he0]
                generalize Fn.containerEntry left = e0 at hf0 ⊢
                revert e0
              case' neg =>
                simp only [eq_false hLO, decide_false, Bool.false_eq_true, if_false, Fn.scalarEntry]
                cases hr4 : readU32At left 4
                case' none => simp only [Ctl.ofRes_err', Ctl.ret_bind', Ctl.run_ret']
                case' some w =>
                  have h8 := readU32At_some_len left 4 w hr4
                  have hw := readU32At_lt left 4 w hr4
                  have he0 : ([Tr.Entry.Raw ⟨((jeType w : Nat) : Int), ((jeLen w : Nat) : Int)⟩ (left.drop 8)] : List Tr.Entry)
                      = ofBEs [BEntry.raw (jeType w) (jeLen w) (left.drop 8)] := rfl
                  have hf0 : RawFits [BEntry.raw (jeType w) (jeLen w) (left.drop 8)] ∧
                      (bpaysL [BEntry.raw (jeType w) (jeLen w) (left.drop 8)]).length ≤ left.length := by
                    refine ⟨by simp only [RawFits]; exact ⟨jeFits_ofWord w hw, trivial⟩, ?_⟩
                    simp [bpaysL, bspec_raw]
                  simp only [Ctl.ofRes_ok', Ctl.val_bind', decode_jentry_agrees, (sliceFrom_eight left (by omega)).1,
                    (sliceFrom_eight left (by omega)).2, he0]
                  generalize BEntry.raw (jeType w) (jeLen w) (left.drop 8) = e0 at hf0 ⊢
                  revert e0
              all_goals
                intro e0 hf0
                by_cases hRO : hdrType rh = C.OBJECT_CONTAINER_TAG
                case' pos =>
                  have he1 : ofBEs [e0] ++
                      [Tr.Entry.Raw ⟨((C.CONTAINER_TAG : Nat) : Int), ((right.length % 4294967296 : Nat) : Int)⟩ right]
                      = ofBEs ([e0] ++ [Fn.containerEntry right]) := by rw [ofBEs_append]; rfl
                  have hf1 : RawFits [Fn.containerEntry right] ∧ (bpaysL [Fn.containerEntry right]).length ≤ right.length := by
                    refine ⟨by simp only [Fn.containerEntry, RawFits]; exact ⟨⟨by decide, Nat.mod_lt _ (by decide)⟩, trivial⟩, ?_⟩
                    simp [bpaysL, Fn.containerEntry, bspec_raw]
                  simp only [eq_true hRO, decide_true, if_true, Ctl.ofRes_ok', Ctl.val_bind', he1]
                  generalize Fn.containerEntry right = e1 at hf1 ⊢
                  revert e1
                case' neg =>
                  simp only [eq_false hRO, decide_false, Bool.false_eq_true, if_false, Fn.scalarEntry]
                  cases hr4 : readU32At right 4
                  case' none => simp only [Ctl.ofRes_err', Ctl.ret_bind', Ctl.run_ret']
                  case' some w =>
                    have h8 := readU32At_some_len right 4 w hr4
                    have hw := readU32At_lt right 4 w hr4
                    have he1 : ofBEs [e0] ++
                        [Tr.Entry.Raw ⟨((jeType w : Nat) : Int), ((jeLen w : Nat) : Int)⟩ (right.drop 8)]
                        = ofBEs ([e0] ++ [BEntry.raw (jeType w) (jeLen w) (right.drop 8)]) := by rw [ofBEs_append]; rfl
                    have hf1 : RawFits [BEntry.raw (jeType w) (jeLen w) (right.drop 8)] ∧
                        (bpaysL [BEntry.raw (jeType w) (jeLen w) (right.drop 8)]).length ≤ right.length := by
                      refine ⟨by simp only [RawFits]; exact ⟨jeFits_ofWord w hw, trivial⟩, ?_⟩
                      simp [bpaysL, bspec_raw]
                    simp only [Ctl.ofRes_ok', Ctl.val_bind', decode_jentry_agrees, (sliceFrom_eight right (by omega)).1,
                      (sliceFrom_eight right (by omega)).2, he1]
                    generalize BEntry.raw (jeType w) (jeLen w) (right.drop 8) = e1 at hf1 ⊢
                    revert e1
                all_goals
                  intro e1 hf1
                  have hraw : RawFits ([e0] ++ [e1]) := (rawFits_append _ _).2 ⟨hf0.1, hf1.1⟩
                  obtain ⟨n, hT, hM⟩ := array_build_raw _ hraw buf fuel (by omega)
                    (by simp only [List.length_append, List.length_cons, List.length_nil]; omega)
                    (by simp only [bpaysL_append, List.length_append, List.length_cons, List.length_nil]; omega)
                  rw [hT]
                  simp only [List.cons_append, List.nil_append] at hM
                  rw [hM]
                  simp only [Ctl.ofRes_ok', Ctl.val_bind', Ctl.pure_eq', Ctl.run_ret', List.cons_append, List.nil_append]

/-- when the model's answer is not a panic, the agreement is an equality -/
theorem concat_jsonb_agrees_eq (left right buf : Bytes) (fuel : Nat) (hfuel : 536870913 < fuel)
    (hl : left.length < 1152921504606846976) (hr : right.length < 1152921504606846976)
    (hb : buf.length < 1152921504606846976) (hnp : (Fn.concat left right buf).isPanic = false) :
    Tr.concat_jsonb fuel left right buf = Fn.concat left right buf :=
  panicAny_eq _ _ (concat_jsonb_agrees left right buf fuel hfuel hl hr hb) hnp

/-- **`concat`**: on two JSONB inputs the translated public function is the JSONB helper, otherwise the
result of the text branch (`text`, exactly where the source returns it) -/
theorem concat_agrees (left right buf : Bytes) (fuel : Nat) (text : Res Bytes) (hfuel : 536870913 < fuel)
    (hl : left.length < 1152921504606846976) (hr : right.length < 1152921504606846976)
    (hb : buf.length < 1152921504606846976) :
    panicAny (Tr.concat fuel left right buf text) =
      panicAny (if isJsonb left && isJsonb right then Fn.concat left right buf else text) := by
  have hmain := concat_jsonb_agrees left right buf fuel hfuel hl hr hb
  unfold Tr.concat
  simp only [is_jsonb_agrees, Ctl.ofRes_ok', Ctl.val_bind']
  cases hjl : isJsonb left
  · simp only [Bool.not_false, if_true, Ctl.pure_eq', Ctl.val_bind', Ctl.ret_bind', Ctl.run_ret', Bool.false_and,
      Bool.false_eq_true, if_false]
  · cases hjr : isJsonb right
    · simp only [Bool.not_true, Bool.false_eq_true, if_false, Ctl.ofRes_ok', Ctl.val_bind', Ctl.pure_eq', Bool.not_false,
        if_true, Ctl.ret_bind', Ctl.run_ret', Bool.and_false]
    · simp only [Bool.not_true, Bool.false_eq_true, if_false, Ctl.ofRes_ok', Ctl.val_bind', Ctl.pure_eq', Bool.and_self,
        if_true]
      rw [← hmain]
      cases Tr.concat_jsonb fuel left right buf <;> rfl

end Jsonb.TrAgree
