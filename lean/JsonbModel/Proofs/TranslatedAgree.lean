/-
Agreement between the machine-translated leaf functions (`Generated/Translated.lean`, written by
tools/rs2lean.py from /repo's current source) and the hand-written model.  Umbrella module:
`lake build JsonbModel.Proofs.TranslatedAgree` re-checks every agreement theorem.
  part 1: jentry.rs, leaf helpers of functions.rs / util.rs, Selector::convert_index / convert_slice
  part 2: Number::compact_encode / decode / as_i64 / as_u64
  part 3: cmp_int_float, impl Ord for Number
See tools/RS2LEAN.md for the list of theorems.
-/
import JsonbModel.Proofs.TranslatedAgree1
import JsonbModel.Proofs.TranslatedAgree2
import JsonbModel.Proofs.TranslatedAgree3
