/-
Agreement theorems, phase 5a, part 1: the read-only accessors of functions.rs translated from source by
tools/rs2lean5a.py (`Generated/Translated5a.lean`) EQUAL the hand-written model functions of
`Functions/Access.lean` the property theorems (C05) are about: `get_by_index`, `get_by_name`.
The JSON-text branch of every public function is the parameter `text` (its outcome), exactly where the
source returns it; the theorems hold for every value of it.
-/
import JsonbModel.Generated.Translated5a
import JsonbModel.Proofs.TranslatedAgreeD
import JsonbModel.Functions.Text2

set_option linter.unusedSimpArgs false
set_option linter.unusedVariables false

namespace Jsonb.TrAgree
open Jsonb.Rs

/-- closes `state = state'` where the two sides differ in how sums of offsets are spelled and where the casts sit -/
macro "state_arith" : tactic =>
  `(tactic| (simp only [Nat.cast_add, Nat.cast_mul, Nat.cast_ofNat, Int.add_comm, Int.add_left_comm, Int.mul_comm, Int.add_assoc]))

/-- `&value[a..b]` from any spelling of the bounds -/
theorem slice_int (value : Bytes) (aI bI : Int) (a b : Nat) (ha : aI = (a : Int)) (hb : bI = (b : Int)) :
    Rs.slice value aI bI = Jsonb.slice value a b := by
  subst ha hb; exact slice_model value a b

/-! ## what the two entry walkers return: an entry read from a word, at an offset the walk can reach -/

theorem gjbiLoop_hit (value : Bytes) (index : Nat) : ∀ (n i jo vo : Nat) (je : JE) (vo' : Nat),
    getJentryByIndexLoop value index n i jo vo = some (je, vo') →
    je.len < 268435456 ∧ je.enc < 4294967296 ∧ vo' ≤ vo + n * 268435456 := by
  intro n
  induction n with
  | zero => intro i jo vo je vo' h; simp [getJentryByIndexLoop] at h
  | succ n ih =>
    intro i jo vo je vo' h
    rw [getJentryByIndexLoop] at h
    cases hr : readU32At value jo with
    | none => simp [hr] at h
    | some w =>
      simp only [hr] at h
      have hl := jeLen_lt w
      by_cases hi : i < index
      · simp only [hi, if_true] at h
        have := ih _ _ _ _ _ h
        omega
      · simp only [hi, if_false, Option.some.injEq, Prod.mk.injEq] at h
        obtain ⟨rfl, rfl⟩ := h
        exact ⟨jeLen_lt w, readU32At_lt _ _ _ hr, by omega⟩

theorem gjbi_hit (value : Bytes) (offset header index : Nat) (je : JE) (vo : Nat)
    (h : getJentryByIndex value offset header index = some (je, vo)) :
    je.len < 268435456 ∧ je.enc < 4294967296 ∧ vo ≤ offset + 4 * hdrLen header + 4 + hdrLen header * 268435456 := by
  unfold getJentryByIndex at h
  dsimp only at h
  split at h
  · cases h
  · have := gjbiLoop_hit value index _ _ _ _ _ _ h
    omega

/-- `hit.map(|(jentry, encoded, val_offset)| extract_by_jentry(&jentry, encoded, val_offset, value))` -/
theorem extract_hit (value : Bytes) (r : Option (JE × Nat))
    (hfit : ∀ je vo, r = some (je, vo) → je.len < 4294967296 ∧ je.enc < 4294967296 ∧ vo ≤ 9223372036854775807) :
    (match r.map ofHit with
      | some (jentry, encoded, val_offset) =>
        (Ctl.ofRes (Tr.extract_by_jentry jentry encoded val_offset value) >>= fun t =>
          (Ctl.ret (Res.ok (some t)) : Ctl (Option Bytes) (Option Bytes)))
      | none => Ctl.ret (Res.ok none)) = Ctl.ret (Fn.extractOpt value r) := by
  cases r with
  | none => rfl
  | some p =>
    obtain ⟨je, vo⟩ := p
    obtain ⟨h1, h2, h3⟩ := hfit je vo rfl
    simp only [Option.map_some, ofHit, Fn.extractOpt]
    rw [extract_by_jentry_agrees je vo value h1 h2 h3]
    cases extractByJentry je vo value <;> rfl

/-! ## get_by_index -/

theorem get_by_index_agrees (value : Bytes) (index : Nat) (text : Res (Option Bytes)) :
    Tr.get_by_index value (index : Int) text = if isJsonb value then Fn.getByIndex value index else text := by
  unfold Tr.get_by_index Fn.getByIndex
  rw [is_jsonb_agrees, read_u32_zero]
  cases hj : isJsonb value
  · simp [Ctl.ofRes, Ctl.run]
  · cases hr : readU32At value 0 with
    | none => simp [Ctl.ofRes, Ctl.run, Rs.okQ]
    | some w =>
      have ht := hdrType_eq w C.ARRAY_CONTAINER_TAG
      have hL := hdrLen_lt w
      simp only [Rs.okQ_ok', Ctl.ofRes_ok', Ctl.val_bind', Ctl.pure_eq', Bool.not_true, Bool.false_eq_true, if_false,
        if_true, ht]
      by_cases hh : hdrType w = C.ARRAY_CONTAINER_TAG
      · simp only [hh, decide_true, if_true]
        have h0 : ((0 : Nat) : Int) = 0 := rfl
        rw [← h0, get_jentry_by_index_agrees value 0 w index (by omega)]
        simp only [Ctl.ofRes_ok', Ctl.val_bind']
        have := extract_hit value (getJentryByIndex value 0 w index) (by
          intro je vo h
          have := gjbi_hit value 0 w index je vo h
          omega)
        exact (congrArg Ctl.run this).trans (Ctl.run_ret' _)
      · simp [hh]


/-! ## get_by_name -/

/-- a hit of the second loop of `get_jentry_by_name`: an entry read from a word, at most one key entry length per
remaining key away -/
theorem gbnLoop_hit (value name : Bytes) (ic : Bool) : ∀ (ks : List Nat) (ko jo vo : Nat) (result : Option (JE × Nat))
    (B : Nat) (je : JE) (vo' : Nat),
    (∀ je0 vo0, result = some (je0, vo0) → je0.len < 268435456 ∧ je0.enc < 4294967296 ∧ vo0 ≤ B) →
    vo + ks.length * 268435456 ≤ B →
    getByNameLoop value name ic ks ko jo vo result = .ok (some (je, vo')) →
    je.len < 268435456 ∧ je.enc < 4294967296 ∧ vo' ≤ B := by
  intro ks
  induction ks with
  | nil =>
    intro ko jo vo result B je vo' hres _ h
    simp only [getByNameLoop, Res.ok.injEq] at h
    exact hres je vo' h
  | cons k ks ih =>
    intro ko jo vo result B je vo' hres hB h
    simp only [List.length_cons] at hB
    rw [getByNameLoop] at h
    cases hs : Jsonb.slice value ko (ko + k) with
    | ok key =>
      simp only [hs] at h
      cases hr : readU32At value jo with
      | none => simp [hr] at h
      | some w =>
        simp only [hr] at h
        have hl := jeLen_lt w
        have hw := readU32At_lt _ _ _ hr
        by_cases hn : (name == key) = true
        · simp only [hn, if_true, Res.ok.injEq, Option.some.injEq, Prod.mk.injEq] at h
          obtain ⟨rfl, rfl⟩ := h
          exact ⟨hl, hw, by omega⟩
        · simp only [hn, Bool.false_eq_true, if_false] at h
          refine ih _ _ _ _ B je vo' ?_ (by omega) h
          intro je0 vo0 h0
          split at h0
          · simp only [Option.some.injEq, Prod.mk.injEq] at h0
            obtain ⟨rfl, rfl⟩ := h0
            exact ⟨hl, hw, by omega⟩
          · exact hres je0 vo0 h0
    | err e => simp [hs] at h
    | panic e => simp [hs] at h
    | fuel => simp [hs] at h

theorem gjbn_hit (value : Bytes) (offset header : Nat) (name : Bytes) (ic : Bool) (je : JE) (vo : Nat)
    (h : getJentryByName value offset header name ic = .ok (some (je, vo))) :
    je.len < 268435456 ∧ je.enc < 4294967296 ∧
      vo ≤ offset + 8 * hdrLen header + 4 + 2 * hdrLen header * 268435456 := by
  unfold getJentryByName at h
  dsimp only at h
  cases hf : fillKeys value (hdrLen header) (offset + 4) (offset + 8 * hdrLen header + 4) with
  | none => simp [hf] at h
  | some q =>
    obtain ⟨ks, jo, vo1⟩ := q
    simp only [hf] at h
    obtain ⟨h1, _, _, h4⟩ := fillKeys_facts value _ _ _ _ _ _ hf
    refine gbnLoop_hit value name ic ks _ _ _ none _ je vo ?_ ?_ h
    · intro je0 vo0 h0; cases h0
    · rw [h1]; omega

theorem get_by_name_agrees (value name : Bytes) (ic : Bool) (text : Res (Option Bytes)) :
    Tr.get_by_name value name ic text = if isJsonb value then Fn.getByName value name ic else text := by
  unfold Tr.get_by_name Fn.getByName
  rw [is_jsonb_agrees, read_u32_zero]
  cases hj : isJsonb value
  · simp [Ctl.ofRes, Ctl.run]
  · cases hr : readU32At value 0 with
    | none => simp [Ctl.ofRes, Ctl.run, Rs.okQ]
    | some w =>
      have ht := hdrType_eq w C.OBJECT_CONTAINER_TAG
      have hL := hdrLen_lt w
      simp only [Rs.okQ_ok', Ctl.ofRes_ok', Ctl.val_bind', Ctl.pure_eq', Bool.not_true, Bool.false_eq_true, if_false,
        if_true, ht]
      by_cases hh : hdrType w = C.OBJECT_CONTAINER_TAG
      · simp only [hh, decide_true, if_true]
        have h0 : ((0 : Nat) : Int) = 0 := rfl
        rw [← h0, get_jentry_by_name_agrees value 0 w name ic (by omega)]
        cases hg : getJentryByName value 0 w name ic with
        | ok r =>
          simp only [Res.map, Res.bind, Ctl.ofRes_ok', Ctl.val_bind']
          have := extract_hit value r (by
            intro je vo h
            have := gjbn_hit value 0 w name ic je vo (by rw [hg, h])
            omega)
          exact (congrArg Ctl.run this).trans (Ctl.run_ret' _)
        | err e => rfl
        | panic e => rfl
        | fuel => rfl
      · simp [hh]

end Jsonb.TrAgree
