/-
Phase 4 of the source-translator tie: the builders of builder.rs.  `Tr.ArrayBuilder.*`,
`Tr.ObjectBuilder.*`, `Tr.write_entry` (Generated/Translated4.lean, written by tools/rs2lean4.py from
src/builder.rs) against the hand-written model of Builder.lean (`buildEntry`, `buildArrLoop`,
`buildObjKeys`, `buildObjVals`, `buildArrayInto`, `buildObjectInto`, `bInsert`).
-/
import JsonbModel.Generated.Translated4
import JsonbModel.Proofs.TranslatedAgreeC6
import JsonbModel.Proofs.TranslatedAgreeB4
import JsonbModel.Proofs.BuilderLayout

set_option linter.unusedSimpArgs false
set_option linter.unusedVariables false

namespace Jsonb.TrAgree
open Jsonb.Rs

/-! ## representation maps, depth, the Rust domain -/

mutual
/-- the model's builder entry ↦ the translated `Entry` -/
def ofBE : BEntry → Tr.Entry
  | .raw ty len data => .Raw ⟨(ty : Nat), (len : Nat)⟩ data
  | .arr es => .ArrayBuilder ⟨ofBEs es⟩
  | .obj kvs => .ObjectBuilder ⟨ofBKVs kvs⟩
def ofBEs : List BEntry → List Tr.Entry
  | [] => []
  | e :: es => ofBE e :: ofBEs es
def ofBKVs : List (Bytes × BEntry) → List (Bytes × Tr.Entry)
  | [] => []
  | (k, e) :: kvs => (k, ofBE e) :: ofBKVs kvs
end

theorem ofBEs_eq_map (es : List BEntry) : ofBEs es = es.map ofBE := by
  induction es with
  | nil => rfl
  | cons e es ih => simp [ofBEs, ih]

theorem ofBKVs_eq_map (kvs : List (Bytes × BEntry)) : ofBKVs kvs = kvs.map (fun kv => (kv.1, ofBE kv.2)) := by
  induction kvs with
  | nil => rfl
  | cons kv kvs ih => obtain ⟨k, v⟩ := kv; simp [ofBKVs, ih]

theorem ofBEs_append (a b : List BEntry) : ofBEs (a ++ b) = ofBEs a ++ ofBEs b := by
  simp [ofBEs_eq_map]

theorem ofBEs_length (es : List BEntry) : (ofBEs es).length = es.length := by simp [ofBEs_eq_map]
theorem ofBKVs_length (kvs : List (Bytes × BEntry)) : (ofBKVs kvs).length = kvs.length := by simp [ofBKVs_eq_map]

mutual
/-- nesting depth of builders: the recursion depth of `build_into` / `write_entry` is `2 * depth` calls -/
def bdepth : BEntry → Nat
  | .raw _ _ _ => 0
  | .arr es => bdepthL es + 1
  | .obj kvs => bdepthK kvs + 1
def bdepthL : List BEntry → Nat
  | [] => 0
  | e :: es => max (bdepth e) (bdepthL es)
def bdepthK : List (Bytes × BEntry) → Nat
  | [] => 0
  | (_, e) :: kvs => max (bdepth e) (bdepthK kvs)
end

mutual
/-- the Rust domain of a builder tree: the fields of every raw `JEntry` are `u32` values, and the
running `usize` length of every (nested) builder stays below `2^64` (it can only exceed it with more
than `2^32` entries in one container) -/
def fitsB : BEntry → Prop
  | .raw ty len _ => ty < 4294967296 ∧ len < 4294967296
  | .arr es => fitsBL es ∧ 4 + es.length * 4 + bsizeL es < 18446744073709551616
  | .obj kvs => fitsBK kvs ∧ 4 + kvs.length * 8 + (bkeyBytes kvs).length + bsizeK kvs < 18446744073709551616
def fitsBL : List BEntry → Prop
  | [] => True
  | e :: es => fitsB e ∧ fitsBL es
def fitsBK : List (Bytes × BEntry) → Prop
  | [] => True
  | (_, e) :: kvs => fitsB e ∧ fitsBK kvs
end

/-- the bytes an entry appends -/
def bpay (e : BEntry) : Bytes := (bspec e).2.2

theorem bpay_arr_length (es : List BEntry) :
    (bpay (.arr es)).length = 4 + es.length * 4 + (bpaysL es).length := by
  simp [bpay, bspec, u32be, bwordsL_length]; omega

theorem bpay_obj_length (kvs : List (Bytes × BEntry)) :
    (bpay (.obj kvs)).length = 4 + kvs.length * 8 + (bkeyBytes kvs).length + (bpaysK kvs).length := by
  simp [bpay, bspec, u32be, bwordsK_length, bkeyWords_length]; omega

/-! ## constructors and pushes -/

theorem array_builder_new_agrees (n : Nat) (h : n * 32 ≤ 9223372036854775807) :
    Tr.ArrayBuilder.new (n : Int) = .ok ⟨ofBEs []⟩ := by
  unfold Tr.ArrayBuilder.new
  rw [vecWithCapacity_ok _ _ _ h]
  simp only [Ctl.ofRes_ok', Ctl.val_bind', Ctl.run_ret', ofBEs]

/-- beyond `isize::MAX` bytes of capacity `Vec::with_capacity` panics -/
theorem array_builder_new_overflow (n : Nat) (h : 9223372036854775807 < n * 32) :
    Tr.ArrayBuilder.new (n : Int) = .panic "capacity overflow" := by
  unfold Tr.ArrayBuilder.new Rs.vecWithCapacity
  have hc : (n : Int) * ((32 : Nat) : Int) = ((n * 32 : Nat) : Int) := by push_cast; rfl
  rw [hc, if_neg (by simp; omega)]
  rfl

theorem array_push_raw_agrees (es : List BEntry) (ty len : Nat) (data : Bytes) :
    Tr.ArrayBuilder.push_raw ⟨ofBEs es⟩ ⟨(ty : Nat), (len : Nat)⟩ data = .ok ⟨ofBEs (es ++ [.raw ty len data])⟩ := by
  unfold Tr.ArrayBuilder.push_raw
  simp only [Ctl.run_ret', Rs.vecPush, ofBEs_append, ofBEs, ofBE]

theorem array_push_array_agrees (es sub : List BEntry) :
    Tr.ArrayBuilder.push_array ⟨ofBEs es⟩ ⟨ofBEs sub⟩ = .ok ⟨ofBEs (es ++ [.arr sub])⟩ := by
  unfold Tr.ArrayBuilder.push_array
  simp only [Ctl.run_ret', Rs.vecPush, ofBEs_append, ofBEs, ofBE]

theorem array_push_object_agrees (es : List BEntry) (sub : List (Bytes × BEntry)) :
    Tr.ArrayBuilder.push_object ⟨ofBEs es⟩ ⟨ofBKVs sub⟩ = .ok ⟨ofBEs (es ++ [.obj sub])⟩ := by
  unfold Tr.ArrayBuilder.push_object
  simp only [Ctl.run_ret', Rs.vecPush, ofBEs_append, ofBEs, ofBE]

theorem object_builder_new_agrees : Tr.ObjectBuilder.new = .ok ⟨ofBKVs []⟩ := by
  unfold Tr.ObjectBuilder.new
  simp only [Ctl.run_ret', Rs.btreeNew, ofBKVs]

/-- `BTreeMap<&str, Entry>::insert` on the key-sorted entry list is the model's `bInsert` (last push wins) -/
theorem btreeInsert_bInsert (k : Bytes) (e : BEntry) (m : List (Bytes × BEntry)) :
    Rs.btreeInsert (ofBKVs m) k (ofBE e) = ofBKVs (bInsert k e m) := by
  induction m with
  | nil => rfl
  | cons kv m ih =>
    obtain ⟨k', v'⟩ := kv
    simp only [ofBKVs, Rs.btreeInsert, bInsert, cmpBytes_eq_lexCmp]
    cases lexCmp k k' <;> simp [ofBKVs, ih]

theorem object_push_raw_agrees (m : List (Bytes × BEntry)) (k : Bytes) (ty len : Nat) (data : Bytes) :
    Tr.ObjectBuilder.push_raw ⟨ofBKVs m⟩ k ⟨(ty : Nat), (len : Nat)⟩ data = .ok ⟨ofBKVs (bInsert k (.raw ty len data) m)⟩ := by
  unfold Tr.ObjectBuilder.push_raw
  simp only [Ctl.run_ret', ← btreeInsert_bInsert, ofBE]

theorem object_push_array_agrees (m : List (Bytes × BEntry)) (k : Bytes) (sub : List BEntry) :
    Tr.ObjectBuilder.push_array ⟨ofBKVs m⟩ k ⟨ofBEs sub⟩ = .ok ⟨ofBKVs (bInsert k (.arr sub) m)⟩ := by
  unfold Tr.ObjectBuilder.push_array
  simp only [Ctl.run_ret', ← btreeInsert_bInsert, ofBE]

theorem object_push_object_agrees (m : List (Bytes × BEntry)) (k : Bytes) (sub : List (Bytes × BEntry)) :
    Tr.ObjectBuilder.push_object ⟨ofBKVs m⟩ k ⟨ofBKVs sub⟩ = .ok ⟨ofBKVs (bInsert k (.obj sub) m)⟩ := by
  unfold Tr.ObjectBuilder.push_object
  simp only [Ctl.run_ret', ← btreeInsert_bInsert, ofBE]

/-! ## one unfolding of `write_entry`, per constructor -/

theorem write_entry_raw (g : Nat) (b : Bytes) (je : Tr.JEntry) (data : Bytes) :
    Tr.write_entry (g + 1) b (.Raw je data) = .ok (je, b ++ data) := by
  rw [Tr.write_entry]
  simp only [Rs.extendFromSlice, Ctl.run_ret']

theorem write_entry_arr (g : Nat) (b : Bytes) (ab : Tr.ArrayBuilder) :
    Tr.write_entry (g + 1) b (.ArrayBuilder ab) =
      (Tr.ArrayBuilder.build_into g ab b).bind (fun p =>
        (Tr.JEntry.make_container_jentry p.1).bind (fun je => .ok (je, p.2))) := by
  rw [Tr.write_entry]
  dsimp only
  cases Tr.ArrayBuilder.build_into g ab b with
  | ok p =>
    simp only [Ctl.ofRes_ok', Ctl.val_bind', Res.bind]
    cases Tr.JEntry.make_container_jentry p.1 <;> rfl
  | err e => rfl
  | panic s => rfl
  | fuel => rfl

theorem write_entry_obj (g : Nat) (b : Bytes) (ob : Tr.ObjectBuilder) :
    Tr.write_entry (g + 1) b (.ObjectBuilder ob) =
      (Tr.ObjectBuilder.build_into g ob b).bind (fun p =>
        (Tr.JEntry.make_container_jentry p.1).bind (fun je => .ok (je, p.2))) := by
  rw [Tr.write_entry]
  dsimp only
  cases Tr.ObjectBuilder.build_into g ob b with
  | ok p =>
    simp only [Ctl.ofRes_ok', Ctl.val_bind', Res.bind]
    cases Tr.JEntry.make_container_jentry p.1 <;> rfl
  | err e => rfl
  | panic s => rfl
  | fuel => rfl

/-! ## the loops, for any callee `rec` whose answer on the current element is known -/

/-- one iteration of the entry loop of `ArrayBuilder::build_into` -/
theorem ab_loop1_step (rec : Bytes → Tr.Entry → Res (Tr.JEntry × Bytes)) (e : Tr.Entry)
    (b b1 b2 : Bytes) (acc idx ty len : Nat)
    (hrec : rec b e = .ok (⟨(ty : Nat), (len : Nat)⟩, b1)) (hty : ty < 4294967296) (hlen : len < 4294967296)
    (hacc : acc + len < 18446744073709551616) (hb1 : b1.length < 18446744073709551616)
    (hrep : replaceJentry b1 (jentryWord ty len) idx = .ok b2) :
    Tr.ArrayBuilder.build_into.loop1 rec e (b, (acc : Int), (idx : Int)) =
      Ctl.val (.next (b2, ((acc + len : Nat) : Int), ((idx + 4 : Nat) : Int))) := by
  have hidx : idx + 4 ≤ b1.length := by
    unfold replaceJentry at hrep
    by_cases h : idx + 4 ≤ b1.length
    · exact h
    · rw [if_neg h] at hrep; cases hrep
  unfold Tr.ArrayBuilder.build_into.loop1
  dsimp only
  rw [hrec]
  simp only [Ctl.ofRes_ok', Ctl.val_bind', Rs.usize_nat _ (show len < 18446744073709551616 by omega),
    Rs.add_usize_nat _ _ hacc, replace_jentry_agrees b1 ty len idx hty hlen hidx hb1]
  rw [← jentryWord_lt ty len hlen, hrep]
  simp only [Res.map, Res.bind, Ctl.ofRes_ok', Ctl.val_bind', Ctl.pure_eq', Rs.loopStep_val']

/-- one iteration of the value loop of `ObjectBuilder::build_into` -/
theorem ob_loop2_step (rec : Bytes → Tr.Entry → Res (Tr.JEntry × Bytes)) (k : Bytes) (e : Tr.Entry)
    (b b1 b2 : Bytes) (acc idx ty len : Nat)
    (hrec : rec b e = .ok (⟨(ty : Nat), (len : Nat)⟩, b1)) (hty : ty < 4294967296) (hlen : len < 4294967296)
    (hacc : acc + len < 18446744073709551616) (hb1 : b1.length < 18446744073709551616)
    (hrep : replaceJentry b1 (jentryWord ty len) idx = .ok b2) :
    Tr.ObjectBuilder.build_into.loop2 rec (k, e) (b, (acc : Int), (idx : Int)) =
      Ctl.val (.next (b2, ((acc + len : Nat) : Int), ((idx + 4 : Nat) : Int))) := by
  have hidx : idx + 4 ≤ b1.length := by
    unfold replaceJentry at hrep
    by_cases h : idx + 4 ≤ b1.length
    · exact h
    · rw [if_neg h] at hrep; cases hrep
  unfold Tr.ObjectBuilder.build_into.loop2
  dsimp only
  rw [hrec]
  simp only [Ctl.ofRes_ok', Ctl.val_bind', Rs.usize_nat _ (show len < 18446744073709551616 by omega),
    Rs.add_usize_nat _ _ hacc, replace_jentry_agrees b1 ty len idx hty hlen hidx hb1]
  rw [← jentryWord_lt ty len hlen, hrep]
  simp only [Res.map, Res.bind, Ctl.ofRes_ok', Ctl.val_bind', Ctl.pure_eq', Rs.loopStep_val']

/-- one iteration of the key loop of `ObjectBuilder::build_into` -/
theorem ob_loop1_step (k : Bytes) (e : Tr.Entry) (b b2 : Bytes) (acc idx : Nat)
    (hacc : acc + k.length < 18446744073709551616)
    (hb1 : b.length + k.length < 18446744073709551616)
    (hrep : replaceJentry (b ++ k) (jentryWord C.STRING_TAG k.length) idx = .ok b2) :
    Tr.ObjectBuilder.build_into.loop1 (k, e) ((acc : Int), b, (idx : Int)) =
      Ctl.val (.next (((acc + k.length : Nat) : Int), b2, ((idx + 4 : Nat) : Int))) := by
  have hidx : idx + 4 ≤ (b ++ k).length := by
    unfold replaceJentry at hrep
    by_cases h : idx + 4 ≤ (b ++ k).length
    · exact h
    · rw [if_neg h] at hrep; cases hrep
  have hT : C.STRING_TAG < 4294967296 := by decide
  have hk : k.length % 4294967296 < 4294967296 := Nat.mod_lt _ (by decide)
  unfold Tr.ObjectBuilder.build_into.loop1
  dsimp only
  simp only [Rs.len, Rs.add_usize_nat _ _ hacc, Ctl.ofRes_ok', Ctl.val_bind', Rs.extendFromSlice,
    make_string_jentry_agrees,
    replace_jentry_agrees (b ++ k) C.STRING_TAG (k.length % 4294967296) idx hT hk hidx (by simp; omega)]
  have hw : C.STRING_TAG ||| k.length % 4294967296 = jentryWord C.STRING_TAG k.length := rfl
  rw [hw, hrep]
  simp only [Res.map, Res.bind, Ctl.ofRes_ok', Ctl.val_bind', Ctl.pure_eq', Rs.loopStep_val']

/-! ## one unfolding of the two `build_into`, up to their loops -/

theorem array_build_into_succ (g : Nat) (b : Bytes) (es : List Tr.Entry)
    (h : b.length + 4 + es.length * 4 < 18446744073709551616) :
    Tr.ArrayBuilder.build_into (g + 1) ⟨es⟩ b =
      Ctl.run (Rs.forIn es ((b ++ u32be (headerWord C.ARRAY_CONTAINER_TAG es.length)) ++ zeros (es.length * 4),
            ((4 + es.length * 4 : Nat) : Int), ((b.length + 4 : Nat) : Int))
          (Tr.ArrayBuilder.build_into.loop1 (Tr.write_entry g)) >>= fun st =>
        Ctl.ret (Res.ok (st.2.1, st.1))) := by
  rw [Tr.ArrayBuilder.build_into]
  have hw := headerWord_lt C.ARRAY_CONTAINER_TAG es.length (by decide)
  simp only [Rs.len, header_term, header_term', writeU32BE_nat _ _ hw]
  simp (disch := omega) only [Rs.mul_usize_ok', Rs.add_usize_ok', Ctl.ofRes_ok', Ctl.val_bind']
  have hres := reserve_jentries_agrees (b ++ u32be (headerWord C.ARRAY_CONTAINER_TAG es.length)) (es.length * 4)
    (by simp [u32be]; omega)
  have hcast : ((es.length : Nat) : Int) * 4 = ((es.length * 4 : Nat) : Int) := by omega
  have hcast' : (4 : Int) * ((es.length : Nat) : Int) = ((es.length * 4 : Nat) : Int) := by omega
  simp only [hcast, hcast', hres]
  simp only [Ctl.ofRes_ok', Ctl.val_bind']
  have hlen1 : (b ++ u32be (headerWord C.ARRAY_CONTAINER_TAG es.length)).length = b.length + 4 := by simp [u32be]
  rw [hlen1]
  congr 5 <;> omega

theorem object_build_into_succ (g : Nat) (b : Bytes) (kvs : List (Bytes × Tr.Entry))
    (h : b.length + 4 + kvs.length * 8 < 18446744073709551616) :
    Tr.ObjectBuilder.build_into (g + 1) ⟨kvs⟩ b =
      Ctl.run (Rs.forIn kvs (((4 + kvs.length * 8 : Nat) : Int),
            (b ++ u32be (headerWord C.OBJECT_CONTAINER_TAG kvs.length)) ++ zeros (kvs.length * 8),
            ((b.length + 4 : Nat) : Int))
          Tr.ObjectBuilder.build_into.loop1 >>= fun st1 =>
        Rs.forIn kvs (st1.2.1, st1.1, st1.2.2) (Tr.ObjectBuilder.build_into.loop2 (Tr.write_entry g)) >>= fun st2 =>
        Ctl.ret (Res.ok (st2.2.1, st2.1))) := by
  rw [Tr.ObjectBuilder.build_into]
  have hw := headerWord_lt C.OBJECT_CONTAINER_TAG kvs.length (by decide)
  simp only [Rs.len, header_term, header_term', writeU32BE_nat _ _ hw]
  simp (disch := omega) only [Rs.mul_usize_ok', Rs.add_usize_ok', Ctl.ofRes_ok', Ctl.val_bind']
  have hres := reserve_jentries_agrees (b ++ u32be (headerWord C.OBJECT_CONTAINER_TAG kvs.length)) (kvs.length * 8)
    (by simp [u32be]; omega)
  have hcast : ((kvs.length : Nat) : Int) * 8 = ((kvs.length * 8 : Nat) : Int) := by omega
  have hcast' : (8 : Int) * ((kvs.length : Nat) : Int) = ((kvs.length * 8 : Nat) : Int) := by omega
  simp only [hcast, hcast', hres]
  simp only [Ctl.ofRes_ok', Ctl.val_bind']
  have hlen1 : (b ++ u32be (headerWord C.OBJECT_CONTAINER_TAG kvs.length)).length = b.length + 4 := by simp [u32be]
  rw [hlen1]
  congr 5 <;> omega

end Jsonb.TrAgree
