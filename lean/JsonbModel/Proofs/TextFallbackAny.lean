/-
C10: the text fallback WITHOUT the bound `t.length < 2^27` of `C10_text_fallback`.

Result: the bound can be dropped for every first byte except `[` (0x5B) and `\` (0x5C).  These two
have the type bits 010 of an OBJECT header, and the remaining 29 bits of the first four bytes are
then read as a pair count (`hdrCount`, at least 27·2^24 = 452984832).  For them the sharp condition
is "fewer than `8 * hdrCount` bytes follow the first four" (`fromSlice_text_sharp`); in particular
every text shorter than 4 + 8·27·2^24 = 3623878660 bytes falls through to the text parser
(`fromSlice_text_lt`).  The condition cannot be weakened: for every header `5B/5C b1 b2 b3` the byte
string header ++ count × `10 00 00 00` (key entry: empty string) ++ count × `00 00 00 00` (value
entry: null) ++ any tail is ACCEPTED by the binary decoder as `{"": null}`
(`parseJsonb_text_accepted`; the decoder does not require sorted or distinct keys), and with the
header `5B 00 00 00` the text parser rejects it (`text_fallback_counterexample`).  The 3.6·10^9 bytes are
never materialised: the statements are about `tfWords n w` for a symbolic `n`.
-/
import JsonbModel.Proofs.TextFallback
import JsonbModel.Proofs.JsonParserExact

namespace Jsonb
open JV

/-- the 29-bit count field of the header word whose bytes are `b0 b1 b2 b3` -/
def hdrCount (b0 b1 b2 b3 : UInt8) : Nat :=
  (b0.toNat % 32) * 16777216 + b1.toNat * 65536 + b2.toNat * 256 + b3.toNat

theorem jsonStart_cases' : ∀ n, n < 256 → jsonStart (UInt8.ofNat n) = true →
    (n / 32 = 0 ∨ n / 32 = 3) ∨ (n / 32 = 1 ∧ n ≠ 32) ∨ (n = 91 ∨ n = 92) := by
  decide +kernel

theorem hdr_arith' (H b0 b1 b2 b3 : Nat) (hb1 : b1 < 256) (hb2 : b2 < 256) (hb3 : b3 < 256)
    (hH : b0 * 16777216 + b1 * 65536 + b2 * 256 + b3 = H) :
    H / 536870912 = b0 / 32 ∧ H % 536870912 = (b0 % 32) * 16777216 + b1 * 65536 + b2 * 256 + b3 := by
  have h1 := Nat.div_add_mod b0 32
  have h2 : b0 % 32 < 32 := Nat.mod_lt _ (by decide)
  have e : H = ((b0 % 32) * 16777216 + (b1 * 65536 + b2 * 256 + b3)) + (b0 / 32) * 536870912 := by omega
  have hlt : (b0 % 32) * 16777216 + (b1 * 65536 + b2 * 256 + b3) < 536870912 := by omega
  constructor
  · rw [e, Nat.add_mul_div_right _ _ (by decide), Nat.div_eq_of_lt hlt]; simp
  · rw [e, Nat.add_mul_mod_self_right, Nat.mod_eq_of_lt hlt]; simp only [Nat.add_assoc]

/-- the binary decoder rejects a text unless its first byte is `[` or `\` AND at least
`8 * count` bytes follow the four header bytes -/
theorem decJsonb_text_err_sharp (fuel : Nat) (b0 b1 b2 b3 : UInt8) (rest : Bytes)
    (hs : jsonStart b0 = true)
    (hl : b0 = 0x5B ∨ b0 = 0x5C → rest.length < 8 * hdrCount b0 b1 b2 b3) :
    ∃ e, decJsonb (fuel + 1) (b0 :: b1 :: b2 :: b3 :: rest) = .err e := by
  have hb0 := b0.toNat_lt; have hb1 := b1.toNat_lt; have hb2 := b2.toNat_lt; have hb3 := b3.toNat_lt
  have hc := jsonStart_cases' b0.toNat hb0 (by rw [show UInt8.ofNat b0.toNat = b0 by simp]; exact hs)
  simp only [decJsonb, hdr_of_first]
  generalize hH : b0.toNat * 16777216 + b1.toNat * 65536 + b2.toNat * 256 + b3.toNat = H
  have ⟨hd2, hm⟩ := hdr_arith' H b0.toNat b1.toNat b2.toNat b3.toNat hb1 hb2 hb3 hH
  have ht : hdrType H = (b0.toNat / 32) * 536870912 := by
    rw [hdrType_eq, hd2, Nat.mod_eq_of_lt (by omega)]
  have s1 : C.SCALAR_CONTAINER_TAG = 1 * 536870912 := by decide
  have s2 : C.ARRAY_CONTAINER_TAG = 4 * 536870912 := by decide
  have s3 : C.OBJECT_CONTAINER_TAG = 2 * 536870912 := by decide
  rcases hc with (h | h) | ⟨h, hne⟩ | hbr
  · rw [ht, h, s1, s2, s3]
    rw [if_neg (by omega), if_neg (by omega), if_neg (by omega)]; exact ⟨_, rfl⟩
  · rw [ht, h, s1, s2, s3]
    rw [if_neg (by omega), if_neg (by omega), if_neg (by omega)]; exact ⟨_, rfl⟩
  · rw [ht, h, s1]
    rw [if_pos rfl, if_pos (by omega)]; exact ⟨_, rfl⟩
  · have h : b0.toNat / 32 = 2 := by omega
    have hb : b0 = 0x5B ∨ b0 = 0x5C := by
      rcases hbr with h | h
      · left; exact UInt8.toNat_inj.mp (by rw [h]; rfl)
      · right; exact UInt8.toNat_inj.mp (by rw [h]; rfl)
    have hl' := hl hb
    unfold hdrCount at hl'
    rw [ht, h, s1, s2, s3]
    rw [if_neg (by omega), if_neg (by omega), if_pos rfl, hdrLen_eq, hm]
    rw [readEntries_short _ _ (by omega)]
    exact ⟨_, rfl⟩

theorem parseJsonb_text_err_sharp (b0 b1 b2 b3 : UInt8) (rest : Bytes)
    (hs : jsonStart b0 = true)
    (hl : b0 = 0x5B ∨ b0 = 0x5C → rest.length < 8 * hdrCount b0 b1 b2 b3) :
    ∃ e, parseJsonb (b0 :: b1 :: b2 :: b3 :: rest) = .err e := by
  unfold parseJsonb
  rw [if_neg (by simp)]
  have hf : decFuel (b0 :: b1 :: b2 :: b3 :: rest) = (decFuel (b0 :: b1 :: b2 :: b3 :: rest) - 1) + 1 := by
    simp [decFuel]
  obtain ⟨e, he⟩ := decJsonb_text_err_sharp (decFuel (b0 :: b1 :: b2 :: b3 :: rest) - 1) b0 b1 b2 b3 rest hs hl
  rw [hf, he]; exact ⟨_, rfl⟩

theorem parseJsonb_short (t : Bytes) (h : t.length < 4) : parseJsonb t = .err "InvalidJsonb" := by
  unfold parseJsonb; rw [if_pos h]

/-- **text fallback, no length bound**: a text whose first byte can start a JSON text and is
neither a space, nor `[`, nor `\`, goes to the text parser whatever its length -/
theorem fromSlice_text_any (t : Bytes) (b0 : UInt8) (tl : Bytes) (ht : t = b0 :: tl)
    (hs : jsonStart b0 = true) (h1 : b0 ≠ 0x5B) (h2 : b0 ≠ 0x5C) :
    T.fromSlice t = parseValue t := by
  subst ht
  by_cases h4 : (b0 :: tl).length < 4
  · simp [T.fromSlice, parseJsonb_short _ h4]
  · match tl, h4 with
    | [], h4 => simp at h4
    | [_], h4 => simp at h4
    | [_, _], h4 => simp at h4
    | b1 :: b2 :: b3 :: rest, _ =>
      obtain ⟨e, he⟩ := parseJsonb_text_err_sharp b0 b1 b2 b3 rest hs
        (fun h => by rcases h with h | h; exact absurd h h1; exact absurd h h2)
      simp [T.fromSlice, he]

/-- **text fallback, sharp length condition** for `[` and `\`: fewer than `8 * count` bytes after
the first four, `count` = the low 29 bits of the first four bytes read as a header word -/
theorem fromSlice_text_sharp (b0 b1 b2 b3 : UInt8) (rest : Bytes)
    (hs : jsonStart b0 = true)
    (hl : b0 = 0x5B ∨ b0 = 0x5C → rest.length < 8 * hdrCount b0 b1 b2 b3) :
    T.fromSlice (b0 :: b1 :: b2 :: b3 :: rest) = parseValue (b0 :: b1 :: b2 :: b3 :: rest) := by
  obtain ⟨e, he⟩ := parseJsonb_text_err_sharp b0 b1 b2 b3 rest hs hl
  simp [T.fromSlice, he]

/-- hence the bound 2^27 of `C10_text_fallback` can be raised to 4 + 8·27·2^24 = 3623878660 -/
theorem fromSlice_text_lt (t : Bytes) (b0 : UInt8) (tl : Bytes) (ht : t = b0 :: tl)
    (hs : jsonStart b0 = true) (hl : t.length < 3623878660) :
    T.fromSlice t = parseValue t := by
  subst ht
  by_cases h4 : (b0 :: tl).length < 4
  · simp [T.fromSlice, parseJsonb_short _ h4]
  · match tl, h4, hl with
    | [], h4, _ => simp at h4
    | [_], h4, _ => simp at h4
    | [_, _], h4, _ => simp at h4
    | b1 :: b2 :: b3 :: rest, _, hl =>
      apply fromSlice_text_sharp b0 b1 b2 b3 rest hs
      intro hb
      simp only [List.length_cons] at hl
      unfold hdrCount
      have : 27 ≤ b0.toNat % 32 := by rcases hb with h | h <;> subst h <;> decide
      omega

/-! ### the bound is tight: a family of byte strings starting with `[` (or `\`) that the binary
decoder accepts -/

/-- `n` copies of a word -/
def tfWords (n : Nat) (w : Bytes) : Bytes := (List.replicate n w).flatten

theorem tfWords_succ (n : Nat) (w : Bytes) : tfWords (n + 1) w = w ++ tfWords n w := by
  simp [tfWords, List.replicate_succ]

theorem tfWords_length (n : Nat) (w : Bytes) : (tfWords n w).length = n * w.length := by
  induction n with
  | zero => simp [tfWords]
  | succ n ih => rw [tfWords_succ, List.length_append, ih, Nat.succ_mul]; omega

theorem readEntries_add (n m : Nat) (bs bs' bs'' : Bytes) (es es' : List (Nat × Nat))
    (h1 : readEntries n bs = some (es, bs')) (h2 : readEntries m bs' = some (es', bs'')) :
    readEntries (n + m) bs = some (es ++ es', bs'') := by
  induction n generalizing bs es with
  | zero => simp only [readEntries, Option.some.injEq, Prod.mk.injEq] at h1; obtain ⟨rfl, rfl⟩ := h1; simpa using h2
  | succ n ih =>
    rw [Nat.succ_add]
    simp only [readEntries] at h1 ⊢
    cases hr : readU32 bs with
    | none => simp [hr] at h1
    | some p =>
      obtain ⟨e, b1⟩ := p
      simp only [hr] at h1 ⊢
      cases hq : readEntries n b1 with
      | none => simp [hq] at h1
      | some q =>
        obtain ⟨es1, b2⟩ := q
        simp only [hq, Option.some.injEq, Prod.mk.injEq] at h1
        obtain ⟨rfl, rfl⟩ := h1
        rw [ih b1 es1 hq]; rfl

theorem readEntries_words (n : Nat) (a b c d : UInt8) (tl : Bytes) :
    readEntries n (tfWords n [a, b, c, d] ++ tl)
      = some (List.replicate n
          (jeType (a.toNat * 16777216 + b.toNat * 65536 + c.toNat * 256 + d.toNat),
           jeLen (a.toNat * 16777216 + b.toNat * 65536 + c.toNat * 256 + d.toNat)), tl) := by
  induction n with
  | zero => simp [tfWords, readEntries]
  | succ n ih =>
    rw [tfWords_succ]
    simp only [List.cons_append, List.nil_append, readEntries, hdr_of_first, ih, List.replicate_succ]

theorem decItems_emptyStrings (n fuel : Nat) (bs : Bytes) (hf : n + 1 ≤ fuel) :
    decItems fuel (List.replicate n (C.STRING_TAG, 0)) bs = .ok (List.replicate n (str []), bs) := by
  induction n generalizing fuel with
  | zero =>
    obtain ⟨f, rfl⟩ : ∃ f, fuel = f + 1 := ⟨fuel - 1, by omega⟩
    simp [decItems]
  | succ n ih =>
    obtain ⟨f, rfl⟩ : ∃ f, fuel = f + 1 + 1 := ⟨fuel - 2, by omega⟩
    have hd : decScalar (f + 1) C.STRING_TAG 0 bs = .ok (str [], bs) := by
      simp [decScalar, validUtf8, show ¬ C.STRING_TAG = C.NULL_TAG by decide,
        show ¬ C.STRING_TAG = C.TRUE_TAG by decide, show ¬ C.STRING_TAG = C.FALSE_TAG by decide]
    simp only [List.replicate_succ, decItems, hd, ih (f + 1) (by omega)]

theorem decObjVals_nulls (n fuel : Nat) (bs : Bytes) (hf : n + 1 ≤ fuel) :
    decObjVals fuel (List.replicate n (str [])) (List.replicate n (C.NULL_TAG, 0)) bs
      = .ok (List.replicate n (([] : Bytes), null), bs) := by
  induction n generalizing fuel with
  | zero =>
    obtain ⟨f, rfl⟩ : ∃ f, fuel = f + 1 := ⟨fuel - 1, by omega⟩
    simp [decObjVals]
  | succ n ih =>
    obtain ⟨f, rfl⟩ : ∃ f, fuel = f + 1 + 1 := ⟨fuel - 2, by omega⟩
    have hd : decScalar (f + 1) C.NULL_TAG 0 bs = .ok (null, bs) := by simp [decScalar]
    simp only [List.replicate_succ, decObjVals, hd, ih (f + 1) (by omega)]

theorem mkObj_replicate (n : Nat) (hn : 1 ≤ n) :
    mkObj (List.replicate n (([] : Bytes), null)) = [([], null)] := by
  obtain ⟨m, rfl⟩ : ∃ m, n = m + 1 := ⟨n - 1, by omega⟩
  have key : ∀ k, (List.replicate k (([] : Bytes), null)).foldl
      (fun m kv => insertKV kv.1 kv.2 m) [([], null)] = [([], null)] := by
    intro k
    induction k with
    | zero => rfl
    | succ k ih => rw [List.replicate_succ, List.foldl_cons]; simpa [insertKV, lexCmp] using ih
  simp only [mkObj, List.replicate_succ, List.foldl_cons]
  simpa [insertKV] using key m

theorem tf_fuel (b0 b1 b2 b3 : UInt8) (n : Nat) (tl : Bytes) :
    n + 2 ≤ decFuel (b0 :: b1 :: b2 :: b3 :: (tfWords n [0x10, 0, 0, 0] ++ (tfWords n [0, 0, 0, 0] ++ tl))) := by
  unfold decFuel
  rw [List.length_cons, List.length_cons, List.length_cons, List.length_cons, List.length_append,
    List.length_append, tfWords_length, tfWords_length,
    show ([0x10, 0, 0, 0] : Bytes).length = 4 from rfl, show ([0, 0, 0, 0] : Bytes).length = 4 from rfl]
  omega

theorem decJsonb_text_accepted (f : Nat) (b0 b1 b2 b3 : UInt8) (hb : b0 = 0x5B ∨ b0 = 0x5C) (n : Nat)
    (hn : hdrCount b0 b1 b2 b3 = n) (hf : n + 1 ≤ f) (tl : Bytes) :
    decJsonb (f + 1) (b0 :: b1 :: b2 :: b3 :: (tfWords n [0x10, 0, 0, 0] ++ (tfWords n [0, 0, 0, 0] ++ tl)))
      = .ok (obj [([], null)], tl) := by
  have hb0 := b0.toNat_lt; have hb1 := b1.toNat_lt; have hb2 := b2.toNat_lt; have hb3 := b3.toNat_lt
  have h32 : b0.toNat / 32 = 2 := by rcases hb with h | h <;> subst h <;> decide
  have hn1 : 1 ≤ n := by
    rw [← hn]; unfold hdrCount
    have : 27 ≤ b0.toNat % 32 := by rcases hb with h | h <;> subst h <;> decide
    omega
  simp only [decJsonb, hdr_of_first]
  generalize hH : b0.toNat * 16777216 + b1.toNat * 65536 + b2.toNat * 256 + b3.toNat = H
  have ⟨hd2, hm⟩ := hdr_arith' H b0.toNat b1.toNat b2.toNat b3.toNat hb1 hb2 hb3 hH
  have ht : hdrType H = (b0.toNat / 32) * 536870912 := by
    rw [hdrType_eq, hd2, Nat.mod_eq_of_lt (by omega)]
  have hlen : hdrLen H = n := by rw [hdrLen_eq, hm, ← hn]; rfl
  have s1 : C.SCALAR_CONTAINER_TAG = 1 * 536870912 := by decide
  have s2 : C.ARRAY_CONTAINER_TAG = 4 * 536870912 := by decide
  have s3 : C.OBJECT_CONTAINER_TAG = 2 * 536870912 := by decide
  rw [ht, h32, s1, s2, s3]
  rw [if_neg (by omega), if_neg (by omega), if_pos rfl, hlen]
  have hK := readEntries_words n 0x10 0 0 0 (tfWords n [0, 0, 0, 0] ++ tl)
  have hV := readEntries_words n 0 0 0 0 tl
  have eK : (jeType ((0x10 : UInt8).toNat * 16777216 + (0 : UInt8).toNat * 65536 + (0 : UInt8).toNat * 256 + (0 : UInt8).toNat),
      jeLen ((0x10 : UInt8).toNat * 16777216 + (0 : UInt8).toNat * 65536 + (0 : UInt8).toNat * 256 + (0 : UInt8).toNat))
      = (C.STRING_TAG, 0) := by decide
  have eV : (jeType ((0 : UInt8).toNat * 16777216 + (0 : UInt8).toNat * 65536 + (0 : UInt8).toNat * 256 + (0 : UInt8).toNat),
      jeLen ((0 : UInt8).toNat * 16777216 + (0 : UInt8).toNat * 65536 + (0 : UInt8).toNat * 256 + (0 : UInt8).toNat))
      = (C.NULL_TAG, 0) := by decide
  rw [eK] at hK; rw [eV] at hV
  have hE := readEntries_add n n _ _ _ _ _ hK hV
  rw [show n * 2 = n + n by omega, hE]
  simp only [List.take_left' (List.length_replicate ..), List.drop_left' (List.length_replicate ..)]
  rw [decItems_emptyStrings n f tl hf]
  simp only []
  rw [decObjVals_nulls n f tl hf]
  simp only [mkObj_replicate n hn1]

/-- **acceptance**: first byte `[` or `\`, any three further header bytes, then `count` key
entries "string of length 0", then `count` value entries "null", then anything: the binary decoder
returns the object `{"": null}`.  The part after the header is exactly `8 * count` bytes (plus the
arbitrary tail), so the condition of `fromSlice_text_sharp` cannot be weakened. -/
theorem parseJsonb_text_accepted (b0 b1 b2 b3 : UInt8) (hb : b0 = 0x5B ∨ b0 = 0x5C) (tl : Bytes) :
    parseJsonb (b0 :: b1 :: b2 :: b3 ::
      (tfWords (hdrCount b0 b1 b2 b3) [0x10, 0, 0, 0] ++ (tfWords (hdrCount b0 b1 b2 b3) [0, 0, 0, 0] ++ tl)))
      = .ok (obj [([], null)]) := by
  generalize hn : hdrCount b0 b1 b2 b3 = n
  have h4 : ∀ x : Bytes, ¬ (b0 :: b1 :: b2 :: b3 :: x).length < 4 := by
    intro x; simp only [List.length_cons]; omega
  have hfu := tf_fuel b0 b1 b2 b3 n tl
  unfold parseJsonb
  rw [if_neg (h4 _)]
  generalize decFuel (b0 :: b1 :: b2 :: b3 :: (tfWords n [0x10, 0, 0, 0] ++ (tfWords n [0, 0, 0, 0] ++ tl))) = F at hfu
  obtain ⟨f, rfl⟩ : ∃ f, F = f + 1 := ⟨F - 1, by omega⟩
  rw [decJsonb_text_accepted f b0 b1 b2 b3 hb n hn (by omega) tl]

theorem fromSlice_of_ok (t : Bytes) (v : JV) (h : parseJsonb t = .ok v) : T.fromSlice t = .ok v := by
  unfold T.fromSlice; rw [h]

/-- the family of accepted byte strings: header bytes, `count` empty-string key entries, `count`
null value entries, arbitrary tail -/
def tfText (b0 b1 b2 b3 : UInt8) (tl : Bytes) : Bytes :=
  b0 :: b1 :: b2 :: b3 ::
    (tfWords (hdrCount b0 b1 b2 b3) [0x10, 0, 0, 0] ++ (tfWords (hdrCount b0 b1 b2 b3) [0, 0, 0, 0] ++ tl))

theorem tfText_length (b0 b1 b2 b3 : UInt8) (tl : Bytes) :
    (tfText b0 b1 b2 b3 tl).length = 4 + 8 * hdrCount b0 b1 b2 b3 + tl.length := by
  unfold tfText
  rw [List.length_cons, List.length_cons, List.length_cons, List.length_cons, List.length_append,
    List.length_append, tfWords_length, tfWords_length,
    show ([0x10, 0, 0, 0] : Bytes).length = 4 from rfl, show ([0, 0, 0, 0] : Bytes).length = 4 from rfl]
  omega

/-- `from_slice` returns the binary reading `{"": null}` for every member of the family -/
theorem fromSlice_text_accepted (b0 b1 b2 b3 : UInt8) (hb : b0 = 0x5B ∨ b0 = 0x5C) (tl : Bytes) :
    T.fromSlice (tfText b0 b1 b2 b3 tl) = .ok (obj [([], null)]) :=
  fromSlice_of_ok _ _ (parseJsonb_text_accepted b0 b1 b2 b3 hb tl)

/-- the text parser rejects `[` followed by a NUL byte -/
theorem parseValue_bracket_nul (rest : Bytes) :
    parseValue (0x5B :: 0 :: rest) = .err "ExpectedSomeValue" := by
  generalize hbuf : (0x5B :: 0 :: rest : Bytes) = buf
  have s0 : JP.skipUnused buf 0 = .ok 0 :=
    JP.skipUnused_view (s := buf) rfl (by subst hbuf; intro c h; simp at h; subst h; decide)
  have s1 : JP.skipUnused buf 1 = .ok 1 :=
    JP.skipUnused_view (s := 0 :: rest) (by subst hbuf; rfl) (by intro c h; simp at h; subst h; decide)
  have n0 : JP.next buf 0 = .ok 0x5B := by subst hbuf; rfl
  have n1 : JP.next buf 1 = .ok 0 := by subst hbuf; rfl
  have m0 : JP.mustIs buf 0 0x5B = .ok 1 := by subst hbuf; simp [JP.mustIs]
  obtain ⟨f, hf⟩ : ∃ f, JP.fuelFor buf = f + 1 + 1 + 1 :=
    ⟨2 * rest.length + 3, by subst hbuf; simp [JP.fuelFor]; omega⟩
  unfold parseValue
  rw [hf]
  simp [JP.parseJsonValue, JP.arrLoop, s0, s1, n0, n1, m0, bind, Res.bind, JP.isDigit]

/-- **the length hypothesis cannot be dropped**: for every tail `tl`, the byte string
`5B 00 00 00`, 452984832 × `10 00 00 00`, 452984832 × `00 00 00 00`, `tl` (3623878660 bytes before
the tail) starts with `[`, is rejected by the text parser, and is accepted by the binary decoder;
`from_slice` returns `{"": null}` -/
theorem text_fallback_counterexample (tl : Bytes) :
    jsonStart 0x5B = true ∧
    hdrCount 0x5B 0 0 0 = 452984832 ∧
    (tfText 0x5B 0 0 0 tl).length = 3623878660 + tl.length ∧
    T.fromSlice (tfText 0x5B 0 0 0 tl) = .ok (obj [([], null)]) ∧
    parseValue (tfText 0x5B 0 0 0 tl) = .err "ExpectedSomeValue" ∧
    T.fromSlice (tfText 0x5B 0 0 0 tl) ≠ parseValue (tfText 0x5B 0 0 0 tl) := by
  have hc : hdrCount 0x5B 0 0 0 = 452984832 := by decide
  have ha := fromSlice_text_accepted 0x5B 0 0 0 (Or.inl rfl) tl
  have hp : parseValue (tfText 0x5B 0 0 0 tl) = .err "ExpectedSomeValue" := parseValue_bracket_nul _
  refine ⟨by decide, hc, ?_, ha, hp, ?_⟩
  · rw [tfText_length, hc]
  · rw [ha, hp]; intro h; cases h

end Jsonb
