/-
C08 refinement, part 10: the public API, both directions, in the remaining item modes.

For a supported path on a good document and with enough fuel, `select` in first-, array- and
mixed-mode answers `Ok` with exactly what the spec denotes (the first item; one array of the items;
the array or the single item), or `Err` exactly when the spec has no denotation.  It never panics.
The array shapes carry the side conditions of `select_array_refines` / `select_mixed_refines`
(document below 2^28 bytes, fewer than 2^29 items); the answer is `Ok` also without them.
-/
import JsonbModel.Proofs.SelectRefine9

namespace Jsonb
open JV Sel

/-- the first position represents the first item -/
theorem RepL_take_one {root : Bytes} {ps : List Pos} {ws : List JV} (h : Sel.RepL root ps ws) :
    Sel.RepL root (ps.take 1) (ws.take 1) := by
  cases ps <;> cases ws <;> first | exact h.elim | trivial | exact ⟨h.1, trivial⟩

/-- the item loop of `build_scalar_array` answers `Ok` on any represented frontier (no size bound) -/
theorem arrayParts_ok (root : Bytes) : ∀ (ps : List Pos) (ws : List JV), Sel.RepL root ps ws →
    ∃ r, arrayParts root ps = .ok r
  | [], [], _ => ⟨_, rfl⟩
  | [], _ :: _, h => h.elim
  | _ :: _, [], h => h.elim
  | .container off len :: ps, w :: ws, h => by
    obtain ⟨_, _, hlen, hat⟩ := h.1
    obtain ⟨⟨a, b⟩, hr⟩ := arrayParts_ok root ps ws h.2
    simp only [arrayParts, rep_slice' hlen hat, hr]
    exact ⟨_, rfl⟩
  | .scalar ty off len :: ps, w :: ws, h => by
    obtain ⟨_, _, _, hlen, hat⟩ := h.1
    obtain ⟨⟨a, b⟩, hr⟩ := arrayParts_ok root ps ws h.2
    by_cases hpos : len > 0
    · simp only [arrayParts, if_pos hpos, rep_slice' hlen hat, hr]
      exact ⟨_, rfl⟩
    · simp only [arrayParts, if_neg hpos, hr]
      exact ⟨_, rfl⟩

/-- `build_scalar_array` answers `Ok` on any represented frontier -/
theorem buildArrayOf_ok (root : Bytes) (ps : List Pos) (ws : List JV) (h : Sel.RepL root ps ws)
    (data : Bytes) (offs : List Nat) : ∃ r, buildArrayOf root ps data offs = .ok r := by
  obtain ⟨⟨a, b⟩, hr⟩ := arrayParts_ok root ps ws h
  simp only [buildArrayOf, hr]
  exact ⟨_, rfl⟩

/-! ### first-mode -/

/-- completeness of first-mode at equal fuel -/
theorem select_first_complete (v₀ : JV) (hg : goodTop v₀ = true) (jp : JsonPath) (hs : suppPaths jp = true)
    (hhead : jp.head? ≠ some .current) (hnp : isPredicate jp = false) (f : Nat) (items : List JV)
    (h : Spec.evalPaths f v₀ none jp = some items) (data : Bytes) (offs : List Nat) :
    select jp .first (encodeSpec v₀) data offs f
      = .ok (data ++ (items.take 1).flatMap encodeSpec, offs ++ ends data.length (items.take 1)) := by
  obtain ⟨ps, h1, h2⟩ := findPositions_complete v₀ hg jp hs hhead f items h
  simp only [select, h1, hnp, Bool.false_eq_true, if_false]
  exact buildValues_rep _ _ _ (RepL_take_one h2) data offs

/-- **first-mode, exact**: with enough fuel, `Ok` with the document of the first denoted item (or
nothing), or `Err` and the path has no denotation -/
theorem select_first_exact (v₀ : JV) (hg : goodTop v₀ = true) (jp : JsonPath) (hs : suppPaths jp = true)
    (hhead : jp.head? ≠ some .current) (hnp : isPredicate jp = false) (data : Bytes) (offs : List Nat) :
    ∃ F, ∀ fuel, F ≤ fuel →
      (∃ items, Ev (fun f => Spec.evalPaths f v₀ none jp) items ∧
        select jp .first (encodeSpec v₀) data offs fuel
          = .ok (data ++ (items.take 1).flatMap encodeSpec, offs ++ ends data.length (items.take 1))) ∨
      (∃ e, select jp .first (encodeSpec v₀) data offs fuel = .err e ∧
        ∀ f, Spec.evalPaths f v₀ none jp = none) := by
  obtain ⟨F, hF⟩ := findPositions_exact v₀ hg jp hs hhead
  refine ⟨F, fun fuel hle => ?_⟩
  rcases hF fuel hle with ⟨ps, items, h1, h2, h3⟩ | ⟨e, h1, h2⟩
  · refine .inl ⟨items, h3, ?_⟩
    simp only [select, h1, hnp, Bool.false_eq_true, if_false]
    exact buildValues_rep _ _ _ (RepL_take_one h2) data offs
  · exact .inr ⟨e, by simp only [select, h1], h2⟩

/-! ### array-mode -/

/-- completeness of array-mode at equal fuel -/
theorem select_array_complete (v₀ : JV) (hg : goodTop v₀ = true) (jp : JsonPath) (hs : suppPaths jp = true)
    (hhead : jp.head? ≠ some .current) (hnp : isPredicate jp = false)
    (hsmall : (encodeSpec v₀).length < 268435456) (f : Nat) (items : List JV)
    (h : Spec.evalPaths f v₀ none jp = some items) (hn : items.length < 536870912)
    (data : Bytes) (offs : List Nat) :
    select jp .array (encodeSpec v₀) data offs f
      = .ok (data ++ encodeSpec (arr items), offs ++ [(data ++ encodeSpec (arr items)).length]) := by
  obtain ⟨ps, h1, h2⟩ := findPositions_complete v₀ hg jp hs hhead f items h
  simp only [select, h1, hnp, Bool.false_eq_true, if_false]
  exact buildArrayOf_rep _ ps items h2 (repL_goodL hsmall h2) hn data offs

/-- **array-mode, exact**: with enough fuel, `Ok` — with the one array of the denoted items when
the document is below 2^28 bytes and there are fewer than 2^29 items — or `Err` and the path has no
denotation -/
theorem select_array_exact (v₀ : JV) (hg : goodTop v₀ = true) (jp : JsonPath) (hs : suppPaths jp = true)
    (hhead : jp.head? ≠ some .current) (hnp : isPredicate jp = false)
    (hsmall : (encodeSpec v₀).length < 268435456) (data : Bytes) (offs : List Nat) :
    ∃ F, ∀ fuel, F ≤ fuel →
      (∃ items r, Ev (fun f => Spec.evalPaths f v₀ none jp) items ∧
        select jp .array (encodeSpec v₀) data offs fuel = .ok r ∧
        (items.length < 536870912 →
          r = (data ++ encodeSpec (arr items), offs ++ [(data ++ encodeSpec (arr items)).length]))) ∨
      (∃ e, select jp .array (encodeSpec v₀) data offs fuel = .err e ∧
        ∀ f, Spec.evalPaths f v₀ none jp = none) := by
  obtain ⟨F, hF⟩ := findPositions_exact v₀ hg jp hs hhead
  refine ⟨F, fun fuel hle => ?_⟩
  rcases hF fuel hle with ⟨ps, items, h1, h2, h3⟩ | ⟨e, h1, h2⟩
  · obtain ⟨r, hr⟩ := buildArrayOf_ok _ ps items h2 data offs
    refine .inl ⟨items, r, h3, ?_, fun hn => ?_⟩
    · simp only [select, h1, hnp, Bool.false_eq_true, if_false]
      exact hr
    · rw [buildArrayOf_rep _ ps items h2 (repL_goodL hsmall h2) hn] at hr
      exact (Res.ok.inj hr).symm
  · exact .inr ⟨e, by simp only [select, h1], h2⟩

/-! ### mixed-mode -/

/-- completeness of mixed-mode at equal fuel -/
theorem select_mixed_complete (v₀ : JV) (hg : goodTop v₀ = true) (jp : JsonPath) (hs : suppPaths jp = true)
    (hhead : jp.head? ≠ some .current) (hnp : isPredicate jp = false)
    (hsmall : (encodeSpec v₀).length < 268435456) (f : Nat) (items : List JV)
    (h : Spec.evalPaths f v₀ none jp = some items) (hn : items.length < 536870912)
    (data : Bytes) (offs : List Nat) :
    select jp .mixed (encodeSpec v₀) data offs f
      = .ok (if items.length > 1
            then (data ++ encodeSpec (arr items), offs ++ [(data ++ encodeSpec (arr items)).length])
            else (data ++ items.flatMap encodeSpec, offs ++ ends data.length items)) := by
  obtain ⟨ps, h1, h2⟩ := findPositions_complete v₀ hg jp hs hhead f items h
  simp only [select, h1, hnp, Bool.false_eq_true, if_false, RepL_length h2]
  by_cases hm : items.length > 1
  · rw [if_pos hm, if_pos hm]
    exact buildArrayOf_rep _ ps items h2 (repL_goodL hsmall h2) hn data offs
  · rw [if_neg hm, if_neg hm]
    exact buildValues_rep _ ps items h2 data offs

/-- **mixed-mode, exact**: with enough fuel, `Ok` — with the array of the denoted items when there
are two or more (document below 2^28 bytes, fewer than 2^29 items), otherwise the item itself (or
nothing) — or `Err` and the path has no denotation -/
theorem select_mixed_exact (v₀ : JV) (hg : goodTop v₀ = true) (jp : JsonPath) (hs : suppPaths jp = true)
    (hhead : jp.head? ≠ some .current) (hnp : isPredicate jp = false)
    (hsmall : (encodeSpec v₀).length < 268435456) (data : Bytes) (offs : List Nat) :
    ∃ F, ∀ fuel, F ≤ fuel →
      (∃ items r, Ev (fun f => Spec.evalPaths f v₀ none jp) items ∧
        select jp .mixed (encodeSpec v₀) data offs fuel = .ok r ∧
        (items.length < 536870912 →
          r = if items.length > 1
              then (data ++ encodeSpec (arr items), offs ++ [(data ++ encodeSpec (arr items)).length])
              else (data ++ items.flatMap encodeSpec, offs ++ ends data.length items))) ∨
      (∃ e, select jp .mixed (encodeSpec v₀) data offs fuel = .err e ∧
        ∀ f, Spec.evalPaths f v₀ none jp = none) := by
  obtain ⟨F, hF⟩ := findPositions_exact v₀ hg jp hs hhead
  refine ⟨F, fun fuel hle => ?_⟩
  rcases hF fuel hle with ⟨ps, items, h1, h2, h3⟩ | ⟨e, h1, h2⟩
  · have hsel : select jp .mixed (encodeSpec v₀) data offs fuel
        = if items.length > 1 then buildArrayOf (encodeSpec v₀) ps data offs
          else buildValues (encodeSpec v₀) ps data offs := by
      simp only [select, h1, hnp, Bool.false_eq_true, if_false, RepL_length h2]
    by_cases hm : items.length > 1
    · rw [if_pos hm] at hsel
      obtain ⟨r, hr⟩ := buildArrayOf_ok _ ps items h2 data offs
      refine .inl ⟨items, r, h3, hsel.trans hr, fun hn => ?_⟩
      rw [buildArrayOf_rep _ ps items h2 (repL_goodL hsmall h2) hn] at hr
      rw [if_pos hm]
      exact (Res.ok.inj hr).symm
    · rw [if_neg hm] at hsel
      refine .inl ⟨items, _, h3, hsel.trans (buildValues_rep _ ps items h2 data offs), fun _ => ?_⟩
      rw [if_neg hm]
  · exact .inr ⟨e, by simp only [select, h1], h2⟩

/-! ### no panic -/

/-- first-mode never panics on a supported path and a good document, at any fuel -/
theorem select_first_no_panic (v₀ : JV) (hg : goodTop v₀ = true) (jp : JsonPath) (hs : suppPaths jp = true)
    (hhead : jp.head? ≠ some .current) (fuel : Nat) (data : Bytes) (offs : List Nat) (s : String) :
    select jp .first (encodeSpec v₀) data offs fuel ≠ .panic s := by
  rcases findPositions_trichotomy v₀ hg jp hs hhead fuel with h | ⟨ps, items, h, h2, _⟩ | ⟨e, h, _⟩
  · simp [select, h]
  · simp only [select, h]
    split
    · simp
    · rw [buildValues_rep _ _ _ (RepL_take_one h2)]; simp
  · simp [select, h]

/-- array-mode never panics on a supported path and a good document, at any fuel (no size bound
needed: the writer answers `Ok` on every represented frontier) -/
theorem select_array_no_panic (v₀ : JV) (hg : goodTop v₀ = true) (jp : JsonPath) (hs : suppPaths jp = true)
    (hhead : jp.head? ≠ some .current) (fuel : Nat) (data : Bytes) (offs : List Nat) (s : String) :
    select jp .array (encodeSpec v₀) data offs fuel ≠ .panic s := by
  rcases findPositions_trichotomy v₀ hg jp hs hhead fuel with h | ⟨ps, items, h, h2, _⟩ | ⟨e, h, _⟩
  · simp [select, h]
  · simp only [select, h]
    split
    · simp
    · obtain ⟨r, hr⟩ := buildArrayOf_ok _ ps items h2 data offs
      rw [hr]; simp
  · simp [select, h]

/-- mixed-mode never panics on a supported path and a good document, at any fuel -/
theorem select_mixed_no_panic (v₀ : JV) (hg : goodTop v₀ = true) (jp : JsonPath) (hs : suppPaths jp = true)
    (hhead : jp.head? ≠ some .current) (fuel : Nat) (data : Bytes) (offs : List Nat) (s : String) :
    select jp .mixed (encodeSpec v₀) data offs fuel ≠ .panic s := by
  rcases findPositions_trichotomy v₀ hg jp hs hhead fuel with h | ⟨ps, items, h, h2, _⟩ | ⟨e, h, _⟩
  · simp [select, h]
  · simp only [select, h]
    split
    · simp
    · split
      · obtain ⟨r, hr⟩ := buildArrayOf_ok _ ps items h2 data offs
        rw [hr]; simp
      · rw [buildValues_rep _ ps items h2]; simp
  · simp [select, h]

end Jsonb
