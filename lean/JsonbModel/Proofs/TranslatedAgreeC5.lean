import JsonbModel.Proofs.TranslatedAgreeC1
import JsonbModel.Proofs.TranslatedAgreeB3
import JsonbModel.Ser

set_option linter.unusedSimpArgs false
set_option linter.unusedVariables false

namespace Jsonb.TrAgree
open Jsonb.Rs

/-! ## sizes, depths, well-formed numbers -/

mutual
/-- the number of bytes `encode_value` appends for a value -/
def encSize : JV → Nat
  | .null => 0
  | .bool _ => 0
  | .num n => (Num.enc n).length
  | .str s => s.length
  | .arr vs => 4 + vs.length * 4 + encSizeL vs
  | .obj kvs => 4 + kvs.length * 8 + (keySizeK kvs + encSizeK kvs)
def encSizeL : List JV → Nat
  | [] => 0
  | v :: vs => encSize v + encSizeL vs
def encSizeK : List (Bytes × JV) → Nat
  | [] => 0
  | (_, v) :: kvs => encSize v + encSizeK kvs
def keySizeK : List (Bytes × JV) → Nat
  | [] => 0
  | (k, _) :: kvs => k.length + keySizeK kvs
end

mutual
/-- nesting depth: the recursion depth of the encoder is `2 * depth + 1` calls -/
def depth : JV → Nat
  | .arr vs => depthL vs + 1
  | .obj kvs => depthK kvs + 1
  | _ => 0
def depthL : List JV → Nat
  | [] => 0
  | v :: vs => max (depth v) (depthL vs)
def depthK : List (Bytes × JV) → Nat
  | [] => 0
  | (_, v) :: kvs => max (depth v) (depthK kvs)
end

mutual
/-- every number is a value of its Rust type (`i64` / `u64` / `f64` bit pattern) -/
def numsWF : JV → Prop
  | .num n => n.WF
  | .arr vs => numsWFL vs
  | .obj kvs => numsWFK kvs
  | _ => True
def numsWFL : List JV → Prop
  | [] => True
  | v :: vs => numsWF v ∧ numsWFL vs
def numsWFK : List (Bytes × JV) → Prop
  | [] => True
  | (_, v) :: kvs => numsWF v ∧ numsWFK kvs
end

/-- a result of the encoder model `(buffer, type, length)` seen from the translation -/
def ofEnc (r : Bytes × Nat × Nat) : Tr.JEntry × Tr.Encoder := (⟨(r.2.1 : Nat), (r.2.2 : Nat)⟩, ⟨r.1⟩)

/-! ## one unfolding of `encode_value`, per constructor -/

theorem encode_value_null (g : Nat) (b : Bytes) :
    Tr.Encoder.encode_value (g + 1) ⟨b⟩ .Null = .ok (⟨(C.NULL_TAG : Nat), 0⟩, ⟨b⟩) := by
  rw [Tr.Encoder.encode_value]
  simp only [make_null_jentry_agrees, Ctl.ofRes_ok', Ctl.val_bind', Ctl.pure_eq', Ctl.run_ret']

theorem encode_value_bool (g : Nat) (b : Bytes) (x : Bool) :
    Tr.Encoder.encode_value (g + 1) ⟨b⟩ (.Bool x) =
      .ok (⟨((if x then C.TRUE_TAG else C.FALSE_TAG : Nat) : Nat), 0⟩, ⟨b⟩) := by
  rw [Tr.Encoder.encode_value]
  cases x
  · simp only [make_false_jentry_agrees, Ctl.ofRes_ok', Ctl.val_bind', Ctl.pure_eq', Ctl.run_ret', Bool.false_eq_true, if_false]
  · simp only [make_true_jentry_agrees, Ctl.ofRes_ok', Ctl.val_bind', Ctl.pure_eq', Ctl.run_ret', if_true]

theorem encode_value_num (g : Nat) (b : Bytes) (n : Num) (hwf : n.WF)
    (hl : b.length + (Num.enc n).length < 18446744073709551616) :
    Tr.Encoder.encode_value (g + 1) ⟨b⟩ (.Number (ofNum n)) =
      .ok (⟨(C.NUMBER_TAG : Nat), (((Num.enc n).length % 4294967296 : Nat) : Int)⟩, ⟨b ++ Num.enc n⟩) := by
  rw [Tr.Encoder.encode_value]
  simp only [compact_encode_agrees n hwf, Rs.unwrapRes, Ctl.ofRes_ok', Ctl.val_bind', Rs.len, List.length_append]
  have hsub : Rs.sub .usize ((b.length + (Num.enc n).length : Nat) : Int) ((b.length : Nat) : Int) = .ok (((Num.enc n).length : Nat) : Int) := by
    rw [Rs.sub_usize_ok' _ _ (by omega)]; congr 1; omega
  simp only [hsub, Ctl.ofRes_ok', Ctl.val_bind', make_number_jentry_agrees, Ctl.pure_eq', Ctl.run_ret']

theorem encode_value_str (g : Nat) (b s : Bytes) :
    Tr.Encoder.encode_value (g + 1) ⟨b⟩ (.String s) =
      .ok (⟨(C.STRING_TAG : Nat), ((s.length % 4294967296 : Nat) : Int)⟩, ⟨b ++ s⟩) := by
  rw [Tr.Encoder.encode_value]
  simp only [Rs.len, Rs.extendFromSlice, make_string_jentry_agrees, Ctl.ofRes_ok', Ctl.val_bind', Ctl.pure_eq', Ctl.run_ret']

theorem encode_value_arr (g : Nat) (b : Bytes) (vs : List Tr.Value) :
    Tr.Encoder.encode_value (g + 1) ⟨b⟩ (.Array vs) =
      (Tr.Encoder.encode_array g ⟨b⟩ vs).bind (fun p =>
        (Tr.JEntry.make_container_jentry p.1).bind (fun je => .ok (je, p.2))) := by
  rw [Tr.Encoder.encode_value]
  dsimp only
  cases Tr.Encoder.encode_array g ⟨b⟩ vs with
  | ok p =>
    simp only [Ctl.ofRes_ok', Ctl.val_bind', Res.bind]
    cases Tr.JEntry.make_container_jentry p.1 <;> rfl
  | err e => rfl
  | panic s => rfl
  | fuel => rfl

theorem encode_value_obj (g : Nat) (b : Bytes) (kvs : List (Bytes × Tr.Value)) :
    Tr.Encoder.encode_value (g + 1) ⟨b⟩ (.Object kvs) =
      (Tr.Encoder.encode_object g ⟨b⟩ kvs).bind (fun p =>
        (Tr.JEntry.make_container_jentry p.1).bind (fun je => .ok (je, p.2))) := by
  rw [Tr.Encoder.encode_value]
  dsimp only
  cases Tr.Encoder.encode_object g ⟨b⟩ kvs with
  | ok p =>
    simp only [Ctl.ofRes_ok', Ctl.val_bind', Res.bind]
    cases Tr.JEntry.make_container_jentry p.1 <;> rfl
  | err e => rfl
  | panic s => rfl
  | fuel => rfl

/-! ## the loops, for any callee `rec` whose answer on the current element is known -/

theorem jentryWord_lt (ty len : Nat) (hlen : len < 4294967296) : jentryWord ty len = ty ||| len := by
  unfold jentryWord; rw [Nat.mod_eq_of_lt hlen]

/-- one iteration of the value loop of `encode_array` -/
theorem ea_loop1_step (rec : Tr.Encoder → Tr.Value → Res (Tr.JEntry × Tr.Encoder)) (v : Tr.Value)
    (b b1 b2 : Bytes) (acc idx ty len : Nat)
    (hrec : rec ⟨b⟩ v = .ok (⟨(ty : Nat), (len : Nat)⟩, ⟨b1⟩)) (hty : ty < 4294967296) (hlen : len < 4294967296)
    (hacc : acc + len < 18446744073709551616) (hb1 : b1.length < 18446744073709551616)
    (hrep : replaceJentry b1 (jentryWord ty len) idx = .ok b2) :
    Tr.Encoder.encode_array.loop1 rec v (⟨b⟩, (acc : Int), (idx : Int)) =
      Ctl.val (.next (⟨b2⟩, ((acc + len : Nat) : Int), ((idx + 4 : Nat) : Int))) := by
  have hidx : idx + 4 ≤ b1.length := by
    unfold replaceJentry at hrep
    by_cases h : idx + 4 ≤ b1.length
    · exact h
    · rw [if_neg h] at hrep; cases hrep
  unfold Tr.Encoder.encode_array.loop1
  dsimp only
  rw [hrec]
  simp only [Ctl.ofRes_ok', Ctl.val_bind', Rs.usize_nat _ (show len < 18446744073709551616 by omega),
    Rs.add_usize_nat _ _ hacc, encoder_replace_jentry_agrees b1 ty len idx hty hlen hidx hb1]
  rw [← jentryWord_lt ty len hlen, hrep]
  simp only [Res.map, Res.bind, Ctl.ofRes_ok', Ctl.val_bind', Ctl.pure_eq', Rs.loopStep_val']

/-- one iteration of the value loop of `encode_object` (the same body on the pair's second half) -/
theorem eo_loop2_step (rec : Tr.Encoder → Tr.Value → Res (Tr.JEntry × Tr.Encoder)) (k : Bytes) (v : Tr.Value)
    (b b1 b2 : Bytes) (acc idx ty len : Nat)
    (hrec : rec ⟨b⟩ v = .ok (⟨(ty : Nat), (len : Nat)⟩, ⟨b1⟩)) (hty : ty < 4294967296) (hlen : len < 4294967296)
    (hacc : acc + len < 18446744073709551616) (hb1 : b1.length < 18446744073709551616)
    (hrep : replaceJentry b1 (jentryWord ty len) idx = .ok b2) :
    Tr.Encoder.encode_object.loop2 rec (k, v) (⟨b⟩, (acc : Int), (idx : Int)) =
      Ctl.val (.next (⟨b2⟩, ((acc + len : Nat) : Int), ((idx + 4 : Nat) : Int))) := by
  have hidx : idx + 4 ≤ b1.length := by
    unfold replaceJentry at hrep
    by_cases h : idx + 4 ≤ b1.length
    · exact h
    · rw [if_neg h] at hrep; cases hrep
  unfold Tr.Encoder.encode_object.loop2
  dsimp only
  rw [hrec]
  simp only [Ctl.ofRes_ok', Ctl.val_bind', Rs.usize_nat _ (show len < 18446744073709551616 by omega),
    Rs.add_usize_nat _ _ hacc, encoder_replace_jentry_agrees b1 ty len idx hty hlen hidx hb1]
  rw [← jentryWord_lt ty len hlen, hrep]
  simp only [Res.map, Res.bind, Ctl.ofRes_ok', Ctl.val_bind', Ctl.pure_eq', Rs.loopStep_val']

/-- one iteration of the key loop of `encode_object` -/
theorem eo_loop1_step (k : Bytes) (v : Tr.Value) (b b2 : Bytes) (acc idx : Nat)
    (hacc : acc + k.length < 18446744073709551616)
    (hb1 : b.length + k.length < 18446744073709551616)
    (hrep : replaceJentry (b ++ k) (jentryWord C.STRING_TAG k.length) idx = .ok b2) :
    Tr.Encoder.encode_object.loop1 (k, v) ((acc : Int), ⟨b⟩, (idx : Int)) =
      Ctl.val (.next (((acc + k.length : Nat) : Int), ⟨b2⟩, ((idx + 4 : Nat) : Int))) := by
  have hidx : idx + 4 ≤ (b ++ k).length := by
    unfold replaceJentry at hrep
    by_cases h : idx + 4 ≤ (b ++ k).length
    · exact h
    · rw [if_neg h] at hrep; cases hrep
  have hT : C.STRING_TAG < 4294967296 := by decide
  have hk : k.length % 4294967296 < 4294967296 := Nat.mod_lt _ (by decide)
  unfold Tr.Encoder.encode_object.loop1
  dsimp only
  simp only [Rs.len, Rs.add_usize_nat _ _ hacc, Ctl.ofRes_ok', Ctl.val_bind', Rs.extendFromSlice,
    make_string_jentry_agrees,
    encoder_replace_jentry_agrees (b ++ k) C.STRING_TAG (k.length % 4294967296) idx hT hk hidx (by simp; omega)]
  have hw : C.STRING_TAG ||| k.length % 4294967296 = jentryWord C.STRING_TAG k.length := rfl
  rw [hw, hrep]
  simp only [Res.map, Res.bind, Ctl.ofRes_ok', Ctl.val_bind', Ctl.pure_eq', Rs.loopStep_val']

/-! ## one unfolding of `encode_array` / `encode_object`, up to their loops -/

theorem headerWord_lt (tag n : Nat) (ht : tag < 4294967296) : headerWord tag n < 4294967296 := by
  unfold headerWord; exact or_lt_u32 _ _ ht (Nat.mod_lt _ (by decide))

theorem header_term (tag n : Nat) :
    Rs.bitor ((tag : Nat) : Int) (Rs.cast .u32 ((n : Nat) : Int)) = ((headerWord tag n : Nat) : Int) := by
  rw [cast_u32_nat, Rs.bitor_natCast]; rfl

theorem header_term' (tag n : Nat) :
    Rs.bitor (Rs.cast .u32 ((n : Nat) : Int)) ((tag : Nat) : Int) = ((headerWord tag n : Nat) : Int) := by
  rw [cast_u32_nat, Rs.bitor_natCast, Nat.or_comm]; rfl

theorem writeU32BE_nat (b : Bytes) (w : Nat) (h : w < 4294967296) : Rs.writeU32BE b (w : Int) = b ++ u32be w := by
  unfold Rs.writeU32BE; rw [toBeBytes_u32 _ h]

theorem encode_array_succ (g : Nat) (b : Bytes) (vs : List Tr.Value)
    (h : b.length + 4 + vs.length * 4 < 18446744073709551616) :
    Tr.Encoder.encode_array (g + 1) ⟨b⟩ vs =
      Ctl.run (Rs.forIn vs ((⟨(b ++ u32be (headerWord C.ARRAY_CONTAINER_TAG vs.length)) ++ zeros (vs.length * 4)⟩ : Tr.Encoder),
            ((4 + vs.length * 4 : Nat) : Int), ((b.length + 4 : Nat) : Int))
          (Tr.Encoder.encode_array.loop1 (Tr.Encoder.encode_value g)) >>= fun st =>
        Ctl.ret (Res.ok (st.2.1, st.1))) := by
  rw [Tr.Encoder.encode_array]
  have hw := headerWord_lt C.ARRAY_CONTAINER_TAG vs.length (by decide)
  simp only [Rs.len, header_term, header_term', writeU32BE_nat _ _ hw]
  simp (disch := omega) only [Rs.mul_usize_ok', Rs.add_usize_ok', Ctl.ofRes_ok', Ctl.val_bind']
  have hres := encoder_reserve_jentries_agrees (b ++ u32be (headerWord C.ARRAY_CONTAINER_TAG vs.length)) (vs.length * 4)
    (by simp [u32be]; omega)
  have hcast : ((vs.length : Nat) : Int) * 4 = ((vs.length * 4 : Nat) : Int) := by omega
  rw [hcast, hres]
  simp only [Ctl.ofRes_ok', Ctl.val_bind']
  have hlen1 : (b ++ u32be (headerWord C.ARRAY_CONTAINER_TAG vs.length)).length = b.length + 4 := by simp [u32be]
  rw [hlen1]
  congr 5 <;> omega

theorem encode_object_succ (g : Nat) (b : Bytes) (kvs : List (Bytes × Tr.Value))
    (h : b.length + 4 + kvs.length * 8 < 18446744073709551616) :
    Tr.Encoder.encode_object (g + 1) ⟨b⟩ kvs =
      Ctl.run (Rs.forIn kvs (((4 + kvs.length * 8 : Nat) : Int),
            (⟨(b ++ u32be (headerWord C.OBJECT_CONTAINER_TAG kvs.length)) ++ zeros (kvs.length * 8)⟩ : Tr.Encoder),
            ((b.length + 4 : Nat) : Int))
          Tr.Encoder.encode_object.loop1 >>= fun st1 =>
        Rs.forIn kvs (st1.2.1, st1.1, st1.2.2) (Tr.Encoder.encode_object.loop2 (Tr.Encoder.encode_value g)) >>= fun st2 =>
        Ctl.ret (Res.ok (st2.2.1, st2.1))) := by
  rw [Tr.Encoder.encode_object]
  have hw := headerWord_lt C.OBJECT_CONTAINER_TAG kvs.length (by decide)
  simp only [Rs.len, header_term, header_term', writeU32BE_nat _ _ hw]
  simp (disch := omega) only [Rs.mul_usize_ok', Rs.add_usize_ok', Ctl.ofRes_ok', Ctl.val_bind']
  have hres := encoder_reserve_jentries_agrees (b ++ u32be (headerWord C.OBJECT_CONTAINER_TAG kvs.length)) (kvs.length * 8)
    (by simp [u32be]; omega)
  have hcast : ((kvs.length : Nat) : Int) * 8 = ((kvs.length * 8 : Nat) : Int) := by omega
  rw [hcast, hres]
  simp only [Ctl.ofRes_ok', Ctl.val_bind']
  have hlen1 : (b ++ u32be (headerWord C.OBJECT_CONTAINER_TAG kvs.length)).length = b.length + 4 := by simp [u32be]
  rw [hlen1]
  congr 5 <;> omega

end Jsonb.TrAgree
