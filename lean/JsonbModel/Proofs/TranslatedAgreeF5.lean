import JsonbModel.Proofs.TranslatedAgreeF4

set_option linter.unusedSimpArgs false
set_option linter.unusedVariables false

namespace Jsonb.TrAgree
open Jsonb.Rs

/-! ## `compare_object`: the two key loops -/

theorem co_loop1_step (left : Bytes) (i : Int) (jo vo : Nat) (acc : List Tr.JEntry)
    (hjo : jo + 4 < 18446744073709551616) (hvo : vo + 268435456 < 18446744073709551616) :
    Tr.compare_object.loop1 left i ((jo : Int), (vo : Int), acc) =
      match readU32At left jo with
      | none => Ctl.ret (.err "InvalidEOF")
      | some w => Ctl.val (.next (((jo + 4 : Nat) : Int), ((vo + jeLen w : Nat) : Int), acc ++ [ofEntry (jeType w, jeLen w)])) := by
  unfold Tr.compare_object.loop1
  dsimp only
  rw [read_u32_agrees left jo (Rs.le_max_of_lt hjo)]
  cases hr : readU32At left jo with
  | none => simp only [Ctl.ofRes_err', Ctl.ret_bind', Rs.loopStep_err']
  | some w =>
    have hl := jeLen_lt w
    have h4 : ((4 : Nat) : Int) = 4 := rfl
    simp only [Ctl.val_bind', Ctl.pure_eq', decode_jentry_agrees, Ctl.ofRes_ok', ← h4,
      Rs.add_usize_nat jo 4 hjo, Rs.usize_nat (jeLen w) (by omega), Rs.add_usize_nat vo (jeLen w) (by omega),
      Rs.pushBack, Rs.loopStep_val', ofEntry]

theorem co_loop2_step (right : Bytes) (i : Int) (jo vo : Nat) (acc : List Tr.JEntry)
    (hjo : jo + 4 < 18446744073709551616) (hvo : vo + 268435456 < 18446744073709551616) :
    Tr.compare_object.loop2 right i ((jo : Int), (vo : Int), acc) =
      match readU32At right jo with
      | none => Ctl.ret (.err "InvalidEOF")
      | some w => Ctl.val (.next (((jo + 4 : Nat) : Int), ((vo + jeLen w : Nat) : Int), acc ++ [ofEntry (jeType w, jeLen w)])) := by
  unfold Tr.compare_object.loop2
  dsimp only
  rw [read_u32_agrees right jo (Rs.le_max_of_lt hjo)]
  cases hr : readU32At right jo with
  | none => simp only [Ctl.ofRes_err', Ctl.ret_bind', Rs.loopStep_err']
  | some w =>
    have hl := jeLen_lt w
    have h4 : ((4 : Nat) : Int) = 4 := rfl
    simp only [Ctl.val_bind', Ctl.pure_eq', decode_jentry_agrees, Ctl.ofRes_ok', ← h4,
      Rs.add_usize_nat jo 4 hjo, Rs.usize_nat (jeLen w) (by omega), Rs.add_usize_nat vo (jeLen w) (by omega),
      Rs.pushBack, Rs.loopStep_val', ofEntry]

/-- a key loop (any body with the step above) collects `fillKeyEntries` -/
theorem co_keys_run (buf : Bytes)
    (body : Int → (Int × Int × List Tr.JEntry) → Ctl Ordering (Rs.Step (Int × Int × List Tr.JEntry)))
    (hbody : ∀ (i : Int) (jo vo : Nat) (acc : List Tr.JEntry), jo + 4 < 18446744073709551616 →
      vo + 268435456 < 18446744073709551616 →
      body i ((jo : Int), (vo : Int), acc) =
        match readU32At buf jo with
        | none => Ctl.ret (.err "InvalidEOF")
        | some w => Ctl.val (.next (((jo + 4 : Nat) : Int), ((vo + jeLen w : Nat) : Int), acc ++ [ofEntry (jeType w, jeLen w)]))) :
    ∀ (n : Nat) (i : Int) (jo vo : Nat) (acc : List Tr.JEntry),
      jo + n * 4 + 4 < 18446744073709551616 → vo + n * 268435456 + 268435456 < 18446744073709551616 →
      Rs.forRangeAux body n i ((jo : Int), (vo : Int), acc) =
        match fillKeyEntries buf n jo vo with
        | none => Ctl.ret (.err "InvalidEOF")
        | some (ks, jo', vo') => Ctl.val (((jo' : Nat) : Int), ((vo' : Nat) : Int), acc ++ ks.map ofEntry) := by
  intro n
  induction n with
  | zero =>
    intro i jo vo acc _ _
    simp only [fillKeyEntries, Rs.forRangeAux_zero, List.map_nil, List.append_nil]
  | succ n ih =>
    intro i jo vo acc hjo hvo
    have hs := hbody i jo vo acc (by omega) (by omega)
    simp only [fillKeyEntries]
    cases hr : readU32At buf jo with
    | none =>
      rw [hr] at hs
      rw [Rs.forRangeAux_ret _ _ _ _ _ hs]
    | some w =>
      rw [hr] at hs
      have hl := jeLen_lt w
      rw [Rs.forRangeAux_next _ _ _ _ _ hs, ih (i + 1) (jo + 4) (vo + jeLen w) _ (by omega) (by omega)]
      dsimp only
      cases fillKeyEntries buf n (jo + 4) (vo + jeLen w) with
      | none => rfl
      | some q =>
        obtain ⟨ks, jo', vo'⟩ := q
        simp only [List.map_cons, List.append_assoc, List.singleton_append]

/-! ## `compare_object`: the member loop -/

theorem co_loop3_step (rec : Tr.JEntry → Bytes → Tr.JEntry → Bytes → Res Ordering) (left right : Bytes)
    (i : Int) (lk rk : Nat × Nat) (lkjs rkjs : List Tr.JEntry) (ljo rjo lko rko lvo rvo : Nat)
    (hlk : lk.2 < 4294967296) (hrk : rk.2 < 4294967296)
    (hljo : ljo + 4 < 18446744073709551616) (hrjo : rjo + 4 < 18446744073709551616)
    (hl : left.length < 9223372036854775808) (hr : right.length < 9223372036854775808) :
    Tr.compare_object.loop3 rec left right i
        (ofEntry lk :: lkjs, ofEntry rk :: rkjs, (ljo : Int), (rjo : Int), (lko : Int), (rko : Int), (lvo : Int), (rvo : Int)) =
      if lko ≤ left.length then
        if rko ≤ right.length then
          (Ctl.ofRes (rec (ofEntry lk) (left.drop lko) (ofEntry rk) (right.drop rko)) >>= fun ko =>
            if ko ≠ Ordering.eq then Ctl.ret (.ok ko)
            else
              match readU32At left ljo with
              | none => Ctl.ret (.err "InvalidEOF")
              | some lw =>
                match readU32At right rjo with
                | none => Ctl.ret (.err "InvalidEOF")
                | some rw =>
                  if lvo ≤ left.length then
                    if rvo ≤ right.length then
                      (Ctl.ofRes (rec ⟨(jeType lw : Nat), (jeLen lw : Nat)⟩ (left.drop lvo) ⟨(jeType rw : Nat), (jeLen rw : Nat)⟩ (right.drop rvo)) >>= fun o =>
                        if o ≠ Ordering.eq then Ctl.ret (.ok o)
                        else Ctl.val (.next (lkjs, rkjs, ((ljo + 4 : Nat) : Int), ((rjo + 4 : Nat) : Int),
                          ((lko + lk.2 : Nat) : Int), ((rko + rk.2 : Nat) : Int),
                          ((lvo + jeLen lw : Nat) : Int), ((rvo + jeLen rw : Nat) : Int))))
                    else Ctl.ret (.panic "range start index out of range for slice")
                  else Ctl.ret (.panic "range start index out of range for slice"))
        else Ctl.ret (.panic "range start index out of range for slice")
      else Ctl.ret (.panic "range start index out of range for slice") := by
  unfold Tr.compare_object.loop3
  dsimp only
  simp only [Rs.popFront, Rs.unwrap_some, Ctl.ofRes_ok', Ctl.val_bind', sliceFrom_model]
  by_cases h1 : lko ≤ left.length
  swap
  · simp only [if_neg h1, sliceFrom_model_panic _ _ h1, Ctl.ofRes_panic', Ctl.ret_bind', Rs.loopStep_panic']
  by_cases h2 : rko ≤ right.length
  swap
  · simp only [if_pos h1, if_neg h2, sliceFrom_model_ok _ _ h1, sliceFrom_model_panic _ _ h2, Ctl.ofRes_ok',
      Ctl.ofRes_panic', Ctl.val_bind', Ctl.ret_bind', Rs.loopStep_panic']
  simp only [if_pos h1, if_pos h2, sliceFrom_model_ok _ _ h1, sliceFrom_model_ok _ _ h2, Ctl.ofRes_ok', Ctl.val_bind']
  cases rec (ofEntry lk) (left.drop lko) (ofEntry rk) (right.drop rko) with
  | err e => simp only [Ctl.ofRes_err', Ctl.ret_bind', Rs.loopStep_err']
  | panic s => simp only [Ctl.ofRes_panic', Ctl.ret_bind', Rs.loopStep_panic']
  | fuel => rfl
  | ok ko =>
    simp only [Ctl.ofRes_ok', Ctl.val_bind', decide_eq_true_eq]
    by_cases hko : ko ≠ Ordering.eq
    · simp only [if_pos hko, Ctl.ret_bind', Rs.loopStep_ret']
    simp only [if_neg hko, Ctl.pure_eq', Ctl.val_bind']
    rw [read_u32_agrees left ljo (Rs.le_max_of_lt hljo), read_u32_agrees right rjo (Rs.le_max_of_lt hrjo)]
    cases hlw : readU32At left ljo with
    | none => simp only [Ctl.ofRes_err', Ctl.ret_bind', Rs.loopStep_err']
    | some lw =>
      cases hrw : readU32At right rjo with
      | none => simp only [Ctl.ofRes_ok', Ctl.ofRes_err', Ctl.val_bind', Ctl.ret_bind', decode_jentry_agrees, Rs.loopStep_err']
      | some rw =>
        have hll := jeLen_lt lw
        have hrl := jeLen_lt rw
        simp only [Ctl.ofRes_ok', Ctl.val_bind', decode_jentry_agrees]
        by_cases h3 : lvo ≤ left.length
        swap
        · simp only [if_neg h3, sliceFrom_model_panic _ _ h3, Ctl.ofRes_panic', Ctl.ret_bind', Rs.loopStep_panic']
        by_cases h4' : rvo ≤ right.length
        swap
        · simp only [if_pos h3, if_neg h4', sliceFrom_model_ok _ _ h3, sliceFrom_model_panic _ _ h4', Ctl.ofRes_ok',
            Ctl.ofRes_panic', Ctl.val_bind', Ctl.ret_bind', Rs.loopStep_panic']
        have h4 : ((4 : Nat) : Int) = 4 := rfl
        simp only [if_pos h3, if_pos h4', sliceFrom_model_ok _ _ h3, sliceFrom_model_ok _ _ h4', Ctl.ofRes_ok', Ctl.val_bind']
        cases rec ⟨(jeType lw : Nat), (jeLen lw : Nat)⟩ (left.drop lvo) ⟨(jeType rw : Nat), (jeLen rw : Nat)⟩ (right.drop rvo) with
        | err e => simp only [Ctl.ofRes_err', Ctl.ret_bind', Rs.loopStep_err']
        | panic s => simp only [Ctl.ofRes_panic', Ctl.ret_bind', Rs.loopStep_panic']
        | fuel => rfl
        | ok o =>
          simp only [Ctl.ofRes_ok', Ctl.val_bind', decide_eq_true_eq]
          by_cases ho : o ≠ Ordering.eq
          · simp only [if_pos ho, Ctl.ret_bind', Rs.loopStep_ret']
          · simp only [if_neg ho, Ctl.pure_eq', Ctl.val_bind', ← h4, Rs.add_usize_nat ljo 4 hljo, Rs.add_usize_nat rjo 4 hrjo,
              ofEntry, Rs.usize_nat lk.2 (by omega), Rs.usize_nat rk.2 (by omega),
              Rs.usize_nat (jeLen lw) (by omega), Rs.usize_nat (jeLen rw) (by omega),
              Rs.add_usize_nat lko lk.2 (by omega), Rs.add_usize_nat rko rk.2 (by omega),
              Rs.add_usize_nat lvo (jeLen lw) (by omega), Rs.add_usize_nat rvo (jeLen rw) (by omega),
              Ctl.ofRes_ok', Rs.loopStep_val']

end Jsonb.TrAgree
