/-
Agreement theorems, phase 6a, part 2: the position walkers `select_object_values` and `select_array_values`
= `Sel.selectObjectValues` / `Sel.selectArrayValues` (the loops lay out `Sel.layPos`).
-/
import JsonbModel.Proofs.TranslatedAgreeG1

set_option linter.unusedSimpArgs false
set_option linter.unusedVariables false

namespace Jsonb.TrAgree
open Jsonb.Rs

/-- `&s[a..]` with a natural-number start -/
theorem sliceFrom_nat_if (s : Bytes) (a : Nat) :
    Rs.sliceFrom s (a : Int) =
      if a ≤ s.length then .ok (s.drop a) else .panic "range start index out of range for slice" := by
  unfold Rs.sliceFrom
  by_cases h : a ≤ s.length
  · have h' : (0 : Int) ≤ a ∧ (a : Int) ≤ s.length := by omega
    rw [if_pos h', if_pos h]; simp
  · have h' : ¬ ((0 : Int) ≤ a ∧ (a : Int) ≤ s.length) := by omega
    rw [if_neg h', if_neg h]

theorem tag_decide_g (a b : Nat) : decide ((a : Int) = (b : Int)) = decide (a = b) := by
  by_cases h : a = b
  · simp [h]
  · have : ¬ ((a : Int) = (b : Int)) := by omega
    simp [h, this]

theorem tag_decide_ne_g (a b : Nat) : decide ((a : Int) ≠ (b : Int)) = decide (a ≠ b) := by
  by_cases h : a = b
  · simp [h]
  · have : ¬ ((a : Int) = (b : Int)) := by omega
    simp [h, this]

theorem zero_decide_g (a : Nat) : decide ((a : Int) = 0) = decide (a = 0) := by
  by_cases h : a = 0
  · simp [h]
  · have : ¬ ((a : Int) = 0) := by omega
    simp [h, this]

/-- the position pushed for an entry `(ty, len)` at `off` -/
theorem pos_term_g (ty off len : Nat) :
    (if decide ((ty : Int) = (C.CONTAINER_TAG : Int)) = true then Tr.Position.Container ((off : Int), (len : Int))
     else Tr.Position.Scalar ((ty : Int), (off : Int), (len : Int))) = ofPos (Sel.mkPos ty off len) := by
  rw [ofPos_mkPos, tag_decide_g]
  by_cases h : ty = C.CONTAINER_TAG <;> simp [h]

/-! ## the loops that lay positions out -/

theorem sumLens_cons_g (e : Nat × Nat) (es : List (Nat × Nat)) : Sel.sumLens (e :: es) = e.2 + Sel.sumLens es := by
  simp [Sel.sumLens]

/-- one iteration of the value loop of `select_object_values` -/
theorem sov_loop2_step (ty len off : Nat) (poses : List Sel.Pos) (h : off + len < 18446744073709551616) :
    Tr.Selector.select_object_values.loop2 ((ty : Int), (len : Int)) (poses.map ofPos, (off : Int)) =
      Ctl.val (.next ((poses ++ [Sel.mkPos ty off len]).map ofPos, ((off + len : Nat) : Int))) := by
  unfold Tr.Selector.select_object_values.loop2
  simp only [Rs.add_usize_nat off len h, Ctl.ofRes_ok', Ctl.val_bind', Ctl.pure_eq', Rs.loopStep_val', pos_term_g,
    Rs.pushBack, List.map_append, List.map_cons, List.map_nil]

theorem sov_loop2_run : ∀ (es : List (Nat × Nat)) (poses : List Sel.Pos) (off : Nat),
    off + Sel.sumLens es < 18446744073709551616 →
    Rs.forIn (es.map ofPairI) (poses.map ofPos, (off : Int)) Tr.Selector.select_object_values.loop2 =
      Ctl.val ((poses ++ Sel.layPos es off).map ofPos, ((off + Sel.sumLens es : Nat) : Int)) := by
  intro es
  induction es with
  | nil => intro poses off _; simp [Rs.forIn, Sel.layPos, Sel.sumLens]
  | cons e es ih =>
    intro poses off h
    obtain ⟨ty, len⟩ := e
    rw [sumLens_cons_g] at h
    simp only [List.map_cons, ofPairI]
    rw [Rs.forIn_next _ _ _ _ _ (sov_loop2_step ty len off poses (by omega)), ih _ _ (by omega)]
    simp only [Sel.layPos, List.append_assoc, List.singleton_append, sumLens_cons_g, Nat.add_assoc]

/-- the key loop of `select_object_values`: the key lengths are added up -/
theorem sov_loop1_step (length : Int) (ty len off : Nat) (h : off + len < 18446744073709551616) :
    Tr.Selector.select_object_values.loop1 length ((ty : Int), (len : Int)) (off : Int) =
      Ctl.val (.next ((off + len : Nat) : Int)) := by
  unfold Tr.Selector.select_object_values.loop1
  simp only [Rs.add_usize_nat off len h, Ctl.ofRes_ok', Ctl.val_bind', Ctl.pure_eq', Rs.loopStep_val']

theorem sov_loop1_run (length : Int) : ∀ (es : List (Nat × Nat)) (off : Nat),
    off + Sel.sumLens es < 18446744073709551616 →
    Rs.forIn (es.map ofPairI) (off : Int) (Tr.Selector.select_object_values.loop1 length) =
      Ctl.val ((off + Sel.sumLens es : Nat) : Int) := by
  intro es
  induction es with
  | nil => intro off _; simp [Rs.forIn, Sel.sumLens]
  | cons e es ih =>
    intro off h
    obtain ⟨ty, len⟩ := e
    rw [sumLens_cons_g] at h
    simp only [List.map_cons, ofPairI]
    rw [Rs.forIn_next _ _ _ _ _ (sov_loop1_step length ty len off (by omega)), ih _ (by omega)]
    simp only [sumLens_cons_g, Nat.add_assoc]

theorem sov_loop1_run_int (length : Int) (es : List (Nat × Nat)) (offI : Int) (off : Nat) (ho : offI = (off : Int))
    (h : off + Sel.sumLens es < 18446744073709551616) :
    Rs.forIn (es.map ofPairI) offI (Tr.Selector.select_object_values.loop1 length) =
      Ctl.val ((off + Sel.sumLens es : Nat) : Int) := by
  subst ho; exact sov_loop1_run length es off h

/-! ## select_object_values -/

theorem select_object_values_eq (self : Tr.Selector) (root : Bytes) (off : Nat) (poses : List Sel.Pos)
    (hlen : root.length < 9223372036854775808) (hoff : off ≤ root.length) :
    Tr.Selector.select_object_values self root (off : Int) (poses.map ofPos) =
      (Sel.selectObjectValues root off).map (fun ps => (poses ++ ps).map ofPos) := by
  unfold Tr.Selector.select_object_values Sel.selectObjectValues Sel.headerAt
  have hno : ¬ off > root.length := by omega
  rw [sliceFrom_nat_if, if_pos hoff, if_neg hno]
  simp only [Ctl.ofRes_ok', Ctl.val_bind', decode_header_drop root off hoff]
  cases hr : readU32At root off with
  | none => rfl
  | some w =>
    have h4 := readU32At_some_le_g root off w hr
    have hL := hdrLen_lt w
    simp only [mapErr_ok_g, Ctl.ofRes_ok', Ctl.val_bind', tag_decide_ne_g, zero_decide_g]
    by_cases hc : hdrType w ≠ C.OBJECT_CONTAINER_TAG ∨ hdrLen w = 0
    · have hb : (decide (hdrType w ≠ C.OBJECT_CONTAINER_TAG) || decide (hdrLen w = 0)) = true := by
        rcases hc with h | h <;> simp [h]
      simp [hb, hc, Ctl.run, Res.map, Res.bind]
    · have hb : (decide (hdrType w ≠ C.OBJECT_CONTAINER_TAG) || decide (hdrLen w = 0)) = false := by
        simp only [not_or, Decidable.not_not] at hc
        simp [hc.1, hc.2]
      have hn : hdrLen w ≠ 0 := fun h => hc (Or.inr h)
      simp only [hb, hc, Bool.false_eq_true, if_false, Ctl.pure_eq', Ctl.val_bind']
      rw [decode_jentries_at root (hdrLen w) (off + 4) h4]
      rcases entriesAt_cases_g root (hdrLen w) (off + 4) with ⟨ks, hk⟩ | hk
      · obtain ⟨hk1, hk2, hk3⟩ := entriesAt_ok_g root _ _ _ hk
        have hk2 := hk2 hn
        rw [hk]
        simp only [Res.map, Res.bind, Ctl.ofRes_ok', Ctl.val_bind']
        rw [decode_jentries_at root (hdrLen w) (off + 4 + 4 * hdrLen w) (by omega)]
        rcases entriesAt_cases_g root (hdrLen w) (off + 4 + 4 * hdrLen w) with ⟨vs, hv⟩ | hv
        · obtain ⟨hv1, hv2, hv3⟩ := entriesAt_ok_g root _ _ _ hv
          have hv2 := hv2 hn
          rw [hv]
          simp only [Res.map, Res.bind, Ctl.ofRes_ok', Ctl.val_bind']
          simp (disch := omega) only [Rs.add_usize_ok', Rs.mul_usize_ok', Ctl.ofRes_ok', Ctl.val_bind']
          rw [sov_loop1_run_int _ ks _ (off + 4 + hdrLen w * 8) (by omega) (by omega)]
          simp only [Ctl.val_bind']
          rw [sov_loop2_run vs poses _ (by omega)]
          simp only [Ctl.val_bind', Ctl.run]
        · rw [hv]; rfl
      · rw [hk]
        cases Sel.entriesAt root (hdrLen w) (off + 4 + 4 * hdrLen w) <;> rfl

/-- past the end of the buffer both panic (`&root[off..]`), with different texts -/
theorem select_object_values_oob (self : Tr.Selector) (root : Bytes) (off : Nat) (poses : List Tr.Position)
    (hoff : ¬ off ≤ root.length) :
    Tr.Selector.select_object_values self root (off : Int) poses = .panic "range start index out of range for slice" ∧
      Sel.selectObjectValues root off = .panic "slice start out of range" := by
  constructor
  · unfold Tr.Selector.select_object_values
    rw [sliceFrom_nat_if, if_neg hoff]; rfl
  · unfold Sel.selectObjectValues Sel.headerAt
    have : off > root.length := by omega
    rw [if_pos this]

theorem select_object_values_agrees (self : Tr.Selector) (root : Bytes) (off : Nat) (poses : List Sel.Pos)
    (hlen : root.length < 9223372036854775808) :
    panicAny (Tr.Selector.select_object_values self root (off : Int) (poses.map ofPos)) =
      panicAny ((Sel.selectObjectValues root off).map (fun ps => (poses ++ ps).map ofPos)) := by
  by_cases hoff : off ≤ root.length
  · rw [select_object_values_eq self root off poses hlen hoff]
  · obtain ⟨h1, h2⟩ := select_object_values_oob self root off (poses.map ofPos) hoff
    rw [h1, h2]; rfl

/-! ## select_array_values -/

theorem sav_loop1_step (ty len off : Nat) (poses : List Sel.Pos) (h : off + len < 18446744073709551616) :
    Tr.Selector.select_array_values.loop1 ((ty : Int), (len : Int)) (poses.map ofPos, (off : Int)) =
      Ctl.val (.next ((poses ++ [Sel.mkPos ty off len]).map ofPos, ((off + len : Nat) : Int))) := by
  unfold Tr.Selector.select_array_values.loop1
  simp only [Rs.add_usize_nat off len h, Ctl.ofRes_ok', Ctl.val_bind', Ctl.pure_eq', Rs.loopStep_val', pos_term_g,
    Rs.pushBack, List.map_append, List.map_cons, List.map_nil]

theorem sav_loop1_run : ∀ (es : List (Nat × Nat)) (poses : List Sel.Pos) (off : Nat),
    off + Sel.sumLens es < 18446744073709551616 →
    Rs.forIn (es.map ofPairI) (poses.map ofPos, (off : Int)) Tr.Selector.select_array_values.loop1 =
      Ctl.val ((poses ++ Sel.layPos es off).map ofPos, ((off + Sel.sumLens es : Nat) : Int)) := by
  intro es
  induction es with
  | nil => intro poses off _; simp [Rs.forIn, Sel.layPos, Sel.sumLens]
  | cons e es ih =>
    intro poses off h
    obtain ⟨ty, len⟩ := e
    rw [sumLens_cons_g] at h
    simp only [List.map_cons, ofPairI]
    rw [Rs.forIn_next _ _ _ _ _ (sav_loop1_step ty len off poses (by omega)), ih _ _ (by omega)]
    simp only [Sel.layPos, List.append_assoc, List.singleton_append, sumLens_cons_g, Nat.add_assoc]

theorem sav_loop1_run_int (es : List (Nat × Nat)) (poses : List Sel.Pos) (offI : Int) (off : Nat) (ho : offI = (off : Int))
    (h : off + Sel.sumLens es < 18446744073709551616) :
    Rs.forIn (es.map ofPairI) (poses.map ofPos, offI) Tr.Selector.select_array_values.loop1 =
      Ctl.val ((poses ++ Sel.layPos es off).map ofPos, ((off + Sel.sumLens es : Nat) : Int)) := by
  subst ho; exact sav_loop1_run es poses off h

theorem select_array_values_eq (self : Tr.Selector) (root : Bytes) (off len : Nat) (poses : List Sel.Pos)
    (hlen : root.length < 9223372036854775808) (hoff : off ≤ root.length) :
    Tr.Selector.select_array_values self root (off : Int) (len : Int) (poses.map ofPos) =
      (Sel.selectArrayValues root off len).map (fun ps => (poses ++ ps).map ofPos) := by
  unfold Tr.Selector.select_array_values Sel.selectArrayValues Sel.headerAt
  have hno : ¬ off > root.length := by omega
  rw [sliceFrom_nat_if, if_pos hoff, if_neg hno]
  simp only [Ctl.ofRes_ok', Ctl.val_bind', decode_header_drop root off hoff]
  cases hr : readU32At root off with
  | none => rfl
  | some w =>
    have h4 := readU32At_some_le_g root off w hr
    have hL := hdrLen_lt w
    simp only [mapErr_ok_g, Ctl.ofRes_ok', Ctl.val_bind', tag_decide_ne_g]
    by_cases hc : hdrType w ≠ C.ARRAY_CONTAINER_TAG
    · simp [hc, Ctl.run, Res.map, Res.bind, Rs.pushBack, ofPos]
    · simp only [hc, decide_false, Bool.false_eq_true, if_false, Ctl.pure_eq', Ctl.val_bind']
      rw [decode_jentries_at root (hdrLen w) (off + 4) h4]
      rcases entriesAt_cases_g root (hdrLen w) (off + 4) with ⟨vs, hv⟩ | hv
      · obtain ⟨hv1, hv2, hv3⟩ := entriesAt_ok_g root _ _ _ hv
        have hv2' : off + 4 + 4 * hdrLen w ≤ root.length := by
          by_cases hn : hdrLen w = 0
          · rw [hn]; omega
          · exact hv2 hn
        rw [hv]
        simp only [Res.map, Res.bind, Ctl.ofRes_ok', Ctl.val_bind']
        simp (disch := omega) only [Rs.add_usize_ok', Rs.mul_usize_ok', Ctl.ofRes_ok', Ctl.val_bind']
        rw [sav_loop1_run_int vs poses _ (off + 4 + hdrLen w * 4) (by omega) (by omega)]
        simp only [Ctl.val_bind', Ctl.run]
      · rw [hv]; rfl

theorem select_array_values_oob (self : Tr.Selector) (root : Bytes) (off : Nat) (len : Int) (poses : List Tr.Position)
    (hoff : ¬ off ≤ root.length) :
    Tr.Selector.select_array_values self root (off : Int) len poses = .panic "range start index out of range for slice" ∧
      ∀ l, Sel.selectArrayValues root off l = .panic "slice start out of range" := by
  constructor
  · unfold Tr.Selector.select_array_values
    rw [sliceFrom_nat_if, if_neg hoff]; rfl
  · intro l
    unfold Sel.selectArrayValues Sel.headerAt
    have : off > root.length := by omega
    rw [if_pos this]

theorem select_array_values_agrees (self : Tr.Selector) (root : Bytes) (off len : Nat) (poses : List Sel.Pos)
    (hlen : root.length < 9223372036854775808) :
    panicAny (Tr.Selector.select_array_values self root (off : Int) (len : Int) (poses.map ofPos)) =
      panicAny ((Sel.selectArrayValues root off len).map (fun ps => (poses ++ ps).map ofPos)) := by
  by_cases hoff : off ≤ root.length
  · rw [select_array_values_eq self root off len poses hlen hoff]
  · obtain ⟨h1, h2⟩ := select_array_values_oob self root off (len : Int) (poses.map ofPos) hoff
    rw [h1, h2 len]; rfl

end Jsonb.TrAgree
