/-
Agreement theorems, phase 6a, part 12: the recursive group `find_positions` / `filter_expr` / `eval_exists` =
`Sel.findPositions` / `Sel.filterExpr` (strong induction on the model's fuel, with the margin the two fuel disciplines
need).
-/
import JsonbModel.Proofs.TranslatedAgreeG11

set_option linter.unusedSimpArgs false
set_option linter.unusedVariables false

namespace Jsonb.TrAgree
open Jsonb.Rs

/-- `find_positions` with fuel `g` against the model with fuel `f` -/
def FPOK (f : Nat) : Prop :=
  ∀ (g : Nat) (self : Tr.Selector) (root : Bytes) (cur : Option Sel.Pos) (paths : List Path),
    f ≤ g + 1 → (cur.isSome = true ∨ f ≤ g) → PathsOK paths → root.length < 9223372036854775808 →
    Sel.findPositions f root cur paths ≠ .fuel →
    AgR (fun ps => ps.map ofPos) (Tr.Selector.find_positions g self root (cur.map ofPos) (ofPaths paths))
      (Sel.findPositions f root cur paths)

/-- `filter_expr` with fuel `g` against the model with fuel `f` -/
def FEOK (f : Nat) : Prop :=
  ∀ (g : Nat) (self : Tr.Selector) (root : Bytes) (pos : Sel.Pos) (e : Expr),
    f ≤ g → ExprOK e → root.length < 9223372036854775808 →
    Sel.filterExpr f root pos e ≠ .fuel →
    AgR (fun b => b) (Tr.Selector.filter_expr g self root (ofPos pos) (ofExpr e)) (Sel.filterExpr f root pos e)

/-! ## find_positions, one unfolding -/

/-- the start position of `find_positions` -/
def startR (root : Bytes) (cur : Option Sel.Pos) (paths : List Path) : Res Sel.Pos :=
  match paths.head? with
  | some .current => (match cur with
                      | some c => .ok c
                      | none => .panic "missing current position")
  | _ => .ok (Sel.rootPosition root)

theorem findPositions_succ (f : Nat) (root : Bytes) (cur : Option Sel.Pos) (paths : List Path) :
    Sel.findPositions (f + 1) root cur paths = (startR root cur paths).bind (fun start => Sel.walk f root paths [start]) := by
  simp only [Sel.findPositions, startR]
  cases paths with
  | nil => rfl
  | cons p rest => cases p <;> first | rfl | (cases cur <;> rfl)

theorem find_positions_step (g f : Nat) (self : Tr.Selector) (root : Bytes) (cur : Option Sel.Pos) (paths : List Path)
    (hok : PathsOK paths) (hlen : root.length < 9223372036854775808)
    (hrec : RecFE (Tr.Selector.filter_expr g) self root f)
    (hf : Sel.findPositions (f + 1) root cur paths ≠ .fuel) :
    AgR (fun ps => ps.map ofPos) (Tr.Selector.find_positions (g + 1) self root (cur.map ofPos) (ofPaths paths))
      (Sel.findPositions (f + 1) root cur paths) := by
  rw [findPositions_succ] at hf ⊢
  simp only [Tr.Selector.find_positions]
  -- the loop over the paths, from any start position
  have hwalk : ∀ (start : Sel.Pos), Sel.walk f root paths [start] ≠ .fuel →
      AgR (fun ps => ps.map ofPos)
        (Ctl.run (do
          let poses ← Rs.forIn (ofPaths paths) (Rs.pushBack ([] : List Tr.Position) (ofPos start))
            (Tr.Selector.find_positions.loop3 (Tr.Selector.filter_expr g) self root)
          Ctl.ret (Res.ok poses)))
        (Sel.walk f root paths [start]) := by
    intro start hne
    have hpush : Rs.pushBack ([] : List Tr.Position) (ofPos start) = [start].map ofPos := rfl
    rw [hpush]
    have h := walk_run (Tr.Selector.filter_expr g) self root f hrec hlen paths hok [start] f (by omega) hne
    rcases h with h | h
    · left; rw [h]; rfl
    · right
      cases hm : Sel.walk f root paths [start] with
      | ok r => rw [hm] at h; simp only [] at h; rw [h]; rfl
      | err e => rw [hm] at h; simp only [] at h; rw [h]; rfl
      | panic s => rw [hm] at h; obtain ⟨t, ht⟩ := h; exact ⟨t, by rw [ht]; rfl⟩
      | fuel => exact absurd hm hne
  split
  · rename_i h
    have hh := (firstOf_current paths).mp h
    cases cur with
    | none =>
      have hs : startR root none paths = .panic "missing current position" := by simp [startR, hh]
      rw [hs]; right; exact ⟨_, rfl⟩
    | some c =>
      have hs : startR root (some c) paths = .ok c := by simp [startR, hh]
      rw [hs] at hf ⊢
      simp only [Option.map_some, Rs.expect, Ctl.ofRes_ok', Ctl.pure_eq', Ctl.val_bind', Res.bind] at hf ⊢
      exact hwalk c hf
  · rename_i h
    have hs : startR root cur paths = .ok (Sel.rootPosition root) := by
      have hn : ¬ paths.head? = some Path.current := fun hh => h ((firstOf_current paths).mpr hh)
      unfold startR
      split
      · rename_i h2; exact absurd h2 hn
      · rfl
    rw [hs] at hf ⊢
    simp only [root_position_agrees, Ctl.ofRes_ok', Ctl.pure_eq', Ctl.val_bind', Res.bind] at hf ⊢
    exact hwalk _ hf

/-! ## filter_expr, one unfolding -/

/-- the value list of an operand, with its `ExprValue` -/
theorem cev_rep (self : Tr.Selector) (root : Bytes) (pos : Sel.Pos) (e : Expr) (he : ExprOK e)
    (hlen : root.length < 9223372036854775808) (f : Nat) :
    Tr.Selector.convert_expr_val self root (ofPos pos) (ofExpr e) = .panic "capacity overflow" ∨
      (match Sel.exprVal (f + 1) root pos e with
       | .ok vs => ∃ a, Tr.Selector.convert_expr_val self root (ofPos pos) (ofExpr e) = .ok a ∧ EVRep a vs
       | .err er => Tr.Selector.convert_expr_val self root (ofPos pos) (ofExpr e) = .err er
       | .panic _ => ∃ s, Tr.Selector.convert_expr_val self root (ofPos pos) (ofExpr e) = .panic s
       | .fuel => Tr.Selector.convert_expr_val self root (ofPos pos) (ofExpr e) = .fuel) := by
  cases e with
  | value v =>
    right
    rw [convert_expr_val_value]
    exact ⟨_, rfl, EVRep.value v⟩
  | paths paths =>
    simp only [ExprOK] at he
    have h := convert_expr_val_paths self root pos paths he hlen f
    rcases h with h | h
    · exact Or.inl h
    · right
      cases hm : Sel.exprVal (f + 1) root pos (.paths paths) with
      | ok vs => rw [hm] at h; simp only [] at h ⊢; exact ⟨_, h, EVRep.values vs⟩
      | err er => rw [hm] at h; exact h
      | panic s => rw [hm] at h; exact h
      | fuel => rw [hm] at h; exact h
  | binaryOp op l r => right; exact ⟨_, rfl⟩
  | arithUnary op e => right; exact ⟨_, rfl⟩
  | arithBinary op l r => right; exact ⟨_, rfl⟩
  | existsFn ps => right; exact ⟨_, rfl⟩

/-- the comparison arm of `filter_expr` -/
theorem filter_cmp (self : Tr.Selector) (root : Bytes) (pos : Sel.Pos) (op : BinOp) (hop : isCmpOp op = true) (l r : Expr)
    (hl : ExprOK l) (hr : ExprOK r) (hlen : root.length < 9223372036854775808) (f : Nat) :
    AgR (fun b => b)
      (Ctl.run (do
        let lhs ← Ctl.ofRes (Tr.Selector.convert_expr_val self root (ofPos pos) (ofExpr l))
        let rhs ← Ctl.ofRes (Tr.Selector.convert_expr_val self root (ofPos pos) (ofExpr r))
        let res ← Ctl.ofRes (Tr.Selector.compare self (ofBinOp op) lhs rhs)
        Ctl.ret (Res.ok res)))
      ((Sel.exprVal (f + 1) root pos l).bind (fun lv => (Sel.exprVal (f + 1) root pos r).bind (fun rv => Sel.anyPair op lv rv))) := by
  have h1 := cev_rep self root pos l hl hlen f
  rcases h1 with h1 | h1
  · left; rw [h1]; rfl
  · cases hm1 : Sel.exprVal (f + 1) root pos l with
    | ok lv =>
      rw [hm1] at h1; obtain ⟨a, ha, hra⟩ := h1
      rw [ha]
      simp only [Ctl.ofRes_ok', Ctl.val_bind', Res.bind]
      have h2 := cev_rep self root pos r hr hlen f
      rcases h2 with h2 | h2
      · left; rw [h2]; rfl
      · cases hm2 : Sel.exprVal (f + 1) root pos r with
        | ok rv =>
          rw [hm2] at h2; obtain ⟨b, hb, hrb⟩ := h2
          rw [hb]
          simp only [Ctl.ofRes_ok', Ctl.val_bind']
          rw [compare_agrees self op hop a b lv rv hra hrb (exprVal_ok f root pos l hl lv hm1) (exprVal_ok f root pos r hr rv hm2)]
          right
          cases Sel.anyPair op lv rv with
          | ok c => rfl
          | err e => rfl
          | panic s => exact ⟨s, rfl⟩
          | fuel => rfl
        | err e => rw [hm2] at h2; simp only [] at h2; right; rw [h2]; rfl
        | panic s => rw [hm2] at h2; obtain ⟨t, ht⟩ := h2; right; exact ⟨t, by rw [ht]; rfl⟩
        | fuel => rw [hm2] at h2; simp only [] at h2; right; rw [h2]; rfl
    | err e => rw [hm1] at h1; simp only [] at h1; right; rw [h1]; rfl
    | panic s => rw [hm1] at h1; obtain ⟨t, ht⟩ := h1; right; exact ⟨t, by rw [ht]; rfl⟩
    | fuel => rw [hm1] at h1; simp only [] at h1; right; rw [h1]; rfl

theorem filterExpr_cmp (f : Nat) (root : Bytes) (pos : Sel.Pos) (op : BinOp) (hop : isCmpOp op = true) (l r : Expr) :
    Sel.filterExpr (f + 1) root pos (.binaryOp op l r) =
      (Sel.exprVal f root pos l).bind (fun lv => (Sel.exprVal f root pos r).bind (fun rv => Sel.anyPair op lv rv)) := by
  cases op <;> simp only [isCmpOp, Bool.false_eq_true] at hop <;> simp only [Sel.filterExpr] <;>
    (cases Sel.exprVal f root pos l with
     | ok lv => cases Sel.exprVal f root pos r <;> rfl
     | err e => rfl
     | panic s => rfl
     | fuel => rfl)

/-- the two-operand arms `||` / `&&` of the model -/
theorem filterExpr_or (f : Nat) (root : Bytes) (pos : Sel.Pos) (l r : Expr) :
    Sel.filterExpr (f + 1) root pos (.binaryOp .or l r) =
      (Sel.filterExpr f root pos l).bind (fun a => (Sel.filterExpr f root pos r).bind (fun b => .ok (a || b))) := by
  simp only [Sel.filterExpr]
  cases Sel.filterExpr f root pos l with
  | ok a => cases Sel.filterExpr f root pos r <;> rfl
  | err e => cases Sel.filterExpr f root pos r <;> rfl
  | panic s => cases Sel.filterExpr f root pos r <;> rfl
  | fuel => cases Sel.filterExpr f root pos r <;> rfl

theorem filterExpr_and (f : Nat) (root : Bytes) (pos : Sel.Pos) (l r : Expr) :
    Sel.filterExpr (f + 1) root pos (.binaryOp .and l r) =
      (Sel.filterExpr f root pos l).bind (fun a => (Sel.filterExpr f root pos r).bind (fun b => .ok (a && b))) := by
  simp only [Sel.filterExpr]
  cases Sel.filterExpr f root pos l with
  | ok a => cases Sel.filterExpr f root pos r <;> rfl
  | err e => cases Sel.filterExpr f root pos r <;> rfl
  | panic s => cases Sel.filterExpr f root pos r <;> rfl
  | fuel => cases Sel.filterExpr f root pos r <;> rfl

/-- the `||` / `&&` arms of `filter_expr`, for any connective `c` -/
theorem filter_conn (g f : Nat) (self : Tr.Selector) (root : Bytes) (pos : Sel.Pos) (l r : Expr) (c : Bool → Bool → Bool)
    (hl : Sel.filterExpr f root pos l ≠ .fuel →
      AgR (fun b => b) (Tr.Selector.filter_expr g self root (ofPos pos) (ofExpr l)) (Sel.filterExpr f root pos l))
    (hr : Sel.filterExpr f root pos r ≠ .fuel →
      AgR (fun b => b) (Tr.Selector.filter_expr g self root (ofPos pos) (ofExpr r)) (Sel.filterExpr f root pos r))
    (hf : (Sel.filterExpr f root pos l).bind (fun a => (Sel.filterExpr f root pos r).bind (fun b => Res.ok (c a b))) ≠ .fuel) :
    AgR (fun b => b)
      (Ctl.run (do
        let lhs ← Ctl.ofRes (Tr.Selector.filter_expr g self root (ofPos pos) (ofExpr l))
        let rhs ← Ctl.ofRes (Tr.Selector.filter_expr g self root (ofPos pos) (ofExpr r))
        Ctl.ret (Res.ok (c lhs rhs))))
      ((Sel.filterExpr f root pos l).bind (fun a => (Sel.filterExpr f root pos r).bind (fun b => Res.ok (c a b)))) := by
  have hne1 : Sel.filterExpr f root pos l ≠ .fuel := by
    intro hh; rw [hh] at hf; exact hf rfl
  have h1 := hl hne1
  rcases h1 with h1 | h1
  · left; rw [h1]; rfl
  · cases hm1 : Sel.filterExpr f root pos l with
    | ok a =>
      rw [hm1] at h1 hf; simp only [] at h1
      rw [h1]
      simp only [Ctl.ofRes_ok', Ctl.val_bind', Res.bind] at hf ⊢
      have hne2 : Sel.filterExpr f root pos r ≠ .fuel := by
        intro hh; rw [hh] at hf; exact hf rfl
      have h2 := hr hne2
      rcases h2 with h2 | h2
      · left; rw [h2]; rfl
      · right
        cases hm2 : Sel.filterExpr f root pos r with
        | ok b => rw [hm2] at h2; simp only [] at h2; rw [h2]; rfl
        | err e => rw [hm2] at h2; simp only [] at h2; rw [h2]; rfl
        | panic s => rw [hm2] at h2; obtain ⟨t, ht⟩ := h2; exact ⟨t, by rw [ht]; rfl⟩
        | fuel => exact absurd hm2 hne2
    | err e => rw [hm1] at h1; simp only [] at h1; right; rw [h1]; rfl
    | panic s => rw [hm1] at h1; obtain ⟨t, ht⟩ := h1; right; exact ⟨t, by rw [ht]; rfl⟩
    | fuel => exact absurd hm1 hne1

end Jsonb.TrAgree
