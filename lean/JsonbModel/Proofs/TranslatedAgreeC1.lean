import JsonbModel.Generated.Translated3
import JsonbModel.Proofs.RustPrelude2Lemmas
import JsonbModel.Proofs.TranslatedAgree1
import JsonbModel.Proofs.TranslatedAgree2
import JsonbModel.Proofs.TranslatedAgreeB1
import JsonbModel.De

set_option linter.unusedSimpArgs false
set_option linter.unusedVariables false

namespace Jsonb.TrAgree
open Jsonb.Rs

/-! ## representation maps -/

mutual
/-- the model's tree ↦ the translated `Value` -/
def ofJV : JV → Tr.Value
  | .null => .Null
  | .bool b => .Bool b
  | .num n => .Number (ofNum n)
  | .str s => .String s
  | .arr vs => .Array (ofJVs vs)
  | .obj kvs => .Object (ofKVs kvs)
def ofJVs : List JV → List Tr.Value
  | [] => []
  | v :: vs => ofJV v :: ofJVs vs
def ofKVs : List (Bytes × JV) → List (Bytes × Tr.Value)
  | [] => []
  | (k, v) :: kvs => (k, ofJV v) :: ofKVs kvs
end

theorem ofJVs_eq_map (vs : List JV) : ofJVs vs = vs.map ofJV := by
  induction vs with
  | nil => rfl
  | cons v vs ih => simp [ofJVs, ih]

theorem ofKVs_eq_map (kvs : List (Bytes × JV)) : ofKVs kvs = kvs.map (fun kv => (kv.1, ofJV kv.2)) := by
  induction kvs with
  | nil => rfl
  | cons kv kvs ih => obtain ⟨k, v⟩ := kv; simp [ofKVs, ih]

theorem ofJVs_append (a b : List JV) : ofJVs (a ++ b) = ofJVs a ++ ofJVs b := by
  simp [ofJVs_eq_map]

/-- a decoded entry `(type, length)` ↦ the translated `JEntry` -/
def ofEntry (e : Nat × Nat) : Tr.JEntry := ⟨(e.1 : Nat), (e.2 : Nat)⟩

/-- the crate converts the `io::Error` of a short read with `impl From<std::io::Error> for Error`,
which answers `Error::InvalidUtf8`; the model names that outcome `"InvalidEOF"`.  The agreement
theorems are stated modulo this renaming of one error. -/
def eofErr {α : Type} : Res α → Res α
  | .err e => .err (if e = "InvalidEOF" then "InvalidUtf8" else e)
  | r => r

/-! ## primitives -/

theorem cmpBytes_eq_lexCmp (a b : Bytes) : Rs.cmpBytes a b = lexCmp a b := by
  induction a generalizing b with
  | nil => cases b <;> rfl
  | cons x xs ih =>
    cases b with
    | nil => rfl
    | cons y ys =>
      simp only [Rs.cmpBytes, lexCmp, ih]
      have h1 : (x.toNat < y.toNat) = (x < y) := by simp [UInt8.lt_iff_toNat_lt]
      have h2 : (y.toNat < x.toNat) = (y < x) := by simp [UInt8.lt_iff_toNat_lt]
      simp only [h1, h2]

/-- `BTreeMap::insert` on the key-sorted entry list is the model's `insertKV` -/
theorem btreeInsert_agrees (k : Bytes) (v : JV) (m : List (Bytes × JV)) :
    Rs.btreeInsert (ofKVs m) k (ofJV v) = ofKVs (insertKV k v m) := by
  induction m with
  | nil => rfl
  | cons kv m ih =>
    obtain ⟨k', v'⟩ := kv
    simp only [ofKVs, Rs.btreeInsert, insertKV, cmpBytes_eq_lexCmp]
    cases lexCmp k k' <;> simp [ofKVs, ih]

theorem readU32BE_agrees (bs : Bytes) (e : String) :
    Rs.mapErr (Rs.readU32BE bs) e = match readU32 bs with
      | none => .err e
      | some (w, rest) => .ok ((w : Int), rest) := by
  unfold Rs.readU32BE readU32 readBe
  by_cases h : 4 ≤ bs.length
  · rw [if_pos h, if_pos h]
    simp only [Rs.mapErr]
    have hlt := ofBe_lt (bs.take 4)
    have hl : (bs.take 4).length = 4 := by simp; omega
    rw [hl] at hlt
    have : Rs.fromBeBytes .u32 (bs.take 4) = ((ofBe (bs.take 4) : Nat) : Int) := by
      unfold Rs.fromBeBytes
      exact Rs.wrap_of_inRange _ _ (by rw [Rs.inRange_iff]; simp; omega)
    rw [this]
  · rw [if_neg h, if_neg h]; rfl

theorem getTo_nat (bs : Bytes) (n : Nat) :
    Rs.getTo bs (n : Int) = if n ≤ bs.length then some (bs.take n) else none := by
  unfold Rs.getTo
  by_cases h : n ≤ bs.length
  · rw [if_pos (by omega), if_pos h]; simp
  · rw [if_neg (by omega), if_neg h]

theorem sliceFrom_nat (bs : Bytes) (n : Nat) (h : n ≤ bs.length) :
    Rs.sliceFrom bs (n : Int) = .ok (bs.drop n) := by
  unfold Rs.sliceFrom
  rw [if_pos (by omega)]; simp


/-! ## decode_jentries -/

theorem dj_loop1_step (i : Int) (bs : Bytes) (acc : List Tr.JEntry) :
    Tr.Decoder.decode_jentries.loop1 i (⟨bs⟩, acc) = match readU32 bs with
      | none => Ctl.ret (.err "InvalidUtf8")
      | some (w, rest) => Ctl.val (.next (⟨rest⟩, acc ++ [ofEntry (jeType w, jeLen w)])) := by
  unfold Tr.Decoder.decode_jentries.loop1
  dsimp only
  rw [readU32BE_agrees]
  cases readU32 bs with
  | none => simp only [Ctl.ofRes_err', Ctl.ret_bind', Rs.loopStep_err']
  | some p =>
    obtain ⟨w, rest⟩ := p
    simp only [Ctl.ofRes_ok', Ctl.val_bind', decode_jentry_agrees, Rs.pushBack, Ctl.pure_eq', Rs.loopStep_val']
    rfl

theorem dj_run : ∀ (n : Nat) (i : Int) (bs : Bytes) (acc : List Tr.JEntry),
    Rs.forRangeAux Tr.Decoder.decode_jentries.loop1 n i (⟨bs⟩, acc) = match readEntries n bs with
      | none => (Ctl.ret (.err "InvalidUtf8") : Ctl (List Tr.JEntry × Tr.Decoder) (Tr.Decoder × List Tr.JEntry))
      | some (es, rest) => Ctl.val (⟨rest⟩, acc ++ es.map ofEntry) := by
  intro n
  induction n with
  | zero => intro i bs acc; simp [Rs.forRangeAux_zero, readEntries]
  | succ n ih =>
    intro i bs acc
    have hs := dj_loop1_step i bs acc
    unfold readEntries
    cases hr : readU32 bs with
    | none =>
      rw [hr] at hs
      rw [Rs.forRangeAux_ret _ _ _ _ _ hs]
    | some p =>
      obtain ⟨w, rest⟩ := p
      rw [hr] at hs
      rw [Rs.forRangeAux_next _ _ _ _ _ hs, ih]
      dsimp only
      cases hq : readEntries n rest with
      | none => rfl
      | some q => obtain ⟨es, r2⟩ := q; simp

/-- `Decoder::decode_jentries(n)`: the model's `readEntries`, the cursor advanced past them -/
theorem decode_jentries_agrees (bs : Bytes) (n : Nat) (hn : n < 1152921504606846976) :
    Tr.Decoder.decode_jentries ⟨bs⟩ (n : Int) = match readEntries n bs with
      | none => .err "InvalidUtf8"
      | some (es, rest) => .ok (es.map ofEntry, ⟨rest⟩) := by
  unfold Tr.Decoder.decode_jentries
  have hcap : Rs.vecWithCapacity Tr.JEntry 8 (n : Int) = .ok [] := by
    unfold Rs.vecWithCapacity; rw [if_pos (by simp; omega)]
  simp only [hcap, Ctl.ofRes_ok', Ctl.val_bind', Rs.forRange_zero, dj_run]
  cases readEntries n bs with
  | none => simp only [Ctl.ret_bind', Ctl.run_ret']
  | some q => obtain ⟨es, r2⟩ := q; simp only [Ctl.val_bind', Ctl.run_ret', List.nil_append]

/-- the same for an argument spelled as any integer term equal to `n` -/
theorem decode_jentries_agrees_int (bs : Bytes) (n : Nat) (x : Int) (hx : x = (n : Int)) (hn : n < 1152921504606846976) :
    Tr.Decoder.decode_jentries ⟨bs⟩ x = match readEntries n bs with
      | none => .err "InvalidUtf8"
      | some (es, rest) => .ok (es.map ofEntry, ⟨rest⟩) := by
  subst hx; exact decode_jentries_agrees bs n hn

end Jsonb.TrAgree
