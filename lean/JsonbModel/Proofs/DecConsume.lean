/-
C10 (determinism on the consumed bytes): the result of the stream decoder depends only on
the bytes it consumed.  `dec_cancel` removes an untouched tail from the buffer; together with
`dec_mono` (DecPrefix) this gives `decJsonb_consumed`: the tail can be replaced by any other.
-/
import JsonbModel.Proofs.DecPrefix

namespace Jsonb
open JV

theorem split_tail (s c y : Bytes) (h1 : s <:+ c ++ y) (h2 : y.length ≤ s.length) :
    ∃ c', s = c' ++ y := by
  obtain ⟨c', hc⟩ := List.suffix_of_suffix_length_le (List.suffix_append c y) h1 h2
  exact ⟨c', hc.symm⟩

theorem readU32_cancel (c y : Bytes) (h : Nat) (b : Bytes)
    (hr : readU32 (c ++ y) = some (h, b)) (hl : y.length ≤ b.length) :
    ∃ c1, b = c1 ++ y ∧ readU32 c = some (h, c1) := by
  unfold readU32 readBe at hr ⊢
  split at hr
  · rename_i h4
    simp only [Option.some.injEq, Prod.mk.injEq] at hr
    have hc : 4 ≤ c.length := by
      rw [← hr.2] at hl
      simp only [List.length_drop, List.length_append] at hl h4
      omega
    refine ⟨c.drop 4, ?_, ?_⟩
    · rw [← hr.2, List.drop_append_of_le_length hc]
    · rw [if_pos hc, ← hr.1, List.take_append_of_le_length hc]
  · simp at hr

theorem readEntries_cancel (n : Nat) (c y : Bytes) (es : List (Nat × Nat)) (b : Bytes)
    (hr : readEntries n (c ++ y) = some (es, b)) (hl : y.length ≤ b.length) :
    ∃ c1, b = c1 ++ y ∧ readEntries n c = some (es, c1) := by
  induction n generalizing c es b with
  | zero =>
    simp only [readEntries, Option.some.injEq, Prod.mk.injEq] at hr ⊢
    exact ⟨c, hr.2.symm, hr.1, rfl⟩
  | succ n ih =>
    simp only [readEntries] at hr ⊢
    split at hr
    · simp at hr
    · rename_i e bs1 h1
      split at hr
      · simp at hr
      · rename_i es1 bs2 h2
        simp only [Option.some.injEq, Prod.mk.injEq] at hr
        obtain ⟨hes, rfl⟩ := hr
        have l2 := (readEntries_suffix _ _ _ _ h2).1.length_le
        obtain ⟨c1, rfl, hc1⟩ := readU32_cancel c y e bs1 h1 (by omega)
        obtain ⟨c2, rfl, hc2⟩ := ih c1 es1 _ h2 hl
        rw [hc1]
        simp only [hc2]
        exact ⟨c2, rfl, by rw [hes]⟩

/-- If a call on `c ++ y` leaves (at least) the tail `y` untouched, the same call on `c` alone
gives the same value. -/
theorem dec_cancel (fuel : Nat) :
    (∀ c y v r, decJsonb fuel (c ++ y) = .ok (v, r ++ y) → decJsonb fuel c = .ok (v, r)) ∧
    (∀ ty len c y v r, decScalar fuel ty len (c ++ y) = .ok (v, r ++ y) →
        decScalar fuel ty len c = .ok (v, r)) ∧
    (∀ es c y vs r, decItems fuel es (c ++ y) = .ok (vs, r ++ y) →
        decItems fuel es c = .ok (vs, r)) ∧
    (∀ ks es c y kvs r, decObjVals fuel ks es (c ++ y) = .ok (kvs, r ++ y) →
        decObjVals fuel ks es c = .ok (kvs, r)) := by
  induction fuel with
  | zero =>
    refine ⟨?_, ?_, ?_, ?_⟩ <;> intros <;> simp_all [decJsonb, decScalar, decItems, decObjVals]
  | succ f ih =>
    obtain ⟨ihJ, ihS, ihI, ihO⟩ := ih
    have sfx := dec_suffix f
    refine ⟨?_, ?_, ?_, ?_⟩
    · intro c y v r h
      simp only [decJsonb] at h ⊢
      split at h
      · simp at h
      · rename_i hd bs1 hr1
        split at h
        · rename_i c1
          split at h
          · simp at h
          · rename_i c2
            split at h
            · simp at h
            · rename_i e bs2 hr2
              have l3 := (sfx.2.1 _ _ _ _ _ h).length_le
              have l2 := (readU32_suffix _ _ _ hr2).1.length_le
              simp only [List.length_append] at l3
              obtain ⟨d1, rfl, hd1⟩ := readU32_cancel c y hd bs1 hr1 (by omega)
              obtain ⟨d2, rfl, hd2⟩ := readU32_cancel d1 y e bs2 hr2 (by omega)
              rw [hd1]; simp only [if_pos c1, if_neg c2]
              rw [hd2]
              exact ihS _ _ _ _ _ _ h
        · rename_i c1
          split at h
          · rename_i c2
            split at h
            · simp at h
            · rename_i es bs2 hr2
              split at h
              · rename_i vs bs3 hi
                simp only [Res.ok.injEq, Prod.mk.injEq] at h
                obtain ⟨hv, rfl⟩ := h
                have l3 := (sfx.2.2.1 _ _ _ _ hi).length_le
                have l2 := (readEntries_suffix _ _ _ _ hr2).1.length_le
                simp only [List.length_append] at l3
                obtain ⟨d1, rfl, hd1⟩ := readU32_cancel c y hd bs1 hr1 (by omega)
                obtain ⟨d2, rfl, hd2⟩ := readEntries_cancel _ d1 y es bs2 hr2 (by omega)
                rw [hd1]; simp only [if_neg c1, if_pos c2]
                rw [hd2]; simp only []
                rw [ihI _ _ _ _ _ hi]; simp only [hv]
              all_goals simp at h
          · rename_i c2
            split at h
            · rename_i c3
              split at h
              · simp at h
              · rename_i es bs2 hr2
                split at h
                · rename_i ks bs3 hk
                  split at h
                  · rename_i kvs bs4 ho
                    simp only [Res.ok.injEq, Prod.mk.injEq] at h
                    obtain ⟨hv, rfl⟩ := h
                    have l4 := (sfx.2.2.2 _ _ _ _ _ ho).length_le
                    have s3 := sfx.2.2.1 _ _ _ _ hk
                    have l3 := s3.length_le
                    have l2 := (readEntries_suffix _ _ _ _ hr2).1.length_le
                    simp only [List.length_append] at l4
                    obtain ⟨d1, rfl, hd1⟩ := readU32_cancel c y hd bs1 hr1 (by omega)
                    obtain ⟨d2, rfl, hd2⟩ := readEntries_cancel _ d1 y es bs2 hr2 (by omega)
                    obtain ⟨d3, rfl⟩ := split_tail bs3 d2 y s3 (by omega)
                    rw [hd1]; simp only [if_neg c1, if_neg c2, if_pos c3]
                    rw [hd2]; simp only []
                    rw [ihI _ _ _ _ _ hk]; simp only []
                    rw [ihO _ _ _ _ _ _ ho]; simp only [hv]
                  all_goals simp at h
                all_goals simp at h
            · simp at h
    · intro ty len c y v r h
      simp only [decScalar] at h ⊢
      split at h
      · rename_i c0; rw [if_pos c0]
        simp only [Res.ok.injEq, Prod.mk.injEq] at h ⊢
        exact ⟨h.1, List.append_cancel_right h.2⟩
      rename_i c0; rw [if_neg c0]
      split at h
      · rename_i c0; rw [if_pos c0]
        simp only [Res.ok.injEq, Prod.mk.injEq] at h ⊢
        exact ⟨h.1, List.append_cancel_right h.2⟩
      rename_i c0; rw [if_neg c0]
      split at h
      · rename_i c0; rw [if_pos c0]
        simp only [Res.ok.injEq, Prod.mk.injEq] at h ⊢
        exact ⟨h.1, List.append_cancel_right h.2⟩
      rename_i c0; rw [if_neg c0]
      split at h
      · rename_i c0; rw [if_pos c0]
        split at h
        · rename_i cl
          split at h
          · rename_i cu
            simp only [Res.ok.injEq, Prod.mk.injEq] at h
            have hlen : len ≤ c.length := by
              have := congrArg List.length h.2
              simp only [List.length_drop, List.length_append] at this cl
              omega
            rw [List.take_append_of_le_length hlen] at h cu
            rw [List.drop_append_of_le_length hlen] at h
            rw [if_pos hlen, if_pos cu]
            simp only [Res.ok.injEq, Prod.mk.injEq]
            exact ⟨h.1, List.append_cancel_right h.2⟩
          · simp at h
        · simp at h
      rename_i c0; rw [if_neg c0]
      split at h
      · rename_i c0; rw [if_pos c0]
        split at h
        · rename_i cl
          split at h
          · rename_i n hn
            simp only [Res.ok.injEq, Prod.mk.injEq] at h
            have hlen : len ≤ c.length := by
              have := congrArg List.length h.2
              simp only [List.length_drop, List.length_append] at this cl
              omega
            rw [List.take_append_of_le_length hlen] at hn
            rw [List.drop_append_of_le_length hlen] at h
            rw [if_pos hlen, hn]
            simp only [Res.ok.injEq, Prod.mk.injEq]
            exact ⟨h.1, List.append_cancel_right h.2⟩
          all_goals simp at h
        · simp at h
      rename_i c0; rw [if_neg c0]
      split at h
      · rename_i c0; rw [if_pos c0]
        exact ihJ _ _ _ _ h
      · simp at h
    · intro es c y vs r h
      cases es with
      | nil =>
        simp only [decItems, Res.ok.injEq, Prod.mk.injEq] at h ⊢
        exact ⟨h.1, List.append_cancel_right h.2⟩
      | cons e es =>
        obtain ⟨ty, len⟩ := e
        simp only [decItems] at h ⊢
        split at h
        · rename_i v bs1 hs
          split at h
          · rename_i vs' bs2 hi
            simp only [Res.ok.injEq, Prod.mk.injEq] at h
            obtain ⟨hv, rfl⟩ := h
            have l2 := (sfx.2.2.1 _ _ _ _ hi).length_le
            have s1 := sfx.2.1 _ _ _ _ _ hs
            simp only [List.length_append] at l2
            obtain ⟨d1, rfl⟩ := split_tail bs1 c y s1 (by omega)
            rw [ihS _ _ _ _ _ _ hs]; simp only []
            rw [ihI _ _ _ _ _ hi]; simp only [hv]
          all_goals simp at h
        all_goals simp at h
    · intro ks es c y kvs r h
      cases ks with
      | nil =>
        simp only [decObjVals, Res.ok.injEq, Prod.mk.injEq] at h ⊢
        exact ⟨h.1, List.append_cancel_right h.2⟩
      | cons k ks =>
        cases es with
        | nil => simp [decObjVals] at h
        | cons e es =>
          obtain ⟨ty, len⟩ := e
          cases k with
          | str s =>
            simp only [decObjVals] at h ⊢
            split at h
            · rename_i v bs1 hs
              split at h
              · rename_i kvs' bs2 ho
                simp only [Res.ok.injEq, Prod.mk.injEq] at h
                obtain ⟨hv, rfl⟩ := h
                have l2 := (sfx.2.2.2 _ _ _ _ _ ho).length_le
                have s1 := sfx.2.1 _ _ _ _ _ hs
                simp only [List.length_append] at l2
                obtain ⟨d1, rfl⟩ := split_tail bs1 c y s1 (by omega)
                rw [ihS _ _ _ _ _ _ hs]; simp only []
                rw [ihO _ _ _ _ _ _ ho]; simp only [hv]
              all_goals simp at h
            all_goals simp at h
          | _ => simp [decObjVals] at h

/-- **Exact consumption**: if `decode_jsonb` on `c ++ rest` stops at `rest`, then `c` alone is
a complete document decoding to the same value. -/
theorem decJsonb_cancel (fuel : Nat) (c rest : Bytes) (v : JV)
    (h : decJsonb fuel (c ++ rest) = .ok (v, rest)) : decJsonb fuel c = .ok (v, []) :=
  (dec_cancel fuel).1 c rest v [] (by simpa using h)

/-- **Determinism on the consumed bytes**: the value decoded and the number of bytes consumed
do not depend on what follows the consumed bytes. -/
theorem decJsonb_consumed (fuel : Nat) (c rest : Bytes) (v : JV)
    (h : decJsonb fuel (c ++ rest) = .ok (v, rest)) (rest' : Bytes) :
    decJsonb fuel (c ++ rest') = .ok (v, rest') := by
  have := decJsonb_ext fuel c v [] (decJsonb_cancel fuel c rest v h) rest'
  simpa using this

/-- The consumed part of a successful decode is unique: two decodes of the same buffer (with
any fuels) agree on value and cursor. -/
theorem decJsonb_fuel_indep (f f' : Nat) (bs : Bytes) (r r' : JV × Bytes)
    (h : decJsonb f bs = .ok r) (h' : decJsonb f' bs = .ok r') : r = r' := by
  have h1 := decJsonb_fuel_mono f (max f f') bs r h (Nat.le_max_left _ _)
  have h2 := decJsonb_fuel_mono f' (max f f') bs r' h' (Nat.le_max_right _ _)
  rw [h1] at h2
  exact Res.ok.inj h2

/-- `parse_jsonb` ignores trailing bytes: anything appended to an accepted buffer is accepted
with the same value (de.rs does not check that the cursor reached the end). -/
theorem parseJsonb_append (bs x : Bytes) (v : JV) (h : parseJsonb bs = .ok v) :
    parseJsonb (bs ++ x) = .ok v := by
  unfold parseJsonb at h ⊢
  split at h
  · simp at h
  · rename_i hl
    split at h
    · rename_i w rest hd
      have := (dec_mono _).1 bs w rest hd (decFuel (bs ++ x)) x (by
        simp only [decFuel, List.length_append]; omega)
      rw [if_neg (by simp only [List.length_append]; omega), this]
      exact h
    all_goals simp at h

/-- in particular a valid document followed by arbitrary bytes parses to the same value -/
theorem parseJsonb_encodeSpec_append (v : JV) (hg : goodTop v = true) (x : Bytes) :
    parseJsonb (encodeSpec v ++ x) = .ok (norm v) :=
  parseJsonb_append _ x _ (parseJsonb_encodeSpec v hg)

end Jsonb
