/-
Relaxed = crate, part 1: white space and literals.

`skip_unused` (cursor form, well-founded recursion) and the specification's `Relaxed.ws`
(remaining-input form, fuel recursion) skip exactly the same bytes; `must_is` loops are prefix
tests.
-/
import JsonbModel.Proofs.StrictSubset
import JsonbModel.Spec.RelaxedJson

namespace Jsonb
namespace RB
open Jsonb.JP

/-! ### The specification's white-space skipper -/

theorem wsTok_le (bs : Bytes) : Relaxed.wsTok bs ≤ bs.length := by
  unfold Relaxed.wsTok
  split
  · simp
  · rename_i b rest
    split
    · simp
    · split
      · split
        · simp
        · rename_i c rest2
          split
          · simp
          · split
            · split
              · rename_i d e t
                split
                · simp
                · simp
              · simp
            · simp
      · simp

theorem skipWs_zero_tok {bs : Bytes} (h : Relaxed.wsTok bs = 0) (f : Nat) : Relaxed.skipWs f bs = bs := by
  cases f with
  | zero => rfl
  | succ f => simp [Relaxed.skipWs, h]

theorem skipWs_nil (f : Nat) : Relaxed.skipWs f [] = [] := skipWs_zero_tok rfl f

/-- fuel beyond the length of the input makes no difference -/
theorem skipWs_fuel : ∀ (f g : Nat) (bs : Bytes), bs.length ≤ f → bs.length ≤ g →
    Relaxed.skipWs f bs = Relaxed.skipWs g bs := by
  intro f
  induction f with
  | zero =>
    intro g bs hf _
    have : bs = [] := List.eq_nil_of_length_eq_zero (by omega)
    subst this
    rw [skipWs_nil, skipWs_nil]
  | succ f ih =>
    intro g bs hf hg
    cases g with
    | zero =>
      have : bs = [] := List.eq_nil_of_length_eq_zero (by omega)
      subst this
      rw [skipWs_nil, skipWs_nil]
    | succ g =>
      simp only [Relaxed.skipWs]
      split
      · rfl
      · rename_i hne
        have := wsTok_le bs
        exact ih g _ (by simp only [List.length_drop]; omega) (by simp only [List.length_drop]; omega)

theorem ws_eq_skipWs {bs : Bytes} {f : Nat} (h : bs.length ≤ f) : Relaxed.ws bs = Relaxed.skipWs f bs :=
  skipWs_fuel _ _ _ (Nat.le_refl _) h

/-- one step of the skipper -/
theorem ws_step (bs : Bytes) :
    Relaxed.ws bs = if Relaxed.wsTok bs = 0 then bs else Relaxed.ws (bs.drop (Relaxed.wsTok bs)) := by
  by_cases h : Relaxed.wsTok bs = 0
  · rw [if_pos h]; exact skipWs_zero_tok h _
  · rw [if_neg h]
    have hle := wsTok_le bs
    have hpos : 0 < bs.length := by omega
    obtain ⟨n, hn⟩ : ∃ n, bs.length = n + 1 := ⟨bs.length - 1, by omega⟩
    unfold Relaxed.ws
    rw [hn]
    simp only [Relaxed.skipWs, if_neg h]
    exact skipWs_fuel _ _ _ (by simp only [List.length_drop]; omega) (Nat.le_refl _)

theorem ws_nil : Relaxed.ws [] = [] := rfl

/-- the skipper stops where no white-space token starts -/
theorem wsTok_ws (bs : Bytes) : Relaxed.wsTok (Relaxed.ws bs) = 0 := by
  induction hn : bs.length using Nat.strongRecOn generalizing bs with
  | _ n ih =>
    rw [ws_step]
    split
    · assumption
    · rename_i hne
      have := wsTok_le bs
      exact ih _ (by subst hn; simp only [List.length_drop]; omega) _ rfl

theorem ws_idem (bs : Bytes) : Relaxed.ws (Relaxed.ws bs) = Relaxed.ws bs :=
  skipWs_zero_tok (wsTok_ws bs) _

theorem ws_of_tok_zero {bs : Bytes} (h : Relaxed.wsTok bs = 0) : Relaxed.ws bs = bs :=
  skipWs_zero_tok h _

/-- the remaining input after skipping is a suffix -/
theorem ws_length_le (bs : Bytes) : (Relaxed.ws bs).length ≤ bs.length := by
  induction hn : bs.length using Nat.strongRecOn generalizing bs with
  | _ n ih =>
    rw [ws_step]
    split
    · omega
    · rename_i hne
      have := wsTok_le bs
      have := ih _ (by subst hn; simp only [List.length_drop]; omega) (bs.drop (Relaxed.wsTok bs)) rfl
      simp only [List.length_drop] at this
      omega

/-! ### `skip_unused` = `Relaxed.ws` -/

theorem isWs_eq (c : UInt8) : JP.isWs c = Relaxed.isWs c := by
  simp only [JP.isWs, Relaxed.isWs, Strict.isWs]
  cases (c == 0x20) <;> cases (c == 0x09) <;> cases (c == 0x0A) <;> cases (c == 0x0C) <;>
    cases (c == 0x0D) <;> rfl

theorem escWs2_view {buf : Bytes} {i : Nat} {c : UInt8} {t : Bytes} (h : buf.drop i = c :: t) :
    escWs2 buf i = .ok (t.head?.any (fun c2 => c2 == 0x6E || c2 == 0x72 || c2 == 0x74)) := by
  have h1 := drop_succ_of_drop h
  unfold escWs2
  cases t with
  | nil =>
    have := len_of_drop h1
    simp only [List.length_nil] at this
    rw [if_neg (by omega)]; rfl
  | cons c2 t2 =>
    have hlt := lt_of_drop_cons h1
    rw [if_pos hlt, bufIndex_lt _ _ _ hlt, getElem_of_drop h1 hlt]
    rfl

/-- the input (after a backslash) starts with `x0C` -/
def isX0C : Bytes → Bool
  | c1 :: c2 :: c3 :: _ => c1 == 0x78 && c2 == 0x30 && c3 == 0x43
  | _ => false

theorem escWs4_view {buf : Bytes} {i : Nat} {c : UInt8} {t : Bytes} (h : buf.drop i = c :: t) :
    escWs4 buf i = .ok (isX0C t) := by
  have h1 := drop_succ_of_drop h
  have hl := len_of_drop h1
  unfold escWs4
  match t, h1, hl with
  | [], _, hl => simp only [List.length_nil] at hl; rw [if_neg (by omega)]; rfl
  | [_], _, hl => simp only [List.length_cons, List.length_nil] at hl; rw [if_neg (by omega)]; rfl
  | [_, _], _, hl => simp only [List.length_cons, List.length_nil] at hl; rw [if_neg (by omega)]; rfl
  | c1 :: c2 :: c3 :: t3, h1, hl =>
    simp only [List.length_cons] at hl
    have h2 := drop_succ_of_drop h1
    have h3 := drop_succ_of_drop h2
    have l1 : i + 1 < buf.length := by omega
    have l2 : i + 2 < buf.length := by omega
    have l3 : i + 3 < buf.length := by omega
    rw [if_pos l3, bufIndex_lt _ _ _ l1, bufIndex_lt _ _ _ l2, bufIndex_lt _ _ _ l3,
      getElem_of_drop h1 l1, getElem_of_drop h2 l2, getElem_of_drop h3 l3]
    simp only [bind_ok, pure_eq, isX0C]
    by_cases e1 : c1 = 0x78
    · by_cases e2 : c2 = 0x30
      · subst e1 e2; simp
      · have : (c2 == 0x30) = false := by simpa using e2
        subst e1; simp [this, e2]
    · have : (c1 == 0x78) = false := by simpa using e1
      simp [this, e1]

/-- **white space**: `skip_unused` moves the cursor exactly over what the specification's
skipper drops -/
theorem skipUnused_ws (buf : Bytes) (i : Nat) :
    ∃ j, skipUnused buf i = .ok j ∧ i ≤ j ∧ buf.drop j = Relaxed.ws (buf.drop i) := by
  induction hn : buf.length - i using Nat.strongRecOn generalizing i with
  | _ n ih =>
    rw [skipUnused]
    split
    · rename_i hlt
      have hd : buf.drop i = buf[i] :: buf.drop (i + 1) := List.drop_eq_getElem_cons hlt
      -- a recursive call after a token of `k` bytes
      have stp : ∀ k, 0 < k → Relaxed.wsTok (buf.drop i) = k →
          ∃ j, skipUnused buf (i + k) = .ok j ∧ i ≤ j ∧ buf.drop j = Relaxed.ws (buf.drop i) := by
        intro k hk htok
        obtain ⟨j, e, h1, h2⟩ := ih (buf.length - (i + k)) (by omega) (i + k) rfl
        refine ⟨j, e, by omega, ?_⟩
        rw [h2, ws_step (buf.drop i), htok, if_neg (by omega), List.drop_drop]
      simp only [getUnwrap_lt _ _ _ hlt, bind_ok]
      split
      · rename_i hw
        apply stp 1 (by omega)
        rw [hd]; simp only [Relaxed.wsTok, ← isWs_eq, hw, if_true]
      · rename_i hw
        have hw' : Relaxed.isWs buf[i] = false := by rw [← isWs_eq]; simpa using hw
        split
        · rename_i hbs
          rw [escWs2_view hd, escWs4_view hd]
          simp only [bind_ok]
          -- the token length the specification sees
          cases ht : buf.drop (i + 1) with
          | nil =>
            refine ⟨i, by simp [isX0C], Nat.le_refl _, ?_⟩
            rw [hd, ht, ws_of_tok_zero]
            simp [Relaxed.wsTok, hw', hbs]
          | cons c1 t1 =>
            simp only [List.head?_cons, Option.any_some]
            by_cases h2 : (c1 == 0x6E || c1 == 0x72 || c1 == 0x74) = true
            · simp only [h2, if_true]
              apply stp 2 (by omega)
              rw [hd, ht]; simp [Relaxed.wsTok, hw', hbs, h2]
            · have h2' : (c1 == 0x6E || c1 == 0x72 || c1 == 0x74) = false := by simpa using h2
              simp only [h2', Bool.false_eq_true, if_false]
              match t1, ht with
              | c2 :: c3 :: t3, ht =>
                simp only [isX0C]
                by_cases h4 : (c1 == 0x78 && c2 == 0x30 && c3 == 0x43) = true
                · simp only [h4, if_true]
                  apply stp 4 (by omega)
                  rw [hd, ht]
                  simp only [Bool.and_eq_true] at h4
                  simp [Relaxed.wsTok, hw', hbs, h2', h4.1.1, h4.1.2, h4.2]
                · have h4' : (c1 == 0x78 && c2 == 0x30 && c3 == 0x43) = false := by simpa using h4
                  simp only [h4', Bool.false_eq_true, if_false]
                  refine ⟨i, by simp, Nat.le_refl _, ?_⟩
                  rw [hd, ht, ws_of_tok_zero]
                  simp only [Relaxed.wsTok, hw', hbs, h2', Bool.false_eq_true, if_false, if_true]
                  by_cases e1 : (c1 == 0x78) = true
                  · simp only [e1, if_true]
                    simp only [e1, Bool.true_and] at h4'
                    simp [h4']
                  · simp [e1]
              | [c2], ht =>
                simp only [isX0C, Bool.false_eq_true, if_false]
                refine ⟨i, by simp, Nat.le_refl _, ?_⟩
                rw [hd, ht, ws_of_tok_zero]
                simp only [Relaxed.wsTok, hw', hbs, h2', Bool.false_eq_true, if_false, if_true]
                split <;> rfl
              | [], ht =>
                simp only [isX0C, Bool.false_eq_true, if_false]
                refine ⟨i, by simp, Nat.le_refl _, ?_⟩
                rw [hd, ht, ws_of_tok_zero]
                simp only [Relaxed.wsTok, hw', hbs, h2', Bool.false_eq_true, if_false, if_true]
                split <;> rfl
        · rename_i hbs
          refine ⟨i, by simp, Nat.le_refl _, ?_⟩
          rw [hd, ws_of_tok_zero]
          simp [Relaxed.wsTok, hw', hbs]
    · rename_i hge
      refine ⟨i, rfl, Nat.le_refl _, ?_⟩
      rw [List.drop_eq_nil_of_le (by omega)]
      rfl

/-! ### Literals -/

theorem mustIs_ok {buf : Bytes} {i j : Nat} {c : UInt8} (h : mustIs buf i c = .ok j) :
    j = i + 1 ∧ buf.drop i = c :: buf.drop (i + 1) := by
  unfold mustIs at h
  cases hg : buf[i]? with
  | none => simp [hg] at h
  | some v =>
    simp only [hg] at h
    split at h
    · rename_i hv
      simp only [beq_iff_eq] at hv
      subst hv
      simp only [Res.ok.injEq] at h
      exact ⟨h.symm, drop_cons_get hg rfl⟩
    · exact absurd h (by simp)

theorem mustAll_ok : ∀ (cs : List UInt8) {buf : Bytes} {i j : Nat}, mustAll buf i cs = .ok j →
    j = i + cs.length ∧ buf.drop i = cs ++ buf.drop j := by
  intro cs
  induction cs with
  | nil =>
    intro buf i j h
    simp only [mustAll, Res.ok.injEq] at h
    subst h; simp
  | cons c cs ih =>
    intro buf i j h
    unfold mustAll at h
    cases h1 : mustIs buf i c with
    | ok i1 =>
      rw [h1] at h
      simp only [bind_ok] at h
      obtain ⟨rfl, hd⟩ := mustIs_ok h1
      obtain ⟨hj, hd2⟩ := ih h
      refine ⟨by simp only [List.length_cons]; omega, ?_⟩
      rw [hd, hd2]; rfl
    | err e => rw [h1] at h; exact absurd h (by simp)
    | panic s => rw [h1] at h; exact absurd h (by simp)
    | fuel => rw [h1] at h; exact absurd h (by simp)

theorem expectLit_append (lit r : Bytes) : Strict.expectLit lit (lit ++ r) = some r := by
  unfold Strict.expectLit
  rw [if_pos (List.isPrefixOf_iff_prefix.mpr (List.prefix_append _ _))]
  simp

end RB
end Jsonb
