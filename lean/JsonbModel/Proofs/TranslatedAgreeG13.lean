/-
Agreement theorems, phase 6a, part 13: the group theorem (`find_positions` = `Sel.findPositions`, `filter_expr` =
`Sel.filterExpr`, by strong induction on the model's fuel), `JsonPath::is_predicate`, and the public methods
`Selector::select` (four modes), `exists`, `predicate_match`.
-/
import JsonbModel.Proofs.TranslatedAgreeG12

set_option linter.unusedSimpArgs false
set_option linter.unusedVariables false

namespace Jsonb.TrAgree
open Jsonb.Rs

theorem findPositions_zero_g (root : Bytes) (cur : Option Sel.Pos) (paths : List Path) :
    Sel.findPositions 0 root cur paths = .fuel := by simp [Sel.findPositions]
theorem filterExpr_zero_g (root : Bytes) (pos : Sel.Pos) (e : Expr) : Sel.filterExpr 0 root pos e = .fuel := by
  simp [Sel.filterExpr]
theorem walk_zero_g (root : Bytes) (paths : List Path) (ps : List Sel.Pos) : Sel.walk 0 root paths ps = .fuel := by
  simp [Sel.walk]

theorem filterExpr_exists (f : Nat) (root : Bytes) (pos : Sel.Pos) (paths : List Path) :
    Sel.filterExpr (f + 1) root pos (.existsFn paths) =
      (Sel.findPositions f root (some pos) paths).map (fun ps => !ps.isEmpty) := by
  simp only [Sel.filterExpr]

theorem isEmpty_map_g {α β : Type} (l : List α) (f : α → β) : Rs.isEmpty (l.map f) = l.isEmpty := by
  cases l <;> simp [Rs.isEmpty]

theorem group_agrees : ∀ f, FPOK f ∧ FEOK f := by
  intro f
  induction f using Nat.strong_induction_on with
  | _ f ih =>
    constructor
    · intro g self root cur paths hfg hcur hok hlen hne
      cases f with
      | zero => exact absurd (findPositions_zero_g root cur paths) hne
      | succ f =>
        cases g with
        | zero =>
          have hf0 : f = 0 := by omega
          subst hf0
          rcases hcur with hcur | hcur
          · exfalso
            apply hne
            rw [findPositions_succ]
            cases cur with
            | none => simp at hcur
            | some c =>
              cases hs : startR root (some c) paths with
              | ok st => simp [Res.bind, walk_zero_g]
              | err e =>
                exfalso
                unfold startR at hs
                split at hs <;> simp at hs
              | panic s =>
                exfalso
                unfold startR at hs
                split at hs <;> simp at hs
              | fuel =>
                exfalso
                unfold startR at hs
                split at hs <;> simp at hs
          · omega
        | succ g =>
          apply find_positions_step g f self root cur paths hok hlen _ hne
          intro w pos e hw he hnf
          exact (ih w (by omega)).2 g self root pos e (by omega) he hlen hnf
    · intro g self root pos e hfg he hlen hne
      cases f with
      | zero => exact absurd (filterExpr_zero_g root pos e) hne
      | succ f =>
        cases g with
        | zero => omega
        | succ g =>
          have ihE : ∀ (x : Expr), ExprOK x → Sel.filterExpr f root pos x ≠ .fuel →
              AgR (fun b => b) (Tr.Selector.filter_expr g self root (ofPos pos) (ofExpr x)) (Sel.filterExpr f root pos x) :=
            fun x hx hnx => (ih f (by omega)).2 g self root pos x (by omega) hx hlen hnx
          cases e with
          | binaryOp op l r =>
            simp only [ExprOK] at he
            cases hop : isCmpOp op with
            | true =>
              rw [filterExpr_cmp f root pos op hop l r] at hne ⊢
              cases f with
              | zero =>
                exfalso; apply hne
                simp [Sel.exprVal, Res.bind]
              | succ f' =>
                have := filter_cmp self root pos op hop l r he.1 he.2 hlen f'
                cases op <;> simp only [isCmpOp, Bool.false_eq_true] at hop <;>
                  (simp only [Tr.Selector.filter_expr, ofExpr, ofBinOp]; exact this)
            | false =>
              cases op <;> simp only [isCmpOp, Bool.true_eq_false] at hop
              · -- and
                rw [filterExpr_and] at hne ⊢
                simp only [Tr.Selector.filter_expr, ofExpr, ofBinOp]
                exact filter_conn g f self root pos l r (fun a b => a && b) (ihE l he.1) (ihE r he.2) hne
              · -- or
                rw [filterExpr_or] at hne ⊢
                simp only [Tr.Selector.filter_expr, ofExpr, ofBinOp]
                exact filter_conn g f self root pos l r (fun a b => a || b) (ihE l he.1) (ihE r he.2) hne
          | existsFn paths =>
            simp only [ExprOK] at he
            rw [filterExpr_exists] at hne ⊢
            simp only [Tr.Selector.filter_expr, ofExpr, Ctl.run_ret']
            have hnf : Sel.findPositions f root (some pos) paths ≠ .fuel := by
              intro hh; rw [hh] at hne; exact hne rfl
            cases g with
            | zero =>
              have hf0 : f = 0 := by omega
              subst hf0
              exact absurd (findPositions_zero_g root (some pos) paths) hnf
            | succ g' =>
              have h := (ih f (by omega)).1 g' self root (some pos) paths (by omega) (Or.inl rfl) he hlen hnf
              simp only [Tr.Selector.eval_exists, Option.map_some] at h ⊢
              rcases h with h | h
              · left; rw [h]; rfl
              · right
                cases hm : Sel.findPositions f root (some pos) paths with
                | ok ps =>
                  rw [hm] at h; simp only [] at h
                  rw [h]
                  simp only [Ctl.ofRes_ok', Ctl.val_bind', Ctl.run_ret', Res.map, Res.bind, isEmpty_map_g]
                | err e => rw [hm] at h; simp only [] at h; rw [h]; rfl
                | panic s => rw [hm] at h; obtain ⟨t, ht⟩ := h; exact ⟨t, by rw [ht]; rfl⟩
                | fuel => exact absurd hm hnf
          | paths ps => right; rfl
          | value v => right; rfl
          | arithUnary op x => right; rfl
          | arithBinary op x y => right; rfl

/-- **`find_positions`**: with at least the model's fuel (one less is enough when a current position is given), wherever
the model does not run out of fuel, the translated function computes the model's frontier -/
theorem find_positions_agrees (f g : Nat) (self : Tr.Selector) (root : Bytes) (cur : Option Sel.Pos) (paths : List Path)
    (hfg : f ≤ g) (hok : PathsOK paths) (hlen : root.length < 9223372036854775808)
    (hne : Sel.findPositions f root cur paths ≠ .fuel) :
    AgR (fun ps => ps.map ofPos) (Tr.Selector.find_positions g self root (cur.map ofPos) (ofPaths paths))
      (Sel.findPositions f root cur paths) :=
  (group_agrees f).1 g self root cur paths (by omega) (Or.inr hfg) hok hlen hne

/-- **`filter_expr`** -/
theorem filter_expr_agrees (f g : Nat) (self : Tr.Selector) (root : Bytes) (pos : Sel.Pos) (e : Expr)
    (hfg : f ≤ g) (he : ExprOK e) (hlen : root.length < 9223372036854775808)
    (hne : Sel.filterExpr f root pos e ≠ .fuel) :
    AgR (fun b => b) (Tr.Selector.filter_expr g self root (ofPos pos) (ofExpr e)) (Sel.filterExpr f root pos e) :=
  (group_agrees f).2 g self root pos e hfg he hlen hne

end Jsonb.TrAgree
