import JsonbModel.Proofs.TranslatedAgreeC3
import JsonbModel.Functions.Text

set_option linter.unusedSimpArgs false
set_option linter.unusedVariables false

namespace Jsonb.TrAgree
open Jsonb.Rs

/-! ## the entry points -/

/-- `Decoder::decode`: the length test, then `decode_jsonb` -/
theorem decoder_decode_agrees (bs : Bytes) (f fuel : Nat) (hf : f < fuel) (hne : decJsonb f bs ≠ .fuel) :
    Tr.Decoder.decode fuel ⟨bs⟩ = if bs.length < 4 then .err "InvalidJsonb" else tr (decJsonb f bs) := by
  unfold Tr.Decoder.decode
  simp only [Rs.len]
  by_cases h : bs.length < 4
  · have h' : ((bs.length : Nat) : Int) < 4 := by omega
    simp only [h', decide_true, if_true, Ctl.ret_bind', Ctl.run_ret', if_pos h]
  · have h' : ¬ ((bs.length : Nat) : Int) < 4 := by omega
    simp only [h', decide_false, Bool.false_eq_true, if_false, Ctl.pure_eq', Ctl.val_bind', if_neg h]
    rw [(dec_agrees f).1 fuel bs hf hne]
    exact run_bind_ret_pair _

/-- **`parse_jsonb`, translated from source, is the model's `parseJsonb`** (the function C10 is about)
on every byte string, for every fuel above the model's own `decFuel buf = 2·|buf| + 8`; the one
renamed error is `eofErr`. -/
theorem parse_jsonb_agrees (buf : Bytes) (fuel : Nat) (hf : decFuel buf < fuel) :
    Tr.parse_jsonb fuel buf = (eofErr (parseJsonb buf)).map ofJV := by
  have hne : decJsonb (decFuel buf) buf ≠ .fuel := decJsonb_ne_fuel _ _ (by simp only [decFuel]; omega)
  unfold Tr.parse_jsonb Tr.Decoder.new parseJsonb
  simp only [Ctl.run_ret', Ctl.ofRes_ok', Ctl.val_bind']
  rw [decoder_decode_agrees buf (decFuel buf) fuel hf hne]
  by_cases h : buf.length < 4
  · simp only [if_pos h, Ctl.ofRes_err', Ctl.ret_bind', Ctl.run_ret']; rfl
  · simp only [if_neg h]
    cases hd : decJsonb (decFuel buf) buf with
    | fuel => exact absurd hd hne
    | err e => simp only [tr_err, Ctl.ofRes_err', Ctl.ret_bind', Ctl.run_ret']; rfl
    | panic s => simp only [tr_panic, Ctl.ofRes_panic', Ctl.ret_bind', Ctl.run_ret']; rfl
    | ok p => obtain ⟨v, r⟩ := p; simp only [tr_ok, Ctl.ofRes_ok', Ctl.val_bind', Ctl.run_ret']; rfl

/-- the translated decoder never runs out of fuel above `decFuel` -/
theorem parse_jsonb_ne_fuel (buf : Bytes) (fuel : Nat) (hf : decFuel buf < fuel) : Tr.parse_jsonb fuel buf ≠ .fuel := by
  rw [parse_jsonb_agrees buf fuel hf]
  have := parseJsonb_ne_fuel buf
  cases h : parseJsonb buf <;> simp_all [eofErr, Res.map, Res.bind]

/-- `from_slice`: the binary decoder, and on ANY error the result `text` of the text parser (a parameter
of the translated function, exactly where the source calls `parse_value(buf)`) -/
theorem from_slice_agrees (buf : Bytes) (fuel : Nat) (hf : decFuel buf < fuel) (text : Res JV) :
    Tr.from_slice fuel buf (text.map ofJV) =
      (match parseJsonb buf with
       | .ok v => Res.ok v
       | .err _ => text
       | .panic s => Res.panic s
       | .fuel => Res.fuel).map ofJV := by
  have hne : decJsonb (decFuel buf) buf ≠ .fuel := decJsonb_ne_fuel _ _ (by simp only [decFuel]; omega)
  unfold Tr.from_slice Tr.Decoder.new parseJsonb
  simp only [Ctl.run_ret', Ctl.ofRes_ok', Ctl.val_bind']
  rw [decoder_decode_agrees buf (decFuel buf) fuel hf hne]
  by_cases h : buf.length < 4
  · simp only [if_pos h, Rs.okQ_err', Ctl.ret_bind', Ctl.run_ret']
  · simp only [if_neg h]
    cases hd : decJsonb (decFuel buf) buf with
    | fuel => exact absurd hd hne
    | err e => simp only [tr_err, Rs.okQ_err', Ctl.ret_bind', Ctl.run_ret']
    | panic s => simp only [tr_panic, Rs.okQ_panic', Ctl.ret_bind', Ctl.run_ret']; rfl
    | ok p => obtain ⟨v, r⟩ := p; simp only [tr_ok, Rs.okQ_ok', Ctl.val_bind', Ctl.run_ret']; rfl

/-- …which is the model's whole `from_slice` when `text` is the model's text parser -/
theorem from_slice_whole (buf : Bytes) (fuel : Nat) (hf : decFuel buf < fuel) :
    Tr.from_slice fuel buf ((parseValue buf).map ofJV) = (T.fromSlice buf).map ofJV := by
  rw [from_slice_agrees buf fuel hf]; rfl

end Jsonb.TrAgree
