/-
Paths that start with a bare member name (`store.book[0]`, the second alternative of `pre_path`):
every rendering parses to `DotField(name) :: steps`, provided the name does not start with a
digit (finding F2: `1e.x` makes nom's `double` fail irrecoverably).
The work is to show that the `predicate` alternative, which `parse_json_path` tries first and
which may read a prefix of the name as `null`/`true`/`false`/`nan`/`inf`/`exists`, still ends in
a recoverable error.
-/
import JsonbModel.Proofs.PathRoundTrip2f

namespace Jsonb
namespace PathRT2
open Nom PathParser PathPrint PathRT

def isAlpha (b : UInt8) : Bool := (65 ≤ b && b ≤ 90) || (97 ≤ b && b ≤ 122)

theorem isPrefix_take : ∀ (t i : Bytes), isPrefix t i = true → i.take t.length = t := by
  intro t
  induction t with
  | nil => intro i _; simp
  | cons a t ih =>
    intro i h
    cases i with
    | nil => simp [isPrefix] at h
    | cons b i =>
      have h' : a = b ∧ isPrefix t i = true := by simpa [isPrefix] using h
      simp [h'.1, ih i h'.2]

theorem isPrefixNoCase_take : ∀ (t i : Bytes), isPrefixNoCase t i = true →
    (i.take t.length).map lowerByte = t.map lowerByte := by
  intro t
  induction t with
  | nil => intro i _; simp
  | cons a t ih =>
    intro i h
    cases i with
    | nil => simp [isPrefixNoCase] at h
    | cons b i =>
      have h' : lowerByte a = lowerByte b ∧ isPrefixNoCase t i = true := by
        simpa [isPrefixNoCase] using h
      simp [h'.1, ih i h'.2]

theorem alpha_of_lower : ∀ b : UInt8, isAlpha (lowerByte b) = true → isAlpha b = true := by
  bytes_decide

theorem all_alpha_of_lower (s kw : Bytes) (h : s.map lowerByte = kw.map lowerByte)
    (hkw : (kw.map lowerByte).all isAlpha = true) : s.all isAlpha = true := by
  rw [← h] at hkw
  rw [List.all_eq_true] at hkw ⊢
  intro b hb
  exact alpha_of_lower b (hkw (lowerByte b) (List.mem_map.mpr ⟨b, hb, rfl⟩))

/-- a successful parse that consumed a non-empty run of letters -/
def AteLetters {α} (X : Bytes) (res : PR α) : Prop :=
  res = .error ∨ ∃ v pre Y, res = .ok v Y ∧ X = pre ++ Y ∧ pre.all isAlpha = true

theorem tag_ate (kw : Bytes) (hkw : kw.all isAlpha = true) (X : Bytes) : AteLetters X (tag kw X) := by
  unfold tag
  by_cases h : isPrefix kw X = true
  · rw [if_pos h]
    refine Or.inr ⟨_, X.take kw.length, _, rfl, (List.take_append_drop _ _).symm, ?_⟩
    rw [isPrefix_take kw X h]; exact hkw
  · rw [if_neg h]; exact Or.inl rfl

theorem tagNoCase_ate (kw : Bytes) (hkw : (kw.map lowerByte).all isAlpha = true) (X : Bytes) :
    AteLetters X (tagNoCase kw X) := by
  unfold tagNoCase
  by_cases h : isPrefixNoCase kw X = true
  · rw [if_pos h]
    refine Or.inr ⟨_, X.take kw.length, _, rfl, (List.take_append_drop _ _).symm, ?_⟩
    exact all_alpha_of_lower _ kw (isPrefixNoCase_take kw X h) hkw
  · rw [if_neg h]; exact Or.inl rfl

theorem AteLetters.value {α β} {X : Bytes} {p : Parser α} (v : β) (h : AteLetters X (p X)) :
    AteLetters X (Nom.value v p X) := by
  rcases h with h | ⟨a, pre, Y, h, e, hp⟩
  · exact Or.inl (value_error h)
  · exact Or.inr ⟨v, pre, Y, value_ok h, e, hp⟩

theorem AteLetters.map {α β} {X : Bytes} {p : Parser α} (f : α → β) (h : AteLetters X (p X)) :
    AteLetters X (Nom.map p f X) := by
  rcases h with h | ⟨a, pre, Y, h, e, hp⟩
  · exact Or.inl (map_error h)
  · exact Or.inr ⟨f a, pre, Y, map_ok h, e, hp⟩

theorem AteLetters.alt {α} {X : Bytes} {p q : Parser α} (hp : AteLetters X (p X))
    (hq : AteLetters X (q X)) : AteLetters X (Nom.alt p q X) := by
  rcases hp with h | ⟨a, pre, Y, h, e, hpre⟩
  · rw [alt_error h]; exact hq
  · exact Or.inr ⟨a, pre, Y, alt_ok h, e, hpre⟩

/-- first byte of a bare name: a plain name byte that is not a digit -/
def bareHead (c : UInt8) : Bool := plainNameByte c && !isDigit c

theorem bareHead_props : ∀ c, bareHead c = true →
    isDigit c = false ∧ c ≠ 43 ∧ c ≠ 45 ∧ c ≠ 46 ∧ c ≠ 34 ∧ c ≠ 36 ∧ c ≠ 64 ∧ c ≠ 40 ∧
    isSpace c = false := by bytes_decide

/-- on a bare name, `path_value` fails or consumes some letters -/
theorem pathValue_ate (c : UInt8) (X : Bytes) (hc : bareHead c = true) :
    AteLetters (c :: X) (pathValue (c :: X)) := by
  obtain ⟨h1, h2, h3, h4, h5, _⟩ := bareHead_props c hc
  rw [pathValue_eq]
  have a4 : pvA4 (c :: X) = .error := map_error (terminated_error (u64_nondigit _ _ h1))
  have a5 : pvA5 (c :: X) = .error := map_error (terminated_error (i64_nondigit _ _ h3 h2 h1))
  have a7 : pvA7 (c :: X) = .error :=
    map_error (string_error _ (by intro t e; simp at e; exact h5 e.1))
  have a6 : AteLetters (c :: X) (pvA6 (c :: X)) := by
    apply AteLetters.map
    unfold double
    rw [alt_error (map_error (recognizeFloat_error_head c X h1 h2 h3 h4))]
    exact AteLetters.alt (AteLetters.value _ (tagNoCase_ate _ (by decide) _))
      (AteLetters.alt (AteLetters.value _ (tagNoCase_ate _ (by decide) _))
        (AteLetters.value _ (tagNoCase_ate _ (by decide) _)))
  refine AteLetters.alt (AteLetters.value _ (tag_ate _ (by decide) _))
    (AteLetters.alt (AteLetters.value _ (tag_ate _ (by decide) _))
      (AteLetters.alt (AteLetters.value _ (tag_ate _ (by decide) _)) ?_))
  rw [alt_error a4, alt_error a5]
  refine AteLetters.alt a6 (Or.inl a7)

/-- if letters were taken off `name ++ rest` and `rest` does not start with a letter, they were
taken off `name` -/
theorem split_letters : ∀ (pre name Y rest : Bytes), pre ++ Y = name ++ rest →
    pre.all isAlpha = true → HeadOk (fun c => !isAlpha c) rest →
    ∃ n2, name = pre ++ n2 ∧ Y = n2 ++ rest := by
  intro pre
  induction pre with
  | nil => intro name Y rest h _ _; exact ⟨name, rfl, h⟩
  | cons p pre ih =>
    intro name Y rest h hp hr
    have hp' : isAlpha p = true ∧ pre.all isAlpha = true := by simpa using hp
    cases name with
    | nil =>
      simp only [List.nil_append] at h
      rw [← h] at hr
      have := hr.head
      simp [hp'.1] at this
    | cons a name =>
      simp only [List.cons_append, List.cons.injEq] at h
      obtain ⟨n2, h1, h2⟩ := ih name Y rest h.2 hp'.2 hr
      exact ⟨n2, by rw [h.1, h1]; rfl, h2⟩

/-- what follows a bare name: whitespace and then a step, or the end -/
def bareRest (c : UInt8) : Bool := isSpace c || stepHead c || c == 63

theorem bareRest_notAlpha : ∀ c, bareRest c = true → (!isAlpha c) = true := by bytes_decide
theorem bareRest_delim : ∀ c, bareRest c = true → isRawDelim c = true := by bytes_decide

/-- bytes on which both operator parsers fail -/
def notOpByte (c : UInt8) : Bool :=
  !(c == 43 || c == 45 || c == 42 || c == 47 || c == 37 || c == 61 || c == 33 || c == 60 || c == 62)

theorem ops_error_notOp (X : Bytes) (h : HeadOk notOpByte X) :
    binaryArithOp X = .error ∧ op X = .error := by
  cases X with
  | nil => exact ⟨by simp [binaryArithOp, alt, value, char, PR.bind],
      by simp [op, alt, value, tag, isPrefix, char, PR.bind]⟩
  | cons c t =>
    have hc : ((((((((c ≠ 43 ∧ c ≠ 45) ∧ c ≠ 42) ∧ c ≠ 47) ∧ c ≠ 37) ∧ c ≠ 61) ∧ c ≠ 33) ∧ c ≠ 60) ∧
        c ≠ 62) := by
      have := h.head; simpa [notOpByte] using this
    obtain ⟨⟨⟨⟨⟨⟨⟨⟨h1, h2⟩, h3⟩, h4⟩, h5⟩, h6⟩, h7⟩, h8⟩, h9⟩ := hc
    have e6 : (61 == c) = false := by simpa using (fun e : (61 : UInt8) = c => h6 e.symm)
    have e7 : (33 == c) = false := by simpa using (fun e : (33 : UInt8) = c => h7 e.symm)
    have e8 : (60 == c) = false := by simpa using (fun e : (60 : UInt8) = c => h8 e.symm)
    have e9 : (62 == c) = false := by simpa using (fun e : (62 : UInt8) = c => h9 e.symm)
    exact ⟨by simp [binaryArithOp, alt, value, char, h1, h2, h3, h4, h5, PR.bind],
      by simp [op, alt, value, tag, isPrefix, char, e6, e7, e8, e9, h8, h9, PR.bind]⟩

theorem plainName_notOp : ∀ c, plainNameByte c = true → notOpByte c = true ∧ isSpace c = false ∧
    c ≠ 40 := by bytes_decide
theorem stepish_notOp : ∀ c, (stepHead c || c == 63) = true → notOpByte c = true ∧ c ≠ 40 := by
  bytes_decide

/-- after a prefix of the name was read, the next non-space byte is no operator and no `(` -/
theorem after_name_head (n2 rest : Bytes) (hn : n2.all plainNameByte = true)
    (hr : HeadOk (fun c => stepHead c || c == 63) (dropSpaces rest)) :
    HeadOk (fun c => notOpByte c && c != 40) (dropSpaces (n2 ++ rest)) := by
  cases n2 with
  | nil =>
    simp only [List.nil_append]
    exact hr.mono (fun c hc => by have := stepish_notOp c hc; simp [this.1, this.2])
  | cons a n2 =>
    have ha : plainNameByte a = true := by
      have : plainNameByte a = true ∧ n2.all plainNameByte = true := by simpa using hn
      exact this.1
    obtain ⟨h1, h2, h3⟩ := plainName_notOp a ha
    rw [List.cons_append, dropSpaces_nonspace _ _ h2]
    exact HeadOk.cons (by simp [h1, h3])

/-- `expr_atom` fails (recoverably) on a bare name followed by steps -/
theorem exprAtom_bare_error (Rr : Bool → Parser Expr) (c : UInt8) (nm rest : Bytes)
    (hc : bareHead c = true) (hnm : (c :: nm).all plainNameByte = true)
    (hrest : HeadOk bareRest rest)
    (hr : HeadOk (fun c => stepHead c || c == 63) (dropSpaces rest)) :
    exprAtom Rr true (c :: nm ++ rest) = .error := by
  obtain ⟨h1, h2, h3, h4, h5, h6, h7, h8, h9⟩ := bareHead_props c hc
  have hX : c :: nm ++ rest = c :: (nm ++ rest) := rfl
  rw [hX]
  -- the operand parser: error, or a value followed by something that is no operator
  have hL : delimited ws (innerExpr true) ws (c :: (nm ++ rest)) = .error ∨
      ∃ v Y, delimited ws (innerExpr true) ws (c :: (nm ++ rest)) = .ok v Y ∧
        HeadOk (fun c => notOpByte c && c != 40) Y := by
    have hep := exprPaths_error true c (nm ++ rest) h6 h7
    rcases pathValue_ate c (nm ++ rest) hc with hpv | ⟨v, pre, Y, hpv, e, hpre⟩
    · left
      apply delimited_ws_error _ _ _ (dropSpaces_nonspace c _ h9)
      unfold innerExpr
      rw [alt_error (map_error hep)]
      exact map_error hpv
    · right
      obtain ⟨n2, hn2, hY⟩ := split_letters pre (c :: nm) Y rest (by rw [← e]; rfl) hpre
        (hrest.mono bareRest_notAlpha)
      have hn2' : n2.all plainNameByte = true := by
        rw [hn2] at hnm
        have : pre.all plainNameByte = true ∧ n2.all plainNameByte = true := by simpa using hnm
        exact this.2
      refine ⟨.value v, dropSpaces Y, ?_, ?_⟩
      · apply delimited_ws _ _ _ _ _ (dropSpaces_nonspace c _ h9)
        unfold innerExpr
        rw [alt_error (map_error hep)]
        exact map_ok hpv
      · rw [hY]; exact after_name_head n2 rest hn2' hr
  have b1 : eaB1 true (c :: (nm ++ rest)) = .error := by
    rcases hL with h | ⟨v, Y, h, hY⟩
    · exact map_error (tuple3_error1 h)
    · exact map_error (tuple3_error2 h (ops_error_notOp Y (hY.mono (by bytes_decide))).1)
  have b2 : eaB2 true (c :: (nm ++ rest)) = .error := by
    rcases hL with h | ⟨v, Y, h, hY⟩
    · exact map_error (tuple3_error1 h)
    · exact map_error (tuple3_error2 h (ops_error_notOp Y (hY.mono (by bytes_decide))).2)
  have b3 : eaB3 true (c :: (nm ++ rest)) = .error := by
    unfold eaB3; apply map_error
    simp [pair, unaryArithOp_error c _ h2 h3, PR.bind]
  have b4 := eaB4_error Rr true c (nm ++ rest) h8
  have b5 : eaB5 Rr (c :: (nm ++ rest)) = .error := by
    unfold eaB5; apply map_error
    unfold existsFn
    rcases tag_ate kwExists (by decide) (c :: (nm ++ rest)) with ht | ⟨v, pre, Y, ht, e, hpre⟩
    · simp [preceded, ht, PR.bind]
    · obtain ⟨n2, hn2, hY⟩ := split_letters pre (c :: nm) Y rest (by rw [← e]; rfl) hpre
        (hrest.mono bareRest_notAlpha)
      have hn2' : n2.all plainNameByte = true := by
        rw [hn2] at hnm
        have : pre.all plainNameByte = true ∧ n2.all plainNameByte = true := by simpa using hnm
        exact this.2
      have hh := after_name_head n2 rest hn2' hr
      rw [← hY] at hh
      have h40 : char 40 (dropSpaces Y) = .error := by
        cases hd : dropSpaces Y with
        | nil => rfl
        | cons d t =>
          rw [hd] at hh
          have : d ≠ 40 := by have := hh.head; simp at this; exact this.2
          exact char_miss _ _ _ this
      simp [preceded, ht, delimited, terminated, ws_eq, h40, PR.bind]
  rw [exprAtom_eq, alt_error b1, alt_error b2, alt_error b3, alt_error b4]
  exact b5

theorem exprOrStep_error_of_atom (Rr : Bool → Parser Expr) (rp : Bool) (X : Bytes)
    (h : exprAtom Rr rp X = .error) : exprOrStep Rr rp X = .error := by
  have hand : exprAnd Rr rp X = .error := by simp [exprAnd, separatedList1, h, PR.bind]
  simp [exprOrStep, separatedList1, hand, PR.bind]

/-- A bare first name (`goodField`, not starting with a digit), then any rendered steps: parses to
`DotField(name) :: steps`. -/
theorem parse_bare {ps : List Path} {t : Bytes} (h : R .steps false (.paths ps) t) (c : UInt8)
    (nm w0 w w1 : Bytes) (hc : bareHead c = true) (hnm : goodField (c :: nm) = true)
    (hw0 : Ws w0) (hw : Ws w) (hw1 : Ws w1) :
    parseJsonPath (w0 ++ (c :: nm ++ (w ++ (t ++ w1)))) = .ok (.dotField (c :: nm) :: ps) := by
  have hg : (c :: nm).all plainNameByte = true ∧ validUtf8 (c :: nm) = true := by
    simpa [goodField] using hnm
  obtain ⟨_, _, _, _, _, h6, _, _, h9⟩ := bareHead_props c hc
  have hw1' := dropSpaces_ws_nil w1 hw1
  have hhead := h.steps_head w1 hw1'
  have hdr : dropSpaces (w ++ (t ++ w1)) = dropSpaces (t ++ w1) := dropSpaces_ws _ _ hw
  have hrest : HeadOk bareRest (w ++ (t ++ w1)) := by
    apply HeadOk.of_dropSpaces (by bytes_decide)
    rw [hdr]
    exact hhead.mono (by bytes_decide)
  unfold parseJsonPath
  generalize hN : (w0 ++ (c :: nm ++ (w ++ (t ++ w1)))).length = N
  have htN : t.length ≤ N + 1 := by rw [← hN]; simp; omega
  have hds : dropSpaces (w0 ++ (c :: nm ++ (w ++ (t ++ w1)))) = c :: nm ++ (w ++ (t ++ w1)) := by
    rw [dropSpaces_ws _ _ hw0]; exact dropSpaces_nonspace c _ h9
  have hatom := exprAtom_bare_error (exprOr N) c nm (w ++ (t ++ w1)) hc hg.1 hrest
    (by rw [hdr]; exact hhead)
  have hpred : predicate (N + 1) (c :: nm ++ (w ++ (t ++ w1))) = .error := by
    unfold predicate
    apply map_error
    apply delimited_ws_error _ _ _ (dropSpaces_nonspace c _ h9)
    exact exprOrStep_error_of_atom _ _ _ hatom
  obtain ⟨r', h1, h2⟩ := h.sound ps rfl (N + 1) htN w1 (by rw [hw1']; exact HeadOk.nil)
    (dropSpaces (t ++ w1)) (dropSpaces_idem _) ((dropSpaces (t ++ w1)).length + 1) [] (by omega)
  rw [hw1'] at h2
  have hm : many0 (path (exprOr (N + 1))) (dropSpaces (t ++ w1)) = .ok ps r' := by
    unfold many0; rw [h1]; simp
  have hraw : rawString (c :: nm ++ (w ++ (t ++ w1))) = .ok (c :: nm) (w ++ (t ++ w1)) :=
    rawString_plain (c :: nm) _ (by simp) hg.1 hg.2 (delimHead_of (hrest.mono bareRest_delim))
  have hpre : prePath (c :: nm ++ (w ++ (t ++ w1)))
      = .ok (.dotField (c :: nm)) (dropSpaces (t ++ w1)) := by
    have hmiss : value Path.root (char 36) (c :: nm ++ (w ++ (t ++ w1))) = .error :=
      value_error (char_miss 36 c (nm ++ (w ++ (t ++ w1))) h6)
    unfold prePath
    rw [alt_error hmiss]
    have := delimited_ws rawString (c :: nm ++ (w ++ (t ++ w1))) _ _ _
      (dropSpaces_nonspace c _ h9) hraw
    rw [hdr] at this
    exact map_ok this
  have hpaths : paths (N + 1) (c :: nm ++ (w ++ (t ++ w1))) = .ok (.dotField (c :: nm) :: ps) r' := by
    simp only [paths, map, pair, opt, hpre, hm, PR.bind]
  have hpp : predicateOrPaths (N + 1) (c :: nm ++ (w ++ (t ++ w1)))
      = .ok (.dotField (c :: nm) :: ps) r' := by
    unfold predicateOrPaths
    rw [alt_error hpred]
    exact hpaths
  have := delimited_ws (predicateOrPaths (N + 1)) _ _ r' _ hds hpp
  unfold jsonPath
  rw [this, h2]
  rfl

end PathRT2
end Jsonb
