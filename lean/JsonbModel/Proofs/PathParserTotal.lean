/-
Totality of the two path parsers: for EVERY byte string, `parse_json_path` and
`parse_key_paths` return `Ok`/`Err` — they never panic.

The proof is compositional: `Nom.NoPanic` for every combinator (`Proofs/NomNoPanic.lean`),
for `raw_string` / `string` (`Proofs/PathStrTotal.lean`, the only functions with real panic
sites: the unguarded `data[0]`s and `char::from_u32(..).unwrap()`s of `util::parse_string`),
then for every grammar function in the order of the Rust file; the `expr_or` knot by
induction on the fuel.
-/
import JsonbModel.PathParser
import JsonbModel.Proofs.NomNoPanic
import JsonbModel.Proofs.PathStrTotal

namespace Jsonb
namespace PathParser
open Nom

theorem np_ws : NoPanic ws := np_multispace0

theorem np_bracketWildcard : NoPanic bracketWildcard :=
  np_value _ (np_delimited (np_char _) (np_delimited np_ws (np_char _) np_ws) (np_char _))

theorem np_colonField : NoPanic colonField :=
  np_alt (np_preceded (np_char _) np_string) (np_preceded (np_char _) np_rawString)

theorem np_dotField : NoPanic dotField :=
  np_alt (np_preceded (np_char _) np_string) (np_preceded (np_char _) np_rawString)

theorem np_objectField : NoPanic objectField :=
  np_delimited (np_terminated (np_char _) np_ws) np_string (np_preceded np_ws (np_char _))

theorem np_index : NoPanic index :=
  np_alt (np_map _ np_i32)
    (np_alt (np_map _ (np_preceded (np_tuple4 (np_tagNoCase _) np_ws (np_char _) np_ws) np_i64))
      (np_alt (np_map _ (np_preceded (np_tuple4 (np_tagNoCase _) np_ws (np_char _) np_ws) np_i32))
        (np_map _ (np_tagNoCase _))))

theorem np_arrayIndex : NoPanic arrayIndex :=
  np_alt (np_map _ (np_separatedPair np_index (np_delimited np_ws (np_tagNoCase _) np_ws) np_index))
    (np_map _ np_index)

theorem np_arrayIndices : NoPanic arrayIndices :=
  np_delimited (np_char _)
    (np_separatedList1 (np_char _) (np_delimited np_ws np_arrayIndex np_ws)) (np_char _)

theorem np_innerPath : NoPanic innerPath :=
  np_alt (np_value _ (np_tag _))
    (np_alt (np_value _ np_bracketWildcard)
      (np_alt (np_map _ np_colonField)
        (np_alt (np_map _ np_dotField)
          (np_alt (np_map _ np_arrayIndices) (np_map _ np_objectField)))))

theorem np_prePath : NoPanic prePath :=
  np_alt (np_value _ (np_char _)) (np_map _ (np_delimited np_ws np_rawString np_ws))

theorem np_exprPaths (rp : Bool) : NoPanic (exprPaths rp) :=
  np_map _ (np_pair
    (np_alt (np_value _ (np_char _)) (np_mapRes _ (np_cond _ (np_value _ (np_char _)))))
    (np_many0 (np_delimited np_ws np_innerPath np_ws)))

theorem np_op : NoPanic op :=
  np_alt (np_value _ (np_tag _)) (np_alt (np_value _ (np_tag _)) (np_alt (np_value _ (np_tag _))
    (np_alt (np_value _ (np_tag _)) (np_alt (np_value _ (np_char _))
      (np_alt (np_value _ (np_tag _)) (np_value _ (np_char _)))))))

theorem np_unaryArithOp : NoPanic unaryArithOp :=
  np_alt (np_value _ (np_char _)) (np_value _ (np_char _))

theorem np_binaryArithOp : NoPanic binaryArithOp :=
  np_alt (np_value _ (np_char _)) (np_alt (np_value _ (np_char _)) (np_alt (np_value _ (np_char _))
    (np_alt (np_value _ (np_char _)) (np_value _ (np_char _)))))

theorem np_pathValue : NoPanic pathValue :=
  np_alt (np_value _ (np_tag _))
    (np_alt (np_value _ (np_tag _))
      (np_alt (np_value _ (np_tag _))
        (np_alt (np_map _ (np_terminated np_u64 (np_not (np_oneOf _))))
          (np_alt (np_map _ (np_terminated np_i64 (np_not (np_oneOf _))))
            (np_alt (np_map _ np_double) (np_map _ np_string))))))

theorem np_innerExpr (rp : Bool) : NoPanic (innerExpr rp) :=
  np_alt (np_map _ (np_exprPaths rp)) (np_map _ np_pathValue)

section knot
variable {exprOr : Bool → Parser Expr} (hrec : ∀ rp, NoPanic (exprOr rp))
include hrec

theorem np_filterExpr : NoPanic (filterExpr exprOr) :=
  np_delimited (np_delimited (np_char _) np_ws (np_char _))
    (np_delimited np_ws (hrec false) np_ws) (np_char _)

theorem np_path : NoPanic (path exprOr) :=
  np_alt (np_delimited np_ws np_innerPath np_ws)
    (np_map _ (np_delimited np_ws (np_filterExpr hrec) np_ws))

theorem np_existsPaths : NoPanic (existsPaths exprOr) :=
  np_map _ (np_pair (np_alt (np_value _ (np_char _)) (np_value _ (np_char _)))
    (np_many0 (np_path hrec)))

theorem np_existsFn : NoPanic (existsFn exprOr) :=
  np_preceded (np_tag _) (np_preceded np_ws
    (np_delimited (np_terminated (np_char _) np_ws) (np_existsPaths hrec)
      (np_preceded np_ws (np_char _))))

theorem np_exprAtom (rp : Bool) : NoPanic (exprAtom exprOr rp) :=
  np_alt (np_map _ (np_tuple3 (np_delimited np_ws (np_innerExpr rp) np_ws) np_binaryArithOp
      (np_delimited np_ws (np_innerExpr rp) np_ws)))
    (np_alt (np_map _ (np_tuple3 (np_delimited np_ws (np_innerExpr rp) np_ws) np_op
          (np_delimited np_ws (np_innerExpr rp) np_ws)))
      (np_alt (np_map _ (np_pair np_unaryArithOp (np_delimited np_ws (np_innerExpr rp) np_ws)))
        (np_alt (np_delimited (np_terminated (np_char _) np_ws) (hrec rp)
            (np_preceded np_ws (np_char _)))
          (np_map _ (np_existsFn hrec)))))

omit hrec in
/-- `separated_list1` never returns an empty vector, so `exprs[0]` cannot panic -/
theorem sepList1Loop_ok_ne_nil {α β} (sep : Parser β) (p : Parser α) (n : Nat) (i : Bytes)
    (acc res : List α) (rest : Bytes) (hacc : acc ≠ [])
    (h : sepList1Loop sep p n i acc = .ok res rest) : res ≠ [] := by
  induction n generalizing i acc with
  | zero => simp [sepList1Loop] at h
  | succ n ih =>
    unfold sepList1Loop at h
    split at h
    · simp at h; rw [← h.1]; simpa using hacc
    · split at h
      · simp at h
      · split at h
        · simp at h; rw [← h.1]; simpa using hacc
        · exact ih _ _ (by simp) h
        all_goals simp at h
    all_goals simp at h

omit hrec in
theorem foldBin_sepList1_ne_panic {γ} {sep : Parser γ} {p : Parser Expr} (o : BinOp)
    (hs : NoPanic sep) (hp : NoPanic p) (i : Bytes) (s : String) :
    ((separatedList1 sep p i).bind (foldBin o)) ≠ .panic s := by
  cases hsl : separatedList1 sep p i with
  | ok es rest =>
    simp only [PR.bind]
    have : es ≠ [] := by
      unfold separatedList1 at hsl
      cases hp1 : p i with
      | ok a r1 =>
        rw [hp1] at hsl; simp only [PR.bind] at hsl
        exact sepList1Loop_ok_ne_nil _ _ _ _ _ _ _ (by simp) hsl
      | error => rw [hp1] at hsl; simp [PR.bind] at hsl
      | failure => rw [hp1] at hsl; simp [PR.bind] at hsl
      | panic t => rw [hp1] at hsl; simp [PR.bind] at hsl
      | fuel => rw [hp1] at hsl; simp [PR.bind] at hsl
    cases es with
    | nil => exact absurd rfl this
    | cons e es => simp [foldBin]
  | error => simp [PR.bind]
  | failure => simp [PR.bind]
  | panic t => exact absurd hsl (np_separatedList1 hs hp i t)
  | fuel => simp [PR.bind]

theorem np_exprAnd (rp : Bool) : NoPanic (exprAnd exprOr rp) := by
  intro i s
  unfold exprAnd
  exact foldBin_sepList1_ne_panic _ (np_delimited np_ws (np_tag _) np_ws)
    (np_exprAtom hrec rp) i s

theorem np_exprOrStep (rp : Bool) : NoPanic (exprOrStep exprOr rp) := by
  intro i s
  unfold exprOrStep
  exact foldBin_sepList1_ne_panic _ (np_delimited np_ws (np_tag _) np_ws)
    (np_exprAnd hrec rp) i s

end knot

theorem np_exprOr (n : Nat) : ∀ rp, NoPanic (exprOr n rp) := by
  induction n with
  | zero => intro rp i s; simp [exprOr]
  | succ n ih => intro rp; exact np_exprOrStep ih rp

theorem np_predicate (n : Nat) : NoPanic (predicate n) :=
  np_map _ (np_delimited np_ws (np_exprOr n true) np_ws)

theorem np_paths (n : Nat) : NoPanic (paths n) :=
  np_map _ (np_pair (np_opt np_prePath) (np_many0 (np_path (np_exprOr n))))

theorem np_predicateOrPaths (n : Nat) : NoPanic (predicateOrPaths n) :=
  np_alt (np_predicate n) (np_paths n)

theorem np_jsonPath (n : Nat) : NoPanic (jsonPath n) :=
  np_delimited np_ws (np_predicateOrPaths n) np_ws

theorem np_keyPath : NoPanic keyPath :=
  np_alt (np_map _ np_i32) (np_alt (np_map _ np_string) (np_map _ np_rawString))

theorem np_keyPaths : NoPanic keyPaths :=
  np_alt
    (np_delimited (np_preceded np_ws (np_char _))
      (np_separatedList1 (np_char _) (np_delimited np_ws np_keyPath np_ws))
      (np_terminated (np_char _) np_ws))
    (np_map _ (np_delimited (np_preceded np_ws (np_char _)) np_ws (np_terminated (np_char _) np_ws)))

theorem finish_ne_panic {α} (r : PR α) (e : String) (h : ∀ s, r ≠ .panic s) (s : String) :
    finish r e ≠ .panic s := by
  unfold finish
  split <;> simp_all

end PathParser

open PathParser in
/-- `jsonpath::parse_json_path` never panics, whatever the input bytes. -/
theorem parseJsonPath_ne_panic (bs : Bytes) (s : String) : parseJsonPath bs ≠ .panic s :=
  finish_ne_panic _ _ (np_jsonPath _ bs) s

open PathParser in
/-- `keypath::parse_key_paths` never panics, whatever the input bytes. -/
theorem parseKeyPaths_ne_panic (bs : Bytes) (s : String) : parseKeyPaths bs ≠ .panic s :=
  finish_ne_panic _ _ (np_keyPaths bs) s

end Jsonb

#print axioms Jsonb.parseJsonPath_ne_panic
#print axioms Jsonb.parseKeyPaths_ne_panic
