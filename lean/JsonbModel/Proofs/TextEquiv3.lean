/-
C11 continued: `contains` and `concat` (their text case sends BOTH arguments through
`from_slice`) and `delete_by_index`.
-/
import JsonbModel.Proofs.TextEquiv2
import JsonbModel.Proofs.TextFallback
import JsonbModel.Proofs.ContainsRefine

namespace Jsonb
open JV

/-- a text argument that `from_slice` is guaranteed to hand to the text parser (C10_text_fallback):
starts with a JSON start byte other than a space, shorter than 2^27 bytes -/
structure TextOfFS (t : Bytes) (v : JV) : Prop extends TextOf t v where
  start : ∃ b0 tl, t = b0 :: tl ∧ jsonStart b0 = true
  short : t.length < 134217728

theorem fromSlice_textOf {t : Bytes} {v : JV} (h : TextOfFS t v) : T.fromSlice t = .ok v := by
  obtain ⟨b0, tl, ht, hs⟩ := h.start
  rw [fromSlice_text t b0 tl ht hs h.short, h.parses]

theorem fromSlice_bin (v : JV) (hg : goodTop v = true) : T.fromSlice (encodeSpec v) = .ok (norm v) := by
  simp [T.fromSlice, parseJsonb_encodeSpec v hg]

/-- the tree function does not see the codec's normalisation (through the byte-level refinement) -/
theorem contains_norm_left (a b : JV) (ha : goodTop a = true) (hb : goodTop b = true) :
    Spec.contains (norm a) b = Spec.contains a b := by
  have h1 := Fn.contains_refines (norm a) b (goodTop_norm a ha) hb
  have h2 := Fn.contains_refines a b ha hb
  rw [encodeSpec_norm] at h1
  rw [h1] at h2; exact Res.ok.inj h2
theorem contains_norm_right (a b : JV) (ha : goodTop a = true) (hb : goodTop b = true) :
    Spec.contains a (norm b) = Spec.contains a b := by
  have h1 := Fn.contains_refines a (norm b) ha (goodTop_norm b hb)
  have h2 := Fn.contains_refines a b ha hb
  rw [encodeSpec_norm] at h1
  rw [h1] at h2; exact Res.ok.inj h2

theorem contains_text_text {t1 t2 : Bytes} {v1 v2 : JV} (h1 : TextOfFS t1 v1) (h2 : TextOfFS t2 v2) :
    T.contains t1 t2 = T.contains (encodeSpec v1) (encodeSpec v2) := by
  have hj1 := isJsonb_encodeSpec v1 h1.small
  have hj2 := isJsonb_encodeSpec v2 h2.small
  simp only [T.contains, h1.notJsonb, h2.notJsonb, hj1, hj2, fromSlice_textOf h1, fromSlice_textOf h2,
    Bool.not_false, Bool.not_true, Bool.or_self, if_true, Bool.false_eq_true, if_false]
  rw [Fn.contains_refines v1 v2 h1.good h2.good]

theorem contains_text_bin {t1 : Bytes} {v1 v2 : JV} (h1 : TextOfFS t1 v1) (hg : goodTop v2 = true)
    (hs : topCount v2 < 16777216) :
    T.contains t1 (encodeSpec v2) = T.contains (encodeSpec v1) (encodeSpec v2) := by
  have hj1 := isJsonb_encodeSpec v1 h1.small
  have hj2 := isJsonb_encodeSpec v2 hs
  simp only [T.contains, h1.notJsonb, hj1, hj2, fromSlice_textOf h1, fromSlice_bin v2 hg,
    Bool.not_false, Bool.not_true, Bool.true_or, Bool.or_self, if_true, Bool.false_eq_true, if_false]
  rw [Fn.contains_refines v1 v2 h1.good hg, contains_norm_right v1 v2 h1.good hg]

theorem contains_bin_text {t2 : Bytes} {v1 v2 : JV} (hg : goodTop v1 = true) (hs : topCount v1 < 16777216)
    (h2 : TextOfFS t2 v2) :
    T.contains (encodeSpec v1) t2 = T.contains (encodeSpec v1) (encodeSpec v2) := by
  have hj1 := isJsonb_encodeSpec v1 hs
  have hj2 := isJsonb_encodeSpec v2 h2.small
  simp only [T.contains, h2.notJsonb, hj1, hj2, fromSlice_textOf h2, fromSlice_bin v1 hg,
    Bool.not_false, Bool.not_true, Bool.or_true, Bool.or_self, if_true, Bool.false_eq_true, if_false]
  rw [Fn.contains_refines v1 v2 hg h2.good, contains_norm_left v1 v2 hg h2.good]

/-- `concat` with both arguments text -/
theorem concat_text_text {t1 t2 : Bytes} {v1 v2 : JV} (h1 : TextOfFS t1 v1) (h2 : TextOfFS t2 v2)
    (hres : goodTop (Spec.concat v1 v2) = true) (buf : Bytes) :
    T.concat t1 t2 buf = T.concat (encodeSpec v1) (encodeSpec v2) buf := by
  have hj1 := isJsonb_encodeSpec v1 h1.small
  have hj2 := isJsonb_encodeSpec v2 h2.small
  simp only [T.concat, h1.notJsonb, h2.notJsonb, hj1, hj2, fromSlice_textOf h1, fromSlice_textOf h2,
    Bool.not_false, Bool.not_true, Bool.or_self, if_true, Bool.false_eq_true, if_false]
  rw [concat_refines v1 v2 h1.good h2.good hres buf, writeToVec_spec buf _ hres]

/-- `delete_by_index` on a text array -/
theorem deleteByIndex_text {t : Bytes} {vs : List JV} (h : TextOf t (arr vs))
    (i : Int) (hi : -2147483648 ≤ i ∧ i ≤ 2147483647) (buf : Bytes) :
    T.deleteByIndex t i buf = T.deleteByIndex (encodeSpec (arr vs)) i buf := by
  have hj := isJsonb_encodeSpec (arr vs) h.small
  have hg := h.good
  simp only [goodTop, Bool.and_eq_true, decide_eq_true_eq] at hg
  simp only [T.deleteByIndex, h.notJsonb, hj, h.parses, Bool.not_false, Bool.not_true, if_true,
    Bool.false_eq_true, if_false]
  rw [deleteByIndex_arr vs hg.1 hg.2 i hi buf]
  have hadd : (if i < 0 then Fn.addI32 (vs.length : Int) i else Res.ok i)
      = Res.ok (if i < 0 then (vs.length : Int) + i else i) := by
    by_cases h0 : i < 0
    · simp only [h0, if_true, Fn.addI32]; rw [if_pos (by omega)]
    · simp [h0]
  rw [hadd]
  simp only [Spec.deleteByIndex]
  by_cases hr : (if i < 0 then (vs.length : Int) + i else i) < 0 ∨ (if i < 0 then (vs.length : Int) + i else i) ≥ vs.length
  · rw [if_pos hr, if_neg (by omega)]
    simp only [Option.getD_some]
    exact writeToVec_spec buf (arr vs) h.good
  · rw [if_neg hr, if_pos (by omega)]
    simp only [Option.getD_some]
    apply writeToVec_spec
    simp only [goodTop, Bool.and_eq_true, decide_eq_true_eq]
    exact ⟨Nat.lt_of_le_of_lt (removeAt_length_le _ _) hg.1, goodL_removeAt vs hg.2 _⟩

end Jsonb
