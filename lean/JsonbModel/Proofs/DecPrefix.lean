/-
C10 (consumption / determinism / prefixes) for the stream decoder model:

* `dec_suffix`     : the cursor returned by a successful call is a suffix of the input;
* `dec_mono`       : a successful call stays successful, with the same value, when the buffer
                     is extended on the right and/or the fuel is increased;
* `dec_nofuel`     : `|bs| + 1` fuel is always enough, so `parseJsonb bs ≠ .fuel`;
* `prefix_rejected`: every proper prefix of a valid encoding is rejected with an error.
-/
import JsonbModel.Proofs.TopLevel
import JsonbModel.Proofs.DecTotal

namespace Jsonb
open JV

/-! ### reads -/

theorem readU32_some (bs : Bytes) (h : Nat) (r : Bytes) (hr : readU32 bs = some (h, r)) :
    4 ≤ bs.length ∧ r = bs.drop 4 := by
  unfold readU32 readBe at hr
  split at hr
  · simp only [Option.some.injEq, Prod.mk.injEq] at hr
    exact ⟨by assumption, hr.2.symm⟩
  · simp at hr

theorem readU32_suffix (bs : Bytes) (h : Nat) (r : Bytes) (hr : readU32 bs = some (h, r)) :
    r <:+ bs ∧ r.length + 4 = bs.length := by
  obtain ⟨hl, rfl⟩ := readU32_some bs h r hr
  exact ⟨List.drop_suffix 4 bs, by simp; omega⟩

theorem readU32_ext (p x : Bytes) (h : Nat) (r : Bytes) (hr : readU32 p = some (h, r)) :
    readU32 (p ++ x) = some (h, r ++ x) := by
  unfold readU32 readBe at hr ⊢
  split at hr
  · rename_i hl
    simp only [Option.some.injEq, Prod.mk.injEq] at hr
    rw [if_pos (by simp; omega), List.take_append_of_le_length hl,
      List.drop_append_of_le_length hl, hr.1, hr.2]
  · simp at hr

theorem readEntries_suffix (n : Nat) (bs : Bytes) (es : List (Nat × Nat)) (r : Bytes)
    (hr : readEntries n bs = some (es, r)) : r <:+ bs ∧ r.length + 4 * n = bs.length := by
  induction n generalizing bs es r with
  | zero =>
    simp only [readEntries, Option.some.injEq, Prod.mk.injEq] at hr
    rw [hr.2]; exact ⟨List.suffix_refl _, by simp⟩
  | succ n ih =>
    simp only [readEntries] at hr
    split at hr
    · simp at hr
    · rename_i e bs1 h1
      split at hr
      · simp at hr
      · rename_i es1 bs2 h2
        simp only [Option.some.injEq, Prod.mk.injEq] at hr
        obtain ⟨s1, l1⟩ := readU32_suffix _ _ _ h1
        obtain ⟨s2, l2⟩ := ih _ _ _ h2
        rw [← hr.2]
        exact ⟨s2.trans s1, by omega⟩

theorem readEntries_ext (n : Nat) (p x : Bytes) (es : List (Nat × Nat)) (r : Bytes)
    (hr : readEntries n p = some (es, r)) : readEntries n (p ++ x) = some (es, r ++ x) := by
  induction n generalizing p es r with
  | zero =>
    simp only [readEntries, Option.some.injEq, Prod.mk.injEq] at hr ⊢
    exact ⟨hr.1, by rw [hr.2]⟩
  | succ n ih =>
    simp only [readEntries] at hr ⊢
    split at hr
    · simp at hr
    · rename_i e bs1 h1
      split at hr
      · simp at hr
      · rename_i es1 bs2 h2
        rw [readU32_ext _ x _ _ h1]
        simp only [ih _ _ _ h2]
        simp only [Option.some.injEq, Prod.mk.injEq] at hr ⊢
        exact ⟨hr.1, by rw [hr.2]⟩

/-! ### the returned cursor is a suffix of the input -/

theorem dec_suffix (fuel : Nat) :
    (∀ bs v rest, decJsonb fuel bs = .ok (v, rest) → rest <:+ bs) ∧
    (∀ ty len bs v rest, decScalar fuel ty len bs = .ok (v, rest) → rest <:+ bs) ∧
    (∀ es bs vs rest, decItems fuel es bs = .ok (vs, rest) → rest <:+ bs) ∧
    (∀ ks es bs kvs rest, decObjVals fuel ks es bs = .ok (kvs, rest) → rest <:+ bs) := by
  induction fuel with
  | zero =>
    refine ⟨?_, ?_, ?_, ?_⟩ <;> intros <;> simp_all [decJsonb, decScalar, decItems, decObjVals]
  | succ f ih =>
    obtain ⟨ihJ, ihS, ihI, ihO⟩ := ih
    refine ⟨?_, ?_, ?_, ?_⟩
    · intro bs v rest h
      simp only [decJsonb] at h
      split at h
      · simp at h
      · rename_i hd bs1 hr1
        have s1 := (readU32_suffix _ _ _ hr1).1
        split at h
        · split at h
          · simp at h
          · split at h
            · simp at h
            · rename_i e bs2 hr2
              have s2 := (readU32_suffix _ _ _ hr2).1
              exact ((ihS _ _ _ _ _ h).trans s2).trans s1
        · split at h
          · split at h
            · simp at h
            · rename_i es bs2 hr2
              have s2 := (readEntries_suffix _ _ _ _ hr2).1
              split at h
              · rename_i vs bs3 hi
                simp only [Res.ok.injEq, Prod.mk.injEq] at h
                rw [← h.2]
                exact ((ihI _ _ _ _ hi).trans s2).trans s1
              all_goals simp at h
          · split at h
            · split at h
              · simp at h
              · rename_i es bs2 hr2
                have s2 := (readEntries_suffix _ _ _ _ hr2).1
                split at h
                · rename_i ks bs3 hk
                  split at h
                  · rename_i kvs bs4 ho
                    simp only [Res.ok.injEq, Prod.mk.injEq] at h
                    rw [← h.2]
                    exact (((ihO _ _ _ _ _ ho).trans (ihI _ _ _ _ hk)).trans s2).trans s1
                  all_goals simp at h
                all_goals simp at h
            · simp at h
    · intro ty len bs v rest h
      simp only [decScalar] at h
      repeat' split at h
      all_goals first
        | (simp at h; done)
        | exact ihJ _ _ _ h
        | (simp only [Res.ok.injEq, Prod.mk.injEq] at h; rw [← h.2]; exact List.suffix_refl _)
        | (simp only [Res.ok.injEq, Prod.mk.injEq] at h; rw [← h.2]; exact List.drop_suffix _ _)
    · intro es bs vs rest h
      cases es with
      | nil =>
        simp only [decItems, Res.ok.injEq, Prod.mk.injEq] at h
        rw [← h.2]; exact List.suffix_refl _
      | cons e es =>
        obtain ⟨ty, len⟩ := e
        simp only [decItems] at h
        split at h
        · rename_i v bs1 hs
          split at h
          · rename_i vs' bs2 hi
            simp only [Res.ok.injEq, Prod.mk.injEq] at h
            rw [← h.2]
            exact (ihI _ _ _ _ hi).trans (ihS _ _ _ _ _ hs)
          all_goals simp at h
        all_goals simp at h
    · intro ks es bs kvs rest h
      cases ks with
      | nil =>
        simp only [decObjVals, Res.ok.injEq, Prod.mk.injEq] at h
        rw [← h.2]; exact List.suffix_refl _
      | cons k ks =>
        cases es with
        | nil => simp [decObjVals] at h
        | cons e es =>
          obtain ⟨ty, len⟩ := e
          simp only [decObjVals] at h
          split at h
          · split at h
            · rename_i v bs1 hs
              split at h
              · rename_i kvs' bs2 ho
                simp only [Res.ok.injEq, Prod.mk.injEq] at h
                rw [← h.2]
                exact (ihO _ _ _ _ _ ho).trans (ihS _ _ _ _ _ hs)
              all_goals simp at h
            all_goals simp at h
          · simp at h

/-- **Consumption**: a successful `decode_jsonb` returns a suffix of its input. -/
theorem decJsonb_suffix (fuel : Nat) (bs : Bytes) (v : JV) (rest : Bytes)
    (h : decJsonb fuel bs = .ok (v, rest)) : ∃ c, bs = c ++ rest := by
  obtain ⟨c, hc⟩ := (dec_suffix fuel).1 bs v rest h
  exact ⟨c, hc.symm⟩

/-! ### monotonicity in the buffer (extension on the right) and in the fuel -/

theorem dec_mono (fuel : Nat) :
    (∀ bs v rest, decJsonb fuel bs = .ok (v, rest) →
        ∀ f' x, fuel ≤ f' → decJsonb f' (bs ++ x) = .ok (v, rest ++ x)) ∧
    (∀ ty len bs v rest, decScalar fuel ty len bs = .ok (v, rest) →
        ∀ f' x, fuel ≤ f' → decScalar f' ty len (bs ++ x) = .ok (v, rest ++ x)) ∧
    (∀ es bs vs rest, decItems fuel es bs = .ok (vs, rest) →
        ∀ f' x, fuel ≤ f' → decItems f' es (bs ++ x) = .ok (vs, rest ++ x)) ∧
    (∀ ks es bs kvs rest, decObjVals fuel ks es bs = .ok (kvs, rest) →
        ∀ f' x, fuel ≤ f' → decObjVals f' ks es (bs ++ x) = .ok (kvs, rest ++ x)) := by
  induction fuel with
  | zero =>
    refine ⟨?_, ?_, ?_, ?_⟩ <;> intros <;> simp_all [decJsonb, decScalar, decItems, decObjVals]
  | succ f ih =>
    obtain ⟨ihJ, ihS, ihI, ihO⟩ := ih
    refine ⟨?_, ?_, ?_, ?_⟩
    · intro bs v rest h f' x hf
      obtain ⟨g, rfl⟩ : ∃ g, f' = g + 1 := ⟨f' - 1, by omega⟩
      have hg : f ≤ g := by omega
      simp only [decJsonb] at h ⊢
      split at h
      · simp at h
      · rename_i hd bs1 hr1
        rw [readU32_ext _ x _ _ hr1]
        simp only []
        split at h
        · rename_i c1
          rw [if_pos c1]
          split at h
          · simp at h
          · rename_i c2
            rw [if_neg c2]
            split at h
            · simp at h
            · rename_i e bs2 hr2
              rw [readU32_ext _ x _ _ hr2]
              exact ihS _ _ _ _ _ h g x hg
        · rename_i c1
          rw [if_neg c1]
          split at h
          · rename_i c2
            rw [if_pos c2]
            split at h
            · simp at h
            · rename_i es bs2 hr2
              rw [readEntries_ext _ _ x _ _ hr2]
              simp only []
              split at h
              · rename_i vs bs3 hi
                rw [ihI _ _ _ _ hi g x hg]
                simp only [Res.ok.injEq, Prod.mk.injEq] at h ⊢
                exact ⟨h.1, by rw [h.2]⟩
              all_goals simp at h
          · rename_i c2
            rw [if_neg c2]
            split at h
            · rename_i c3
              rw [if_pos c3]
              split at h
              · simp at h
              · rename_i es bs2 hr2
                rw [readEntries_ext _ _ x _ _ hr2]
                simp only []
                split at h
                · rename_i ks bs3 hk
                  rw [ihI _ _ _ _ hk g x hg]
                  simp only []
                  split at h
                  · rename_i kvs bs4 ho
                    rw [ihO _ _ _ _ _ ho g x hg]
                    simp only [Res.ok.injEq, Prod.mk.injEq] at h ⊢
                    exact ⟨h.1, by rw [h.2]⟩
                  all_goals simp at h
                all_goals simp at h
            · simp at h
    · intro ty len bs v rest h f' x hf
      obtain ⟨g, rfl⟩ : ∃ g, f' = g + 1 := ⟨f' - 1, by omega⟩
      have hg : f ≤ g := by omega
      have ht : len ≤ bs.length → (bs ++ x).take len = bs.take len :=
        List.take_append_of_le_length
      have hd : len ≤ bs.length → (bs ++ x).drop len = bs.drop len ++ x :=
        List.drop_append_of_le_length
      have hl : len ≤ bs.length → len ≤ (bs ++ x).length := by
        intro h; simp; omega
      simp only [decScalar] at h ⊢
      split at h
      · rename_i c; rw [if_pos c]
        simp only [Res.ok.injEq, Prod.mk.injEq] at h ⊢
        exact ⟨h.1, by rw [h.2]⟩
      rename_i c; rw [if_neg c]
      split at h
      · rename_i c; rw [if_pos c]
        simp only [Res.ok.injEq, Prod.mk.injEq] at h ⊢
        exact ⟨h.1, by rw [h.2]⟩
      rename_i c; rw [if_neg c]
      split at h
      · rename_i c; rw [if_pos c]
        simp only [Res.ok.injEq, Prod.mk.injEq] at h ⊢
        exact ⟨h.1, by rw [h.2]⟩
      rename_i c; rw [if_neg c]
      split at h
      · rename_i c; rw [if_pos c]
        split at h
        · rename_i cl
          rw [if_pos (hl cl), ht cl, hd cl]
          split at h
          · rename_i cu
            rw [if_pos cu]
            simp only [Res.ok.injEq, Prod.mk.injEq] at h ⊢
            exact ⟨h.1, by rw [h.2]⟩
          · simp at h
        · simp at h
      rename_i c; rw [if_neg c]
      split at h
      · rename_i c; rw [if_pos c]
        split at h
        · rename_i cl
          rw [if_pos (hl cl), ht cl, hd cl]
          split at h
          · rename_i n hn
            simp only [Res.ok.injEq, Prod.mk.injEq] at h ⊢
            exact ⟨h.1, by rw [h.2]⟩
          all_goals simp at h
        · simp at h
      rename_i c; rw [if_neg c]
      split at h
      · rename_i c; rw [if_pos c]
        exact ihJ _ _ _ h g x hg
      · simp at h
    · intro es bs vs rest h f' x hf
      obtain ⟨g, rfl⟩ : ∃ g, f' = g + 1 := ⟨f' - 1, by omega⟩
      have hg : f ≤ g := by omega
      cases es with
      | nil =>
        simp only [decItems, Res.ok.injEq, Prod.mk.injEq] at h ⊢
        exact ⟨h.1, by rw [h.2]⟩
      | cons e es =>
        obtain ⟨ty, len⟩ := e
        simp only [decItems] at h ⊢
        split at h
        · rename_i v bs1 hs
          rw [ihS _ _ _ _ _ hs g x hg]
          simp only []
          split at h
          · rename_i vs' bs2 hi
            rw [ihI _ _ _ _ hi g x hg]
            simp only [Res.ok.injEq, Prod.mk.injEq] at h ⊢
            exact ⟨h.1, by rw [h.2]⟩
          all_goals simp at h
        all_goals simp at h
    · intro ks es bs kvs rest h f' x hf
      obtain ⟨g, rfl⟩ : ∃ g, f' = g + 1 := ⟨f' - 1, by omega⟩
      have hg : f ≤ g := by omega
      cases ks with
      | nil =>
        simp only [decObjVals, Res.ok.injEq, Prod.mk.injEq] at h ⊢
        exact ⟨h.1, by rw [h.2]⟩
      | cons k ks =>
        cases es with
        | nil => simp [decObjVals] at h
        | cons e es =>
          obtain ⟨ty, len⟩ := e
          cases k with
          | str s =>
            simp only [decObjVals] at h ⊢
            split at h
            · rename_i v bs1 hs
              rw [ihS _ _ _ _ _ hs g x hg]
              simp only []
              split at h
              · rename_i kvs' bs2 ho
                rw [ihO _ _ _ _ _ ho g x hg]
                simp only [Res.ok.injEq, Prod.mk.injEq] at h ⊢
                exact ⟨h.1, by rw [h.2]⟩
              all_goals simp at h
            all_goals simp at h
          | _ => simp [decObjVals] at h

/-- **Buffer monotonicity**: extra bytes behind a successfully decoded document are left
untouched and do not change the decoded value. -/
theorem decJsonb_ext (fuel : Nat) (p : Bytes) (v : JV) (rest : Bytes)
    (h : decJsonb fuel p = .ok (v, rest)) (x : Bytes) :
    decJsonb fuel (p ++ x) = .ok (v, rest ++ x) :=
  (dec_mono fuel).1 p v rest h fuel x (Nat.le_refl _)

/-- **Fuel monotonicity** -/
theorem decJsonb_fuel_mono (f f' : Nat) (bs : Bytes) (r : JV × Bytes)
    (h : decJsonb f bs = .ok r) (hf : f ≤ f') : decJsonb f' bs = .ok r := by
  obtain ⟨v, rest⟩ := r
  have := (dec_mono f).1 bs v rest h f' [] hf
  simpa using this

/-! ### fuel adequacy for arbitrary input: the model never runs out of fuel -/

theorem Num.dec_ne_fuel (bs : Bytes) : Num.dec bs ≠ .fuel := by
  unfold Num.dec
  split
  · simp
  · simp only; repeat' split
    all_goals simp

/-- `|bs| + 1` fuel (plus one unit per pending entry for the loops) is always enough. -/
theorem dec_nofuel (fuel : Nat) :
    (∀ bs, bs.length + 1 ≤ fuel → decJsonb fuel bs ≠ .fuel) ∧
    (∀ ty len bs, bs.length + 2 ≤ fuel → decScalar fuel ty len bs ≠ .fuel) ∧
    (∀ es bs, es.length + bs.length + 3 ≤ fuel → decItems fuel es bs ≠ .fuel) ∧
    (∀ ks es bs, ks.length + bs.length + 3 ≤ fuel → decObjVals fuel ks es bs ≠ .fuel) := by
  induction fuel with
  | zero => refine ⟨?_, ?_, ?_, ?_⟩ <;> intros <;> omega
  | succ f ih =>
    obtain ⟨ihJ, ihS, ihI, ihO⟩ := ih
    refine ⟨?_, ?_, ?_, ?_⟩
    · intro bs hf
      simp only [decJsonb]
      split
      · simp
      · rename_i h bs1 hr1
        have l1 := (readU32_suffix _ _ _ hr1).2
        split
        · split
          · simp
          · split
            · simp
            · rename_i e bs2 hr2
              have l2 := (readU32_suffix _ _ _ hr2).2
              exact ihS _ _ _ (by omega)
        · split
          · split
            · simp
            · rename_i es bs2 hre
              have l2 := (readEntries_suffix _ _ _ _ hre).2
              have hlen := readEntries_length _ _ _ _ hre
              have := ihI es bs2 (by omega)
              split <;> simp_all
          · split
            · split
              · simp
              · rename_i es bs2 hre
                have l2 := (readEntries_suffix _ _ _ _ hre).2
                have hlen := readEntries_length _ _ _ _ hre
                have h1 := ihI (es.take (hdrLen h)) bs2 (by
                  rw [List.length_take]; omega)
                split
                · rename_i ks bs3 hk
                  have hkl := decItems_length _ _ _ _ _ hk
                  have l3 := ((dec_suffix f).2.2.1 _ _ _ _ hk).length_le
                  have h2 := ihO ks (es.drop (hdrLen h)) bs3 (by
                    rw [hkl, List.length_take]; omega)
                  split <;> simp_all
                all_goals simp_all
            · simp
    · intro ty len bs hf
      simp only [decScalar]
      repeat' split
      all_goals first
        | (simp; done)
        | exact ihJ _ (by omega)
        | (rename_i h; exact absurd h (Num.dec_ne_fuel _))
    · intro es bs hf
      cases es with
      | nil => simp [decItems]
      | cons e es =>
        obtain ⟨ty, len⟩ := e
        simp only [List.length_cons] at hf
        simp only [decItems]
        have h1 := ihS ty len bs (by omega)
        split
        · rename_i v bs1 hs
          have l1 := ((dec_suffix f).2.1 _ _ _ _ _ hs).length_le
          have h2 := ihI es bs1 (by omega)
          split <;> simp_all
        all_goals simp_all
    · intro ks es bs hf
      cases ks with
      | nil => simp [decObjVals]
      | cons k ks =>
        cases es with
        | nil => simp [decObjVals]
        | cons e es =>
          obtain ⟨ty, len⟩ := e
          simp only [List.length_cons] at hf
          simp only [decObjVals]
          split
          · have h1 := ihS ty len bs (by omega)
            split
            · rename_i v bs1 hs
              have l1 := ((dec_suffix f).2.1 _ _ _ _ _ hs).length_le
              have h2 := ihO ks es bs1 (by omega)
              split <;> simp_all
            all_goals simp_all
          · simp

theorem decJsonb_ne_fuel (fuel : Nat) (bs : Bytes) (hf : bs.length + 1 ≤ fuel) :
    decJsonb fuel bs ≠ .fuel :=
  (dec_nofuel fuel).1 bs hf

/-- **Fuel adequacy**: `decFuel` is enough for every byte string. -/
theorem parseJsonb_ne_fuel (bs : Bytes) : parseJsonb bs ≠ .fuel := by
  unfold parseJsonb
  split
  · simp
  · have := decJsonb_ne_fuel (decFuel bs) bs (by simp only [decFuel]; omega)
    split <;> simp_all

/-- **Totality of the model**: every byte string is either decoded or rejected with an
error (no panic, no fuel exhaustion). -/
theorem parseJsonb_ok_or_err (bs : Bytes) :
    (∃ v, parseJsonb bs = .ok v) ∨ (∃ e, parseJsonb bs = .err e) := by
  cases h : parseJsonb bs with
  | ok v => exact .inl ⟨v, rfl⟩
  | err e => exact .inr ⟨e, rfl⟩
  | panic s => exact absurd h (parseJsonb_ne_panic bs s)
  | fuel => exact absurd h (parseJsonb_ne_fuel bs)

/-! ### proper prefixes of a valid encoding are rejected -/

/-- the stream decoder on a valid document consumes it exactly (the `decJsonb`-level
statement behind `parseJsonb_encodeSpec`) -/
theorem decJsonb_encodeSpec (v : JV) (hg : goodTop v = true) :
    decJsonb (decFuel (encodeSpec v)) (encodeSpec v) = .ok (norm v, []) := by
  cases v with
  | arr vs =>
    simp only [goodTop, Bool.and_eq_true, decide_eq_true_eq] at hg
    have h := decJsonb_arr vs hg.1 hg.2 (decFuel (encodeSpec (arr vs))) (by
      have := szL_le vs
      simp only [decFuel, encodeSpec, entry, List.length_append, u32be_length, wordsL_length]
      omega) []
    simp only [List.append_nil] at h
    simp only [norm]; exact h
  | obj kvs =>
    simp only [goodTop, Bool.and_eq_true, decide_eq_true_eq] at hg
    have h := decJsonb_obj kvs hg.1.1 hg.1.2 hg.2 (decFuel (encodeSpec (obj kvs))) (by
      have := szK_le kvs
      simp only [decFuel, encodeSpec, entry, List.length_append, u32be_length, wordsK_length,
        keyWords_length]
      omega) []
    simp only [List.append_nil] at h
    simp only [norm]; exact h
  | null =>
    have h := decJsonb_scalarDoc null hg (by simp) (by simp) (decFuel (encodeSpec null))
      (by simp [decFuel]) []
    simp only [List.append_nil] at h
    exact h
  | bool b =>
    have h := decJsonb_scalarDoc (bool b) hg (by simp) (by simp) (decFuel (encodeSpec (bool b)))
      (by simp [decFuel]) []
    simp only [List.append_nil] at h
    exact h
  | num n =>
    have h := decJsonb_scalarDoc (num n) hg (by simp) (by simp) (decFuel (encodeSpec (num n)))
      (by simp [decFuel]) []
    simp only [List.append_nil] at h
    exact h
  | str s =>
    have h := decJsonb_scalarDoc (str s) hg (by simp) (by simp) (decFuel (encodeSpec (str s)))
      (by simp [decFuel]) []
    simp only [List.append_nil] at h
    exact h

/-- No proper prefix of a valid document decodes successfully, with any amount of fuel. -/
theorem prefix_not_ok (v : JV) (hg : goodTop v = true) (p : Bytes) (hp : p <+: encodeSpec v)
    (hne : p ≠ encodeSpec v) (fuel : Nat) (w : JV) (rest : Bytes) :
    decJsonb fuel p ≠ .ok (w, rest) := by
  intro hd
  obtain ⟨x, hx⟩ := hp
  have hx0 : x ≠ [] := by
    rintro rfl
    simp only [List.append_nil] at hx
    exact hne hx
  have h1 := (dec_mono fuel).1 p w rest hd (max fuel (decFuel (encodeSpec v))) x
    (Nat.le_max_left _ _)
  have h2 := decJsonb_fuel_mono _ (max fuel (decFuel (encodeSpec v))) _ _
    (decJsonb_encodeSpec v hg) (Nat.le_max_right _ _)
  rw [hx, h2] at h1
  simp only [Res.ok.injEq, Prod.mk.injEq] at h1
  have := h1.2.symm
  simp only [List.append_eq_nil_iff] at this
  exact hx0 this.2

/-- **Truncation is detected**: every proper prefix of a valid encoding is rejected by
`parse_jsonb` with an error (not accepted, no panic, no fuel exhaustion). -/
theorem prefix_rejected (v : JV) (hg : goodTop v = true) (p : Bytes) (hp : p <+: encodeSpec v)
    (hne : p ≠ encodeSpec v) : ∃ e, parseJsonb p = .err e := by
  rcases parseJsonb_ok_or_err p with ⟨w, hw⟩ | h
  · exfalso
    unfold parseJsonb at hw
    split at hw
    · simp at hw
    · split at hw
      · rename_i w' rest hd
        exact prefix_not_ok v hg p hp hne _ w' rest hd
      all_goals simp at hw
  · exact h

end Jsonb
