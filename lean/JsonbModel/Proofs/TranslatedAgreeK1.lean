/-
Agreement theorems, phase 7, part 1: the JSON-text step of the public dispatchers — `parse_value(t)?` followed by
`value.write_to_vec(&mut Vec::new())` is the model's `T.textToJsonb t` (the parser theorem of phase 6b and the encoder
theorem of phase 3 plugged together) — and the preconditions `DocOK` those two theorems force.
-/
import JsonbModel.Generated.Translated7
import JsonbModel.Proofs.TranslatedAgreeC
import JsonbModel.Proofs.TranslatedAgreeD
import JsonbModel.Proofs.TranslatedAgreeH
import JsonbModel.Proofs.TranslatedAgreeI
import JsonbModel.Proofs.TranslatedAgreeF
import JsonbModel.Functions.Text

set_option linter.unusedSimpArgs false
set_option linter.unusedVariables false

namespace Jsonb.TrAgree
open Jsonb.Rs

/-- the JSONB document a public function works on: the argument itself when it sniffs as JSONB, else the encoding of
the parsed text (`parse_value(value)?.write_to_vec(..)`) -/
def docBytes (value : Bytes) : Res Bytes := if isJsonb value then .ok value else T.textToJsonb value

/-- what the parser theorem (phase 6b: input below `2^63` bytes, fuel), the encoder theorem (phase 3: numbers are values
of their Rust types, nesting within the fuel, sizes below `2^64`) and the `_jsonb` theorems (phases 4 / 6c: the
document is shorter than `2^60` bytes) ask of a document argument -/
structure DocOK (fuel : Nat) (value : Bytes) : Prop where
  text : isJsonb value = false → value.length < 9223372036854775808 ∧ JP.fuelFor value ≤ fuel ∧
    ∀ v, parseValue value = .ok v → numsWF v ∧ 2 * depth v < fuel ∧ 8 + encSize v < 18446744073709551616
  len : ∀ b, docBytes value = .ok b → b.length < 1152921504606846976

theorem docBytes_jsonb (value : Bytes) (hj : isJsonb value = true) : docBytes value = .ok value := by
  simp [docBytes, hj]

theorem docBytes_text (value : Bytes) (hj : isJsonb value = false) : docBytes value = T.textToJsonb value := by
  simp [docBytes, hj]

theorem viaJsonb1_doc {α} (f : Bytes → Res α) (value : Bytes) : T.viaJsonb1 f value = (docBytes value).bind f := by
  unfold T.viaJsonb1 docBytes
  cases isJsonb value <;> simp [Res.bind]

theorem viaJsonb2_doc {α} (f : Bytes → Bytes → Res α) (a b : Bytes) :
    T.viaJsonb2 f a b = (docBytes a).bind (fun a' => (docBytes b).bind (f a')) := by
  unfold T.viaJsonb2 docBytes
  cases isJsonb a <;> cases isJsonb b <;> simp [Res.bind]

/-- **the text step**: `let v = parse_value(t)?; let mut b = Vec::new(); v.write_to_vec(&mut b);` -/
theorem text_step {ρ β : Type} (fuel : Nat) (t : Bytes) (hj : isJsonb t = false) (h : DocOK fuel t)
    (k : Bytes → Ctl ρ β) :
    ((Ctl.ofRes (Tr.parse_value fuel t) : Ctl ρ Tr.Value) >>= fun v =>
        (Ctl.ofRes (Tr.Value.write_to_vec fuel v ([] : Bytes)) : Ctl ρ Bytes) >>= k) =
      ((Ctl.ofRes (docBytes t) : Ctl ρ Bytes) >>= k) := by
  obtain ⟨hlen, hpf, hv⟩ := h.text hj
  rw [parse_value_agrees t hlen fuel hpf, docBytes_text t hj]
  unfold T.textToJsonb T.enc toVec
  cases hp : parseValue t with
  | ok v =>
    obtain ⟨hwf, hd, hs⟩ := hv v hp
    simp only [Res.map, Res.bind, Ctl.ofRes_ok', Ctl.val_bind']
    rw [write_to_vec_agrees v [] fuel hd hwf (by simpa using hs)]
  | err e => rfl
  | panic s => rfl
  | fuel => rfl

/-- the tail `f(..)` of a dispatcher (`let buf ← f ..; return Ok(buf)`) -/
theorem run_tail {ρ : Type} (r : Res ρ) : Ctl.run ((Ctl.ofRes r : Ctl ρ ρ) >>= fun x => Ctl.ret (Res.ok x)) = r := by
  cases r <;> rfl

theorem run_tail_ret {ρ α : Type} (r : Res ρ) (k : α → Ctl ρ ρ) : Ctl.run ((Ctl.ret r : Ctl ρ α) >>= k) = r := rfl

theorem panicAny_bind_congr {α β : Type} (r : Res α) (f g : α → Res β) (h : ∀ a, r = .ok a → panicAny (f a) = panicAny (g a)) :
    panicAny (r.bind f) = panicAny (r.bind g) := by
  cases r with
  | ok a => exact h a rfl
  | err e => rfl
  | panic s => rfl
  | fuel => rfl

end Jsonb.TrAgree
