/-
Laws of PostgreSQL-style containment `Spec.contains` (`@>`) and of value equality `Spec.valEq`:
fuel adequacy, a fuel-free characterisation, scalar equality = compare-equality,
reflexivity, transitivity, the structural rules (order / multiplicity are ignored).
-/
import JsonbModel.Spec.Order
import JsonbModel.Proofs.NumOrd
import JsonbModel.Proofs.Codec

namespace Jsonb.Spec
open JV

/-! ## 0. Sizes, lookup -/

theorem sizeJ_pos (v : JV) : 1 ≤ sizeJ v := by
  cases v <;> simp [sizeJ]

theorem lookup_mem {k : Bytes} {kvs : List (Bytes × JV)} {v : JV}
    (h : lookup k kvs = some v) : (k, v) ∈ kvs := by
  induction kvs with
  | nil => simp [lookup] at h
  | cons kv kvs ih =>
    obtain ⟨k', v'⟩ := kv
    simp only [lookup] at h
    split at h
    · rename_i hk
      have hk' : k' = k := by simpa using hk
      simp only [Option.some.injEq] at h
      subst hk'; subst h; simp
    · exact List.mem_cons_of_mem _ (ih h)

theorem lookup_size {k : Bytes} {kvs : List (Bytes × JV)} {v : JV}
    (h : lookup k kvs = some v) : sizeJ v ≤ sizeK kvs := by
  induction kvs with
  | nil => simp [lookup] at h
  | cons kv kvs ih =>
    obtain ⟨k', v'⟩ := kv
    simp only [lookup] at h
    split at h
    · simp only [Option.some.injEq] at h
      subst h; simp only [sizeK]; omega
    · have := ih h
      simp only [sizeK]; omega

/-- with strictly increasing (hence unique) keys, every member is found under its key -/
theorem lookup_of_sorted {kvs : List (Bytes × JV)} (hs : keysSorted kvs = true)
    {k : Bytes} {v : JV} (hm : (k, v) ∈ kvs) : lookup k kvs = some v := by
  induction kvs with
  | nil => simp at hm
  | cons kv kvs ih =>
    obtain ⟨k', v'⟩ := kv
    obtain ⟨hs', hlt⟩ := keysSorted_cons hs
    simp only [List.mem_cons] at hm
    cases hm with
    | inl e =>
      simp only [Prod.mk.injEq] at e
      obtain ⟨e1, e2⟩ := e
      subst e1; subst e2
      simp [lookup]
    | inr hm =>
      have h1 := hlt (k, v) hm
      have hne : (k' == k) = false := by
        cases hb : (k' == k) with
        | false => rfl
        | true =>
          have : k' = k := by simpa using hb
          subst this
          rw [lexCmp_refl] at h1
          cases h1
      simp only [lookup, hne]
      exact ih hs' hm

/-! ## 1. A fuel-free reference relation -/

mutual
/-- `Cont l r`: `l` contains `r` at a nested (non-top) position -/
def Cont : JV → JV → Prop
  | l, arr rs => ∃ ls, l = arr ls ∧ ContAll ls rs
  | l, obj rk => ∃ lk, l = obj lk ∧ ContMem lk rk
  | l, r => isScalarJ l = true ∧ valEq l r = true
def ContAll : List JV → List JV → Prop
  | _, [] => True
  | ls, r :: rs =>
    (if isScalarJ r = true then ∃ x ∈ ls, valEq x r = true
     else ∃ x ∈ ls, isScalarJ x = false ∧ Cont x r) ∧ ContAll ls rs
def ContMem : List (Bytes × JV) → List (Bytes × JV) → Prop
  | _, [] => True
  | lk, (k, r) :: rk =>
    (∃ l, lookup k lk = some l ∧ sameKind l r = true ∧
      (if isScalarJ r = true then valEq l r = true else Cont l r)) ∧ ContMem lk rk
end

/-- the right element `r` is matched by some element of `ls` -/
def ElemIn (ls : List JV) (r : JV) : Prop :=
  if isScalarJ r = true then ∃ x ∈ ls, valEq x r = true
  else ∃ x ∈ ls, isScalarJ x = false ∧ Cont x r

/-- the right member `(k, r)` is contained in the left member list under the same key -/
def MemIn (lk : List (Bytes × JV)) (k : Bytes) (r : JV) : Prop :=
  ∃ l, lookup k lk = some l ∧ sameKind l r = true ∧
    (if isScalarJ r = true then valEq l r = true else Cont l r)

/-- containment at the top level (`top = true`) or nested (`top = false`) -/
def TopCont (top : Bool) (l r : JV) : Prop :=
  Cont l r ∨ (top = true ∧ isScalarJ r = true ∧ ∃ ls, l = arr ls ∧ ∃ x ∈ ls, valEq x r = true)

theorem ContAll_nil (ls : List JV) : ContAll ls [] := by simp [ContAll]
theorem ContAll_cons (ls : List JV) (r : JV) (rs : List JV) :
    ContAll ls (r :: rs) ↔ ElemIn ls r ∧ ContAll ls rs := by
  simp only [ContAll, ElemIn]
theorem ContMem_nil (lk : List (Bytes × JV)) : ContMem lk [] := by simp [ContMem]
theorem ContMem_cons (lk : List (Bytes × JV)) (k : Bytes) (r : JV) (rk : List (Bytes × JV)) :
    ContMem lk ((k, r) :: rk) ↔ MemIn lk k r ∧ ContMem lk rk := by
  simp only [ContMem, MemIn]

theorem ContAll_iff (ls rs : List JV) : ContAll ls rs ↔ ∀ r ∈ rs, ElemIn ls r := by
  induction rs with
  | nil => simp [ContAll_nil]
  | cons r rs ih => simp [ContAll_cons, ih]

theorem ContMem_iff (lk rk : List (Bytes × JV)) :
    ContMem lk rk ↔ ∀ kr ∈ rk, MemIn lk kr.1 kr.2 := by
  induction rk with
  | nil => simp [ContMem_nil]
  | cons kr rk ih => obtain ⟨k, r⟩ := kr; simp [ContMem_cons, ih]

theorem Cont_arr (l : JV) (rs : List JV) : Cont l (arr rs) ↔ ∃ ls, l = arr ls ∧ ContAll ls rs := by
  simp only [Cont]
theorem Cont_obj (l : JV) (rk : List (Bytes × JV)) :
    Cont l (obj rk) ↔ ∃ lk, l = obj lk ∧ ContMem lk rk := by
  simp only [Cont]
theorem Cont_scalar (l r : JV) (h : isScalarJ r = true) :
    Cont l r ↔ isScalarJ l = true ∧ valEq l r = true := by
  cases r <;> simp [isScalarJ] at h <;> simp only [Cont]

/-! ## 2. The fuel-indexed functions against the reference relation -/

theorem containsJV_succ_iff (f : Nat) (top : Bool) (l r : JV) :
    containsJV (f + 1) top l r = true ↔
      (∃ ls rs, l = arr ls ∧ r = arr rs ∧ containsAll f ls rs = true) ∨
      (∃ lk rk, l = obj lk ∧ r = obj rk ∧ containsMembers f lk rk = true) ∨
      (top = true ∧ isScalarJ r = true ∧ ∃ ls, l = arr ls ∧ ∃ x ∈ ls, valEq x r = true) ∨
      (isScalarJ l = true ∧ isScalarJ r = true ∧ valEq l r = true) := by
  cases l <;> cases r <;> simp [containsJV, isScalarJ]

theorem containsAll_succ_cons (f : Nat) (ls : List JV) (r : JV) (rs : List JV) :
    containsAll (f + 1) ls (r :: rs) = true ↔
      (if isScalarJ r = true then ∃ x ∈ ls, valEq x r = true else containsSome f ls r = true) ∧
      containsAll f ls rs = true := by
  simp only [containsAll]
  split <;> simp

theorem containsSome_succ_cons (f : Nat) (l : JV) (ls : List JV) (r : JV) :
    containsSome (f + 1) (l :: ls) r = true ↔
      (isScalarJ l = false ∧ containsJV f false l r = true) ∨ containsSome f ls r = true := by
  simp [containsSome]

theorem containsMembers_succ_cons (f : Nat) (lk : List (Bytes × JV)) (k : Bytes) (r : JV)
    (rk : List (Bytes × JV)) :
    containsMembers (f + 1) lk ((k, r) :: rk) = true ↔
      (∃ l, lookup k lk = some l ∧ sameKind l r = true ∧
        (if isScalarJ r = true then valEq l r = true else containsJV f false l r = true)) ∧
      containsMembers f lk rk = true := by
  simp only [containsMembers]
  cases lookup k lk with
  | none => simp
  | some l => by_cases h : isScalarJ r = true <;> simp [h]

theorem TopCont_false (l r : JV) : TopCont false l r ↔ Cont l r := by simp [TopCont]

theorem isScalarJ_arr (vs : List JV) : isScalarJ (arr vs) = false := rfl
theorem isScalarJ_obj (kvs : List (Bytes × JV)) : isScalarJ (obj kvs) = false := rfl

/-- soundness of the four fuel-indexed functions, for every fuel -/
theorem contains_sound (f : Nat) :
    (∀ top l r, containsJV f top l r = true → TopCont top l r) ∧
    (∀ ls rs, containsAll f ls rs = true → ContAll ls rs) ∧
    (∀ ls r, containsSome f ls r = true → ∃ x ∈ ls, isScalarJ x = false ∧ Cont x r) ∧
    (∀ lk rk, containsMembers f lk rk = true → ContMem lk rk) := by
  induction f with
  | zero => simp [containsJV, containsAll, containsSome, containsMembers]
  | succ f ih =>
    obtain ⟨ihJ, ihA, ihS, ihM⟩ := ih
    refine ⟨?_, ?_, ?_, ?_⟩
    · intro top l r h
      rcases (containsJV_succ_iff f top l r).1 h with
        ⟨ls, rs, rfl, rfl, h⟩ | ⟨lk, rk, rfl, rfl, h⟩ | ⟨ht, hr, ls, rfl, hx⟩ | ⟨hl, hr, hv⟩
      · exact Or.inl ((Cont_arr _ _).2 ⟨ls, rfl, ihA _ _ h⟩)
      · exact Or.inl ((Cont_obj _ _).2 ⟨lk, rfl, ihM _ _ h⟩)
      · exact Or.inr ⟨ht, hr, ls, rfl, hx⟩
      · exact Or.inl ((Cont_scalar _ _ hr).2 ⟨hl, hv⟩)
    · intro ls rs h
      cases rs with
      | nil => exact ContAll_nil _
      | cons r rs =>
        rw [containsAll_succ_cons] at h
        rw [ContAll_cons]
        refine ⟨?_, ihA _ _ h.2⟩
        have h1 := h.1
        unfold ElemIn
        by_cases hr : isScalarJ r = true
        · simpa [hr] using h1
        · simp only [hr] at h1 ⊢
          exact ihS _ _ h1
    · intro ls r h
      cases ls with
      | nil => simp [containsSome] at h
      | cons l ls =>
        rw [containsSome_succ_cons] at h
        rcases h with ⟨hl, h⟩ | h
        · exact ⟨l, by simp, hl, (TopCont_false _ _).1 (ihJ _ _ _ h)⟩
        · obtain ⟨x, hx, hs, hc⟩ := ihS _ _ h
          exact ⟨x, List.mem_cons_of_mem _ hx, hs, hc⟩
    · intro lk rk h
      cases rk with
      | nil => exact ContMem_nil _
      | cons kr rk =>
        obtain ⟨k, r⟩ := kr
        rw [containsMembers_succ_cons] at h
        rw [ContMem_cons]
        refine ⟨?_, ihM _ _ h.2⟩
        obtain ⟨l, hlk, hsk, hc⟩ := h.1
        refine ⟨l, hlk, hsk, ?_⟩
        by_cases hr : isScalarJ r = true
        · simpa [hr] using hc
        · simp only [hr] at hc ⊢
          exact (TopCont_false _ _).1 (ihJ _ _ _ hc)

/-- completeness of the four fuel-indexed functions above an explicit size bound -/
theorem contains_complete (f : Nat) :
    (∀ top l r, TopCont top l r → 2 * (sizeJ l + sizeJ r) ≤ f → containsJV f top l r = true) ∧
    (∀ ls rs, ContAll ls rs → 2 * (sizeL ls + sizeL rs) + 3 ≤ f → containsAll f ls rs = true) ∧
    (∀ ls r, (∃ x ∈ ls, isScalarJ x = false ∧ Cont x r) → 2 * (sizeL ls + sizeJ r) + 1 ≤ f →
      containsSome f ls r = true) ∧
    (∀ lk rk, ContMem lk rk → 2 * (sizeK lk + sizeK rk) + 3 ≤ f →
      containsMembers f lk rk = true) := by
  induction f with
  | zero =>
    refine ⟨?_, ?_, ?_, ?_⟩
    · intro top l r _ h
      have := sizeJ_pos l
      omega
    · intro _ _ _ h; omega
    · intro _ _ _ h; omega
    · intro _ _ _ h; omega
  | succ f ih =>
    obtain ⟨ihJ, ihA, ihS, ihM⟩ := ih
    refine ⟨?_, ?_, ?_, ?_⟩
    · intro top l r h hf
      rw [containsJV_succ_iff]
      rcases h with h | ⟨ht, hr, ls, rfl, hx⟩
      · cases r with
        | arr rs =>
          obtain ⟨ls, rfl, h'⟩ := (Cont_arr _ _).1 h
          refine Or.inl ⟨ls, rs, rfl, rfl, ihA _ _ h' ?_⟩
          simp only [sizeJ] at hf; omega
        | obj rk =>
          obtain ⟨lk, rfl, h'⟩ := (Cont_obj _ _).1 h
          refine Or.inr (Or.inl ⟨lk, rk, rfl, rfl, ihM _ _ h' ?_⟩)
          simp only [sizeJ] at hf; omega
        | null => exact Or.inr (Or.inr (Or.inr ⟨((Cont_scalar _ _ rfl).1 h).1, rfl, ((Cont_scalar _ _ rfl).1 h).2⟩))
        | bool b => exact Or.inr (Or.inr (Or.inr ⟨((Cont_scalar _ _ rfl).1 h).1, rfl, ((Cont_scalar _ _ rfl).1 h).2⟩))
        | num n => exact Or.inr (Or.inr (Or.inr ⟨((Cont_scalar _ _ rfl).1 h).1, rfl, ((Cont_scalar _ _ rfl).1 h).2⟩))
        | str s => exact Or.inr (Or.inr (Or.inr ⟨((Cont_scalar _ _ rfl).1 h).1, rfl, ((Cont_scalar _ _ rfl).1 h).2⟩))
      · exact Or.inr (Or.inr (Or.inl ⟨ht, hr, ls, rfl, hx⟩))
    · intro ls rs h hf
      cases rs with
      | nil => simp [containsAll]
      | cons r rs =>
        rw [ContAll_cons] at h
        rw [containsAll_succ_cons]
        have hr1 := sizeJ_pos r
        simp only [sizeL] at hf
        refine ⟨?_, ihA _ _ h.2 (by omega)⟩
        have h1 := h.1
        unfold ElemIn at h1
        by_cases hr : isScalarJ r = true
        · simpa [hr] using h1
        · simp only [hr] at h1 ⊢
          exact ihS _ _ h1 (by omega)
    · intro ls r h hf
      obtain ⟨x, hx, hs, hc⟩ := h
      cases ls with
      | nil => simp at hx
      | cons l ls =>
        rw [containsSome_succ_cons]
        have hl1 := sizeJ_pos l
        simp only [sizeL] at hf
        simp only [List.mem_cons] at hx
        rcases hx with rfl | hx
        · exact Or.inl ⟨hs, ihJ _ _ _ ((TopCont_false _ _).2 hc) (by omega)⟩
        · exact Or.inr (ihS _ _ ⟨x, hx, hs, hc⟩ (by omega))
    · intro lk rk h hf
      cases rk with
      | nil => simp [containsMembers]
      | cons kr rk =>
        obtain ⟨k, r⟩ := kr
        rw [ContMem_cons] at h
        rw [containsMembers_succ_cons]
        have hr1 := sizeJ_pos r
        simp only [sizeK] at hf
        refine ⟨?_, ihM _ _ h.2 (by omega)⟩
        obtain ⟨l, hlk, hsk, hc⟩ := h.1
        refine ⟨l, hlk, hsk, ?_⟩
        have := lookup_size hlk
        by_cases hr : isScalarJ r = true
        · simpa [hr] using hc
        · simp only [hr] at hc ⊢
          exact ihJ _ _ _ ((TopCont_false _ _).2 hc) (by omega)

/-- **Fuel-free characterisation**: above the bound `2 * (sizeJ l + sizeJ r)` the fuel-indexed
function decides the reference relation. -/
theorem containsJV_iff {f : Nat} {top : Bool} {l r : JV} (hf : 2 * (sizeJ l + sizeJ r) ≤ f) :
    containsJV f top l r = true ↔ TopCont top l r :=
  ⟨(contains_sound f).1 top l r, fun h => (contains_complete f).1 top l r h hf⟩

/-- **Fuel adequacy**: any two fuels above the bound give the same answer. -/
theorem containsJV_fuel_irrel {f f' : Nat} (top : Bool) (l r : JV)
    (hf : 2 * (sizeJ l + sizeJ r) ≤ f) (hf' : 2 * (sizeJ l + sizeJ r) ≤ f') :
    containsJV f top l r = containsJV f' top l r :=
  Bool.eq_iff_iff.2 ((containsJV_iff hf).trans (containsJV_iff hf').symm)

/-- one more unit of fuel never turns a positive answer negative -/
theorem contains_mono_step (f : Nat) :
    (∀ top l r, containsJV f top l r = true → containsJV (f + 1) top l r = true) ∧
    (∀ ls rs, containsAll f ls rs = true → containsAll (f + 1) ls rs = true) ∧
    (∀ ls r, containsSome f ls r = true → containsSome (f + 1) ls r = true) ∧
    (∀ lk rk, containsMembers f lk rk = true → containsMembers (f + 1) lk rk = true) := by
  induction f with
  | zero => simp [containsJV, containsAll, containsSome, containsMembers]
  | succ f ih =>
    obtain ⟨ihJ, ihA, ihS, ihM⟩ := ih
    refine ⟨?_, ?_, ?_, ?_⟩
    · intro top l r h
      rw [containsJV_succ_iff] at h ⊢
      rcases h with ⟨ls, rs, rfl, rfl, h⟩ | ⟨lk, rk, rfl, rfl, h⟩ | h | h
      · exact Or.inl ⟨ls, rs, rfl, rfl, ihA _ _ h⟩
      · exact Or.inr (Or.inl ⟨lk, rk, rfl, rfl, ihM _ _ h⟩)
      · exact Or.inr (Or.inr (Or.inl h))
      · exact Or.inr (Or.inr (Or.inr h))
    · intro ls rs h
      cases rs with
      | nil => simp [containsAll]
      | cons r rs =>
        rw [containsAll_succ_cons] at h ⊢
        refine ⟨?_, ihA _ _ h.2⟩
        have h1 := h.1
        by_cases hr : isScalarJ r = true
        · simpa [hr] using h1
        · simp only [hr] at h1 ⊢
          exact ihS _ _ h1
    · intro ls r h
      cases ls with
      | nil => simp [containsSome] at h
      | cons l ls =>
        rw [containsSome_succ_cons] at h ⊢
        rcases h with ⟨hl, h⟩ | h
        · exact Or.inl ⟨hl, ihJ _ _ _ h⟩
        · exact Or.inr (ihS _ _ h)
    · intro lk rk h
      cases rk with
      | nil => simp [containsMembers]
      | cons kr rk =>
        obtain ⟨k, r⟩ := kr
        rw [containsMembers_succ_cons] at h ⊢
        refine ⟨?_, ihM _ _ h.2⟩
        obtain ⟨l, hlk, hsk, hc⟩ := h.1
        refine ⟨l, hlk, hsk, ?_⟩
        by_cases hr : isScalarJ r = true
        · simpa [hr] using hc
        · simp only [hr] at hc ⊢
          exact ihJ _ _ _ hc

/-- **Monotonicity**: a positive answer survives any increase of the fuel. -/
theorem containsJV_mono {f f' : Nat} {top : Bool} {l r : JV} (hle : f ≤ f')
    (h : containsJV f top l r = true) : containsJV f' top l r = true := by
  induction hle with
  | refl => exact h
  | step _ ih => exact (contains_mono_step _).1 _ _ _ ih

/-- `Spec.contains` decides the reference relation -/
theorem contains_iff (l r : JV) : contains l r = true ↔ TopCont true l r :=
  containsJV_iff (by omega)

/-- `Spec.contains` does not depend on its fuel constant -/
theorem contains_eq_fuel (l r : JV) {f : Nat} (hf : 2 * (sizeJ l + sizeJ r) ≤ f) :
    contains l r = containsJV f true l r :=
  containsJV_fuel_irrel true l r (by omega) hf

/-- the bound is tight up to the constant factor: `sizeJ l + sizeJ r + 2` units of fuel are NOT
enough (each nesting level of arrays costs three units of fuel but only two of size) -/
example :
    let a := arr [arr [arr [arr []]]]
    containsJV (sizeJ a + sizeJ a + 2) true a a = false ∧ contains a a = true := by decide

/-! ## 3. Value equality -/

mutual
/-- every number in the tree is well-formed (`i64` / `u64` / a 64-bit pattern) -/
def numsWF : JV → Bool
  | num n => decide n.WF
  | arr vs => numsWFL vs
  | obj kvs => numsWFK kvs
  | _ => true
def numsWFL : List JV → Bool
  | [] => true
  | v :: vs => numsWF v && numsWFL vs
def numsWFK : List (Bytes × JV) → Bool
  | [] => true
  | (_, v) :: kvs => numsWF v && numsWFK kvs
end

mutual
/-- object keys strictly increasing (hence unique) at every level -/
def keysOK : JV → Bool
  | arr vs => keysOKL vs
  | obj kvs => keysSorted kvs && keysOKK kvs
  | _ => true
def keysOKL : List JV → Bool
  | [] => true
  | v :: vs => keysOK v && keysOKL vs
def keysOKK : List (Bytes × JV) → Bool
  | [] => true
  | (_, v) :: kvs => keysOK v && keysOKK kvs
end

mutual
theorem numsWF_of_good : (v : JV) → good v = true → numsWF v = true
  | null, _ => rfl
  | JV.bool _, _ => rfl
  | num n, h => by simpa [good, numsWF] using h
  | str _, _ => rfl
  | arr vs, h => by
    simp only [good, Bool.and_eq_true] at h
    simpa [numsWF] using numsWFL_of_goodL vs h.2
  | obj kvs, h => by
    simp only [good, Bool.and_eq_true] at h
    simpa [numsWF] using numsWFK_of_goodK kvs h.2
theorem numsWFL_of_goodL : (vs : List JV) → goodL vs = true → numsWFL vs = true
  | [], _ => rfl
  | v :: vs, h => by
    simp only [goodL, Bool.and_eq_true] at h
    simp [numsWFL, numsWF_of_good v h.1, numsWFL_of_goodL vs h.2]
theorem numsWFK_of_goodK : (kvs : List (Bytes × JV)) → goodK kvs = true → numsWFK kvs = true
  | [], _ => rfl
  | (k, v) :: kvs, h => by
    simp only [goodK, Bool.and_eq_true] at h
    simp [numsWFK, numsWF_of_good v h.1.2, numsWFK_of_goodK kvs h.2]
end

mutual
theorem keysOK_of_good : (v : JV) → good v = true → keysOK v = true
  | null, _ => rfl
  | JV.bool _, _ => rfl
  | num _, _ => rfl
  | str _, _ => rfl
  | arr vs, h => by
    simp only [good, Bool.and_eq_true] at h
    simpa [keysOK] using keysOKL_of_goodL vs h.2
  | obj kvs, h => by
    simp only [good, Bool.and_eq_true] at h
    simp [keysOK, h.1.2, keysOKK_of_goodK kvs h.2]
theorem keysOKL_of_goodL : (vs : List JV) → goodL vs = true → keysOKL vs = true
  | [], _ => rfl
  | v :: vs, h => by
    simp only [goodL, Bool.and_eq_true] at h
    simp [keysOKL, keysOK_of_good v h.1, keysOKL_of_goodL vs h.2]
theorem keysOKK_of_goodK : (kvs : List (Bytes × JV)) → goodK kvs = true → keysOKK kvs = true
  | [], _ => rfl
  | (k, v) :: kvs, h => by
    simp only [goodK, Bool.and_eq_true] at h
    simp [keysOKK, keysOK_of_good v h.1.2, keysOKK_of_goodK kvs h.2]
end

theorem numsWFL_mem {vs : List JV} (h : numsWFL vs = true) {v : JV} (hv : v ∈ vs) :
    numsWF v = true := by
  induction vs with
  | nil => simp at hv
  | cons a as ih =>
    simp only [numsWFL, Bool.and_eq_true] at h
    simp only [List.mem_cons] at hv
    rcases hv with rfl | hv
    · exact h.1
    · exact ih h.2 hv

theorem numsWFK_mem {kvs : List (Bytes × JV)} (h : numsWFK kvs = true) {k : Bytes} {v : JV}
    (hv : (k, v) ∈ kvs) : numsWF v = true := by
  induction kvs with
  | nil => simp at hv
  | cons a as ih =>
    obtain ⟨k', v'⟩ := a
    simp only [numsWFK, Bool.and_eq_true] at h
    simp only [List.mem_cons, Prod.mk.injEq] at hv
    rcases hv with ⟨rfl, rfl⟩ | hv
    · exact h.1
    · exact ih h.2 hv

theorem keysOKL_mem {vs : List JV} (h : keysOKL vs = true) {v : JV} (hv : v ∈ vs) :
    keysOK v = true := by
  induction vs with
  | nil => simp at hv
  | cons a as ih =>
    simp only [keysOKL, Bool.and_eq_true] at h
    simp only [List.mem_cons] at hv
    rcases hv with rfl | hv
    · exact h.1
    · exact ih h.2 hv

theorem keysOKK_mem {kvs : List (Bytes × JV)} (h : keysOKK kvs = true) {k : Bytes} {v : JV}
    (hv : (k, v) ∈ kvs) : keysOK v = true := by
  induction kvs with
  | nil => simp at hv
  | cons a as ih =>
    obtain ⟨k', v'⟩ := a
    simp only [keysOKK, Bool.and_eq_true] at h
    simp only [List.mem_cons, Prod.mk.injEq] at hv
    rcases hv with ⟨rfl, rfl⟩ | hv
    · exact h.1
    · exact ih h.2 hv

/-! ### `valEq` is exactly compare-equality (all trees, no side condition) -/

mutual
theorem valEq_iff_cmpJV : (a b : JV) → (valEq a b = true ↔ cmpJV a b = .eq)
  | arr as, arr bs => by simpa [valEq, cmpJV] using valEqL_iff_cmpL as bs
  | obj as, obj bs => by simpa [valEq, cmpJV] using valEqK_iff_cmpK as bs
  | null, b => by
    cases b with
    | bool y => cases y <;> simp [valEq, cmpJV, rank]
    | _ => simp [valEq, cmpJV, rank]
  | JV.bool x, b => by
    cases b with
    | bool y => cases y <;> cases x <;> simp [valEq, cmpJV, rank]
    | _ => cases x <;> simp [valEq, cmpJV, rank]
  | num x, b => by
    cases b with
    | bool y => cases y <;> simp [valEq, cmpJV, rank]
    | _ => simp [valEq, cmpJV, rank]
  | str x, b => by
    cases b with
    | bool y => cases y <;> simp [valEq, cmpJV, rank]
    | _ => simp [valEq, cmpJV, rank, lexCmp_eq_iff]
  | arr as, null => by simp [valEq, cmpJV, rank]
  | arr as, JV.bool x => by cases x <;> simp [valEq, cmpJV, rank]
  | arr as, num _ => by simp [valEq, cmpJV, rank]
  | arr as, str _ => by simp [valEq, cmpJV, rank]
  | arr as, obj _ => by simp [valEq, cmpJV, rank]
  | obj as, null => by simp [valEq, cmpJV, rank]
  | obj as, JV.bool x => by cases x <;> simp [valEq, cmpJV, rank]
  | obj as, num _ => by simp [valEq, cmpJV, rank]
  | obj as, str _ => by simp [valEq, cmpJV, rank]
  | obj as, arr _ => by simp [valEq, cmpJV, rank]
theorem valEqL_iff_cmpL : (as bs : List JV) → (valEqL as bs = true ↔ cmpL as bs = .eq)
  | [], [] => by simp [valEqL, cmpL]
  | [], _ :: _ => by simp [valEqL, cmpL]
  | _ :: _, [] => by simp [valEqL, cmpL]
  | a :: as, b :: bs => by
    have h1 := valEq_iff_cmpJV a b
    have h2 := valEqL_iff_cmpL as bs
    simp only [valEqL, cmpL, Bool.and_eq_true, h1, h2]
    cases cmpJV a b <;> simp
theorem valEqK_iff_cmpK : (as bs : List (Bytes × JV)) → (valEqK as bs = true ↔ cmpK as bs = .eq)
  | [], [] => by simp [valEqK, cmpK]
  | [], _ :: _ => by simp [valEqK, cmpK]
  | _ :: _, [] => by simp [valEqK, cmpK]
  | (ka, a) :: as, (kb, b) :: bs => by
    have h1 := valEq_iff_cmpJV a b
    have h2 := valEqK_iff_cmpK as bs
    have h3 := lexCmp_eq_iff ka kb
    simp only [valEqK, cmpK, Bool.and_eq_true, h1, h2, beq_iff_eq, ← h3]
    cases lexCmp ka kb <;> cases cmpJV a b <;> simp
end

/-! ### `valEq` is an equivalence relation on trees with well-formed numbers -/

theorem numCmp_eq_comm (a b : Num) (ha : a.WF) (hb : b.WF) :
    (Num.cmp b a == .eq) = (Num.cmp a b == .eq) := by
  rw [Num.cmp_antisymm a b ha hb]
  cases Num.cmp a b <;> rfl

mutual
theorem valEq_refl : (a : JV) → numsWF a = true → valEq a a = true
  | null, _ => rfl
  | JV.bool _, _ => by simp [valEq]
  | num n, h => by
    simp only [numsWF, decide_eq_true_eq] at h
    simp [valEq, Num.cmp_refl n h]
  | str _, _ => by simp [valEq]
  | arr vs, h => by simpa [valEq] using valEqL_refl vs (by simpa [numsWF] using h)
  | obj kvs, h => by simpa [valEq] using valEqK_refl kvs (by simpa [numsWF] using h)
theorem valEqL_refl : (as : List JV) → numsWFL as = true → valEqL as as = true
  | [], _ => rfl
  | a :: as, h => by
    simp only [numsWFL, Bool.and_eq_true] at h
    simp [valEqL, valEq_refl a h.1, valEqL_refl as h.2]
theorem valEqK_refl : (as : List (Bytes × JV)) → numsWFK as = true → valEqK as as = true
  | [], _ => rfl
  | (k, a) :: as, h => by
    simp only [numsWFK, Bool.and_eq_true] at h
    simp [valEqK, valEq_refl a h.1, valEqK_refl as h.2]
end

mutual
theorem valEq_comm : (a b : JV) → numsWF a = true → numsWF b = true → valEq b a = valEq a b
  | arr as, arr bs, ha, hb => by
    simpa [valEq] using valEqL_comm as bs (by simpa [numsWF] using ha) (by simpa [numsWF] using hb)
  | obj as, obj bs, ha, hb => by
    simpa [valEq] using valEqK_comm as bs (by simpa [numsWF] using ha) (by simpa [numsWF] using hb)
  | num x, num y, ha, hb => by
    simp only [numsWF, decide_eq_true_eq] at ha hb
    simpa [valEq] using numCmp_eq_comm x y ha hb
  | null, b, _, _ => by cases b <;> simp [valEq]
  | JV.bool x, b, _, _ => by cases b <;> simp [valEq, Bool.beq_comm]
  | str x, b, _, _ => by cases b <;> simp [valEq, eq_comm]
  | num x, null, _, _ => by simp [valEq]
  | num x, JV.bool _, _, _ => by simp [valEq]
  | num x, str _, _, _ => by simp [valEq]
  | num x, arr _, _, _ => by simp [valEq]
  | num x, obj _, _, _ => by simp [valEq]
  | arr as, null, _, _ => by simp [valEq]
  | arr as, JV.bool _, _, _ => by simp [valEq]
  | arr as, num _, _, _ => by simp [valEq]
  | arr as, str _, _, _ => by simp [valEq]
  | arr as, obj _, _, _ => by simp [valEq]
  | obj as, null, _, _ => by simp [valEq]
  | obj as, JV.bool _, _, _ => by simp [valEq]
  | obj as, num _, _, _ => by simp [valEq]
  | obj as, str _, _, _ => by simp [valEq]
  | obj as, arr _, _, _ => by simp [valEq]
theorem valEqL_comm : (as bs : List JV) → numsWFL as = true → numsWFL bs = true →
    valEqL bs as = valEqL as bs
  | [], [], _, _ => rfl
  | [], _ :: _, _, _ => by simp [valEqL]
  | _ :: _, [], _, _ => by simp [valEqL]
  | a :: as, b :: bs, ha, hb => by
    simp only [numsWFL, Bool.and_eq_true] at ha hb
    simp [valEqL, valEq_comm a b ha.1 hb.1, valEqL_comm as bs ha.2 hb.2]
theorem valEqK_comm : (as bs : List (Bytes × JV)) → numsWFK as = true → numsWFK bs = true →
    valEqK bs as = valEqK as bs
  | [], [], _, _ => rfl
  | [], _ :: _, _, _ => by simp [valEqK]
  | _ :: _, [], _, _ => by simp [valEqK]
  | (ka, a) :: as, (kb, b) :: bs, ha, hb => by
    simp only [numsWFK, Bool.and_eq_true] at ha hb
    simp [valEqK, valEq_comm a b ha.1 hb.1, valEqK_comm as bs ha.2 hb.2, Bool.beq_comm (a := ka)]
end

theorem valEq_symm {a b : JV} (ha : numsWF a = true) (hb : numsWF b = true)
    (h : valEq a b = true) : valEq b a = true := by
  rw [valEq_comm a b ha hb]; exact h

/-- equal values have the same kind -/
theorem valEq_sameKind {a b : JV} (h : valEq a b = true) : sameKind a b = true := by
  cases a <;> cases b <;> simp [valEq] at h <;> rfl

theorem sameKind_isScalarJ {a b : JV} (h : sameKind a b = true) : isScalarJ a = isScalarJ b := by
  cases a <;> cases b <;> simp [sameKind] at h <;> rfl

theorem sameKind_symm {a b : JV} (h : sameKind a b = true) : sameKind b a = true := by
  cases a <;> cases b <;> simp [sameKind] at h <;> rfl

theorem sameKind_trans {a b c : JV} (h1 : sameKind a b = true) (h2 : sameKind b c = true) :
    sameKind a c = true := by
  cases a <;> cases b <;> simp [sameKind] at h1 <;> cases c <;> simp [sameKind] at h2 <;> rfl

theorem valEq_isScalarJ {a b : JV} (h : valEq a b = true) : isScalarJ a = isScalarJ b :=
  sameKind_isScalarJ (valEq_sameKind h)

mutual
theorem valEq_trans : (a b c : JV) → numsWF a = true → numsWF b = true → numsWF c = true →
    valEq a b = true → valEq b c = true → valEq a c = true
  | arr as, b, c, ha, hb, hc, h1, h2 => by
    cases b <;> simp [valEq] at h1
    cases c <;> simp [valEq] at h2
    simp only [numsWF] at ha hb hc
    simpa [valEq] using valEqL_trans as _ _ ha hb hc h1 h2
  | obj as, b, c, ha, hb, hc, h1, h2 => by
    cases b <;> simp [valEq] at h1
    cases c <;> simp [valEq] at h2
    simp only [numsWF] at ha hb hc
    simpa [valEq] using valEqK_trans as _ _ ha hb hc h1 h2
  | num x, b, c, ha, hb, hc, h1, h2 => by
    cases b <;> simp [valEq] at h1
    cases c <;> simp [valEq] at h2
    simp only [numsWF, decide_eq_true_eq] at ha hb hc
    simpa [valEq] using Num.cmp_eq_trans x _ _ ha hb hc h1 h2
  | null, b, c, _, _, _, h1, h2 => by
    cases b <;> simp [valEq] at h1
    exact h2
  | JV.bool x, b, c, _, _, _, h1, h2 => by
    cases b <;> simp [valEq] at h1
    subst h1; exact h2
  | str x, b, c, _, _, _, h1, h2 => by
    cases b <;> simp [valEq] at h1
    subst h1; exact h2
theorem valEqL_trans : (as bs cs : List JV) → numsWFL as = true → numsWFL bs = true →
    numsWFL cs = true → valEqL as bs = true → valEqL bs cs = true → valEqL as cs = true
  | [], bs, cs, _, _, _, h1, h2 => by
    cases bs <;> simp [valEqL] at h1
    exact h2
  | a :: as, bs, cs, ha, hb, hc, h1, h2 => by
    cases bs with
    | nil => simp [valEqL] at h1
    | cons b bs =>
      cases cs with
      | nil => simp [valEqL] at h2
      | cons c cs =>
        simp only [numsWFL, valEqL, Bool.and_eq_true] at ha hb hc h1 h2 ⊢
        exact ⟨valEq_trans a b c ha.1 hb.1 hc.1 h1.1 h2.1,
          valEqL_trans as bs cs ha.2 hb.2 hc.2 h1.2 h2.2⟩
theorem valEqK_trans : (as bs cs : List (Bytes × JV)) → numsWFK as = true → numsWFK bs = true →
    numsWFK cs = true → valEqK as bs = true → valEqK bs cs = true → valEqK as cs = true
  | [], bs, cs, _, _, _, h1, h2 => by
    cases bs <;> simp [valEqK] at h1
    exact h2
  | (ka, a) :: as, bs, cs, ha, hb, hc, h1, h2 => by
    cases bs with
    | nil => simp [valEqK] at h1
    | cons b bs =>
      obtain ⟨kb, b⟩ := b
      cases cs with
      | nil => simp [valEqK] at h2
      | cons c cs =>
        obtain ⟨kc, c⟩ := c
        simp only [numsWFK, valEqK, Bool.and_eq_true, beq_iff_eq] at ha hb hc h1 h2 ⊢
        exact ⟨⟨h1.1.1.trans h2.1.1, valEq_trans a b c ha.1 hb.1 hc.1 h1.1.2 h2.1.2⟩,
          valEqK_trans as bs cs ha.2 hb.2 hc.2 h1.2 h2.2⟩
end

/-! ## 4. Scalars: containment is equality is compare-equality -/

/-- nested containment only relates values of the same kind -/
theorem Cont_sameKind {l r : JV} (h : Cont l r) : sameKind l r = true := by
  cases r with
  | arr rs => obtain ⟨ls, rfl, _⟩ := (Cont_arr _ _).1 h; rfl
  | obj rk => obtain ⟨lk, rfl, _⟩ := (Cont_obj _ _).1 h; rfl
  | null => exact valEq_sameKind ((Cont_scalar _ _ rfl).1 h).2
  | bool _ => exact valEq_sameKind ((Cont_scalar _ _ rfl).1 h).2
  | num _ => exact valEq_sameKind ((Cont_scalar _ _ rfl).1 h).2
  | str _ => exact valEq_sameKind ((Cont_scalar _ _ rfl).1 h).2

theorem Cont_isScalarJ {l r : JV} (h : Cont l r) : isScalarJ l = isScalarJ r :=
  sameKind_isScalarJ (Cont_sameKind h)

/-- a container on the right: the top-level special case does not apply -/
theorem contains_iff_Cont_of_container {l r : JV} (hr : isScalarJ r = false) :
    contains l r = true ↔ Cont l r := by
  rw [contains_iff]; simp [TopCont, hr]

/-- same kinds: the top-level special case does not apply -/
theorem contains_iff_Cont_of_sameKind {l r : JV} (hk : sameKind l r = true) :
    contains l r = true ↔ Cont l r := by
  rw [contains_iff]
  constructor
  · rintro (h | ⟨_, hr, ls, rfl, _⟩)
    · exact h
    · cases r <;> simp [sameKind] at hk
      simp [isScalarJ] at hr
  · exact Or.inl

/-- a scalar on the left contains exactly the scalars equal to it -/
theorem contains_scalar_left {l : JV} (hl : isScalarJ l = true) (r : JV) :
    contains l r = (isScalarJ r && valEq l r) := by
  apply Bool.eq_iff_iff.2
  rw [contains_iff, Bool.and_eq_true]
  constructor
  · rintro (h | ⟨_, _, ls, rfl, _⟩)
    · have hs := Cont_isScalarJ h
      rw [hl] at hs
      exact ⟨hs.symm, ((Cont_scalar _ _ hs.symm).1 h).2⟩
    · simp [isScalarJ] at hl
  · rintro ⟨hr, hv⟩
    exact Or.inl ((Cont_scalar _ _ hr).2 ⟨hl, hv⟩)

/-- **Scalar equality**: on scalars, containment is value equality -/
theorem contains_scalar {l r : JV} (hl : isScalarJ l = true) (hr : isScalarJ r = true) :
    contains l r = valEq l r := by
  rw [contains_scalar_left hl, hr, Bool.true_and]

/-- … and value equality is compare-equality (`valEq_iff_cmpJV` holds for all trees) -/
theorem contains_scalar_iff_cmpJV {l r : JV} (hl : isScalarJ l = true) (hr : isScalarJ r = true) :
    contains l r = true ↔ cmpJV l r = .eq := by
  rw [contains_scalar hl hr, valEq_iff_cmpJV]

/-- a bare scalar on the right: equal to the left scalar, or to an element of the left
top-level array -/
theorem contains_scalar_right (l : JV) {r : JV} (hr : isScalarJ r = true) :
    contains l r = true ↔
      (isScalarJ l = true ∧ valEq l r = true) ∨ ∃ ls, l = arr ls ∧ ∃ x ∈ ls, valEq x r = true := by
  rw [contains_iff]
  simp [TopCont, hr, Cont_scalar _ _ hr]

/-! numerically equal numbers match whatever their encoding -/
example : contains (arr [num (.uint 1)]) (num (.float 0x3ff0000000000000)) = true := by decide
example : contains (num (.int 1)) (num (.float 0x3ff0000000000000)) = true := by decide
example : contains (num (.float 0x8000000000000000)) (num (.uint 0)) = true := by decide  -- -0.0 = 0
example : contains (arr [num (.int 2), num (.uint 1)]) (arr [num (.float 0x3ff0000000000000)]) = true := by
  decide
example : contains (obj [([97], num (.uint 1))]) (obj [([97], num (.float 0x3ff0000000000000))]) = true := by
  decide
/-- the special case is top-level only: `[[1]] ⊉ 1`, `[[1]] ⊉ [1]`… but `[[1]] ⊇ [[1]]` -/
example : contains (arr [arr [num (.uint 1)]]) (num (.uint 1)) = false := by decide
example : contains (arr [arr [num (.uint 1)]]) (arr [num (.uint 1)]) = false := by decide
example : contains (arr [arr [num (.uint 1)]]) (arr [arr [num (.uint 1)]]) = true := by decide
example : contains (obj [([97], arr [num (.uint 1)])]) (obj [([97], num (.uint 1))]) = false := by decide

/-! ## 5. Reflexivity -/

mutual
theorem Cont_refl : (a : JV) → numsWF a = true → keysOK a = true → Cont a a
  | null, h, _ => (Cont_scalar _ _ rfl).2 ⟨rfl, valEq_refl _ h⟩
  | JV.bool _, h, _ => (Cont_scalar _ _ rfl).2 ⟨rfl, valEq_refl _ h⟩
  | num _, h, _ => (Cont_scalar _ _ rfl).2 ⟨rfl, valEq_refl _ h⟩
  | str _, h, _ => (Cont_scalar _ _ rfl).2 ⟨rfl, valEq_refl _ h⟩
  | arr vs, h, hk => by
    simp only [numsWF, keysOK] at h hk
    exact (Cont_arr _ _).2 ⟨vs, rfl, ContAll_refl_aux vs h hk vs (fun _ hv => hv)⟩
  | obj kvs, h, hk => by
    simp only [numsWF, keysOK, Bool.and_eq_true] at h hk
    exact (Cont_obj _ _).2 ⟨kvs, rfl,
      ContMem_refl_aux kvs h hk.2 kvs (fun _ _ hm => lookup_of_sorted hk.1 hm)⟩
theorem ContAll_refl_aux : (vs : List JV) → numsWFL vs = true → keysOKL vs = true →
    ∀ ls : List JV, (∀ v ∈ vs, v ∈ ls) → ContAll ls vs
  | [], _, _, ls, _ => ContAll_nil ls
  | v :: vs, h, hk, ls, hsub => by
    simp only [numsWFL, keysOKL, Bool.and_eq_true] at h hk
    rw [ContAll_cons]
    refine ⟨?_, ContAll_refl_aux vs h.2 hk.2 ls (fun x hx => hsub x (List.mem_cons_of_mem _ hx))⟩
    unfold ElemIn
    by_cases hs : isScalarJ v = true
    · simp only [hs, if_true]
      exact ⟨v, hsub v (by simp), valEq_refl v h.1⟩
    · simp only [hs]
      exact ⟨v, hsub v (by simp), by simpa using hs, Cont_refl v h.1 hk.1⟩
theorem ContMem_refl_aux : (kvs : List (Bytes × JV)) → numsWFK kvs = true → keysOKK kvs = true →
    ∀ lk : List (Bytes × JV), (∀ k v, (k, v) ∈ kvs → lookup k lk = some v) → ContMem lk kvs
  | [], _, _, lk, _ => ContMem_nil lk
  | (k, v) :: kvs, h, hk, lk, hsub => by
    simp only [numsWFK, keysOKK, Bool.and_eq_true] at h hk
    rw [ContMem_cons]
    refine ⟨?_, ContMem_refl_aux kvs h.2 hk.2 lk
      (fun k' v' hm => hsub k' v' (List.mem_cons_of_mem _ hm))⟩
    refine ⟨v, hsub k v (by simp), valEq_sameKind (valEq_refl v h.1), ?_⟩
    by_cases hs : isScalarJ v = true
    · simp only [hs, if_true]; exact valEq_refl v h.1
    · simp only [hs]; exact Cont_refl v h.1 hk.1
end

/-- **Reflexivity** -/
theorem contains_refl (a : JV) (h : numsWF a = true) (hk : keysOK a = true) :
    contains a a = true :=
  (contains_iff a a).2 (Or.inl (Cont_refl a h hk))

theorem contains_refl_of_good (a : JV) (h : good a = true) : contains a a = true :=
  contains_refl a (numsWF_of_good a h) (keysOK_of_good a h)

/-- reflexivity needs unique keys: with a duplicated key only the first occurrence is visible
to `lookup` (such a tree is not `good`: `BTreeMap` keys are unique) -/
example : contains (obj [([97], num (.uint 1)), ([97], num (.uint 2))])
    (obj [([97], num (.uint 1)), ([97], num (.uint 2))]) = false := by decide

/-! ## 6. Transitivity -/

theorem ElemIn_of_ContAll {ls rs : List JV} (h : ContAll ls rs) {r : JV} (hr : r ∈ rs) :
    ElemIn ls r := (ContAll_iff ls rs).1 h r hr

theorem ElemIn_scalar {ls : List JV} {r : JV} (hr : isScalarJ r = true) :
    ElemIn ls r ↔ ∃ x ∈ ls, valEq x r = true := by simp [ElemIn, hr]

theorem ElemIn_container {ls : List JV} {r : JV} (hr : isScalarJ r = false) :
    ElemIn ls r ↔ ∃ x ∈ ls, isScalarJ x = false ∧ Cont x r := by simp [ElemIn, hr]

mutual
/-- **Nested transitivity** (no side condition beyond well-formed numbers) -/
theorem Cont_trans : (c a b : JV) → numsWF a = true → numsWF b = true → numsWF c = true →
    Cont a b → Cont b c → Cont a c
  | arr cs, a, b, ha, hb, hc, h1, h2 => by
    obtain ⟨bs, rfl, h2'⟩ := (Cont_arr _ _).1 h2
    obtain ⟨as, rfl, h1'⟩ := (Cont_arr _ _).1 h1
    simp only [numsWF] at ha hb hc
    exact (Cont_arr _ _).2 ⟨as, rfl, ContAll_trans_aux cs as bs ha hb hc h1' h2'⟩
  | obj ck, a, b, ha, hb, hc, h1, h2 => by
    obtain ⟨bk, rfl, h2'⟩ := (Cont_obj _ _).1 h2
    obtain ⟨ak, rfl, h1'⟩ := (Cont_obj _ _).1 h1
    simp only [numsWF] at ha hb hc
    exact (Cont_obj _ _).2 ⟨ak, rfl, ContMem_trans_aux ck ak bk ha hb hc h1' h2'⟩
  | null, a, b, ha, hb, hc, h1, h2 => by
    have h2' := (Cont_scalar _ _ rfl).1 h2
    have h1' := (Cont_scalar _ _ h2'.1).1 h1
    exact (Cont_scalar _ _ rfl).2 ⟨h1'.1, valEq_trans a b _ ha hb hc h1'.2 h2'.2⟩
  | JV.bool _, a, b, ha, hb, hc, h1, h2 => by
    have h2' := (Cont_scalar _ _ rfl).1 h2
    have h1' := (Cont_scalar _ _ h2'.1).1 h1
    exact (Cont_scalar _ _ rfl).2 ⟨h1'.1, valEq_trans a b _ ha hb hc h1'.2 h2'.2⟩
  | num _, a, b, ha, hb, hc, h1, h2 => by
    have h2' := (Cont_scalar _ _ rfl).1 h2
    have h1' := (Cont_scalar _ _ h2'.1).1 h1
    exact (Cont_scalar _ _ rfl).2 ⟨h1'.1, valEq_trans a b _ ha hb hc h1'.2 h2'.2⟩
  | str _, a, b, ha, hb, hc, h1, h2 => by
    have h2' := (Cont_scalar _ _ rfl).1 h2
    have h1' := (Cont_scalar _ _ h2'.1).1 h1
    exact (Cont_scalar _ _ rfl).2 ⟨h1'.1, valEq_trans a b _ ha hb hc h1'.2 h2'.2⟩
theorem ContAll_trans_aux : (cs as bs : List JV) → numsWFL as = true → numsWFL bs = true →
    numsWFL cs = true → ContAll as bs → ContAll bs cs → ContAll as cs
  | [], as, _, _, _, _, _, _ => ContAll_nil as
  | c :: cs, as, bs, ha, hb, hc, h1, h2 => by
    rw [ContAll_cons] at h2 ⊢
    simp only [numsWFL, Bool.and_eq_true] at hc
    refine ⟨?_, ContAll_trans_aux cs as bs ha hb hc.2 h1 h2.2⟩
    by_cases hs : isScalarJ c = true
    · obtain ⟨x, hx, hxc⟩ := (ElemIn_scalar hs).1 h2.1
      have hxs : isScalarJ x = true := by rw [valEq_isScalarJ hxc]; exact hs
      obtain ⟨y, hy, hyx⟩ := (ElemIn_scalar hxs).1 (ElemIn_of_ContAll h1 hx)
      exact (ElemIn_scalar hs).2 ⟨y, hy,
        valEq_trans y x c (numsWFL_mem ha hy) (numsWFL_mem hb hx) hc.1 hyx hxc⟩
    · have hs' : isScalarJ c = false := by simpa using hs
      obtain ⟨x, hx, hxs, hxc⟩ := (ElemIn_container hs').1 h2.1
      obtain ⟨y, hy, hys, hyx⟩ := (ElemIn_container hxs).1 (ElemIn_of_ContAll h1 hx)
      exact (ElemIn_container hs').2 ⟨y, hy, hys,
        Cont_trans c y x (numsWFL_mem ha hy) (numsWFL_mem hb hx) hc.1 hyx hxc⟩
theorem ContMem_trans_aux : (ck ak bk : List (Bytes × JV)) → numsWFK ak = true →
    numsWFK bk = true → numsWFK ck = true → ContMem ak bk → ContMem bk ck → ContMem ak ck
  | [], ak, _, _, _, _, _, _ => ContMem_nil ak
  | (k, c) :: ck, ak, bk, ha, hb, hc, h1, h2 => by
    rw [ContMem_cons] at h2 ⊢
    simp only [numsWFK, Bool.and_eq_true] at hc
    refine ⟨?_, ContMem_trans_aux ck ak bk ha hb hc.2 h1 h2.2⟩
    obtain ⟨b, hbk, hkb, hbc⟩ := h2.1
    have hbm := lookup_mem hbk
    obtain ⟨a, hak, hka, hab⟩ := (ContMem_iff ak bk).1 h1 (k, b) hbm
    have ham := lookup_mem hak
    refine ⟨a, hak, sameKind_trans hka hkb, ?_⟩
    have hsb : isScalarJ b = isScalarJ c := sameKind_isScalarJ hkb
    by_cases hs : isScalarJ c = true
    · simp only [hs, if_true] at hbc ⊢
      simp only [hsb, hs, if_true] at hab
      exact valEq_trans a b c (numsWFK_mem ha ham) (numsWFK_mem hb hbm) hc.1 hab hbc
    · simp only [hs] at hbc ⊢
      simp only [hsb, hs] at hab
      exact Cont_trans c a b (numsWFK_mem ha ham) (numsWFK_mem hb hbm) hc.1 hab hbc
end

/-- transitivity of the reference relation at either level -/
theorem TopCont_trans {top : Bool} {a b c : JV} (ha : numsWF a = true) (hb : numsWF b = true)
    (hc : numsWF c = true) (h1 : TopCont top a b) (h2 : TopCont top b c) : TopCont top a c := by
  rcases h1 with h1 | ⟨ht, hbs, as, rfl, x, hx, hxb⟩
  · rcases h2 with h2 | ⟨ht, hcs, bs, rfl, x, hx, hxc⟩
    · exact Or.inl (Cont_trans c a b ha hb hc h1 h2)
    · -- `b` is an array with an element equal to the bare scalar `c`; `a ⊇ b` forces `c ∈ a`
      obtain ⟨as, rfl, h1'⟩ := (Cont_arr _ _).1 h1
      simp only [numsWF] at ha hb
      have hxs : isScalarJ x = true := by rw [valEq_isScalarJ hxc]; exact hcs
      obtain ⟨y, hy, hyx⟩ := (ElemIn_scalar hxs).1 (ElemIn_of_ContAll h1' hx)
      exact Or.inr ⟨ht, hcs, as, rfl, y, hy,
        valEq_trans y x c (numsWFL_mem ha hy) (numsWFL_mem hb hx) hc hyx hxc⟩
  · rcases h2 with h2 | ⟨_, _, bs, rfl, _⟩
    · -- `b` is a bare scalar equal to an element of `a`, so `c` is a scalar equal to `b`
      have hcs : isScalarJ c = true := by rw [← Cont_isScalarJ h2]; exact hbs
      have hbc := ((Cont_scalar _ _ hcs).1 h2).2
      simp only [numsWF] at ha
      exact Or.inr ⟨ht, hcs, as, rfl, x, hx, valEq_trans x b c (numsWFL_mem ha hx) hb hc hxb hbc⟩
    · simp [isScalarJ] at hbs

/-- **Transitivity** of `@>` — unconditional on documents with well-formed numbers: the
top-level-only special case composes (a chain through a bare scalar `c` only arises when `b` is
an array with an element equal to `c`, and then `a ⊇ b` puts an equal element into `a`). -/
theorem contains_trans {a b c : JV} (ha : numsWF a = true) (hb : numsWF b = true)
    (hc : numsWF c = true) (h1 : contains a b = true) (h2 : contains b c = true) :
    contains a c = true :=
  (contains_iff a c).2 (TopCont_trans ha hb hc ((contains_iff a b).1 h1) ((contains_iff b c).1 h2))

/-- nested (`top = false`) transitivity at the level of the fuel-indexed function -/
theorem containsJV_false_trans {f1 f2 f3 : Nat} {a b c : JV} (ha : numsWF a = true)
    (hb : numsWF b = true) (hc : numsWF c = true) (hf : 2 * (sizeJ a + sizeJ c) ≤ f3)
    (h1 : containsJV f1 false a b = true) (h2 : containsJV f2 false b c = true) :
    containsJV f3 false a c = true :=
  (containsJV_iff hf).2 (TopCont_trans ha hb hc ((contains_sound f1).1 _ _ _ h1)
    ((contains_sound f2).1 _ _ _ h2))

/-! ## 7. The structural rules -/

/-- **Arrays**: every right element is matched by some left element — a scalar by an equal
element, a container by an element containing it.  Order and multiplicity play no role. -/
theorem contains_arr_arr (ls rs : List JV) :
    contains (arr ls) (arr rs) = true ↔
      ∀ r ∈ rs, if isScalarJ r = true then ∃ x ∈ ls, valEq x r = true
        else ∃ x ∈ ls, contains x r = true := by
  rw [contains_iff_Cont_of_container rfl, Cont_arr]
  constructor
  · rintro ⟨ls', e, h⟩ r hr
    cases e
    have h1 := ElemIn_of_ContAll h hr
    by_cases hs : isScalarJ r = true
    · simpa [hs] using (ElemIn_scalar hs).1 h1
    · have hs' : isScalarJ r = false := by simpa using hs
      obtain ⟨x, hx, _, hc⟩ := (ElemIn_container hs').1 h1
      simp only [hs]
      exact ⟨x, hx, (contains_iff_Cont_of_container hs').2 hc⟩
  · intro h
    refine ⟨ls, rfl, (ContAll_iff _ _).2 fun r hr => ?_⟩
    have h1 := h r hr
    by_cases hs : isScalarJ r = true
    · exact (ElemIn_scalar hs).2 (by simpa [hs] using h1)
    · have hs' : isScalarJ r = false := by simpa using hs
      simp only [hs] at h1
      obtain ⟨x, hx, hc⟩ := h1
      have hc' := (contains_iff_Cont_of_container hs').1 hc
      exact (ElemIn_container hs').2 ⟨x, hx, by rw [Cont_isScalarJ hc']; exact hs', hc'⟩

/-- **Objects**: every right member is contained, under the same key, in a left member of the
same kind. -/
theorem contains_obj_obj (lk rk : List (Bytes × JV)) :
    contains (obj lk) (obj rk) = true ↔
      ∀ kr ∈ rk, ∃ l, lookup kr.1 lk = some l ∧ sameKind l kr.2 = true ∧
        contains l kr.2 = true := by
  rw [contains_iff_Cont_of_container rfl, Cont_obj]
  have key : ∀ (k : Bytes) (r : JV), MemIn lk k r ↔
      ∃ l, lookup k lk = some l ∧ sameKind l r = true ∧ contains l r = true := by
    intro k r
    unfold MemIn
    constructor
    · rintro ⟨l, h1, h2, h3⟩
      refine ⟨l, h1, h2, (contains_iff_Cont_of_sameKind h2).2 ?_⟩
      by_cases hs : isScalarJ r = true
      · simp only [hs, if_true] at h3
        exact (Cont_scalar _ _ hs).2 ⟨by rw [sameKind_isScalarJ h2]; exact hs, h3⟩
      · simpa [hs] using h3
    · rintro ⟨l, h1, h2, h3⟩
      refine ⟨l, h1, h2, ?_⟩
      have h3' := (contains_iff_Cont_of_sameKind h2).1 h3
      by_cases hs : isScalarJ r = true
      · simp only [hs, if_true]
        exact ((Cont_scalar _ _ hs).1 h3').2
      · simpa [hs] using h3'
  constructor
  · rintro ⟨lk', e, h⟩ kr hkr
    cases e
    exact (key _ _).1 ((ContMem_iff _ _).1 h kr hkr)
  · intro h
    exact ⟨lk, rfl, (ContMem_iff _ _).2 fun kr hkr => (key _ _).2 (h kr hkr)⟩

/-- a container never contains a container of the other kind, a scalar never contains a
container -/
theorem contains_kind_mismatch {l r : JV} (hr : isScalarJ r = false) (hk : sameKind l r = false) :
    contains l r = false := by
  cases h : contains l r with
  | false => rfl
  | true =>
    have := Cont_sameKind ((contains_iff_Cont_of_container hr).1 h)
    rw [hk] at this; cases this

theorem ElemIn_mono {ls ls' : List JV} (hsub : ∀ x ∈ ls, x ∈ ls') {r : JV} (h : ElemIn ls r) :
    ElemIn ls' r := by
  unfold ElemIn at h ⊢
  by_cases hs : isScalarJ r = true
  · simp only [hs, if_true] at h ⊢
    obtain ⟨x, hx, hv⟩ := h
    exact ⟨x, hsub x hx, hv⟩
  · simp only [hs] at h ⊢
    obtain ⟨x, hx, hv⟩ := h
    exact ⟨x, hsub x hx, hv⟩

/-- fewer (or repeated, or reordered) elements on the right, more on the left -/
theorem contains_arr_mono {ls ls' rs rs' : List JV} (hl : ∀ x ∈ ls, x ∈ ls')
    (hr : ∀ r ∈ rs', r ∈ rs) (h : contains (arr ls) (arr rs) = true) :
    contains (arr ls') (arr rs') = true := by
  rw [contains_iff_Cont_of_container rfl, Cont_arr] at h ⊢
  obtain ⟨_, e, h⟩ := h
  cases e
  exact ⟨ls', rfl, (ContAll_iff _ _).2 fun r hr' =>
    ElemIn_mono hl (ElemIn_of_ContAll h (hr r hr'))⟩

/-- only the SET of right elements matters -/
theorem contains_arr_congr_right {ls rs rs' : List JV} (h : ∀ r, r ∈ rs ↔ r ∈ rs') :
    contains (arr ls) (arr rs) = contains (arr ls) (arr rs') :=
  Bool.eq_iff_iff.2 ⟨contains_arr_mono (fun _ hx => hx) (fun r hr => (h r).2 hr),
    contains_arr_mono (fun _ hx => hx) (fun r hr => (h r).1 hr)⟩

/-- only the SET of left elements matters -/
theorem contains_arr_congr_left {ls ls' rs : List JV} (h : ∀ x, x ∈ ls ↔ x ∈ ls') :
    contains (arr ls) (arr rs) = contains (arr ls') (arr rs) :=
  Bool.eq_iff_iff.2 ⟨contains_arr_mono (fun x hx => (h x).1 hx) (fun _ hr => hr),
    contains_arr_mono (fun x hx => (h x).2 hx) (fun _ hr => hr)⟩

/-- invariance under permutation of the right array -/
theorem contains_arr_perm_right {ls rs rs' : List JV} (hp : rs.Perm rs') :
    contains (arr ls) (arr rs) = contains (arr ls) (arr rs') :=
  contains_arr_congr_right fun _ => hp.mem_iff

/-- invariance under permutation of the left array -/
theorem contains_arr_perm_left {ls ls' rs : List JV} (hp : ls.Perm ls') :
    contains (arr ls) (arr rs) = contains (arr ls') (arr rs) :=
  contains_arr_congr_left fun _ => hp.mem_iff

/-- multiplicity is ignored -/
theorem contains_arr_dup (ls rs : List JV) :
    contains (arr ls) (arr (rs ++ rs)) = contains (arr ls) (arr rs) :=
  contains_arr_congr_right fun r => by simp

theorem contains_arr_dup' {ls rs : List JV} (h : contains (arr ls) (arr rs) = true) :
    contains (arr ls) (arr (rs ++ rs)) = true := by rw [contains_arr_dup]; exact h

theorem contains_arr_append (ls rs1 rs2 : List JV) :
    contains (arr ls) (arr (rs1 ++ rs2)) =
      (contains (arr ls) (arr rs1) && contains (arr ls) (arr rs2)) := by
  apply Bool.eq_iff_iff.2
  rw [Bool.and_eq_true]
  constructor
  · intro h
    exact ⟨contains_arr_mono (fun _ hx => hx) (fun r hr => by simp [hr]) h,
      contains_arr_mono (fun _ hx => hx) (fun r hr => by simp [hr]) h⟩
  · rintro ⟨h1, h2⟩
    rw [contains_arr_arr] at h1 h2 ⊢
    intro r hr
    rcases List.mem_append.1 hr with hr | hr
    · exact h1 r hr
    · exact h2 r hr

theorem contains_arr_nil (ls : List JV) : contains (arr ls) (arr []) = true := by
  rw [contains_arr_arr]; simp

theorem contains_obj_nil (lk : List (Bytes × JV)) : contains (obj lk) (obj []) = true := by
  rw [contains_obj_obj]; simp

/-- fewer (or reordered) members on the right -/
theorem contains_obj_mono_right {lk rk rk' : List (Bytes × JV)} (hr : ∀ kr ∈ rk', kr ∈ rk)
    (h : contains (obj lk) (obj rk) = true) : contains (obj lk) (obj rk') = true := by
  rw [contains_obj_obj] at h ⊢
  exact fun kr hkr => h kr (hr kr hkr)

theorem contains_obj_perm_right {lk rk rk' : List (Bytes × JV)} (hp : rk.Perm rk') :
    contains (obj lk) (obj rk) = contains (obj lk) (obj rk') :=
  Bool.eq_iff_iff.2 ⟨contains_obj_mono_right fun _ h => hp.mem_iff.2 h,
    contains_obj_mono_right fun _ h => hp.mem_iff.1 h⟩

/-- order and multiplicity are ignored; `[1,2] ⊇ [2,1,2]`, `[1,[2,3]] ⊇ [[3],[3,2]]` -/
example : contains (arr [num (.uint 1), num (.uint 2)])
    (arr [num (.uint 2), num (.uint 1), num (.uint 2)]) = true := by decide
example : contains (arr [num (.uint 1), arr [num (.uint 2), num (.uint 3)]])
    (arr [arr [num (.uint 3)], arr [num (.uint 3), num (.uint 2)]]) = true := by decide

/-! ## 8. Containment respects value equality on both sides -/

theorem valEqL_mem_left : (as as' : List JV) → valEqL as as' = true →
    ∀ x ∈ as, ∃ x' ∈ as', valEq x x' = true
  | [], _, _ => by simp
  | a :: as, [], h => by simp [valEqL] at h
  | a :: as, a' :: as', h => by
    simp only [valEqL, Bool.and_eq_true] at h
    intro x hx
    simp only [List.mem_cons] at hx
    rcases hx with rfl | hx
    · exact ⟨a', by simp, h.1⟩
    · obtain ⟨x', hx', hv⟩ := valEqL_mem_left as as' h.2 x hx
      exact ⟨x', List.mem_cons_of_mem _ hx', hv⟩

theorem valEqK_lookup : (ak ak' : List (Bytes × JV)) → valEqK ak ak' = true →
    ∀ k l, lookup k ak = some l → ∃ l', lookup k ak' = some l' ∧ valEq l l' = true
  | [], _, _ => by simp [lookup]
  | _ :: _, [], h => by simp [valEqK] at h
  | (ka, a) :: ak, (ka', a') :: ak', h => by
    simp only [valEqK, Bool.and_eq_true, beq_iff_eq] at h
    obtain ⟨⟨rfl, hv⟩, ht⟩ := h
    intro k l hl
    simp only [lookup] at hl ⊢
    by_cases hk : (ka == k) = true
    · simp only [hk, if_true, Option.some.injEq] at hl ⊢
      subst hl
      exact ⟨a', rfl, hv⟩
    · simp only [hk] at hl ⊢
      exact valEqK_lookup ak ak' ht k l hl

mutual
theorem Cont_congr_left : (b a a' : JV) → numsWF a = true → numsWF a' = true →
    numsWF b = true → valEq a a' = true → Cont a b → Cont a' b
  | arr bs, a, a', ha, ha', hb, hv, h => by
    obtain ⟨as, rfl, h'⟩ := (Cont_arr _ _).1 h
    cases a' <;> simp [valEq] at hv
    rename_i as'
    simp only [numsWF] at ha ha' hb
    exact (Cont_arr _ _).2 ⟨as', rfl,
      ContAll_congr_left_aux bs as as' ha ha' hb (valEqL_mem_left as as' hv) h'⟩
  | obj bk, a, a', ha, ha', hb, hv, h => by
    obtain ⟨ak, rfl, h'⟩ := (Cont_obj _ _).1 h
    cases a' <;> simp [valEq] at hv
    rename_i ak'
    simp only [numsWF] at ha ha' hb
    exact (Cont_obj _ _).2 ⟨ak', rfl,
      ContMem_congr_left_aux bk ak ak' ha ha' hb (valEqK_lookup ak ak' hv) h'⟩
  | null, a, a', ha, ha', hb, hv, h => by
    have h' := (Cont_scalar _ _ rfl).1 h
    exact (Cont_scalar _ _ rfl).2 ⟨by rw [← valEq_isScalarJ hv]; exact h'.1,
      valEq_trans a' a _ ha' ha hb (valEq_symm ha ha' hv) h'.2⟩
  | JV.bool _, a, a', ha, ha', hb, hv, h => by
    have h' := (Cont_scalar _ _ rfl).1 h
    exact (Cont_scalar _ _ rfl).2 ⟨by rw [← valEq_isScalarJ hv]; exact h'.1,
      valEq_trans a' a _ ha' ha hb (valEq_symm ha ha' hv) h'.2⟩
  | num _, a, a', ha, ha', hb, hv, h => by
    have h' := (Cont_scalar _ _ rfl).1 h
    exact (Cont_scalar _ _ rfl).2 ⟨by rw [← valEq_isScalarJ hv]; exact h'.1,
      valEq_trans a' a _ ha' ha hb (valEq_symm ha ha' hv) h'.2⟩
  | str _, a, a', ha, ha', hb, hv, h => by
    have h' := (Cont_scalar _ _ rfl).1 h
    exact (Cont_scalar _ _ rfl).2 ⟨by rw [← valEq_isScalarJ hv]; exact h'.1,
      valEq_trans a' a _ ha' ha hb (valEq_symm ha ha' hv) h'.2⟩
theorem ContAll_congr_left_aux : (bs as as' : List JV) → numsWFL as = true →
    numsWFL as' = true → numsWFL bs = true → (∀ x ∈ as, ∃ x' ∈ as', valEq x x' = true) →
    ContAll as bs → ContAll as' bs
  | [], _, as', _, _, _, _, _ => ContAll_nil as'
  | r :: bs, as, as', ha, ha', hb, hm, h => by
    rw [ContAll_cons] at h ⊢
    simp only [numsWFL, Bool.and_eq_true] at hb
    refine ⟨?_, ContAll_congr_left_aux bs as as' ha ha' hb.2 hm h.2⟩
    by_cases hs : isScalarJ r = true
    · obtain ⟨x, hx, hxr⟩ := (ElemIn_scalar hs).1 h.1
      obtain ⟨x', hx', hv⟩ := hm x hx
      have wx := numsWFL_mem ha hx
      have wx' := numsWFL_mem ha' hx'
      exact (ElemIn_scalar hs).2 ⟨x', hx', valEq_trans x' x r wx' wx hb.1 (valEq_symm wx wx' hv) hxr⟩
    · have hs' : isScalarJ r = false := by simpa using hs
      obtain ⟨x, hx, hxs, hxr⟩ := (ElemIn_container hs').1 h.1
      obtain ⟨x', hx', hv⟩ := hm x hx
      have wx := numsWFL_mem ha hx
      have wx' := numsWFL_mem ha' hx'
      exact (ElemIn_container hs').2 ⟨x', hx', by rw [← valEq_isScalarJ hv]; exact hxs,
        Cont_congr_left r x x' wx wx' hb.1 hv hxr⟩
theorem ContMem_congr_left_aux : (bk ak ak' : List (Bytes × JV)) → numsWFK ak = true →
    numsWFK ak' = true → numsWFK bk = true →
    (∀ k l, lookup k ak = some l → ∃ l', lookup k ak' = some l' ∧ valEq l l' = true) →
    ContMem ak bk → ContMem ak' bk
  | [], _, ak', _, _, _, _, _ => ContMem_nil ak'
  | (k, r) :: bk, ak, ak', ha, ha', hb, hm, h => by
    rw [ContMem_cons] at h ⊢
    simp only [numsWFK, Bool.and_eq_true] at hb
    refine ⟨?_, ContMem_congr_left_aux bk ak ak' ha ha' hb.2 hm h.2⟩
    obtain ⟨l, hl, hk, hc⟩ := h.1
    obtain ⟨l', hl', hv⟩ := hm k l hl
    have wl := numsWFK_mem ha (lookup_mem hl)
    have wl' := numsWFK_mem ha' (lookup_mem hl')
    refine ⟨l', hl', sameKind_trans (sameKind_symm (valEq_sameKind hv)) hk, ?_⟩
    by_cases hs : isScalarJ r = true
    · simp only [hs, if_true] at hc ⊢
      exact valEq_trans l' l r wl' wl hb.1 (valEq_symm wl wl' hv) hc
    · simp only [hs] at hc ⊢
      exact Cont_congr_left r l l' wl wl' hb.1 hv hc
end

mutual
theorem Cont_congr_right : (b b' a : JV) → numsWF a = true → numsWF b = true →
    numsWF b' = true → valEq b b' = true → Cont a b → Cont a b'
  | arr bs, b', a, ha, hb, hb', hv, h => by
    obtain ⟨as, rfl, h'⟩ := (Cont_arr _ _).1 h
    cases b' <;> simp [valEq] at hv
    rename_i bs'
    simp only [numsWF] at ha hb hb'
    exact (Cont_arr _ _).2 ⟨as, rfl, ContAll_congr_right_aux bs bs' as ha hb hb' hv h'⟩
  | obj bk, b', a, ha, hb, hb', hv, h => by
    obtain ⟨ak, rfl, h'⟩ := (Cont_obj _ _).1 h
    cases b' <;> simp [valEq] at hv
    rename_i bk'
    simp only [numsWF] at ha hb hb'
    exact (Cont_obj _ _).2 ⟨ak, rfl, ContMem_congr_right_aux bk bk' ak ha hb hb' hv h'⟩
  | null, b', a, ha, hb, hb', hv, h => by
    have h' := (Cont_scalar _ _ rfl).1 h
    have hs : isScalarJ b' = true := by rw [← valEq_isScalarJ hv]; rfl
    exact (Cont_scalar _ _ hs).2 ⟨h'.1, valEq_trans a _ b' ha hb hb' h'.2 hv⟩
  | JV.bool _, b', a, ha, hb, hb', hv, h => by
    have h' := (Cont_scalar _ _ rfl).1 h
    have hs : isScalarJ b' = true := by rw [← valEq_isScalarJ hv]; rfl
    exact (Cont_scalar _ _ hs).2 ⟨h'.1, valEq_trans a _ b' ha hb hb' h'.2 hv⟩
  | num _, b', a, ha, hb, hb', hv, h => by
    have h' := (Cont_scalar _ _ rfl).1 h
    have hs : isScalarJ b' = true := by rw [← valEq_isScalarJ hv]; rfl
    exact (Cont_scalar _ _ hs).2 ⟨h'.1, valEq_trans a _ b' ha hb hb' h'.2 hv⟩
  | str _, b', a, ha, hb, hb', hv, h => by
    have h' := (Cont_scalar _ _ rfl).1 h
    have hs : isScalarJ b' = true := by rw [← valEq_isScalarJ hv]; rfl
    exact (Cont_scalar _ _ hs).2 ⟨h'.1, valEq_trans a _ b' ha hb hb' h'.2 hv⟩
theorem ContAll_congr_right_aux : (bs bs' as : List JV) → numsWFL as = true →
    numsWFL bs = true → numsWFL bs' = true → valEqL bs bs' = true →
    ContAll as bs → ContAll as bs'
  | [], bs', as, _, _, _, hv, _ => by
    cases bs' <;> simp [valEqL] at hv
    exact ContAll_nil as
  | r :: bs, bs', as, ha, hb, hb', hv, h => by
    cases bs' with
    | nil => simp [valEqL] at hv
    | cons r' bs' =>
      simp only [valEqL, numsWFL, Bool.and_eq_true] at hv hb hb'
      rw [ContAll_cons] at h ⊢
      refine ⟨?_, ContAll_congr_right_aux bs bs' as ha hb.2 hb'.2 hv.2 h.2⟩
      have hrr : isScalarJ r = isScalarJ r' := valEq_isScalarJ hv.1
      by_cases hs : isScalarJ r = true
      · obtain ⟨x, hx, hxr⟩ := (ElemIn_scalar hs).1 h.1
        exact (ElemIn_scalar (hrr ▸ hs)).2 ⟨x, hx,
          valEq_trans x r r' (numsWFL_mem ha hx) hb.1 hb'.1 hxr hv.1⟩
      · have hs' : isScalarJ r = false := by simpa using hs
        obtain ⟨x, hx, hxs, hxr⟩ := (ElemIn_container hs').1 h.1
        exact (ElemIn_container (hrr ▸ hs')).2 ⟨x, hx, hxs,
          Cont_congr_right r r' x (numsWFL_mem ha hx) hb.1 hb'.1 hv.1 hxr⟩
theorem ContMem_congr_right_aux : (bk bk' ak : List (Bytes × JV)) → numsWFK ak = true →
    numsWFK bk = true → numsWFK bk' = true → valEqK bk bk' = true →
    ContMem ak bk → ContMem ak bk'
  | [], bk', ak, _, _, _, hv, _ => by
    cases bk' <;> simp [valEqK] at hv
    exact ContMem_nil ak
  | (k, r) :: bk, bk', ak, ha, hb, hb', hv, h => by
    cases bk' with
    | nil => simp [valEqK] at hv
    | cons kr' bk' =>
      obtain ⟨k', r'⟩ := kr'
      simp only [valEqK, numsWFK, Bool.and_eq_true, beq_iff_eq] at hv hb hb'
      obtain ⟨⟨rfl, hvr⟩, hvt⟩ := hv
      rw [ContMem_cons] at h ⊢
      refine ⟨?_, ContMem_congr_right_aux bk bk' ak ha hb.2 hb'.2 hvt h.2⟩
      obtain ⟨l, hl, hk, hc⟩ := h.1
      have wl := numsWFK_mem ha (lookup_mem hl)
      refine ⟨l, hl, sameKind_trans hk (valEq_sameKind hvr), ?_⟩
      have hrr : isScalarJ r = isScalarJ r' := valEq_isScalarJ hvr
      by_cases hs : isScalarJ r = true
      · simp only [hs, if_true] at hc
        simp only [← hrr, hs, if_true]
        exact valEq_trans l r r' wl hb.1 hb'.1 hc hvr
      · simp only [hs] at hc
        simp only [← hrr, hs]
        exact Cont_congr_right r r' l wl hb.1 hb'.1 hvr hc
end

/-- **`@>` respects value equality on the left** -/
theorem contains_congr_left {a a' b : JV} (ha : numsWF a = true) (ha' : numsWF a' = true)
    (hb : numsWF b = true) (hv : valEq a a' = true) : contains a b = contains a' b := by
  have one : ∀ {a a' : JV}, numsWF a = true → numsWF a' = true → valEq a a' = true →
      contains a b = true → contains a' b = true := by
    intro a a' ha ha' hv h
    rw [contains_iff] at h ⊢
    rcases h with h | ⟨ht, hbs, as, rfl, x, hx, hxb⟩
    · exact Or.inl (Cont_congr_left b a a' ha ha' hb hv h)
    · cases a' <;> simp [valEq] at hv
      rename_i as'
      simp only [numsWF] at ha ha'
      obtain ⟨x', hx', hxx⟩ := valEqL_mem_left as as' hv x hx
      have wx := numsWFL_mem ha hx
      have wx' := numsWFL_mem ha' hx'
      exact Or.inr ⟨ht, hbs, as', rfl, x', hx',
        valEq_trans x' x b wx' wx hb (valEq_symm wx wx' hxx) hxb⟩
  exact Bool.eq_iff_iff.2 ⟨one ha ha' hv, one ha' ha (valEq_symm ha ha' hv)⟩

/-- **`@>` respects value equality on the right** -/
theorem contains_congr_right {a b b' : JV} (ha : numsWF a = true) (hb : numsWF b = true)
    (hb' : numsWF b' = true) (hv : valEq b b' = true) : contains a b = contains a b' := by
  have one : ∀ {b b' : JV}, numsWF b = true → numsWF b' = true → valEq b b' = true →
      contains a b = true → contains a b' = true := by
    intro b b' hb hb' hv h
    rw [contains_iff] at h ⊢
    rcases h with h | ⟨ht, hbs, as, rfl, x, hx, hxb⟩
    · exact Or.inl (Cont_congr_right b b' a ha hb hb' hv h)
    · simp only [numsWF] at ha
      exact Or.inr ⟨ht, by rw [← valEq_isScalarJ hv]; exact hbs, as, rfl, x, hx,
        valEq_trans x b b' (numsWFL_mem ha hx) hb hb' hxb hv⟩
  exact Bool.eq_iff_iff.2 ⟨one hb hb' hv, one hb' hb (valEq_symm hb hb' hv)⟩

/-- equal values contain each other (needs unique keys on the left, like reflexivity) -/
theorem contains_of_valEq {a b : JV} (ha : numsWF a = true) (hk : keysOK a = true)
    (hb : numsWF b = true) (hv : valEq a b = true) : contains a b = true := by
  rw [← contains_congr_right ha ha hb hv]; exact contains_refl a ha hk

/-! ## 9. Remarks -/

/-- the `sameKind` test in the object rule is implied by nested containment -/
theorem MemIn_iff (lk : List (Bytes × JV)) (k : Bytes) (r : JV) :
    MemIn lk k r ↔ ∃ l, lookup k lk = some l ∧ Cont l r := by
  unfold MemIn
  constructor
  · rintro ⟨l, h1, h2, h3⟩
    refine ⟨l, h1, ?_⟩
    by_cases hs : isScalarJ r = true
    · simp only [hs, if_true] at h3
      exact (Cont_scalar _ _ hs).2 ⟨by rw [sameKind_isScalarJ h2]; exact hs, h3⟩
    · simpa [hs] using h3
  · rintro ⟨l, h1, h3⟩
    refine ⟨l, h1, Cont_sameKind h3, ?_⟩
    by_cases hs : isScalarJ r = true
    · simp only [hs, if_true]
      exact ((Cont_scalar _ _ hs).1 h3).2
    · simpa [hs] using h3

/-- `@>` is a preorder, not a partial order up to `valEq`: `[1,1]` and `[1]` contain each other -/
example :
    contains (arr [num (.uint 1), num (.uint 1)]) (arr [num (.uint 1)]) = true ∧
    contains (arr [num (.uint 1)]) (arr [num (.uint 1), num (.uint 1)]) = true ∧
    valEq (arr [num (.uint 1), num (.uint 1)]) (arr [num (.uint 1)]) = false := by decide

/-- the chains of the top-level special case: `[1,2] ⊇ [1] ⊇ 1` and `[1,2] ⊇ 1` -/
example :
    contains (arr [num (.uint 1), num (.uint 2)]) (arr [num (.uint 1)]) = true ∧
    contains (arr [num (.uint 1)]) (num (.uint 1)) = true ∧
    contains (arr [num (.uint 1), num (.uint 2)]) (num (.uint 1)) = true ∧
    contains (num (.uint 1)) (arr [num (.uint 1)]) = false := by decide

end Jsonb.Spec
