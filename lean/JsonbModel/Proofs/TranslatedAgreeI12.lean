/-
Phase 6c, editors left over from phase 4.  I12: `object_insert_jsonb` against `Fn.objectInsert` under the decidable
precondition `ObjWalkOK` (the two eager collections of the model succeed and list the same keys), which holds on the
encoding of every good document.
-/
import JsonbModel.Proofs.TranslatedAgreeI11
import JsonbModel.Proofs.EditRefine3

set_option linter.unusedSimpArgs false
set_option linter.unusedVariables false

namespace Jsonb.TrAgree
open Jsonb.Rs

/-- The precondition of `object_insert_jsonb_agrees`, a decidable property of one buffer: if the document is an object,
the model's two eager walks — `iterObjEntries` (members) and `iterObjKeys` (keys) — succeed and list the same keys.
The source walks both iterators lazily (it `break`s / `return`s from the key walk, calls `next` a fixed number of times
on the member walk, reads `new_value` in between and drains the rest afterwards): on a buffer where a key or value
slice lies outside the buffer, or where value entry words are missing, the model panics or shortens its lists where the
source may already have answered.  (`encodeSpec v` has it for every good `v`: `objWalkOK_encodeSpec`.) -/
def ObjWalkOK (value : Bytes) : Bool :=
  match readU32At value 0 with
  | none => true
  | some h =>
    if hdrType h = C.OBJECT_CONTAINER_TAG then
      match iterObjEntries value h, iterObjKeys value h with
      | .ok ms, .ok keys => keys == ms.map (fun m => m.1)
      | _, _ => false
    else true

theorem oi_loop3_step (x : Bytes × Tr.JEntry × Bytes) (b : Tr.ObjectBuilder) :
    Tr.object_insert_jsonb.loop3 x b = (Ctl.val (.next (pushObj x b)) : Ctl Bytes (Step Tr.ObjectBuilder)) := by
  obtain ⟨k, je, d⟩ := x
  unfold Tr.object_insert_jsonb.loop3 pushObj
  simp only [object_push_raw_any, Ctl.ofRes_ok', Ctl.val_bind', Ctl.pure_eq', Rs.loopStep_val']


theorem mSum_take_drop : ∀ (ms : List (Bytes × JE × Bytes)) (k : Nat),
    mKeySum (ms.take k) ≤ mKeySum ms ∧ mKeySum (ms.drop k) ≤ mKeySum ms ∧
    mPaySum (ms.take k) ≤ mPaySum ms ∧ mPaySum (ms.drop k) ≤ mPaySum ms
  | [], k => by simp [mKeySum, mPaySum]
  | m :: ms, 0 => by simp [mKeySum, mPaySum]
  | m :: ms, k + 1 => by
    obtain ⟨a, b, c, d⟩ := mSum_take_drop ms k
    simp only [List.take_succ_cons, List.drop_succ_cons, mKeySum, mPaySum]
    omega

theorem mSum_tail (ms : List (Bytes × JE × Bytes)) :
    mKeySum (ms.drop 1) ≤ mKeySum ms ∧ mPaySum (ms.drop 1) ≤ mPaySum ms := by
  obtain ⟨_, b, _, d⟩ := mSum_take_drop ms 1
  exact ⟨b, d⟩

/-- the end of `object_insert_jsonb`: an optional `next()`, the rest of the iterator pushed, the builder written -/
theorem oi_tail (value buf : Bytes) (fuel : Nat) (hfuel : 536870913 < fuel) (it1 : Tr.ObjectEntryIterator) (n1 : Nat) (hn1 : n1 ≤ fuel)
    (rest : List (Bytes × JE × Bytes)) (hd1 : drainIter Tr.ObjectEntryIterator.next n1 it1 = .ok (rest.map ofMember))
    (dup : Bool) (hdup : dup = true → rest ≠ []) (B : List (Bytes × BEntry)) (hraw : RawFitsK B)
    (hfit : ∀ m ∈ rest, JEFits m.2.1)
    (hlen : B.length + rest.length < 1073741824) (hkey : keySum B + mKeySum rest < 4611686018427387904)
    (hsz : buf.length + 4 + (B.length + rest.length) * 8 + (keySum B + mKeySum rest) + (paySum B + mPaySum rest) < 18446744073709551616) :
    ((do
        let obj_iter ← (if dup = true then do
            let x ← Ctl.ofRes (Tr.ObjectEntryIterator.next it1)
            Ctl.val x.2
          else Ctl.val it1 : Ctl Bytes Tr.ObjectEntryIterator)
        let builder ← Rs.forIter fuel Tr.ObjectEntryIterator.next obj_iter (⟨ofBKVs B⟩ : Tr.ObjectBuilder) Tr.object_insert_jsonb.loop3
        let x ← Ctl.ofRes (Tr.ObjectBuilder.build_into fuel builder buf)
        Ctl.ret (Res.ok x.2)) : Ctl Bytes Bytes).run =
      buildObjectInto buf (Fn.pushAll B ((if dup = true then rest.drop 1 else rest).map Fn.memberRaw)) := by
  have key : ∀ (it : Tr.ObjectEntryIterator) (n : Nat) (r : List (Bytes × JE × Bytes)), n ≤ fuel →
      drainIter Tr.ObjectEntryIterator.next n it = .ok (r.map ofMember) → (∀ m ∈ r, JEFits m.2.1) →
      r.length ≤ rest.length → mKeySum r ≤ mKeySum rest → mPaySum r ≤ mPaySum rest →
      ((do
        let builder ← Rs.forIter fuel Tr.ObjectEntryIterator.next it (⟨ofBKVs B⟩ : Tr.ObjectBuilder) Tr.object_insert_jsonb.loop3
        let x ← Ctl.ofRes (Tr.ObjectBuilder.build_into fuel builder buf)
        Ctl.ret (Res.ok x.2)) : Ctl Bytes Bytes).run = buildObjectInto buf (Fn.pushAll B (r.map Fn.memberRaw)) := by
    intro it n r hn hd hf hl hks hps
    rw [forIter_total _ pushObj _ oi_loop3_step fuel it,
      drainIter_mono _ n fuel it hn (by rw [hd]; exact fun c => by cases c), hd]
    simp only [Ctl.val_bind', fold_pushObj r B]
    obtain ⟨p1, p2, p3, p4⟩ := pushAll_bounds r B hf hraw
    obtain ⟨n', hT, hM⟩ := object_build_raw _ p1 buf fuel (by omega) (by omega) (by rw [bkeyBytes_length]; omega)
      (by rw [bkeyBytes_length, bpaysK_length]; omega)
    rw [hT, hM]
    simp only [Ctl.ofRes_ok', Ctl.val_bind', Ctl.run_ret']
  cases dup with
  | false =>
    simp only [Bool.false_eq_true, if_false, Ctl.val_bind']
    exact key it1 n1 rest hn1 hd1 hfit (Nat.le_refl _) (Nat.le_refl _) (Nat.le_refl _)
  | true =>
    cases rest with
    | nil => exact absurd rfl (hdup rfl)
    | cons m rest' =>
      simp only [List.map_cons] at hd1
      obtain ⟨n2, it2, hn2, hnext, hd2⟩ := drain_cons _ n1 it1 (ofMember m) (rest'.map ofMember) hd1
      simp only [if_true, hnext, Ctl.ofRes_ok', Ctl.val_bind', List.drop_succ_cons, List.drop_zero]
      exact key it2 n2 rest' (by omega) hd2 (fun x hx => hfit x (List.mem_cons_of_mem _ hx)) (by simp)
        (by simp [mKeySum]) (by simp [mPaySum])

theorem object_insert_jsonb_agrees (value newKey newValue : Bytes) (update : Bool) (buf : Bytes) (fuel : Nat)
    (hfuel : 536870913 < fuel)
    (hv : value.length < 1152921504606846976) (hk : newKey.length < 1152921504606846976)
    (hn : newValue.length < 1152921504606846976) (hb : buf.length < 1152921504606846976)
    (hok : ObjWalkOK value = true) :
    Tr.object_insert_jsonb fuel value newKey newValue update buf = Fn.objectInsert value newKey newValue update buf := by
  unfold Tr.object_insert_jsonb Fn.objectInsert
  simp only [read_u32_zero]
  cases hr : readU32At value 0 with
  | none => simp only [Ctl.ofRes_err', Ctl.ret_bind', Ctl.run_ret']
  | some h =>
    have hL := hdrLen_lt h
    have h0 : ((0 : Nat) : Int) = 0 := rfl
    have hne : decide (Rs.bitand (h : Int) (C.CONTAINER_HEADER_TYPE_MASK : Int) ≠ (C.OBJECT_CONTAINER_TAG : Int)) =
        !decide (hdrType h = C.OBJECT_CONTAINER_TAG) := by
      rw [← hdrType_eq]; simp
    simp only [Ctl.ofRes_ok', Ctl.val_bind', hne]
    by_cases hO : hdrType h = C.OBJECT_CONTAINER_TAG
    swap
    · simp only [eq_false hO, decide_false, Bool.not_false, if_true, Ctl.ret_bind', Ctl.run_ret', ne_eq, not_false_eq_true]
    simp only [eq_true hO, decide_true, Bool.not_true, Bool.false_eq_true, if_false, Ctl.pure_eq', Ctl.val_bind',
      ne_eq, not_true_eq_false]
    -- the precondition: both collections succeed and list the same keys
    simp only [ObjWalkOK, hr, if_pos hO] at hok
    cases hms : iterObjEntries value h with
    | err e => rw [hms] at hok; simp at hok
    | panic p => rw [hms] at hok; simp at hok
    | fuel => rw [hms] at hok; simp at hok
    | ok ms =>
      cases hkeys : iterObjKeys value h with
      | err e => rw [hms, hkeys] at hok; simp at hok
      | panic p => rw [hms, hkeys] at hok; simp at hok
      | fuel => rw [hms, hkeys] at hok; simp at hok
      | ok keys =>
        rw [hms, hkeys] at hok
        have hkm : keys = ms.map (fun m => m.1) := by simpa using hok
        have hklen : keys.length = ms.length := by rw [hkm]; simp
        -- bounds on the members
        have hbounds : ms.length ≤ hdrLen h ∧ (∀ m ∈ ms, JEFits m.2.1) ∧ mKeySum ms ≤ value.length ∧ mPaySum ms ≤ value.length := by
          unfold iterObjEntries at hms
          dsimp only at hms
          cases hfk : fillKeys value (hdrLen h) 4 (4 + hdrLen h * 8) with
          | none => rw [hfk] at hms; cases hms
          | some q => obtain ⟨ks, jo, vo⟩ := q; rw [hfk] at hms; exact obj_members_bounds value h ks jo vo ms hfk hms
        obtain ⟨hb1, hb2, hb3, hb4⟩ := hbounds
        -- the key walk
        rw [iteate_object_keys_agrees]
        simp only [Ctl.ofRes_ok', Ctl.val_bind']
        unfold Rs.forIterEnum
        rw [forIterEnumFrom_of_drain _ _ fuel 0 _ keys _
          (by rw [iteate_object_keys_drain_fuel value h fuel (by omega) _ (iteate_object_keys_agrees value h)]; exact hkeys)]
        have hrun := oi_loop1_run newKey update buf keys 0 0 (by omega)
        rw [h0] at hrun
        rw [hrun]
        cases hpos : Fn.insertPos newKey update keys 0 0 with
        | err e => simp only [Ctl.ret_bind', Ctl.run_ret']
        | panic p => simp only [Ctl.ret_bind', Ctl.run_ret']
        | fuel => simp only [Ctl.ret_bind', Ctl.run_ret']
        | ok r =>
          obtain ⟨idx, dup⟩ := r
          obtain ⟨hi1, hi2, _⟩ := insertPos_bounds newKey update keys 0 0 idx dup (Nat.le_refl _) hpos
          simp only [Nat.zero_add] at hi1 hi2
          simp only [Ctl.val_bind', object_builder_new_agrees, Ctl.ofRes_ok', iterate_object_entries_agrees]
          -- the first `idx` members
          have hdrain := drain_object_ok value h fuel ms (by omega) hms
          obtain ⟨it1, n1, hn1, hl2, hd1⟩ := oi_loop2_run idx ((0 : Nat) : Int) fuel _ ms [] (by omega) hdrain
          rw [← h0, Rs.forRange_nat, Nat.sub_zero, hl2]
          simp only [Ctl.val_bind', read_u32_zero]
          cases hrn : readU32At newValue 0 with
          | none => simp only [Ctl.ofRes_err', Ctl.ret_bind', Ctl.run_ret']
          | some nh =>
            simp only [Ctl.ofRes_ok', Ctl.val_bind', hdrType_eq]
            simp only [Bool.or_eq_true, decide_eq_true_eq]
            obtain ⟨t1, t2, t3, t4⟩ := mSum_take_drop ms idx
            obtain ⟨a1, a2, a3, a4⟩ := pushAll_bounds (ms.take idx) [] (fun m hm => hb2 m (List.mem_of_mem_take hm)) (by simp [RawFitsK])
            simp only [keySum, paySum, List.length_nil, List.length_take] at a2 a3 a4
            have hdropfit : ∀ m ∈ ms.drop idx, JEFits m.2.1 := fun m hm => hb2 m (List.mem_of_mem_drop hm)
            have hdroplen : (ms.drop idx).length ≤ ms.length := by simp
            have hdupne : dup = true → ms.drop idx ≠ [] := by
              intro hd hc
              have := hi2 hd
              have hl : (ms.drop idx).length = 0 := by rw [hc]; rfl
              simp only [List.length_drop] at hl
              omega
            by_cases hC : hdrType nh = C.ARRAY_CONTAINER_TAG ∨ hdrType nh = C.OBJECT_CONTAINER_TAG
            · simp only [if_pos hC, make_container_jentry_agrees, Rs.len, Ctl.ofRes_ok', Ctl.val_bind', Fn.containerEntry,
                object_push_raw_agrees]
              obtain ⟨b1, b2, b3, b4⟩ := bInsert_bounds newKey C.CONTAINER_TAG (newValue.length % 4294967296) newValue
                ⟨by decide, Nat.mod_lt _ (by omega)⟩ _ a1
              exact oi_tail value buf fuel hfuel it1 n1 hn1 (ms.drop idx) hd1 dup hdupne _ b1 hdropfit (by omega) (by omega) (by omega)
            · simp only [if_neg hC, read_u32_four, Fn.scalarEntry]
              cases hr4 : readU32At newValue 4 with
              | none => simp only [Ctl.ofRes_err', Ctl.ret_bind', Ctl.run_ret']
              | some w =>
                have h8 := readU32At_some_len newValue 4 w hr4
                have hw := readU32At_lt newValue 4 w hr4
                have hjl := jeLen_lt w
                have hjt : jeType w < 4294967296 := (scalarRaw_fits newValue w hw).1.1.1
                simp only [Ctl.ofRes_ok', Ctl.val_bind', decode_jentry_agrees, (sliceFrom_eight newValue (by omega)).1,
                  (sliceFrom_eight newValue (by omega)).2, object_push_raw_agrees]
                obtain ⟨b1, b2, b3, b4⟩ := bInsert_bounds newKey (jeType w) (jeLen w) (newValue.drop 8)
                  ⟨hjt, by omega⟩ _ a1
                have hdl : (newValue.drop 8).length ≤ newValue.length := by simp
                exact oi_tail value buf fuel hfuel it1 n1 hn1 (ms.drop idx) hd1 dup hdupne _ b1 hdropfit (by omega) (by omega) (by omega)

/-! ## on the encodings of good documents -/

open Jsonb.JV in
/-- **the precondition holds on the encoding of every good document** -/
theorem objWalkOK_encodeSpec (v : JV) (hg : goodTop v = true) : ObjWalkOK (encodeSpec v) = true := by
  unfold ObjWalkOK
  rw [readHdr v hg]
  dsimp only
  cases v with
  | obj kvs =>
    have ⟨hn, hgk⟩ := Fn.goodTop_obj hg
    simp only [hdrOf, hdrType_obj _ hn, if_true]
    have e : encodeSpec (obj kvs) = (entry (obj kvs)).2 ++ [] := by simp [encodeSpec]
    rw [e, iterObjEntries_spec kvs hn hgk [], iterObjKeys_spec kvs hn hgk []]
    simp [memberOf]
  | arr vs =>
    have ⟨hn, _⟩ := Fn.goodTop_arr hg
    simp only [hdrOf, hdrType_arr _ hn]
    rw [if_neg (by decide)]
  | null => simp only [hdrOf, hdrType_sca]; rw [if_neg (by decide)]
  | bool b => simp only [hdrOf, hdrType_sca]; rw [if_neg (by decide)]
  | num n => simp only [hdrOf, hdrType_sca]; rw [if_neg (by decide)]
  | str s => simp only [hdrOf, hdrType_sca]; rw [if_neg (by decide)]

open Jsonb.JV in
/-- **C06 / C13, source-level corollary**: on the encodings of a good document and a good new value the translated
`object_insert_jsonb` IS the model's `objectInsert`, for every key, flag, output buffer and adequate fuel -/
theorem object_insert_encodeSpec_agrees (v new : JV) (hg : goodTop v = true) (hnew : goodTop new = true)
    (key : Bytes) (hk : key.length < 1152921504606846976) (update : Bool) (buf : Bytes)
    (hb : buf.length < 1152921504606846976) (fuel : Nat) (hfuel : 536870913 < fuel) :
    Tr.object_insert_jsonb fuel (encodeSpec v) key (encodeSpec new) update buf =
      Fn.objectInsert (encodeSpec v) key (encodeSpec new) update buf :=
  object_insert_jsonb_agrees _ key _ update buf fuel hfuel (encodeSpec_length_lt60 v hg) hk (encodeSpec_length_lt60 new hnew) hb
    (objWalkOK_encodeSpec v hg)

end Jsonb.TrAgree
