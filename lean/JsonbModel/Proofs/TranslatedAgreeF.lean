/-
Agreement theorems, phase 5b (root): the recursive relational functions of functions.rs, translated from source
by tools/rs2lean5b.py (Generated/Translated5b.lean), equal the hand-written model functions of
Functions/Order.lean.  `lake build JsonbModel.Proofs.TranslatedAgreeF`.
  F1  `KeysAreStrings` (the precondition: every key entry of every nested object is string-typed), agreement
      modulo the text of a panic message, decoded numbers are values of their Rust type
  F2  one unfolding of `compare_scalar` / `compare_container`
  F3  the loop of `compare_array` = `Fn.cmpArrayLoop` (for any callee that agrees with `cmpScalar` below the fuel)
  F4  `compare_array`
  F5  the loops of `compare_object`, one step each; the key loops = `fillKeyEntries`
  F6  the member loop of `compare_object` = `Fn.cmpObjLoop`
  F7  `compare_object` = `Fn.cmpObject`
  F8  the group: `compare_scalar` = `Fn.cmpScalar`, `compare_container` = `Fn.cmpContainer` (strong induction on the
      model's fuel, margin form `f < g`)
  F9  the public `compare` = `Fn.compareDocs` (JSONB) / the selected text branch
  F10 `KeysAreStrings (encodeSpec v)` for every good document; `compare` on two encoded good documents
  F11 the primitives of RustPrelude5b.lean (`saturating_add`, `^` on `i64`); the 8-byte image of an `f64`
      (`s ^ (((s >> 63) as u64) >> 1) as i64`, sign byte toggled) = `Fn.f64Key`
  F12 one unfolding of `scalar_convert_to_comparable`
  F13 the loop of `array_convert_to_comparable` = `Fn.keyArray`
  F14 `array_convert_to_comparable`; the loops of `object_convert_to_comparable`, one step each
  F15 the member loop of `object_convert_to_comparable` = `Fn.keyObjLoop`
  F16 `object_convert_to_comparable` = `Fn.keyObject`; the group: `scalar_convert_to_comparable` = `Fn.keyScalar`
  F17 the public `convert_to_comparable` = `Fn.convertToComparable` (JSONB) / the text branch; on encoded good documents
  F18 `==` on `Number`, `scalar_eq` = `Fn.scalarEq`; `for` over an iterator = `for` over the collected items
      (`forIter_of_drain`, `collectIter_of_drain`); `array_contains` = `Fn.arrayContains`
  F19 where `get_jentry_by_name` can point; the object branch of `contains_jsonb` = `Fn.containsMembers`
  F20 the array branch of `contains_jsonb` = `Fn.containsItems` / `Fn.containsNested`
  F21 `contains_jsonb` = `Fn.containsJsonb` (wherever the model answers without panicking), the public `contains` =
      `Fn.contains` / the text branch; on encoded good documents
-/
import JsonbModel.Proofs.TranslatedAgreeF1
import JsonbModel.Proofs.TranslatedAgreeF2
import JsonbModel.Proofs.TranslatedAgreeF3
import JsonbModel.Proofs.TranslatedAgreeF4
import JsonbModel.Proofs.TranslatedAgreeF5
import JsonbModel.Proofs.TranslatedAgreeF6
import JsonbModel.Proofs.TranslatedAgreeF7
import JsonbModel.Proofs.TranslatedAgreeF8
import JsonbModel.Proofs.TranslatedAgreeF9
import JsonbModel.Proofs.TranslatedAgreeF10
import JsonbModel.Proofs.TranslatedAgreeF11
import JsonbModel.Proofs.TranslatedAgreeF12
import JsonbModel.Proofs.TranslatedAgreeF13
import JsonbModel.Proofs.TranslatedAgreeF14
import JsonbModel.Proofs.TranslatedAgreeF15
import JsonbModel.Proofs.TranslatedAgreeF16
import JsonbModel.Proofs.TranslatedAgreeF17
import JsonbModel.Proofs.TranslatedAgreeF18
import JsonbModel.Proofs.TranslatedAgreeF19
import JsonbModel.Proofs.TranslatedAgreeF20
import JsonbModel.Proofs.TranslatedAgreeF21
