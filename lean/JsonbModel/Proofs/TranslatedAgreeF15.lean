import JsonbModel.Proofs.TranslatedAgreeF14

set_option linter.unusedSimpArgs false
set_option linter.unusedVariables false

namespace Jsonb.TrAgree
open Jsonb.Rs

/-- the final buffer once the member loop is over -/
def finishO (c : Ctl Bytes (List Tr.JEntry × Bytes × Int × Int × Int)) : Res Bytes :=
  match c with
  | .val s => .ok s.2.1
  | .ret r => r

/-- the member loop of `object_convert_to_comparable` is the model's `keyObjLoop` (string-typed key entries) -/
theorem ko_run2 (rec : Int → Tr.JEntry → Bytes → Bytes → Res Bytes) (depth : Nat) (value : Bytes) (hd : depth ≤ 255)
    (hv : value.length < 9223372036854775808) :
    ∀ (ks : List (Nat × Nat)) (f : Nat) (i : Int) (buf : Bytes) (jo ko vo nl k : Nat), KeyRecOK f rec →
      ks.length ≤ nl → KeysOK ks → jo + 4 * ks.length + 4 < 18446744073709551616 →
      kasItems k value nl jo vo = true →
      Fn.keyObjLoop f depth value (ks.map Prod.snd) ko jo vo ≠ .fuel →
      panicAny (finishO (Rs.forRangeAux (Tr.object_convert_to_comparable.loop2 rec (depth : Int) value) ks.length i
          (ks.map ofEntry, buf, (jo : Int), (ko : Int), (vo : Int)))) =
        panicAny ((Fn.keyObjLoop f depth value (ks.map Prod.snd) ko jo vo).map (buf ++ ·)) := by
  intro ks
  induction ks with
  | nil =>
    intro f i buf jo ko vo nl k hrec _ _ _ _ hne
    cases f with
    | zero => simp [Fn.keyObjLoop] at hne
    | succ f => simp [Fn.keyObjLoop, Rs.forRangeAux_zero, finishO, Res.map, Res.bind]
  | cons kk ks ih =>
    intro f i buf jo ko vo nl k hrec hnl hks hjo hk hne
    cases f with
    | zero => simp [Fn.keyObjLoop] at hne
    | succ f =>
      obtain ⟨⟨hk1, hk2⟩, hks'⟩ := hks.cons
      simp only [List.length_cons] at hnl hjo
      obtain ⟨nl', rfl⟩ : ∃ m, nl = m + 1 := ⟨nl - 1, by omega⟩
      have hstep := ko_loop2_step rec (depth : Int) value i kk (ks.map ofEntry) buf jo ko vo (by omega) (by omega) hv
      simp only [List.map_cons, List.length_cons] at hne ⊢
      rw [Fn.keyObjLoop] at hne ⊢
      by_cases h1 : ko ≤ value.length
      swap
      · rw [if_neg h1] at hstep
        rw [Rs.forRangeAux_ret _ _ _ _ _ hstep, sliceFrom_model_panic _ _ h1]
        rfl
      rw [if_pos h1] at hstep
      rw [sliceFrom_model_ok _ _ h1] at hne ⊢
      dsimp only at hne ⊢
      have hs1 : Fn.keyScalar f depth ⟨C.STRING_TAG, kk.2, 0⟩ (value.drop ko) ≠ .fuel := by
        intro c; rw [c] at hne; exact hne rfl
      have hcall1 := hrec f (by omega) depth ⟨C.STRING_TAG, kk.2, 0⟩ (value.drop ko) buf 1 hd (by simp; omega)
        (by simp only []; omega) (kasScalar_string _) hs1
      have e1 : ofJE ⟨C.STRING_TAG, kk.2, 0⟩ = ofEntry kk := by
        obtain ⟨a, b⟩ := kk; simp only [] at hk1; subst hk1; rfl
      rw [e1] at hcall1
      cases hd1 : Fn.keyScalar f depth ⟨C.STRING_TAG, kk.2, 0⟩ (value.drop ko) with
      | fuel => exact absurd hd1 hs1
      | err e =>
        rw [hd1] at hcall1
        rw [panicAny_err _ _ hcall1] at hstep
        simp only [Ctl.ofRes_err', Ctl.ret_bind'] at hstep
        rw [Rs.forRangeAux_ret _ _ _ _ _ hstep]
        rfl
      | panic p =>
        rw [hd1] at hcall1
        obtain ⟨p', hp'⟩ := panicAny_panic _ _ hcall1
        rw [hp'] at hstep
        simp only [Ctl.ofRes_panic', Ctl.ret_bind'] at hstep
        rw [Rs.forRangeAux_ret _ _ _ _ _ hstep]
        rfl
      | ok k1 =>
        rw [hd1] at hcall1 hne
        rw [panicAny_ok _ _ hcall1] at hstep
        simp only [Ctl.ofRes_ok', Ctl.val_bind'] at hstep
        dsimp only at hne ⊢
        cases hw : readU32At value jo with
        | none =>
          rw [hw] at hstep
          rw [Rs.forRangeAux_ret _ _ _ _ _ hstep]
          simp [finishO, Res.map, Res.bind]
        | some w =>
          rw [hw] at hstep hne
          dsimp only at hstep hne ⊢
          by_cases h2 : vo ≤ value.length
          swap
          · rw [if_neg h2] at hstep
            rw [Rs.forRangeAux_ret _ _ _ _ _ hstep, sliceFrom_model_panic _ _ h2]
            rfl
          rw [if_pos h2] at hstep
          rw [sliceFrom_model_ok _ _ h2] at hne ⊢
          dsimp only at hne ⊢
          obtain ⟨k', hki1, hki2⟩ := kasItems_succ k value nl' jo vo w hk hw
          have hs2 : Fn.keyScalar f depth (JE.ofWord w) (value.drop vo) ≠ .fuel := by
            intro c; rw [c] at hne; exact hne rfl
          have hcall2 := hrec f (by omega) depth (JE.ofWord w) (value.drop vo) (buf ++ k1) k' hd (by simp; omega)
            (by have := jeLen_lt w; simp only [JE.ofWord]; omega) hki1 hs2
          simp only [ofJE, JE.ofWord] at hcall2
          cases hd2 : Fn.keyScalar f depth (JE.ofWord w) (value.drop vo) with
          | fuel => exact absurd hd2 hs2
          | err e =>
            simp only [JE.ofWord] at hd2
            rw [hd2] at hcall2
            rw [panicAny_err _ _ hcall2] at hstep
            simp only [Ctl.ofRes_err', Ctl.ret_bind'] at hstep
            rw [Rs.forRangeAux_ret _ _ _ _ _ hstep]
            rfl
          | panic p =>
            simp only [JE.ofWord] at hd2
            rw [hd2] at hcall2
            obtain ⟨p', hp'⟩ := panicAny_panic _ _ hcall2
            rw [hp'] at hstep
            simp only [Ctl.ofRes_panic', Ctl.ret_bind'] at hstep
            rw [Rs.forRangeAux_ret _ _ _ _ _ hstep]
            rfl
          | ok k2 =>
            rw [hd2] at hne
            simp only [JE.ofWord] at hd2
            rw [hd2] at hcall2
            rw [panicAny_ok _ _ hcall2] at hstep
            simp only [Ctl.ofRes_ok', Ctl.val_bind'] at hstep
            rw [Rs.forRangeAux_next _ _ _ _ _ hstep]
            dsimp only at hne ⊢
            have hne' : Fn.keyObjLoop f depth value (ks.map Prod.snd) (ko + kk.2) (jo + 4) (vo + jeLen w) ≠ .fuel := by
              intro c; rw [c] at hne; exact hne rfl
            rw [ih f (i + 1) (buf ++ k1 ++ k2) (jo + 4) (ko + kk.2) (vo + jeLen w) nl' k' (hrec.mono (by omega)) (by omega)
              hks' (by omega) hki2 hne']
            cases Fn.keyObjLoop f depth value (ks.map Prod.snd) (ko + kk.2) (jo + 4) (vo + jeLen w) <;>
              simp [Res.map, Res.bind, List.append_assoc]

end Jsonb.TrAgree
