/-
Phase 4: `array_insert_jsonb` of functions.rs, translated from source (a `VecDeque` of `(JEntry, &[u8])`
filled from the input, two `while let Some(..) = items.pop_front()` loops around the push of the new
value), against `Fn.arrayInsert` (Functions/Edit.lean).
-/
import JsonbModel.Proofs.TranslatedAgreeD9

set_option linter.unusedSimpArgs false
set_option linter.unusedVariables false

namespace Jsonb.TrAgree
open Jsonb.Rs

/-- a raw builder entry as the queue element `(jentry, item)` -/
def qOf : BEntry → Tr.JEntry × Bytes
  | .raw ty len d => (⟨(ty : Nat), (len : Nat)⟩, d)
  | _ => (⟨0, 0⟩, [])

theorem qOf_rawOf (x : JE × Bytes) : qOf (Fn.rawOf x) = ofItem x := rfl

theorem raw_of_qOf : ∀ (e : BEntry) (es : List BEntry), RawFits (e :: es) → Tr.Entry.Raw (qOf e).1 (qOf e).2 = ofBE e
  | .raw ty len d, _, _ => rfl
  | .arr _, _, h => by simp [RawFits] at h
  | .obj _, _, h => by simp [RawFits] at h

theorem rawFits_tail {e : BEntry} {es : List BEntry} (h : RawFits (e :: es)) : RawFits es := by
  cases e with
  | raw ty len d => exact h.2
  | arr _ => simp [RawFits] at h
  | obj _ => simp [RawFits] at h

/-! ## the loops -/

/-- `for (jentry, item) in iterate_array(..) { items.push_back((jentry, item)) }` -/
theorem ai_loop1_step (x : Tr.JEntry × Bytes) (q : List (Tr.JEntry × Bytes)) :
    Tr.array_insert_jsonb.loop1 x q = (Ctl.val (.next (q ++ [x])) : Ctl Bytes (Step (List (Tr.JEntry × Bytes)))) := by
  obtain ⟨je, d⟩ := x
  unfold Tr.array_insert_jsonb.loop1
  simp only [Rs.pushBack, Ctl.pure_eq', Rs.loopStep_val']

theorem fold_pushBack (items : List (JE × Bytes)) (q : List (Tr.JEntry × Bytes)) :
    (items.map ofItem).foldl (fun s x => s ++ [x]) q = q ++ (items.map Fn.rawOf).map qOf := by
  induction items generalizing q with
  | nil => simp
  | cons x xs ih => simp only [List.map_cons, List.foldl_cons, ih, qOf_rawOf, List.append_assoc, List.cons_append, List.nil_append]

/-- the drain loop after the insertion: everything left in the queue is pushed -/
theorem ai_loop3_run : ∀ (es acc : List BEntry), RawFits es →
    Rs.whileFuel (es.length + 1) (es.map qOf, (⟨ofBEs acc⟩ : Tr.ArrayBuilder)) Tr.array_insert_jsonb.loop3 =
      (Ctl.val ([], ⟨ofBEs (acc ++ es)⟩) : Ctl Bytes (List (Tr.JEntry × Bytes) × Tr.ArrayBuilder))
  | [], acc, _ => by
    have hs : Tr.array_insert_jsonb.loop3 (([] : List (Tr.JEntry × Bytes)), (⟨ofBEs acc⟩ : Tr.ArrayBuilder)) =
        (Ctl.val (.done ([], ⟨ofBEs acc⟩)) : Ctl Bytes (Step (List (Tr.JEntry × Bytes) × Tr.ArrayBuilder))) := by
      unfold Tr.array_insert_jsonb.loop3
      simp only [Rs.popFront, Rs.loopStep_brk']
    simp only [List.map_nil, List.length_nil, List.append_nil]
    rw [Rs.whileFuel_done _ _ _ _ hs]
  | e :: es, acc, h => by
    have hs : Tr.array_insert_jsonb.loop3 ((e :: es).map qOf, (⟨ofBEs acc⟩ : Tr.ArrayBuilder)) =
        (Ctl.val (.next (es.map qOf, ⟨ofBEs (acc ++ [e])⟩)) : Ctl Bytes (Step (List (Tr.JEntry × Bytes) × Tr.ArrayBuilder))) := by
      unfold Tr.array_insert_jsonb.loop3
      simp only [List.map_cons, Rs.popFront, array_push_raw_any, Ctl.ofRes_ok', Ctl.val_bind', Ctl.pure_eq', Rs.loopStep_val',
        raw_of_qOf e es h, ofBEs_append, ofBEs]
    simp only [List.length_cons]
    rw [Rs.whileFuel_next _ _ _ _ hs, ai_loop3_run es (acc ++ [e]) (rawFits_tail h)]
    simp only [List.append_assoc, List.cons_append, List.nil_append]

/-- the loop before the insertion: at most `idx - i` elements move from the queue to the builder -/
theorem ai_loop2_run (idx : Nat) (hidx : idx < 4294967296) : ∀ (es acc : List BEntry) (i : Nat), RawFits es → i < idx →
    ∃ i' : Int, Rs.whileFuel (es.length + 1) (es.map qOf, (⟨ofBEs acc⟩ : Tr.ArrayBuilder), (i : Int)) (Tr.array_insert_jsonb.loop2 (idx : Int)) =
      (Ctl.val ((es.drop (idx - i)).map qOf, ⟨ofBEs (acc ++ es.take (idx - i))⟩, i') :
        Ctl Bytes (List (Tr.JEntry × Bytes) × Tr.ArrayBuilder × Int))
  | [], acc, i, _, _ => by
    have hs : Tr.array_insert_jsonb.loop2 (idx : Int) (([] : List (Tr.JEntry × Bytes)), (⟨ofBEs acc⟩ : Tr.ArrayBuilder), (i : Int)) =
        (Ctl.val (.done ([], ⟨ofBEs acc⟩, (i : Int))) : Ctl Bytes (Step (List (Tr.JEntry × Bytes) × Tr.ArrayBuilder × Int))) := by
      unfold Tr.array_insert_jsonb.loop2
      simp only [Rs.popFront, Rs.loopStep_brk']
    refine ⟨(i : Int), ?_⟩
    simp only [List.map_nil, List.length_nil, List.drop_nil, List.take_nil, List.append_nil]
    rw [Rs.whileFuel_done _ _ _ _ hs]
  | e :: es, acc, i, h, hi => by
    have h1 : ((1 : Nat) : Int) = 1 := rfl
    by_cases hlast : i + 1 ≥ idx
    · have hk : idx - i = 1 := by omega
      have hs : Tr.array_insert_jsonb.loop2 (idx : Int) ((e :: es).map qOf, (⟨ofBEs acc⟩ : Tr.ArrayBuilder), (i : Int)) =
          (Ctl.val (.done (es.map qOf, ⟨ofBEs (acc ++ [e])⟩, ((i + 1 : Nat) : Int))) :
            Ctl Bytes (Step (List (Tr.JEntry × Bytes) × Tr.ArrayBuilder × Int))) := by
        unfold Tr.array_insert_jsonb.loop2
        have hge : (((i + 1 : Nat) : Int) ≥ (idx : Int)) = True := eq_true (by omega)
        simp only [List.map_cons, Rs.popFront, array_push_raw_any, Ctl.ofRes_ok', Ctl.val_bind', ← h1,
          Rs.add_usize_nat i 1 (by omega), hge, decide_true, if_true, Ctl.ret_bind', Rs.loopStep_brk',
          raw_of_qOf e es h, ofBEs_append, ofBEs]
      refine ⟨((i + 1 : Nat) : Int), ?_⟩
      simp only [List.length_cons, hk, List.drop_succ_cons, List.drop_zero, List.take_succ_cons, List.take_zero]
      rw [Rs.whileFuel_done _ _ _ _ hs]
    · have hs : Tr.array_insert_jsonb.loop2 (idx : Int) ((e :: es).map qOf, (⟨ofBEs acc⟩ : Tr.ArrayBuilder), (i : Int)) =
          (Ctl.val (.next (es.map qOf, ⟨ofBEs (acc ++ [e])⟩, ((i + 1 : Nat) : Int))) :
            Ctl Bytes (Step (List (Tr.JEntry × Bytes) × Tr.ArrayBuilder × Int))) := by
        unfold Tr.array_insert_jsonb.loop2
        have hge : (((i + 1 : Nat) : Int) ≥ (idx : Int)) = False := eq_false (by omega)
        simp only [List.map_cons, Rs.popFront, array_push_raw_any, Ctl.ofRes_ok', Ctl.val_bind', ← h1,
          Rs.add_usize_nat i 1 (by omega), hge, decide_false, Bool.false_eq_true, if_false, Ctl.pure_eq', Rs.loopStep_val',
          raw_of_qOf e es h, ofBEs_append, ofBEs]
      obtain ⟨i', hrun⟩ := ai_loop2_run idx hidx es (acc ++ [e]) (i + 1) (rawFits_tail h) (by omega)
      refine ⟨i', ?_⟩
      obtain ⟨k, hk⟩ : ∃ k, idx - i = k + 1 := ⟨idx - i - 1, by omega⟩
      have hk' : idx - (i + 1) = k := by omega
      simp only [List.length_cons, hk, List.drop_succ_cons, List.take_succ_cons]
      rw [Rs.whileFuel_next _ _ _ _ hs, hrun, hk']
      simp only [List.append_assoc, List.cons_append, List.nil_append]

/-! ## the function -/

theorem containerEntry_fits (value : Bytes) :
    RawFits [Fn.containerEntry value] ∧ (bpaysL [Fn.containerEntry value]).length ≤ value.length := by
  refine ⟨by simp only [Fn.containerEntry, RawFits]; exact ⟨⟨by decide, Nat.mod_lt _ (by decide)⟩, trivial⟩, ?_⟩
  simp [bpaysL, Fn.containerEntry, bspec_raw]

theorem scalarRaw_fits (value : Bytes) (w : Nat) (hw : w < 4294967296) :
    RawFits [BEntry.raw (jeType w) (jeLen w) (value.drop 8)] ∧
      (bpaysL [BEntry.raw (jeType w) (jeLen w) (value.drop 8)]).length ≤ value.length := by
  refine ⟨by simp only [RawFits]; exact ⟨jeFits_ofWord w hw, trivial⟩, ?_⟩
  simp [bpaysL, bspec_raw]

theorem rawFits_take_drop (es : List BEntry) (h : RawFits es) (k : Nat) : RawFits (es.take k) ∧ RawFits (es.drop k) := by
  have := (rawFits_append (es.take k) (es.drop k)).1 (by rw [List.take_append_drop]; exact h)
  exact this

theorem bpaysL_take_drop (es : List BEntry) (k : Nat) :
    (bpaysL (es.take k)).length + (bpaysL (es.drop k)).length = (bpaysL es).length := by
  have := congrArg List.length (bpaysL_append (es.take k) (es.drop k))
  rw [List.take_append_drop, List.length_append] at this
  omega

/-- **`array_insert_jsonb`, translated from source, is the model's `Fn.arrayInsert`**: for every byte strings
`value` / `new_value`, every `i32` position, every prior buffer, lengths below `2^60`, and every fuel above
the largest entry count a header can hold -/
theorem array_insert_jsonb_agrees (value : Bytes) (pos : Int) (newValue buf : Bytes) (fuel : Nat)
    (hpos : -2147483648 ≤ pos ∧ pos ≤ 2147483647) (hfuel : 536870913 < fuel)
    (hv : value.length < 1152921504606846976) (hn : newValue.length < 1152921504606846976)
    (hb : buf.length < 1152921504606846976) :
    Tr.array_insert_jsonb fuel value pos newValue buf = Fn.arrayInsert value pos newValue buf := by
  unfold Tr.array_insert_jsonb Fn.arrayInsert
  simp only [read_u32_zero]
  cases hr : readU32At value 0 with
  | none => simp only [Ctl.ofRes_err', Ctl.ret_bind', Ctl.run_ret']
  | some h =>
    have hL0 := hdrLen_lt h
    have h1 : ((1 : Nat) : Int) = 1 := rfl
    simp only [Ctl.ofRes_ok', Ctl.val_bind', hdrType_eq, hdrLen_cast_i32, hdrLen_cast]
    simp only [decide_eq_true_eq]
    -- the element count `len` (1 for a non-array)
    obtain ⟨L, hLdef, hLA, hLN, hLlt⟩ : ∃ L : Nat, (if hdrType h = C.ARRAY_CONTAINER_TAG then ((hdrLen h : Nat) : Int) else 1) = (L : Int) ∧
        (hdrType h = C.ARRAY_CONTAINER_TAG → L = hdrLen h) ∧ (¬ hdrType h = C.ARRAY_CONTAINER_TAG → L = 1) ∧ L < 536870912 := by
      by_cases hA : hdrType h = C.ARRAY_CONTAINER_TAG
      · exact ⟨hdrLen h, by rw [if_pos hA], fun _ => rfl, fun hn => absurd hA hn, hL0⟩
      · exact ⟨1, by rw [if_neg hA]; rfl, fun ha => absurd ha hA, fun _ => rfl, by omega⟩
    simp only [hLdef]
    -- the adjusted position: both sides continue with the same `idx0`, an `i32` value
    by_cases hneg : pos < 0
    case' pos =>
      have hadd : Fn.addI32 ((L : Nat) : Int) pos = .ok (((L : Nat) : Int) + pos) := by
        unfold Fn.addI32; dsimp only; rw [if_pos (by omega)]
      have hbnd : -2147483648 ≤ ((L : Nat) : Int) + pos ∧ ((L : Nat) : Int) + pos ≤ 2147483647 := by omega
      have hin : IntTy.i32.InRange (((L : Nat) : Int) + pos) := by
        rw [Rs.inRange_iff]; simp [IntTy.minVal, IntTy.maxVal, IntTy.signed, IntTy.bits]; omega
      have hadd1 : Rs.add .i32 ((L : Nat) : Int) pos = .ok (((L : Nat) : Int) + pos) := Rs.add_ok _ _ _ hin
      have hadd2 : Rs.add .i32 pos ((L : Nat) : Int) = .ok (((L : Nat) : Int) + pos) := by
        have := Rs.add_ok .i32 pos ((L : Nat) : Int) (by rw [Int.add_comm]; exact hin)
        rw [Int.add_comm pos] at this; exact this
      rw [if_pos hneg, if_pos hneg, hadd]
      simp only [hadd1, hadd2, Ctl.ofRes_ok', Ctl.val_bind', Ctl.pure_eq']
      clear hadd1 hadd2 hin hadd
      generalize ((L : Nat) : Int) + pos = idx0 at hbnd ⊢
      clear hneg hpos
      revert idx0
    case' neg =>
      have hbnd := hpos
      rw [if_neg hneg, if_neg hneg]
      simp only [Ctl.pure_eq', Ctl.val_bind']
      clear hneg hpos
      revert pos
    all_goals
      intro idx0 hbnd
      -- the clamped index, a natural number `≤ L`
      obtain ⟨idx, hidxT, hidxM, hidxle⟩ : ∃ idx : Nat,
          Rs.cast .usize (if idx0 < 0 then (0 : Int) else if idx0 > (L : Int) then (L : Int) else idx0) = (idx : Int) ∧
          (if idx0 < 0 then 0 else if idx0 > (L : Int) then ((L : Nat) : Int).toNat else idx0.toNat) = idx ∧ idx ≤ L := by
        by_cases h0 : idx0 < 0
        · exact ⟨0, by simp [h0]; rfl, by simp [h0], by omega⟩
        · by_cases hgt : idx0 > (L : Int)
          · exact ⟨L, by simp [h0, hgt]; exact Rs.usize_nat _ (by omega), by simp [h0, hgt], by omega⟩
          · refine ⟨idx0.toNat, ?_, by simp [h0, hgt], by omega⟩
            simp only [h0, hgt, if_false]
            have : idx0 = ((idx0.toNat : Nat) : Int) := by omega
            rw [this]; exact Rs.usize_nat _ (by omega)
      have hLc : Rs.cast .usize ((L : Nat) : Int) = ((L : Nat) : Int) := Rs.usize_nat _ (by omega)
      have hcap : Rs.vecWithCapacity (Tr.JEntry × Bytes) 24 ((L : Nat) : Int) = .ok [] := vecWithCapacity_ok _ _ _ (by omega)
      have haddL : Rs.add .usize ((L : Nat) : Int) 1 = .ok ((L + 1 : Nat) : Int) := by
        rw [← h1]; exact Rs.add_usize_nat _ _ (by omega)
      simp only [hidxT, hidxM, hLc, hcap, haddL, Ctl.ofRes_ok', Ctl.val_bind', array_builder_new_agrees (L + 1) (by omega),
        iterate_array_agrees, read_u32_four, make_container_jentry_agrees, Rs.len, Rs.pushBack, List.nil_append]
      clear hidxT hidxM
      -- the queue of the old elements
      by_cases hA : hdrType h = C.ARRAY_CONTAINER_TAG
      case' pos =>
        have hLh := hLA hA
        simp only [eq_true hA, if_true]
        rw [forIter_array value h fuel (by omega) (fun x s => s ++ [x]) _ ai_loop1_step]
        cases hit : iterArray value h
        case' err e => exact absurd hit (iterArray_ne_err _ _ _)
        case' panic p => simp only [Ctl.ret_bind', Ctl.run_ret', Res.map, Res.bind]
        case' fuel => exact absurd hit (iterArray_ne_fuel _ _)
        case' ok items0 =>
          obtain ⟨hb1, hb2, hb3⟩ := iterArray_bounds value h items0 hit
          have hq := fold_pushBack items0 []
          simp only [List.nil_append] at hq
          simp only [Ctl.val_bind', hq, Res.map, Res.bind]
          have hfacts : RawFits (items0.map Fn.rawOf) ∧ (items0.map Fn.rawOf).length ≤ L ∧
              (bpaysL (items0.map Fn.rawOf)).length ≤ value.length :=
            ⟨rawFits_map_rawOf _ hb2, by simp only [List.length_map]; omega, by rw [bpaysL_map_rawOf]; omega⟩
          generalize items0.map Fn.rawOf = items at hfacts ⊢
          clear hit hb1 hb2 hb3 hq
          revert items
      case' neg =>
        have hL1 := hLN hA
        simp only [eq_false hA, if_false]
        by_cases hO : hdrType h = C.OBJECT_CONTAINER_TAG
        case' pos =>
          have hq : [((⟨((C.CONTAINER_TAG : Nat) : Int), ((value.length % 4294967296 : Nat) : Int)⟩ : Tr.JEntry), value)] =
              [Fn.containerEntry value].map qOf := rfl
          have hfacts : RawFits [Fn.containerEntry value] ∧ [Fn.containerEntry value].length ≤ L ∧
              (bpaysL [Fn.containerEntry value]).length ≤ value.length :=
            ⟨(containerEntry_fits value).1, by simp; omega, (containerEntry_fits value).2⟩
          simp only [eq_true hO, if_true, Ctl.pure_eq', Ctl.val_bind', hq]
          generalize [Fn.containerEntry value] = items at hfacts ⊢
          clear hq
          revert items
        case' neg =>
          simp only [eq_false hO, if_false, Fn.scalarEntry]
          cases hr4 : readU32At value 4
          case' none => simp only [Ctl.ofRes_err', Ctl.ret_bind', Ctl.run_ret', Res.map, Res.bind]
          case' some w =>
            have h8 := readU32At_some_len value 4 w hr4
            have hw := readU32At_lt value 4 w hr4
            have hq : [((⟨((jeType w : Nat) : Int), ((jeLen w : Nat) : Int)⟩ : Tr.JEntry), value.drop 8)] =
                [BEntry.raw (jeType w) (jeLen w) (value.drop 8)].map qOf := rfl
            have hfacts : RawFits [BEntry.raw (jeType w) (jeLen w) (value.drop 8)] ∧
                [BEntry.raw (jeType w) (jeLen w) (value.drop 8)].length ≤ L ∧
                (bpaysL [BEntry.raw (jeType w) (jeLen w) (value.drop 8)]).length ≤ value.length :=
              ⟨(scalarRaw_fits value w hw).1, by simp; omega, (scalarRaw_fits value w hw).2⟩
            simp only [Ctl.ofRes_ok', Ctl.val_bind', decode_jentry_agrees, (sliceFrom_eight value (by omega)).1,
              (sliceFrom_eight value (by omega)).2, Ctl.pure_eq', hq, Res.map, Res.bind]
            generalize [BEntry.raw (jeType w) (jeLen w) (value.drop 8)] = items at hfacts ⊢
            clear hq hr4
            revert items
      all_goals
        intro items hfacts
        obtain ⟨hraw, hlen, hpay⟩ := hfacts
        -- the elements before the insertion point
        have hpre : ∃ i' : Int, (if ((idx : Nat) : Int) > 0 then
              (Rs.whileFuel ((((items.map qOf).length : Nat) : Int).toNat + 1) (items.map qOf, (⟨ofBEs []⟩ : Tr.ArrayBuilder), (0 : Int))
                (Tr.array_insert_jsonb.loop2 (idx : Int)) >>= fun st => (Ctl.val (st.1, st.2.1) : Ctl Bytes _))
              else Ctl.val (items.map qOf, (⟨ofBEs []⟩ : Tr.ArrayBuilder))) =
            (Ctl.val ((items.drop idx).map qOf, (⟨ofBEs (items.take idx)⟩ : Tr.ArrayBuilder)) : Ctl Bytes _) ∧ i' = i' := by
          by_cases hi0 : idx = 0
          · subst hi0
            exact ⟨0, by simp, rfl⟩
          · obtain ⟨i', hrun⟩ := ai_loop2_run idx (by omega) items [] 0 hraw (by omega)
            refine ⟨i', ?_, rfl⟩
            have hg : (((idx : Nat) : Int) > 0) = True := eq_true (by omega)
            have h0 : ((0 : Nat) : Int) = 0 := rfl
            simp only [hg, if_true, List.length_map, Int.toNat_natCast]
            rw [← h0, hrun]
            simp only [Ctl.val_bind', Ctl.pure_eq', Nat.sub_zero, List.nil_append]
        obtain ⟨_, hpre', _⟩ := hpre
        rw [hpre']
        simp only [Ctl.val_bind']
        clear hpre'
        -- the new value
        cases hrn : readU32At newValue 0
        case' none => simp only [Ctl.ofRes_err', Ctl.ret_bind', Ctl.run_ret']
        case' some nh =>
          simp only [Ctl.ofRes_ok', Ctl.val_bind', hdrType_eq, array_push_raw_any]
          simp only [← Bool.decide_or, decide_eq_true_eq]
          by_cases hC : hdrType nh = C.ARRAY_CONTAINER_TAG ∨ hdrType nh = C.OBJECT_CONTAINER_TAG
          case' pos =>
            have he : ofBEs (items.take idx) ++
                [Tr.Entry.Raw ⟨((C.CONTAINER_TAG : Nat) : Int), ((newValue.length % 4294967296 : Nat) : Int)⟩ newValue]
                = ofBEs (items.take idx ++ [Fn.containerEntry newValue]) := by rw [ofBEs_append]; rfl
            have hf := containerEntry_fits newValue
            simp only [eq_true hC, if_true, Ctl.ofRes_ok', Ctl.val_bind', he]
            generalize Fn.containerEntry newValue = ne at hf ⊢
            clear he
            revert ne
          case' neg =>
            simp only [eq_false hC, if_false, Fn.scalarEntry]
            cases hr4n : readU32At newValue 4
            case' none => simp only [Ctl.ofRes_err', Ctl.ret_bind', Ctl.run_ret']
            case' some wn =>
              have h8n := readU32At_some_len newValue 4 wn hr4n
              have hwn := readU32At_lt newValue 4 wn hr4n
              have he : ofBEs (items.take idx) ++
                  [Tr.Entry.Raw ⟨((jeType wn : Nat) : Int), ((jeLen wn : Nat) : Int)⟩ (newValue.drop 8)]
                  = ofBEs (items.take idx ++ [BEntry.raw (jeType wn) (jeLen wn) (newValue.drop 8)]) := by rw [ofBEs_append]; rfl
              have hf := scalarRaw_fits newValue wn hwn
              simp only [Ctl.ofRes_ok', Ctl.val_bind', decode_jentry_agrees, (sliceFrom_eight newValue (by omega)).1,
                (sliceFrom_eight newValue (by omega)).2, he]
              generalize BEntry.raw (jeType wn) (jeLen wn) (newValue.drop 8) = ne at hf ⊢
              clear he hr4n
              revert ne
          all_goals
            intro ne hf
            obtain ⟨hrd1, hrd2⟩ := rawFits_take_drop items hraw idx
            have hdl : (((items.drop idx).map qOf).length : Int).toNat = (items.drop idx).length := by simp
            rw [hdl, ai_loop3_run (items.drop idx) (items.take idx ++ [ne]) hrd2]
            simp only [Ctl.val_bind', List.append_assoc, List.cons_append, List.nil_append]
            have hraw' : RawFits (items.take idx ++ ne :: items.drop idx) := by
              have : items.take idx ++ ne :: items.drop idx = items.take idx ++ ([ne] ++ items.drop idx) := by simp
              rw [this]
              exact (rawFits_append _ _).2 ⟨hrd1, (rawFits_append _ _).2 ⟨hf.1, hrd2⟩⟩
            have hsum := bpaysL_take_drop items idx
            have hlt : (items.take idx).length + (items.drop idx).length = items.length := by
              rw [← List.length_append, List.take_append_drop]
            obtain ⟨n, hT, hM⟩ := array_build_raw _ hraw' buf fuel (by omega)
              (by simp only [List.length_append, List.length_cons]; omega)
              (by
                have e : bpaysL (items.take idx ++ ne :: items.drop idx) =
                    bpaysL (items.take idx) ++ (bpaysL [ne] ++ bpaysL (items.drop idx)) := by
                  have : items.take idx ++ ne :: items.drop idx = items.take idx ++ ([ne] ++ items.drop idx) := by simp
                  rw [this, bpaysL_append, bpaysL_append]
                simp only [e, List.length_append, List.length_cons]
                omega)
            rw [hT, hM]
            simp only [Ctl.ofRes_ok', Ctl.val_bind', Ctl.run_ret']

end Jsonb.TrAgree
