import JsonbModel.Proofs.TranslatedAgreeF8

set_option linter.unusedSimpArgs false
set_option linter.unusedVariables false

namespace Jsonb.TrAgree
open Jsonb.Rs

/-! ## the public `compare` -/

/-- the three text branches: `compare` returns the result of the branch the sniffing tests select -/
theorem compare_text_agrees (fuel : Nat) (left right : Bytes) (t1 t2 t3 : Res Ordering)
    (h : ¬ (isJsonb left = true ∧ isJsonb right = true)) :
    Tr.compare fuel left right t1 t2 t3 =
      if !isJsonb left && !isJsonb right then t1 else if !isJsonb left then t2 else t3 := by
  unfold Tr.compare
  simp only [is_jsonb_agrees, Ctl.ofRes_ok', Ctl.val_bind']
  cases hl : isJsonb left <;> cases hr : isJsonb right <;>
    simp_all [Ctl.ret_bind', Ctl.run_ret', Ctl.pure_eq', Ctl.val_bind']

theorem keysAreStrings_scalar (buf : Bytes) (h w : Nat) (hk : KeysAreStrings buf = true) (hh : readU32At buf 0 = some h)
    (ht : hdrType h = C.SCALAR_CONTAINER_TAG) (hw : readU32At buf 4 = some w) :
    kasScalar (buf.length + 8) (jeType w) (buf.drop 8) = true := by
  simpa only [KeysAreStrings, hh, ht, if_true, hw] using hk

theorem keysAreStrings_container (buf : Bytes) (h : Nat) (hk : KeysAreStrings buf = true) (hh : readU32At buf 0 = some h)
    (ht : hdrType h ≠ C.SCALAR_CONTAINER_TAG) : kasContainer (buf.length + 8) buf = true := by
  simpa only [KeysAreStrings, hh, if_neg ht] using hk

/-- **`compare` on two JSONB buffers** whose key entries are string-typed: the model's `compareDocs`, up to
the text of a panic message.  (`left.length < 2^63` holds for every Rust slice.) -/
theorem compare_jsonb_agrees (fuel : Nat) (left right : Bytes) (t1 t2 t3 : Res Ordering)
    (hjl : isJsonb left = true) (hjr : isJsonb right = true)
    (hfuel : left.length + right.length + 8 < fuel)
    (hl : left.length < 9223372036854775808) (hr : right.length < 9223372036854775808)
    (hkl : KeysAreStrings left = true) (hkr : KeysAreStrings right = true)
    (hne : Fn.compareDocs left right ≠ .fuel) :
    panicAny (Tr.compare fuel left right t1 t2 t3) = panicAny (Fn.compareDocs left right) := by
  unfold Tr.compare
  unfold Fn.compareDocs at hne ⊢
  simp only [is_jsonb_agrees, hjl, hjr, Ctl.ofRes_ok', Ctl.val_bind', Bool.not_true, Bool.false_eq_true, if_false,
    Ctl.pure_eq', read_u32_zero]
  cases hlh : readU32At left 0 with
  | none => simp only [Ctl.ofRes_err', Ctl.ret_bind', Ctl.run_ret']
  | some lh =>
    cases hrh : readU32At right 0 with
    | none => simp only [Ctl.ofRes_ok', Ctl.ofRes_err', Ctl.val_bind', Ctl.ret_bind', Ctl.run_ret']
    | some rh =>
      rw [hlh, hrh] at hne
      have h4l := readU32At_some_len _ _ _ hlh
      have h4r := readU32At_some_len _ _ _ hrh
      have h4 : ((4 : Nat) : Int) = 4 := rfl
      have h8 : ((8 : Nat) : Int) = 8 := rfl
      simp only [Ctl.ofRes_ok', Ctl.val_bind', hdrType_eq]
      simp only [Bool.and_eq_true, Bool.or_eq_true, decide_eq_true_eq] at hne ⊢
      obtain ⟨g, rfl⟩ : ∃ m, fuel = m + 1 := ⟨fuel - 1, by omega⟩
      by_cases c1 : hdrType lh = C.SCALAR_CONTAINER_TAG ∧ hdrType rh = C.SCALAR_CONTAINER_TAG
      · simp only [if_pos c1, read_u32_four] at hne ⊢
        cases hlw : readU32At left 4 with
        | none => simp only [Ctl.ofRes_err', Ctl.ret_bind', Ctl.run_ret', readJe_none _ _ hlw]
        | some lw =>
          cases hrw : readU32At right 4 with
          | none =>
            simp only [Ctl.ofRes_ok', Ctl.ofRes_err', Ctl.val_bind', Ctl.ret_bind', Ctl.run_ret', decode_jentry_agrees,
              readJe_none _ _ hrw, readJe_some _ _ _ hlw]
          | some rw =>
            have h8l := readU32At_some_len _ _ _ hlw
            have h8r := readU32At_some_len _ _ _ hrw
            simp only [readJe_some _ _ _ hlw, readJe_some _ _ _ hrw, sliceFrom_model_ok left 8 (by omega),
              sliceFrom_model_ok right 8 (by omega)] at hne
            simp only [Ctl.ofRes_ok', Ctl.val_bind', decode_jentry_agrees, ← h8, sliceFrom_nat left 8 (by omega),
              sliceFrom_nat right 8 (by omega), Ctl.run_ret', readJe_some _ _ _ hlw, readJe_some _ _ _ hrw,
              sliceFrom_model_ok left 8 (by omega), sliceFrom_model_ok right 8 (by omega)]
            have := compare_scalar_agrees (left.length + right.length + 8) (g + 1) (JE.ofWord lw) (JE.ofWord rw)
              (left.drop 8) (right.drop 8) (left.length + 8) (right.length + 8) hfuel (by simp; omega) (by simp; omega)
              (by have := jeLen_lt lw; simp only [JE.ofWord]; omega) (by have := jeLen_lt rw; simp only [JE.ofWord]; omega)
              (keysAreStrings_scalar left lh lw hkl hlh c1.1 hlw) (keysAreStrings_scalar right rh rw hkr hrh c1.2 hrw) hne
            simpa only [ofJE, JE.ofWord] using this
      simp only [if_neg c1] at hne ⊢
      by_cases c2 : hdrType lh = C.ARRAY_CONTAINER_TAG ∧ hdrType rh = C.ARRAY_CONTAINER_TAG
      · have c2' : (hdrType lh = C.ARRAY_CONTAINER_TAG ∧ hdrType rh = C.ARRAY_CONTAINER_TAG) ∨
            (hdrType lh = C.OBJECT_CONTAINER_TAG ∧ hdrType rh = C.OBJECT_CONTAINER_TAG) := Or.inl c2
        simp only [if_pos c2, if_pos c2'] at hne ⊢
        simp only [← h4, sliceFrom_nat left 4 (by omega), sliceFrom_nat right 4 (by omega), Ctl.ofRes_ok', Ctl.val_bind',
          Ctl.run_ret']
        obtain ⟨F, hF⟩ : ∃ m, left.length + right.length + 8 = m + 1 := ⟨left.length + right.length + 7, by omega⟩
        rw [hF] at hne ⊢
        rw [cmpContainer_arr F left right lh rh hlh hrh c2.1 c2.2] at hne ⊢
        obtain ⟨kl', hkl'⟩ := kasContainer_arr _ left lh
          (keysAreStrings_container left lh hkl hlh (by rw [c2.1]; decide)) hlh c2.1
        obtain ⟨kr', hkr'⟩ := kasContainer_arr _ right rh
          (keysAreStrings_container right rh hkr hrh (by rw [c2.2]; decide)) hrh c2.2
        exact compare_array_step g F lh rh (left.drop 4) (right.drop 4) kl' kr' (by simp; omega) (by simp; omega)
          (recOK_of_IH F g (fun f' _ => scalarAgree_all f') (by omega)) hkl' hkr' hne
      simp only [if_neg c2] at hne ⊢
      by_cases c3 : hdrType lh = C.OBJECT_CONTAINER_TAG ∧ hdrType rh = C.OBJECT_CONTAINER_TAG
      · have c3' : (hdrType lh = C.ARRAY_CONTAINER_TAG ∧ hdrType rh = C.ARRAY_CONTAINER_TAG) ∨
            (hdrType lh = C.OBJECT_CONTAINER_TAG ∧ hdrType rh = C.OBJECT_CONTAINER_TAG) := Or.inr c3
        simp only [if_pos c3, if_pos c3'] at hne ⊢
        simp only [← h4, sliceFrom_nat left 4 (by omega), sliceFrom_nat right 4 (by omega), Ctl.ofRes_ok', Ctl.val_bind',
          Ctl.run_ret']
        obtain ⟨F, hF⟩ : ∃ m, left.length + right.length + 8 = m + 2 := ⟨left.length + right.length + 6, by omega⟩
        rw [hF] at hne ⊢
        rw [cmpContainer_obj (F + 1) left right lh rh hlh hrh c3.1 c3.2] at hne ⊢
        obtain ⟨kl', hkl'⟩ := kasContainer_obj _ left lh
          (keysAreStrings_container left lh hkl hlh (by rw [c3.1]; decide)) hlh c3.1
        obtain ⟨kr', hkr'⟩ := kasContainer_obj _ right rh
          (keysAreStrings_container right rh hkr hrh (by rw [c3.2]; decide)) hrh c3.2
        exact compare_object_step g F lh rh (left.drop 4) (right.drop 4) kl' kr' (by simp; omega) (by simp; omega)
          (recOK_of_IH F g (fun f' _ => scalarAgree_all f') (by omega)) hkl' hkr' hne
      have c23 : ¬ ((hdrType lh = C.ARRAY_CONTAINER_TAG ∧ hdrType rh = C.ARRAY_CONTAINER_TAG) ∨
            (hdrType lh = C.OBJECT_CONTAINER_TAG ∧ hdrType rh = C.OBJECT_CONTAINER_TAG)) := fun c => c.elim c2 c3
      simp only [if_neg c3, if_neg c23] at hne ⊢
      by_cases c4 : hdrType lh = C.SCALAR_CONTAINER_TAG ∧ (hdrType rh = C.ARRAY_CONTAINER_TAG ∨ hdrType rh = C.OBJECT_CONTAINER_TAG)
      · simp only [if_pos c4, read_u32_four]
        cases hlw : readU32At left 4 with
        | none => simp only [Ctl.ofRes_err', Ctl.ret_bind', Ctl.run_ret', readJe_none _ _ hlw]
        | some lw =>
          simp only [Ctl.ofRes_ok', Ctl.val_bind', decode_jentry_agrees, readJe_some _ _ _ hlw, tag_eq, decide_eq_true_eq,
            JE.ofWord]
          simp only [Int.natCast_inj]
          by_cases hn : jeType lw = C.NULL_TAG
          · simp only [if_pos hn, Ctl.run_ret']
          · simp only [if_neg hn, Ctl.run_ret']
      simp only [if_neg c4]
      by_cases c5 : (hdrType lh = C.ARRAY_CONTAINER_TAG ∨ hdrType lh = C.OBJECT_CONTAINER_TAG) ∧ hdrType rh = C.SCALAR_CONTAINER_TAG
      · simp only [if_pos c5, read_u32_four]
        cases hrw : readU32At right 4 with
        | none => simp only [Ctl.ofRes_err', Ctl.ret_bind', Ctl.run_ret', readJe_none _ _ hrw]
        | some rw =>
          simp only [Ctl.ofRes_ok', Ctl.val_bind', decode_jentry_agrees, readJe_some _ _ _ hrw, tag_eq, decide_eq_true_eq,
            JE.ofWord]
          simp only [Int.natCast_inj]
          by_cases hn : jeType rw = C.NULL_TAG
          · simp only [if_pos hn, Ctl.run_ret']
          · simp only [if_neg hn, Ctl.run_ret']
      simp only [if_neg c5]
      by_cases c6 : hdrType lh = C.ARRAY_CONTAINER_TAG ∧ hdrType rh = C.OBJECT_CONTAINER_TAG
      · simp only [if_pos c6, Ctl.run_ret']
      simp only [if_neg c6]
      by_cases c7 : hdrType lh = C.OBJECT_CONTAINER_TAG ∧ hdrType rh = C.ARRAY_CONTAINER_TAG
      · simp only [if_pos c7, Ctl.run_ret']
      simp only [if_neg c7, Ctl.run_ret']

end Jsonb.TrAgree
