/-
Agreement theorems, phase 7, part 7: `strip_value_nulls` (the recursion through `&mut Value`: `for v in arr`, `for (_, v) in
obj.iter_mut()`, `obj.retain(|_, v| !matches!(v, Value::Null))`) = the tree function `Spec.stripNulls`, and the whole public
`strip_nulls` = the model's `T.stripNulls`.
-/
import JsonbModel.Proofs.TranslatedAgreeK5

set_option linter.unusedSimpArgs false
set_option linter.unusedVariables false

namespace Jsonb.TrAgree
open Jsonb.Rs

/-- the values of an object stripped, before the null members are dropped -/
def stripVals : List (Bytes × JV) → List (Bytes × JV)
  | [] => []
  | (k, v) :: kvs => (k, Spec.stripNulls v) :: stripVals kvs

theorem stripNulls_null_iff (v : JV) : Spec.stripNulls v = .null ↔ v = .null := by
  cases v <;> simp [Spec.stripNulls]

/-- `obj.retain(|_, v| !matches!(v, Value::Null))` after the values were stripped = the model's `stripNullsK`, for ANY closure
that answers "is not null" on the translated values -/
theorem retain_stripVals (p : Bytes × Tr.Value → Bool)
    (hp : ∀ k v, p (k, ofJV v) = (match v with | .null => false | _ => true)) :
    ∀ kvs : List (Bytes × JV), List.filter p (ofKVs (stripVals kvs)) = ofKVs (Spec.stripNullsK kvs)
  | [] => rfl
  | (k, v) :: kvs => by
    have ih := retain_stripVals p hp kvs
    cases v <;> simp [stripVals, ofKVs, Spec.stripNullsK, Spec.stripNulls, List.filter_cons, hp, ih]

mutual
theorem strip_value_nulls_agrees : (v : JV) → (f : Nat) → depth v < f →
    Tr.strip_value_nulls f (ofJV v) = .ok (ofJV (Spec.stripNulls v))
  | .null, f + 1, _ => rfl
  | .bool _, f + 1, _ => rfl
  | .num _, f + 1, _ => rfl
  | .str _, f + 1, _ => rfl
  | .arr vs, f + 1, h => by
    have hl := strip_value_nulls_list vs f (by simp only [depth] at h; omega)
    simp only [ofJV]
    rw [Tr.strip_value_nulls]
    simp only [hl, Ctl.ofRes_ok', Ctl.val_bind', Ctl.pure_eq', Ctl.run_ret', Spec.stripNulls, ofJV]
  | .obj kvs, f + 1, h => by
    have hl := strip_value_nulls_vals kvs f (by simp only [depth] at h; omega)
    simp only [ofJV]
    rw [Tr.strip_value_nulls]
    simp only [hl, Ctl.ofRes_ok', Ctl.val_bind', Ctl.pure_eq', Ctl.run_ret', Spec.stripNulls, ofJV]
    rw [retain_stripVals _ ?_ kvs]
    intro k v
    cases v <;> simp [ofJV]
theorem strip_value_nulls_list : (vs : List JV) → (f : Nat) → depthL vs < f →
    Rs.forEachMut (ofJVs vs) (Tr.strip_value_nulls f) = .ok (ofJVs (Spec.stripNullsL vs))
  | [], _, _ => rfl
  | v :: vs, f, h => by
    have h1 := strip_value_nulls_agrees v f (by simp only [depthL] at h; omega)
    have h2 := strip_value_nulls_list vs f (by simp only [depthL] at h; omega)
    simp only [ofJVs, Rs.forEachMut, h1, h2, Spec.stripNullsL]
theorem strip_value_nulls_vals : (kvs : List (Bytes × JV)) → (f : Nat) → depthK kvs < f →
    Rs.forEachMutVal (ofKVs kvs) (Tr.strip_value_nulls f) = .ok (ofKVs (stripVals kvs))
  | [], _, _ => rfl
  | (k, v) :: kvs, f, h => by
    have h1 := strip_value_nulls_agrees v f (by simp only [depthK] at h; omega)
    have h2 := strip_value_nulls_vals kvs f (by simp only [depthK] at h; omega)
    simp only [ofKVs, Rs.forEachMutVal, h1, h2, stripVals]
end

/-! ## stripping keeps a value inside the domain of the encoder theorem -/

mutual
theorem stripNulls_bounds : (v : JV) → numsWF v →
    numsWF (Spec.stripNulls v) ∧ depth (Spec.stripNulls v) ≤ depth v ∧ encSize (Spec.stripNulls v) ≤ encSize v
  | .null, h => ⟨h, Nat.le_refl _, Nat.le_refl _⟩
  | .bool _, h => ⟨h, Nat.le_refl _, Nat.le_refl _⟩
  | .num _, h => ⟨h, Nat.le_refl _, Nat.le_refl _⟩
  | .str _, h => ⟨h, Nat.le_refl _, Nat.le_refl _⟩
  | .arr vs, h => by
    obtain ⟨a, b, c, d⟩ := stripNullsL_bounds vs h
    simp only [Spec.stripNulls, numsWF, depth, encSize]
    exact ⟨a, by omega, by omega⟩
  | .obj kvs, h => by
    obtain ⟨a, b, c, d, e⟩ := stripNullsK_bounds kvs h
    simp only [Spec.stripNulls, numsWF, depth, encSize]
    exact ⟨a, by omega, by omega⟩
theorem stripNullsL_bounds : (vs : List JV) → numsWFL vs →
    numsWFL (Spec.stripNullsL vs) ∧ depthL (Spec.stripNullsL vs) ≤ depthL vs ∧
      encSizeL (Spec.stripNullsL vs) ≤ encSizeL vs ∧ (Spec.stripNullsL vs).length = vs.length
  | [], h => ⟨h, Nat.le_refl _, Nat.le_refl _, rfl⟩
  | v :: vs, h => by
    obtain ⟨a1, b1, c1⟩ := stripNulls_bounds v h.1
    obtain ⟨a, b, c, d⟩ := stripNullsL_bounds vs h.2
    simp only [Spec.stripNullsL, numsWFL, depthL, encSizeL, List.length_cons]
    exact ⟨⟨a1, a⟩, by omega, by omega, by omega⟩
theorem stripNullsK_bounds : (kvs : List (Bytes × JV)) → numsWFK kvs →
    numsWFK (Spec.stripNullsK kvs) ∧ depthK (Spec.stripNullsK kvs) ≤ depthK kvs ∧
      encSizeK (Spec.stripNullsK kvs) ≤ encSizeK kvs ∧ keySizeK (Spec.stripNullsK kvs) ≤ keySizeK kvs ∧
      (Spec.stripNullsK kvs).length ≤ kvs.length
  | [], h => ⟨h, Nat.le_refl _, Nat.le_refl _, Nat.le_refl _, Nat.le_refl _⟩
  | (k, v) :: kvs, h => by
    obtain ⟨a1, b1, c1⟩ := stripNulls_bounds v h.1
    obtain ⟨a, b, c, d, e⟩ := stripNullsK_bounds kvs h.2
    cases v <;> simp only [Spec.stripNullsK, numsWFK, depthK, encSizeK, keySizeK, List.length_cons] <;>
      first
        | exact ⟨a, by omega, by omega, by omega, by omega⟩
        | exact ⟨⟨a1, a⟩, by omega, by omega, by omega, by omega⟩
end

/-- **`strip_nulls`**, the whole public function.  The JSONB branch carries the hypotheses of phase 6c's
`strip_nulls_jsonb_agrees` (lazy source / eager model, the model's own fuel, output below `2^63`) -/
theorem strip_nulls_whole (value buf : Bytes) (fuel : Nat)
    (ht : isJsonb value = false → TextEditOK fuel buf value)
    (hjb : isJsonb value = true → 4 * value.length + 536870930 < fuel ∧ value.length < 1152921504606846976 ∧
      Fn.stripNulls value buf ≠ .fuel ∧ (Fn.stripNulls value buf).isPanic = false ∧
      ∀ out, Fn.stripNulls value buf = .ok out → out.length < 9223372036854775808) :
    Tr.strip_nulls fuel value buf = T.stripNulls value buf := by
  unfold Tr.strip_nulls T.stripNulls
  rw [is_jsonb_agrees]
  cases hj : isJsonb value
  · obtain ⟨hlen, hpf, hval⟩ := ht hj
    simp only [Ctl.ofRes_ok', Ctl.val_bind', Bool.not_false, if_true]
    rw [parse_value_agrees value hlen fuel hpf]
    cases hp : parseValue value with
    | ok v =>
      obtain ⟨hwf, hdep, hsz⟩ := hval v hp
      obtain ⟨a, b, c⟩ := stripNulls_bounds v hwf
      simp only [Res.map, Res.bind, Ctl.ofRes_ok', Ctl.val_bind']
      rw [strip_value_nulls_agrees v fuel (by omega)]
      simp only [Ctl.ofRes_ok', Ctl.val_bind']
      rw [write_to_vec_agrees (Spec.stripNulls v) buf fuel (by omega) a (by omega)]
      cases writeToVec buf (Spec.stripNulls v) <;> rfl
    | err e => rfl
    | panic s => rfl
    | fuel => rfl
  · obtain ⟨h1, h2, h3, h4, h5⟩ := hjb hj
    simp only [Ctl.ofRes_ok', Ctl.val_bind', Bool.not_true, Bool.false_eq_true, if_false, Ctl.pure_eq']
    rw [strip_nulls_jsonb_agrees value buf fuel h1 h2 h3 h4 h5]
    cases Fn.stripNulls value buf <;> rfl

end Jsonb.TrAgree
