/-
Numbers in the comparable key: on "key-exact" numbers the 8-byte image
`f64Key (as_f64 (norm n))` sorts bytewise exactly as `Num.cmp` orders the numbers.

Key-exact =
  * an `Int64` / `UInt64` that is exactly representable as a binary64 (`F64.rval |i| = |i|`;
    in particular every integer with `|i| ≤ 2^53`),
  * any `Float64` bit pattern except `-0.0` (NaNs are fine: the codec canonicalises them and the
    canonical NaN's key is above `+∞`, as NaN is the greatest number for `Num.cmp`).
-/
import JsonbModel.Functions.Order
import JsonbModel.Proofs.NumOrd
import JsonbModel.Proofs.CmpLaws

namespace Jsonb

/-! ### big-endian words compare like their values -/

theorem lexCmp_cons_same (x : UInt8) (a b : Bytes) : lexCmp (x :: a) (x :: b) = lexCmp a b := by
  simp [lexCmp]

theorem lexCmp_append_left (p a b : Bytes) : lexCmp (p ++ a) (p ++ b) = lexCmp a b := by
  induction p with
  | nil => rfl
  | cons x p ih => simp [lexCmp, ih]

theorem lexCmp_beN (w x y : Nat) :
    lexCmp (beN w x) (beN w y) = compare (x % 256 ^ w) (y % 256 ^ w) := by
  induction w with
  | zero => simp [beN, lexCmp, Nat.mod_one]
  | succ w ih =>
    have hx : x % 256 ^ (w+1) = (x / 256 ^ w % 256) * 256 ^ w + x % 256 ^ w := by
      rw [Nat.pow_succ, Nat.mod_mul, Nat.add_comm, Nat.mul_comm]
    have hy : y % 256 ^ (w+1) = (y / 256 ^ w % 256) * 256 ^ w + y % 256 ^ w := by
      rw [Nat.pow_succ, Nat.mod_mul, Nat.add_comm, Nat.mul_comm]
    have hP : 0 < 256 ^ w := Nat.pow_pos (by decide)
    have hrx : x % 256 ^ w < 256 ^ w := Nat.mod_lt _ hP
    have hry : y % 256 ^ w < 256 ^ w := Nat.mod_lt _ hP
    have hax : x / 256 ^ w % 256 < 256 := Nat.mod_lt _ (by decide)
    have hay : y / 256 ^ w % 256 < 256 := Nat.mod_lt _ (by decide)
    simp only [beN, lexCmp, UInt8.lt_iff_toNat_lt, toNat_ofNat_mod]
    rw [hx, hy, ih]
    generalize x / 256 ^ w % 256 = a at *
    generalize y / 256 ^ w % 256 = b at *
    generalize x % 256 ^ w = rx at *
    generalize y % 256 ^ w = ry at *
    generalize 256 ^ w = P at *
    by_cases hab : a < b
    · have : (a + 1) * P ≤ b * P := Nat.mul_le_mul_right _ hab
      rw [Nat.add_mul] at this
      have hlt : a * P + rx < b * P + ry := by omega
      simp [hab, ncmp_def, hlt]
    · by_cases hba : b < a
      · have : (b + 1) * P ≤ a * P := Nat.mul_le_mul_right _ hba
        rw [Nat.add_mul] at this
        have h1 : ¬ a * P + rx < b * P + ry := by omega
        have h2 : ¬ a * P + rx = b * P + ry := by omega
        simp [hab, hba, ncmp_def, h1, h2]
      · have : a = b := by omega
        subst this
        simp only [Nat.lt_irrefl, if_false, ncmp_def]
        split <;> split <;> (try split) <;> (try split) <;> first | rfl | omega

namespace F64

/-- the 64-bit word whose big-endian bytes are `f64Key b` -/
def okey (b : Nat) : Nat :=
  if signBit b then 9223372036854775807 - b % 9223372036854775808
  else 9223372036854775808 + b % 9223372036854775808

theorem f64Key_eq (b : Nat) : Fn.f64Key b = beN 8 (okey b) := by
  unfold Fn.f64Key okey; split <;> rfl

theorem okey_lt (b : Nat) : okey b < 18446744073709551616 := by
  unfold okey; split <;> omega

theorem lexCmp_f64Key (x y : Nat) : lexCmp (Fn.f64Key x) (Fn.f64Key y) = compare (okey x) (okey y) := by
  rw [f64Key_eq, f64Key_eq, lexCmp_beN]
  have e : (256 : Nat) ^ 8 = 18446744073709551616 := by decide
  rw [e, Nat.mod_eq_of_lt (okey_lt x), Nat.mod_eq_of_lt (okey_lt y)]

@[simp] theorem f64Key_length (b : Nat) : (Fn.f64Key b).length = 8 := by
  rw [f64Key_eq]; simp

/-- the bit patterns `as_f64 (norm n)` can take on key-exact numbers: 64 bits, not `-0.0`, and the
only NaN is `f64::NAN` -/
def Canon (b : Nat) : Prop :=
  b < 18446744073709551616 ∧ b ≠ 9223372036854775808 ∧ (isNaN b = true → b = canonNaN)

theorem signBit_iff (b : Nat) (hb : b < 18446744073709551616) :
    (signBit b = true ↔ b = 9223372036854775808 + mag b) ∧
    (signBit b = false ↔ b = mag b) := by
  unfold signBit mag
  have : b / 9223372036854775808 = 0 ∨ b / 9223372036854775808 = 1 := by omega
  rcases this with h | h
  · rw [h]; simp; omega
  · rw [h]; simp; omega

theorem mag_le_of_not_nan (b : Nat) (h : isNaN b = false) : mag b ≤ 9218868437227405312 := by
  have h1 := mag_eq b
  have h2 := mantField_lt b
  have h3 := expField_lt b
  have hn : ¬ (expField b = 2047 ∧ mantField b ≠ 0) := by rw [← isNaN_iff]; simp [h]
  by_cases he : expField b = 2047
  · have : mantField b = 0 := by
      by_cases hm : mantField b = 0
      · exact hm
      · exact absurd ⟨he, hm⟩ hn
    omega
  · omega

/-- on canonical bit patterns the key word orders exactly like `OrderedFloat::cmp` -/
theorem compare_okey (x y : Nat) (hx : Canon x) (hy : Canon y) :
    compare (okey x) (okey y) = cmpOF x y := by
  obtain ⟨hx1, hx2, hx3⟩ := hx
  obtain ⟨hy1, hy2, hy3⟩ := hy
  have hcn : isNaN canonNaN = true := by decide
  have hck : okey canonNaN = 18444492273895866368 := by decide
  cases hnx : isNaN x <;> cases hny : isNaN y
  · rw [cmpOF_nonNaN x y hnx hny, key_eq, key_eq, ncmp_def, icmp_def]
    have sx := signBit_iff x hx1
    have sy := signBit_iff y hy1
    have mx : mag x < 9223372036854775808 := by unfold mag; omega
    have my : mag y < 9223372036854775808 := by unfold mag; omega
    unfold okey sgn
    rw [show x % 9223372036854775808 = mag x from rfl, show y % 9223372036854775808 = mag y from rfl]
    cases hsx : signBit x <;> cases hsy : signBit y <;>
      simp only [hsx, hsy, true_iff, false_iff, Bool.false_eq_true,
        Bool.true_eq_false, if_true, if_false] at sx sy ⊢ <;>
      split <;> split <;> (try split) <;> (try split) <;> first | rfl | omega
  · have := hy3 hny; subst this
    have hm := mag_le_of_not_nan x hnx
    have hlt : okey x < 18444492273895866368 := by
      unfold okey; rw [show x % 9223372036854775808 = mag x from rfl]; split <;> omega
    rw [hck, ncmp_def]
    simp [hlt, cmpOF, geOF, ge, hnx, hcn]
  · have := hx3 hnx; subst this
    have hm := mag_le_of_not_nan y hny
    have hlt : okey y < 18444492273895866368 := by
      unfold okey; rw [show y % 9223372036854775808 = mag y from rfl]; split <;> omega
    rw [hck, ncmp_def]
    have h1 : ¬ 18444492273895866368 < okey y := by omega
    have h2 : ¬ 18444492273895866368 = okey y := by omega
    simp [h1, h2, cmpOF, geOF, ge, hny, hcn]
  · have := hx3 hnx; subst this
    have := hy3 hny; subst this
    decide

end F64

/-! ### congruence of the exact-value order -/

namespace ExtVal

theorem cmp_congr_left (a b c : ExtVal) (h : cmp a b = .eq) : cmp a c = cmp b c := by
  have h' : cmp b a = .eq := by rw [cmp_swap a b, h]; rfl
  cases hbc : cmp b c with
  | lt => exact cmp_lt_of_le_of_lt a b c (by simp [h]) hbc
  | eq => exact cmp_eq_trans a b c h hbc
  | gt =>
    have e : cmp c b = .lt := by rw [cmp_swap b c, hbc]; rfl
    have := cmp_lt_of_lt_of_le c b a e (by simp [h'])
    rw [cmp_swap c a, this]; rfl

theorem cmp_congr (a a' b b' : ExtVal) (h1 : cmp a a' = .eq) (h2 : cmp b b' = .eq) :
    cmp a b = cmp a' b' := by
  rw [cmp_congr_left a a' b h1, cmp_swap b a', cmp_congr_left b b' a' h2, ← cmp_swap]

end ExtVal

/-! ### key-exact numbers -/

namespace Num
open F64

/-- the numbers on which the key is faithful (includes well-formedness of the number) -/
def keyExact : Num → Bool
  | int i => decide (-9223372036854775808 ≤ i ∧ i ≤ 9223372036854775807) &&
      (if i < 0 then decide (rval (-i).toNat = (-i).toNat) else decide (rval i.toNat = i.toNat))
  | uint n => decide (n < 18446744073709551616) && decide (rval n = n)
  | float b => decide (b < 18446744073709551616) && decide (b ≠ 9223372036854775808)

theorem keyExact_WF (n : Num) (h : keyExact n = true) : n.WF := by
  cases n <;> simp only [keyExact, Bool.and_eq_true, decide_eq_true_eq] at h <;> simp only [WF]
  · exact h.1
  · exact h.1
  · exact h.1

theorem rval_2p53 : rval 9007199254740992 = 9007199254740992 := by decide

theorem rval_le_2p53 (n : Nat) (h : n ≤ 9007199254740992) : rval n = n := by
  by_cases h' : n < 9007199254740992
  · exact rval_exact n h'
  · have : n = 9007199254740992 := by omega
    subst this; exact rval_2p53

/-- every integer of magnitude at most 2^53 is key-exact -/
theorem keyExact_int (i : Int) (h1 : -9007199254740992 ≤ i) (h2 : i ≤ 9007199254740992) :
    keyExact (int i) = true := by
  simp only [keyExact, Bool.and_eq_true, decide_eq_true_eq]
  refine ⟨by omega, ?_⟩
  split
  · simp only [decide_eq_true_eq]; exact rval_le_2p53 _ (by omega)
  · simp only [decide_eq_true_eq]; exact rval_le_2p53 _ (by omega)

theorem keyExact_uint (n : Nat) (h : n ≤ 9007199254740992) : keyExact (uint n) = true := by
  simp only [keyExact, Bool.and_eq_true, decide_eq_true_eq]
  exact ⟨by omega, rval_le_2p53 n h⟩

theorem keyExact_float (b : Nat) (h : b < 18446744073709551616) (h0 : b ≠ 9223372036854775808) :
    keyExact (float b) = true := by
  simp only [keyExact, Bool.and_eq_true, decide_eq_true_eq]
  exact ⟨h, by simpa using h0⟩

theorem ofNatRNE_lt (n : Nat) (hn : n < 18446744073709551616) : ofNatRNE n < 9223372036854775808 := by
  by_cases h0 : n = 0
  · subst h0; decide
  · rw [ofNatRNE_eq n h0]
    have := rsig_bounds n h0
    have := log2_lt_64 n h0 hn
    omega

theorem ofNatRNE_pos (n : Nat) (h0 : n ≠ 0) : 0 < ofNatRNE n := by
  rw [ofNatRNE_eq n h0]
  have := rsig_bounds n h0
  omega

theorem not_nan_of_isInt (b : Nat) (v : Int) (h : (F64.val b).isInt v) : isNaN b = false := by
  cases hn : isNaN b
  · rfl
  · rw [val_nan b hn] at h; simp [ExtVal.isInt] at h

theorem asF64_norm_int (i : Int) : asF64 (norm (int i)) = ofIntRNE i := by
  unfold norm
  by_cases h : i = 0
  · subst h; decide
  · simp [h, asF64]

/-- the image `as_f64 (norm n)` of a key-exact number is a canonical bit pattern of the same
exact value -/
theorem keyExact_image (n : Num) (h : keyExact n = true) :
    Canon (asF64 (norm n)) ∧ ExtVal.cmp (Num.val n) (F64.val (asF64 (norm n))) = .eq := by
  cases n with
  | int i =>
    simp only [keyExact, Bool.and_eq_true, decide_eq_true_eq] at h
    obtain ⟨⟨h1, h2⟩, h3⟩ := h
    rw [asF64_norm_int]
    have hI := ofIntRNE_isInt i h1 h2
    have hv : (F64.val (ofIntRNE i)).isInt i := by
      by_cases hneg : i < 0
      · simp only [hneg, if_true, decide_eq_true_eq] at h3 hI
        rw [h3] at hI
        have : -(((-i).toNat : Nat) : Int) = i := by omega
        rw [this] at hI; exact hI
      · simp only [hneg, if_false, decide_eq_true_eq] at h3 hI
        rw [h3] at hI
        have : ((i.toNat : Nat) : Int) = i := by omega
        rw [this] at hI; exact hI
    refine ⟨⟨?_, ?_, ?_⟩, ?_⟩
    · unfold ofIntRNE
      split
      · have := ofNatRNE_lt (-i).toNat (by omega); omega
      · have := ofNatRNE_lt i.toNat (by omega); omega
    · unfold ofIntRNE
      split
      · have := ofNatRNE_pos (-i).toNat (by omega); omega
      · have := ofNatRNE_lt i.toNat (by omega); omega
    · intro hn; rw [not_nan_of_isInt _ _ hv] at hn; cases hn
    · show ExtVal.cmp (.fin i 0) _ = .eq
      rw [ExtVal.cmp_int_eq_iff]; exact hv
  | uint n =>
    simp only [keyExact, Bool.and_eq_true, decide_eq_true_eq] at h
    obtain ⟨h1, h3⟩ := h
    have hv : (F64.val (ofNatRNE n)).isInt (n : Int) := by
      have := ofNatRNE_isInt n h1
      rw [h3] at this; exact this
    show Canon (ofNatRNE n) ∧ ExtVal.cmp (.fin n 0) (F64.val (ofNatRNE n)) = .eq
    refine ⟨⟨?_, ?_, ?_⟩, ?_⟩
    · have := ofNatRNE_lt n h1; omega
    · have := ofNatRNE_lt n h1; omega
    · intro hn; rw [not_nan_of_isInt _ _ hv] at hn; cases hn
    · rw [ExtVal.cmp_int_eq_iff]; exact hv
  | float b =>
    simp only [keyExact, Bool.and_eq_true, decide_eq_true_eq] at h
    obtain ⟨h1, h2⟩ := h
    cases hn : isNaN b
    · have e : norm (float b) = float b := by simp [norm, hn]
      rw [e]
      show Canon b ∧ ExtVal.cmp (F64.val b) (F64.val b) = .eq
      exact ⟨⟨h1, h2, by intro h'; rw [hn] at h'; cases h'⟩, ExtVal.cmp_refl _⟩
    · have e : norm (float b) = float canonNaN := by simp [norm, hn]
      rw [e]
      show Canon canonNaN ∧ ExtVal.cmp (F64.val b) (F64.val canonNaN) = .eq
      refine ⟨⟨by decide, by decide, fun _ => rfl⟩, ?_⟩
      rw [val_nan b hn, val_nan canonNaN (by decide)]; rfl

/-- **numbers**: on key-exact numbers the 8-byte key image sorts bytewise as `Num.cmp` orders -/
theorem lexCmp_f64Key_asF64 (a b : Num) (ha : keyExact a = true) (hb : keyExact b = true) :
    lexCmp (Fn.f64Key (asF64 (norm a))) (Fn.f64Key (asF64 (norm b))) = Num.cmp a b := by
  obtain ⟨ca, ea⟩ := keyExact_image a ha
  obtain ⟨cb, eb⟩ := keyExact_image b hb
  rw [lexCmp_f64Key, compare_okey _ _ ca cb, cmpOF_spec,
    cmp_eq_spec a b (keyExact_WF a ha) (keyExact_WF b hb)]
  exact (ExtVal.cmp_congr _ _ _ _ ea eb).symm

end Num
end Jsonb
