/-
Agreement theorems, part 1: the translated `jentry.rs` functions, the leaf helpers of
`functions.rs` / `util.rs`, and `Selector::convert_index` / `convert_slice` EQUAL the
hand-written model functions the property theorems are about.  `Jsonb.Tr.*` is regenerated
from /repo's source by tools/rs2lean.py on every run; a source change that alters the logic of
one of these functions makes the corresponding theorem below fail.
-/
import JsonbModel.Generated.Translated
import JsonbModel.Proofs.RustPreludeLemmas
import JsonbModel.Ser
import JsonbModel.Selector
import JsonbModel.Functions.Order
import JsonbModel.JsonParser

set_option linter.unusedSimpArgs false

namespace Jsonb.TrAgree
open Jsonb.Rs

/-! ## Representation maps (model value ↦ translated value) -/

/-- model `Index` ↦ translated `jsonpath::Index` -/
def ofIndex : Jsonb.Index → Tr.Index
  | .index n => .Index n
  | .last n => .LastIndex n

/-- the payload of an `Index` is an `i32` -/
def IndexFits : Jsonb.Index → Prop
  | .index n => IntTy.i32.InRange n
  | .last n => IntTy.i32.InRange n

/-- `Option<usize>` / `Vec<usize>` results: model `Nat`s as Rust integer values -/
def optNat (o : Option Nat) : Option Int := o.map Int.ofNat

/-! ## jentry.rs -/

theorem decode_jentry_agrees (w : Nat) :
    Tr.JEntry.decode_jentry (w : Int) = .ok ⟨(jeType w : Nat), (jeLen w : Nat)⟩ := by
  simp [Tr.JEntry.decode_jentry, jeType, jeLen]

/-- the same, against the decoded entry `JE.ofWord` used by the byte walkers -/
theorem decode_jentry_ofWord (w : Nat) :
    Tr.JEntry.decode_jentry (w : Int) = .ok ⟨((JE.ofWord w).ty : Nat), ((JE.ofWord w).len : Nat)⟩ :=
  decode_jentry_agrees w

theorem encoded_agrees (ty len : Nat) :
    Tr.JEntry.encoded ⟨(ty : Int), (len : Int)⟩ = .ok ((ty ||| len : Nat) : Int) := by
  simp only [Tr.JEntry.encoded, Rs.bitor_natCast, Ctl.run_ret] <;> rw [Nat.or_comm]

theorem make_null_jentry_agrees : Tr.JEntry.make_null_jentry = .ok ⟨(C.NULL_TAG : Nat), 0⟩ := by
  simp [Tr.JEntry.make_null_jentry]
theorem make_true_jentry_agrees : Tr.JEntry.make_true_jentry = .ok ⟨(C.TRUE_TAG : Nat), 0⟩ := by
  simp [Tr.JEntry.make_true_jentry]
theorem make_false_jentry_agrees : Tr.JEntry.make_false_jentry = .ok ⟨(C.FALSE_TAG : Nat), 0⟩ := by
  simp [Tr.JEntry.make_false_jentry]

theorem cast_u32_nat (n : Nat) : Rs.cast .u32 (n : Int) = ((n % 4294967296 : Nat) : Int) := by
  simp [Rs.cast, Rs.wrap, IntTy.bits, IntTy.signed] <;> omega

theorem make_string_jentry_agrees (n : Nat) :
    Tr.JEntry.make_string_jentry (n : Int) = .ok ⟨(C.STRING_TAG : Nat), ((n % 4294967296 : Nat) : Int)⟩ := by
  simp [Tr.JEntry.make_string_jentry, cast_u32_nat]
theorem make_number_jentry_agrees (n : Nat) :
    Tr.JEntry.make_number_jentry (n : Int) = .ok ⟨(C.NUMBER_TAG : Nat), ((n % 4294967296 : Nat) : Int)⟩ := by
  simp [Tr.JEntry.make_number_jentry, cast_u32_nat]
theorem make_container_jentry_agrees (n : Nat) :
    Tr.JEntry.make_container_jentry (n : Int) = .ok ⟨(C.CONTAINER_TAG : Nat), ((n % 4294967296 : Nat) : Int)⟩ := by
  simp [Tr.JEntry.make_container_jentry, cast_u32_nat]

/-- `JEntry::make_*_jentry(len).encoded()` is the entry word `jentryWord` of the encoder model -/
theorem string_word_agrees (n : Nat) :
    (Tr.JEntry.make_string_jentry (n : Int)).bind Tr.JEntry.encoded = .ok ((jentryWord C.STRING_TAG n : Nat) : Int) := by
  rw [make_string_jentry_agrees]; exact encoded_agrees C.STRING_TAG (n % 4294967296)
theorem number_word_agrees (n : Nat) :
    (Tr.JEntry.make_number_jentry (n : Int)).bind Tr.JEntry.encoded = .ok ((jentryWord C.NUMBER_TAG n : Nat) : Int) := by
  rw [make_number_jentry_agrees]; exact encoded_agrees C.NUMBER_TAG (n % 4294967296)
theorem container_word_agrees (n : Nat) :
    (Tr.JEntry.make_container_jentry (n : Int)).bind Tr.JEntry.encoded = .ok ((jentryWord C.CONTAINER_TAG n : Nat) : Int) := by
  rw [make_container_jentry_agrees]; exact encoded_agrees C.CONTAINER_TAG (n % 4294967296)
theorem null_word_agrees :
    Tr.JEntry.make_null_jentry.bind Tr.JEntry.encoded = .ok ((jentryWord C.NULL_TAG 0 : Nat) : Int) := by
  rw [make_null_jentry_agrees]; exact encoded_agrees C.NULL_TAG (0 % 4294967296)
theorem true_word_agrees :
    Tr.JEntry.make_true_jentry.bind Tr.JEntry.encoded = .ok ((jentryWord C.TRUE_TAG 0 : Nat) : Int) := by
  rw [make_true_jentry_agrees]; exact encoded_agrees C.TRUE_TAG (0 % 4294967296)
theorem false_word_agrees :
    Tr.JEntry.make_false_jentry.bind Tr.JEntry.encoded = .ok ((jentryWord C.FALSE_TAG 0 : Nat) : Int) := by
  rw [make_false_jentry_agrees]; exact encoded_agrees C.FALSE_TAG (0 % 4294967296)

/-! ## functions.rs / util.rs leaf helpers -/

theorem jentry_compare_level_agrees (ty len : Nat) :
    Tr.jentry_compare_level ⟨(ty : Int), (len : Int)⟩ = .ok ((Fn.level ty : Nat) : Int) := by
  simp only [Tr.jentry_compare_level, Fn.level]
  repeat' split
  all_goals simp_all
  all_goals omega

theorem is_jsonb_agrees (value : Bytes) : Tr.is_jsonb value = .ok (isJsonb value) := by
  cases value with
  | nil => simp [Tr.is_jsonb, Rs.first, isJsonb]
  | cons b rest =>
    simp only [Tr.is_jsonb, Rs.first, isJsonb]
    by_cases h1 : b.toNat = C.ARRAY_PREFIX <;> by_cases h2 : b.toNat = C.OBJECT_PREFIX <;>
      by_cases h3 : b.toNat = C.SCALAR_PREFIX <;> simp [h1, h2, h3, Int.natCast_inj] <;> omega

theorem getRange_nat (buf : Bytes) (a b : Nat) :
    Rs.getRange buf (a : Int) (b : Int) =
      if a ≤ b ∧ b ≤ buf.length then some ((buf.drop a).take (b - a)) else none := by
  unfold Rs.getRange
  by_cases h : a ≤ b ∧ b ≤ buf.length
  · have h' : (0:Int) ≤ a ∧ (a:Int) ≤ b ∧ (b:Int) ≤ buf.length := by omega
    rw [if_pos h', if_pos h]; simp
  · have h' : ¬ ((0:Int) ≤ a ∧ (a:Int) ≤ b ∧ (b:Int) ≤ buf.length) := by omega
    rw [if_neg h', if_neg h]

/-- `read_u32(buf, idx)` for every buffer and every `usize` index that leaves room for `idx + 4`
(`idx + 4` overflowing `usize` is the arithmetic-overflow panic of the dev profile, see
`read_u32_overflow`) -/
theorem read_u32_agrees (buf : Bytes) (idx : Nat) (h : idx + 4 ≤ 18446744073709551615) :
    Tr.read_u32 buf (idx : Int) =
      match readU32At buf idx with
      | some w => .ok (w : Int)
      | none => .err "InvalidEOF" := by
  have hadd : Rs.add .usize (idx : Int) 4 = .ok (((idx + 4 : Nat)) : Int) := by
    rw [Rs.add_ok _ _ _ (by rw [Rs.inRange_iff]; simp; omega)]; simp
  simp only [Tr.read_u32, hadd, Ctl.ofRes_ok, Ctl.val_bind, getRange_nat, readU32At]
  by_cases hlen : idx + 4 ≤ buf.length
  · have hc : idx ≤ idx + 4 ∧ idx + 4 ≤ buf.length := ⟨by omega, hlen⟩
    have h6 : idx + 4 - idx = 4 := by omega
    have h3 : (List.take 4 (List.drop idx buf)).length = 4 := by simp; omega
    have h4 : ofBe (List.take 4 (List.drop idx buf)) < 4294967296 := by
      have := ofBe_lt (List.take 4 (List.drop idx buf)); rw [h3] at this; simpa using this
    have h5 : Rs.fromBeBytes .u32 (List.take 4 (List.drop idx buf))
        = (ofBe (List.take 4 (List.drop idx buf)) : Int) :=
      Rs.wrap_of_inRange _ _ (by rw [Rs.inRange_iff]; simp; omega)
    rw [if_pos hc, if_pos hlen, h6]
    simp only [Rs.okOr, Ctl.ofRes_ok, Ctl.val_bind, Rs.tryIntoArray_of_length 4 _ h3, Rs.unwrap_some,
      Ctl.run_ret, h5]
  · have hc : ¬ (idx ≤ idx + 4 ∧ idx + 4 ≤ buf.length) := fun hh => hlen hh.2
    rw [if_neg hc, if_neg hlen]
    simp only [Rs.okOr, Ctl.ofRes_err, Ctl.ret_bind, Ctl.run_ret]

theorem read_u32_overflow (buf : Bytes) (idx : Nat) (h : 18446744073709551615 < idx + 4) :
    Tr.read_u32 buf (idx : Int) = .panic "attempt to add with overflow" := by
  have : Rs.add .usize (idx : Int) 4 = .panic "attempt to add with overflow" :=
    Rs.checked_panic _ _ _ (by rw [Rs.inRange_iff]; simp; omega)
  simp only [Tr.read_u32, this, Ctl.ofRes_panic, Ctl.ret_bind, Ctl.run_ret]

/-- the private copy of `read_u32` in iterator.rs: `read_u32(buf, idx)` for every buffer and every `usize` index that leaves room for `idx + 4`
(`idx + 4` overflowing `usize` is the arithmetic-overflow panic of the dev profile, see
`read_u32_overflow`) -/
theorem iterator_read_u32_agrees (buf : Bytes) (idx : Nat) (h : idx + 4 ≤ 18446744073709551615) :
    Tr.iterator.read_u32 buf (idx : Int) =
      match readU32At buf idx with
      | some w => .ok (w : Int)
      | none => .err "InvalidEOF" := by
  have hadd : Rs.add .usize (idx : Int) 4 = .ok (((idx + 4 : Nat)) : Int) := by
    rw [Rs.add_ok _ _ _ (by rw [Rs.inRange_iff]; simp; omega)]; simp
  simp only [Tr.iterator.read_u32, hadd, Ctl.ofRes_ok, Ctl.val_bind, getRange_nat, readU32At]
  by_cases hlen : idx + 4 ≤ buf.length
  · have hc : idx ≤ idx + 4 ∧ idx + 4 ≤ buf.length := ⟨by omega, hlen⟩
    have h6 : idx + 4 - idx = 4 := by omega
    have h3 : (List.take 4 (List.drop idx buf)).length = 4 := by simp; omega
    have h4 : ofBe (List.take 4 (List.drop idx buf)) < 4294967296 := by
      have := ofBe_lt (List.take 4 (List.drop idx buf)); rw [h3] at this; simpa using this
    have h5 : Rs.fromBeBytes .u32 (List.take 4 (List.drop idx buf))
        = (ofBe (List.take 4 (List.drop idx buf)) : Int) :=
      Rs.wrap_of_inRange _ _ (by rw [Rs.inRange_iff]; simp; omega)
    rw [if_pos hc, if_pos hlen, h6]
    simp only [Rs.okOr, Ctl.ofRes_ok, Ctl.val_bind, Rs.tryIntoArray_of_length 4 _ h3, Rs.unwrap_some,
      Ctl.run_ret, h5]
  · have hc : ¬ (idx ≤ idx + 4 ∧ idx + 4 ≤ buf.length) := fun hh => hlen hh.2
    rw [if_neg hc, if_neg hlen]
    simp only [Rs.okOr, Ctl.ofRes_err, Ctl.ret_bind, Ctl.run_ret]

theorem iterator_read_u32_overflow (buf : Bytes) (idx : Nat) (h : 18446744073709551615 < idx + 4) :
    Tr.iterator.read_u32 buf (idx : Int) = .panic "attempt to add with overflow" := by
  have : Rs.add .usize (idx : Int) 4 = .panic "attempt to add with overflow" :=
    Rs.checked_panic _ _ _ (by rw [Rs.inRange_iff]; simp; omega)
  simp only [Tr.iterator.read_u32, this, Ctl.ofRes_panic, Ctl.ret_bind, Ctl.run_ret]

theorem decode_hex_val_agrees (v : UInt8) :
    Tr.decode_hex_val (v.toNat : Int) = (JP.decodeHexVal v).map optNat := by
  have hv := v.toNat_lt
  have hc : Rs.cast .usize (v.toNat : Int) = (v.toNat : Int) :=
    Rs.cast_of_inRange _ _ (by rw [Rs.inRange_iff]; simp; omega)
  have hlen : C.HEX.length = 256 := by decide +kernel
  have hlt : v.toNat < C.HEX.length := by rw [hlen]; exact hv
  have hall : C.HEX.all (fun n => decide (n < 65536)) = true := by decide +kernel
  have hget : C.HEX[v.toNat]? = some C.HEX[v.toNat] := List.getElem?_eq_getElem hlt
  have hb : C.HEX[v.toNat] < 65536 := by
    have := List.all_eq_true.mp hall _ (List.getElem_mem hlt); simpa using this
  have hc2 : Rs.cast .u16 (C.HEX[v.toNat] : Int) = (C.HEX[v.toNat] : Int) :=
    Rs.cast_of_inRange _ _ (by rw [Rs.inRange_iff]; simp; omega)
  have hidx : Rs.indexTable C.HEX (v.toNat : Int) = .ok (C.HEX[v.toNat] : Int) := by
    have : ¬ ((v.toNat : Int) < 0) := by omega
    simp [Rs.indexTable, this, hget]
  simp only [Tr.decode_hex_val, JP.decodeHexVal, hc, hidx, hc2, hget, Ctl.ofRes_ok, Ctl.val_bind]
  by_cases h255 : C.HEX[v.toNat] = 255
  · simp [h255, Res.map, Res.bind, optNat]
  · have : ¬ ((C.HEX[v.toNat] : Int) = 255) := by omega
    simp [h255, this, Res.map, Res.bind, optNat]

/-- `PrettyOpts::new(enabled)`: `(enabled, indent = 0)`, the start state of the printer model -/
theorem pretty_opts_new_agrees (enabled : Bool) : Tr.PrettyOpts.new enabled = .ok ⟨enabled, 0⟩ := by
  simp [Tr.PrettyOpts.new]

/-- `inc_indent`: the `indent + 2` of `containerToString`, as long as it fits a `usize` -/
theorem pretty_opts_inc_indent_agrees (enabled : Bool) (indent : Nat) (h : indent + 2 ≤ 18446744073709551615) :
    Tr.PrettyOpts.inc_indent ⟨enabled, (indent : Int)⟩ = .ok ⟨enabled, ((indent + 2 : Nat) : Int)⟩ := by
  have hadd : Rs.add .usize (indent : Int) 2 = .ok ((indent : Int) + 2) :=
    Rs.add_ok _ _ _ (by rw [Rs.inRange_iff]; simp; omega)
  simp [Tr.PrettyOpts.inc_indent, hadd]

/-! ## jsonpath/selector.rs -/

theorem i64_of_i32 (n : Int) (h : IntTy.i32.InRange n) : Rs.cast .i64 n = n :=
  Rs.cast_of_inRange _ _ (by rw [Rs.inRange_iff] at *; simp at *; omega)

/-- `length + idx - 1` in `i64` cannot overflow for `i32` operands -/
theorem last_ok (len n : Int) (hl : IntTy.i32.InRange len) (hn : IntTy.i32.InRange n) :
    Rs.add .i64 len n = .ok (len + n) ∧ Rs.sub .i64 (len + n) 1 = .ok (len + n - 1) := by
  rw [Rs.inRange_iff] at hl hn; simp at hl hn
  exact ⟨Rs.add_ok _ _ _ (by rw [Rs.inRange_iff]; simp; omega),
         Rs.sub_ok _ _ _ (by rw [Rs.inRange_iff]; simp; omega)⟩

/-- the `match index { Index(i) => i as i64, LastIndex(i) => length + i as i64 - 1 }` of both
functions, as the model computes it -/
def resolve (i : Jsonb.Index) (len : Int) : Int :=
  match i with
  | .index n => n
  | .last n => len + n - 1

/-- the final range test of `convert_index`, on an opaque resolved index `x` -/
theorem optNat_some (x : Int) (h : 0 ≤ x) : optNat (some x.toNat) = some x := by
  simp [optNat]; omega

theorem usize_of_nonneg_i64 (x : Int) (h : 0 ≤ x ∧ x ≤ 9223372036854775807) : Rs.cast .usize x = x :=
  Rs.cast_of_inRange _ _ (by rw [Rs.inRange_iff]; simp; omega)

theorem convert_index_agrees (i : Jsonb.Index) (len : Int) (hi : IndexFits i)
    (hl : 0 ≤ len ∧ len ≤ 2147483647) :
    Tr.Selector.convert_index (ofIndex i) len = .ok (optNat (Sel.convertIndex i len)) := by
  have hlr : IntTy.i32.InRange len := by rw [Rs.inRange_iff]; simp; omega
  have hlen : Rs.cast .i64 len = len := i64_of_i32 len hlr
  -- the resolved index, kept opaque
  obtain ⟨x, hx⟩ : ∃ x, x = resolve i len := ⟨_, rfl⟩
  have hxr : -4294967296 ≤ x ∧ x ≤ 4294967296 := by
    cases i <;> simp only [resolve, IndexFits, Rs.inRange_iff] at hx hi <;> simp at hi <;> omega
  have hmodel : Sel.convertIndex i len = if x ≥ 0 ∧ x < len then some x.toNat else none := by
    cases i <;> simp only [Sel.convertIndex, resolve] at hx ⊢ <;> rw [hx]
  have hx64 : Rs.cast .i64 x = x := Rs.cast_of_inRange _ _ (by rw [Rs.inRange_iff]; simp; omega)
  -- resolving `LastIndex` first gives the `Index` instance of the translated function itself
  have hred : Tr.Selector.convert_index (ofIndex i) len = Tr.Selector.convert_index (.Index x) len := by
    cases i with
    | index n => simp only [resolve] at hx; subst hx; rfl
    | last n =>
      obtain ⟨h1, h2⟩ := last_ok len n hlr hi
      simp only [resolve] at hx
      simp only [Tr.Selector.convert_index, ofIndex, hlen, i64_of_i32 n hi, hx64, h1, h2, Ctl.pure_eq,
        Ctl.val_bind, Ctl.ofRes_ok, ← hx]
  rw [hred, hmodel]
  simp only [Tr.Selector.convert_index, hlen, hx64, Ctl.pure_eq, Ctl.val_bind]
  by_cases h0 : x ≥ 0 <;> by_cases h1 : x < len
  · simp [h0, h1, usize_of_nonneg_i64 x (by omega), optNat_some x h0]
  all_goals simp [h0, h1, optNat]

/-- `Option<Vec<usize>>` result of `convert_slice`: the model returns the index list, empty
for `None` (a `Some` list is never empty) -/
def sliceRes (l : List Nat) : Option (List Int) := if l = [] then none else some (l.map Int.ofNat)

theorem rangeInclusive_nat (a b : Nat) :
    Rs.rangeInclusive (a : Int) (b : Int) = ((List.range (b + 1 - a)).map (· + a)).map Int.ofNat := by
  unfold Rs.rangeInclusive
  have h : ((b : Int) + 1 - (a : Int)).toNat = b + 1 - a := by omega
  rw [h, List.map_map]
  apply List.map_congr_left
  intro k _
  simp; omega

theorem rangeInclusive_toNat (a b : Int) (ha : 0 ≤ a) (hb : 0 ≤ b) :
    Rs.rangeInclusive a b = ((List.range (b.toNat + 1 - a.toNat)).map (· + a.toNat)).map Int.ofNat := by
  have := rangeInclusive_nat a.toNat b.toNat
  rwa [Int.toNat_of_nonneg ha, Int.toNat_of_nonneg hb] at this

theorem sliceRes_range (a b : Nat) (h : a ≤ b) :
    sliceRes ((List.range (b + 1 - a)).map (· + a)) =
      some (((List.range (b + 1 - a)).map (· + a)).map Int.ofNat) := by
  unfold sliceRes
  have : (List.range (b + 1 - a)).map (· + a) ≠ [] := by
    intro hh
    have := congrArg List.length hh
    simp at this; omega
  rw [if_neg this]

/-- `convert_slice` for every pair of `i32` indices and every array length `1 ≤ len ≤ i32::MAX`
(`select_by_indices` returns before calling it when the array is empty; for `len = 0` the Rust
code and the model genuinely differ, see `convert_slice_len0`) -/
theorem convert_slice_agrees (s e : Jsonb.Index) (len : Int) (hs : IndexFits s) (he : IndexFits e)
    (hl : 1 ≤ len ∧ len ≤ 2147483647) :
    Tr.Selector.convert_slice (ofIndex s) (ofIndex e) len = .ok (sliceRes (Sel.convertSlice s e len)) := by
  have hlr : IntTy.i32.InRange len := by rw [Rs.inRange_iff]; simp; omega
  have hlen : Rs.cast .i64 len = len := i64_of_i32 len hlr
  have hsub : Rs.sub .i64 len 1 = .ok (len - 1) :=
    Rs.sub_ok _ _ _ (by rw [Rs.inRange_iff]; simp; omega)
  -- resolved indices, kept opaque, with the only facts needed about them
  obtain ⟨xs, hxs⟩ : ∃ x, x = resolve s len := ⟨_, rfl⟩
  obtain ⟨xe, hxe⟩ : ∃ x, x = resolve e len := ⟨_, rfl⟩
  have hbs : -4294967296 ≤ xs ∧ xs ≤ 4294967296 := by
    cases s <;> simp only [resolve, IndexFits, Rs.inRange_iff] at hxs hs <;> simp at hs <;> omega
  have hbe : -4294967296 ≤ xe ∧ xe ≤ 4294967296 := by
    cases e <;> simp only [resolve, IndexFits, Rs.inRange_iff] at hxe he <;> simp at he <;> omega
  have hmodel : Sel.convertSlice s e len =
      if xs > xe ∨ xs ≥ len ∨ xe < 0 then []
      else (List.range ((if xe ≥ len then (len - 1).toNat else xe.toNat) + 1 - (if xs < 0 then 0 else xs.toNat))).map
        (· + (if xs < 0 then 0 else xs.toNat)) := by
    cases s <;> cases e <;> simp only [Sel.convertSlice, resolve] at hxs hxe ⊢ <;> rw [hxs, hxe]
  rw [hmodel]
  -- the translated function: resolving `LastIndex` first gives the `Index`/`Index` instance
  have hi64 : ∀ x : Int, -4294967296 ≤ x ∧ x ≤ 4294967296 → Rs.cast .i64 x = x :=
    fun x h => Rs.cast_of_inRange _ _ (by rw [Rs.inRange_iff]; simp; omega)
  have hred : Tr.Selector.convert_slice (ofIndex s) (ofIndex e) len =
      Tr.Selector.convert_slice (.Index xs) (.Index xe) len := by
    cases s <;> cases e <;> simp only [resolve, IndexFits] at hxs hxe hs he
    · subst hxs; subst hxe; rfl
    · obtain ⟨h1, h2⟩ := last_ok len _ hlr he
      simp only [Tr.Selector.convert_slice, ofIndex, hlen, i64_of_i32 _ hs, i64_of_i32 _ he, hi64 _ hbs,
        hi64 _ hbe, h1, h2, Ctl.pure_eq, Ctl.val_bind, Ctl.ofRes_ok, ← hxs, ← hxe]
    · obtain ⟨h1, h2⟩ := last_ok len _ hlr hs
      simp only [Tr.Selector.convert_slice, ofIndex, hlen, i64_of_i32 _ hs, i64_of_i32 _ he, hi64 _ hbs,
        hi64 _ hbe, h1, h2, Ctl.pure_eq, Ctl.val_bind, Ctl.ofRes_ok, ← hxs, ← hxe]
    · obtain ⟨h1, h2⟩ := last_ok len _ hlr hs
      obtain ⟨h3, h4⟩ := last_ok len _ hlr he
      simp only [Tr.Selector.convert_slice, ofIndex, hlen, i64_of_i32 _ hs, i64_of_i32 _ he, hi64 _ hbs,
        hi64 _ hbe, h1, h2, h3, h4, Ctl.pure_eq, Ctl.val_bind, Ctl.ofRes_ok, ← hxs, ← hxe]
  have hu : ∀ x : Int, 0 ≤ x → x ≤ 4294967296 → Rs.cast .usize x = x :=
    fun x h0 h1 => usize_of_nonneg_i64 x (by omega)
  rw [hred]
  simp only [Tr.Selector.convert_slice, hlen, hi64 _ hbs, hi64 _ hbe, Ctl.pure_eq, Ctl.val_bind]
  by_cases c1 : xs > xe
  · simp [c1, sliceRes]
  by_cases c2 : xs ≥ len
  · simp [c2, sliceRes]
  by_cases c3 : xe < 0
  · simp [c3, sliceRes]
  -- the `Some` branch: 0 ≤ xe, xs ≤ xe, xs < len
  simp only [c1, c2, c3, decide_false, Bool.or_self, Bool.false_eq_true, ↓reduceIte, or_self]
  have fin : ∀ (a b : Int) (A B : Nat), a = A → b = B → A ≤ B →
      (Res.ok (some (Rs.rangeInclusive a b)) : Res (Option (List Int))) =
        .ok (sliceRes ((List.range (B + 1 - A)).map (· + A))) := by
    intro a b A B ha hb hab
    rw [ha, hb, rangeInclusive_nat, sliceRes_range A B hab]
  by_cases c4 : xs < 0 <;> by_cases c5 : xe ≥ len <;>
    simp only [c4, c5, decide_true, decide_false, Bool.false_eq_true, ↓reduceIte, hsub, Ctl.pure_eq,
      Ctl.val_bind, Ctl.ofRes_ok, Ctl.run_ret]
  · exact fin _ _ _ _ (by simp) (by rw [hu _ (by omega) (by omega)]; omega) (by omega)
  · exact fin _ _ _ _ (by simp) (by rw [hu _ (by omega) (by omega)]; omega) (by omega)
  · exact fin _ _ _ _ (by rw [hu _ (by omega) (by omega)]; omega) (by rw [hu _ (by omega) (by omega)]; omega) (by omega)
  · exact fin _ _ _ _ (by rw [hu _ (by omega) (by omega)]; omega) (by rw [hu _ (by omega) (by omega)]; omega) (by omega)

/-- Outside the domain: on an EMPTY array (`length = 0`, never passed by `select_by_indices`)
`[-1 to 0]` makes the Rust code collect `0..=usize::MAX` (`(length - 1) as usize` wraps), while
the model's `convertSlice` answers `[0]`.  Recorded so the restriction `1 ≤ len` above is visibly
necessary. -/
theorem convert_slice_len0 :
    (∃ l, Tr.Selector.convert_slice (.Index (-1)) (.Index 0) 0 = .ok (some l) ∧ l.length = 2 ^ 64) ∧
    Sel.convertSlice (.index (-1)) (.index 0) 0 = [0] := by
  refine ⟨⟨Rs.rangeInclusive 0 18446744073709551615, ?_, ?_⟩, by decide⟩
  · have h0 : Rs.cast .i64 0 = 0 := by decide
    have h1 : Rs.cast .i64 (-1) = -1 := by decide
    have h2 : Rs.sub .i64 0 1 = .ok (-1) := by decide
    have h3 : Rs.cast .usize (-1) = 18446744073709551615 := by decide
    simp [Tr.Selector.convert_slice, h0, h1, h2, h3]
  · simp [Rs.rangeInclusive]

end Jsonb.TrAgree
