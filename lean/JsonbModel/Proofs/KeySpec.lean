/-
Tree-level specification of the comparable key produced by `convert_to_comparable`.

A key is a sequence of records `(depth, level, payload)`:
  scalar  = `[depth, level] ++ payload`  (string: raw bytes; number: the 8-byte order-preserving
            image of `as_f64`; null / true / false: nothing),
  array   = `[depth, ARRAY_LEVEL]` followed by the keys of the elements at `depth + 1`,
  object  = `[depth, OBJECT_LEVEL]` followed, for each member in key order, by the key of the member
            name (as a string) at `depth + 1` and the key of the member value at `depth + 1`.
The top level starts at depth 0.  Numbers appear as `Num.norm n` because that is what the codec
returns (`Num.dec (Num.enc n) = norm n`: `Int64(0)` comes back as `UInt64(0)`, every NaN as
`f64::NAN`).
-/
import JsonbModel.Functions.Order
import JsonbModel.Spec.Order

namespace Jsonb.Spec
open JV

/-- the two-byte record head `[depth, level]` -/
def keyHead (d lvl : Nat) : Bytes := [UInt8.ofNat d, UInt8.ofNat lvl]

mutual
/-- the comparable key of a value met at nesting depth `d` -/
def keyOf : Nat → JV → Bytes
  | d, null => keyHead d C.NULL_LEVEL
  | d, JV.bool true => keyHead d C.TRUE_LEVEL
  | d, JV.bool false => keyHead d C.FALSE_LEVEL
  | d, num n => keyHead d C.NUMBER_LEVEL ++ Fn.f64Key (Num.asF64 (Num.norm n))
  | d, str s => keyHead d C.STRING_LEVEL ++ s
  | d, arr vs => keyHead d C.ARRAY_LEVEL ++ keyL (d + 1) vs
  | d, obj kvs => keyHead d C.OBJECT_LEVEL ++ keyK (d + 1) kvs
/-- the keys of a list of values (array elements), all at depth `d`, concatenated -/
def keyL : Nat → List JV → Bytes
  | _, [] => []
  | d, v :: vs => keyOf d v ++ keyL d vs
/-- the keys of a list of members: name (as a string scalar) then value, all at depth `d` -/
def keyK : Nat → List (Bytes × JV) → Bytes
  | _, [] => []
  | d, (k, v) :: kvs => (keyHead d C.STRING_LEVEL ++ k) ++ (keyOf d v ++ keyK d kvs)
end

/-- the key of a whole document -/
def docKey (v : JV) : Bytes := keyOf 0 v

mutual
/-- container nesting depth: 0 for a scalar, 1 + the deepest child for a container.  Every depth
byte occurring in `keyOf d v` lies in `[d, d + cdepth v]`; `convert_to_comparable` evaluates
`depth + 1` on a `u8` at every NESTED container (even an empty one), so it does not overflow
exactly when `cdepth v ≤ 255` -/
def cdepth : JV → Nat
  | arr vs => cdepthL vs + 1
  | obj kvs => cdepthK kvs + 1
  | _ => 0
def cdepthL : List JV → Nat
  | [] => 0
  | v :: vs => max (cdepth v) (cdepthL vs)
def cdepthK : List (Bytes × JV) → Nat
  | [] => 0
  | (_, v) :: kvs => max (cdepth v) (cdepthK kvs)
end

end Jsonb.Spec
