/-
Phase 6c, editors left over from phase 4.  I11: `object_insert_jsonb` — iterators walked in part (`enumerate` with
`break` / `return`, `next` called a fixed number of times, the rest drained afterwards), the precondition `ObjWalkOK`,
the loops against `Fn.insertPos` and the model's `take` / `drop`.
-/
import JsonbModel.Proofs.TranslatedAgreeI10

set_option linter.unusedSimpArgs false
set_option linter.unusedVariables false

namespace Jsonb.TrAgree
open Jsonb.Rs

/-! ## iterators walked in part -/

/-- an iterator that drains to `x :: xs` yields `x` first and then drains to `xs` -/
theorem drain_cons {ι α : Type} (next : ι → Res (Option α × ι)) (n : Nat) (it : ι) (x : α) (xs : List α)
    (h : drainIter next n it = .ok (x :: xs)) :
    ∃ m it', n = m + 1 ∧ next it = .ok (some x, it') ∧ drainIter next m it' = .ok xs := by
  cases n with
  | zero => simp [drainIter] at h
  | succ n =>
    simp only [drainIter] at h
    cases hn : next it with
    | ok p =>
      obtain ⟨o, it'⟩ := p
      rw [hn] at h
      cases o with
      | none => simp at h
      | some y =>
        simp only [] at h
        cases hd : drainIter next n it' with
        | ok rest =>
          rw [hd] at h
          simp only [Res.ok.injEq, List.cons.injEq] at h
          obtain ⟨rfl, rfl⟩ := h
          exact ⟨n, it', rfl, rfl, hd⟩
        | err e => rw [hd] at h; cases h
        | panic p => rw [hd] at h; cases h
        | fuel => rw [hd] at h; cases h
    | err e => rw [hn] at h; cases h
    | panic p => rw [hn] at h; cases h
    | fuel => rw [hn] at h; cases h

/-- `for (i, x) in it.enumerate()` over an iterator that can be drained: the loop over the drained items, for EVERY
body (`break`, `return`) -/
theorem forIterEnumFrom_of_drain {ρ σ ι α : Type} (next : ι → Res (Option α × ι))
    (body : (Int × α) → σ → Ctl ρ (Step σ)) :
    ∀ (n : Nat) (i : Nat) (it : ι) (items : List α) (s : σ), drainIter next n it = .ok items →
      Rs.forIterEnumFrom n next i it s body = Rs.forIn (Rs.enumerateFrom i items) s body := by
  intro n
  induction n with
  | zero => intro i it items s h; simp [drainIter] at h
  | succ n ih =>
    intro i it items s h
    simp only [drainIter] at h
    simp only [Rs.forIterEnumFrom]
    cases hn : next it with
    | ok p =>
      obtain ⟨o, it'⟩ := p
      rw [hn] at h
      cases o with
      | none =>
        simp only [Res.ok.injEq] at h
        subst h
        rfl
      | some x =>
        simp only [] at h ⊢
        cases hd : drainIter next n it' with
        | ok rest =>
          rw [hd] at h
          simp only [Res.ok.injEq] at h
          subst h
          simp only [Rs.enumerateFrom, Rs.forIn]
          cases body ((i : Int), x) s with
          | val st =>
            cases st with
            | next s' => exact ih (i + 1) it' rest s' hd
            | done s' => rfl
          | ret r => rfl
        | err e => rw [hd] at h; cases h
        | panic p => rw [hd] at h; cases h
        | fuel => rw [hd] at h; cases h
    | err e => rw [hn] at h; cases h
    | panic p => rw [hn] at h; cases h
    | fuel => rw [hn] at h; cases h

/-! ## `iteate_object_keys` drained -/

theorem drainIter_keys : ∀ (n : Nat) (it : Tr.ObjectKeyIterator), drainIter Tr.ObjectKeyIterator.next n it = drainKeys n it := by
  intro n
  induction n with
  | zero => intro it; rfl
  | succ n ih =>
    intro it
    simp only [drainIter, drainKeys]
    cases h : Tr.ObjectKeyIterator.next it with
    | ok p =>
      obtain ⟨o, it'⟩ := p
      cases o with
      | none => rfl
      | some x => simp only [ih]; cases drainKeys n it' <;> rfl
    | err e => rfl
    | panic s => rfl
    | fuel => rfl

theorem iterObjKeysLoop_ne_fuel (value : Bytes) : ∀ (n jo ko : Nat), iterObjKeysLoop value n jo ko ≠ .fuel := by
  intro n
  induction n with
  | zero => intro jo ko; simp [iterObjKeysLoop]
  | succ n ih =>
    intro jo ko
    simp only [iterObjKeysLoop]
    cases readU32At value jo with
    | none => simp
    | some w =>
      dsimp only
      cases hs : Jsonb.slice value ko (ko + jeLen w) with
      | ok key =>
        dsimp only
        have := ih (jo + 4) (ko + jeLen w)
        cases hr : iterObjKeysLoop value n (jo + 4) (ko + jeLen w) with
        | ok rest => simp
        | err e => simp
        | panic s => simp
        | fuel => exact absurd hr this
      | err e => simp
      | panic s => simp
      | fuel => exact absurd hs (slice_ne_fuel _ _ _)

/-- `iteate_object_keys(value, header)` drained with any fuel above the header's count = the model's `iterObjKeys` -/
theorem iteate_object_keys_drain_fuel (value : Bytes) (header fuel : Nat) (hf : hdrLen header < fuel) (it : Tr.ObjectKeyIterator)
    (hit : Tr.iteate_object_keys value (header : Int) = .ok it) :
    drainIter Tr.ObjectKeyIterator.next fuel it = iterObjKeys value header := by
  have h1 := iteate_object_keys_drain value header
  rw [hit] at h1
  simp only [Res.bind] at h1
  rw [← drainIter_keys] at h1
  have hne : iterObjKeys value header ≠ .fuel := iterObjKeysLoop_ne_fuel value _ _ _
  rw [drainIter_mono _ (hdrLen header + 1) fuel it (by omega) (by rw [h1]; exact hne), h1]

/-! ## the loops of `object_insert_jsonb` -/

theorem oi_loop1_step (newKey : Bytes) (update : Bool) (buf : Bytes) (i : Nat) (k : Bytes) (idx : Int) (dup : Bool)
    (hi : i + 1 < 18446744073709551616) :
    Tr.object_insert_jsonb.loop1 newKey update buf ((i : Int), k) (idx, dup) =
      if newKey = k then (if update = false then Ctl.ret (.err "ObjectDuplicateKey") else Ctl.val (.done ((i : Int), true)))
      else if lexCmp newKey k = .gt then Ctl.val (.next (((i + 1 : Nat) : Int), dup))
      else Ctl.val (.done (idx, dup)) := by
  unfold Tr.object_insert_jsonb.loop1
  dsimp only
  have h1 : ((1 : Nat) : Int) = 1 := rfl
  simp only [decide_eq_true_eq, cmpBytes_eq_lexCmp]
  by_cases hk : newKey = k
  · simp only [if_pos hk]
    cases update
    · simp only [Bool.not_false, if_true, Ctl.ret_bind', Rs.loopStep_err']
    · simp only [Bool.not_true, Bool.false_eq_true, if_false, Ctl.pure_eq', Ctl.val_bind', Ctl.ret_bind', Rs.loopStep_brk',
        reduceCtorEq]
  · simp only [if_neg hk]
    by_cases hg : lexCmp newKey k = .gt
    · have hadd' : Rs.add .usize ((1 : Nat) : Int) ((i : Nat) : Int) = .ok (((i + 1 : Nat)) : Int) := by
        rw [Rs.add_usize_nat 1 i (by omega), Nat.add_comm]
      simp only [if_pos hg, ← h1, Rs.add_usize_nat i 1 hi, hadd', Ctl.ofRes_ok', Ctl.val_bind', Ctl.pure_eq', Rs.loopStep_val']
    · simp only [if_neg hg, Ctl.ret_bind', Rs.loopStep_brk']

/-- the first loop is the model's `insertPos` -/
theorem oi_loop1_run (newKey : Bytes) (update : Bool) (buf : Bytes) :
    ∀ (keys : List Bytes) (i idx : Nat), i + keys.length + 1 < 18446744073709551616 →
      (Rs.forIn (Rs.enumerateFrom i keys) (((idx : Nat) : Int), false) (Tr.object_insert_jsonb.loop1 newKey update buf)
        : Ctl Bytes (Int × Bool)) =
        match Fn.insertPos newKey update keys i idx with
        | .ok r => Ctl.val (((r.1 : Nat) : Int), r.2)
        | .err e => Ctl.ret (.err e)
        | .panic s => Ctl.ret (.panic s)
        | .fuel => Ctl.ret .fuel := by
  intro keys
  induction keys with
  | nil => intro i idx _; simp only [Rs.enumerateFrom, Rs.forIn_nil, Fn.insertPos]
  | cons k ks ih =>
    intro i idx hb
    simp only [List.length_cons] at hb
    have hs := oi_loop1_step newKey update buf i k ((idx : Nat) : Int) false (by omega)
    simp only [Rs.enumerateFrom, Fn.insertPos]
    by_cases hk : newKey = k
    · have hbeq : (newKey == k) = true := by simp [hk]
      rw [if_pos hk] at hs
      simp only [hbeq, if_true]
      cases update
      · simp only [if_true] at hs
        simp only [Bool.not_false, if_true]
        exact Rs.forIn_ret _ _ _ _ _ hs
      · simp only [Bool.true_eq_false, if_false] at hs
        simp only [Bool.not_true, Bool.false_eq_true, if_false]
        exact Rs.forIn_done _ _ _ _ _ hs
    · have hbeq : (newKey == k) = false := by simp [hk]
      rw [if_neg hk] at hs
      simp only [hbeq, Bool.false_eq_true, if_false]
      by_cases hg : lexCmp newKey k = .gt
      · have hgb : (lexCmp newKey k == Ordering.gt) = true := by simp [hg]
        rw [if_pos hg] at hs
        simp only [hgb, if_true]
        rw [Rs.forIn_next _ _ _ _ _ hs]
        exact ih (i + 1) (i + 1) (by omega)
      · have hgb : (lexCmp newKey k == Ordering.gt) = false := by
          cases hc : lexCmp newKey k <;> simp_all
        rw [if_neg hg] at hs
        simp only [hgb, Bool.false_eq_true, if_false]
        exact Rs.forIn_done _ _ _ _ _ hs

/-- what `insertPos` answers: a position inside the list; with `dup` a position of an existing key -/
theorem insertPos_bounds (newKey : Bytes) (update : Bool) : ∀ (keys : List Bytes) (i idx r : Nat) (d : Bool),
    idx ≤ i → Fn.insertPos newKey update keys i idx = .ok (r, d) →
    r ≤ i + keys.length ∧ (d = true → r < i + keys.length) ∧ (idx ≤ r)
  | [], i, idx, r, d, hle, h => by
    simp only [Fn.insertPos, Res.ok.injEq, Prod.mk.injEq] at h
    obtain ⟨rfl, rfl⟩ := h
    exact ⟨by simp; omega, by simp, Nat.le_refl _⟩
  | k :: ks, i, idx, r, d, hle, h => by
    simp only [Fn.insertPos] at h
    split at h
    · split at h
      · cases h
      · simp only [Res.ok.injEq, Prod.mk.injEq] at h
        obtain ⟨rfl, rfl⟩ := h
        exact ⟨by simp, fun _ => by simp, hle⟩
    · split at h
      · obtain ⟨a, b, c⟩ := insertPos_bounds newKey update ks (i + 1) (i + 1) r d (Nat.le_refl _) h
        simp only [List.length_cons]
        exact ⟨by omega, fun hd => by have := b hd; omega, by omega⟩
      · simp only [Res.ok.injEq, Prod.mk.injEq] at h
        obtain ⟨rfl, rfl⟩ := h
        exact ⟨by simp; omega, by simp, Nat.le_refl _⟩

theorem oi_loop2_step (i : Int) (it it' : Tr.ObjectEntryIterator) (b : Tr.ObjectBuilder) (x : Bytes × Tr.JEntry × Bytes)
    (h : Tr.ObjectEntryIterator.next it = .ok (some x, it')) :
    Tr.object_insert_jsonb.loop2 i (it, b) = (Ctl.val (.next (it', pushObj x b)) : Ctl Bytes (Step (Tr.ObjectEntryIterator × Tr.ObjectBuilder))) := by
  obtain ⟨k, je, d⟩ := x
  unfold Tr.object_insert_jsonb.loop2 pushObj
  dsimp only
  simp only [h, Ctl.ofRes_ok', Ctl.val_bind', object_push_raw_any, Ctl.pure_eq', Rs.loopStep_val']

/-- `for _ in 0..idx { if let Some(m) = obj_iter.next() { builder.push_raw(m) } }`: the first `idx` members are pushed,
the iterator drains to the others -/
theorem oi_loop2_run : ∀ (k : Nat) (i : Int) (n : Nat) (it : Tr.ObjectEntryIterator) (ms : List (Bytes × JE × Bytes))
    (acc : List (Bytes × BEntry)), k ≤ ms.length →
    drainIter Tr.ObjectEntryIterator.next n it = .ok (ms.map ofMember) →
    ∃ it' n', n' ≤ n ∧ (Rs.forRangeAux Tr.object_insert_jsonb.loop2 k i (it, ⟨ofBKVs acc⟩) : Ctl Bytes (Tr.ObjectEntryIterator × Tr.ObjectBuilder)) =
        .val (it', ⟨ofBKVs (Fn.pushAll acc ((ms.take k).map Fn.memberRaw))⟩) ∧
      drainIter Tr.ObjectEntryIterator.next n' it' = .ok ((ms.drop k).map ofMember)
  | 0, i, n, it, ms, acc, _, hd => ⟨it, n, Nat.le_refl _, by simp [Rs.forRangeAux_zero, Fn.pushAll], by simpa using hd⟩
  | k + 1, i, n, it, ms, acc, hk, hd => by
    cases ms with
    | nil => simp at hk
    | cons m ms =>
      simp only [List.map_cons] at hd
      obtain ⟨n1, it1, hn1, hnext, hd1⟩ := drain_cons _ n it (ofMember m) (ms.map ofMember) hd
      have hs := oi_loop2_step i it it1 ⟨ofBKVs acc⟩ (ofMember m) hnext
      have hpush : pushObj (ofMember m) ⟨ofBKVs acc⟩ = ⟨ofBKVs (bInsert (Fn.memberRaw m).1 (Fn.memberRaw m).2 acc)⟩ := by
        simp only [pushObj, ← btreeInsert_bInsert, ofBE_memberRaw]
        rfl
      rw [hpush] at hs
      obtain ⟨it', n', hle, h1, h2⟩ := oi_loop2_run k (i + 1) n1 it1 ms (bInsert (Fn.memberRaw m).1 (Fn.memberRaw m).2 acc)
        (by simp at hk; omega) hd1
      refine ⟨it', n', by omega, ?_, by simpa using h2⟩
      rw [Rs.forRangeAux_next _ _ _ _ _ hs, h1]
      simp only [List.take_succ_cons, List.map_cons, Fn.pushAll, List.foldl_cons]

end Jsonb.TrAgree
