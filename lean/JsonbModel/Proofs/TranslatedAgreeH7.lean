/-
Agreement theorems, phase 6b, part 7: `Parser::parse_json_number` (parser.rs; the RFC 8259 number lexer, then the
`u64` / `i64` / `fast_float2` classification) EQUALS the model's `JP.parseNumber` (`lexNumber`, `classifyNumber`)
for every buffer and cursor.  `str::parse::<u64 / i64>` and `fast_float2::parse` are MAPPED to the model's readers
(RustPrelude6b.lean), so the theorem checks the lexer and the structure of the classification.
-/
import JsonbModel.Proofs.TranslatedAgreeH6

set_option linter.unusedSimpArgs false
set_option linter.unusedVariables false

namespace Jsonb.TrAgree
open Jsonb.Rs

theorem rb_assoc {α β γ : Type} (x : Res α) (f : α → Res β) (g : β → Res γ) :
    ((x >>= f) >>= g) = (x >>= fun a => f a >>= g) := by
  cases x <;> rfl

theorem checkNext_nio (buf : Bytes) (i : Nat) (c : UInt8) : NIO (JP.checkNext buf i c) := by
  rw [JP.checkNext_eq]; exact NIO_ok _
theorem checkNextEither_nio (buf : Bytes) (i : Nat) (c d : UInt8) : NIO (JP.checkNextEither buf i c d) := by
  rw [JP.checkNextEither_eq]; exact NIO_ok _
theorem checkDigit_nio (buf : Bytes) (i : Nat) : NIO (JP.checkDigit buf i) := by
  rw [JP.checkDigit_eq]; exact NIO_ok _
theorem stepDigits_nio (buf : Bytes) (i : Nat) : NIO (JP.stepDigits buf i) := by
  rcases JP.stepDigits_spec buf i with ⟨e, he⟩ | ⟨j, he, -⟩
  · unfold JP.stepDigits at he ⊢
    split
    · exact NIO_err _ (by decide)
    · rename_i h
      rw [if_neg h] at he
      obtain ⟨j, e2, -⟩ := JP.stepDigitsLoop_spec buf i 0
      rw [e2] at he; cases he
  · rw [he]; exact NIO_ok _

theorem sim_check_next (buf : Bytes) (idx : Nat) (c : UInt8) (k : Int) (hk : k = (c.toNat : Int)) :
    RSim (Tr.Parser.check_next (pz buf idx) k) (JP.checkNext buf idx c) (fun b => (b, pz buf idx)) := by
  subst hk; exact RSim_of_eq (parser_check_next_agrees buf idx c) (checkNext_nio _ _ _)

theorem sim_check_next_either (buf : Bytes) (idx : Nat) (c d : UInt8) (k1 k2 : Int) (h1 : k1 = (c.toNat : Int))
    (h2 : k2 = (d.toNat : Int)) :
    RSim (Tr.Parser.check_next_either (pz buf idx) k1 k2) (JP.checkNextEither buf idx c d) (fun b => (b, pz buf idx)) := by
  subst h1; subst h2; exact RSim_of_eq (parser_check_next_either_agrees buf idx c d) (checkNextEither_nio _ _ _ _)

theorem sim_check_digit (buf : Bytes) (idx : Nat) :
    RSim (Tr.Parser.check_digit (pz buf idx)) (JP.checkDigit buf idx) (fun b => (b, pz buf idx)) :=
  RSim_of_eq (parser_check_digit_agrees buf idx) (checkDigit_nio _ _)

theorem sim_step_digits (buf : Bytes) (idx : Nat) (hb : buf.length < 9223372036854775808) :
    RSim (Tr.Parser.step_digits (pz buf idx)) (JP.stepDigits buf idx) (fun p => ((p.1 : Int), pz buf p.2)) :=
  RSim_of_eq (parser_step_digits_agrees buf idx hb) (stepDigits_nio _ _)

theorem checkNext_true {buf : Bytes} {i : Nat} {c : UInt8} (h : JP.checkNext buf i c = .ok true) : i < buf.length := by
  rw [JP.checkNext_eq] at h
  exact JP.lt_of_get_beq (Res.ok.inj h)

theorem checkNextEither_true {buf : Bytes} {i : Nat} {c d : UInt8} (h : JP.checkNextEither buf i c d = .ok true) :
    i < buf.length := by
  rw [JP.checkNextEither_eq] at h
  exact JP.lt_of_get_beq2 (Res.ok.inj h)

theorem checkDigit_true {buf : Bytes} {i : Nat} (h : JP.checkDigit buf i = .ok true) : i < buf.length := by
  rw [JP.checkDigit_eq] at h
  by_cases hc : i < buf.length
  · exact hc
  · rw [List.getElem?_eq_none (Nat.le_of_not_lt hc)] at h; cases h

theorem stepDigits_ok {buf : Bytes} {i : Nat} {p : Nat × Nat} (h : JP.stepDigits buf i = .ok p) :
    p.1 = p.2 - i ∧ i ≤ p.2 ∧ (p.2 ≤ buf.length ∨ p.2 = i) ∧ i ≠ buf.length := by
  have hne : i ≠ buf.length := by
    intro c
    unfold JP.stepDigits at h
    rw [if_pos (by simp [c])] at h; cases h
  rcases JP.stepDigits_spec buf i with ⟨e, he⟩ | ⟨j, he, h1, h2⟩
  · rw [he] at h; cases h
  · rw [he] at h; cases h; exact ⟨rfl, h1, h2, hne⟩

theorem tp_eq_zero (n : Nat) : decide ((n : Int) = 0) = (n == 0) := by
  by_cases h : n = 0
  · subst h; rfl
  · have : ¬ (n : Int) = 0 := by omega
    simp [h, this]

theorem tp_zero_eq (n : Nat) : decide ((0 : Int) = (n : Int)) = (n == 0) := by
  rw [← tp_eq_zero]; exact decide_eq_decide.mpr eq_comm

/-! ## parse_json_number -/

theorem parse_json_number_sim (buf : Bytes) (idx : Nat) (hb : buf.length < 9223372036854775808)
    (hi : idx ≤ buf.length) :
    RSim (Tr.Parser.parse_json_number (pz buf idx)) (JP.parseNumber buf idx) (ofVP buf) := by
  unfold Tr.Parser.parse_json_number JP.parseNumber JP.lexNumber
  simp only [rb_assoc, rb_pure, rb_ok, Ctl.bind_assoc']
  show FSim _ _ _
  -- sign
  refine FSim_bind2 (h := fun p => (pz buf p.2, p.1)) (ma := JP.lexSign buf idx) ?sgn ?_
  case sgn =>
    unfold JP.lexSign
    refine CSim_bind (CSim_ofRes (sim_check_next buf idx 0x2D 45 rfl)) ?_
    intro neg hneg
    cases neg with
    | true =>
      have := checkNext_true hneg
      simp only [if_true, parser_step_agrees buf idx (by omega), Ctl.ofRes_ok', Ctl.val_bind', Ctl.pure_eq', rb_pure]
      exact CSim_val _ _ _ rfl
    | false =>
      simp only [Bool.false_eq_true, if_false, Ctl.pure_eq', rb_pure]
      exact CSim_val _ _ _ rfl
  intro sg hsg
  obtain ⟨neg, i1⟩ := sg
  have hi1 : i1 ≤ buf.length := by
    obtain ⟨b, j, e, h1, h2⟩ := JP.lexSign_spec buf idx
    rw [e] at hsg; cases hsg; omega
  simp only
  -- integer part
  refine FSim_bind2 (h := fun j => pz buf j) (ma := JP.lexInt buf i1) ?int ?_
  case int =>
    unfold JP.lexInt
    refine CSim_bind (CSim_ofRes (sim_check_next buf i1 0x30 48 rfl)) ?_
    intro z hz
    cases z with
    | true =>
      have := checkNext_true hz
      simp only [if_true, parser_step_agrees buf i1 (by omega), Ctl.ofRes_ok', Ctl.val_bind']
      refine CSim_bind (CSim_ofRes (sim_check_digit buf (i1 + 1))) ?_
      intro d hd
      cases d with
      | true =>
        have := checkDigit_true hd
        simp only [if_true, parser_step_agrees buf (i1 + 1) (by omega), Ctl.ofRes_ok', Ctl.val_bind']
        exact CSim_err _ _ _ rfl
      | false =>
        simp only [Bool.false_eq_true, if_false, Ctl.pure_eq', rb_pure]
        exact CSim_val _ _ _ rfl
    | false =>
      simp only [Bool.false_eq_true, if_false, rb_pure]
      refine CSim_bind (CSim_ofRes (sim_step_digits buf i1 hb)) ?_
      intro p hp
      obtain ⟨h1, h2, h3, h4⟩ := stepDigits_ok hp
      simp only [tp_eq_zero, tp_zero_eq]
      cases hz : (p.1 == 0) with
      | true =>
        simp only [if_true, parser_step_agrees buf p.2 (by omega), Ctl.ofRes_ok', Ctl.val_bind']
        exact CSim_err _ _ _ rfl
      | false =>
        simp only [Bool.false_eq_true, if_false, Ctl.pure_eq']
        exact CSim_val _ _ _ rfl
  intro i2 hi2e
  have hi2 : i2 ≤ buf.length := ((JP.lexInt_spec buf i1).2 i2 hi2e).2
  -- fraction
  refine FSim_bind2 (h := fun p => (pz buf p.2, p.1)) (ma := JP.lexFrac buf i2) ?frac ?_
  case frac =>
    unfold JP.lexFrac
    refine CSim_bind (CSim_ofRes (sim_check_next buf i2 0x2E 46 rfl)) ?_
    intro dot hdot
    cases dot with
    | true =>
      have := checkNext_true hdot
      simp only [if_true, parser_step_agrees buf i2 (by omega), Ctl.ofRes_ok', Ctl.val_bind']
      refine CSim_bind (CSim_ofRes (sim_step_digits buf (i2 + 1) hb)) ?_
      intro p hp
      obtain ⟨h1, h2, h3, h4⟩ := stepDigits_ok hp
      simp only [tp_eq_zero, tp_zero_eq]
      cases hz : (p.1 == 0) with
      | true =>
        simp only [if_true, parser_step_agrees buf p.2 (by omega), Ctl.ofRes_ok', Ctl.val_bind', Ctl.ret_bind']
        exact CSim_err _ _ _ rfl
      | false =>
        simp only [Bool.false_eq_true, if_false, Ctl.pure_eq', Ctl.val_bind', rb_pure]
        exact CSim_val _ _ _ rfl
    | false =>
      simp only [Bool.false_eq_true, if_false, Ctl.pure_eq', rb_pure]
      exact CSim_val _ _ _ rfl
  intro fr hfr
  obtain ⟨hasFrac, i3⟩ := fr
  have hi3 : i3 ≤ buf.length := by
    have := (JP.lexFrac_spec buf i2).2 hasFrac i3 hfr
    omega
  simp only
  -- exponent
  refine FSim_bind2 (h := fun p => (pz buf p.2, p.1)) (ma := JP.lexExp buf i3) ?exp ?_
  case exp =>
    unfold JP.lexExp
    refine CSim_bind (CSim_ofRes (sim_check_next_either buf i3 0x45 0x65 69 101 rfl rfl)) ?_
    intro ex hex
    cases ex with
    | true =>
      have := checkNextEither_true hex
      simp only [if_true, parser_step_agrees buf i3 (by omega), Ctl.ofRes_ok', Ctl.val_bind']
      refine CSim_bind (CSim_ofRes (sim_check_next_either buf (i3 + 1) 0x2B 0x2D 43 45 rfl rfl)) ?_
      intro sg hsgn
      have hstep : (if sg = true then Ctl.ofRes (Tr.Parser.step (pz buf (i3 + 1))) else pure (pz buf (i3 + 1)) :
          Ctl (Tr.Value × Tr.Parser) Tr.Parser) = Ctl.val (pz buf (if sg = true then i3 + 2 else i3 + 1)) := by
        cases sg with
        | true =>
          have := checkNextEither_true hsgn
          simp only [if_true, parser_step_agrees buf (i3 + 1) (by omega), Ctl.ofRes_ok']
        | false => simp only [Bool.false_eq_true, if_false, Ctl.pure_eq']
      simp only [hstep, Ctl.val_bind']
      have hi4 : (if sg = true then i3 + 2 else i3 + 1) ≤ buf.length + 1 := by
        cases sg with
        | true => have := checkNextEither_true hsgn; simp only [if_true]; omega
        | false => simp only [Bool.false_eq_true, if_false]; omega
      generalize (if sg = true then i3 + 2 else i3 + 1) = i4 at hi4 ⊢
      refine CSim_bind (CSim_ofRes (sim_step_digits buf i4 hb)) ?_
      intro p hp
      obtain ⟨h1, h2, h3, h4⟩ := stepDigits_ok hp
      simp only [tp_eq_zero, tp_zero_eq]
      cases hz : (p.1 == 0) with
      | true =>
        simp only [if_true, parser_step_agrees buf p.2 (by omega), Ctl.ofRes_ok', Ctl.val_bind', Ctl.ret_bind']
        exact CSim_err _ _ _ rfl
      | false =>
        simp only [Bool.false_eq_true, if_false, Ctl.pure_eq', Ctl.val_bind', rb_pure]
        exact CSim_val _ _ _ rfl
    | false =>
      simp only [Bool.false_eq_true, if_false, Ctl.pure_eq', rb_pure]
      exact CSim_val _ _ _ rfl
  intro exr hexr
  obtain ⟨hasExp, i5⟩ := exr
  have hi5 : i5 ≤ buf.length := by
    have := (JP.lexExp_spec buf i3).2 hasExp i5 hexr
    omega
  simp only [pz_buf, pz_idx]
  refine FSim_bind (CSim_ofRes (sim_slice _ buf idx i5)) ?_
  intro s hs
  simp only [id]
  unfold JP.classifyNumber Rs.strParseU64 Rs.strParseI64 Rs.fastFloatParse
  have hflt : FSim (ρ := Tr.Value × Tr.Parser)
      (match JP.parseFloat s with
        | some v => Ctl.ret (Res.ok (Tr.Value.Number (Tr.Number.Float64 v), pz buf i5))
        | none => Ctl.ret (Res.err "InvalidNumberValue"))
      ((match JP.parseFloat s with
        | some b => Res.ok (JV.num (Num.float b))
        | none => Res.err "InvalidNumberValue") >>= fun v => Res.ok (v, i5)) (ofVP buf) := by
    cases JP.parseFloat s with
    | some b => exact FSim_ret _ _ _ rfl
    | none => exact FSim_err _ _ _ rfl
  cases hasFrac <;> cases hasExp <;> cases neg <;>
    simp only [Bool.not_true, Bool.not_false, Bool.and_true, Bool.and_false, Bool.true_and, Bool.false_and,
      Bool.false_eq_true, if_false, if_true, Ctl.pure_eq', Ctl.val_bind', Bool.and_self]
  all_goals first
    | exact hflt
    | skip
  · cases hu : JP.parseU64 s with
    | some n =>
      simp only [Option.map_some, Ctl.ret_bind', rb_ok]
      exact FSim_ret _ _ _ rfl
    | none =>
      simp only [Option.map_none, Ctl.pure_eq', Ctl.val_bind']
      exact hflt
  · cases hu : JP.parseI64 s with
    | some n =>
      simp only [Option.map_some, Ctl.ret_bind', rb_ok]
      exact FSim_ret _ _ _ rfl
    | none =>
      simp only [Option.map_none, Ctl.pure_eq', Ctl.val_bind']
      exact hflt

theorem slice_nio (site : String) (buf : Bytes) (a b : Nat) : NIO (JP.slice site buf a b) := by
  unfold JP.slice; split
  · exact NIO_panic _
  · split
    · exact NIO_panic _
    · exact NIO_ok _

theorem digitsTail_nio {α : Type} (buf : Bytes) (i : Nat) (f : Nat × Nat → α) :
    NIO (JP.stepDigits buf i >>= fun p => if (p.1 == 0) = true then Res.err "InvalidNumberValue" else pure (f p)) := by
  refine NIO_bind (stepDigits_nio _ _) (fun p _ => ?_)
  split
  · exact NIO_err _ (by decide)
  · exact NIO_pure _

theorem parseNumber_nio (buf : Bytes) (idx : Nat) : NIO (JP.parseNumber buf idx) := by
  unfold JP.parseNumber JP.lexNumber
  refine NIO_bind (NIO_bind ?sgn ?rest) ?tail
  case sgn =>
    unfold JP.lexSign
    exact NIO_bind (checkNext_nio _ _ _) (fun _ _ => NIO_pure _)
  case rest =>
    intro sg _
    refine NIO_bind ?int ?rest2
    case int =>
      unfold JP.lexInt
      refine NIO_bind (checkNext_nio _ _ _) (fun z _ => ?_)
      split
      · refine NIO_bind (checkDigit_nio _ _) (fun d _ => ?_)
        split
        · exact NIO_err _ (by decide)
        · exact NIO_pure _
      · exact digitsTail_nio buf _ (fun p => p.2)
    case rest2 =>
      intro i2 _
      refine NIO_bind ?frac ?rest3
      case frac =>
        unfold JP.lexFrac
        refine NIO_bind (checkNext_nio _ _ _) (fun z _ => ?_)
        split
        · exact digitsTail_nio buf _ (fun p => (true, p.2))
        · exact NIO_pure _
      case rest3 =>
        intro fr _
        refine NIO_bind ?exp (fun _ _ => NIO_pure _)
        unfold JP.lexExp
        refine NIO_bind (checkNextEither_nio _ _ _ _) (fun z _ => ?_)
        split
        · refine NIO_bind (checkNextEither_nio _ _ _ _) (fun sgn _ => ?_)
          exact digitsTail_nio buf _ (fun p => (true, p.2))
        · exact NIO_pure _
  case tail =>
    intro p _
    refine NIO_bind (slice_nio _ _ _ _) (fun s _ => NIO_bind ?_ (fun _ _ => NIO_pure _))
    unfold JP.classifyNumber
    simp only
    split
    · exact NIO_ok _
    · split
      · exact NIO_ok _
      · exact NIO_err _ (by decide)

/-- **`Parser::parse_json_number`** EQUALS the model's `JP.parseNumber` for every buffer and every cursor inside it -/
theorem parser_parse_json_number_agrees (buf : Bytes) (idx : Nat) (hb : buf.length < 9223372036854775808)
    (hi : idx ≤ buf.length) :
    Tr.Parser.parse_json_number (pz buf idx) = (JP.parseNumber buf idx).map (ofVP buf) :=
  RSim_eq (parse_json_number_sim buf idx hb hi) (JP.parseNumber_spec buf idx).1 (parseNumber_nio buf idx)

end Jsonb.TrAgree
