/-
Phase 4: `BTreeMap<K, i32>` as a key-sorted list (`Rs.mapGet`, `Rs.mapInsert`) against the model's count
association list (`Fn.countAdd`, `Fn.countGet`, `Fn.countDec`): lookup / update laws and the invariant the
set functions `array_intersection_jsonb` / `array_except_jsonb` maintain.
-/
import JsonbModel.Proofs.TranslatedAgreeD11

set_option linter.unusedSimpArgs false
set_option linter.unusedVariables false

namespace Jsonb.TrAgree
open Jsonb.Rs

/-! ## laws of the sorted map -/

theorem mapInsert_keys {κ β : Type} (cmp : κ → κ → Ordering) (hc : LawfulCmp cmp) :
    ∀ (m : List (κ × β)) (k : κ) (v : β), (Rs.mapInsert cmp m k v).map Prod.fst = Rs.setInsert cmp (m.map Prod.fst) k
  | [], k, v => rfl
  | (k', v') :: rest, k, v => by
    simp only [Rs.mapInsert, List.map_cons, Rs.setInsert]
    cases hk : cmp k k' with
    | lt => rfl
    | eq => rfl
    | gt => simp only [List.map_cons, mapInsert_keys cmp hc rest k v]

theorem mapGet_none_of_lt {κ β : Type} {cmp : κ → κ → Ordering} (hc : LawfulCmp cmp) :
    ∀ (m : List (κ × β)) (k : κ), SortedBy cmp (m.map Prod.fst) → (∀ y ∈ m.map Prod.fst, cmp k y = .lt) →
    Rs.mapGet cmp m k = none
  | [], _, _, _ => rfl
  | (k', v') :: rest, k, _, h => by
    simp only [Rs.mapGet, h k' (by simp)]

/-- lookup after an insertion / an assignment through `get_mut` -/
theorem mapGet_insert {κ β : Type} [DecidableEq κ] {cmp : κ → κ → Ordering} (hc : LawfulCmp cmp) :
    ∀ (m : List (κ × β)), SortedBy cmp (m.map Prod.fst) → ∀ (k : κ) (v : β) (k' : κ),
    Rs.mapGet cmp (Rs.mapInsert cmp m k v) k' = if k' = k then some v else Rs.mapGet cmp m k'
  | [], _, k, v, k' => by
    simp only [Rs.mapInsert, Rs.mapGet]
    by_cases h : k' = k
    · subst h; simp [lawful_refl hc]
    · simp only [h, if_false]
      cases hk : cmp k' k with
      | lt => rfl
      | eq => exact absurd ((hc.eq_iff _ _).1 hk) h
      | gt => rfl
  | (x, vx) :: rest, hs, k, v, k' => by
    simp only [Rs.mapInsert]
    cases hkx : cmp k x with
    | lt =>
      simp only [Rs.mapGet]
      by_cases h : k' = k
      · subst h; simp [lawful_refl hc]
      · simp only [h, if_false]
        cases hk : cmp k' k with
        | lt =>
          have : cmp k' x = .lt := hc.lt_trans _ _ _ hk hkx
          simp only [this]
        | eq => exact absurd ((hc.eq_iff _ _).1 hk) h
        | gt => rfl
    | eq =>
      have hkx' := (hc.eq_iff k x).1 hkx
      subst hkx'
      simp only [Rs.mapGet]
      by_cases h : k' = k
      · subst h; simp [lawful_refl hc]
      · simp only [h, if_false]
        cases hk : cmp k' k with
        | lt => rfl
        | eq => exact absurd ((hc.eq_iff _ _).1 hk) h
        | gt => rfl
    | gt =>
      simp only [Rs.mapGet]
      have ih := mapGet_insert hc rest (sortedBy_tail hs) k v k'
      by_cases h : k' = k
      · subst h
        simp only [hkx, ih, if_true]
      · simp only [h, if_false] at ih ⊢
        cases hk : cmp k' x with
        | lt => rfl
        | eq => rfl
        | gt => simp only [ih]

theorem mapInsert_sorted {κ β : Type} {cmp : κ → κ → Ordering} (hc : LawfulCmp cmp) (m : List (κ × β))
    (hs : SortedBy cmp (m.map Prod.fst)) (k : κ) (v : β) : SortedBy cmp ((Rs.mapInsert cmp m k v).map Prod.fst) := by
  rw [mapInsert_keys cmp hc]
  exact (setInsert_sorted hc _ hs k).1

/-! ## laws of the model's count list -/

theorem countGet_add (k : Nat × Nat × Bytes) : ∀ (m : List ((Nat × Nat × Bytes) × Nat)) (t : Nat × Nat × Bytes),
    Fn.countGet t (Fn.countAdd k m) = if t = k then some ((Fn.countGet k m).getD 0 + 1) else Fn.countGet t m
  | [], t => by
    simp only [Fn.countAdd, Fn.countGet]
    by_cases h : t = k
    · subst h; simp
    · have : ¬ k = t := fun e => h e.symm
      simp [h, this]
  | (k', c) :: m, t => by
    simp only [Fn.countAdd]
    by_cases hk : k' = k
    · subst hk
      simp only [if_true, Fn.countGet]
      by_cases h : t = k'
      · subst h; simp
      · have : ¬ k' = t := fun e => h e.symm
        simp [h, this]
    · simp only [hk, if_false, Fn.countGet]
      have ih := countGet_add k m t
      by_cases h : t = k
      · subst h
        simp only [hk, if_false, ih, if_true]
      · simp only [h, if_false] at ih ⊢
        by_cases h2 : k' = t
        · simp [h2]
        · simp [h2, ih]

theorem countGet_dec (k : Nat × Nat × Bytes) : ∀ (m : List ((Nat × Nat × Bytes) × Nat)) (t : Nat × Nat × Bytes),
    Fn.countGet t (Fn.countDec k m) = if t = k then (Fn.countGet k m).map (· - 1) else Fn.countGet t m
  | [], t => by
    simp only [Fn.countDec, Fn.countGet]
    by_cases h : t = k <;> simp [h]
  | (k', c) :: m, t => by
    simp only [Fn.countDec]
    by_cases hk : k' = k
    · subst hk
      simp only [if_true, Fn.countGet]
      by_cases h : t = k'
      · subst h; simp
      · have : ¬ k' = t := fun e => h e.symm
        simp [h, this]
    · simp only [hk, if_false, Fn.countGet]
      have ih := countGet_dec k m t
      by_cases h : t = k
      · subst h
        simp only [hk, if_false, ih, if_true]
      · simp only [h, if_false] at ih ⊢
        by_cases h2 : k' = t
        · simp [h2]
        · simp [h2, ih]

/-! ## the invariant -/

/-- the translated count map holds, under every identity, the model's count (an `i32` value below `bound`) -/
def MapInv (M : List ((Tr.JEntry × Bytes) × Int)) (m : List ((Nat × Nat × Bytes) × Nat)) (bound : Nat) : Prop :=
  SortedBy keyCmp (M.map Prod.fst) ∧ (∀ t, Rs.mapGet keyCmp M (kOf t) = (Fn.countGet t m).map (fun c => ((c : Nat) : Int))) ∧
    ∀ t c, Fn.countGet t m = some c → c ≤ bound

theorem mapInv_empty : MapInv [] [] 0 := ⟨trivial, fun t => rfl, fun t c h => by simp [Fn.countGet] at h⟩

theorem mapGet_kOf_insert (M : List ((Tr.JEntry × Bytes) × Int)) (hs : SortedBy keyCmp (M.map Prod.fst))
    (k t : Nat × Nat × Bytes) (v : Int) :
    Rs.mapGet keyCmp (Rs.mapInsert keyCmp M (kOf k) v) (kOf t) = if t = k then some v else Rs.mapGet keyCmp M (kOf t) := by
  rw [mapGet_insert lawful_key_cmp M hs]
  by_cases h : t = k
  · subst h; simp
  · have : ¬ kOf t = kOf k := fun e => h (kOf_inj _ _ e)
    simp [h, this]

/-- counting one more occurrence of `x` (`*cnt += 1`, or `insert(.., 1)`) -/
theorem mapInv_add {M : List ((Tr.JEntry × Bytes) × Int)} {m : List ((Nat × Nat × Bytes) × Nat)} {bound : Nat}
    (h : MapInv M m bound) (x : JE × Bytes) :
    MapInv (Rs.mapInsert keyCmp M (ofItem x) (((Fn.countGet (Fn.ident x) m).getD 0 + 1 : Nat) : Int))
      (Fn.countAdd (Fn.ident x) m) (bound + 1) := by
  obtain ⟨h1, h2, h3⟩ := h
  refine ⟨mapInsert_sorted lawful_key_cmp M h1 _ _, fun t => ?_, fun t c hc => ?_⟩
  · rw [← kOf_ident, mapGet_kOf_insert M h1, countGet_add, h2 t]
    by_cases e : t = Fn.ident x <;> simp [e]
  · rw [countGet_add] at hc
    by_cases e : t = Fn.ident x
    · simp only [e, if_true, Option.some.injEq] at hc
      cases hg : Fn.countGet (Fn.ident x) m with
      | none => rw [hg] at hc; simp at hc; omega
      | some c0 => rw [hg] at hc; simp at hc; have := h3 _ _ hg; omega
    · simp only [e, if_false] at hc
      have := h3 t c hc; omega

/-- one occurrence of `x` used up (`*cnt -= 1`) -/
theorem mapInv_dec {M : List ((Tr.JEntry × Bytes) × Int)} {m : List ((Nat × Nat × Bytes) × Nat)} {bound : Nat}
    (h : MapInv M m bound) (x : JE × Bytes) (c : Nat) (hc : Fn.countGet (Fn.ident x) m = some c) :
    MapInv (Rs.mapInsert keyCmp M (ofItem x) (((c - 1 : Nat)) : Int)) (Fn.countDec (Fn.ident x) m) bound := by
  obtain ⟨h1, h2, h3⟩ := h
  refine ⟨mapInsert_sorted lawful_key_cmp M h1 _ _, fun t => ?_, fun t c' hc' => ?_⟩
  · rw [← kOf_ident, mapGet_kOf_insert M h1, countGet_dec, h2 t]
    by_cases e : t = Fn.ident x
    · simp [e, hc]
    · simp [e]
  · rw [countGet_dec] at hc'
    by_cases e : t = Fn.ident x
    · simp only [e, if_true, hc, Option.map_some, Option.some.injEq] at hc'
      have := h3 _ _ hc; omega
    · simp only [e, if_false] at hc'
      exact h3 t c' hc'

theorem mapInv_get {M : List ((Tr.JEntry × Bytes) × Int)} {m : List ((Nat × Nat × Bytes) × Nat)} {bound : Nat}
    (h : MapInv M m bound) (x : JE × Bytes) :
    Rs.mapGet keyCmp M (ofItem x) = (Fn.countGet (Fn.ident x) m).map (fun c => ((c : Nat) : Int)) := by
  rw [← kOf_ident]; exact h.2.1 _

end Jsonb.TrAgree
