/-
Phase 6c, editors left over from phase 4.  I10: `array_overlap_jsonb` against `Fn.arrayOverlap`.  The source returns
`Ok(true)` from inside the walk of its first operand, the model evaluates `setOperand v1` eagerly: agreement is an
equality wherever the model's answer is not a panic.
-/
import JsonbModel.Proofs.TranslatedAgreeI9
import JsonbModel.Functions.Edit
import JsonbModel.Proofs.SetRefine2

set_option linter.unusedSimpArgs false
set_option linter.unusedVariables false

namespace Jsonb.TrAgree
open Jsonb.Rs

/-- one step of the loop that fills `item_set` -/
def ovStep (x : Tr.JEntry × Bytes) (S : List (Tr.JEntry × Bytes)) : List (Tr.JEntry × Bytes) :=
  if !(Rs.setContains keyCmp S x) then Rs.setInsert keyCmp S x else S

theorem ov_loop1_step (x : Tr.JEntry × Bytes) (S : List (Tr.JEntry × Bytes)) :
    Tr.array_overlap_jsonb.loop1 x S = (Ctl.val (.next (ovStep x S)) : Ctl Bool (Step (List (Tr.JEntry × Bytes)))) := by
  obtain ⟨je, d⟩ := x
  unfold Tr.array_overlap_jsonb.loop1 ovStep keyCmp
  dsimp only
  cases h : Rs.setContains (Rs.cmpLex Tr.JEntry.cmp Rs.cmpBytes) S (je, d) <;>
    simp only [Bool.not_false, Bool.not_true, if_true, if_false, Bool.false_eq_true, Ctl.pure_eq', Ctl.val_bind',
      Rs.loopStep_val']

/-- the set holds exactly the identities of the items seen -/
theorem ov_fold : ∀ (items : List (JE × Bytes)) (S : List (Tr.JEntry × Bytes)) (seen : List (Nat × Nat × Bytes)),
    SetInv S seen →
    ∃ seen', SetInv ((items.map ofItem).foldl (fun s x => ovStep x s) S) seen' ∧
      ∀ t, t ∈ seen' ↔ t ∈ seen ∨ t ∈ items.map Fn.ident
  | [], S, seen, h => ⟨seen, h, fun t => by simp⟩
  | x :: xs, S, seen, h => by
    simp only [List.map_cons, List.foldl_cons, ovStep, setInv_contains h x]
    cases hc : seen.contains (Fn.ident x)
    · simp only [Bool.not_false, if_true]
      obtain ⟨seen', h1, h2⟩ := ov_fold xs (Rs.setInsert keyCmp S (ofItem x)) (Fn.ident x :: seen) (setInv_insert h x)
      refine ⟨seen', h1, fun t => ?_⟩
      rw [h2 t]
      simp only [List.mem_cons]
      constructor
      · rintro ((e | e) | e)
        · exact Or.inr (Or.inl e)
        · exact Or.inl e
        · exact Or.inr (Or.inr e)
      · rintro (e | e | e)
        · exact Or.inl (Or.inr e)
        · exact Or.inl (Or.inl e)
        · exact Or.inr e
    · simp only [Bool.not_true, Bool.false_eq_true, if_false]
      obtain ⟨seen', h1, h2⟩ := ov_fold xs S seen h
      refine ⟨seen', h1, fun t => ?_⟩
      rw [h2 t]
      simp only [List.mem_cons]
      have hm : Fn.ident x ∈ seen := by simpa using hc
      constructor
      · rintro (e | e)
        · exact Or.inl e
        · exact Or.inr (Or.inr e)
      · rintro (e | e | e)
        · exact Or.inl e
        · exact Or.inl (e ▸ hm)
        · exact Or.inr e

theorem ov_loop2_step (S : List (Tr.JEntry × Bytes)) (x : Tr.JEntry × Bytes) :
    Tr.array_overlap_jsonb.loop2 S x () =
      if Rs.setContains keyCmp S x then (Ctl.ret (.ok true) : Ctl Bool (Step Unit)) else Ctl.val (.next ()) := by
  obtain ⟨je, d⟩ := x
  unfold Tr.array_overlap_jsonb.loop2 keyCmp
  dsimp only
  cases Rs.setContains (Rs.cmpLex Tr.JEntry.cmp Rs.cmpBytes) S (je, d)
  · simp only [Bool.false_eq_true, if_false, Ctl.pure_eq', Ctl.val_bind', Rs.loopStep_val']
  · simp only [if_true, Ctl.ret_bind', Rs.loopStep_ret']

/-- the search loop over the first operand -/
theorem ov_find (S : List (Tr.JEntry × Bytes)) (seen : List (Nat × Nat × Bytes)) (h : SetInv S seen) :
    ∀ (items : List (JE × Bytes)),
      (Rs.forIn (items.map ofItem) () (Tr.array_overlap_jsonb.loop2 S) : Ctl Bool Unit) =
        if items.any (fun x => seen.contains (Fn.ident x)) then Ctl.ret (.ok true) else Ctl.val ()
  | [] => by simp [Rs.forIn_nil]
  | x :: xs => by
    have hs := ov_loop2_step S (ofItem x)
    rw [setInv_contains h x] at hs
    rw [List.map_cons, List.any_cons]
    cases hc : seen.contains (Fn.ident x)
    · rw [hc] at hs
      simp only [Bool.false_eq_true, if_false] at hs
      rw [Rs.forIn_next _ _ _ _ _ hs, ov_find S seen h xs]
      rw [Bool.false_or]
    · rw [hc] at hs
      simp only [if_true] at hs
      rw [Rs.forIn_ret _ _ _ _ _ hs, Bool.true_or, if_pos rfl]

theorem any_congr_mem (items : List (JE × Bytes)) (a b : List (Nat × Nat × Bytes)) (h : ∀ t, t ∈ a ↔ t ∈ b) :
    items.any (fun x => a.contains (Fn.ident x)) = items.any (fun x => b.contains (Fn.ident x)) := by
  congr 1
  funext x
  have := h (Fn.ident x)
  cases ha : a.contains (Fn.ident x) <;> cases hb : b.contains (Fn.ident x) <;> simp_all

theorem array_overlap_jsonb_agrees (v1 v2 : Bytes) (fuel : Nat) (hfuel : 536870913 < fuel)
    (h1 : v1.length < 1152921504606846976) (h2 : v2.length < 1152921504606846976)
    (hnp : (Fn.arrayOverlap v1 v2).isPanic = false) :
    Tr.array_overlap_jsonb fuel v1 v2 = Fn.arrayOverlap v1 v2 := by
  unfold Tr.array_overlap_jsonb
  unfold Fn.arrayOverlap at hnp ⊢
  simp only [read_u32_zero]
  cases hr1 : readU32At v1 0 with
  | none => simp only [Ctl.ofRes_err', Ctl.ret_bind', Ctl.run_ret']
  | some hd1 =>
    cases hr2 : readU32At v2 0 with
    | none => simp only [Ctl.ofRes_ok', Ctl.ofRes_err', Ctl.val_bind', Ctl.ret_bind', Ctl.run_ret']
    | some hd2 =>
      rw [hr1, hr2] at hnp
      dsimp only at hnp ⊢
      have hL1 := hdrLen_lt hd1
      have hL2 := hdrLen_lt hd2
      simp only [Ctl.ofRes_ok', Ctl.val_bind', hdrType_eq, iterate_array_agrees, read_u32_four, make_container_jentry_agrees,
        Rs.len, Rs.setNew]
      simp only [decide_eq_true_eq]
      have hinv0 : SetInv [] [] := ⟨trivial, fun t => by simp⟩
      have hk : (Rs.cmpLex Tr.JEntry.cmp Rs.cmpBytes) = keyCmp := rfl
      simp only [hk]
      by_cases hA2 : hdrType hd2 = C.ARRAY_CONTAINER_TAG
      case' pos =>
        simp only [if_pos hA2, Fn.setOperand, hr2] at hnp ⊢
        rw [forIter_array v2 hd2 fuel (by omega) ovStep _ ov_loop1_step]
        cases hit2 : iterArray v2 hd2
        case' err e => exact absurd hit2 (iterArray_ne_err _ _ _)
        case' fuel => exact absurd hit2 (iterArray_ne_fuel _ _)
        case' panic p => rw [hit2] at hnp; simp [Res.isPanic] at hnp
        case' ok items2 =>
          rw [hit2] at hnp
          obtain ⟨seen, hinv, hmem⟩ := ov_fold items2 [] [] hinv0
          simp only [List.not_mem_nil, false_or] at hmem
          dsimp only at hnp ⊢
          generalize (items2.map ofItem).foldl (fun s x => ovStep x s) [] = S at hinv ⊢
          have hall := And.intro hnp (And.intro hmem hinv)
          clear hnp hmem hinv
          revert hall
          generalize items2 = i2
          generalize seen = sn
          generalize S = st
          revert i2 sn st
      case' neg =>
        simp only [if_neg hA2, Fn.setOperand, hr2] at hnp ⊢
        by_cases hO2 : hdrType hd2 = C.OBJECT_CONTAINER_TAG
        case' pos =>
          simp only [if_pos hO2, Ctl.pure_eq'] at hnp ⊢
          have hinv := setInv_insert hinv0
            ((⟨C.CONTAINER_TAG, v2.length % 4294967296, C.CONTAINER_TAG ||| (v2.length % 4294967296)⟩ : JE), v2)
          have hmem : ∀ t, t ∈ [Fn.ident ((⟨C.CONTAINER_TAG, v2.length % 4294967296, C.CONTAINER_TAG ||| (v2.length % 4294967296)⟩ : JE), v2)] ↔
              t ∈ ([((⟨C.CONTAINER_TAG, v2.length % 4294967296, C.CONTAINER_TAG ||| (v2.length % 4294967296)⟩ : JE), v2)] : List (JE × Bytes)).map Fn.ident :=
            fun t => by simp
          generalize [Fn.ident ((⟨C.CONTAINER_TAG, v2.length % 4294967296, C.CONTAINER_TAG ||| (v2.length % 4294967296)⟩ : JE), v2)] = seen at hinv hmem
          generalize ([((⟨C.CONTAINER_TAG, v2.length % 4294967296, C.CONTAINER_TAG ||| (v2.length % 4294967296)⟩ : JE), v2)] : List (JE × Bytes)) = items2 at hmem hnp ⊢
          simp only [ofItem, ofJE] at hinv
          generalize Rs.setInsert keyCmp [] ((⟨((C.CONTAINER_TAG : Nat) : Int), ((v2.length % 4294967296 : Nat) : Int)⟩ : Tr.JEntry), v2) = S at hinv ⊢
          have hall := And.intro hnp (And.intro hmem hinv)
          clear hnp hmem hinv
          revert hall
          generalize items2 = i2
          generalize seen = sn
          generalize S = st
          revert i2 sn st
        case' neg =>
          simp only [if_neg hO2] at hnp ⊢
          cases hr4 : readU32At v2 4
          case' none => simp only [Ctl.ofRes_err', Ctl.ret_bind', Ctl.run_ret']
          case' some w =>
            have h8 := readU32At_some_len v2 4 w hr4
            rw [hr4] at hnp
            simp only [Ctl.ofRes_ok', Ctl.val_bind', decode_jentry_agrees, (sliceFrom_eight v2 (by omega)).1,
              (sliceFrom_eight v2 (by omega)).2, Ctl.pure_eq'] at hnp ⊢
            have hinv := setInv_insert hinv0 (JE.ofWord w, v2.drop 8)
            have hmem : ∀ t, t ∈ [Fn.ident (JE.ofWord w, v2.drop 8)] ↔
                t ∈ ([(JE.ofWord w, v2.drop 8)] : List (JE × Bytes)).map Fn.ident := fun t => by simp
            generalize [Fn.ident (JE.ofWord w, v2.drop 8)] = seen at hinv hmem
            generalize ([(JE.ofWord w, v2.drop 8)] : List (JE × Bytes)) = items2 at hmem hnp ⊢
            simp only [ofItem, ofJE, JE.ofWord] at hinv
            generalize Rs.setInsert keyCmp [] ((⟨((jeType w : Nat) : Int), ((jeLen w : Nat) : Int)⟩ : Tr.JEntry), v2.drop 8) = S at hinv ⊢
            have hall := And.intro hnp (And.intro hmem hinv)
            clear hnp hmem hinv
            revert hall
            generalize items2 = i2
            generalize seen = sn
            generalize S = st
            revert i2 sn st
      all_goals
        intro items2 seen S hall
        obtain ⟨hnp, hmem, hinv⟩ := hall
        simp only [Ctl.val_bind', hr1] at hnp ⊢
        have hcong : ∀ items1 : List (JE × Bytes),
            items1.any (fun x => (items2.map Fn.ident).contains (Fn.ident x)) =
              items1.any (fun x => seen.contains (Fn.ident x)) :=
          fun items1 => any_congr_mem items1 _ _ (fun t => (hmem t).symm)
        by_cases hA1 : hdrType hd1 = C.ARRAY_CONTAINER_TAG
        · simp only [if_pos hA1] at hnp ⊢
          cases hit1 : iterArray v1 hd1 with
          | err e => exact absurd hit1 (iterArray_ne_err _ _ _)
          | fuel => exact absurd hit1 (iterArray_ne_fuel _ _)
          | panic p => rw [hit1] at hnp; simp [Res.isPanic] at hnp
          | ok items1 =>
            rw [forIter_of_drain _ _ fuel _ (items1.map ofItem) () (drain_array_ok v1 hd1 fuel items1 (by omega) hit1),
              ov_find S seen hinv items1]
            dsimp only
            rw [hcong items1]
            cases items1.any (fun x => seen.contains (Fn.ident x))
            · simp only [Bool.false_eq_true, if_false, Ctl.val_bind', Ctl.pure_eq', Ctl.run_ret']
            · simp only [if_true, Ctl.ret_bind', Ctl.run_ret']
        simp only [if_neg hA1] at hnp ⊢
        by_cases hO1 : hdrType hd1 = C.OBJECT_CONTAINER_TAG
        · simp only [if_pos hO1]
          have hc := setInv_contains hinv
            ((⟨C.CONTAINER_TAG, v1.length % 4294967296, C.CONTAINER_TAG ||| (v1.length % 4294967296)⟩ : JE), v1)
          simp only [ofItem, ofJE] at hc
          rw [hc]
          simp only [List.any_cons, List.any_nil, Bool.or_false, hcong]
          cases seen.contains (Fn.ident ((⟨C.CONTAINER_TAG, v1.length % 4294967296, C.CONTAINER_TAG ||| (v1.length % 4294967296)⟩ : JE), v1))
          · simp only [Bool.false_eq_true, if_false, Ctl.val_bind', Ctl.pure_eq', Ctl.run_ret']
          · simp only [if_true, Ctl.ret_bind', Ctl.run_ret']
        simp only [if_neg hO1] at hnp ⊢
        cases hr14 : readU32At v1 4 with
        | none => simp only [Ctl.ofRes_err', Ctl.ret_bind', Ctl.run_ret']
        | some w =>
          have h8 := readU32At_some_len v1 4 w hr14
          simp only [Ctl.ofRes_ok', Ctl.val_bind', decode_jentry_agrees, (sliceFrom_eight v1 (by omega)).1,
            (sliceFrom_eight v1 (by omega)).2]
          have hc := setInv_contains hinv (JE.ofWord w, v1.drop 8)
          simp only [ofItem, ofJE, JE.ofWord] at hc
          rw [hc]
          simp only [List.any_cons, List.any_nil, Bool.or_false, hcong, JE.ofWord]
          cases seen.contains (Fn.ident ((⟨jeType w, jeLen w, w⟩ : JE), v1.drop 8))
          · simp only [Bool.false_eq_true, if_false, Ctl.val_bind', Ctl.pure_eq', Ctl.run_ret']
          · simp only [if_true, Ctl.ret_bind', Ctl.run_ret']

/-- **C13, source-level corollary**: on the encodings of two good documents the translated `array_overlap_jsonb` IS the
model's `arrayOverlap`, i.e. the documented answer on the trees -/
theorem array_overlap_encodeSpec_agrees (a b : JV) (hga : JV.goodTop a = true) (hgb : JV.goodTop b = true)
    (hea : JV.goodL (Spec.elems a) = true) (heb : JV.goodL (Spec.elems b) = true)
    (fuel : Nat) (hfuel : 536870913 < fuel) :
    Tr.array_overlap_jsonb fuel (JV.encodeSpec a) (JV.encodeSpec b) = .ok (Spec.arrayOverlap a b) := by
  have hr := arrayOverlap_refines a b hga hgb hea heb
  rw [array_overlap_jsonb_agrees _ _ fuel hfuel (encodeSpec_length_lt60 a hga) (encodeSpec_length_lt60 b hgb)
    (by rw [hr]; rfl), hr]

/-! ## where the model panics: the recorded difference (forged buffers only) -/

/-- an array `[null, "…100 bytes…"]` whose string payload is missing, and the scalar document `null` -/
def lazyOverlapDoc : Bytes := [0x80, 0, 0, 2, 0, 0, 0, 0, 0x10, 0, 0, 100]
def nullDoc : Bytes := [0x20, 0, 0, 0, 0, 0, 0, 0]

/-- the source answers `Ok(true)` at the first element of its first operand; the model collects the elements first
and panics at the slice of the second -/
theorem array_overlap_lazy_witness :
    Fn.arrayOverlap lazyOverlapDoc nullDoc = .panic "slice index out of range" ∧
      Tr.array_overlap_jsonb 40 lazyOverlapDoc nullDoc = .ok true := by
  refine ⟨?_, ?_⟩ <;> decide +kernel

end Jsonb.TrAgree
