/-
Agreement theorems, phase 2, part 4: `get_jentry_by_name` of functions.rs (first pass over the key
entries filling a `VecDeque`, second pass `while let Some(..) = key_jentries.pop_front()` comparing
the key slices, exact match first, ASCII-case-insensitive match remembered) translated from source
EQUALS the model's `getJentryByName` (`fillKeys` + `getByNameLoop`, Walk.lean).
-/
import JsonbModel.Proofs.TranslatedAgreeB1

set_option linter.unusedSimpArgs false
set_option linter.unusedVariables false

namespace Jsonb.TrAgree
open Jsonb.Rs

/-! ## get_jentry_by_name -/

/-- first loop: one iteration -/
theorem gjbn_loop1_step (value : Bytes) (i : Int) (jo vo : Nat) (q : List Tr.JEntry)
    (hjo : jo + 4 < 18446744073709551616) (hvo : vo + 268435456 < 18446744073709551616) :
    Tr.get_jentry_by_name.loop1 value i ((jo : Int), (vo : Int), q) =
      match readU32At value jo with
      | none => Ctl.ret (.ok none)
      | some w => Ctl.val (.next (((jo + 4 : Nat) : Int), ((vo + jeLen w : Nat) : Int), q ++ [ofJE (JE.ofWord w)])) := by
  unfold Tr.get_jentry_by_name.loop1
  dsimp only
  rw [read_u32_agrees value jo (Rs.le_max_of_lt hjo)]
  cases hr : readU32At value jo with
  | none => simp only [Rs.okQ_err', Ctl.ret_bind', Rs.loopStep_ret']
  | some w =>
    have hl := jeLen_lt w
    simp only [Rs.okQ_ok', Ctl.val_bind', decode_jentry_agrees, Ctl.ofRes_ok', Rs.usize_nat (jeLen w) (by omega),
      Rs.add_usize_nat jo 4 hjo, Rs.add_usize_nat vo (jeLen w) (by omega), Ctl.pure_eq', Rs.pushBack, Rs.loopStep_val']
    have h4 : ((4 : Nat) : Int) = 4 := rfl
    simp only [← h4, Rs.add_usize_nat jo 4 hjo, Ctl.ofRes_ok', Ctl.val_bind', Rs.add_usize_nat vo (jeLen w) (by omega),
      Ctl.pure_eq', Rs.pushBack, Rs.loopStep_val', ofJE, JE.ofWord]

/-- first loop against `fillKeys`: the queue receives one entry per key, with the key lengths the
model collects; the running offsets are the model's -/
theorem gjbn_loop1_run (value : Bytes) : ∀ (n : Nat) (i : Int) (jo vo : Nat) (q : List Tr.JEntry),
    jo + n * 4 < 18446744073709551616 → vo + n * 268435456 < 18446744073709551616 →
    match fillKeys value n jo vo with
    | none => Rs.forRangeAux (Tr.get_jentry_by_name.loop1 value) n i ((jo : Int), (vo : Int), q) = Ctl.ret (.ok none)
    | some (ks, jo', vo') =>
      ∃ js : List Tr.JEntry, js.map (·.length) = ks.map Int.ofNat ∧ (∀ k ∈ ks, k < 268435456) ∧
        ks.length = n ∧ jo' = jo + n * 4 ∧ vo' ≤ vo + n * 268435456 ∧
        Rs.forRangeAux (Tr.get_jentry_by_name.loop1 value) n i ((jo : Int), (vo : Int), q)
          = Ctl.val (((jo' : Nat) : Int), ((vo' : Nat) : Int), q ++ js) := by
  intro n
  induction n with
  | zero =>
    intro i jo vo q _ _
    simp only [fillKeys]
    exact ⟨[], rfl, by simp, rfl, by omega, by omega, by simp [Rs.forRangeAux]⟩
  | succ n ih =>
    intro i jo vo q hjo hvo
    have hstep := gjbn_loop1_step value i jo vo q (by omega) (by omega)
    rw [fillKeys]
    cases hr : readU32At value jo with
    | none =>
      rw [hr] at hstep
      simp only []
      rw [Rs.forRangeAux_ret _ _ _ _ _ hstep]
    | some w =>
      rw [hr] at hstep
      have hl := jeLen_lt w
      have := ih (i + 1) (jo + 4) (vo + jeLen w) (q ++ [ofJE (JE.ofWord w)]) (by omega) (by omega)
      simp only []
      cases hf : fillKeys value n (jo + 4) (vo + jeLen w) with
      | none =>
        rw [hf] at this
        simp only []
        rw [Rs.forRangeAux_next _ _ _ _ _ hstep, this]
      | some r =>
        obtain ⟨ks, jo', vo'⟩ := r
        rw [hf] at this
        obtain ⟨js, h1, h2, h3, h4, h5, h6⟩ := this
        simp only []
        refine ⟨ofJE (JE.ofWord w) :: js, by simp [h1, ofJE, JE.ofWord], ?_, by simp [h3], by omega, by omega, ?_⟩
        · intro k hk
          rcases List.mem_cons.mp hk with h | h
          · subst h; exact hl
          · exact h2 k h
        · rw [Rs.forRangeAux_next _ _ _ _ _ hstep, h6]; simp

theorem asciiLower_eq : ∀ n : Fin 256, Rs.asciiLower (UInt8.ofNat n.val) = lowerAscii (UInt8.ofNat n.val) := by
  decide +kernel

theorem asciiLower_eq' (b : UInt8) : Rs.asciiLower b = lowerAscii b := by
  have := asciiLower_eq ⟨b.toNat, b.toNat_lt⟩
  simpa using this

/-- the prelude's `eq_ignore_ascii_case` (length and bytewise `to_ascii_lowercase`) is the model's -/
theorem eqIgnoreAsciiCase_eq : ∀ (a b : Bytes), Rs.eqIgnoreAsciiCase a b = Jsonb.eqIgnoreAsciiCase a b
  | [], [] => by simp [Rs.eqIgnoreAsciiCase, Jsonb.eqIgnoreAsciiCase]
  | [], _ :: _ => by simp [Rs.eqIgnoreAsciiCase, Jsonb.eqIgnoreAsciiCase]
  | _ :: _, [] => by simp [Rs.eqIgnoreAsciiCase, Jsonb.eqIgnoreAsciiCase]
  | x :: xs, y :: ys => by
    have ih := eqIgnoreAsciiCase_eq xs ys
    simp only [Rs.eqIgnoreAsciiCase, Jsonb.eqIgnoreAsciiCase, List.map_cons, asciiLower_eq'] at ih ⊢
    rw [ih]
    by_cases h : lowerAscii x = lowerAscii y
    · simp [h]
    · simp [h]

/-- the state of the second loop -/
abbrev St2 := (List Tr.JEntry) × Int × (Option (Tr.JEntry × Int × Int)) × Int × Int

/-- second loop: one iteration with a non-empty queue -/
theorem gjbn_loop2_step (value name : Bytes) (ic : Bool) (ty : Int) (klen : Nat) (q : List Tr.JEntry) (ko jo vo : Nat)
    (res : Option (JE × Nat)) (hk : klen < 268435456)
    (hko : ko + 268435456 < 18446744073709551616) (hjo : jo + 4 < 18446744073709551616)
    (hvo : vo + 268435456 < 18446744073709551616) :
    Tr.get_jentry_by_name.loop2 value name ic
        ((⟨ty, (klen : Int)⟩ :: q, (ko : Int), res.map ofHit, (jo : Int), (vo : Int)) : St2) =
      match Jsonb.slice value ko (ko + klen) with
      | .ok key =>
        (match readU32At value jo with
         | none => Ctl.ret (.ok none)
         | some w =>
           if name == key then
             Ctl.val (.done ((q, ((ko + klen : Nat) : Int), (some (JE.ofWord w, vo)).map ofHit, (jo : Int), (vo : Int)) : St2))
           else
             Ctl.val (.next ((q, ((ko + klen : Nat) : Int),
               (if ic && Jsonb.eqIgnoreAsciiCase name key && res.isNone then some (JE.ofWord w, vo) else res).map ofHit,
               ((jo + 4 : Nat) : Int), ((vo + jeLen w : Nat) : Int)) : St2)))
      | .err e => Ctl.ret (.err e)
      | .panic s => Ctl.ret (.panic s)
      | .fuel => Ctl.ret .fuel := by
  unfold Tr.get_jentry_by_name.loop2
  dsimp only [Rs.popFront]
  simp only [Rs.usize_nat klen (by omega), Rs.add_usize_nat ko klen (by omega), Ctl.ofRes_ok', Ctl.val_bind', slice_model]
  cases hs : Jsonb.slice value ko (ko + klen) with
  | err e => simp only [Ctl.ofRes_err', Ctl.ret_bind', Rs.loopStep_err']
  | panic p => simp only [Ctl.ofRes_panic', Ctl.ret_bind', Rs.loopStep_panic']
  | fuel => rfl
  | ok key =>
    simp only [Ctl.ofRes_ok', Ctl.val_bind']
    rw [read_u32_agrees value jo (Rs.le_max_of_lt hjo)]
    cases hr : readU32At value jo with
    | none => simp only [Rs.okQ_err', Ctl.ret_bind', Rs.loopStep_ret']
    | some w =>
      have hl := jeLen_lt w
      have h4 : ((4 : Nat) : Int) = 4 := rfl
      simp only [Rs.okQ_ok', Ctl.val_bind', decode_jentry_agrees, Ctl.ofRes_ok', Rs.usize_nat (jeLen w) (by omega)]
      by_cases hn : name = key
      · subst hn
        simp only [decide_true, if_true, BEq.rfl, Ctl.ret_bind', Rs.loopStep_brk', Option.map_some, ofHit, ofJE, JE.ofWord]
      · have hb : (name == key) = false := by simpa using hn
        simp only [hn, hb, decide_false, Bool.false_eq_true, if_false, eqIgnoreAsciiCase_eq]
        simp only [← h4, Rs.add_usize_nat jo 4 hjo, Rs.add_usize_nat vo (jeLen w) (by omega)]
        cases hc : (ic && Jsonb.eqIgnoreAsciiCase name key) <;> cases res <;>
          simp [hc, Ctl.ofRes, Rs.loopStep, ofHit, ofJE, JE.ofWord, Bind.bind, Ctl.bind]

/-- what follows the second loop: `result` -/
def gjbnK (st : St2) : Ctl (Option (Tr.JEntry × Int × Int)) (Option (Tr.JEntry × Int × Int)) :=
  Ctl.ret (.ok st.2.2.1)

/-- second loop against `getByNameLoop`; `fuel` = more than the queue length -/
theorem gjbn_loop2_run (value name : Bytes) (ic : Bool) : ∀ (js : List Tr.JEntry) (ks : List Nat),
    js.map (·.length) = ks.map Int.ofNat → (∀ k ∈ ks, k < 268435456) →
    ∀ (fuel ko jo vo : Nat) (res : Option (JE × Nat)), js.length < fuel →
    ko + ks.length * 268435456 + 268435456 < 18446744073709551616 →
    jo + ks.length * 4 + 4 < 18446744073709551616 → vo + ks.length * 268435456 + 268435456 < 18446744073709551616 →
    (Rs.whileFuel fuel ((js, (ko : Int), res.map ofHit, (jo : Int), (vo : Int)) : St2)
        (Tr.get_jentry_by_name.loop2 value name ic) >>= gjbnK)
      = Ctl.ret ((getByNameLoop value name ic ks ko jo vo res).map (Option.map ofHit)) := by
  intro js
  induction js with
  | nil =>
    intro ks hmap _ fuel ko jo vo res hf _ _ _
    cases ks with
    | cons k ks => simp at hmap
    | nil =>
      obtain ⟨f, rfl⟩ : ∃ f, fuel = f + 1 := ⟨fuel - 1, by omega⟩
      have hstep : Tr.get_jentry_by_name.loop2 value name ic (([], (ko : Int), res.map ofHit, (jo : Int), (vo : Int)) : St2)
          = Ctl.val (.done (([], (ko : Int), res.map ofHit, (jo : Int), (vo : Int)) : St2)) := by
        unfold Tr.get_jentry_by_name.loop2
        dsimp only [Rs.popFront]
        rw [Rs.loopStep_brk']
      rw [Rs.whileFuel_done _ _ _ _ hstep]
      simp [gjbnK, getByNameLoop, Res.map, Res.bind, Ctl.val_bind']
  | cons j js ih =>
    intro ks hmap hks fuel ko jo vo res hf hko hjo hvo
    cases ks with
    | nil => simp at hmap
    | cons klen ks =>
      obtain ⟨f, rfl⟩ : ∃ f, fuel = f + 1 := ⟨fuel - 1, by omega⟩
      obtain ⟨ty, len⟩ := j
      simp only [List.map_cons, List.cons.injEq] at hmap
      obtain ⟨hlen, hmap⟩ := hmap
      simp only [Int.ofNat_eq_natCast] at hlen
      subst hlen
      have hk : klen < 268435456 := hks klen (by simp)
      simp only [List.length_cons] at hko hjo hvo hf
      have hstep := gjbn_loop2_step value name ic ty klen js ko jo vo res hk (by omega) (by omega) (by omega)
      rw [getByNameLoop]
      cases hs : Jsonb.slice value ko (ko + klen) with
      | err e => rw [hs] at hstep; rw [Rs.whileFuel_ret _ _ _ _ hstep]; rfl
      | panic p => rw [hs] at hstep; rw [Rs.whileFuel_ret _ _ _ _ hstep]; rfl
      | fuel => rw [hs] at hstep; rw [Rs.whileFuel_ret _ _ _ _ hstep]; rfl
      | ok key =>
        rw [hs] at hstep
        simp only [] at hstep ⊢
        cases hr : readU32At value jo with
        | none => rw [hr] at hstep; rw [Rs.whileFuel_ret _ _ _ _ hstep]; rfl
        | some w =>
          rw [hr] at hstep
          simp only [] at hstep ⊢
          have hl := jeLen_lt w
          by_cases hn : (name == key) = true
          · rw [if_pos hn] at hstep
            rw [if_pos hn, Rs.whileFuel_done _ _ _ _ hstep]
            simp [gjbnK, Res.map, Res.bind, Ctl.val_bind']
          · rw [if_neg hn] at hstep
            rw [if_neg hn, Rs.whileFuel_next _ _ _ _ hstep]
            exact ih ks hmap (fun k hk' => hks k (by simp [hk'])) f (ko + klen) (jo + 4) (vo + jeLen w) _ (by omega)
              (by omega) (by omega) (by omega)

theorem vecWithCapacity_ok (α : Type) (sz : Nat) (n : Nat) (h : n * sz ≤ 9223372036854775807) :
    Rs.vecWithCapacity α sz (n : Int) = .ok [] := by
  unfold Rs.vecWithCapacity
  have hc : (n : Int) * (sz : Int) = ((n * sz : Nat) : Int) := by push_cast; rfl
  rw [hc, if_pos (by simp; omega)]

/-- both loops and the final `result`, from any integer start state -/
theorem gjbn_both (value name : Bytes) (ic : Bool) (L : Nat) (jo vo ko : Int) (jn vn kn : Nat)
    (hj : jo = (jn : Int)) (hv : vo = (vn : Int)) (hk : ko = (kn : Int)) (hL : L < 536870912)
    (hjo : jn < 9300000000000000000) (hvo : vn < 9300000000000000000) (hko : kn < 9300000000000000000) :
    (do
      let x ← Rs.forRangeAux (Tr.get_jentry_by_name.loop1 value) L 0 (jo, vo, ([] : List Tr.JEntry))
      let y ← Rs.whileFuel ((Rs.len x.2.2).toNat + 1) ((x.2.2, ko, none, x.1, x.2.1) : St2)
        (Tr.get_jentry_by_name.loop2 value name ic)
      (Ctl.ret (.ok y.2.2.1) : Ctl (Option (Tr.JEntry × Int × Int)) (Option (Tr.JEntry × Int × Int))))
      = Ctl.ret ((match fillKeys value L jn vn with
          | none => (Res.ok none : Res (Option (JE × Nat)))
          | some (ks, jo', vo') => getByNameLoop value name ic ks kn jo' vo' none).map (Option.map ofHit)) := by
  subst hj hv hk
  have h1 := gjbn_loop1_run value L 0 jn vn [] (by omega) (by omega)
  cases hf : fillKeys value L jn vn with
  | none =>
    rw [hf] at h1
    simp only [] at h1 ⊢
    rw [h1]; rfl
  | some r =>
    obtain ⟨ks, jo', vo'⟩ := r
    rw [hf] at h1
    obtain ⟨js, g1, g2, g3, g4, g5, g6⟩ := h1
    simp only [] at g6 ⊢
    rw [g6]
    simp only [Ctl.val_bind', List.nil_append, Rs.len]
    have hlen : js.length = ks.length := by
      have := congrArg List.length g1; simpa using this
    have := gjbn_loop2_run value name ic js ks g1 g2 (js.length + 1) kn jo' vo' none (by omega) (by omega) (by omega) (by omega)
    simp only [Option.map_none, gjbnK] at this
    exact this

/-- `get_jentry_by_name(value, offset, header, name, ignore_case)` for every buffer, header word,
name and `offset ≤ isize::MAX`: the translated function (two loops, the `VecDeque` of key entries as a
list, the `while let … pop_front()` with its iteration bound) EQUALS the model's `getJentryByName`;
the bound is never exhausted -/
theorem get_jentry_by_name_agrees (value : Bytes) (offset header : Nat) (name : Bytes) (ic : Bool)
    (hoff : offset ≤ 9223372036854775807) :
    Tr.get_jentry_by_name value (offset : Int) (header : Int) name ic =
      (getJentryByName value offset header name ic).map (Option.map ofHit) := by
  have hL := hdrLen_lt header
  unfold Tr.get_jentry_by_name getJentryByName
  simp (disch := omega) only [hdrLen_cast, Rs.add_usize_ok', Rs.mul_usize_ok', Ctl.ofRes_ok', Ctl.val_bind', Ctl.pure_eq',
    vecWithCapacity_ok Tr.JEntry 8 (hdrLen header) (by omega), Rs.forRange_zero]
  rw [gjbn_both value name ic (hdrLen header) _ _ _ (offset + 4) (offset + 8 * hdrLen header + 4)
    (offset + 8 * hdrLen header + 4), Ctl.run_ret']
  all_goals (first | rfl | omega)

end Jsonb.TrAgree
