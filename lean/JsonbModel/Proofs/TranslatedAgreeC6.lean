import JsonbModel.Proofs.TranslatedAgreeC5
import JsonbModel.Proofs.SerFrameAny

set_option linter.unusedSimpArgs false
set_option linter.unusedVariables false

namespace Jsonb.TrAgree
open Jsonb.Rs JV

theorem ety_lt (v : JV) : ety v < 4294967296 := by
  cases v with
  | bool x => cases x <;> decide
  | _ => simp only [ety] <;> decide

theorem replaceJentry_ok' (b : Bytes) (w i : Nat) (h : i + 4 ≤ b.length) :
    ∃ b', replaceJentry b w i = .ok b' ∧ b'.length = b.length := replaceJentry_ok b w i h

/-- the key loop of `encode_object` is the model's `encObjKeys` (no recursion here) -/
theorem enc_obj_keys : ∀ (kvs : List (Bytes × JV)) (b : Bytes) (idx acc : Nat),
    idx + kvs.length * 4 ≤ b.length → b.length + keySizeK kvs < 18446744073709551616 →
    acc + keySizeK kvs < 18446744073709551616 →
    ∃ b' n, encObjKeys b idx acc kvs = .ok (b', idx + kvs.length * 4, n) ∧ b'.length = b.length + keySizeK kvs ∧
      n = acc + keySizeK kvs ∧
      Rs.forIn (ofKVs kvs) ((acc : Int), (⟨b⟩ : Tr.Encoder), (idx : Int)) Tr.Encoder.encode_object.loop1 =
        (Ctl.val ((n : Int), ⟨b'⟩, ((idx + kvs.length * 4 : Nat) : Int)) : Ctl (Int × Tr.Encoder) (Int × Tr.Encoder × Int)) := by
  intro kvs
  induction kvs with
  | nil =>
    intro b idx acc _ _ _
    exact ⟨b, acc, by simp [encObjKeys], by simp [keySizeK], by simp [keySizeK], by simp [ofKVs, Rs.forIn_nil]⟩
  | cons kv kvs ih =>
    intro b idx acc hidx hb hacc
    obtain ⟨k, v⟩ := kv
    simp only [List.length_cons, keySizeK] at hidx hb hacc
    obtain ⟨b2, h2, hl2⟩ := replaceJentry_ok' (b ++ k) (jentryWord C.STRING_TAG k.length) idx
      (by rw [List.length_append]; omega)
    rw [List.length_append] at hl2
    obtain ⟨b3, n, h3, hl3, hn3, hrun3⟩ := ih b2 (idx + 4) (acc + k.length) (by omega) (by omega) (by omega)
    have hstep := eo_loop1_step k (ofJV v) b b2 acc idx (by omega) (by omega) h2
    refine ⟨b3, n, ?_, ?_, ?_, ?_⟩
    · simp only [encObjKeys, h2, h3, List.length_cons]; congr 3; omega
    · simp only [keySizeK]; omega
    · simp only [keySizeK]; omega
    · simp only [ofKVs]
      rw [Rs.forIn_next _ _ _ _ _ hstep, hrun3]
      congr 4; simp only [List.length_cons]; omega

mutual
/-- **`encode_value`, translated from source, is the model's `encValue`** for every value whose numbers
are Rust values, every buffer that stays below `2^64` bytes, and every fuel above twice the nesting
depth; with the facts about the result the induction needs (the buffer grows by `encSize v`, the
entry length is that size modulo `2^32`) -/
theorem enc_value_agrees : (v : JV) → (b : Bytes) → (g : Nat) → 2 * depth v < g → numsWF v →
    b.length + encSize v < 18446744073709551616 →
    ∃ b' len, encValue b v = .ok (b', ety v, len) ∧ b'.length = b.length + encSize v ∧ len ≤ encSize v ∧
      len < 4294967296 ∧
      Tr.Encoder.encode_value g ⟨b⟩ (ofJV v) = .ok (⟨(ety v : Nat), (len : Nat)⟩, ⟨b'⟩)
  | .null, b, g, hg, _, _ => by
    obtain ⟨g, rfl⟩ : ∃ g', g = g' + 1 := ⟨g - 1, by omega⟩
    exact ⟨b, 0, rfl, by simp [encSize], by simp, by omega, encode_value_null g b⟩
  | .bool true, b, g, hg, _, _ => by
    obtain ⟨g, rfl⟩ : ∃ g', g = g' + 1 := ⟨g - 1, by omega⟩
    exact ⟨b, 0, rfl, by simp [encSize], by simp, by omega, encode_value_bool g b true⟩
  | .bool false, b, g, hg, _, _ => by
    obtain ⟨g, rfl⟩ : ∃ g', g = g' + 1 := ⟨g - 1, by omega⟩
    exact ⟨b, 0, rfl, by simp [encSize], by simp, by omega, encode_value_bool g b false⟩
  | .num n, b, g, hg, hwf, hsz => by
    obtain ⟨g, rfl⟩ : ∃ g', g = g' + 1 := ⟨g - 1, by omega⟩
    simp only [encSize] at hsz
    refine ⟨b ++ Num.enc n, (Num.enc n).length % 4294967296, rfl, by simp [encSize], ?_, Nat.mod_lt _ (by decide), ?_⟩
    · simp only [encSize]; exact Nat.mod_le _ _
    · exact encode_value_num g b n hwf hsz
  | .str s, b, g, hg, _, hsz => by
    obtain ⟨g, rfl⟩ : ∃ g', g = g' + 1 := ⟨g - 1, by omega⟩
    refine ⟨b ++ s, s.length % 4294967296, rfl, by simp [encSize], ?_, Nat.mod_lt _ (by decide), ?_⟩
    · simp only [encSize]; exact Nat.mod_le _ _
    · exact encode_value_str g b s
  | .arr vs, b, g, hg, hwf, hsz => by
    simp only [depth] at hg
    simp only [encSize] at hsz
    simp only [numsWF] at hwf
    obtain ⟨g, rfl⟩ : ∃ g', g = g' + 2 := ⟨g - 2, by omega⟩
    obtain ⟨b', n, hm, hl, hn, hrun⟩ := enc_arr_loop vs
      ((b ++ u32be (headerWord C.ARRAY_CONTAINER_TAG vs.length)) ++ zeros (vs.length * 4))
      (b.length + 4) (4 + vs.length * 4) g (by omega) hwf
      (by simp [u32be, zeros]; omega)
      (by simp [u32be, zeros]; omega) (by omega)
    have hlen0 : ((b ++ u32be (headerWord C.ARRAY_CONTAINER_TAG vs.length)) ++ zeros (vs.length * 4)).length
        = b.length + 4 + vs.length * 4 := by simp [u32be, zeros]; omega
    refine ⟨b', n % 4294967296, by simp only [encValue, hm]; rfl, ?_, ?_, Nat.mod_lt _ (by decide), ?_⟩
    · simp only [encSize]; omega
    · simp only [encSize]; exact Nat.le_trans (Nat.mod_le _ _) (by omega)
    · simp only [ofJV]
      rw [encode_value_arr, encode_array_succ _ _ _ (by simp [ofJVs_eq_map]; omega)]
      have hlv : (ofJVs vs).length = vs.length := by simp [ofJVs_eq_map]
      rw [hlv, hrun]
      simp only [Ctl.val_bind', Ctl.run_ret', Res.bind, make_container_jentry_agrees]
      rfl
  | .obj kvs, b, g, hg, hwf, hsz => by
    simp only [depth] at hg
    simp only [encSize] at hsz
    simp only [numsWF] at hwf
    obtain ⟨g, rfl⟩ : ∃ g', g = g' + 2 := ⟨g - 2, by omega⟩
    have hlen0 : ((b ++ u32be (headerWord C.OBJECT_CONTAINER_TAG kvs.length)) ++ zeros (kvs.length * 8)).length
        = b.length + 4 + kvs.length * 8 := by simp [u32be, zeros]; omega
    obtain ⟨b1, n1, hm1, hl1, hn1, hrun1⟩ := enc_obj_keys kvs
      ((b ++ u32be (headerWord C.OBJECT_CONTAINER_TAG kvs.length)) ++ zeros (kvs.length * 8))
      (b.length + 4) (4 + kvs.length * 8) (by rw [hlen0]; omega) (by rw [hlen0]; omega) (by omega)
    rw [hlen0] at hl1
    obtain ⟨b', n, hm, hl, hn, hrun⟩ := enc_obj_vals kvs b1 (b.length + 4 + kvs.length * 4) n1 g (by omega) hwf
      (by omega) (by omega) (by omega)
    refine ⟨b', n % 4294967296, by simp only [encValue, hm1, hm]; rfl, ?_, ?_, Nat.mod_lt _ (by decide), ?_⟩
    · simp only [encSize]; omega
    · simp only [encSize]; exact Nat.le_trans (Nat.mod_le _ _) (by omega)
    · simp only [ofJV]
      rw [encode_value_obj, encode_object_succ _ _ _ (by simp [ofKVs_eq_map]; omega)]
      have hlv : (ofKVs kvs).length = kvs.length := by simp [ofKVs_eq_map]
      rw [hlv, hrun1]
      simp only [Ctl.val_bind']
      rw [hrun]
      simp only [Ctl.val_bind', Ctl.run_ret', Res.bind, make_container_jentry_agrees]
      rfl
/-- the value loop of `encode_array` is the model's `encArrLoop` -/
theorem enc_arr_loop : (vs : List JV) → (b : Bytes) → (idx acc g : Nat) → 2 * depthL vs < g → numsWFL vs →
    idx + vs.length * 4 ≤ b.length → b.length + encSizeL vs < 18446744073709551616 →
    acc + encSizeL vs < 18446744073709551616 →
    ∃ b' n, encArrLoop b idx acc vs = .ok (b', n) ∧ b'.length = b.length + encSizeL vs ∧ n ≤ acc + encSizeL vs ∧
      Rs.forIn (ofJVs vs) ((⟨b⟩ : Tr.Encoder), (acc : Int), (idx : Int))
          (Tr.Encoder.encode_array.loop1 (Tr.Encoder.encode_value g)) =
        (Ctl.val (⟨b'⟩, (n : Int), ((idx + vs.length * 4 : Nat) : Int)) : Ctl (Int × Tr.Encoder) (Tr.Encoder × Int × Int))
  | [], b, idx, acc, g, _, _, _, _, _ =>
    ⟨b, acc, rfl, by simp [encSizeL], by simp [encSizeL], by simp [ofJVs, Rs.forIn_nil]⟩
  | v :: vs, b, idx, acc, g, hg, hwf, hidx, hb, hacc => by
    simp only [depthL] at hg
    simp only [numsWFL] at hwf
    simp only [encSizeL] at hb hacc
    simp only [List.length_cons] at hidx
    obtain ⟨b1, len, hm1, hl1, hle1, hlt1, hcall⟩ := enc_value_agrees v b g (by omega) hwf.1 (by omega)
    obtain ⟨b2, h2, hl2⟩ := replaceJentry_ok' b1 (jentryWord (ety v) len) idx (by omega)
    obtain ⟨b3, n, hm3, hl3, hn3, hrun3⟩ := enc_arr_loop vs b2 (idx + 4) (acc + len) g (by omega) hwf.2
      (by omega) (by omega) (by omega)
    have hstep := ea_loop1_step (Tr.Encoder.encode_value g) (ofJV v) b b1 b2 acc idx (ety v) len hcall (ety_lt v) hlt1
      (by omega) (by omega) h2
    refine ⟨b3, n, by simp only [encArrLoop, hm1, h2, hm3], ?_, ?_, ?_⟩
    · simp only [encSizeL]; omega
    · simp only [encSizeL]; omega
    · simp only [ofJVs]
      rw [Rs.forIn_next _ _ _ _ _ hstep, hrun3]
      congr 4; simp only [List.length_cons]; omega
/-- the value loop of `encode_object` is the model's `encObjVals` -/
theorem enc_obj_vals : (kvs : List (Bytes × JV)) → (b : Bytes) → (idx acc g : Nat) → 2 * depthK kvs < g → numsWFK kvs →
    idx + kvs.length * 4 ≤ b.length → b.length + encSizeK kvs < 18446744073709551616 →
    acc + encSizeK kvs < 18446744073709551616 →
    ∃ b' n, encObjVals b idx acc kvs = .ok (b', n) ∧ b'.length = b.length + encSizeK kvs ∧ n ≤ acc + encSizeK kvs ∧
      Rs.forIn (ofKVs kvs) ((⟨b⟩ : Tr.Encoder), (acc : Int), (idx : Int))
          (Tr.Encoder.encode_object.loop2 (Tr.Encoder.encode_value g)) =
        (Ctl.val (⟨b'⟩, (n : Int), ((idx + kvs.length * 4 : Nat) : Int)) : Ctl (Int × Tr.Encoder) (Tr.Encoder × Int × Int))
  | [], b, idx, acc, g, _, _, _, _, _ =>
    ⟨b, acc, rfl, by simp [encSizeK], by simp [encSizeK], by simp [ofKVs, Rs.forIn_nil]⟩
  | (k, v) :: kvs, b, idx, acc, g, hg, hwf, hidx, hb, hacc => by
    simp only [depthK] at hg
    simp only [numsWFK] at hwf
    simp only [encSizeK] at hb hacc
    simp only [List.length_cons] at hidx
    obtain ⟨b1, len, hm1, hl1, hle1, hlt1, hcall⟩ := enc_value_agrees v b g (by omega) hwf.1 (by omega)
    obtain ⟨b2, h2, hl2⟩ := replaceJentry_ok' b1 (jentryWord (ety v) len) idx (by omega)
    obtain ⟨b3, n, hm3, hl3, hn3, hrun3⟩ := enc_obj_vals kvs b2 (idx + 4) (acc + len) g (by omega) hwf.2
      (by omega) (by omega) (by omega)
    have hstep := eo_loop2_step (Tr.Encoder.encode_value g) k (ofJV v) b b1 b2 acc idx (ety v) len hcall (ety_lt v) hlt1
      (by omega) (by omega) h2
    refine ⟨b3, n, by simp only [encObjVals, hm1, h2, hm3], ?_, ?_, ?_⟩
    · simp only [encSizeK]; omega
    · simp only [encSizeK]; omega
    · simp only [ofKVs]
      rw [Rs.forIn_next _ _ _ _ _ hstep, hrun3]
      congr 4; simp only [List.length_cons]; omega
end

end Jsonb.TrAgree
