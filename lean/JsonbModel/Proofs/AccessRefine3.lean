/-
Refinement of the read-only accessors, part 2: `get_by_name` (with the offset-generalised
`get_jentry_by_name` / `get_jentry_by_index` lemmas that `get_by_keypath` needs), and
`exists_all_keys` / `exists_any_keys`.
-/
import JsonbModel.Proofs.AccessRefine2

namespace Jsonb
open JV

/-- decoded entry word of a stored value -/
def jeOf (v : JV) : JE := ⟨ety v, elen v, (entry v).1⟩

/-- the payload of `v` sits at absolute offset `p` of `buf` -/
def At (buf : Bytes) (p : Nat) (v : JV) : Prop := ∃ a b, buf = a ++ ((entry v).2 ++ b) ∧ p = a.length

theorem extract_at (buf : Bytes) (p : Nat) (v : JV) (hg : good v = true) (h : At buf p v) :
    extractByJentry (jeOf v) p buf = .ok (encodeSpec v) := by
  obtain ⟨a, b, rfl, rfl⟩ := h
  exact extract_entry v hg a b

/-! ### position-tracking lookups -/

def lookupPos (name : Bytes) : List (Bytes × JV) → Nat → Option (JV × Nat)
  | [], _ => none
  | (k, v) :: kvs, vo => if k == name then some (v, vo) else lookupPos name kvs (vo + elen v)

def lookupICPos (name : Bytes) : List (Bytes × JV) → Nat → Option (JV × Nat)
  | [], _ => none
  | (k, v) :: kvs, vo => if eqIgnoreAsciiCase name k then some (v, vo) else lookupICPos name kvs (vo + elen v)

def withJe (r : Option (JV × Nat)) : Option (JE × Nat) := r.map (fun x => (jeOf x.1, x.2))

/-- what `get_jentry_by_name` computes, in terms of the tree -/
def nameResult (name : Bytes) (ic : Bool) (kvs : List (Bytes × JV)) (vo : Nat) : Option (JV × Nat) :=
  match lookupPos name kvs vo with
  | some r => some r
  | none => if ic then lookupICPos name kvs vo else none

theorem lookupPos_fst (name : Bytes) (kvs : List (Bytes × JV)) (vo : Nat) :
    (lookupPos name kvs vo).map (·.1) = Spec.lookup name kvs := by
  induction kvs generalizing vo with
  | nil => rfl
  | cons kv kvs ih =>
    obtain ⟨k, v⟩ := kv
    simp only [lookupPos, Spec.lookup]
    split
    · rfl
    · exact ih _

theorem lookupICPos_fst (name : Bytes) (kvs : List (Bytes × JV)) (vo : Nat) :
    (lookupICPos name kvs vo).map (·.1) = Spec.lookupIgnoreCase name kvs := by
  induction kvs generalizing vo with
  | nil => rfl
  | cons kv kvs ih =>
    obtain ⟨k, v⟩ := kv
    simp only [lookupICPos, Spec.lookupIgnoreCase]
    split
    · rfl
    · exact ih _

theorem nameResult_fst (name : Bytes) (ic : Bool) (kvs : List (Bytes × JV)) (vo : Nat) :
    (nameResult name ic kvs vo).map (·.1) = Spec.getByName (obj kvs) name ic := by
  simp only [nameResult, Spec.getByName]
  rw [← lookupPos_fst name kvs vo, ← lookupICPos_fst name kvs vo]
  cases lookupPos name kvs vo with
  | some r => rfl
  | none => cases ic <;> simp

theorem lookupPos_at (name : Bytes) (kvs : List (Bytes × JV)) (hg : goodK kvs = true) (vo : Nat)
    (v : JV) (p : Nat) (h : lookupPos name kvs vo = some (v, p)) :
    good v = true ∧ ∃ A B, paysK kvs = A ++ ((entry v).2 ++ B) ∧ p = vo + A.length := by
  induction kvs generalizing vo with
  | nil => simp [lookupPos] at h
  | cons kv kvs ih =>
    obtain ⟨k, w⟩ := kv
    simp only [goodK, Bool.and_eq_true] at hg
    simp only [lookupPos] at h
    split at h
    · simp only [Option.some.injEq, Prod.mk.injEq] at h
      obtain ⟨rfl, rfl⟩ := h
      exact ⟨hg.1.2, [], paysK kvs, by simp [paysK], by simp⟩
    · obtain ⟨h1, A, B, h2, h3⟩ := ih hg.2 _ h
      refine ⟨h1, (entry w).2 ++ A, B, ?_, ?_⟩
      · simp [paysK, h2]
      · simp [elen] at h3 ⊢; omega

theorem lookupICPos_at (name : Bytes) (kvs : List (Bytes × JV)) (hg : goodK kvs = true) (vo : Nat)
    (v : JV) (p : Nat) (h : lookupICPos name kvs vo = some (v, p)) :
    good v = true ∧ ∃ A B, paysK kvs = A ++ ((entry v).2 ++ B) ∧ p = vo + A.length := by
  induction kvs generalizing vo with
  | nil => simp [lookupICPos] at h
  | cons kv kvs ih =>
    obtain ⟨k, w⟩ := kv
    simp only [goodK, Bool.and_eq_true] at hg
    simp only [lookupICPos] at h
    split at h
    · simp only [Option.some.injEq, Prod.mk.injEq] at h
      obtain ⟨rfl, rfl⟩ := h
      exact ⟨hg.1.2, [], paysK kvs, by simp [paysK], by simp⟩
    · obtain ⟨h1, A, B, h2, h3⟩ := ih hg.2 _ h
      refine ⟨h1, (entry w).2 ++ A, B, ?_, ?_⟩
      · simp [paysK, h2]
      · simp [elen] at h3 ⊢; omega

theorem nameResult_at (name : Bytes) (ic : Bool) (kvs : List (Bytes × JV)) (hg : goodK kvs = true) (vo : Nat)
    (v : JV) (p : Nat) (h : nameResult name ic kvs vo = some (v, p)) :
    good v = true ∧ ∃ A B, paysK kvs = A ++ ((entry v).2 ++ B) ∧ p = vo + A.length := by
  simp only [nameResult] at h
  cases h1 : lookupPos name kvs vo with
  | some r =>
    rw [h1] at h
    simp only [Option.some.injEq] at h
    subst h
    exact lookupPos_at name kvs hg vo v p h1
  | none =>
    rw [h1] at h
    cases ic with
    | false => simp at h
    | true => exact lookupICPos_at name kvs hg vo v p (by simpa using h)

/-! ### the second loop of `get_jentry_by_name` -/

theorem getByNameLoop_spec (name : Bytes) (ic : Bool) (kvs : List (Bytes × JV)) (hg : goodK kvs = true)
    (pre kpre mid post : Bytes) (ko jo vo : Nat) (result : Option (JE × Nat))
    (hjo : jo = pre.length)
    (hko : ko = pre.length + 4 * kvs.length + kpre.length)
    (hvo : vo = pre.length + 4 * kvs.length + kpre.length + (keyBytes kvs).length + mid.length) :
    getByNameLoop (pre ++ (wordsK kvs ++ (kpre ++ (keyBytes kvs ++ (mid ++ (paysK kvs ++ post))))))
        name ic (kvs.map (fun kv => kv.1.length)) ko jo vo result
      = .ok (match lookupPos name kvs vo with
             | some r => some (jeOf r.1, r.2)
             | none =>
               match result with
               | some r => some r
               | none => if ic then withJe (lookupICPos name kvs vo) else none) := by
  induction kvs generalizing pre kpre mid ko jo vo result with
  | nil => cases result <;> cases ic <;> simp [getByNameLoop, lookupPos, lookupICPos, withJe]
  | cons kv kvs ih =>
    obtain ⟨k, v⟩ := kv
    simp only [goodK, Bool.and_eq_true, decide_eq_true_eq] at hg
    have hl := elen_lt_of_good v hg.1.2
    simp only [List.map_cons, getByNameLoop, wordsK, keyBytes, paysK, List.append_assoc, List.length_cons, List.length_append] at hko hvo ⊢
    have e0 : pre ++ (u32be (entry v).1 ++ (wordsK kvs ++ (kpre ++ (k ++ (keyBytes kvs ++ (mid ++ ((entry v).2 ++ (paysK kvs ++ post))))))))
        = (pre ++ (u32be (entry v).1 ++ (wordsK kvs ++ kpre))) ++ (k ++ (keyBytes kvs ++ (mid ++ ((entry v).2 ++ (paysK kvs ++ post))))) := by
      simp
    rw [e0, slice_mid' _ _ _ ko (ko + k.length) (by simp [wordsK_length']; omega) (by simp [wordsK_length']; omega)]
    simp only []
    have e1 : (pre ++ (u32be (entry v).1 ++ (wordsK kvs ++ kpre))) ++ (k ++ (keyBytes kvs ++ (mid ++ ((entry v).2 ++ (paysK kvs ++ post)))))
        = pre ++ (u32be (entry v).1 ++ (wordsK kvs ++ (kpre ++ (k ++ (keyBytes kvs ++ (mid ++ ((entry v).2 ++ (paysK kvs ++ post)))))))) := by
      simp
    rw [e1, readU32At_mid pre _ _ jo hjo (entry_lt v hl)]
    simp only [jeLen_entry v hl, JE_ofWord_entry v hl]
    by_cases hnk : name = k
    · subst hnk
      simp [lookupPos, jeOf]
    · have hnk' : (name == k) = false := by simpa using hnk
      have hkn : (k == name) = false := by simpa using (fun h : k = name => hnk h.symm)
      simp only [hnk', Bool.false_eq_true, if_false, lookupPos, hkn, lookupICPos]
      have e3 : pre ++ (u32be (entry v).1 ++ (wordsK kvs ++ (kpre ++ (k ++ (keyBytes kvs ++ (mid ++ ((entry v).2 ++ (paysK kvs ++ post))))))))
          = (pre ++ u32be (entry v).1) ++ (wordsK kvs ++ ((kpre ++ k) ++ (keyBytes kvs ++ ((mid ++ (entry v).2) ++ (paysK kvs ++ post))))) := by
        simp
      rw [e3, ih hg.2 (pre ++ u32be (entry v).1) (kpre ++ k) (mid ++ (entry v).2) (ko + k.length) (jo + 4) (vo + elen v) _
        (by simp; omega) (by simp; omega) (by simp [elen]; omega)]
      cases lookupPos name kvs (vo + elen v) with
      | some r => rfl
      | none =>
        cases result with
        | some r => simp
        | none =>
          cases ic with
          | false => simp
          | true =>
            by_cases hic : eqIgnoreAsciiCase name k = true
            · simp [hic, withJe, jeOf]
            · simp [hic, withJe]

/-- `get_jentry_by_name` on the image of a good object sitting at offset `off` of a buffer -/
theorem getJentryByName_spec (kvs : List (Bytes × JV)) (hn : kvs.length < 536870912) (hg : goodK kvs = true)
    (a b : Bytes) (off : Nat) (hoff : off = a.length) (name : Bytes) (ic : Bool) :
    getJentryByName (a ++ ((entry (obj kvs)).2 ++ b)) off (C.OBJECT_CONTAINER_TAG + kvs.length) name ic
      = .ok (withJe (nameResult name ic kvs (off + 4 + 8 * kvs.length + (keyBytes kvs).length))) := by
  unfold getJentryByName
  rw [hdrLen_obj _ hn]
  simp only [entry, List.append_assoc]
  have e0 : a ++ (u32be (C.OBJECT_CONTAINER_TAG + kvs.length) ++ (keyWords kvs ++ (wordsK kvs ++ (keyBytes kvs ++ (paysK kvs ++ b)))))
      = (a ++ u32be (C.OBJECT_CONTAINER_TAG + kvs.length)) ++ (keyWords kvs ++ (wordsK kvs ++ (keyBytes kvs ++ (paysK kvs ++ b)))) := by
    simp
  rw [e0, fillKeys_spec kvs hg _ _ (off + 4) (off + 8 * kvs.length + 4) (by simp; omega)]
  simp only []
  have e1 : (a ++ u32be (C.OBJECT_CONTAINER_TAG + kvs.length)) ++ (keyWords kvs ++ (wordsK kvs ++ (keyBytes kvs ++ (paysK kvs ++ b))))
      = ((a ++ u32be (C.OBJECT_CONTAINER_TAG + kvs.length)) ++ keyWords kvs) ++ (wordsK kvs ++ ([] ++ (keyBytes kvs ++ ([] ++ (paysK kvs ++ b))))) := by
    simp
  rw [e1, getByNameLoop_spec name ic kvs hg _ [] [] b _ _ _ none (by simp [keyWords_length']; omega)
    (by simp [keyWords_length']; omega) (by simp [keyWords_length']; omega)]
  rw [show off + 8 * kvs.length + 4 + (keyBytes kvs).length = off + 4 + 8 * kvs.length + (keyBytes kvs).length by omega]
  simp only [nameResult, withJe]
  cases lookupPos name kvs (off + 4 + 8 * kvs.length + (keyBytes kvs).length) with
  | some r => rfl
  | none => cases ic <;> simp

/-- a hit of `get_jentry_by_name` is the entry of the member the spec selects, located at its
payload inside the buffer -/
theorem nameResult_hit (kvs : List (Bytes × JV)) (hg : goodK kvs = true)
    (a b : Bytes) (name : Bytes) (ic : Bool) (v : JV) (p : Nat)
    (h : nameResult name ic kvs (a.length + 4 + 8 * kvs.length + (keyBytes kvs).length) = some (v, p)) :
    good v = true ∧ Spec.getByName (obj kvs) name ic = some v ∧
      At (a ++ ((entry (obj kvs)).2 ++ b)) p v := by
  obtain ⟨h1, A, B, h2, h3⟩ := nameResult_at name ic kvs hg _ v p h
  refine ⟨h1, ?_, ?_⟩
  · rw [← nameResult_fst name ic kvs, h]; rfl
  · refine ⟨a ++ (u32be (C.OBJECT_CONTAINER_TAG + kvs.length) ++ (keyWords kvs ++ (wordsK kvs ++ (keyBytes kvs ++ A)))),
      B ++ b, ?_, ?_⟩
    · simp [entry, h2]
    · simp [keyWords_length', wordsK_length']; omega

theorem nameResult_miss (kvs : List (Bytes × JV)) (name : Bytes) (ic : Bool) (vo : Nat)
    (h : nameResult name ic kvs vo = none) : Spec.getByName (obj kvs) name ic = none := by
  rw [← nameResult_fst name ic kvs vo, h]; rfl

/-! ### get_by_name -/

theorem getByName_obj (kvs : List (Bytes × JV)) (hn : kvs.length < 536870912) (hg : goodK kvs = true)
    (name : Bytes) (ic : Bool) :
    Fn.getByName (encodeSpec (obj kvs)) name ic = .ok ((Spec.getByName (obj kvs) name ic).map encodeSpec) := by
  simp only [Fn.getByName, hdr_obj kvs hn, hdrType_obj _ hn, if_true]
  have hj := getJentryByName_spec kvs hn hg [] [] 0 rfl name ic
  simp only [List.nil_append, List.append_nil] at hj
  rw [show encodeSpec (obj kvs) = (entry (obj kvs)).2 from rfl, hj]
  simp only []
  cases hr : nameResult name ic kvs (0 + 4 + 8 * kvs.length + (keyBytes kvs).length) with
  | none =>
    rw [nameResult_miss kvs name ic _ hr]; rfl
  | some r =>
    obtain ⟨v, p⟩ := r
    have := nameResult_hit kvs hg [] [] name ic v p (by simpa using hr)
    obtain ⟨h1, h2, h3⟩ := this
    simp only [List.nil_append, List.append_nil] at h3
    simp only [withJe, Option.map_some, Fn.extractOpt, extract_at _ p v h1 h3, h2]

/-- `get_by_name`: exact match first, else (flag on) the first key equal ignoring ASCII case -/
theorem getByName_refines (v : JV) (hg : goodTop v = true) (name : Bytes) (ic : Bool) :
    Fn.getByName (encodeSpec v) name ic = .ok ((Spec.getByName v name ic).map encodeSpec) := by
  cases v with
  | arr vs =>
    simp only [goodTop, Bool.and_eq_true, decide_eq_true_eq] at hg
    simp [Fn.getByName, hdr_arr vs hg.1, hdrType_arr _ hg.1, Spec.getByName, ne_arr_obj]
  | obj kvs =>
    simp only [goodTop, Bool.and_eq_true, decide_eq_true_eq] at hg
    exact getByName_obj kvs hg.1.1 hg.2 name ic
  | null => simp [Fn.getByName, hdr_scalar null rfl, hdrType_sca, Spec.getByName, ne_sca_obj]
  | bool b => simp [Fn.getByName, hdr_scalar (bool b) rfl, hdrType_sca, Spec.getByName, ne_sca_obj]
  | num n => simp [Fn.getByName, hdr_scalar (num n) rfl, hdrType_sca, Spec.getByName, ne_sca_obj]
  | str s => simp [Fn.getByName, hdr_scalar (str s) rfl, hdrType_sca, Spec.getByName, ne_sca_obj]

/-! ### the key iterator and exists_all_keys / exists_any_keys -/

theorem iterObjKeysLoop_specA (kvs : List (Bytes × JV)) (hg : goodK kvs = true) (pre mid post : Bytes) (jo ko : Nat)
    (hjo : jo = pre.length) (hko : ko = pre.length + 4 * kvs.length + mid.length) :
    iterObjKeysLoop (pre ++ (keyWords kvs ++ (mid ++ (keyBytes kvs ++ post)))) kvs.length jo ko
      = .ok (kvs.map (·.1)) := by
  induction kvs generalizing pre mid jo ko with
  | nil => simp [iterObjKeysLoop]
  | cons kv kvs ih =>
    obtain ⟨k, v⟩ := kv
    simp only [goodK, Bool.and_eq_true, decide_eq_true_eq] at hg
    simp only [List.length_cons, iterObjKeysLoop, keyWords, keyBytes, List.append_assoc]
    rw [readU32At_mid pre _ _ jo hjo (keyWord_lt k hg.1.1.1)]
    simp only [jeLen_keyWord k hg.1.1.1]
    have e1 : pre ++ (u32be (C.STRING_TAG + k.length) ++ (keyWords kvs ++ (mid ++ (k ++ (keyBytes kvs ++ post)))))
        = (pre ++ (u32be (C.STRING_TAG + k.length) ++ (keyWords kvs ++ mid))) ++ (k ++ (keyBytes kvs ++ post)) := by
      simp
    rw [e1, slice_mid' _ _ _ ko (ko + k.length) (by simp [keyWords_length']; simp at hko; omega) (by
      simp [keyWords_length']; simp at hko; omega)]
    have e2 : (pre ++ (u32be (C.STRING_TAG + k.length) ++ (keyWords kvs ++ mid))) ++ (k ++ (keyBytes kvs ++ post))
        = (pre ++ u32be (C.STRING_TAG + k.length)) ++ (keyWords kvs ++ ((mid ++ k) ++ (keyBytes kvs ++ post))) := by
      simp
    rw [e2, ih hg.2 (pre ++ u32be (C.STRING_TAG + k.length)) (mid ++ k) (jo + 4) (ko + k.length)
      (by simp; omega) (by simp; simp at hko; omega)]
    simp

/-- `iteate_object_keys` on the image of a good object (followed by anything) -/
theorem iterObjKeys_spec (kvs : List (Bytes × JV)) (hn : kvs.length < 536870912)
    (hg : goodK kvs = true) (post : Bytes) :
    iterObjKeys ((entry (obj kvs)).2 ++ post) (C.OBJECT_CONTAINER_TAG + kvs.length) = .ok (kvs.map (·.1)) := by
  unfold iterObjKeys
  rw [hdrLen_obj _ hn]
  simp only [entry, List.append_assoc]
  exact iterObjKeysLoop_specA kvs hg (u32be (C.OBJECT_CONTAINER_TAG + kvs.length)) (wordsK kvs) (paysK kvs ++ post)
    4 (8 * kvs.length + 4) (by simp) (by simp [wordsK_length']; omega)

theorem item_isKey (v : JV) (k : Bytes) :
    ((itemOf v).1.ty == C.STRING_TAG && (itemOf v).2 == k)
      = (match v with | str s => s == k | _ => false) := by
  cases v with
  | bool b => cases b <;> simp [itemOf, ety, tagDefs]
  | str s => simp [itemOf, ety, entry]
  | _ => simp [itemOf, ety, tagDefs]

theorem existsJsonbKey_refines (v : JV) (hg : goodTop v = true) (k : Bytes) :
    Fn.existsJsonbKey (encodeSpec v) ((readU32At (encodeSpec v) 0).getD 0) k = .ok (Spec.existsKey v k) := by
  cases v with
  | arr vs =>
    simp only [goodTop, Bool.and_eq_true, decide_eq_true_eq] at hg
    simp only [hdr_arr vs hg.1, Option.getD_some, Fn.existsJsonbKey, hdrType_arr _ hg.1, ne_arr_obj,
      if_false, if_true]
    have := iterArray_spec vs hg.1 hg.2 []
    simp only [List.append_nil] at this
    rw [show encodeSpec (arr vs) = (entry (arr vs)).2 from rfl, this]
    simp only [Res.map, Res.bind, Spec.existsKey, List.any_map, Res.ok.injEq]
    congr 1
    funext w
    exact item_isKey w k
  | obj kvs =>
    simp only [goodTop, Bool.and_eq_true, decide_eq_true_eq] at hg
    simp only [hdr_obj kvs hg.1.1, Option.getD_some, Fn.existsJsonbKey, hdrType_obj _ hg.1.1, if_true]
    have := iterObjKeys_spec kvs hg.1.1 hg.2 []
    simp only [List.append_nil] at this
    rw [show encodeSpec (obj kvs) = (entry (obj kvs)).2 from rfl, this]
    simp only [Res.map, Res.bind, Spec.existsKey, List.any_map, Res.ok.injEq]
    rfl
  | null => simp [Fn.existsJsonbKey, hdr_scalar null rfl, hdrType_sca, Spec.existsKey, ne_sca_obj, ne_sca_arr]
  | bool b => simp [Fn.existsJsonbKey, hdr_scalar (bool b) rfl, hdrType_sca, Spec.existsKey, ne_sca_obj, ne_sca_arr]
  | num n => simp [Fn.existsJsonbKey, hdr_scalar (num n) rfl, hdrType_sca, Spec.existsKey, ne_sca_obj, ne_sca_arr]
  | str s => simp [Fn.existsJsonbKey, hdr_scalar (str s) rfl, hdrType_sca, Spec.existsKey, ne_sca_obj, ne_sca_arr]

theorem existsAllKeys_refines (v : JV) (hg : goodTop v = true) (keys : List Bytes) :
    Fn.existsAllKeys (encodeSpec v) keys = .ok (Spec.existsAllKeys v keys) := by
  simp only [Fn.existsAllKeys, Spec.existsAllKeys]
  induction keys with
  | nil => simp [Fn.existsAllKeys.go]
  | cons k ks ih =>
    simp only [Fn.existsAllKeys.go, List.all_cons]
    by_cases hu : validUtf8 k = true
    · rw [if_pos hu, existsJsonbKey_refines v hg k]
      cases he : Spec.existsKey v k with
      | true => simp only [ih, hu, Bool.and_self, Bool.true_and]
      | false => simp
    · rw [if_neg hu]; simp [hu]

theorem existsAnyKeys_refines (v : JV) (hg : goodTop v = true) (keys : List Bytes) :
    Fn.existsAnyKeys (encodeSpec v) keys = .ok (Spec.existsAnyKeys v keys) := by
  simp only [Fn.existsAnyKeys, Spec.existsAnyKeys]
  induction keys with
  | nil => simp [Fn.existsAnyKeys.go]
  | cons k ks ih =>
    simp only [Fn.existsAnyKeys.go, List.any_cons]
    by_cases hu : validUtf8 k = true
    · rw [if_pos hu, existsJsonbKey_refines v hg k]
      cases he : Spec.existsKey v k with
      | true => simp [hu]
      | false => simp only [ih, hu, Bool.and_false, Bool.false_or]
    · rw [if_neg hu, ih]; simp [hu]

end Jsonb
