import JsonbModel.Proofs.TranslatedAgreeF2

set_option linter.unusedSimpArgs false
set_option linter.unusedVariables false

namespace Jsonb.TrAgree
open Jsonb.Rs

/-- what the loops assume about the function they call: it agrees with `cmpScalar` below some fuel -/
def CmpRecOK (f : Nat) (rec : Tr.JEntry → Bytes → Tr.JEntry → Bytes → Res Ordering) : Prop :=
  ∀ f', f' < f → ∀ (lj rj : JE) (l r : Bytes) (kl kr : Nat),
    l.length < 9223372036854775808 → r.length < 9223372036854775808 →
    lj.len < 4294967296 → rj.len < 4294967296 →
    kasScalar kl lj.ty l = true → kasScalar kr rj.ty r = true →
    Fn.cmpScalar f' lj l rj r ≠ .fuel →
    panicAny (rec (ofJE lj) l (ofJE rj) r) = panicAny (Fn.cmpScalar f' lj l rj r)

theorem CmpRecOK.mono {f f' : Nat} {rec} (h : CmpRecOK f rec) (hf : f' ≤ f) : CmpRecOK f' rec :=
  fun f'' hlt => h f'' (by omega)

/-- the function result once the loop is over: `Ok(final)` unless the loop left the function -/
def finish {σ : Type} (c : Ctl Ordering σ) (final : Ordering) : Res Ordering :=
  match c with
  | .val _ => .ok final
  | .ret r => r

theorem ca_loop1_step (rec : Tr.JEntry → Bytes → Tr.JEntry → Bytes → Res Ordering) (left right : Bytes)
    (i : Int) (jo lvo rvo : Nat) (hjo : jo + 4 < 18446744073709551616)
    (hl : left.length < 9223372036854775808) (hr : right.length < 9223372036854775808) :
    Tr.compare_array.loop1 rec left right i ((jo : Int), (lvo : Int), (rvo : Int)) =
      match readU32At left jo with
      | none => Ctl.ret (.err "InvalidEOF")
      | some lw =>
        match readU32At right jo with
        | none => Ctl.ret (.err "InvalidEOF")
        | some rw =>
          if lvo ≤ left.length then
            if rvo ≤ right.length then
              (Ctl.ofRes (rec ⟨(jeType lw : Nat), (jeLen lw : Nat)⟩ (left.drop lvo) ⟨(jeType rw : Nat), (jeLen rw : Nat)⟩ (right.drop rvo)) >>= fun o =>
                if o ≠ Ordering.eq then Ctl.ret (.ok o)
                else Ctl.val (.next (((jo + 4 : Nat) : Int), ((lvo + jeLen lw : Nat) : Int), ((rvo + jeLen rw : Nat) : Int))))
            else Ctl.ret (.panic "range start index out of range for slice")
          else Ctl.ret (.panic "range start index out of range for slice") := by
  unfold Tr.compare_array.loop1
  dsimp only
  rw [read_u32_agrees left jo (Rs.le_max_of_lt hjo), read_u32_agrees right jo (Rs.le_max_of_lt hjo)]
  cases hlw : readU32At left jo with
  | none => simp only [Ctl.ofRes_err', Ctl.ret_bind', Rs.loopStep_err']
  | some lw =>
    cases hrw : readU32At right jo with
    | none => simp only [Ctl.ofRes_ok', Ctl.ofRes_err', Ctl.val_bind', Ctl.ret_bind', decode_jentry_agrees, Rs.loopStep_err']
    | some rw =>
      have hll := jeLen_lt lw
      have hrl := jeLen_lt rw
      simp only [Ctl.ofRes_ok', Ctl.val_bind', decode_jentry_agrees, sliceFrom_model]
      by_cases h1 : lvo ≤ left.length
      · by_cases h2 : rvo ≤ right.length
        · have h4 : ((4 : Nat) : Int) = 4 := rfl
          simp only [if_pos h1, if_pos h2, sliceFrom_model_ok _ _ h1, sliceFrom_model_ok _ _ h2, Ctl.ofRes_ok', Ctl.val_bind']
          cases rec ⟨(jeType lw : Nat), (jeLen lw : Nat)⟩ (left.drop lvo) ⟨(jeType rw : Nat), (jeLen rw : Nat)⟩ (right.drop rvo) with
          | err e => simp only [Ctl.ofRes_err', Ctl.ret_bind', Rs.loopStep_err']
          | panic s => simp only [Ctl.ofRes_panic', Ctl.ret_bind', Rs.loopStep_panic']
          | fuel => rfl
          | ok o =>
            simp only [Ctl.ofRes_ok', Ctl.val_bind', decide_eq_true_eq]
            by_cases ho : o ≠ Ordering.eq
            · simp only [if_pos ho, Ctl.ret_bind', Rs.loopStep_ret']
            · simp only [if_neg ho, Ctl.pure_eq', Ctl.val_bind', ← h4, Rs.add_usize_nat jo 4 hjo,
                Rs.usize_nat (jeLen lw) (by omega), Rs.usize_nat (jeLen rw) (by omega),
                Rs.add_usize_nat lvo (jeLen lw) (by omega), Rs.add_usize_nat rvo (jeLen rw) (by omega),
                Ctl.ofRes_ok', Rs.loopStep_val']
        · simp only [if_pos h1, if_neg h2, sliceFrom_model_ok _ _ h1, sliceFrom_model_panic _ _ h2, Ctl.ofRes_ok',
            Ctl.ofRes_panic', Ctl.val_bind', Ctl.ret_bind', Rs.loopStep_panic']
      · simp only [if_neg h1, sliceFrom_model_panic _ _ h1, Ctl.ofRes_panic', Ctl.ret_bind', Rs.loopStep_panic']

theorem kasItems_succ (k : Nat) (bs : Bytes) (n jo vo w : Nat) (hk : kasItems k bs (n + 1) jo vo = true)
    (hw : readU32At bs jo = some w) :
    ∃ k', kasScalar k' (jeType w) (bs.drop vo) = true ∧ kasItems k' bs n (jo + 4) (vo + jeLen w) = true := by
  cases k with
  | zero => simp [kasItems] at hk
  | succ k =>
    simp only [kasItems, hw, Bool.and_eq_true] at hk
    exact ⟨k, hk.1, hk.2⟩

theorem readJe_some (bs : Bytes) (jo w : Nat) (h : readU32At bs jo = some w) : Fn.readJe bs jo = .ok (JE.ofWord w) := by
  simp only [Fn.readJe, h]
theorem readJe_none (bs : Bytes) (jo : Nat) (h : readU32At bs jo = none) : Fn.readJe bs jo = .err "InvalidEOF" := by
  simp only [Fn.readJe, h]

/-- the loop of `compare_array` is the model's `cmpArrayLoop` -/
theorem ca_run (rec : Tr.JEntry → Bytes → Tr.JEntry → Bytes → Res Ordering) (left right : Bytes) (final : Ordering)
    (hl : left.length < 9223372036854775808) (hr : right.length < 9223372036854775808) :
    ∀ (n f : Nat) (i : Int) (jo lvo rvo nl nr kl kr : Nat), CmpRecOK f rec → n ≤ nl → n ≤ nr →
      jo + 4 * n + 4 < 18446744073709551616 →
      kasItems kl left nl jo lvo = true → kasItems kr right nr jo rvo = true →
      Fn.cmpArrayLoop f left right n jo lvo rvo final ≠ .fuel →
      panicAny (finish (Rs.forRangeAux (Tr.compare_array.loop1 rec left right) n i ((jo : Int), (lvo : Int), (rvo : Int))) final) =
        panicAny (Fn.cmpArrayLoop f left right n jo lvo rvo final) := by
  intro n
  induction n with
  | zero =>
    intro f i jo lvo rvo nl nr kl kr hrec hnl hnr hjo hkl hkr hne
    cases f with
    | zero => simp [Fn.cmpArrayLoop] at hne
    | succ f => simp only [Fn.cmpArrayLoop, Rs.forRangeAux_zero, finish]
  | succ n ih =>
    intro f i jo lvo rvo nl nr kl kr hrec hnl hnr hjo hkl hkr hne
    cases f with
    | zero => simp [Fn.cmpArrayLoop] at hne
    | succ f =>
      have hstep := ca_loop1_step rec left right i jo lvo rvo (by omega) hl hr
      obtain ⟨nl', rfl⟩ : ∃ m, nl = m + 1 := ⟨nl - 1, by omega⟩
      obtain ⟨nr', rfl⟩ : ∃ m, nr = m + 1 := ⟨nr - 1, by omega⟩
      rw [Fn.cmpArrayLoop] at hne ⊢
      cases hlw : readU32At left jo with
      | none =>
        rw [hlw] at hstep
        rw [Rs.forRangeAux_ret _ _ _ _ _ hstep, readJe_none _ _ hlw]
        rfl
      | some lw =>
        rw [hlw] at hstep
        rw [readJe_some _ _ _ hlw] at hne ⊢
        cases hrw : readU32At right jo with
        | none =>
          rw [hrw] at hstep
          rw [Rs.forRangeAux_ret _ _ _ _ _ hstep, readJe_none _ _ hrw]
          rfl
        | some rw =>
          rw [hrw] at hstep
          rw [readJe_some _ _ _ hrw] at hne ⊢
          dsimp only at hstep hne ⊢
          by_cases h1 : lvo ≤ left.length
          · by_cases h2 : rvo ≤ right.length
            · rw [if_pos h1, if_pos h2] at hstep
              rw [sliceFrom_model_ok _ _ h1, sliceFrom_model_ok _ _ h2] at hne ⊢
              dsimp only at hne ⊢
              obtain ⟨kl', hkl1, hkl2⟩ := kasItems_succ kl left nl' jo lvo lw hkl hlw
              obtain ⟨kr', hkr1, hkr2⟩ := kasItems_succ kr right nr' jo rvo rw hkr hrw
              have hs : Fn.cmpScalar f (JE.ofWord lw) (left.drop lvo) (JE.ofWord rw) (right.drop rvo) ≠ .fuel := by
                intro c; rw [c] at hne; exact hne rfl
              have hcall := hrec f (by omega) (JE.ofWord lw) (JE.ofWord rw) (left.drop lvo) (right.drop rvo) kl' kr'
                (by simp; omega) (by simp; omega) (by have := jeLen_lt lw; simp only [JE.ofWord]; omega)
                (by have := jeLen_lt rw; simp only [JE.ofWord]; omega) hkl1 hkr1 hs
              simp only [ofJE, JE.ofWord] at hcall
              cases hd : Fn.cmpScalar f (JE.ofWord lw) (left.drop lvo) (JE.ofWord rw) (right.drop rvo) with
              | fuel => exact absurd hd hs
              | err e =>
                simp only [JE.ofWord] at hd
                rw [hd] at hcall
                rw [panicAny_err _ _ hcall] at hstep
                simp only [Ctl.ofRes_err', Ctl.ret_bind'] at hstep
                rw [Rs.forRangeAux_ret _ _ _ _ _ hstep]
                rfl
              | panic p =>
                simp only [JE.ofWord] at hd
                rw [hd] at hcall
                obtain ⟨p', hp'⟩ := panicAny_panic _ _ hcall
                rw [hp'] at hstep
                simp only [Ctl.ofRes_panic', Ctl.ret_bind'] at hstep
                rw [Rs.forRangeAux_ret _ _ _ _ _ hstep]
                rfl
              | ok o =>
                rw [hd] at hne
                simp only [JE.ofWord] at hd
                rw [hd] at hcall
                rw [panicAny_ok _ _ hcall] at hstep
                simp only [Ctl.ofRes_ok', Ctl.val_bind'] at hstep
                cases o with
                | eq =>
                  simp only [ne_eq, not_true_eq_false, if_false] at hstep
                  rw [Rs.forRangeAux_next _ _ _ _ _ hstep]
                  dsimp only at hne ⊢
                  exact ih f (i + 1) (jo + 4) (lvo + jeLen lw) (rvo + jeLen rw) nl' nr' kl' kr' (hrec.mono (by omega))
                    (by omega) (by omega) (by omega) hkl2 hkr2 hne
                | lt =>
                  simp only [ne_eq, reduceCtorEq, not_false_eq_true, if_true] at hstep
                  rw [Rs.forRangeAux_ret _ _ _ _ _ hstep]
                  rfl
                | gt =>
                  simp only [ne_eq, reduceCtorEq, not_false_eq_true, if_true] at hstep
                  rw [Rs.forRangeAux_ret _ _ _ _ _ hstep]
                  rfl
            · rw [if_pos h1, if_neg h2] at hstep
              rw [Rs.forRangeAux_ret _ _ _ _ _ hstep, sliceFrom_model_ok _ _ h1, sliceFrom_model_panic _ _ h2]
              rfl
          · rw [if_neg h1] at hstep
            rw [Rs.forRangeAux_ret _ _ _ _ _ hstep, sliceFrom_model_panic _ _ h1]
            rfl

end Jsonb.TrAgree
