/-
Agreement between the phase-2 machine translation (`Generated/Translated2.lean`, written by
tools/rs2lean2.py from /repo's current source: loops, buffers, strings) and the hand-written model.
Umbrella module: `lake build JsonbModel.Proofs.TranslatedAgreeB` re-checks every agreement theorem.
  part 1: get_jentry_by_index, extract_by_jentry, is_array / is_object / array_length (JSONB branch)
  part 2: decode_hex_escape, escape_scalar_string
  part 3: reserve_jentries, replace_jentry (builder.rs and the Encoder methods of ser.rs)
  part 4: get_jentry_by_name
  part 5: iterate_array / ArrayIterator::next, iteate_object_keys / ObjectKeyIterator::next
See tools/RS2LEAN.md for the list of theorems.
-/
import JsonbModel.Proofs.TranslatedAgreeB1
import JsonbModel.Proofs.TranslatedAgreeB2
import JsonbModel.Proofs.TranslatedAgreeB3
import JsonbModel.Proofs.TranslatedAgreeB4
import JsonbModel.Proofs.TranslatedAgreeB5
