/-
Agreement theorems, phase 2, part 1: the byte walkers of functions.rs translated from source by
tools/rs2lean2.py (`Generated/Translated2.lean`) EQUAL the hand-written model functions of
`Walk.lean` / `Functions/Access.lean` the property theorems are about:
`get_jentry_by_index` (the `for i in 0..length` loop with the running offsets), `extract_by_jentry`,
and the JSONB branches of `is_array`, `is_object`, `array_length`.
-/
import JsonbModel.Generated.Translated2
import JsonbModel.Proofs.RustPrelude2Lemmas
import JsonbModel.Proofs.TranslatedAgree1
import JsonbModel.Functions.Text2

set_option linter.unusedSimpArgs false
set_option linter.unusedVariables false

namespace Jsonb.TrAgree
open Jsonb.Rs

/-! ## Representation maps -/

/-- the model's decoded entry ↦ the translated `JEntry` (the model keeps the encoded word next to it) -/
def ofJE (je : JE) : Tr.JEntry := ⟨(je.ty : Nat), (je.len : Nat)⟩
/-- `(jentry, encoded, val_offset)` -/
def ofHit (p : JE × Nat) : Tr.JEntry × Int × Int := (ofJE p.1, ((p.1.enc : Nat) : Int), ((p.2 : Nat) : Int))

theorem jeLen_lt (w : Nat) : jeLen w < 268435456 := by
  unfold jeLen
  have : w &&& C.JENTRY_OFF_LEN_MASK ≤ C.JENTRY_OFF_LEN_MASK := Nat.and_le_right
  have h : C.JENTRY_OFF_LEN_MASK = 268435455 := rfl
  omega

theorem hdrLen_lt (w : Nat) : hdrLen w < 536870912 := by
  unfold hdrLen
  have : w &&& C.CONTAINER_HEADER_LEN_MASK ≤ C.CONTAINER_HEADER_LEN_MASK := Nat.and_le_right
  have h : C.CONTAINER_HEADER_LEN_MASK = 536870911 := rfl
  omega

/-- `(header & CONTAINER_HEADER_LEN_MASK) as usize` -/
theorem hdrLen_cast (header : Nat) :
    Rs.cast .usize (Rs.bitand (header : Int) (C.CONTAINER_HEADER_LEN_MASK : Int)) = ((hdrLen header : Nat) : Int) := by
  have hL := hdrLen_lt header
  rw [Rs.bitand_natCast]; exact Rs.usize_nat _ (by unfold hdrLen at hL; omega)

/-! ## get_jentry_by_index -/

/-- one iteration of the loop body, for every state whose offsets leave room for the two additions -/
theorem gjbi_loop1_step (value : Bytes) (index i jo vo : Nat)
    (hjo : jo + 4 < 18446744073709551616) (hvo : vo + 268435456 < 18446744073709551616) :
    Tr.get_jentry_by_index.loop1 value (index : Int) (i : Int) ((jo : Int), (vo : Int)) =
      match readU32At value jo with
      | none => Ctl.ret (.ok none)
      | some w =>
        if i < index then Ctl.val (.next (((jo + 4 : Nat) : Int), ((vo + jeLen w : Nat) : Int)))
        else Ctl.ret (.ok (some (ofHit (JE.ofWord w, vo)))) := by
  unfold Tr.get_jentry_by_index.loop1
  dsimp only
  rw [read_u32_agrees value jo (Rs.le_max_of_lt hjo)]
  cases hr : readU32At value jo with
  | none => simp
  | some w =>
    have hl := jeLen_lt w
    have h4 : Rs.add .usize (jo : Int) 4 = .ok ((jo + 4 : Nat) : Int) := Rs.add_usize_nat jo 4 hjo
    have h5 : Rs.add .usize (vo : Int) (jeLen w : Int) = .ok ((vo + jeLen w : Nat) : Int) :=
      Rs.add_usize_nat vo (jeLen w) (by omega)
    simp only [Rs.okQ_ok', Ctl.val_bind', decode_jentry_agrees, Ctl.ofRes_ok', Rs.usize_nat (jeLen w) (by omega)]
    by_cases hi : i < index
    · have hi' : (i : Int) < (index : Int) := by omega
      simp [hi, hi', h4, h5]
    · have hi' : ¬ ((i : Int) < (index : Int)) := by omega
      simp [hi, hi', ofHit, ofJE, JE.ofWord]


/-- the `for i in 0..length` loop of `get_jentry_by_index` followed by the final `None`: `n` more
iterations from the state `(i, jo, vo)` give what the model's loop gives -/
theorem gjbi_loop1_run (value : Bytes) (index : Nat) : ∀ (n i jo vo : Nat),
    jo + n * 4 < 18446744073709551616 → vo + n * 268435456 < 18446744073709551616 →
    (Rs.forRangeAux (Tr.get_jentry_by_index.loop1 value (index : Int)) n (i : Int) ((jo : Int), (vo : Int))
        >>= fun _ => (Ctl.ret (.ok none) : Ctl (Option (Tr.JEntry × Int × Int)) (Option (Tr.JEntry × Int × Int))))
      = Ctl.ret (.ok ((getJentryByIndexLoop value index n i jo vo).map ofHit)) := by
  intro n
  induction n with
  | zero => intro i jo vo _ _; simp [Rs.forRangeAux, getJentryByIndexLoop]
  | succ n ih =>
    intro i jo vo hjo hvo
    rw [Rs.forRangeAux, gjbi_loop1_step value index i jo vo (by omega) (by omega), getJentryByIndexLoop]
    cases hr : readU32At value jo with
    | none => simp
    | some w =>
      have hl := jeLen_lt w
      by_cases hi : i < index
      · have := ih (i + 1) (jo + 4) (vo + jeLen w) (by omega) (by omega)
        simp only [hi, if_true]
        rw [← this]
        simp
      · simp [hi]

/-- the same for any integer state (whatever expression the prologue computes it with) -/
theorem gjbi_loop1_run_int (value : Bytes) (index n : Nat) (jo vo : Int) (h0 : 0 ≤ jo ∧ 0 ≤ vo)
    (hjo : jo + n * 4 < 18446744073709551616) (hvo : vo + n * 268435456 < 18446744073709551616) :
    (Rs.forRangeAux (Tr.get_jentry_by_index.loop1 value (index : Int)) n 0 (jo, vo)
        >>= fun _ => (Ctl.ret (.ok none) : Ctl (Option (Tr.JEntry × Int × Int)) (Option (Tr.JEntry × Int × Int))))
      = Ctl.ret (.ok ((getJentryByIndexLoop value index n 0 jo.toNat vo.toNat).map ofHit)) := by
  obtain ⟨jn, rfl⟩ := Int.eq_ofNat_of_zero_le h0.1
  obtain ⟨vn, rfl⟩ := Int.eq_ofNat_of_zero_le h0.2
  have := gjbi_loop1_run value index n 0 jn vn (by omega) (by omega)
  simpa using this

/-- `get_jentry_by_index(value, offset, header, index)` for every buffer, every header word, every
index and every `offset ≤ isize::MAX` (positions inside a Rust allocation): the translated function
EQUALS the model's `getJentryByIndex`; in particular it neither panics nor runs out of fuel -/
theorem get_jentry_by_index_agrees (value : Bytes) (offset header index : Nat)
    (hoff : offset ≤ 9223372036854775807) :
    Tr.get_jentry_by_index value (offset : Int) (header : Int) (index : Int) =
      .ok ((getJentryByIndex value offset header index).map ofHit) := by
  have hL := hdrLen_lt header
  unfold Tr.get_jentry_by_index getJentryByIndex
  simp only [hdrLen_cast]
  by_cases hi : index ≥ hdrLen header
  · have hi' : (index : Int) ≥ (hdrLen header : Int) := by omega
    simp [hi, hi']
  · have hi' : ¬ ((index : Int) ≥ (hdrLen header : Int)) := by omega
    simp (disch := omega) only [hi, hi', decide_false, Bool.false_eq_true, if_false, Ctl.pure_eq', Ctl.val_bind',
      Rs.add_usize_ok', Rs.mul_usize_ok', Ctl.ofRes_ok', Rs.forRange_zero]
    -- whatever the two start offsets are spelled like, they are these numbers
    rw [gjbi_loop1_run_int]
    · simp only [Ctl.run_ret']
      congr 3 <;> omega
    all_goals omega

/-- Outside the domain: an `offset` so large that `offset + 4` leaves `usize` makes the Rust code
panic (overflow check of the dev profile) where the model, which counts in unbounded naturals,
answers; such an offset is not a position in any buffer. -/
theorem get_jentry_by_index_overflow (value : Bytes) (offset header index : Nat)
    (hoff : 18446744073709551616 ≤ offset + 4) (hidx : index < hdrLen header) :
    Tr.get_jentry_by_index value (offset : Int) (header : Int) (index : Int) =
      .panic "attempt to add with overflow" := by
  have hi' : ¬ ((index : Int) ≥ (hdrLen header : Int)) := by omega
  have h1 : Rs.add .usize (offset : Int) 4 = .panic "attempt to add with overflow" := by
    have := Rs.add_usize_overflow offset 4 hoff; simpa using this
  unfold Tr.get_jentry_by_index
  simp only [hdrLen_cast, hi', decide_false, Bool.false_eq_true, if_false, Ctl.pure_eq', Ctl.val_bind']
  rw [h1]
  simp only [Ctl.ofRes_panic', Ctl.ret_bind', Ctl.run_ret']

/-! ## extract_by_jentry -/

theorem toBeBytes_u32 (n : Nat) (h : n < 4294967296) : Rs.toBeBytes .u32 (n : Int) = u32be n :=
  Rs.toBeBytes_u32_nat n h

theorem slice_model (value : Bytes) (a b : Nat) : Rs.slice value (a : Int) (b : Int) = Jsonb.slice value a b := by
  rw [Rs.slice_nat]; rfl

theorem extract_by_jentry_agrees (je : JE) (offset : Nat) (value : Bytes)
    (hlen : je.len < 4294967296) (henc : je.enc < 4294967296) (hoff : offset ≤ 9223372036854775807) :
    Tr.extract_by_jentry (ofJE je) (je.enc : Int) (offset : Int) value = extractByJentry je offset value := by
  have hc : Rs.cast .usize (je.len : Int) = (je.len : Int) := Rs.usize_nat _ (by omega)
  have ha : Rs.add .usize (offset : Int) (je.len : Int) = .ok ((offset + je.len : Nat) : Int) :=
    Rs.add_usize_nat _ _ (by omega)
  have h8 : Rs.add .usize 8 (je.len : Int) = .ok ((8 + je.len : Nat) : Int) := by
    have := Rs.add_usize_nat 8 je.len (by omega); simpa using this
  have hcap : Rs.vecWithCapacity UInt8 1 ((8 + je.len : Nat) : Int) = .ok [] := by
    unfold Rs.vecWithCapacity
    rw [if_pos (by simp; omega)]
  have htag : Rs.toBeBytes .u32 (C.SCALAR_CONTAINER_TAG : Int) = u32be C.SCALAR_CONTAINER_TAG :=
    toBeBytes_u32 _ (by decide)
  unfold Tr.extract_by_jentry extractByJentry
  simp only [ofJE, hc]
  by_cases hty : je.ty = C.CONTAINER_TAG
  · have hty' : ((je.ty : Nat) : Int) = (C.CONTAINER_TAG : Int) := by omega
    simp only [hty, hty', decide_true, if_true, ha, Ctl.ofRes_ok', Ctl.val_bind', slice_model]
    cases Jsonb.slice value offset (offset + je.len) <;> rfl
  · have hty' : ¬ (((je.ty : Nat) : Int) = (C.CONTAINER_TAG : Int)) := by omega
    simp only [hty, hty', decide_false, Bool.false_eq_true, if_false, h8, hcap, htag, toBeBytes_u32 _ henc,
      Ctl.ofRes_ok', Ctl.val_bind', Rs.extendFromSlice, List.nil_append]
    by_cases hl : je.len > 0
    · have hl' : ((je.len : Nat) : Int) > 0 := by omega
      have hl2 : ((je.len : Nat) : Int) ≠ 0 := by omega
      simp only [hl, hl', hl2, ne_eq, not_false_eq_true, decide_true, if_true, ha, Ctl.ofRes_ok', Ctl.val_bind', slice_model]
      cases Jsonb.slice value offset (offset + je.len) <;> simp [Ctl.ofRes, Ctl.run]
    · have hl' : ¬ (((je.len : Nat) : Int) > 0) := by omega
      have hl2 : ((je.len : Nat) : Int) = 0 := by omega
      simp [hl, hl', hl2]


/-! ## is_array / is_object / array_length

The text branch (`if !is_jsonb(value) { return match parse_value(value) … }`) calls the JSON parser and
is outside the subset: the translated functions take its result as the parameter `text`, exactly
where the source returns it; the theorems hold for every value of it. -/

theorem read_u32_zero (value : Bytes) :
    Tr.read_u32 value 0 = match readU32At value 0 with
      | some w => .ok (w : Int)
      | none => .err "InvalidEOF" := by
  exact read_u32_agrees value 0 (by omega)

theorem hdrType_eq (h tag : Nat) :
    decide (Rs.bitand (h : Int) (C.CONTAINER_HEADER_TYPE_MASK : Int) = (tag : Int)) = decide (hdrType h = tag) := by
  rw [Rs.bitand_natCast]; unfold hdrType
  by_cases hh : h &&& C.CONTAINER_HEADER_TYPE_MASK = tag
  · simp [hh]
  · have : ¬ (((h &&& C.CONTAINER_HEADER_TYPE_MASK : Nat) : Int) = (tag : Int)) := by omega
    simp [hh, this]

theorem is_array_agrees (value : Bytes) (text : Bool) :
    Tr.is_array value text = .ok (if isJsonb value then Fn.isArray value else text) := by
  unfold Tr.is_array Fn.isArray
  rw [is_jsonb_agrees, read_u32_zero]
  cases hj : isJsonb value
  · simp [Ctl.ofRes, Ctl.run]
  · cases hr : readU32At value 0 with
    | none =>
      have := hdrType_eq 0 C.ARRAY_CONTAINER_TAG
      simp only [Rs.resUnwrapOr, Ctl.ofRes_ok', Ctl.val_bind', Ctl.pure_eq', Bool.not_true, Bool.false_eq_true, if_false,
        if_true, Ctl.run_ret']
      simpa using this
    | some w =>
      simp only [Rs.resUnwrapOr, Ctl.ofRes_ok', Ctl.val_bind', Ctl.pure_eq', Bool.not_true, Bool.false_eq_true, if_false,
        if_true, Ctl.run_ret', hdrType_eq]

theorem is_object_agrees (value : Bytes) (text : Bool) :
    Tr.is_object value text = .ok (if isJsonb value then Fn.isObject value else text) := by
  unfold Tr.is_object Fn.isObject
  rw [is_jsonb_agrees, read_u32_zero]
  cases hj : isJsonb value
  · simp [Ctl.ofRes, Ctl.run]
  · cases hr : readU32At value 0 with
    | none =>
      have := hdrType_eq 0 C.OBJECT_CONTAINER_TAG
      simp only [Rs.resUnwrapOr, Ctl.ofRes_ok', Ctl.val_bind', Ctl.pure_eq', Bool.not_true, Bool.false_eq_true, if_false,
        if_true, Ctl.run_ret']
      simpa using this
    | some w =>
      simp only [Rs.resUnwrapOr, Ctl.ofRes_ok', Ctl.val_bind', Ctl.pure_eq', Bool.not_true, Bool.false_eq_true, if_false,
        if_true, Ctl.run_ret', hdrType_eq]

theorem array_length_agrees (value : Bytes) (text : Option Int) :
    Tr.array_length value text =
      if isJsonb value then (Fn.arrayLength value).map optNat else .ok text := by
  unfold Tr.array_length Fn.arrayLength
  rw [is_jsonb_agrees, read_u32_zero]
  cases hj : isJsonb value
  · simp [Ctl.ofRes, Ctl.run]
  · cases hr : readU32At value 0 with
    | none => simp [Ctl.ofRes, Ctl.run, Rs.okQ, Res.map, Res.bind, optNat]
    | some w =>
      have ht := hdrType_eq w C.ARRAY_CONTAINER_TAG
      simp only [Rs.okQ_ok', Ctl.ofRes_ok', Ctl.val_bind', Ctl.pure_eq', Bool.not_true, Bool.false_eq_true, if_false,
        if_true, ht, hdrLen_cast]
      by_cases hh : hdrType w = C.ARRAY_CONTAINER_TAG
      · simp [hh, Res.map, Res.bind, optNat]
      · simp [hh, Res.map, Res.bind, optNat]

/-- the whole public functions of the model (`T.isArray`, `T.isObject`, `T.arrayLength`: sniffing,
text branch, JSONB branch) on JSONB input are the translated functions (whatever is passed for the
unused text result) -/
theorem is_array_whole (value : Bytes) (t : Bool) (hj : isJsonb value = true) :
    T.isArray value = Tr.is_array value t := by
  simp [T.isArray, is_array_agrees, hj]
theorem is_object_whole (value : Bytes) (t : Bool) (hj : isJsonb value = true) :
    T.isObject value = Tr.is_object value t := by
  simp [T.isObject, is_object_agrees, hj]
theorem array_length_whole (value : Bytes) (t : Option Int) (hj : isJsonb value = true) :
    (T.arrayLength value).map optNat = Tr.array_length value t := by
  simp [T.arrayLength, array_length_agrees, hj]

end Jsonb.TrAgree
