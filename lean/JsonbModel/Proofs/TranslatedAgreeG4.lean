/-
Agreement theorems, phase 6a, part 4: `select_by_indices` = `Sel.selectByIndices` (the index loop collects
`Sel.indicesOf` through the phase-1 `convert_index` / `convert_slice`; the offsets of all entries are tabulated; each
index picks its entry and offset).
-/
import JsonbModel.Proofs.TranslatedAgreeG3

set_option linter.unusedSimpArgs false
set_option linter.unusedVariables false

namespace Jsonb.TrAgree
open Jsonb.Rs

/-- the payloads of an `ArrayIndex` are `i32` values -/
def AIFits : ArrayIndex → Prop
  | .index i => IndexFits i
  | .slice s e => IndexFits s ∧ IndexFits e

def natsG (l : List Nat) : List Int := l.map (fun (n : Nat) => (n : Int))

theorem natsG_append (a b : List Nat) : natsG (a ++ b) = natsG a ++ natsG b := by simp [natsG]

/-- one iteration of the index loop -/
theorem sbi_loop1_step (n : Nat) (hn : 1 ≤ n ∧ n < 536870912) (ai : ArrayIndex) (hf : AIFits ai) (acc : List Nat) :
    Tr.Selector.select_by_indices.loop1 (n : Int) (ofAI ai) (natsG acc) =
      Ctl.val (.next (natsG (acc ++ Sel.indicesOf [ai] (n : Int)))) := by
  have hc : Rs.cast .i32 (n : Int) = (n : Int) :=
    Rs.cast_of_inRange _ _ (by rw [Rs.inRange_iff]; simp; omega)
  unfold Tr.Selector.select_by_indices.loop1
  cases ai with
  | index i =>
    simp only [ofAI, hc, convert_index_agrees i (n : Int) hf (by omega), Ctl.ofRes_ok', Ctl.val_bind', Sel.indicesOf,
      List.flatMap_cons, List.flatMap_nil, List.append_nil]
    cases Sel.convertIndex i (n : Int) with
    | none => simp [optNat, Ctl.pure_eq', Ctl.val_bind', Rs.loopStep_val']
    | some k => simp [optNat, Ctl.pure_eq', Ctl.val_bind', Rs.loopStep_val', Rs.vecPush, natsG]
  | slice s e =>
    simp only [ofAI, hc, convert_slice_agrees s e (n : Int) hf.1 hf.2 (by omega), Ctl.ofRes_ok', Ctl.val_bind', Sel.indicesOf,
      List.flatMap_cons, List.flatMap_nil, List.append_nil, sliceRes]
    by_cases hl : Sel.convertSlice s e (n : Int) = []
    · simp [hl, Ctl.pure_eq', Ctl.val_bind', Rs.loopStep_val']
    · simp [hl, Ctl.pure_eq', Ctl.val_bind', Rs.loopStep_val', Rs.vecAppend, natsG]

theorem indicesOf_cons (ai : ArrayIndex) (is : List ArrayIndex) (n : Int) :
    Sel.indicesOf (ai :: is) n = Sel.indicesOf [ai] n ++ Sel.indicesOf is n := by
  simp [Sel.indicesOf]

theorem sbi_loop1_run (n : Nat) (hn : 1 ≤ n ∧ n < 536870912) : ∀ (is : List ArrayIndex) (acc : List Nat),
    (∀ ai ∈ is, AIFits ai) →
    Rs.forIn (is.map ofAI) (natsG acc) (Tr.Selector.select_by_indices.loop1 (n : Int)) =
      Ctl.val (natsG (acc ++ Sel.indicesOf is (n : Int))) := by
  intro is
  induction is with
  | nil => intro acc _; simp [Rs.forIn, Sel.indicesOf]
  | cons ai is ih =>
    intro acc hf
    simp only [List.map_cons]
    rw [Rs.forIn_next _ _ _ _ _ (sbi_loop1_step n hn ai (hf ai (by simp)) acc),
      ih _ (fun a ha => hf a (by simp [ha])), List.append_assoc, ← indicesOf_cons]

/-- the start offsets of consecutive entries -/
def startsOf : List (Nat × Nat) → Nat → List Nat
  | [], _ => []
  | (_, len) :: es, off => off :: startsOf es (off + len)

theorem sbi_loop2_step (ty len off : Nat) (offs : List Nat) (h : off + len < 18446744073709551616) :
    Tr.Selector.select_by_indices.loop2 ((ty : Int), (len : Int)) (natsG offs, (off : Int)) =
      Ctl.val (.next (natsG (offs ++ [off]), ((off + len : Nat) : Int))) := by
  unfold Tr.Selector.select_by_indices.loop2
  simp only [Rs.add_usize_nat off len h, Ctl.ofRes_ok', Ctl.val_bind', Ctl.pure_eq', Rs.loopStep_val', Rs.vecPush, natsG,
    List.map_append, List.map_cons, List.map_nil]

theorem sbi_loop2_run : ∀ (es : List (Nat × Nat)) (offs : List Nat) (off : Nat),
    off + Sel.sumLens es < 18446744073709551616 →
    Rs.forIn (es.map ofPairI) (natsG offs, (off : Int)) Tr.Selector.select_by_indices.loop2 =
      Ctl.val (natsG (offs ++ startsOf es off), ((off + Sel.sumLens es : Nat) : Int)) := by
  intro es
  induction es with
  | nil => intro offs off _; simp [Rs.forIn, startsOf, Sel.sumLens]
  | cons e es ih =>
    intro offs off h
    obtain ⟨ty, len⟩ := e
    rw [sumLens_cons_g] at h
    simp only [List.map_cons, ofPairI]
    rw [Rs.forIn_next _ _ _ _ _ (sbi_loop2_step ty len off offs (by omega)), ih _ _ (by omega)]
    simp only [startsOf, List.append_assoc, List.singleton_append, sumLens_cons_g, Nat.add_assoc]

theorem layPos_length_g : ∀ (es : List (Nat × Nat)) (off : Nat), (Sel.layPos es off).length = es.length := by
  intro es
  induction es with
  | nil => intro off; rfl
  | cons e es ih => intro off; obtain ⟨ty, len⟩ := e; simp [Sel.layPos, ih]

theorem startsOf_length : ∀ (es : List (Nat × Nat)) (off : Nat), (startsOf es off).length = es.length := by
  intro es
  induction es with
  | nil => intro off; rfl
  | cons e es ih => intro off; obtain ⟨ty, len⟩ := e; simp [startsOf, ih]

/-- entry `i` of the layout is `mkPos` of entry `i` at start offset `i` -/
theorem layPos_get : ∀ (es : List (Nat × Nat)) (off i : Nat) (e : Nat × Nat) (o : Nat),
    es[i]? = some e → (startsOf es off)[i]? = some o → (Sel.layPos es off)[i]? = some (Sel.mkPos e.1 o e.2) := by
  intro es
  induction es with
  | nil => intro off i e o h; simp at h
  | cons x es ih =>
    intro off i e o h1 h2
    obtain ⟨ty, len⟩ := x
    cases i with
    | zero =>
      simp only [List.getElem?_cons_zero, Option.some.injEq, startsOf] at h1 h2
      subst h1 h2; simp [Sel.layPos]
    | succ i =>
      simp only [List.getElem?_cons_succ, startsOf] at h1 h2
      simp only [Sel.layPos, List.getElem?_cons_succ]
      exact ih _ _ _ _ h1 h2

theorem indexVec_nat_g {α β : Type} (f : α → β) (l : List α) (i : Nat) :
    Rs.indexVec (l.map f) (i : Int) = match l[i]? with
      | some a => .ok (f a)
      | none => .panic "index out of bounds" := by
  unfold Rs.indexVec
  have : ¬ ((i : Int) < 0) := by omega
  simp only [this, if_false, Int.toNat_natCast, List.getElem?_map]
  cases l[i]? <;> rfl

/-- one iteration of the pick loop -/
theorem sbi_loop3_step (es : List (Nat × Nat)) (off : Nat) (x : Int) (i : Nat) (poses : List Sel.Pos) :
    Tr.Selector.select_by_indices.loop3 (es.map ofPairI) x (natsG (startsOf es off)) (i : Int) (poses.map ofPos) =
      match (Sel.layPos es off)[i]? with
      | some p => Ctl.val (.next ((poses ++ [p]).map ofPos))
      | none => Ctl.ret (.panic "index out of bounds") := by
  unfold Tr.Selector.select_by_indices.loop3
  simp only [natsG, indexVec_nat_g]
  cases ho : (startsOf es off)[i]? with
  | none =>
    have : ¬ i < (startsOf es off).length := by
      intro hh; rw [List.getElem?_eq_getElem hh] at ho; cases ho
    have hl : (Sel.layPos es off)[i]? = none := by
      apply List.getElem?_eq_none; rw [layPos_length_g]; rw [startsOf_length] at this; omega
    simp [hl, Rs.loopStep]
  | some o =>
    have hi : i < es.length := by
      have := List.getElem?_eq_some_iff.mp ho
      obtain ⟨hh, _⟩ := this
      rw [startsOf_length] at hh; exact hh
    have he : es[i]? = some es[i] := List.getElem?_eq_getElem hi
    rw [he, layPos_get es off i _ o he ho]
    simp only [Ctl.ofRes_ok', Ctl.val_bind', ofPairI, Ctl.pure_eq', Rs.loopStep_val', pos_term_g, Rs.pushBack,
      List.map_append, List.map_cons, List.map_nil]

theorem sbi_loop3_run (es : List (Nat × Nat)) (off : Nat) (x : Int) : ∀ (idxs : List Nat) (poses : List Sel.Pos),
    Rs.forIn (natsG idxs) (poses.map ofPos) (Tr.Selector.select_by_indices.loop3 (es.map ofPairI) x (natsG (startsOf es off))) =
      if idxs.all (· < (Sel.layPos es off).length) then
        (Ctl.val ((poses ++ idxs.filterMap ((Sel.layPos es off)[·]?)).map ofPos) : Ctl (List Tr.Position) _)
      else Ctl.ret (.panic "index out of bounds") := by
  intro idxs
  induction idxs with
  | nil => intro poses; simp [natsG, Rs.forIn]
  | cons i idxs ih =>
    intro poses
    have hcons : natsG (i :: idxs) = (i : Int) :: natsG idxs := rfl
    rw [hcons]
    have hs := sbi_loop3_step es off x i poses
    cases hp : (Sel.layPos es off)[i]? with
    | none =>
      rw [hp] at hs
      have hi : ¬ i < (Sel.layPos es off).length := by
        intro hh; rw [List.getElem?_eq_getElem hh] at hp; cases hp
      rw [Rs.forIn_ret _ _ _ _ _ hs]
      simp [hi]
    | some p =>
      rw [hp] at hs
      have hi : i < (Sel.layPos es off).length := (List.getElem?_eq_some_iff.mp hp).1
      rw [Rs.forIn_next _ _ _ _ _ hs, ih]
      simp only [List.all_cons, hi, decide_true, Bool.true_and, List.filterMap_cons, hp, List.append_assoc,
        List.singleton_append]

/-! ## select_by_indices -/

theorem select_by_indices_eq (self : Tr.Selector) (root : Bytes) (off : Nat) (is : List ArrayIndex) (poses : List Sel.Pos)
    (hfit : ∀ ai ∈ is, AIFits ai) (hlen : root.length < 9223372036854775808) (hoff : off ≤ root.length) :
    Tr.Selector.select_by_indices self root (off : Int) (is.map ofAI) (poses.map ofPos) =
      (Sel.selectByIndices root off is).map (fun ps => (poses ++ ps).map ofPos) := by
  unfold Tr.Selector.select_by_indices Sel.selectByIndices Sel.headerAt
  have hno : ¬ off > root.length := by omega
  rw [sliceFrom_nat_if, if_pos hoff, if_neg hno]
  simp only [Ctl.ofRes_ok', Ctl.val_bind', decode_header_drop root off hoff]
  cases hr : readU32At root off with
  | none => rfl
  | some w =>
    have h4 := readU32At_some_le_g root off w hr
    have hL := hdrLen_lt w
    simp only [mapErr_ok_g, Ctl.ofRes_ok', Ctl.val_bind', tag_decide_ne_g, zero_decide_g]
    by_cases hc : hdrType w ≠ C.ARRAY_CONTAINER_TAG ∨ hdrLen w = 0
    · have hb : (decide (hdrType w ≠ C.ARRAY_CONTAINER_TAG) || decide (hdrLen w = 0)) = true := by
        rcases hc with h | h <;> simp [h]
      simp [hb, hc, Ctl.run, Res.map, Res.bind]
    · have hb : (decide (hdrType w ≠ C.ARRAY_CONTAINER_TAG) || decide (hdrLen w = 0)) = false := by
        simp only [not_or, Decidable.not_not] at hc
        simp [hc.1, hc.2]
      have hn : hdrLen w ≠ 0 := fun h => hc (Or.inr h)
      simp only [hb, hc, Bool.false_eq_true, if_false, Ctl.pure_eq', Ctl.val_bind']
      have h0 : ([] : List Int) = natsG [] := rfl
      rw [h0, sbi_loop1_run (hdrLen w) (by omega) is [] hfit]
      simp only [Ctl.val_bind', List.nil_append]
      by_cases hem : (Sel.indicesOf is (hdrLen w : Int)).isEmpty = true
      · have : Rs.isEmpty (natsG (Sel.indicesOf is (hdrLen w : Int))) = true := by
          rw [List.isEmpty_iff] at hem; simp [hem, natsG, Rs.isEmpty]
        simp [this, hem, Ctl.run, Res.map, Res.bind]
      · have : Rs.isEmpty (natsG (Sel.indicesOf is (hdrLen w : Int))) = false := by
          cases hq : Sel.indicesOf is (hdrLen w : Int) with
          | nil => rw [hq] at hem; simp at hem
          | cons a l => simp [natsG, Rs.isEmpty]
        simp only [this, hem, Bool.false_eq_true, if_false, Ctl.pure_eq', Ctl.val_bind']
        rw [decode_jentries_at root (hdrLen w) (off + 4) h4]
        rcases entriesAt_cases_g root (hdrLen w) (off + 4) with ⟨vs, hv⟩ | hv
        · obtain ⟨hv1, hv2, hv3⟩ := entriesAt_ok_g root _ _ _ hv
          have hv2 := hv2 hn
          rw [hv]
          simp only [Res.map, Res.bind, Ctl.ofRes_ok', Ctl.val_bind']
          simp (disch := omega) only [Rs.add_usize_ok', Rs.mul_usize_ok', Ctl.ofRes_ok', Ctl.val_bind']
          have hcap : Rs.len (vs.map ofPairI) = ((vs.length : Nat) : Int) := by simp [Rs.len]
          rw [hcap, vecWithCapacity_ok Int 8 vs.length (by omega)]
          simp only [Ctl.ofRes_ok', Ctl.val_bind']
          have hst : ((off : Int) + 4 + (hdrLen w : Int) * 4) = ((off + 4 + hdrLen w * 4 : Nat) : Int) := by omega
          rw [hst, h0, sbi_loop2_run vs [] _ (by omega)]
          simp only [Ctl.val_bind', List.nil_append]
          rw [sbi_loop3_run vs (off + 4 + hdrLen w * 4) _ _ poses]
          by_cases hall : (Sel.indicesOf is (hdrLen w : Int)).all (· < (Sel.layPos vs (off + 4 + hdrLen w * 4)).length) = true
          · simp only [hall, if_true, Ctl.val_bind', Ctl.run]
          · simp only [hall, Bool.false_eq_true, if_false, Ctl.ret_bind', Ctl.run]
        · rw [hv]; rfl

theorem select_by_indices_oob (self : Tr.Selector) (root : Bytes) (off : Nat) (is : List Tr.ArrayIndex) (poses : List Tr.Position)
    (hoff : ¬ off ≤ root.length) :
    Tr.Selector.select_by_indices self root (off : Int) is poses = .panic "range start index out of range for slice" ∧
      ∀ js, Sel.selectByIndices root off js = .panic "slice start out of range" := by
  constructor
  · unfold Tr.Selector.select_by_indices
    rw [sliceFrom_nat_if, if_neg hoff]; rfl
  · intro js
    unfold Sel.selectByIndices Sel.headerAt
    have : off > root.length := by omega
    rw [if_pos this]

theorem select_by_indices_agrees (self : Tr.Selector) (root : Bytes) (off : Nat) (is : List ArrayIndex) (poses : List Sel.Pos)
    (hfit : ∀ ai ∈ is, AIFits ai) (hlen : root.length < 9223372036854775808) :
    panicAny (Tr.Selector.select_by_indices self root (off : Int) (is.map ofAI) (poses.map ofPos)) =
      panicAny ((Sel.selectByIndices root off is).map (fun ps => (poses ++ ps).map ofPos)) := by
  by_cases hoff : off ≤ root.length
  · rw [select_by_indices_eq self root off is poses hfit hlen hoff]
  · obtain ⟨h1, h2⟩ := select_by_indices_oob self root off (is.map ofAI) (poses.map ofPos) hoff
    rw [h1, h2 is]; rfl

end Jsonb.TrAgree
