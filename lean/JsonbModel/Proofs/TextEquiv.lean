/-
C11: the JSON-text branch of a function agrees with the JSONB branch on the encoding of the
text.  Functions of the shape "parse, encode, run the JSONB function" by unfolding; functions
with a separate tree implementation through the C05/C06 refinement theorems.
-/
import JsonbModel.Functions.Text
import JsonbModel.Proofs.SerLayout
import JsonbModel.Proofs.AccessRefine5
import JsonbModel.Proofs.KeypathRefine

namespace Jsonb
open JV

/-- the sniffing predicate on a valid encoding: true whenever the top-level count is below 2^24
(beyond that the first header byte is no longer exactly 0x80 / 0x40 — known finding D21) -/
def topCount : JV → Nat
  | arr vs => vs.length
  | obj kvs => kvs.length
  | _ => 0

theorem u32be_head (n : Nat) : u32be n = UInt8.ofNat (n / 16777216 % 256) :: (u32be n).tail := by
  simp [u32be, beN]

theorem isJsonb_encodeSpec (v : JV) (h : topCount v < 16777216) : isJsonb (encodeSpec v) = true := by
  cases v with
  | arr vs =>
    simp only [topCount] at h
    simp only [encodeSpec, entry]
    rw [u32be_head]
    have : (C.ARRAY_CONTAINER_TAG + vs.length) / 16777216 % 256 = 128 := by
      simp only [C.ARRAY_CONTAINER_TAG]; omega
    simp [isJsonb, this, C.ARRAY_PREFIX]
  | obj kvs =>
    simp only [topCount] at h
    simp only [encodeSpec, entry]
    rw [u32be_head]
    have : (C.OBJECT_CONTAINER_TAG + kvs.length) / 16777216 % 256 = 64 := by
      simp only [C.OBJECT_CONTAINER_TAG]; omega
    simp [isJsonb, this, C.OBJECT_PREFIX, C.ARRAY_PREFIX]
  | null => simp [encodeSpec, u32be, beN, isJsonb, C.SCALAR_CONTAINER_TAG, C.SCALAR_PREFIX, C.ARRAY_PREFIX, C.OBJECT_PREFIX]
  | bool b => simp [encodeSpec, u32be, beN, isJsonb, C.SCALAR_CONTAINER_TAG, C.SCALAR_PREFIX, C.ARRAY_PREFIX, C.OBJECT_PREFIX]
  | num n => simp [encodeSpec, u32be, beN, isJsonb, C.SCALAR_CONTAINER_TAG, C.SCALAR_PREFIX, C.ARRAY_PREFIX, C.OBJECT_PREFIX]
  | str s => simp [encodeSpec, u32be, beN, isJsonb, C.SCALAR_CONTAINER_TAG, C.SCALAR_PREFIX, C.ARRAY_PREFIX, C.OBJECT_PREFIX]

/-- a text argument: sniffed as text, parsed to a good value -/
structure TextOf (t : Bytes) (v : JV) : Prop where
  notJsonb : isJsonb t = false
  parses : parseValue t = .ok v
  good : goodTop v = true
  small : topCount v < 16777216

theorem textToJsonb_eq {t : Bytes} {v : JV} (h : TextOf t v) : T.textToJsonb t = .ok (encodeSpec v) := by
  simp [T.textToJsonb, h.parses, T.enc, toVec_eq_encodeSpec v h.good]

/-- **every "parse, encode, run" function with one document argument** -/
theorem viaJsonb1_text {α} (f : Bytes → Res α) {t : Bytes} {v : JV} (h : TextOf t v) :
    T.viaJsonb1 f t = T.viaJsonb1 f (encodeSpec v) := by
  simp [T.viaJsonb1, h.notJsonb, textToJsonb_eq h, isJsonb_encodeSpec v h.small, Res.bind, bind]

/-- **two document arguments, every text/JSONB choice** (mixed calls agree with the all-binary call) -/
theorem viaJsonb2_text_text {α} (f : Bytes → Bytes → Res α) {t1 t2 : Bytes} {v1 v2 : JV}
    (h1 : TextOf t1 v1) (h2 : TextOf t2 v2) :
    T.viaJsonb2 f t1 t2 = T.viaJsonb2 f (encodeSpec v1) (encodeSpec v2) := by
  simp [T.viaJsonb2, h1.notJsonb, h2.notJsonb, textToJsonb_eq h1, textToJsonb_eq h2,
    isJsonb_encodeSpec v1 h1.small, isJsonb_encodeSpec v2 h2.small, Res.bind, bind]
theorem viaJsonb2_text_bin {α} (f : Bytes → Bytes → Res α) {t1 : Bytes} {v1 : JV} (b2 : Bytes)
    (h1 : TextOf t1 v1) (hb : isJsonb b2 = true) :
    T.viaJsonb2 f t1 b2 = T.viaJsonb2 f (encodeSpec v1) b2 := by
  simp [T.viaJsonb2, h1.notJsonb, hb, textToJsonb_eq h1, isJsonb_encodeSpec v1 h1.small, Res.bind, bind]
theorem viaJsonb2_bin_text {α} (f : Bytes → Bytes → Res α) (b1 : Bytes) {t2 : Bytes} {v2 : JV}
    (hb : isJsonb b1 = true) (h2 : TextOf t2 v2) :
    T.viaJsonb2 f b1 t2 = T.viaJsonb2 f b1 (encodeSpec v2) := by
  simp [T.viaJsonb2, hb, h2.notJsonb, textToJsonb_eq h2, isJsonb_encodeSpec v2 h2.small, Res.bind, bind]

/-- tree-implemented accessors: `array_length`, `get_by_index` -/
theorem arrayLength_text {t : Bytes} {v : JV} (h : TextOf t v) :
    T.arrayLength t = T.arrayLength (encodeSpec v) := by
  have hj := isJsonb_encodeSpec v h.small
  simp only [T.arrayLength, h.notJsonb, hj, h.parses, Bool.not_false, Bool.not_true, if_true]
  rw [arrayLength_refines v h.good]
  cases v <;> simp [Spec.arrayLength]

theorem typeOf_text {t : Bytes} {v : JV} (h : TextOf t v) : T.typeOf t = T.typeOf (encodeSpec v) := by
  have hj := isJsonb_encodeSpec v h.small
  simp only [T.typeOf, h.notJsonb, hj, h.parses, Bool.not_false, Bool.not_true, if_true]
  rw [typeOf_refines v h.good]; simp [Res.map, Res.bind]

theorem deleteByName_good (v : JV) (hg : goodTop v = true) (name : Bytes) (r : JV)
    (hd : Spec.deleteByName v name = some r) : goodTop r = true := by
  cases v with
  | arr vs =>
    simp only [Spec.deleteByName, Option.some.injEq] at hd; subst hd
    simp only [goodTop, Bool.and_eq_true, decide_eq_true_eq] at hg ⊢
    have hsub : (vs.filter (fun v => match v with | str s => s != name | _ => true)).Sublist vs := List.filter_sublist
    exact ⟨Nat.lt_of_le_of_lt hsub.length_le hg.1, goodL_sublist hsub hg.2⟩
  | obj kvs =>
    simp only [Spec.deleteByName, Option.some.injEq] at hd; subst hd
    simp only [goodTop, Bool.and_eq_true, decide_eq_true_eq] at hg ⊢
    have hsub : (Spec.removeKey name kvs).Sublist kvs := List.filter_sublist
    exact ⟨⟨Nat.lt_of_le_of_lt hsub.length_le hg.1.1, keysSorted_sublist hsub hg.1.2⟩, goodK_sublist hsub hg.2⟩
  | null => simp [Spec.deleteByName] at hd
  | bool b => simp [Spec.deleteByName] at hd
  | num n => simp [Spec.deleteByName] at hd
  | str s => simp [Spec.deleteByName] at hd

/-- tree-implemented editors: `strip_nulls`, `delete_by_name` write the same bytes -/
theorem stripNulls_text {t : Bytes} {v : JV} (h : TextOf t v) (buf : Bytes) :
    T.stripNulls t buf = T.stripNulls (encodeSpec v) buf := by
  have hj := isJsonb_encodeSpec v h.small
  simp only [T.stripNulls, h.notJsonb, hj, h.parses, Bool.not_false, Bool.not_true, if_true]
  rw [stripNulls_refines v h.good buf, writeToVec_spec buf _ (goodTop_stripNulls v h.good)]
  simp

theorem deleteByName_text {t : Bytes} {v : JV} (h : TextOf t v) (name buf : Bytes) :
    T.deleteByName t name buf = T.deleteByName (encodeSpec v) name buf := by
  have hj := isJsonb_encodeSpec v h.small
  simp only [T.deleteByName, h.notJsonb, hj, h.parses, Bool.not_false, Bool.not_true, if_true]
  rw [deleteByName_refines v h.good name buf]
  cases hd : Spec.deleteByName v name with
  | none => rfl
  | some r =>
    simp only
    have hg : goodTop r = true := deleteByName_good v h.good name r hd
    rw [writeToVec_spec buf r hg]
    simp

/-- `parse_lazy_value(..).to_vec()`: text gives the encoding of the text, JSONB is kept -/
theorem lazy_text {t : Bytes} {v : JV} (h : TextOf t v) : T.lazyToVec t = .ok (encodeSpec v) := by
  simp [T.lazyToVec, h.notJsonb, textToJsonb_eq h]
theorem lazy_bin (v : JV) (hs : topCount v < 16777216) : T.lazyToVec (encodeSpec v) = .ok (encodeSpec v) := by
  simp [T.lazyToVec, isJsonb_encodeSpec v hs]

end Jsonb
