/-
Phase 5b: the `compare` family of functions.rs (`compare_scalar`, `compare_container`, `compare_array`,
`compare_object`, `compare`), translated from source by tools/rs2lean5b.py (Generated/Translated5b.lean),
against `Fn.cmpScalar` / `Fn.cmpContainer` / `Fn.cmpArrayLoop` / `Fn.cmpObject` / `Fn.cmpObjLoop` /
`Fn.compareDocs` of Functions/Order.lean.
F1: the precondition `KeysAreStrings` (every key entry of every nested object carries the string tag; the
model re-types key entries as strings, the source passes the decoded key entry), agreement modulo the text
of a panic message, one unfolding of `compare_scalar` and `compare_container`.
-/
import JsonbModel.Generated.Translated5b
import JsonbModel.Functions.Order
import JsonbModel.Proofs.TranslatedAgree
import JsonbModel.Proofs.TranslatedAgreeB
import JsonbModel.Proofs.TranslatedAgreeC
import JsonbModel.Proofs.TranslatedAgreeD
import JsonbModel.Proofs.CmpRefine

set_option linter.unusedSimpArgs false
set_option linter.unusedVariables false

namespace Jsonb.TrAgree
open Jsonb.Rs

/-! ## the key entries of an object, with their type codes -/

/-- `Walk.fillKeys` keeping the type code of every key entry next to its length -/
def fillKeyEntries (value : Bytes) : Nat → Nat → Nat → Option (List (Nat × Nat) × Nat × Nat)
  | 0, jo, vo => some ([], jo, vo)
  | n+1, jo, vo =>
    match readU32At value jo with
    | none => none
    | some w =>
      match fillKeyEntries value n (jo + 4) (vo + jeLen w) with
      | none => none
      | some (ks, jo', vo') => some ((jeType w, jeLen w) :: ks, jo', vo')

theorem fillKeys_eq (value : Bytes) : ∀ (n jo vo : Nat),
    fillKeys value n jo vo = (fillKeyEntries value n jo vo).map (fun p => (p.1.map Prod.snd, p.2))
  | 0, jo, vo => rfl
  | n+1, jo, vo => by
    simp only [fillKeys, fillKeyEntries]
    cases readU32At value jo with
    | none => rfl
    | some w =>
      simp only [fillKeys_eq value n (jo + 4) (vo + jeLen w)]
      cases fillKeyEntries value n (jo + 4) (vo + jeLen w) with
      | none => rfl
      | some q => rfl

theorem fillKeyEntries_length (value : Bytes) : ∀ (n jo vo : Nat) (ks : List (Nat × Nat)) (jo' vo' : Nat),
    fillKeyEntries value n jo vo = some (ks, jo', vo') → ks.length = n ∧ jo' = jo + 4 * n
  | 0, jo, vo, ks, jo', vo', h => by
    simp only [fillKeyEntries, Option.some.injEq, Prod.mk.injEq] at h
    obtain ⟨rfl, rfl, _⟩ := h
    exact ⟨rfl, rfl⟩
  | n+1, jo, vo, ks, jo', vo', h => by
    simp only [fillKeyEntries] at h
    cases hr : readU32At value jo with
    | none => rw [hr] at h; cases h
    | some w =>
      rw [hr] at h
      dsimp only at h
      cases hf : fillKeyEntries value n (jo + 4) (vo + jeLen w) with
      | none => rw [hf] at h; cases h
      | some q =>
        obtain ⟨ks1, jo1, vo1⟩ := q
        rw [hf] at h
        simp only [Option.some.injEq, Prod.mk.injEq] at h
        obtain ⟨rfl, rfl, _⟩ := h
        have := fillKeyEntries_length value n (jo + 4) (vo + jeLen w) ks1 jo1 vo1 hf
        exact ⟨by simp [this.1], by omega⟩

/-! ## the precondition: every key entry of every nested object is string-typed -/

mutual
/-- the value of an entry of type `ty` whose payload starts at `bs` -/
def kasScalar : Nat → Nat → Bytes → Bool
  | 0, _, _ => false
  | f+1, ty, bs => if ty = C.CONTAINER_TAG then kasContainer f bs else true
/-- a nested container starting (with its header word) at `bs` -/
def kasContainer : Nat → Bytes → Bool
  | 0, _ => false
  | f+1, bs =>
    match readU32At bs 0 with
    | none => true
    | some h =>
      if hdrType h = C.ARRAY_CONTAINER_TAG then kasItems f (bs.drop 4) (hdrLen h) 0 (4 * hdrLen h)
      else if hdrType h = C.OBJECT_CONTAINER_TAG then kasObject f (hdrLen h) (bs.drop 4)
      else true
/-- `n` value entries from entry offset `jo` with payloads from `vo` (`bs` starts after the header word) -/
def kasItems : Nat → Bytes → Nat → Nat → Nat → Bool
  | 0, _, _, _, _ => false
  | _+1, _, 0, _, _ => true
  | f+1, bs, n+1, jo, vo =>
    match readU32At bs jo with
    | none => true
    | some w => kasScalar f (jeType w) (bs.drop vo) && kasItems f bs n (jo + 4) (vo + jeLen w)
/-- an object with `n` members: all key entries string-typed, then the values -/
def kasObject : Nat → Nat → Bytes → Bool
  | 0, _, _ => false
  | f+1, n, bs =>
    match fillKeyEntries bs n 0 (8 * n) with
    | none => true
    | some (ks, jo, vo) => ks.all (fun k => k.1 == C.STRING_TAG) && kasItems f bs n jo vo
end

/-- The precondition of the agreement theorems of the `compare` and `convert_to_comparable` families, a
decidable property of one buffer: walking the document as the crate does (header, entry words, running
offsets), every KEY entry of every object, at every depth, carries `STRING_TAG`.  Where the walk cannot read
a word there is nothing to check.  (`encodeSpec v` has it for every good `v`: `keysAreStrings_encodeSpec`.) -/
def KeysAreStrings (buf : Bytes) : Bool :=
  match readU32At buf 0 with
  | none => true
  | some h =>
    if hdrType h = C.SCALAR_CONTAINER_TAG then
      match readU32At buf 4 with
      | none => true
      | some w => kasScalar (buf.length + 8) (jeType w) (buf.drop 8)
    else kasContainer (buf.length + 8) buf

/-! ## agreement modulo the text of a panic message

`&left[a..]` panics with the message of the standard library, the model's `sliceFrom` / `slice` name the
operation; `panicAny` (phase 4) forgets the text. -/

theorem panicAny_ok {α : Type} (a : Res α) (x : α) (h : panicAny a = panicAny (.ok x)) : a = .ok x := by
  cases a <;> simp_all [panicAny]
theorem panicAny_err {α : Type} (a : Res α) (e : String) (h : panicAny a = panicAny (.err e)) : a = .err e := by
  cases a <;> simp_all [panicAny]
theorem panicAny_panic {α : Type} (a : Res α) (s : String) (h : panicAny a = panicAny (.panic s)) :
    ∃ s', a = .panic s' := by
  cases a <;> simp_all [panicAny]
theorem panicAny_panic_eq {α : Type} (s t : String) : panicAny (.panic s : Res α) = panicAny (.panic t) := rfl

/-- `&s[a..]` against the model's `sliceFrom` -/
theorem sliceFrom_model (s : Bytes) (a : Nat) :
    Rs.sliceFrom s (a : Int) = match Jsonb.sliceFrom s a with
      | .ok x => .ok x
      | _ => .panic "range start index out of range for slice" := by
  unfold Rs.sliceFrom Jsonb.sliceFrom
  by_cases h : a ≤ s.length
  · rw [if_pos (by omega), if_pos h]; simp
  · rw [if_neg (by omega), if_neg h]

theorem sliceFrom_model_ok (s : Bytes) (a : Nat) (h : a ≤ s.length) : Jsonb.sliceFrom s a = .ok (s.drop a) := by
  unfold Jsonb.sliceFrom; rw [if_pos h]
theorem sliceFrom_model_panic (s : Bytes) (a : Nat) (h : ¬ a ≤ s.length) :
    Jsonb.sliceFrom s a = .panic "slice start out of range" := by
  unfold Jsonb.sliceFrom; rw [if_neg h]

/-- `&s[..b]` against the model's `slice s 0 b` -/
theorem sliceTo_nat (s : Bytes) (b : Nat) :
    Rs.sliceTo s (b : Int) = if b ≤ s.length then .ok (s.take b) else .panic "range end index out of range for slice" := by
  unfold Rs.sliceTo
  by_cases h : b ≤ s.length
  · rw [if_pos (by omega), if_pos h]; simp
  · rw [if_neg (by omega), if_neg h]

theorem slice_zero_model (s : Bytes) (b : Nat) :
    Jsonb.slice s 0 b = if b ≤ s.length then .ok (s.take b) else .panic "slice index out of range" := by
  unfold Jsonb.slice
  by_cases h : b ≤ s.length
  · rw [if_pos ⟨by omega, h⟩, if_pos h]; simp
  · rw [if_neg (fun c => h c.2), if_neg h]

/-! ## decoded numbers are values of their Rust type -/

theorem ofBe_lt (bs : Bytes) : ofBe bs < 256 ^ bs.length := by
  induction bs using List.reverseRecOn with
  | nil => simp [ofBe]
  | append_singleton bs b ih =>
    have hb := b.toNat_lt
    simp only [ofBe, List.foldl_append, List.foldl_cons, List.foldl_nil, List.length_append, List.length_cons,
      List.length_nil] at ih ⊢
    rw [Nat.pow_succ]
    have : UInt8.size = 256 := rfl
    omega

theorem dec_WF (bs : Bytes) (n : Num) (h : Num.dec bs = .ok n) : n.WF := by
  cases bs with
  | nil => simp [Num.dec] at h
  | cons t rest =>
    have hb := ofBe_lt rest
    simp only [Num.dec] at h
    split at h
    · split at h
      · cases h
      · split at h
        · cases h; simp [Num.WF]
        · split at h
          · cases h; simp [Num.WF, F64.canonNaN]
          · split at h
            · cases h; simp [Num.WF, F64.posInf]
            · cases h; simp [Num.WF, F64.negInf]
    · split at h
      · split at h
        · rename_i hl
          cases h
          simp only [Num.WF, Num.ofBeI]
          rcases hl with hl | hl | hl | hl <;> rw [hl] at hb ⊢ <;> split <;> omega
        · cases h
      · split at h
        · split at h
          · rename_i hl
            cases h
            simp only [Num.WF]
            rcases hl with hl | hl | hl | hl <;> rw [hl] at hb <;> omega
          · cases h
        · split at h
          · split at h
            · rename_i hl
              cases h
              simp only [Num.WF]
              rw [hl] at hb; omega
            · cases h
          · cases h

end Jsonb.TrAgree
