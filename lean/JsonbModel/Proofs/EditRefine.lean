/-
C06 refinement backbone: building an array from the raw `(entry, payload)` items of good values
appends exactly the README layout of that array; array editors follow.
-/
import JsonbModel.Functions.Edit
import JsonbModel.Spec.Edit
import JsonbModel.Proofs.BuilderLayout
import JsonbModel.Proofs.AccessRefine

namespace Jsonb
open JV

def rawItem (v : JV) : BEntry := Fn.rawOf (itemOf v)

theorem bspec_rawItem (v : JV) : bspec (rawItem v) = (ety v, elen v, (entry v).2) := by
  simp [rawItem, Fn.rawOf, itemOf, bspec]

theorem bwordsL_raw (vs : List JV) (hg : goodL vs = true) : bwordsL (vs.map rawItem) = wordsL vs := by
  induction vs with
  | nil => rfl
  | cons v vs ih =>
    simp only [goodL, Bool.and_eq_true] at hg
    have hl := elen_lt_of_good v hg.1
    have hw : jentryWord (ety v) (elen v) = (entry v).1 := by
      have := lor_eq_add_entry v hl
      rwa [Nat.mod_eq_of_lt (by omega)] at this
    simp only [List.map_cons, bwordsL, wordsL, bspec_rawItem, hw, ih hg.2]

theorem bpaysL_raw (vs : List JV) : bpaysL (vs.map rawItem) = paysL vs := by
  induction vs with
  | nil => rfl
  | cons v vs ih => simp only [List.map_cons, bpaysL, paysL, bspec_rawItem, ih]

/-- **building an array from raw items of good values** -/
theorem buildArrayInto_raw (buf : Bytes) (vs : List JV) (hn : vs.length < 536870912) (hg : goodL vs = true) :
    buildArrayInto buf (vs.map rawItem) = .ok (buf ++ encodeSpec (arr vs)) := by
  rw [buildArrayInto_spec]
  have hw : headerWord C.ARRAY_CONTAINER_TAG vs.length = C.ARRAY_CONTAINER_TAG + vs.length := by
    rw [tag_arr']; exact headerWord_eq 4 _ hn
  simp only [bspec, List.length_map, hw, bwordsL_raw vs hg, bpaysL_raw, encodeSpec, entry]

theorem goodL_append (a b : List JV) : goodL (a ++ b) = (goodL a && goodL b) := by
  induction a with
  | nil => simp [goodL]
  | cons x xs ih => simp [goodL, ih, Bool.and_assoc]

theorem goodL_removeAt (vs : List JV) (hg : goodL vs = true) (k : Nat) : goodL (Fn.removeAt vs k) = true := by
  induction vs generalizing k with
  | nil => rfl
  | cons v vs ih =>
    simp only [goodL, Bool.and_eq_true] at hg
    cases k with
    | zero => exact hg.2
    | succ k => simp [Fn.removeAt, goodL, hg.1, ih hg.2 k]

theorem removeAt_length_le {α} (xs : List α) (k : Nat) : (Fn.removeAt xs k).length ≤ xs.length := by
  induction xs generalizing k with
  | nil => simp [Fn.removeAt]
  | cons x xs ih => cases k with
    | zero => simp [Fn.removeAt]
    | succ k => simp [Fn.removeAt]; exact ih k

theorem removeAt_map {α β} (f : α → β) (xs : List α) (k : Nat) :
    Fn.removeAt (xs.map f) k = (Fn.removeAt xs k).map f := by
  induction xs generalizing k with
  | nil => rfl
  | cons x xs ih => cases k with
    | zero => rfl
    | succ k => simp [Fn.removeAt, ih]

/-- the raw items the iterator yields are the raw items of the values -/
theorem map_rawOf_itemOf (vs : List JV) : (vs.map itemOf).map Fn.rawOf = vs.map rawItem := by
  simp [rawItem]

/-- `iterate_array` on a whole array document -/
theorem iterArray_doc (vs : List JV) (hn : vs.length < 536870912) (hg : goodL vs = true) :
    iterArray (encodeSpec (arr vs)) (C.ARRAY_CONTAINER_TAG + vs.length) = .ok (vs.map itemOf) := by
  have := iterArray_spec vs hn hg []
  simpa [encodeSpec] using this

/-- **delete_by_index** on an array document, for EVERY i32 index (negative from the end, out
of range is a copy), into any prior buffer -/
theorem deleteByIndex_arr (vs : List JV) (hn : vs.length < 536870912) (hg : goodL vs = true)
    (i : Int) (hi : -2147483648 ≤ i ∧ i ≤ 2147483647) (buf : Bytes) :
    Fn.deleteByIndex (encodeSpec (arr vs)) i buf
      = .ok (buf ++ encodeSpec ((Spec.deleteByIndex (arr vs) i).getD null)) := by
  have hdr : readU32At (encodeSpec (arr vs)) 0 = some (C.ARRAY_CONTAINER_TAG + vs.length) := by
    simp only [encodeSpec, entry]; exact readU32At_zero _ _ (arr_header_lt _ hn)
  simp only [Fn.deleteByIndex, hdr, hdrType_arr _ hn, if_true, hdrLen_arr _ hn, Spec.deleteByIndex]
  have hadd : (if i < 0 then Fn.addI32 (vs.length : Int) i else Res.ok i)
      = Res.ok (if i < 0 then (vs.length : Int) + i else i) := by
    by_cases h : i < 0
    · simp only [h, if_true, Fn.addI32]; rw [if_pos (by omega)]
    · simp [h]
  rw [hadd]
  simp only []
  by_cases hr : (if i < 0 then (vs.length : Int) + i else i) < 0 ∨ (if i < 0 then (vs.length : Int) + i else i) ≥ vs.length
  · rw [if_pos hr, if_pos hr]; rfl
  · rw [if_neg hr, if_neg hr]
    rw [iterArray_doc vs hn hg]
    simp only [Option.getD_some]
    rw [removeAt_map, map_rawOf_itemOf]
    exact buildArrayInto_raw buf _ (Nat.lt_of_le_of_lt (removeAt_length_le _ _) hn) (goodL_removeAt vs hg _)

/-- **concat** of two array documents appends -/
theorem concat_arr_arr (l r : List JV) (hl : l.length < 536870912) (hr : r.length < 536870912)
    (hlr : l.length + r.length < 536870912) (hgl : goodL l = true) (hgr : goodL r = true) (buf : Bytes) :
    Fn.concat (encodeSpec (arr l)) (encodeSpec (arr r)) buf
      = .ok (buf ++ encodeSpec (Spec.concat (arr l) (arr r))) := by
  have hdl : readU32At (encodeSpec (arr l)) 0 = some (C.ARRAY_CONTAINER_TAG + l.length) := by
    simp only [encodeSpec, entry]; exact readU32At_zero _ _ (arr_header_lt _ hl)
  have hdr : readU32At (encodeSpec (arr r)) 0 = some (C.ARRAY_CONTAINER_TAG + r.length) := by
    simp only [encodeSpec, entry]; exact readU32At_zero _ _ (arr_header_lt _ hr)
  have n1 : ¬ (C.ARRAY_CONTAINER_TAG = C.OBJECT_CONTAINER_TAG ∧ C.ARRAY_CONTAINER_TAG = C.OBJECT_CONTAINER_TAG) :=
    fun h => ne_arr_obj h.1
  simp only [Fn.concat, hdl, hdr, hdrType_arr _ hl, hdrType_arr _ hr, n1, if_false, and_self, if_true,
    iterArray_doc l hl hgl, iterArray_doc r hr hgr, Spec.concat]
  rw [map_rawOf_itemOf, map_rawOf_itemOf, ← List.map_append]
  exact buildArrayInto_raw buf (l ++ r) (by simp; omega) (by rw [goodL_append, hgl, hgr]; rfl)

end Jsonb
