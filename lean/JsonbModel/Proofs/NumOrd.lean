/-
The order on numbers is the exact-value order (`Num.cmp_eq_spec`), hence a total order;
`as f64` facts.  Proof file: may use Mathlib tactics.
-/
import JsonbModel.NumOrd
import Mathlib.Tactic.Linarith
import Mathlib.Tactic.Positivity

namespace Jsonb

/-! ### `compare` on `Int` / `Nat` as if-then-else -/

theorem icmp_def (a b : Int) :
    compare a b = if a < b then .lt else if a = b then .eq else .gt := by
  simp only [compare, compareOfLessAndEq]

theorem ncmp_def (a b : Nat) :
    compare a b = if a < b then .lt else if a = b then .eq else .gt := by
  simp only [compare, compareOfLessAndEq]

theorem ncmp_cast (a b : Nat) : compare a b = compare (a : Int) (b : Int) := by
  rw [icmp_def, ncmp_def]; split <;> split <;> (try split) <;> (try split) <;> first | rfl | omega

theorem icmp_swap (a b : Int) : compare b a = (compare a b).swap := by
  rw [icmp_def, icmp_def]
  split <;> split <;> (try split) <;> (try split) <;> first | rfl | omega

theorem icmp_mul_pos (a b p : Int) (hp : 0 < p) : compare (a * p) (b * p) = compare a b := by
  rw [icmp_def, icmp_def]
  rcases Int.lt_trichotomy a b with h | h | h
  · have := Int.mul_lt_mul_of_pos_right h hp
    simp [h, this]
  · subst h; simp
  · have := Int.mul_lt_mul_of_pos_right h hp
    have h1 : ¬ a < b := by omega
    have h2 : ¬ a = b := by omega
    have h3 : ¬ a * p < b * p := by omega
    have h4 : ¬ a * p = b * p := by omega
    simp [h1, h2, h3, h4]

theorem icmp_ne_gt (a b : Int) : compare a b ≠ .gt ↔ a ≤ b := by
  rw [icmp_def]; split <;> (try split) <;> simp <;> omega
theorem icmp_eq_lt (a b : Int) : compare a b = .lt ↔ a < b := by
  rw [icmp_def]; split <;> (try split) <;> simp <;> omega
theorem icmp_eq_eq (a b : Int) : compare a b = .eq ↔ a = b := by
  rw [icmp_def]; split <;> (try split) <;> simp <;> omega
theorem icmp_eq_gt (a b : Int) : compare a b = .gt ↔ b < a := by
  rw [icmp_def]; split <;> (try split) <;> simp <;> omega

theorem two_pow_pos_int (k : Nat) : (0 : Int) < 2 ^ k := by positivity

namespace ExtVal

/-- Comparing two finite values after scaling both to any common unit `2^k`. -/
theorem cmp_fin_scale (m1 e1 m2 e2 k : Int) (h1 : k ≤ e1) (h2 : k ≤ e2) :
    cmp (fin m1 e1) (fin m2 e2)
      = compare (m1 * 2 ^ (e1 - k).toNat) (m2 * 2 ^ (e2 - k).toNat) := by
  simp only [cmp]
  rcases Int.le_total e1 e2 with h | h
  · have ea : (e1 - e2).toNat = 0 := by omega
    have eb : (e2 - k).toNat = (e2 - e1).toNat + (e1 - k).toNat := by omega
    rw [ea, eb, Int.pow_add, ← Int.mul_assoc, icmp_mul_pos _ _ _ (two_pow_pos_int _)]
    simp
  · have ea : (e2 - e1).toNat = 0 := by omega
    have eb : (e1 - k).toNat = (e1 - e2).toNat + (e2 - k).toNat := by omega
    rw [ea, eb, Int.pow_add, ← Int.mul_assoc, icmp_mul_pos _ _ _ (two_pow_pos_int _)]
    simp

theorem cmp_refl (a : ExtVal) : cmp a a = .eq := by
  cases a <;> simp [cmp]

theorem cmp_swap (a b : ExtVal) : cmp b a = (cmp a b).swap := by
  cases a <;> cases b <;> simp [cmp]
  rw [icmp_swap]

/-- all three pairwise comparisons of finite values, over one common unit -/
theorem cmp_fin3 (m1 e1 m2 e2 m3 e3 : Int) : ∃ x y z : Int,
    cmp (fin m1 e1) (fin m2 e2) = compare x y ∧ cmp (fin m2 e2) (fin m3 e3) = compare y z ∧
    cmp (fin m1 e1) (fin m3 e3) = compare x z := by
  let k := min e1 (min e2 e3)
  have h1 : k ≤ e1 := by omega
  have h2 : k ≤ e2 := by omega
  have h3 : k ≤ e3 := by omega
  exact ⟨_, _, _, cmp_fin_scale _ _ _ _ k h1 h2, cmp_fin_scale _ _ _ _ k h2 h3,
    cmp_fin_scale _ _ _ _ k h1 h3⟩

theorem cmp_trans (a b c : ExtVal) (h1 : cmp a b ≠ .gt) (h2 : cmp b c ≠ .gt) : cmp a c ≠ .gt := by
  cases a <;> cases b <;> cases c <;> first | (simp [cmp] at h1 h2 ⊢; done) | skip
  rename_i m1 e1 m2 e2 m3 e3
  obtain ⟨x, y, z, hxy, hyz, hxz⟩ := cmp_fin3 m1 e1 m2 e2 m3 e3
  rw [hxy, icmp_ne_gt] at h1; rw [hyz, icmp_ne_gt] at h2; rw [hxz, icmp_ne_gt]; omega

theorem cmp_eq_trans (a b c : ExtVal) (h1 : cmp a b = .eq) (h2 : cmp b c = .eq) : cmp a c = .eq := by
  cases a <;> cases b <;> cases c <;> first | (simp [cmp] at h1 h2 ⊢; done) | skip
  rename_i m1 e1 m2 e2 m3 e3
  obtain ⟨x, y, z, hxy, hyz, hxz⟩ := cmp_fin3 m1 e1 m2 e2 m3 e3
  rw [hxy, icmp_eq_eq] at h1; rw [hyz, icmp_eq_eq] at h2; rw [hxz, icmp_eq_eq]; omega

theorem cmp_lt_of_lt_of_le (a b c : ExtVal) (h1 : cmp a b = .lt) (h2 : cmp b c ≠ .gt) :
    cmp a c = .lt := by
  cases a <;> cases b <;> cases c <;> first | (simp [cmp] at h1 h2 ⊢; done) | skip
  rename_i m1 e1 m2 e2 m3 e3
  obtain ⟨x, y, z, hxy, hyz, hxz⟩ := cmp_fin3 m1 e1 m2 e2 m3 e3
  rw [hxy, icmp_eq_lt] at h1; rw [hyz, icmp_ne_gt] at h2; rw [hxz, icmp_eq_lt]; omega

theorem cmp_lt_of_le_of_lt (a b c : ExtVal) (h1 : cmp a b ≠ .gt) (h2 : cmp b c = .lt) :
    cmp a c = .lt := by
  cases a <;> cases b <;> cases c <;> first | (simp [cmp] at h1 h2 ⊢; done) | skip
  rename_i m1 e1 m2 e2 m3 e3
  obtain ⟨x, y, z, hxy, hyz, hxz⟩ := cmp_fin3 m1 e1 m2 e2 m3 e3
  rw [hxy, icmp_ne_gt] at h1; rw [hyz, icmp_eq_lt] at h2; rw [hxz, icmp_eq_lt]; omega

theorem cmp_trans_lt (a b c : ExtVal) (h1 : cmp a b = .lt) (h2 : cmp b c = .lt) : cmp a c = .lt :=
  cmp_lt_of_lt_of_le a b c h1 (by rw [h2]; decide)

theorem cmp_trans_le (a b c : ExtVal) (h1 : cmp a b ≠ .gt) (h2 : cmp b c ≠ .gt) : cmp a c ≠ .gt :=
  cmp_trans a b c h1 h2

end ExtVal
/-! ### Floats: exact value versus the sign/magnitude key -/

namespace F64
def sig (b : Nat) : Nat := if expField b = 0 then mantField b else mantField b + 4503599627370496
def ex (b : Nat) : Nat := if expField b = 0 then 1 else expField b
def M (b : Nat) : Nat := sig b * 2 ^ (ex b - 1)
def mag (b : Nat) : Nat := b % 9223372036854775808

theorem mag_eq (b : Nat) : mag b = expField b * 4503599627370496 + mantField b := by
  unfold mag expField mantField; omega
theorem mantField_lt (b : Nat) : mantField b < 4503599627370496 := by unfold mantField; omega
theorem expField_lt (b : Nat) : expField b < 2048 := by unfold expField; omega

theorem M_core (ea ma eb mb : Nat) (hma : ma < 4503599627370496) (hmb : mb < 4503599627370496)
    (h : ea * 4503599627370496 + ma < eb * 4503599627370496 + mb) :
    (if ea = 0 then ma else ma + 4503599627370496) * 2 ^ ((if ea = 0 then 1 else ea) - 1)
    < (if eb = 0 then mb else mb + 4503599627370496) * 2 ^ ((if eb = 0 then 1 else eb) - 1) := by
  by_cases h0 : ea = eb
  · subst h0
    have hlt : ma < mb := by omega
    split
    · exact Nat.mul_lt_mul_of_pos_right hlt (Nat.pow_pos (by decide))
    · exact Nat.mul_lt_mul_of_pos_right (by omega) (Nat.pow_pos (by decide))
  · have hlt : ea < eb := by omega
    have hb0 : eb ≠ 0 := by omega
    simp only [hb0, if_false]
    have hq : 2 ^ ((if ea = 0 then 1 else ea) - 1) * 2 ≤ 2 ^ (eb - 1) ∨ ea = 0 := by
      by_cases ha0 : ea = 0
      · right; exact ha0
      · left
        simp only [ha0, if_false]
        rw [← Nat.pow_succ]
        exact Nat.pow_le_pow_right (by decide) (by omega)
    rcases hq with hq | ha0
    · have h1 : (if ea = 0 then ma else ma + 4503599627370496) < 4503599627370496 * 2 := by
        split <;> omega
      calc _ < (4503599627370496 * 2) * 2 ^ ((if ea = 0 then 1 else ea) - 1) :=
              Nat.mul_lt_mul_of_pos_right h1 (Nat.pow_pos (by decide))
        _ = 4503599627370496 * (2 ^ ((if ea = 0 then 1 else ea) - 1) * 2) := by
              rw [Nat.mul_assoc, Nat.mul_comm 2]
        _ ≤ 4503599627370496 * 2 ^ (eb - 1) := Nat.mul_le_mul_left _ hq
        _ ≤ (mb + 4503599627370496) * 2 ^ (eb - 1) := Nat.mul_le_mul_right _ (by omega)
    · subst ha0
      simp only [if_true, Nat.sub_self, Nat.pow_zero, Nat.mul_one]
      calc ma < 4503599627370496 * 1 := by omega
        _ ≤ 4503599627370496 * 2 ^ (eb - 1) := Nat.mul_le_mul_left _ (Nat.pow_pos (by decide))
        _ ≤ (mb + 4503599627370496) * 2 ^ (eb - 1) := Nat.mul_le_mul_right _ (by omega)

theorem M_lt_of_mag_lt (a b : Nat) (h : mag a < mag b) : M a < M b := by
  rw [mag_eq, mag_eq] at h
  exact M_core _ _ _ _ (mantField_lt a) (mantField_lt b) h

theorem M_eq_of_mag_eq (a b : Nat) (h : mag a = mag b) : M a = M b := by
  rw [mag_eq, mag_eq] at h
  have := mantField_lt a; have := mantField_lt b
  have h1 : expField a = expField b := by omega
  have h2 : mantField a = mantField b := by omega
  unfold M sig ex; rw [h1, h2]

theorem M_lt_iff (a b : Nat) : M a < M b ↔ mag a < mag b := by
  constructor
  · intro h
    rcases Nat.lt_trichotomy (mag a) (mag b) with h1 | h1 | h1
    · exact h1
    · have := M_eq_of_mag_eq a b h1; omega
    · have := M_lt_of_mag_lt b a h1; omega
  · exact M_lt_of_mag_lt a b

theorem M_eq_iff (a b : Nat) : M a = M b ↔ mag a = mag b := by
  constructor
  · intro h
    rcases Nat.lt_trichotomy (mag a) (mag b) with h1 | h1 | h1
    · have := M_lt_of_mag_lt a b h1; omega
    · exact h1
    · have := M_lt_of_mag_lt b a h1; omega
  · exact M_eq_of_mag_eq a b

theorem M_eq_zero_iff (a : Nat) : M a = 0 ↔ mag a = 0 := by
  have h0 : M 0 = 0 := by decide
  have hm : mag 0 = 0 := by decide
  have := M_eq_iff a 0
  rw [h0, hm] at this; exact this

/-- signed integer -/
def sgn (s : Bool) (n : Nat) : Int := if s then -(n : Int) else (n : Int)

theorem key_eq (b : Nat) : key b = sgn (signBit b) (mag b) := rfl

theorem isNaN_iff (b : Nat) : isNaN b = true ↔ expField b = 2047 ∧ mantField b ≠ 0 := by
  simp [isNaN]

theorem val_nan (b : Nat) (h : isNaN b = true) : val b = .nan := by simp [val, h]

theorem val_inf (b : Nat) (h : isNaN b = false) (he : expField b = 2047) :
    val b = (if signBit b then .negInf else .posInf) := by simp [val, h, he]

theorem val_fin (b : Nat) (he : expField b ≠ 2047) :
    val b = .fin (sgn (signBit b) (sig b)) ((ex b : Int) - 1075) := by
  have hn : isNaN b = false := by simp [isNaN, he]
  simp only [val, hn, he, sgn, sig, ex]
  by_cases h0 : expField b = 0
  · simp [h0]
  · simp [h0]

theorem cmp_val_fin (a b : Nat) (ha : expField a ≠ 2047) (hb : expField b ≠ 2047) :
    ExtVal.cmp (val a) (val b) = compare (sgn (signBit a) (M a)) (sgn (signBit b) (M b)) := by
  rw [val_fin a ha, val_fin b hb]
  have ha1 : 1 ≤ ex a := by unfold ex; split <;> omega
  have hb1 : 1 ≤ ex b := by unfold ex; split <;> omega
  rw [ExtVal.cmp_fin_scale _ _ _ _ (-1074) (by omega) (by omega)]
  have e1 : ((ex a : Int) - 1075 - -1074).toNat = ex a - 1 := by omega
  have e2 : ((ex b : Int) - 1075 - -1074).toNat = ex b - 1 := by omega
  rw [e1, e2]
  congr 1
  · unfold sgn M; split <;> simp
  · unfold sgn M; split <;> simp

theorem cmpOF_nonNaN (a b : Nat) (ha : isNaN a = false) (hb : isNaN b = false) :
    cmpOF a b = compare (key a) (key b) := by
  simp only [cmpOF, geOF, ge, ha, hb, icmp_def]
  by_cases h1 : key a < key b
  · have : ¬ key b ≤ key a := by omega
    simp [h1, this]
  · by_cases h2 : key a = key b
    · simp [h2]
    · have h3 : key b ≤ key a := by omega
      have h4 : ¬ key a ≤ key b := by omega
      simp [h1, h2, h3, h4]

theorem cmpOF_spec (a b : Nat) : cmpOF a b = ExtVal.cmp (val a) (val b) := by
  have hvn : ∀ x, isNaN x = false → val x ≠ .nan := by
    intro x hx
    by_cases he : expField x = 2047
    · rw [val_inf x hx he]; split <;> simp
    · rw [val_fin x he]; simp
  cases ha : isNaN a <;> cases hb : isNaN b
  · -- neither is NaN
    rw [cmpOF_nonNaN a b ha hb, key_eq, key_eq]
    have hA := mag_eq a; have hB := mag_eq b
    have := mantField_lt a; have := mantField_lt b
    have := expField_lt a; have := expField_lt b
    have hna : ¬ (expField a = 2047 ∧ mantField a ≠ 0) := by rw [← isNaN_iff]; simp [ha]
    have hnb : ¬ (expField b = 2047 ∧ mantField b ≠ 0) := by rw [← isNaN_iff]; simp [hb]
    by_cases hea : expField a = 2047 <;> by_cases heb : expField b = 2047
    · rw [val_inf a ha hea, val_inf b hb heb, icmp_def]; unfold sgn
      cases signBit a <;> cases signBit b <;>
        simp only [ExtVal.cmp, if_true, if_false, Bool.false_eq_true] <;>
        split <;> (try split) <;> first | rfl | omega
    · rw [val_inf a ha hea, val_fin b heb, icmp_def]; unfold sgn
      cases signBit a <;> cases signBit b <;>
        simp only [ExtVal.cmp, if_true, if_false, Bool.false_eq_true] <;>
        split <;> (try split) <;> first | rfl | omega
    · rw [val_fin a hea, val_inf b hb heb, icmp_def]; unfold sgn
      cases signBit a <;> cases signBit b <;>
        simp only [ExtVal.cmp, if_true, if_false, Bool.false_eq_true] <;>
        split <;> (try split) <;> first | rfl | omega
    · rw [cmp_val_fin a b hea heb, icmp_def, icmp_def]
      have h1 := M_lt_iff a b; have h2 := M_lt_iff b a; have h3 := M_eq_iff a b
      have h4 := M_eq_zero_iff a; have h5 := M_eq_zero_iff b
      unfold sgn
      cases signBit a <;> cases signBit b <;> simp only [if_true, if_false, Bool.false_eq_true] <;>
        split <;> split <;> (try split) <;> (try split) <;> first | rfl | omega
  · simp [cmpOF, geOF, ge, ha, hb, val_nan b hb]
    have := hvn a ha
    cases hv : val a <;> simp_all [ExtVal.cmp]
  · simp [cmpOF, geOF, ge, ha, hb, val_nan a ha]
    have := hvn b hb
    cases hv : val b <;> simp_all [ExtVal.cmp]
  · simp [cmpOF, geOF, ha, hb, val_nan a ha, val_nan b hb, ExtVal.cmp]

end F64

/-! ### `cmp_int_float` -/

namespace Num
open F64

/-- the part of `cmp_int_float` after the `(mantissa, exp2)` decomposition -/
def cif (i : Int) (negative : Bool) (mantissa : Nat) (exp2 : Int) : Ordering :=
  let ph : Int × Bool :=
    if mantissa == 0 then (0, false)
    else if exp2 ≥ 12 then (i128Max, false)
    else if exp2 ≥ 0 then ((mantissa : Int) * 2 ^ exp2.toNat, false)
    else if exp2 > -64 then
      (((mantissa / 2 ^ (-exp2).toNat : Nat) : Int), mantissa % 2 ^ (-exp2).toNat != 0)
    else (0, true)
  let truncated : Int := if negative then -ph.1 else ph.1
  match compare i truncated with
  | .eq => if ph.2 then (if negative then .gt else .lt) else .eq
  | order => order

theorem cmpIntFloat_eq_cif (i : Int) (b : Nat) (hb : b < 18446744073709551616)
    (hn : isNaN b = false) :
    cmpIntFloat i b = cif i (signBit b) (sig b) ((ex b : Int) - 1075) := by
  have hs : (b / 9223372036854775808 == 1) = signBit b := by
    unfold signBit
    have : b / 9223372036854775808 % 2 = b / 9223372036854775808 := by omega
    rw [this]
  have hor : b % 4503599627370496 ||| 4503599627370496 = b % 4503599627370496 + 4503599627370496 := by
    have h := Nat.two_pow_add_eq_or_of_lt (i := 52) (b := b % 4503599627370496) (by omega) 1
    simp only [Nat.reducePow, Nat.mul_one] at h
    rw [Nat.or_comm, ← h, Nat.add_comm]
  have hme : (if ((b / 4503599627370496 % 2048 : Nat) : Int) == 0 then (b % 4503599627370496, (-1074 : Int))
      else (b % 4503599627370496 ||| 4503599627370496, ((b / 4503599627370496 % 2048 : Nat) : Int) - 1075))
      = (sig b, (ex b : Int) - 1075) := by
    unfold sig ex expField mantField
    by_cases h0 : b / 4503599627370496 % 2048 = 0
    · simp [h0]
    · have h0' : ¬ ((b / 4503599627370496 % 2048 : Nat) : Int) = 0 := by omega
      simp [h0, hor]; omega
  unfold cmpIntFloat cif
  simp only [hn, hs, hme]
  rfl

theorem cmp_divmod_pos (i q r P : Int) (hP : 0 < P) (hr0 : 0 ≤ r) (hr : r < P) :
    compare (i * P) (q * P + r)
      = (match compare i q with
         | .eq => if r ≠ 0 then .lt else .eq
         | o => o) := by
  rcases Int.lt_trichotomy i q with h | h | h
  · have h1 : i * P < q * P + r := by nlinarith
    rw [(icmp_eq_lt _ _).2 h1, (icmp_eq_lt _ _).2 h]
  · subst h
    rw [(icmp_eq_eq i i).2 rfl]
    by_cases h0 : r = 0
    · simp [h0]
    · have h1 : i * P < i * P + r := by omega
      simp [h0, (icmp_eq_lt _ _).2 h1]
  · have h1 : q * P + r < i * P := by nlinarith
    rw [(icmp_eq_gt _ _).2 h1, (icmp_eq_gt _ _).2 h]

theorem cmp_divmod_neg (i q r P : Int) (hP : 0 < P) (hr0 : 0 ≤ r) (hr : r < P) :
    compare (i * P) (-(q * P + r))
      = (match compare i (-q) with
         | .eq => if r ≠ 0 then .gt else .eq
         | o => o) := by
  rcases Int.lt_trichotomy i (-q) with h | h | h
  · have h1 : i * P < -(q * P + r) := by nlinarith
    rw [(icmp_eq_lt _ _).2 h1, (icmp_eq_lt _ _).2 h]
  · subst h
    rw [(icmp_eq_eq (-q) (-q)).2 rfl]
    by_cases h0 : r = 0
    · simp [h0]
    · have h1 : -(q * P + r) < -q * P := by
        have : -q * P = -(q * P) := Int.neg_mul q P
        omega
      rw [(icmp_eq_gt _ _).2 h1]; simp [h0]
  · have h1 : -(q * P + r) < i * P := by nlinarith
    rw [(icmp_eq_gt _ _).2 h1, (icmp_eq_gt _ _).2 h]

theorem cif_spec (i : Int) (neg : Bool) (mant : Nat) (e2 : Int)
    (hi1 : -18446744073709551616 < i) (hi2 : i < 18446744073709551616)
    (hm : mant < 9007199254740992) (hbig : 12 ≤ e2 → 4503599627370496 ≤ mant) :
    cif i neg mant e2 = ExtVal.cmp (.fin i 0) (.fin (sgn neg mant) e2) := by
  simp only [ExtVal.cmp, Int.zero_sub, Int.sub_zero]
  unfold cif
  by_cases h0 : mant = 0
  · subst h0
    have : sgn neg 0 = 0 := by unfold sgn; split <;> rfl
    rw [this, Int.zero_mul]
    have h2 : compare (i * 2 ^ (-e2).toNat) 0 = compare i 0 := by
      have := icmp_mul_pos i 0 _ (two_pow_pos_int (-e2).toNat)
      rwa [Int.zero_mul] at this
    rw [h2]
    cases neg <;> simp <;> split <;> simp_all
  · have hmpos : 0 < mant := Nat.pos_of_ne_zero h0
    have hbeq : (mant == 0) = false := by simp [h0]
    simp only [hbeq, Bool.false_eq_true, if_false]
    by_cases h12 : e2 ≥ 12
    · -- saturated: |f| ≥ 2^64
      simp only [h12, if_true]
      have hk : (-e2).toNat = 0 := by omega
      rw [hk, Int.pow_zero, Int.mul_one]
      have hp : (2 : Int) ^ 12 ≤ 2 ^ e2.toNat := by
        have : 2 ^ 12 ≤ 2 ^ e2.toNat := Nat.pow_le_pow_right (by decide) (by omega)
        exact_mod_cast this
      have hbig' := hbig h12
      have hge : (18446744073709551616 : Int) ≤ (mant : Int) * 2 ^ e2.toNat := by
        have : (4503599627370496 : Int) ≤ (mant : Int) := by omega
        nlinarith
      cases neg
      · have h1 : i < sgn false mant * 2 ^ e2.toNat := by simp only [sgn]; simp; omega
        have h2 : i < i128Max := by unfold i128Max; omega
        simp [(icmp_eq_lt _ _).2 h1, (icmp_eq_lt _ _).2 h2]
      · have h1 : sgn true mant * 2 ^ e2.toNat < i := by
          simp only [sgn, if_true]; rw [Int.neg_mul]; omega
        have h2 : -i128Max < i := by unfold i128Max; omega
        simp [(icmp_eq_gt _ _).2 h1, (icmp_eq_gt _ _).2 h2]
    · simp only [h12, if_false]
      by_cases hnn : e2 ≥ 0
      · simp only [hnn, if_true]
        have hk : (-e2).toNat = 0 := by omega
        rw [hk, Int.pow_zero, Int.mul_one]
        cases neg
        · simp [sgn]; split <;> simp_all
        · simp only [sgn, if_true, Int.neg_mul]; simp; split <;> simp_all
      · simp only [hnn, if_false]
        have hk : e2.toNat = 0 := by omega
        rw [hk, Int.pow_zero, Int.mul_one]
        generalize hkk : (-e2).toNat = k
        by_cases h64 : e2 > -64
        · simp only [h64, if_true]
          have hP : (0 : Int) < 2 ^ k := two_pow_pos_int k
          have hdm : (mant : Int) = ((mant / 2 ^ k : Nat) : Int) * 2 ^ k + ((mant % 2 ^ k : Nat) : Int) := by
            have := Nat.div_add_mod mant (2 ^ k)
            rw [Nat.mul_comm] at this
            exact_mod_cast this.symm
          have hr : ((mant % 2 ^ k : Nat) : Int) < 2 ^ k := by
            have : mant % 2 ^ k < 2 ^ k := Nat.mod_lt _ (Nat.pow_pos (by decide))
            exact_mod_cast this
          have hr0 : (0 : Int) ≤ ((mant % 2 ^ k : Nat) : Int) := Int.natCast_nonneg _
          generalize mant % 2 ^ k = r at hdm hr hr0 ⊢
          cases neg
          · simp only [sgn, Bool.false_eq_true, if_false]
            rw [hdm, cmp_divmod_pos _ _ _ _ hP hr0 hr]
            split <;> simp
          · simp only [sgn, if_true]
            rw [hdm, cmp_divmod_neg _ _ _ _ hP hr0 hr]
            split <;> simp
        · simp only [h64, if_false]
          have hP : (2 : Int) ^ 64 ≤ 2 ^ k := by
            have : 2 ^ 64 ≤ 2 ^ k := Nat.pow_le_pow_right (by decide) (by omega)
            exact_mod_cast this
          rcases Int.lt_trichotomy i 0 with h | h | h
          · have h1 : i * 2 ^ k < sgn neg mant := by
              have : i * 2 ^ k ≤ -1 * 2 ^ k := by nlinarith
              unfold sgn; split <;> omega
            have h2 : compare i (if neg = true then -0 else 0) = .lt := by
              rw [icmp_eq_lt]; split <;> omega
            rw [(icmp_eq_lt _ _).2 h1, h2]
          · subst h
            cases neg
            · have h1 : (0 : Int) < sgn false mant := by unfold sgn; simp; omega
              rw [Int.zero_mul, (icmp_eq_lt _ _).2 h1]; simp
            · have h1 : sgn true mant < (0 : Int) := by unfold sgn; simp; omega
              rw [Int.zero_mul, (icmp_eq_gt _ _).2 h1]; simp
          · have h1 : sgn neg mant < i * 2 ^ k := by
              have : 1 * 2 ^ k ≤ i * 2 ^ k := by nlinarith
              unfold sgn; split <;> omega
            have h2 : compare i (if neg = true then -0 else 0) = .gt := by
              rw [icmp_eq_gt]; split <;> omega
            rw [(icmp_eq_gt _ _).2 h1, h2]
end Num

/-! ### The main theorem and the order laws -/

namespace Num
open F64

theorem cif_inf (i : Int) (neg : Bool)
    (hi1 : -18446744073709551616 < i) (hi2 : i < 18446744073709551616) :
    cif i neg 4503599627370496 972 = if neg then .gt else .lt := by
  cases neg
  · have h2 : i < i128Max := by unfold i128Max; omega
    simp [cif, (icmp_eq_lt _ _).2 h2]
  · have h2 : -i128Max < i := by unfold i128Max; omega
    simp [cif, (icmp_eq_gt _ _).2 h2]

theorem cmpIntFloat_spec (i : Int) (b : Nat)
    (hi1 : -18446744073709551616 < i) (hi2 : i < 18446744073709551616)
    (hb : b < 18446744073709551616) :
    cmpIntFloat i b = ExtVal.cmp (.fin i 0) (F64.val b) := by
  cases hn : isNaN b
  · rw [cmpIntFloat_eq_cif i b hb hn]
    have hml := mantField_lt b
    have hel := expField_lt b
    by_cases he : expField b = 2047
    · have hm0 : mantField b = 0 := by
        have : ¬ (expField b = 2047 ∧ mantField b ≠ 0) := by rw [← isNaN_iff]; simp [hn]
        by_cases h : mantField b = 0
        · exact h
        · exact absurd ⟨he, h⟩ this
      have hs : sig b = 4503599627370496 := by simp [sig, he, hm0]
      have hx : ((ex b : Nat) : Int) - 1075 = 972 := by simp [ex, he]
      rw [hs, hx, cif_inf i _ hi1 hi2, val_inf b hn he]
      cases signBit b <;> simp [ExtVal.cmp]
    · rw [val_fin b he]
      apply cif_spec i _ _ _ hi1 hi2
      · unfold sig; split <;> omega
      · unfold sig ex; split <;> omega
  · simp [cmpIntFloat, hn, val_nan b hn, ExtVal.cmp]

/-- **Main theorem**: the implementation order is the order of exact values. -/
theorem cmp_eq_spec (a b : Num) (ha : a.WF) (hb : b.WF) :
    Num.cmp a b = ExtVal.cmp (Num.val a) (Num.val b) := by
  cases a <;> cases b <;> simp only [WF] at ha hb <;> simp only [Num.cmp, Num.val]
  · simp [ExtVal.cmp]
  · rename_i l r
    simp only [ExtVal.cmp, Int.sub_self, Int.toNat_zero, Int.pow_zero, Int.mul_one]
    by_cases h : l < 0
    · have : l < (r : Int) := by omega
      simp [h, (icmp_eq_lt _ _).2 this]
    · simp only [h, if_false]
      rw [ncmp_cast]; congr 1; omega
  · exact cmpIntFloat_spec _ _ (by omega) (by omega) hb
  · rename_i l r
    simp only [ExtVal.cmp, Int.sub_self, Int.toNat_zero, Int.pow_zero, Int.mul_one]
    by_cases h : r < 0
    · have : r < (l : Int) := by omega
      simp [h, (icmp_eq_gt _ _).2 this]
    · simp only [h, if_false]
      rw [ncmp_cast]; congr 1; omega
  · simp [ExtVal.cmp, ncmp_cast]
  · exact cmpIntFloat_spec _ _ (by omega) (by omega) hb
  · rw [cmpIntFloat_spec _ _ (by omega) (by omega) ha, ← ExtVal.cmp_swap]
  · rw [cmpIntFloat_spec _ _ (by omega) (by omega) ha, ← ExtVal.cmp_swap]
  · exact cmpOF_spec _ _

theorem cmp_refl (a : Num) (ha : a.WF) : Num.cmp a a = .eq := by
  rw [cmp_eq_spec a a ha ha, ExtVal.cmp_refl]

theorem cmp_antisymm (a b : Num) (ha : a.WF) (hb : b.WF) : Num.cmp b a = (Num.cmp a b).swap := by
  rw [cmp_eq_spec b a hb ha, cmp_eq_spec a b ha hb, ExtVal.cmp_swap]

theorem cmp_trans (a b c : Num) (ha : a.WF) (hb : b.WF) (hc : c.WF)
    (h1 : Num.cmp a b ≠ .gt) (h2 : Num.cmp b c ≠ .gt) : Num.cmp a c ≠ .gt := by
  rw [cmp_eq_spec _ _ ha hb] at h1; rw [cmp_eq_spec _ _ hb hc] at h2; rw [cmp_eq_spec _ _ ha hc]
  exact ExtVal.cmp_trans _ _ _ h1 h2

theorem cmp_lt_trans (a b c : Num) (ha : a.WF) (hb : b.WF) (hc : c.WF)
    (h1 : Num.cmp a b = .lt) (h2 : Num.cmp b c = .lt) : Num.cmp a c = .lt := by
  rw [cmp_eq_spec _ _ ha hb] at h1; rw [cmp_eq_spec _ _ hb hc] at h2; rw [cmp_eq_spec _ _ ha hc]
  exact ExtVal.cmp_trans_lt _ _ _ h1 h2

theorem cmp_eq_trans (a b c : Num) (ha : a.WF) (hb : b.WF) (hc : c.WF)
    (h1 : Num.cmp a b = .eq) (h2 : Num.cmp b c = .eq) : Num.cmp a c = .eq := by
  rw [cmp_eq_spec _ _ ha hb] at h1; rw [cmp_eq_spec _ _ hb hc] at h2; rw [cmp_eq_spec _ _ ha hc]
  exact ExtVal.cmp_eq_trans _ _ _ h1 h2

/-! ### Equality characterisations -/

theorem cmp_int_uint_eq_iff (i : Int) (n : Nat) : Num.cmp (.int i) (.uint n) = .eq ↔ i = n := by
  simp only [Num.cmp]
  by_cases h : i < 0
  · simp [h]; omega
  · simp only [h, if_false]; rw [ncmp_cast, icmp_eq_eq]; omega

theorem cmp_uint_int_eq_iff (n : Nat) (i : Int) : Num.cmp (.uint n) (.int i) = .eq ↔ i = n := by
  simp only [Num.cmp]
  by_cases h : i < 0
  · simp [h]; omega
  · simp only [h, if_false]; rw [ncmp_cast, icmp_eq_eq]; omega

end Num

theorem ExtVal.cmp_int_eq_iff (i : Int) (v : ExtVal) :
    ExtVal.cmp (.fin i 0) v = .eq ↔ v.isInt i := by
  cases v <;> simp [ExtVal.cmp, ExtVal.isInt]
  exact eq_comm

namespace Num
open F64

/-- an `Int64` equals a `Float64` exactly when the float's exact value is that integer -/
theorem cmp_int_float_eq_iff (i : Int) (b : Nat) (hi : (Num.int i).WF) (hb : (Num.float b).WF) :
    Num.cmp (.int i) (.float b) = .eq ↔ (F64.val b).isInt i := by
  rw [cmp_eq_spec _ _ hi hb]; exact ExtVal.cmp_int_eq_iff i _

theorem cmp_uint_float_eq_iff (n : Nat) (b : Nat) (hn : (Num.uint n).WF) (hb : (Num.float b).WF) :
    Num.cmp (.uint n) (.float b) = .eq ↔ (F64.val b).isInt n := by
  rw [cmp_eq_spec _ _ hn hb]; exact ExtVal.cmp_int_eq_iff n _

/-- NaN is the greatest number: nothing compares greater than it ... -/
theorem cmp_nan_greatest (a : Num) (b : Nat) (ha : a.WF) (hb : (Num.float b).WF)
    (hn : F64.isNaN b = true) : Num.cmp a (.float b) ≠ .gt := by
  rw [cmp_eq_spec _ _ ha hb]
  show ExtVal.cmp (Num.val a) (F64.val b) ≠ .gt
  rw [val_nan b hn]
  generalize Num.val a = v
  cases v <;> simp [ExtVal.cmp]

/-- ... every non-NaN number is strictly below it ... -/
theorem cmp_nan_lt (a : Num) (b : Nat) (ha : a.WF) (hb : (Num.float b).WF)
    (hn : F64.isNaN b = true) (hna : Num.val a ≠ .nan) : Num.cmp a (.float b) = .lt := by
  rw [cmp_eq_spec _ _ ha hb]
  show ExtVal.cmp (Num.val a) (F64.val b) = .lt
  rw [val_nan b hn]
  generalize Num.val a = v at hna
  cases v <;> simp_all [ExtVal.cmp]

/-- ... and all NaN payloads are equal to each other. -/
theorem cmp_nan_nan (a b : Nat) (ha : F64.isNaN a = true) (hb : F64.isNaN b = true) :
    Num.cmp (.float a) (.float b) = .eq := by
  simp only [Num.cmp, cmpOF_spec, val_nan a ha, val_nan b hb, ExtVal.cmp]

theorem val_ne_nan_of_int (i : Int) : Num.val (.int i) ≠ .nan := by simp [Num.val]
theorem val_ne_nan_of_uint (n : Nat) : Num.val (.uint n) ≠ .nan := by simp [Num.val]

/-! ### Non-vacuity: concrete instances (kernel-evaluated) -/

-- the old defect: 2^53+1 (as u64) and 2^53 (as f64) were equal under `as f64` comparison
example : Num.cmp (.uint 9007199254740993) (.float 0x4340000000000000) = .gt := by decide
example : Num.cmp (.uint 9007199254740992) (.float 0x4340000000000000) = .eq := by decide
example : Num.cmp (.float 0x4340000000000000) (.uint 9007199254740993) = .lt := by decide
example : Num.asF64 (.uint 9007199254740993) = 0x4340000000000000 := by decide
-- i64::MAX vs 2^63 as float; u64::MAX vs 2^64 as float
example : Num.cmp (.int 9223372036854775807) (.float 0x43e0000000000000) = .lt := by decide
example : Num.cmp (.uint 9223372036854775808) (.float 0x43e0000000000000) = .eq := by decide
example : Num.cmp (.uint 18446744073709551615) (.float 0x43f0000000000000) = .lt := by decide
example : Num.cmp (.int (-9223372036854775808)) (.float 0xc3e0000000000000) = .eq := by decide
-- fractions, zeros, infinities, NaN
example : Num.cmp (.int 1) (.float 0x3ff8000000000000) = .lt := by decide          -- 1 < 1.5
example : Num.cmp (.int (-1)) (.float 0xbff8000000000000) = .gt := by decide       -- -1 > -1.5
example : Num.cmp (.int 0) (.float 0x8000000000000000) = .eq := by decide          -- 0 = -0.0
example : Num.cmp (.float 0) (.float 0x8000000000000000) = .eq := by decide        -- +0.0 = -0.0
example : Num.cmp (.int 0) (.float 1) = .lt := by decide                           -- 0 < 2^-1074
example : Num.cmp (.uint 18446744073709551615) (.float F64.posInf) = .lt := by decide
example : Num.cmp (.int (-9223372036854775808)) (.float F64.negInf) = .gt := by decide
example : Num.cmp (.float F64.posInf) (.float F64.canonNaN) = .lt := by decide
example : Num.cmp (.float 0xfff8000000000001) (.float F64.canonNaN) = .eq := by decide
example : Num.cmp (.int (-1)) (.uint 18446744073709551615) = .lt := by decide
example : F64.val 0x4340000000000000 = .fin 4503599627370496 1 := by decide
example : (F64.val 0x4340000000000000).isInt 9007199254740992 := by decide
example : Num.asF64 (.int (-9223372036854775807)) = 0xc3e0000000000000 := by decide
example : Num.asF64 (.uint 18446744073709551615) = 0x43f0000000000000 := by decide
example : Num.asF64 (.uint 9007199254740995) = 0x4340000000000002 := by decide     -- tie rounds to even (up)

end Num

/-! ### `as f64`: round-to-nearest-even conversion (stretch) -/

namespace F64

/-- the rounded 53-bit significand of `n ≠ 0` (a carry gives exactly `2^53`) -/
def rsig (n : Nat) : Nat :=
  if Nat.log2 n ≤ 52 then n * 2 ^ (52 - Nat.log2 n)
  else if n % 2 ^ (Nat.log2 n - 52) > 2 ^ (Nat.log2 n - 52 - 1) ∨
      (n % 2 ^ (Nat.log2 n - 52) = 2 ^ (Nat.log2 n - 52 - 1) ∧ n / 2 ^ (Nat.log2 n - 52) % 2 = 1)
    then n / 2 ^ (Nat.log2 n - 52) + 1 else n / 2 ^ (Nat.log2 n - 52)

theorem ofNatRNE_eq (n : Nat) (hn : n ≠ 0) :
    ofNatRNE n = (Nat.log2 n + 1022) * 4503599627370496 + rsig n := by
  unfold ofNatRNE rsig; simp only [hn, if_false]; split <;> rfl

theorem log2_lt_64 (n : Nat) (hn : n ≠ 0) (h : n < 18446744073709551616) : Nat.log2 n < 64 :=
  (Nat.log2_lt hn).2 h

theorem log2_mono (n m : Nat) (hn : n ≠ 0) (h : n ≤ m) : Nat.log2 n ≤ Nat.log2 m := by
  have hm : m ≠ 0 := by omega
  by_cases hc : Nat.log2 m < Nat.log2 n
  · have h1 := (Nat.log2_lt hm).1 hc
    have h2 := Nat.log2_self_le hn
    omega
  · omega

/-- quotient bounds for the dropped-bits case -/
theorem q_bounds (n : Nat) (hn : n ≠ 0) (hl : 52 < Nat.log2 n) :
    4503599627370496 ≤ n / 2 ^ (Nat.log2 n - 52) ∧ n / 2 ^ (Nat.log2 n - 52) < 9007199254740992 := by
  have h1 := Nat.log2_self_le hn
  have h2 := @Nat.lt_log2_self n
  have hp : 0 < 2 ^ (Nat.log2 n - 52) := Nat.pow_pos (by decide)
  have e1 : 2 ^ Nat.log2 n = 4503599627370496 * 2 ^ (Nat.log2 n - 52) := by
    rw [show (4503599627370496 : Nat) = 2 ^ 52 by rfl, ← Nat.pow_add]; congr 1; omega
  have e2 : 2 ^ (Nat.log2 n + 1) = 9007199254740992 * 2 ^ (Nat.log2 n - 52) := by
    rw [show (9007199254740992 : Nat) = 2 ^ 53 by rfl, ← Nat.pow_add]; congr 1; omega
  constructor
  · rw [Nat.le_div_iff_mul_le hp, ← e1]; exact h1
  · rw [Nat.div_lt_iff_lt_mul hp, ← e2]; exact h2

theorem rsig_bounds (n : Nat) (hn : n ≠ 0) :
    4503599627370496 ≤ rsig n ∧ rsig n ≤ 9007199254740992 := by
  unfold rsig
  by_cases hl : Nat.log2 n ≤ 52
  · simp only [hl, if_true]
    have h1 := Nat.log2_self_le hn
    have h2 := @Nat.lt_log2_self n
    have hp : 0 < 2 ^ (52 - Nat.log2 n) := Nat.pow_pos (by decide)
    have e1 : 2 ^ Nat.log2 n * 2 ^ (52 - Nat.log2 n) = 4503599627370496 := by
      rw [← Nat.pow_add, show (4503599627370496 : Nat) = 2 ^ 52 by rfl]; congr 1; omega
    have e2 : 2 ^ (Nat.log2 n + 1) * 2 ^ (52 - Nat.log2 n) = 9007199254740992 := by
      rw [← Nat.pow_add, show (9007199254740992 : Nat) = 2 ^ 53 by rfl]; congr 1; omega
    constructor
    · rw [← e1]; exact Nat.mul_le_mul_right _ h1
    · rw [← e2]; exact Nat.le_of_lt (Nat.mul_lt_mul_of_pos_right h2 hp)
  · simp only [hl, if_false]
    have := q_bounds n hn (by omega)
    split <;> omega

/-- below 2^53 the significand is just `n` shifted: no rounding -/
theorem rsig_lt_of_small (n : Nat) (hl : Nat.log2 n ≤ 52) :
    rsig n < 9007199254740992 := by
  unfold rsig
  simp only [hl, if_true]
  have h2 := @Nat.lt_log2_self n
  have hp : 0 < 2 ^ (52 - Nat.log2 n) := Nat.pow_pos (by decide)
  have e2 : 2 ^ (Nat.log2 n + 1) * 2 ^ (52 - Nat.log2 n) = 9007199254740992 := by
    rw [← Nat.pow_add, show (9007199254740992 : Nat) = 2 ^ 53 by rfl]; congr 1; omega
  rw [← e2]; exact Nat.mul_lt_mul_of_pos_right h2 hp

/-- The integer that `n as f64` denotes. -/
def rval (n : Nat) : Nat :=
  if Nat.log2 n ≤ 52 then n else rsig n * 2 ^ (Nat.log2 n - 52)

/-- `n as f64` is a finite float whose exact value is the integer `rval n`. -/
theorem ofNatRNE_isInt (n : Nat) (hn : n < 18446744073709551616) :
    (val (ofNatRNE n)).isInt (rval n) := by
  by_cases h0 : n = 0
  · subst h0
    have h1 : ofNatRNE 0 = 0 := rfl
    have h2 : val 0 = .fin 0 (-1074) := by decide
    have h3 : rval 0 = 0 := by decide
    rw [h1, h2, h3]
    show (0 : Int) * 2 ^ (-1074 : Int).toNat = ((0 : Nat) : Int) * 2 ^ (-(-1074 : Int)).toNat
    rw [Int.zero_mul]; exact (Int.zero_mul _).symm
  have hl := log2_lt_64 n h0 hn
  have hb := rsig_bounds n h0
  rw [ofNatRNE_eq n h0]
  generalize hQ : rsig n = Q at hb
  generalize hL : Nat.log2 n = l at hl
  by_cases hc : Q < 9007199254740992
  · -- no carry
    have he : expField ((l + 1022) * 4503599627370496 + Q) = l + 1023 := by unfold expField; omega
    have hm : mantField ((l + 1022) * 4503599627370496 + Q) = Q - 4503599627370496 := by
      unfold mantField; omega
    have hs : signBit ((l + 1022) * 4503599627370496 + Q) = false := by
      unfold signBit
      have : ((l + 1022) * 4503599627370496 + Q) / 9223372036854775808 % 2 = 0 := by omega
      simp [this]
    rw [val_fin _ (by omega)]
    simp only [hs, sgn, sig, ex, he, hm, Bool.false_eq_true, if_false]
    have hne : ¬ l + 1023 = 0 := by omega
    simp only [hne, if_false]
    have hq : Q - 4503599627370496 + 4503599627370496 = Q := by omega
    rw [hq]
    unfold ExtVal.isInt rval
    simp only [hL]
    by_cases hl52 : l ≤ 52
    · simp only [hl52, if_true]
      have e1 : (((l + 1023 : Nat) : Int) - 1075).toNat = 0 := by omega
      have e2 : (-(((l + 1023 : Nat) : Int) - 1075)).toNat = 52 - l := by omega
      rw [e1, e2, ← hQ]; unfold rsig; simp only [hL, hl52, if_true]
      push_cast; simp
    · simp only [hl52, if_false]
      have e1 : (((l + 1023 : Nat) : Int) - 1075).toNat = l - 52 := by omega
      have e2 : (-(((l + 1023 : Nat) : Int) - 1075)).toNat = 0 := by omega
      rw [e1, e2, hQ]; push_cast; simp
  · -- carry: Q = 2^53, the exponent field is bumped and the mantissa is 0
    have hQ53 : Q = 9007199254740992 := by omega
    subst hQ53
    have hl52 : ¬ l ≤ 52 := by
      intro hle
      have := rsig_lt_of_small n (by omega)
      omega
    have he : expField ((l + 1022) * 4503599627370496 + 9007199254740992) = l + 1024 := by
      unfold expField; omega
    have hm : mantField ((l + 1022) * 4503599627370496 + 9007199254740992) = 0 := by
      unfold mantField; omega
    have hs : signBit ((l + 1022) * 4503599627370496 + 9007199254740992) = false := by
      unfold signBit
      have : ((l + 1022) * 4503599627370496 + 9007199254740992) / 9223372036854775808 % 2 = 0 := by
        omega
      simp [this]
    rw [val_fin _ (by omega)]
    simp only [hs, sgn, sig, ex, he, hm, Bool.false_eq_true, if_false]
    have hne : ¬ l + 1024 = 0 := by omega
    simp only [hne, if_false]
    unfold ExtVal.isInt rval
    simp only [hL, hl52, if_false, hQ]
    have e1 : (((l + 1024 : Nat) : Int) - 1075).toNat = (l - 52) + 1 := by omega
    have e2 : (-(((l + 1024 : Nat) : Int) - 1075)).toNat = 0 := by omega
    rw [e1, e2, Int.pow_succ]; push_cast; simp
    omega

/-- exact below 2^53 -/
theorem rval_exact (n : Nat) (h : n < 9007199254740992) : rval n = n := by
  unfold rval
  by_cases h0 : n = 0
  · subst h0; decide
  · have : Nat.log2 n < 53 := (Nat.log2_lt h0).2 h
    have : Nat.log2 n ≤ 52 := by omega
    simp [this]

/-- round-to-nearest: the error is at most half a unit in the last place, `2^(log2 n - 52)` -/
theorem rval_half_ulp (n : Nat) :
    2 * (rval n - n) ≤ 2 ^ (Nat.log2 n - 52) ∧ 2 * (n - rval n) ≤ 2 ^ (Nat.log2 n - 52) := by
  unfold rval
  by_cases hl : Nat.log2 n ≤ 52
  · simp [hl]
  · simp only [hl, if_false]
    unfold rsig
    simp only [hl, if_false]
    generalize hs : Nat.log2 n - 52 = s
    have hs1 : 1 ≤ s := by omega
    have hP : 2 ^ s = 2 * 2 ^ (s - 1) := by
      rw [Nat.mul_comm, ← Nat.pow_succ]; congr 1; omega
    have hdm := Nat.div_add_mod n (2 ^ s)
    have hr : n % 2 ^ s < 2 ^ s := Nat.mod_lt _ (Nat.pow_pos (by decide))
    rw [Nat.mul_comm] at hdm
    generalize n / 2 ^ s = q at *
    generalize n % 2 ^ s = r at *
    generalize 2 ^ (s - 1) = half at *
    generalize 2 ^ s = P at *
    split
    · rw [Nat.add_mul]; omega
    · omega

theorem rsig_mono (n m : Nat) (h : n ≤ m) (hl : Nat.log2 n = Nat.log2 m) :
    rsig n ≤ rsig m := by
  unfold rsig
  rw [← hl]
  by_cases hl52 : Nat.log2 n ≤ 52
  · simp only [hl52, if_true]; exact Nat.mul_le_mul_right _ h
  · simp only [hl52, if_false]
    generalize Nat.log2 n - 52 = s
    have hq : n / 2 ^ s ≤ m / 2 ^ s := Nat.div_le_div_right h
    have hn := Nat.div_add_mod n (2 ^ s)
    have hm := Nat.div_add_mod m (2 ^ s)
    generalize n / 2 ^ s = qn at *
    generalize m / 2 ^ s = qm at *
    generalize n % 2 ^ s = rn at *
    generalize m % 2 ^ s = rm at *
    generalize 2 ^ (s - 1) = half at *
    by_cases hqq : qn = qm
    · subst hqq
      have : rn ≤ rm := by omega
      split <;> split <;> omega
    · split <;> split <;> omega

/-- `as f64` is monotone on unsigned integers (non-negative floats are ordered like their bits) -/
theorem ofNatRNE_mono (n m : Nat) (h : n ≤ m) : ofNatRNE n ≤ ofNatRNE m := by
  by_cases hn : n = 0
  · subst hn; exact Nat.zero_le _
  have hm : m ≠ 0 := by omega
  rw [ofNatRNE_eq n hn, ofNatRNE_eq m hm]
  have hbn := rsig_bounds n hn
  have hbm := rsig_bounds m hm
  have hl := log2_mono n m hn h
  by_cases he : Nat.log2 n = Nat.log2 m
  · have := rsig_mono n m h he
    rw [he]; omega
  · have : Nat.log2 n + 1 ≤ Nat.log2 m := by omega
    omega

/-- setting the sign bit negates the exact value -/
theorem val_neg_isInt (b : Nat) (v : Int) (hb : b < 9223372036854775808)
    (h : (val b).isInt v) : (val (9223372036854775808 + b)).isInt (-v) := by
  have he : expField (9223372036854775808 + b) = expField b := by unfold expField; omega
  have hm : mantField (9223372036854775808 + b) = mantField b := by unfold mantField; omega
  have hs1 : signBit (9223372036854775808 + b) = true := by
    unfold signBit
    have : (9223372036854775808 + b) / 9223372036854775808 % 2 = 1 := by omega
    rw [this]; rfl
  have hs0 : signBit b = false := by
    unfold signBit
    have : b / 9223372036854775808 % 2 = 0 := by omega
    simp [this]
  by_cases hf : expField b = 2047
  · exfalso
    cases hn : isNaN b
    · rw [val_inf b hn hf] at h; cases hsb : signBit b <;> simp [hsb, ExtVal.isInt] at h
    · rw [val_nan b hn] at h; simp [ExtVal.isInt] at h
  · rw [val_fin b hf] at h
    rw [val_fin _ (by rw [he]; exact hf)]
    simp only [hs1, hs0, sgn, sig, ex, he, hm, if_true, Bool.false_eq_true, if_false] at h ⊢
    unfold ExtVal.isInt at h ⊢
    simp only at h ⊢
    rw [Int.neg_mul, Int.neg_mul, h]

theorem ofIntRNE_isInt (i : Int) (h1 : -9223372036854775808 ≤ i) (h2 : i ≤ 9223372036854775807) :
    (val (ofIntRNE i)).isInt (if i < 0 then -((rval (-i).toNat : Nat) : Int) else (rval i.toNat : Nat)) := by
  unfold ofIntRNE
  by_cases hneg : i < 0
  · simp only [hneg, if_true]
    have hn : (-i).toNat < 18446744073709551616 := by omega
    apply val_neg_isInt _ _ _ (ofNatRNE_isInt _ hn)
    -- the magnitude has its sign bit clear
    by_cases h0 : (-i).toNat = 0
    · omega
    · rw [ofNatRNE_eq _ h0]
      have := rsig_bounds _ h0
      have := log2_lt_64 _ h0 hn
      omega
  · simp only [hneg, if_false]
    exact ofNatRNE_isInt _ (by omega)

end F64

namespace Num
open F64

/-- `as_f64` of an unsigned integer denotes an integer within half an ulp of it,
and exactly it below 2^53 -/
theorem asF64_uint (n : Nat) (hn : n < 18446744073709551616) :
    (F64.val (asF64 (.uint n))).isInt (rval n) ∧
    2 * (rval n - n) ≤ 2 ^ (Nat.log2 n - 52) ∧ 2 * (n - rval n) ≤ 2 ^ (Nat.log2 n - 52) ∧
    (n < 9007199254740992 → rval n = n) :=
  ⟨ofNatRNE_isInt n hn, (rval_half_ulp n).1, (rval_half_ulp n).2, rval_exact n⟩

/-- below 2^53 an unsigned integer compares equal to its own `as_f64` -/
theorem cmp_uint_asF64 (n : Nat) (h : n < 9007199254740992) :
    Num.cmp (.uint n) (.float (asF64 (.uint n))) = .eq := by
  have hn : n < 18446744073709551616 := by omega
  have hb : ofNatRNE n < 18446744073709551616 := by
    by_cases h0 : n = 0
    · subst h0; decide
    · rw [ofNatRNE_eq n h0]
      have := rsig_bounds n h0
      have := log2_lt_64 n h0 hn
      omega
  show Num.cmp (.uint n) (.float (ofNatRNE n)) = .eq
  rw [cmp_uint_float_eq_iff n _ hn hb]
  have := ofNatRNE_isInt n hn
  rw [rval_exact n h] at this
  exact this

end Num

end Jsonb
