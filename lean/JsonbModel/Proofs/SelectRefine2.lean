/-
C08 refinement, part 2: comparison operands.  The scalar positions of a frontier decode to the
`PathValue`s of the represented values up to the codec's normalisation of numbers, which no
comparison can observe; hence `anyPair` on the decoded values is the spec's any-pair test on
the represented values.
-/
import JsonbModel.Proofs.SelectRefine
import JsonbModel.Proofs.NumOrd

namespace Jsonb
open JV Sel

/-! ### the order on numbers does not see `Num.norm` (no well-formedness needed) -/

theorem F64.geOF_nan_left (a b : Nat) (h : F64.isNaN a = true) : F64.geOF a b = true := by
  simp [F64.geOF, h]

theorem F64.geOF_nan_right (a b : Nat) (h : F64.isNaN a = true) : F64.geOF b a = F64.isNaN b := by
  simp [F64.geOF, F64.ge, h]

theorem F64.cmpOF_nan_left (a a' b : Nat) (h : F64.isNaN a = true) (h' : F64.isNaN a' = true) :
    F64.cmpOF a b = F64.cmpOF a' b := by
  simp only [F64.cmpOF, F64.geOF_nan_left a b h, F64.geOF_nan_left a' b h', F64.geOF_nan_right a b h,
    F64.geOF_nan_right a' b h']

theorem F64.cmpOF_nan_right (a a' b : Nat) (h : F64.isNaN a = true) (h' : F64.isNaN a' = true) :
    F64.cmpOF b a = F64.cmpOF b a' := by
  simp only [F64.cmpOF, F64.geOF_nan_left a b h, F64.geOF_nan_left a' b h', F64.geOF_nan_right a b h,
    F64.geOF_nan_right a' b h']

theorem Num.cmpIntFloat_nan (i : Int) (b : Nat) (h : F64.isNaN b = true) : Num.cmpIntFloat i b = .lt := by
  simp [Num.cmpIntFloat, h]

theorem canonNaN_isNaN : F64.isNaN F64.canonNaN = true := by decide

theorem Num.cmp_norm_left (x y : Num) : Num.cmp (Num.norm x) y = Num.cmp x y := by
  cases x with
  | uint n => rfl
  | int i =>
    simp only [Num.norm]
    by_cases h0 : i = 0
    · subst h0
      simp only [if_true]
      cases y with
      | int r =>
        simp only [Num.cmp]
        rw [icmp_def, ncmp_def]
        by_cases hr : r < 0
        · simp only [hr, if_true]
          rw [if_neg (by omega), if_neg (by omega)]
        · simp only [hr, if_false]
          by_cases h1 : (0 : Int) < r
          · rw [if_pos h1, if_pos (by omega)]
          · rw [if_neg h1, if_neg (by omega)]
            have : r = 0 := by omega
            subst this; rfl
      | uint r => simp [Num.cmp]
      | float r => simp [Num.cmp]
    · simp only [h0, if_false]
  | float b =>
    simp only [Num.norm]
    by_cases hn : F64.isNaN b = true
    · simp only [hn, if_true]
      cases y with
      | int r => simp only [Num.cmp, Num.cmpIntFloat_nan _ _ hn, Num.cmpIntFloat_nan _ _ canonNaN_isNaN]
      | uint r => simp only [Num.cmp, Num.cmpIntFloat_nan _ _ hn, Num.cmpIntFloat_nan _ _ canonNaN_isNaN]
      | float r => simp only [Num.cmp]; exact F64.cmpOF_nan_left _ _ r canonNaN_isNaN hn
    · simp only [hn, if_false, Bool.false_eq_true]

theorem Num.cmp_norm_right (x y : Num) : Num.cmp y (Num.norm x) = Num.cmp y x := by
  cases x with
  | uint n => rfl
  | int i =>
    simp only [Num.norm]
    by_cases h0 : i = 0
    · subst h0
      simp only [if_true]
      cases y with
      | int r =>
        simp only [Num.cmp]
        rw [icmp_def, ncmp_def]
        by_cases hr : r < 0
        · simp only [hr, if_true]
        · simp only [hr, if_false]
          by_cases h1 : r < (0 : Int)
          · omega
          · rw [if_neg (by omega)]
            by_cases h2 : r = 0
            · subst h2; rfl
            · repeat (rw [if_neg (by omega)])
      | uint r => simp [Num.cmp]
      | float r => simp [Num.cmp]
    · simp only [h0, if_false]
  | float b =>
    simp only [Num.norm]
    by_cases hn : F64.isNaN b = true
    · simp only [hn, if_true]
      cases y with
      | int r => simp only [Num.cmp, Num.cmpIntFloat_nan _ _ hn, Num.cmpIntFloat_nan _ _ canonNaN_isNaN]
      | uint r => simp only [Num.cmp, Num.cmpIntFloat_nan _ _ hn, Num.cmpIntFloat_nan _ _ canonNaN_isNaN]
      | float r => simp only [Num.cmp]; exact F64.cmpOF_nan_right _ _ r canonNaN_isNaN hn
    · simp only [hn, if_false, Bool.false_eq_true]

/-! ### observational equality of path values -/

/-- no comparison distinguishes `a` from `b` -/
def PVR (a b : PathValue) : Prop := ∀ c, pvCmp a c = pvCmp b c ∧ pvCmp c a = pvCmp c b

theorem PVR_refl (a : PathValue) : PVR a a := fun _ => ⟨rfl, rfl⟩

theorem PVR_num_norm (n : Num) : PVR (.num (Num.norm n)) (.num n) := by
  intro c
  cases c with
  | num m => exact ⟨Num.cmp_norm_left n m, Num.cmp_norm_right n m⟩
  | null => exact ⟨rfl, rfl⟩
  | bool b => exact ⟨rfl, rfl⟩
  | str s => exact ⟨rfl, rfl⟩

def PVL : List PathValue → List PathValue → Prop
  | [], [] => True
  | a :: as, b :: bs => PVR a b ∧ PVL as bs
  | _, _ => False

theorem PVL_refl : ∀ l : List PathValue, PVL l l
  | [] => trivial
  | a :: as => ⟨PVR_refl a, PVL_refl as⟩

/-- the boolean a comparison contributes (`compare_value` never fails on the six comparison
operators) -/
def cmpB (op : BinOp) (x y : PathValue) : Bool :=
  match cmpOp op x y with
  | .ok b => b
  | _ => false

theorem cmpOp_congr (op : BinOp) {x x' y y' : PathValue} (hx : PVR x x') (hy : PVR y y') :
    cmpOp op x y = cmpOp op x' y' := by
  have : pvCmp x y = pvCmp x' y' := by rw [(hx y).1, (hy x').2]
  simp only [cmpOp, this]

theorem cmpB_congr (op : BinOp) {x x' y y' : PathValue} (hx : PVR x x') (hy : PVR y y') :
    cmpB op x y = cmpB op x' y' := by
  simp only [cmpB, cmpOp_congr op hx hy]

theorem any_congr_right (op : BinOp) {x x' : PathValue} (hx : PVR x x') :
    ∀ {rs srs : List PathValue}, PVL rs srs → rs.any (cmpB op x) = srs.any (cmpB op x')
  | [], [], _ => rfl
  | r :: rs, s :: srs, h => by
    simp only [List.any_cons, cmpB_congr op hx h.1, any_congr_right op hx h.2]
  | [], _ :: _, h => h.elim
  | _ :: _, [], h => h.elim

theorem anyAny_congr (op : BinOp) {rs srs : List PathValue} (hr : PVL rs srs) :
    ∀ {ls sls : List PathValue}, PVL ls sls →
      ls.any (fun x => rs.any (cmpB op x)) = sls.any (fun x => srs.any (cmpB op x))
  | [], [], _ => rfl
  | l :: ls, s :: sls, h => by
    simp only [List.any_cons, any_congr_right op h.1 hr, anyAny_congr op hr h.2]
  | [], _ :: _, h => h.elim
  | _ :: _, [], h => h.elim

/-! ### `anyPair` -/

theorem anyPair_inner_ok (op : BinOp) (l : PathValue) (rs : List PathValue) (b : Bool)
    (h : anyPair.inner op l rs = .ok b) : b = rs.any (cmpB op l) := by
  induction rs with
  | nil => simp only [anyPair.inner, Res.ok.injEq] at h; simp [← h]
  | cons r rs ih =>
    simp only [anyPair.inner] at h
    simp only [List.any_cons, cmpB]
    cases hc : cmpOp op l r with
    | ok c =>
      rw [hc] at h
      cases c with
      | true => simp only [Res.ok.injEq] at h; simp [← h]
      | false => simp only [] at h; simp only [Bool.false_or]; exact ih h
    | err e => rw [hc] at h; simp at h
    | panic s => rw [hc] at h; simp at h
    | fuel => rw [hc] at h; simp at h

/-- when `anyPair` succeeds its answer is "some pair satisfies the comparison" -/
theorem anyPair_ok (op : BinOp) (ls rs : List PathValue) (b : Bool) (h : anyPair op ls rs = .ok b) :
    b = ls.any (fun x => rs.any (cmpB op x)) := by
  induction ls with
  | nil => simp only [anyPair, Res.ok.injEq] at h; simp [← h]
  | cons l ls ih =>
    simp only [anyPair] at h
    simp only [List.any_cons]
    cases hc : anyPair.inner op l rs with
    | ok c =>
      rw [hc] at h
      have := anyPair_inner_ok op l rs c hc
      cases c with
      | true => simp only [Res.ok.injEq] at h; rw [← this, ← h]; rfl
      | false => simp only [] at h; rw [← this, Bool.false_or]; exact ih h
    | err e => rw [hc] at h; simp at h
    | panic s => rw [hc] at h; simp at h
    | fuel => rw [hc] at h; simp at h

/-- on the six comparison operators `anyPair` always succeeds -/
theorem cmpOp_isOk (op : BinOp) (hand : op ≠ .and) (hor : op ≠ .or) (x y : PathValue) :
    ∃ b, cmpOp op x y = .ok b := by
  cases op <;> simp_all [cmpOp]

theorem anyPair_inner_total (op : BinOp) (hand : op ≠ .and) (hor : op ≠ .or) (l : PathValue)
    (rs : List PathValue) : ∃ b, anyPair.inner op l rs = .ok b := by
  induction rs with
  | nil => exact ⟨false, rfl⟩
  | cons r rs ih =>
    obtain ⟨c, hc⟩ := cmpOp_isOk op hand hor l r
    simp only [anyPair.inner, hc]
    cases c with
    | true => exact ⟨true, rfl⟩
    | false => exact ih

theorem anyPair_total (op : BinOp) (hand : op ≠ .and) (hor : op ≠ .or) (ls rs : List PathValue) :
    ∃ b, anyPair op ls rs = .ok b := by
  induction ls with
  | nil => exact ⟨false, rfl⟩
  | cons l ls ih =>
    obtain ⟨c, hc⟩ := anyPair_inner_total op hand hor l rs
    simp only [anyPair, hc]
    cases c with
    | true => exact ⟨true, rfl⟩
    | false => exact ih

/-- **3.** `anyPair` on decoded operand values = the spec's any-pair test on the represented values -/
theorem anyPair_spec (op : BinOp) {ls sls rs srs : List PathValue} (hl : PVL ls sls) (hr : PVL rs srs)
    (b : Bool) (h : anyPair op ls rs = .ok b) :
    b = sls.any (fun x => srs.any (fun y => match cmpOp op x y with | .ok b => b | _ => false)) := by
  rw [anyPair_ok op ls rs b h, anyAny_congr op hr hl]
  rfl

/-! ### decoding the scalar positions of a frontier -/

/-- the value `values_of` reads at one scalar position -/
def scalarValue (root : Bytes) (ty off len : Nat) : Res PathValue :=
  if ty = C.NULL_TAG then .ok .null
  else if ty = C.TRUE_TAG then .ok (.bool true)
  else if ty = C.FALSE_TAG then .ok (.bool false)
  else if ty = C.NUMBER_TAG then
    match slice root off (off + len) with
    | .ok p => (match Num.dec p with
                | .ok n => .ok (.num n)
                | .err e => .err e
                | .panic s => .panic s
                | .fuel => .fuel)
    | .err e => .err e
    | .panic s => .panic s
    | .fuel => .fuel
  else if ty = C.STRING_TAG then (slice root off (off + len)).map PathValue.str
  else .panic "unreachable"

theorem valuesOf_scalar (root : Bytes) (ty off len : Nat) (rest : List Pos) :
    valuesOf root (.scalar ty off len :: rest)
      = match scalarValue root ty off len with
        | .ok v => (valuesOf root rest).map (v :: ·)
        | .err e => .err e
        | .panic s => .panic s
        | .fuel => .fuel := rfl

theorem rep_slice {root : Bytes} {off : Nat} {w : JV} (h : At root off w) :
    slice root off (off + elen w) = .ok (entry w).2 := by
  obtain ⟨a, b, rfl, rfl⟩ := h
  exact slice_mid a _ b

theorem scalarValue_rep (root : Bytes) (ty off len : Nat) (w : JV) (h : Sel.Rep root (.scalar ty off len) w) :
    ∃ pv spv, scalarValue root ty off len = .ok pv ∧ Spec.toPathValue w = some spv ∧ PVR pv spv := by
  obtain ⟨hs, hg, rfl, rfl, hat⟩ := h
  have hsl := rep_slice hat
  cases w with
  | null => exact ⟨.null, .null, by simp [scalarValue, ety], rfl, PVR_refl _⟩
  | bool b =>
    cases b with
    | true => exact ⟨.bool true, .bool true, by simp [scalarValue, ety, tagDefs], rfl, PVR_refl _⟩
    | false => exact ⟨.bool false, .bool false, by simp [scalarValue, ety, tagDefs], rfl, PVR_refl _⟩
  | num n =>
    have hwf : n.WF := by simpa [good] using hg
    refine ⟨.num (Num.norm n), .num n, ?_, rfl, PVR_num_norm n⟩
    have c1 : ¬ C.NUMBER_TAG = C.NULL_TAG := by decide
    have c2 : ¬ C.NUMBER_TAG = C.TRUE_TAG := by decide
    have c3 : ¬ C.NUMBER_TAG = C.FALSE_TAG := by decide
    simp only [scalarValue, ety, c1, c2, c3, if_false, if_true, hsl]
    simp only [entry, Num.dec_enc n hwf]
  | str s =>
    refine ⟨.str s, .str s, ?_, rfl, PVR_refl _⟩
    have c1 : ¬ C.STRING_TAG = C.NULL_TAG := by decide
    have c2 : ¬ C.STRING_TAG = C.TRUE_TAG := by decide
    have c3 : ¬ C.STRING_TAG = C.FALSE_TAG := by decide
    have c4 : ¬ C.STRING_TAG = C.NUMBER_TAG := by decide
    simp only [scalarValue, ety, c1, c2, c3, c4, if_false, if_true, hsl]
    simp [Res.map, Res.bind, entry]
  | arr vs => simp [isScalar] at hs
  | obj kvs => simp [isScalar] at hs

/-- **3.** `values_of` succeeds on a representing frontier; the values are those of the
represented scalars (containers contribute nothing), up to unobservable normalisation -/
theorem valuesOf_rep (root : Bytes) : ∀ (ps : List Pos) (ws : List JV), Sel.RepL root ps ws →
    ∃ vals, valuesOf root ps = .ok vals ∧ PVL vals (ws.filterMap Spec.toPathValue)
  | [], [], _ => ⟨[], rfl, trivial⟩
  | [], _ :: _, h => h.elim
  | _ :: _, [], h => h.elim
  | .container off len :: ps, w :: ws, h => by
    obtain ⟨vals, h1, h2⟩ := valuesOf_rep root ps ws h.2
    refine ⟨vals, by simp only [valuesOf, h1], ?_⟩
    rcases rep_container_cases h.1 with ⟨vs, rfl⟩ | ⟨kvs, rfl⟩ <;>
      simpa [List.filterMap_cons, Spec.toPathValue] using h2
  | .scalar ty off len :: ps, w :: ws, h => by
    obtain ⟨vals, h1, h2⟩ := valuesOf_rep root ps ws h.2
    obtain ⟨pv, spv, h3, h4, h5⟩ := scalarValue_rep root ty off len w h.1
    refine ⟨pv :: vals, by simp only [valuesOf_scalar, h3, h1, Res.map, Res.bind], ?_⟩
    simp only [List.filterMap_cons, h4]
    exact ⟨h5, h2⟩

end Jsonb
