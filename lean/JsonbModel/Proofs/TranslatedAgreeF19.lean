/-
Phase 5b, containment.  F19: where `get_jentry_by_name` can point (bounds), the object branch of `contains_jsonb`:
one iteration of its loop, the loop over the collected members = `Fn.containsMembers`.
-/
import JsonbModel.Proofs.TranslatedAgreeF18

set_option linter.unusedSimpArgs false
set_option linter.unusedVariables false

namespace Jsonb.TrAgree
open Jsonb.Rs

/-! ## bounds on the offsets `get_jentry_by_name` returns -/

theorem fillKeys_vo_bound (value : Bytes) : ∀ (n jo vo : Nat) (ks : List Nat) (jo' vo' : Nat),
    fillKeys value n jo vo = some (ks, jo', vo') → ks.length = n ∧ vo' ≤ vo + n * 268435456 := by
  intro n
  induction n with
  | zero =>
    intro jo vo ks jo' vo' h
    simp only [fillKeys, Option.some.injEq, Prod.mk.injEq] at h
    obtain ⟨rfl, _, rfl⟩ := h
    exact ⟨rfl, by omega⟩
  | succ n ih =>
    intro jo vo ks jo' vo' h
    simp only [fillKeys] at h
    cases hw : readU32At value jo with
    | none => rw [hw] at h; cases h
    | some w =>
      rw [hw] at h
      dsimp only at h
      cases hf : fillKeys value n (jo + 4) (vo + jeLen w) with
      | none => rw [hf] at h; cases h
      | some q =>
        obtain ⟨ks1, jo1, vo1⟩ := q
        rw [hf] at h
        simp only [Option.some.injEq, Prod.mk.injEq] at h
        obtain ⟨rfl, _, rfl⟩ := h
        have := ih _ _ _ _ _ hf
        have hl := jeLen_lt w
        exact ⟨by simp [this.1], by omega⟩

theorem getByNameLoop_bound (value name : Bytes) (ic : Bool) : ∀ (ks : List Nat) (ko jo vo : Nat) (res : Option (JE × Nat))
    (je : JE) (lvo : Nat), (∀ p, res = some p → p.2 ≤ vo ∧ p.1.len < 268435456) →
    getByNameLoop value name ic ks ko jo vo res = .ok (some (je, lvo)) →
    lvo ≤ vo + ks.length * 268435456 ∧ je.len < 268435456 := by
  intro ks
  induction ks with
  | nil =>
    intro ko jo vo res je lvo hres h
    simp only [getByNameLoop, Res.ok.injEq] at h
    have := hres _ h
    exact ⟨by simpa using this.1, this.2⟩
  | cons k ks ih =>
    intro ko jo vo res je lvo hres h
    simp only [getByNameLoop] at h
    cases hs : Jsonb.slice value ko (ko + k) with
    | ok key =>
      rw [hs] at h
      dsimp only at h
      cases hw : readU32At value jo with
      | none => rw [hw] at h; simp at h
      | some w =>
        rw [hw] at h
        dsimp only at h
        have hl := jeLen_lt w
        split at h
        · simp only [Res.ok.injEq, Option.some.injEq, Prod.mk.injEq] at h
          obtain ⟨rfl, rfl⟩ := h
          simp only [JE.ofWord, List.length_cons]
          exact ⟨by omega, hl⟩
        · have := ih _ _ _ _ je lvo (by
            intro p hp
            split at hp
            · simp only [Option.some.injEq] at hp
              subst hp
              simp only [JE.ofWord]
              exact ⟨by omega, hl⟩
            · have := hres p hp
              exact ⟨by omega, this.2⟩) h
          simp only [List.length_cons]
          exact ⟨by omega, this.2⟩
    | err e => rw [hs] at h; cases h
    | panic p => rw [hs] at h; cases h
    | fuel => rw [hs] at h; cases h

/-- the value offset `get_jentry_by_name(value, 0, header, ..)` answers is far below `2^64` -/
theorem getJentryByName_bound (value : Bytes) (header : Nat) (name : Bytes) (ic : Bool) (je : JE) (lvo : Nat)
    (h : getJentryByName value 0 header name ic = .ok (some (je, lvo))) :
    lvo < 1152921504606846976 ∧ je.len < 268435456 := by
  have hL := hdrLen_lt header
  unfold getJentryByName at h
  dsimp only at h
  cases hf : fillKeys value (hdrLen header) (0 + 4) (0 + 8 * hdrLen header + 4) with
  | none => rw [hf] at h; simp at h
  | some q =>
    obtain ⟨ks, jo, vo⟩ := q
    rw [hf] at h
    dsimp only at h
    obtain ⟨hk1, hk2⟩ := fillKeys_vo_bound _ _ _ _ _ _ _ hf
    have := getByNameLoop_bound value name ic ks _ jo vo none je lvo (by intro p hp; cases hp) h
    exact ⟨by omega, this.2⟩

/-! ## the object branch -/

/-- what the loops assume about the function they call: it agrees with `containsJsonb` below some fuel, wherever the
model answers without panicking -/
def ContRecOK (f : Nat) (rec : Bytes → Bytes → Res Bool) : Prop :=
  ∀ f', f' < f → ∀ (l r : Bytes), l.length < 9223372036854775808 → r.length < 9223372036854775808 →
    Fn.containsJsonb f' l r ≠ .fuel → (Fn.containsJsonb f' l r).isPanic = false →
    rec l r = Fn.containsJsonb f' l r

theorem ContRecOK.mono {f f' : Nat} {rec} (h : ContRecOK f rec) (hf : f' ≤ f) : ContRecOK f' rec :=
  fun f'' hlt => h f'' (by omega)

/-- how a loop of `contains_jsonb` that did not `return` ends: `Ok(true)` -/
def finishT (c : Ctl Bool Unit) : Res Bool :=
  match c with
  | .val _ => .ok true
  | .ret r => r

theorem cj_loop1_step (rec : Bytes → Bytes → Res Bool) (left : Bytes) (lh : Nat) (m : Bytes × JE × Bytes)
    (hl : left.length < 9223372036854775808) (hm : m.2.2.length < 9223372036854775808) :
    Tr.contains_jsonb.loop1 rec left (lh : Int) (ofMember m) () =
      match getJentryByName left 0 lh m.1 false with
      | .ok (some (lj, lvo)) =>
        if lj.ty ≠ m.2.1.ty then Ctl.ret (.ok false)
        else
          (match Jsonb.slice left lvo (lvo + lj.len) with
           | .ok lval =>
             if m.2.1.ty ≠ C.CONTAINER_TAG then
               (if Fn.scalarEq m.2.1.ty lval m.2.2 = true then Ctl.val (.next ()) else Ctl.ret (.ok false))
             else (Ctl.ofRes (rec lval m.2.2) >>= fun b => if b = true then Ctl.val (.next ()) else Ctl.ret (.ok false))
           | .err e => Ctl.ret (.err e)
           | .panic s => Ctl.ret (.panic s)
           | .fuel => Ctl.ret .fuel)
      | .ok none => Ctl.ret (.ok false)
      | .err e => Ctl.ret (.err e)
      | .panic s => Ctl.ret (.panic s)
      | .fuel => Ctl.ret .fuel := by
  obtain ⟨rkey, rj, rval⟩ := m
  unfold Tr.contains_jsonb.loop1 ofMember
  dsimp only
  have h0 : ((0 : Nat) : Int) = 0 := rfl
  rw [← h0, get_jentry_by_name_agrees left 0 lh rkey false (by omega)]
  cases hg : getJentryByName left 0 lh rkey false with
  | err e => simp only [Res.map, Res.bind, Ctl.ofRes_err', Ctl.ret_bind', Rs.loopStep_err']
  | panic s => simp only [Res.map, Res.bind, Ctl.ofRes_panic', Ctl.ret_bind', Rs.loopStep_panic']
  | fuel => rfl
  | ok o =>
    cases o with
    | none => simp only [Res.map, Res.bind, Option.map, Ctl.ofRes_ok', Ctl.val_bind', Ctl.ret_bind', Rs.loopStep_ret']
    | some p =>
      obtain ⟨lj, lvo⟩ := p
      obtain ⟨hb1, hb2⟩ := getJentryByName_bound left lh rkey false lj lvo hg
      simp only [Res.map, Res.bind, Option.map, ofHit, ofJE, Ctl.ofRes_ok', Ctl.val_bind', ne_dec]
      simp only [decide_eq_true_eq, Int.natCast_inj, ne_eq]
      by_cases h1 : lj.ty = rj.ty
      swap
      · have h1s : ¬ rj.ty = lj.ty := fun c => h1 c.symm
        simp only [if_pos h1, if_pos h1s, Ctl.ret_bind', Rs.loopStep_ret', not_false_eq_true]
      have h1' : ¬ ¬ lj.ty = rj.ty := fun c => c h1
      have h1'' : ¬ ¬ rj.ty = lj.ty := fun c => c h1.symm
      simp only [if_neg h1', if_neg h1'', Ctl.pure_eq', Ctl.val_bind', Rs.usize_nat lj.len (by omega),
        Rs.add_usize_nat lvo lj.len (by omega), Ctl.ofRes_ok', slice_model]
      cases hs : Jsonb.slice left lvo (lvo + lj.len) with
      | err e => simp only [Ctl.ofRes_err', Ctl.ret_bind', Rs.loopStep_err']
      | panic s => simp only [Ctl.ofRes_panic', Ctl.ret_bind', Rs.loopStep_panic']
      | fuel => rfl
      | ok lval =>
        have hlv := slice_length_le _ _ _ _ hs
        simp only [Ctl.ofRes_ok', Ctl.val_bind']
        by_cases h2 : rj.ty = C.CONTAINER_TAG
        · have h2' : ¬ ¬ rj.ty = C.CONTAINER_TAG := fun c => c h2
          have h2'' : ¬ ¬ C.CONTAINER_TAG = rj.ty := fun c => c h2.symm
          simp only [if_neg h2', if_neg h2'']
          cases rec lval rval with
          | err e => simp only [Ctl.ofRes_err', Ctl.ret_bind', Rs.loopStep_err']
          | panic s => simp only [Ctl.ofRes_panic', Ctl.ret_bind', Rs.loopStep_panic']
          | fuel => rfl
          | ok b =>
            cases b
            · simp [Ctl.ofRes_ok', Ctl.val_bind', Ctl.ret_bind', Rs.loopStep_ret']
            · simp [Ctl.ofRes_ok', Ctl.val_bind', Ctl.pure_eq', Rs.loopStep_val']
        · have h2s : ¬ C.CONTAINER_TAG = rj.ty := fun c => h2 c.symm
          simp only [if_pos h2, if_pos h2s, scalar_eq_agrees rj.ty lval rval (by omega) hm, Ctl.ofRes_ok', Ctl.val_bind']
          cases Fn.scalarEq rj.ty lval rval
          · simp [Ctl.ret_bind', Rs.loopStep_ret']
          · simp [Ctl.pure_eq', Ctl.val_bind', Rs.loopStep_val']

/-- the loop over the members of the right object is the model's `containsMembers` -/
theorem cj_members (rec : Bytes → Bytes → Res Bool) (left : Bytes) (lh : Nat) (hl : left.length < 9223372036854775808) :
    ∀ (rms : List (Bytes × JE × Bytes)) (f : Nat), ContRecOK f rec →
      (∀ m ∈ rms, m.2.2.length < 9223372036854775808) →
      Fn.containsMembers f left lh rms ≠ .fuel → (Fn.containsMembers f left lh rms).isPanic = false →
      finishT (Rs.forIn (rms.map ofMember) () (Tr.contains_jsonb.loop1 rec left (lh : Int))) =
        Fn.containsMembers f left lh rms := by
  intro rms
  induction rms with
  | nil =>
    intro f _ _ hne _
    cases f with
    | zero => simp [Fn.containsMembers] at hne
    | succ f => simp [Fn.containsMembers, Rs.forIn_nil, finishT]
  | cons m rms ih =>
    intro f hrec hlen hne hnp
    cases f with
    | zero => simp [Fn.containsMembers] at hne
    | succ f =>
      have hstep := cj_loop1_step rec left lh m hl (hlen m (by simp))
      obtain ⟨rkey, rj, rval⟩ := m
      have hlen' : ∀ m ∈ rms, m.2.2.length < 9223372036854775808 := fun x hx => hlen x (by simp [hx])
      simp only [List.map_cons]
      rw [Fn.containsMembers] at hne hnp ⊢
      dsimp only at hstep
      cases hg : getJentryByName left 0 lh rkey false with
      | err e => rw [hg] at hstep; rw [Rs.forIn_ret _ _ _ _ _ hstep]; rfl
      | panic s => rw [hg] at hnp; simp [Res.isPanic] at hnp
      | fuel => rw [hg] at hne; exact absurd rfl hne
      | ok o =>
        rw [hg] at hstep hne hnp
        cases o with
        | none => dsimp only at hstep ⊢; rw [Rs.forIn_ret _ _ _ _ _ hstep]; rfl
        | some p =>
          obtain ⟨lj, lvo⟩ := p
          dsimp only at hstep hne hnp ⊢
          by_cases h1 : lj.ty ≠ rj.ty
          · rw [if_pos h1] at hstep ⊢
            rw [Rs.forIn_ret _ _ _ _ _ hstep]; rfl
          rw [if_neg h1] at hstep hne hnp ⊢
          cases hs : Jsonb.slice left lvo (lvo + lj.len) with
          | err e => rw [hs] at hstep; rw [Rs.forIn_ret _ _ _ _ _ hstep]; rfl
          | panic s => rw [hs] at hnp; simp [Res.isPanic] at hnp
          | fuel => rw [hs] at hne; exact absurd rfl hne
          | ok lval =>
            have hlv := slice_length_le _ _ _ _ hs
            rw [hs] at hstep hne hnp
            dsimp only at hstep hne hnp ⊢
            by_cases h2 : rj.ty ≠ C.CONTAINER_TAG
            · rw [if_pos h2] at hstep hne hnp ⊢
              by_cases h3 : Fn.scalarEq rj.ty lval rval = true
              · rw [if_pos h3] at hstep hne hnp ⊢
                rw [Rs.forIn_next _ _ _ _ _ hstep]
                exact ih f (hrec.mono (by omega)) hlen' hne hnp
              · rw [if_neg h3] at hstep ⊢
                rw [Rs.forIn_ret _ _ _ _ _ hstep]; rfl
            · rw [if_neg h2] at hstep hne hnp ⊢
              have hs1 : Fn.containsJsonb f lval rval ≠ .fuel := by
                intro c; rw [c] at hne; exact hne rfl
              have hp1 : (Fn.containsJsonb f lval rval).isPanic = false := by
                cases hc : Fn.containsJsonb f lval rval with
                | panic s => rw [hc] at hnp; simp [Res.isPanic] at hnp
                | _ => rfl
              have hcall := hrec f (by omega) lval rval (by omega) (hlen (rkey, rj, rval) (by simp)) hs1 hp1
              rw [hcall] at hstep
              cases hc : Fn.containsJsonb f lval rval with
              | fuel => exact absurd hc hs1
              | panic s => rw [hc] at hp1; simp [Res.isPanic] at hp1
              | err e =>
                rw [hc] at hstep
                simp only [Ctl.ofRes_err', Ctl.ret_bind'] at hstep
                rw [Rs.forIn_ret _ _ _ _ _ hstep]; rfl
              | ok b =>
                rw [hc] at hstep hne hnp
                simp only [Ctl.ofRes_ok', Ctl.val_bind'] at hstep
                cases b with
                | true =>
                  simp only [if_true] at hstep
                  rw [Rs.forIn_next _ _ _ _ _ hstep]
                  exact ih f (hrec.mono (by omega)) hlen' hne hnp
                | false =>
                  simp only [Bool.false_eq_true, if_false] at hstep
                  rw [Rs.forIn_ret _ _ _ _ _ hstep]; rfl

end Jsonb.TrAgree
