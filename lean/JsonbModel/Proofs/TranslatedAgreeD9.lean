/-
Phase 4: `BTreeSet<K>` / `BTreeMap<K, V>` as key-sorted lists (`Rs.setContains`, `Rs.setInsert`, `Rs.mapGet`,
`Rs.mapInsert` of RustPrelude4.lean): for a lawful comparison and a strictly sorted list they are membership,
insertion and lookup; the derived `Ord` of `&str`, `JEntry`, `(JEntry, &[u8])` is lawful.
`object_delete_jsonb` / `object_pick_jsonb` against `Fn.objectFilter`.
-/
import JsonbModel.Proofs.TranslatedAgreeD8
import JsonbModel.Proofs.CmpLaws

set_option linter.unusedSimpArgs false
set_option linter.unusedVariables false

namespace Jsonb.TrAgree
open Jsonb.Rs

/-! ## lawful comparisons, strictly sorted lists -/

structure LawfulCmp {κ : Type} (cmp : κ → κ → Ordering) : Prop where
  eq_iff : ∀ a b, cmp a b = .eq ↔ a = b
  lt_trans : ∀ a b c, cmp a b = .lt → cmp b c = .lt → cmp a c = .lt
  gt_iff : ∀ a b, cmp a b = .gt ↔ cmp b a = .lt

/-- strictly increasing: what a `BTreeSet` / the keys of a `BTreeMap` always are -/
def SortedBy {κ : Type} (cmp : κ → κ → Ordering) : List κ → Prop
  | [] => True
  | [_] => True
  | x :: y :: r => cmp x y = .lt ∧ SortedBy cmp (y :: r)

theorem sortedBy_tail {κ : Type} {cmp : κ → κ → Ordering} {x : κ} {r : List κ} (h : SortedBy cmp (x :: r)) :
    SortedBy cmp r := by
  cases r with
  | nil => trivial
  | cons y r => exact h.2

theorem sortedBy_head_lt {κ : Type} {cmp : κ → κ → Ordering} (hc : LawfulCmp cmp) :
    ∀ {x : κ} {r : List κ}, SortedBy cmp (x :: r) → ∀ y ∈ r, cmp x y = .lt := by
  intro x r
  induction r generalizing x with
  | nil => intro _ y hy; cases hy
  | cons z r ih =>
    intro h y hy
    simp only [List.mem_cons] at hy
    cases hy with
    | inl hy => subst hy; exact h.1
    | inr hy => exact hc.lt_trans _ _ _ h.1 (ih h.2 y hy)

theorem lawful_refl {κ : Type} {cmp : κ → κ → Ordering} (hc : LawfulCmp cmp) (a : κ) : cmp a a = .eq :=
  (hc.eq_iff a a).2 rfl

/-- `contains` on a strictly sorted list is membership -/
theorem setContains_iff {κ : Type} {cmp : κ → κ → Ordering} (hc : LawfulCmp cmp) :
    ∀ (s : List κ), SortedBy cmp s → ∀ k, Rs.setContains cmp s k = true ↔ k ∈ s := by
  intro s
  induction s with
  | nil => intro _ k; simp [Rs.setContains]
  | cons x r ih =>
    intro hs k
    simp only [Rs.setContains, List.mem_cons]
    cases hk : cmp k x with
    | lt =>
      simp only [Bool.false_eq_true, false_iff, not_or]
      refine ⟨fun h => (by rw [h, lawful_refl hc] at hk; cases hk), fun hm => ?_⟩
      have := sortedBy_head_lt hc hs k hm
      have h2 := hc.lt_trans _ _ _ hk this
      rw [lawful_refl hc] at h2; cases h2
    | eq => simp [(hc.eq_iff k x).1 hk]
    | gt =>
      simp only []
      rw [ih (sortedBy_tail hs) k]
      refine ⟨fun h => Or.inr h, fun h => ?_⟩
      cases h with
      | inl h => rw [h, lawful_refl hc] at hk; cases hk
      | inr h => exact h

/-- `insert` keeps the list strictly sorted and adds exactly the element -/
theorem setInsert_sorted {κ : Type} {cmp : κ → κ → Ordering} (hc : LawfulCmp cmp) :
    ∀ (s : List κ), SortedBy cmp s → ∀ k, SortedBy cmp (Rs.setInsert cmp s k) ∧
      (∀ y, y ∈ Rs.setInsert cmp s k ↔ y = k ∨ y ∈ s) ∧
      (∀ z, (∀ y ∈ s, cmp z y = .lt) → cmp z k = .lt → ∀ y ∈ Rs.setInsert cmp s k, cmp z y = .lt) := by
  intro s
  induction s with
  | nil => intro _ k; simp [Rs.setInsert, SortedBy]
  | cons x r ih =>
    intro hs k
    simp only [Rs.setInsert]
    cases hk : cmp k x with
    | lt =>
      refine ⟨⟨hk, hs⟩, by intro y; simp, ?_⟩
      intro z hz hzk y hy
      simp only [List.mem_cons] at hy
      cases hy with
      | inl hy => rw [hy]; exact hzk
      | inr hy => exact hz y (by simpa using hy)
    | eq =>
      have hkx := (hc.eq_iff k x).1 hk
      refine ⟨hs, by intro y; simp [hkx], ?_⟩
      intro z hz _ y hy
      exact hz y hy
    | gt =>
      obtain ⟨i1, i2, i3⟩ := ih (sortedBy_tail hs) k
      have hxk : cmp x k = .lt := (hc.gt_iff k x).1 hk
      refine ⟨?_, ?_, ?_⟩
      · have hall := i3 x (sortedBy_head_lt hc hs) hxk
        cases hri : Rs.setInsert cmp r k with
        | nil => trivial
        | cons y r' =>
          rw [hri] at i1 hall
          exact ⟨hall y (by simp), i1⟩
      · intro y
        simp only [List.mem_cons, i2]
        constructor
        · rintro (h | h | h)
          · exact Or.inr (Or.inl h)
          · exact Or.inl h
          · exact Or.inr (Or.inr h)
        · rintro (h | h | h)
          · exact Or.inr (Or.inl h)
          · exact Or.inl h
          · exact Or.inr (Or.inr h)
      · intro z hz hzk y hy
        simp only [List.mem_cons] at hy
        cases hy with
        | inl hy => rw [hy]; exact hz x (by simp)
        | inr hy => exact i3 z (fun y' hy' => hz y' (by simp [hy'])) hzk y hy

/-! ## the derived orders are lawful -/

theorem lawful_cmpBytes : LawfulCmp Rs.cmpBytes where
  eq_iff a b := by rw [cmpBytes_eq_lexCmp]; exact lexCmp_eq_iff a b
  lt_trans a b c h1 h2 := by rw [cmpBytes_eq_lexCmp] at *; exact lexCmp_lt_trans h1 h2
  gt_iff a b := by
    rw [cmpBytes_eq_lexCmp, cmpBytes_eq_lexCmp, lexCmp_swap a b]
    cases lexCmp a b <;> simp [Ordering.swap]

theorem lawful_compare_int : LawfulCmp (compare : Int → Int → Ordering) where
  eq_iff a b := by simp [compare_eq_iff_eq]
  lt_trans a b c h1 h2 := by rw [compare_lt_iff_lt] at *; omega
  gt_iff a b := by rw [compare_gt_iff_gt, compare_lt_iff_lt]

theorem lawful_cmpLex {α β : Type} {ca : α → α → Ordering} {cb : β → β → Ordering}
    (ha : LawfulCmp ca) (hb : LawfulCmp cb) : LawfulCmp (Rs.cmpLex ca cb) where
  eq_iff x y := by
    obtain ⟨x1, x2⟩ := x
    obtain ⟨y1, y2⟩ := y
    simp only [Rs.cmpLex, Prod.mk.injEq]
    cases h1 : ca x1 y1 with
    | lt => simp [Ordering.then]; intro h; rw [h, lawful_refl ha] at h1; cases h1
    | eq => simp only [Ordering.then, hb.eq_iff, (ha.eq_iff x1 y1).1 h1, true_and]
    | gt => simp [Ordering.then]; intro h; rw [h, lawful_refl ha] at h1; cases h1
  lt_trans x y z h1 h2 := by
    obtain ⟨x1, x2⟩ := x
    obtain ⟨y1, y2⟩ := y
    obtain ⟨z1, z2⟩ := z
    simp only [Rs.cmpLex] at *
    cases hxy : ca x1 y1 with
    | lt =>
      cases hyz : ca y1 z1 with
      | lt => rw [ha.lt_trans _ _ _ hxy hyz]; rfl
      | eq => rw [← (ha.eq_iff y1 z1).1 hyz, hxy]; rfl
      | gt => rw [hyz] at h2; simp [Ordering.then] at h2
    | eq =>
      rw [hxy] at h1
      simp only [Ordering.then] at h1
      rw [(ha.eq_iff x1 y1).1 hxy]
      cases hyz : ca y1 z1 with
      | lt => rfl
      | eq =>
        rw [hyz] at h2
        simp only [Ordering.then] at h2 ⊢
        exact hb.lt_trans _ _ _ h1 h2
      | gt => rw [hyz] at h2; simp [Ordering.then] at h2
    | gt => rw [hxy] at h1; simp [Ordering.then] at h1
  gt_iff x y := by
    obtain ⟨x1, x2⟩ := x
    obtain ⟨y1, y2⟩ := y
    simp only [Rs.cmpLex]
    cases hxy : ca x1 y1 with
    | lt =>
      have := (ha.gt_iff y1 x1).2 hxy
      simp [Ordering.then, this]
    | eq =>
      have h := (ha.eq_iff x1 y1).1 hxy
      rw [h, lawful_refl ha]
      simp only [Ordering.then]
      exact hb.gt_iff x2 y2
    | gt =>
      have := (ha.gt_iff x1 y1).1 hxy
      simp [Ordering.then, this]

/-- `#[derive(PartialOrd, Ord)] struct JEntry { type_code, length }` as the translator spells it out -/
theorem lawful_jentry_cmp : LawfulCmp Tr.JEntry.cmp := by
  have h := lawful_cmpLex lawful_compare_int lawful_compare_int
  have e : ∀ a b : Tr.JEntry, Tr.JEntry.cmp a b = Rs.cmpLex compare compare (a.type_code, a.length) (b.type_code, b.length) := by
    intro a b; rfl
  refine ⟨fun a b => ?_, fun a b c h1 h2 => ?_, fun a b => ?_⟩
  · rw [e, h.eq_iff]
    cases a; cases b; simp
  · rw [e] at *; exact h.lt_trans _ _ _ h1 h2
  · rw [e, e]; exact h.gt_iff _ _

theorem lawful_key_cmp : LawfulCmp (Rs.cmpLex Tr.JEntry.cmp Rs.cmpBytes) :=
  lawful_cmpLex lawful_jentry_cmp lawful_cmpBytes

/-! ## object_delete_jsonb / object_pick_jsonb -/

theorem setContains_keys (keys : List Bytes) (hk : SortedBy Rs.cmpBytes keys) (k : Bytes) :
    Rs.setContains Rs.cmpBytes keys k = keys.contains k := by
  have h := setContains_iff lawful_cmpBytes keys hk k
  cases h1 : Rs.setContains Rs.cmpBytes keys k <;> cases h2 : keys.contains k <;> simp_all

theorem od_loop1_step (keys : List Bytes) (x : Bytes × Tr.JEntry × Bytes) (b : Tr.ObjectBuilder) :
    Tr.object_delete_jsonb.loop1 keys x b =
      (Ctl.val (.next (if !(Rs.setContains Rs.cmpBytes keys x.1) then pushObj x b else b)) : Ctl Bytes (Step Tr.ObjectBuilder)) := by
  obtain ⟨k, je, d⟩ := x
  unfold Tr.object_delete_jsonb.loop1 pushObj
  dsimp only
  cases Rs.setContains Rs.cmpBytes keys k
  · simp only [Bool.false_eq_true, if_false, Ctl.pure_eq', Ctl.val_bind', object_push_raw_any, Ctl.ofRes_ok', Rs.loopStep_val',
      Bool.not_false, if_true]
  · simp only [if_true, Ctl.ret_bind', Rs.loopStep_cont', Bool.not_true, Bool.false_eq_true, if_false]

theorem op_loop1_step (keys : List Bytes) (x : Bytes × Tr.JEntry × Bytes) (b : Tr.ObjectBuilder) :
    Tr.object_pick_jsonb.loop1 keys x b =
      (Ctl.val (.next (if Rs.setContains Rs.cmpBytes keys x.1 then pushObj x b else b)) : Ctl Bytes (Step Tr.ObjectBuilder)) := by
  obtain ⟨k, je, d⟩ := x
  unfold Tr.object_pick_jsonb.loop1 pushObj
  dsimp only
  cases Rs.setContains Rs.cmpBytes keys k
  · simp only [Bool.not_false, if_true, Ctl.ret_bind', Rs.loopStep_cont', Bool.false_eq_true, if_false]
  · simp only [Bool.not_true, Bool.false_eq_true, if_false, Ctl.pure_eq', Ctl.val_bind', object_push_raw_any, Ctl.ofRes_ok',
      Rs.loopStep_val', if_true]

/-- **`object_delete_jsonb` = `Fn.objectFilter false`**, for `keys` a `BTreeSet` value (strictly sorted) -/
theorem object_delete_jsonb_agrees (value buf : Bytes) (keys : List Bytes) (fuel : Nat) (hfuel : 536870913 < fuel)
    (hkeys : SortedBy Rs.cmpBytes keys)
    (hv : value.length < 1152921504606846976) (hb : buf.length < 1152921504606846976) :
    panicAny (Tr.object_delete_jsonb fuel value keys buf) = panicAny (Fn.objectFilter false value keys buf) := by
  unfold Tr.object_delete_jsonb Fn.objectFilter
  simp only [read_u32_zero]
  cases hr : readU32At value 0 with
  | none => simp only [Ctl.ofRes_err', Ctl.ret_bind', Ctl.run_ret']
  | some h =>
    have hne : decide (Rs.bitand (h : Int) (C.CONTAINER_HEADER_TYPE_MASK : Int) ≠ (C.OBJECT_CONTAINER_TAG : Int)) =
        !decide (hdrType h = C.OBJECT_CONTAINER_TAG) := by
      rw [← hdrType_eq]; simp
    simp only [Ctl.ofRes_ok', Ctl.val_bind', hne]
    by_cases hO : hdrType h = C.OBJECT_CONTAINER_TAG
    · simp only [eq_true hO, decide_true, Bool.not_true, Bool.false_eq_true, if_false, Ctl.pure_eq', Ctl.val_bind',
        object_builder_new_agrees, Ctl.ofRes_ok', iterate_object_entries_agrees, ne_eq, not_true_eq_false]
      have hL := hdrLen_lt h
      rw [forIter_object value h fuel (by omega) (fun x s => if !(Rs.setContains Rs.cmpBytes keys x.1) then pushObj x s else s) _ (od_loop1_step keys)]
      unfold iterObjEntries
      dsimp only
      cases hfk : fillKeys value (hdrLen h) 4 (4 + hdrLen h * 8) with
      | none => simp only [Ctl.ret_bind', Ctl.run_ret']; rfl
      | some qq =>
        obtain ⟨ks, jo, vo⟩ := qq
        simp only []
        cases hl : iterObjLoop value ks (4 + hdrLen h * 8) jo vo with
        | ok ms =>
          have hfold := fold_pushObj_filter (fun x => !(Rs.setContains Rs.cmpBytes keys x.1)) (fun m => keys.contains m.1 == false)
            (fun m => by simp only [ofMember, setContains_keys keys hkeys]; cases keys.contains m.1 <;> rfl) ms []
          simp only [Ctl.val_bind', hfold]
          obtain ⟨n, hT, hM⟩ := object_filter_build value h ms (fun m => keys.contains m.1 == false)
            (obj_members_bounds value h ks jo vo ms hfk hl) buf fuel (by omega) hv hb
          rw [hT, hM]
          simp only [Ctl.ofRes_ok', Ctl.val_bind', Ctl.pure_eq', Ctl.run_ret']
        | err e => exact absurd hl (iterObjLoop_ne_err _ _ _ _ _ _)
        | panic p => simp only [Ctl.ret_bind', Ctl.run_ret']
        | fuel => exact absurd hl (iterObjLoop_ne_fuel _ _ _ _ _)
    · simp only [eq_false hO, decide_false, Bool.not_false, if_true, Ctl.ret_bind', Ctl.run_ret', ne_eq, not_false_eq_true]

/-- **`object_pick_jsonb` = `Fn.objectFilter true`** -/
theorem object_pick_jsonb_agrees (value buf : Bytes) (keys : List Bytes) (fuel : Nat) (hfuel : 536870913 < fuel)
    (hkeys : SortedBy Rs.cmpBytes keys)
    (hv : value.length < 1152921504606846976) (hb : buf.length < 1152921504606846976) :
    panicAny (Tr.object_pick_jsonb fuel value keys buf) = panicAny (Fn.objectFilter true value keys buf) := by
  unfold Tr.object_pick_jsonb Fn.objectFilter
  simp only [read_u32_zero]
  cases hr : readU32At value 0 with
  | none => simp only [Ctl.ofRes_err', Ctl.ret_bind', Ctl.run_ret']
  | some h =>
    have hne : decide (Rs.bitand (h : Int) (C.CONTAINER_HEADER_TYPE_MASK : Int) ≠ (C.OBJECT_CONTAINER_TAG : Int)) =
        !decide (hdrType h = C.OBJECT_CONTAINER_TAG) := by
      rw [← hdrType_eq]; simp
    simp only [Ctl.ofRes_ok', Ctl.val_bind', hne]
    by_cases hO : hdrType h = C.OBJECT_CONTAINER_TAG
    · simp only [eq_true hO, decide_true, Bool.not_true, Bool.false_eq_true, if_false, Ctl.pure_eq', Ctl.val_bind',
        object_builder_new_agrees, Ctl.ofRes_ok', iterate_object_entries_agrees, ne_eq, not_true_eq_false]
      have hL := hdrLen_lt h
      rw [forIter_object value h fuel (by omega) (fun x s => if Rs.setContains Rs.cmpBytes keys x.1 then pushObj x s else s) _ (op_loop1_step keys)]
      unfold iterObjEntries
      dsimp only
      cases hfk : fillKeys value (hdrLen h) 4 (4 + hdrLen h * 8) with
      | none => simp only [Ctl.ret_bind', Ctl.run_ret']; rfl
      | some qq =>
        obtain ⟨ks, jo, vo⟩ := qq
        simp only []
        cases hl : iterObjLoop value ks (4 + hdrLen h * 8) jo vo with
        | ok ms =>
          have hfold := fold_pushObj_filter (fun x => Rs.setContains Rs.cmpBytes keys x.1) (fun m => keys.contains m.1 == true)
            (fun m => by simp only [ofMember, setContains_keys keys hkeys]; cases keys.contains m.1 <;> rfl) ms []
          simp only [Ctl.val_bind', hfold]
          obtain ⟨n, hT, hM⟩ := object_filter_build value h ms (fun m => keys.contains m.1 == true)
            (obj_members_bounds value h ks jo vo ms hfk hl) buf fuel (by omega) hv hb
          rw [hT, hM]
          simp only [Ctl.ofRes_ok', Ctl.val_bind', Ctl.pure_eq', Ctl.run_ret']
        | err e => exact absurd hl (iterObjLoop_ne_err _ _ _ _ _ _)
        | panic p => simp only [Ctl.ret_bind', Ctl.run_ret']
        | fuel => exact absurd hl (iterObjLoop_ne_fuel _ _ _ _ _)
    · simp only [eq_false hO, decide_false, Bool.not_false, if_true, Ctl.ret_bind', Ctl.run_ret', ne_eq, not_false_eq_true]

end Jsonb.TrAgree
