/-
Backbone lemmas for every byte walker: on the README layout of a good container the iterators
yield exactly the elements' `(entry, payload)` pairs, and `get_jentry_by_index` lands on the
sum of the earlier payload lengths.
-/
import JsonbModel.Walk
import JsonbModel.Proofs.Codec

namespace Jsonb
open JV

theorem slice_mid (a p b : Bytes) : slice (a ++ (p ++ b)) a.length (a.length + p.length) = .ok p := by
  unfold slice
  rw [if_pos (by simp)]
  simp

theorem slice_mid' (a p b : Bytes) (n m : Nat) (hn : n = a.length) (hm : m = a.length + p.length) :
    slice (a ++ (p ++ b)) n m = .ok p := by subst hn; subst hm; exact slice_mid a p b

theorem readU32At_mid (a : Bytes) (w : Nat) (b : Bytes) (n : Nat) (hn : n = a.length) (hw : w < 4294967296) :
    readU32At (a ++ (u32be w ++ b)) n = some w := by
  subst hn; exact readU32At_append a w b hw

/-- the item the array iterator yields for a stored value -/
def itemOf (v : JV) : JE × Bytes := (⟨ety v, elen v, (entry v).1⟩, (entry v).2)

theorem JE_ofWord_entry (v : JV) (h : elen v < 268435456) :
    JE.ofWord (entry v).1 = ⟨ety v, elen v, (entry v).1⟩ := by
  simp [JE.ofWord, jeType_entry v h, jeLen_entry v h]

theorem iterArrayLoop_spec (vs : List JV) (hg : goodL vs = true) (pre mid post : Bytes) (jo vo : Nat)
    (hjo : jo = pre.length) (hvo : vo = pre.length + 4 * vs.length + mid.length) :
    iterArrayLoop (pre ++ (wordsL vs ++ (mid ++ (paysL vs ++ post)))) vs.length jo vo
      = .ok (vs.map itemOf) := by
  induction vs generalizing pre mid jo vo with
  | nil => simp [iterArrayLoop]
  | cons v vs ih =>
    simp only [goodL, Bool.and_eq_true] at hg
    have hl := elen_lt_of_good v hg.1
    simp only [List.length_cons, iterArrayLoop, wordsL, paysL, List.append_assoc]
    rw [readU32At_mid pre _ _ jo hjo (entry_lt v hl)]
    simp only [jeLen_entry v hl]
    have e1 : pre ++ (u32be (entry v).1 ++ (wordsL vs ++ (mid ++ ((entry v).2 ++ (paysL vs ++ post)))))
        = (pre ++ (u32be (entry v).1 ++ (wordsL vs ++ mid))) ++ ((entry v).2 ++ (paysL vs ++ post)) := by
      simp
    rw [e1, slice_mid' _ _ _ vo (vo + elen v) (by simp [wordsL_length']; simp at hvo; omega) (by
      simp [wordsL_length', elen]; simp at hvo; omega)]
    have e2 : (pre ++ (u32be (entry v).1 ++ (wordsL vs ++ mid))) ++ ((entry v).2 ++ (paysL vs ++ post))
        = (pre ++ u32be (entry v).1) ++ (wordsL vs ++ ((mid ++ (entry v).2) ++ (paysL vs ++ post))) := by
      simp
    rw [e2, ih hg.2 (pre ++ u32be (entry v).1) (mid ++ (entry v).2) (jo + 4) (vo + elen v)
      (by simp; omega) (by simp [elen]; simp at hvo; omega)]
    simp [itemOf, JE_ofWord_entry v hl]

/-- `iterate_array` on the image of a good array (followed by anything) -/
theorem iterArray_spec (vs : List JV) (hn : vs.length < 536870912) (hg : goodL vs = true) (post : Bytes) :
    iterArray ((entry (arr vs)).2 ++ post) (C.ARRAY_CONTAINER_TAG + vs.length) = .ok (vs.map itemOf) := by
  unfold iterArray
  have t2 : hdrLen (C.ARRAY_CONTAINER_TAG + vs.length) = vs.length := by
    rw [tag_arr']; exact hdrLen_add 4 _ hn
  rw [t2]
  simp only [entry, List.append_assoc]
  have := iterArrayLoop_spec vs hg (u32be (C.ARRAY_CONTAINER_TAG + vs.length)) [] post 4 (4 * vs.length + 4)
    (by simp) (by simp; omega)
  simpa using this

/-! ### object iterators -/

def memberOf (kv : Bytes × JV) : Bytes × JE × Bytes :=
  (kv.1, ⟨ety kv.2, elen kv.2, (entry kv.2).1⟩, (entry kv.2).2)

theorem keyBytes_length_eq (kvs : List (Bytes × JV)) :
    (keyBytes kvs).length = (kvs.map (fun kv => kv.1.length)).sum := by
  induction kvs with
  | nil => rfl
  | cons kv kvs ih => obtain ⟨k, v⟩ := kv; simp [keyBytes, ih]

theorem fillKeys_spec (kvs : List (Bytes × JV)) (hg : goodK kvs = true) (pre post : Bytes) (jo vo : Nat)
    (hjo : jo = pre.length) :
    fillKeys (pre ++ (keyWords kvs ++ post)) kvs.length jo vo
      = some (kvs.map (fun kv => kv.1.length), jo + 4 * kvs.length, vo + (keyBytes kvs).length) := by
  induction kvs generalizing pre jo vo with
  | nil => simp [fillKeys, keyBytes]
  | cons kv kvs ih =>
    obtain ⟨k, v⟩ := kv
    simp only [goodK, Bool.and_eq_true, decide_eq_true_eq] at hg
    have hl := hg.1.1.1
    have e1 : C.STRING_TAG = 1 * 268435456 := by decide
    simp only [List.length_cons, fillKeys, keyWords, List.append_assoc]
    rw [readU32At_mid pre _ _ jo hjo (by rw [e1]; omega)]
    simp only []
    have hjl : jeLen (C.STRING_TAG + k.length) = k.length := by rw [e1]; exact jeLen_add 1 _ hl
    rw [hjl]
    have e2 : pre ++ (u32be (C.STRING_TAG + k.length) ++ (keyWords kvs ++ post))
        = (pre ++ u32be (C.STRING_TAG + k.length)) ++ (keyWords kvs ++ post) := by simp
    rw [e2, ih hg.2 (pre ++ u32be (C.STRING_TAG + k.length)) (jo + 4) (vo + k.length) (by simp; omega)]
    simp only [List.map_cons, keyBytes, List.length_append, Option.some.injEq, Prod.mk.injEq, true_and]
    omega

theorem iterObjLoop_spec (kvs : List (Bytes × JV)) (hg : goodK kvs = true)
    (pre kpre mid post : Bytes) (ko jo vo : Nat)
    (hjo : jo = pre.length)
    (hko : ko = pre.length + 4 * kvs.length + kpre.length)
    (hvo : vo = pre.length + 4 * kvs.length + kpre.length + (keyBytes kvs).length + mid.length) :
    iterObjLoop (pre ++ (wordsK kvs ++ (kpre ++ (keyBytes kvs ++ (mid ++ (paysK kvs ++ post))))))
        (kvs.map (fun kv => kv.1.length)) ko jo vo
      = .ok (kvs.map memberOf) := by
  induction kvs generalizing pre kpre mid ko jo vo with
  | nil => simp [iterObjLoop]
  | cons kv kvs ih =>
    obtain ⟨k, v⟩ := kv
    simp only [goodK, Bool.and_eq_true, decide_eq_true_eq] at hg
    have hl := elen_lt_of_good v hg.1.2
    simp only [List.map_cons, iterObjLoop, wordsK, keyBytes, paysK, List.append_assoc, List.length_cons, List.length_append] at hko hvo ⊢
    have e0 : pre ++ (u32be (entry v).1 ++ (wordsK kvs ++ (kpre ++ (k ++ (keyBytes kvs ++ (mid ++ ((entry v).2 ++ (paysK kvs ++ post))))))))
        = (pre ++ (u32be (entry v).1 ++ (wordsK kvs ++ kpre))) ++ (k ++ (keyBytes kvs ++ (mid ++ ((entry v).2 ++ (paysK kvs ++ post))))) := by
      simp
    rw [e0, slice_mid' _ _ _ ko (ko + k.length) (by simp [wordsK_length']; omega) (by simp [wordsK_length']; omega)]
    simp only []
    have e1 : (pre ++ (u32be (entry v).1 ++ (wordsK kvs ++ kpre))) ++ (k ++ (keyBytes kvs ++ (mid ++ ((entry v).2 ++ (paysK kvs ++ post)))))
        = pre ++ (u32be (entry v).1 ++ (wordsK kvs ++ (kpre ++ (k ++ (keyBytes kvs ++ (mid ++ ((entry v).2 ++ (paysK kvs ++ post)))))))) := by
      simp
    rw [e1, readU32At_mid pre _ _ jo hjo (entry_lt v hl)]
    simp only [jeLen_entry v hl]
    have e2 : pre ++ (u32be (entry v).1 ++ (wordsK kvs ++ (kpre ++ (k ++ (keyBytes kvs ++ (mid ++ ((entry v).2 ++ (paysK kvs ++ post))))))))
        = (pre ++ (u32be (entry v).1 ++ (wordsK kvs ++ (kpre ++ (k ++ (keyBytes kvs ++ mid)))))) ++ ((entry v).2 ++ (paysK kvs ++ post)) := by
      simp
    rw [e2, slice_mid' _ _ _ vo (vo + elen v)
      (by simp [wordsK_length']; omega) (by simp [wordsK_length', elen]; omega)]
    simp only []
    have e3 : (pre ++ (u32be (entry v).1 ++ (wordsK kvs ++ (kpre ++ (k ++ (keyBytes kvs ++ mid)))))) ++ ((entry v).2 ++ (paysK kvs ++ post))
        = (pre ++ u32be (entry v).1) ++ (wordsK kvs ++ ((kpre ++ k) ++ (keyBytes kvs ++ ((mid ++ (entry v).2) ++ (paysK kvs ++ post))))) := by
      simp
    rw [e3, ih hg.2 (pre ++ u32be (entry v).1) (kpre ++ k) (mid ++ (entry v).2) (ko + k.length) (jo + 4) (vo + elen v)
      (by simp; omega) (by simp; omega) (by simp [elen]; omega)]
    simp [memberOf, JE_ofWord_entry v hl]

/-- `iterate_object_entries` on the image of a good object (followed by anything) -/
theorem iterObjEntries_spec (kvs : List (Bytes × JV)) (hn : kvs.length < 536870912)
    (hg : goodK kvs = true) (post : Bytes) :
    iterObjEntries ((entry (obj kvs)).2 ++ post) (C.OBJECT_CONTAINER_TAG + kvs.length)
      = .ok (kvs.map memberOf) := by
  unfold iterObjEntries
  have t2 : hdrLen (C.OBJECT_CONTAINER_TAG + kvs.length) = kvs.length := by
    rw [tag_obj']; exact hdrLen_add 2 _ hn
  rw [t2]
  simp only [entry, List.append_assoc]
  have hf := fillKeys_spec kvs hg (u32be (C.OBJECT_CONTAINER_TAG + kvs.length))
    (wordsK kvs ++ (keyBytes kvs ++ (paysK kvs ++ post))) 4 (4 + kvs.length * 8) (by simp)
  rw [hf]
  simp only []
  have e1 : u32be (C.OBJECT_CONTAINER_TAG + kvs.length) ++ (keyWords kvs ++ (wordsK kvs ++ (keyBytes kvs ++ (paysK kvs ++ post))))
      = (u32be (C.OBJECT_CONTAINER_TAG + kvs.length) ++ keyWords kvs) ++ (wordsK kvs ++ ([] ++ (keyBytes kvs ++ ([] ++ (paysK kvs ++ post))))) := by
    simp
  rw [e1]
  exact iterObjLoop_spec kvs hg _ [] [] post _ _ _ (by simp [keyWords_length']; omega)
    (by simp [keyWords_length']; omega) (by simp [keyWords_length']; omega)

end Jsonb
