/-
The builders only append, and what they append is the layout function `bspec` — for every
prior buffer content and with no side conditions (C17 for ArrayBuilder / ObjectBuilder).
-/
import JsonbModel.Builder
import JsonbModel.Proofs.SerLayout

namespace Jsonb

theorem bwordsL_length (es : List BEntry) : (bwordsL es).length = es.length * 4 := by
  induction es with
  | nil => rfl
  | cons e es ih => simp [bwordsL, ih]; omega
theorem bwordsK_length (kvs : List (Bytes × BEntry)) : (bwordsK kvs).length = kvs.length * 4 := by
  induction kvs with
  | nil => rfl
  | cons kv kvs ih => obtain ⟨k, v⟩ := kv; simp [bwordsK, ih]; omega
theorem bkeyWords_length (kvs : List (Bytes × BEntry)) : (bkeyWords kvs).length = kvs.length * 4 := by
  induction kvs with
  | nil => rfl
  | cons kv kvs ih => obtain ⟨k, v⟩ := kv; simp [bkeyWords, ih]; omega

mutual
theorem buildEntry_spec : (e : BEntry) → (buf : Bytes) →
    buildEntry buf e = .ok (buf ++ (bspec e).2.2, (bspec e).1, (bspec e).2.1)
  | .raw ty len data, buf => by simp [buildEntry, bspec]
  | .arr es, buf => by
    have ih := buildArrLoop_spec es (buf ++ u32be (headerWord C.ARRAY_CONTAINER_TAG es.length)) [] []
      (buf.length + 4) (4 + es.length * 4) (by simp)
    simp only [List.append_nil, List.nil_append, List.append_assoc] at ih
    simp only [buildEntry, List.append_assoc]
    rw [ih]
    simp only [bspec, List.append_assoc]
  | .obj kvs, buf => by
    have ihk := buildObjKeys_spec kvs (buf ++ u32be (headerWord C.OBJECT_CONTAINER_TAG kvs.length)) [] []
      (kvs.length * 4) (buf.length + 4) (4 + kvs.length * 8) (by simp)
    simp only [List.append_nil, List.nil_append] at ihk
    have ihv := buildObjVals_spec kvs (buf ++ u32be (headerWord C.OBJECT_CONTAINER_TAG kvs.length)) (bkeyWords kvs)
      (bkeyBytes kvs) (buf.length + 4 + kvs.length * 4) (4 + kvs.length * 8 + (bkeyBytes kvs).length)
      (by simp [bkeyWords_length])
    have hz : zeros (kvs.length * 8) = zeros (kvs.length * 4) ++ zeros (kvs.length * 4) := by
      unfold zeros; rw [List.replicate_append_replicate]; congr 1; omega
    simp only [buildEntry, hz, List.append_assoc] at ihk ⊢
    rw [ihk]
    simp only [List.append_assoc] at ihv
    simp only [ihv, bspec, List.append_assoc]
theorem buildArrLoop_spec : (es : List BEntry) → (pre doneW doneP : Bytes) →
    (idx acc : Nat) → idx = pre.length + doneW.length →
    buildArrLoop (pre ++ (doneW ++ (zeros (es.length * 4) ++ doneP))) idx acc es
      = .ok (pre ++ (doneW ++ (bwordsL es ++ (doneP ++ bpaysL es))), acc + bsizeL es)
  | [], pre, doneW, doneP, idx, acc, _ => by simp [buildArrLoop, bwordsL, bpaysL, bsizeL, zeros]
  | e :: es, pre, doneW, doneP, idx, acc, hidx => by
    simp only [buildArrLoop, List.length_cons]
    rw [buildEntry_spec e]
    simp only []
    rw [zeros_succ4]
    have e1 : pre ++ (doneW ++ (zeros 4 ++ zeros (es.length * 4) ++ doneP)) ++ (bspec e).2.2
        = (pre ++ doneW) ++ (zeros 4 ++ (zeros (es.length * 4) ++ (doneP ++ (bspec e).2.2))) := by
      simp
    rw [e1, hidx, ← List.length_append, replaceJentry_mid _ _ _ _ (by simp)]
    have ih := buildArrLoop_spec es pre (doneW ++ u32be (jentryWord (bspec e).1 (bspec e).2.1))
      (doneP ++ (bspec e).2.2)
      ((pre ++ doneW).length + 4) (acc + (bspec e).2.1 % 4294967296) (by simp; omega)
    simp only [List.append_assoc] at ih ⊢
    rw [ih]
    simp only [bwordsL, bpaysL, bsizeL, List.append_assoc]
    congr 2
    omega
theorem buildObjVals_spec : (kvs : List (Bytes × BEntry)) → (pre doneW doneP : Bytes) →
    (idx acc : Nat) → idx = pre.length + doneW.length →
    buildObjVals (pre ++ (doneW ++ (zeros (kvs.length * 4) ++ doneP))) idx acc kvs
      = .ok (pre ++ (doneW ++ (bwordsK kvs ++ (doneP ++ bpaysK kvs))), acc + bsizeK kvs)
  | [], pre, doneW, doneP, idx, acc, _ => by simp [buildObjVals, bwordsK, bpaysK, bsizeK, zeros]
  | (k, e) :: kvs, pre, doneW, doneP, idx, acc, hidx => by
    simp only [buildObjVals, List.length_cons]
    rw [buildEntry_spec e]
    simp only []
    rw [zeros_succ4]
    have e1 : pre ++ (doneW ++ (zeros 4 ++ zeros (kvs.length * 4) ++ doneP)) ++ (bspec e).2.2
        = (pre ++ doneW) ++ (zeros 4 ++ (zeros (kvs.length * 4) ++ (doneP ++ (bspec e).2.2))) := by
      simp
    rw [e1, hidx, ← List.length_append, replaceJentry_mid _ _ _ _ (by simp)]
    have ih := buildObjVals_spec kvs pre (doneW ++ u32be (jentryWord (bspec e).1 (bspec e).2.1))
      (doneP ++ (bspec e).2.2)
      ((pre ++ doneW).length + 4) (acc + (bspec e).2.1 % 4294967296) (by simp; omega)
    simp only [List.append_assoc] at ih ⊢
    rw [ih]
    simp only [bwordsK, bpaysK, bsizeK, List.append_assoc]
    congr 2
    omega
theorem buildObjKeys_spec : (kvs : List (Bytes × BEntry)) → (pre doneW doneK : Bytes) →
    (nz idx acc : Nat) → idx = pre.length + doneW.length →
    buildObjKeys (pre ++ (doneW ++ (zeros (kvs.length * 4) ++ (zeros nz ++ doneK)))) idx acc kvs
      = .ok (pre ++ (doneW ++ (bkeyWords kvs ++ (zeros nz ++ (doneK ++ bkeyBytes kvs)))),
             idx + kvs.length * 4, acc + (bkeyBytes kvs).length)
  | [], pre, doneW, doneK, nz, idx, acc, _ => by simp [buildObjKeys, bkeyWords, bkeyBytes, zeros]
  | (k, v) :: kvs, pre, doneW, doneK, nz, idx, acc, hidx => by
    simp only [buildObjKeys, List.length_cons]
    rw [zeros_succ4]
    have e1 : pre ++ (doneW ++ (zeros 4 ++ zeros (kvs.length * 4) ++ (zeros nz ++ doneK))) ++ k
        = (pre ++ doneW) ++ (zeros 4 ++ (zeros (kvs.length * 4) ++ (zeros nz ++ (doneK ++ k)))) := by
      simp
    rw [e1, hidx, ← List.length_append, replaceJentry_mid _ _ _ _ (by simp)]
    have ih := buildObjKeys_spec kvs pre (doneW ++ u32be (jentryWord C.STRING_TAG k.length)) (doneK ++ k) nz
      ((pre ++ doneW).length + 4) (acc + k.length) (by simp; omega)
    simp only [List.append_assoc] at ih ⊢
    rw [ih]
    simp only [bkeyWords, bkeyBytes, List.append_assoc, List.length_append]
    congr 2 <;> (try congr 1) <;> omega
end

/-- **frame property of both builders**: only appends, for every prior buffer content -/
theorem buildArrayInto_spec (buf : Bytes) (es : List BEntry) :
    buildArrayInto buf es = .ok (buf ++ (bspec (.arr es)).2.2) := by
  simp [buildArrayInto, buildEntry_spec]

theorem buildObjectInto_spec (buf : Bytes) (kvs : List (Bytes × BEntry)) :
    buildObjectInto buf kvs = .ok (buf ++ (bspec (.obj kvs)).2.2) := by
  simp [buildObjectInto, buildEntry_spec]

end Jsonb
