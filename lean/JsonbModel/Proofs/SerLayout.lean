/-
The reserve-then-patch encoder of ser.rs writes exactly the README layout, and only appends:
`encValue buf v = ok (buf ++ payload v, type v, length v)` for every prior buffer content.
(C01 layout, C17 frame property for `Value::write_to_vec`.)
-/
import JsonbModel.Ser
import JsonbModel.Proofs.Codec

namespace Jsonb
open JV

theorem setBytes_mid (a z b w : Bytes) (h : z.length = w.length) :
    setBytes (a ++ (z ++ b)) a.length w = a ++ (w ++ b) := by
  induction w generalizing a z with
  | nil =>
    cases z with
    | nil => simp [setBytes]
    | cons _ _ => simp at h
  | cons x w ih =>
    cases z with
    | nil => simp at h
    | cons y z =>
      simp only [setBytes]
      have e1 : (a ++ (y :: z ++ b)).set a.length x = (a ++ [x]) ++ (z ++ b) := by
        simp [List.set_append]
      rw [e1]
      have := ih (a ++ [x]) z (by simpa using h)
      simp only [List.length_append, List.length_cons, List.length_nil, Nat.zero_add] at this
      rw [this]; simp

theorem zeros_succ4 (n : Nat) : zeros ((n + 1) * 4) = zeros 4 ++ zeros (n * 4) := by
  unfold zeros
  rw [show (n + 1) * 4 = 4 + n * 4 by omega, ← List.replicate_append_replicate]

theorem zeros_succ8 (n : Nat) : zeros ((n + 1) * 8) = zeros 4 ++ zeros (n * 8 + 4) := by
  unfold zeros
  rw [show (n + 1) * 8 = 4 + (n * 8 + 4) by omega, ← List.replicate_append_replicate]

theorem zeros_add4 (n : Nat) : zeros (n + 4) = zeros 4 ++ zeros n := by
  unfold zeros
  rw [show n + 4 = 4 + n by omega, ← List.replicate_append_replicate]

@[simp] theorem zeros_length (n : Nat) : (zeros n).length = n := by simp [zeros]

theorem replaceJentry_mid (a z b : Bytes) (w : Nat) (hz : z.length = 4) :
    replaceJentry (a ++ (z ++ b)) w a.length = .ok (a ++ (u32be w ++ b)) := by
  unfold replaceJentry
  rw [if_pos (by simp; omega)]
  rw [setBytes_mid a z b (u32be w) (by simp [hz])]

theorem lor_eq_add_entry (v : JV) (h : elen v < 268435456) :
    jentryWord (ety v) (elen v % 4294967296) = (entry v).1 := by
  have ⟨h1, h2⟩ := ety_form v
  unfold jentryWord
  rw [Nat.mod_eq_of_lt (by omega), Nat.mod_eq_of_lt (by omega), entry_fst, h1]
  have := or_lo (ety v / 268435456) 28 (elen v) (by omega)
  rw [← p28] at this
  exact this

theorem jentryWord_key (k : Bytes) (h : k.length < 268435456) :
    jentryWord C.STRING_TAG k.length = C.STRING_TAG + k.length := by
  have e1 : C.STRING_TAG = 1 * 268435456 := by decide
  unfold jentryWord
  rw [Nat.mod_eq_of_lt (by omega), e1]
  have := or_lo 1 28 k.length (by omega)
  rw [← p28] at this
  exact this

theorem headerWord_eq (t n : Nat) (hn : n < 536870912) :
    headerWord (t * 536870912) n = t * 536870912 + n := by
  unfold headerWord
  rw [Nat.mod_eq_of_lt (by omega)]
  have := or_lo t 29 n (by omega)
  rw [← p29] at this
  exact this


mutual
theorem encValue_spec : (v : JV) → good v = true → (buf : Bytes) →
    encValue buf v = .ok (buf ++ (entry v).2, ety v, elen v % 4294967296)
  | .null, _, buf => by simp [encValue, entry, ety, elen]
  | .bool true, _, buf => by simp [encValue, entry, ety, elen]
  | .bool false, _, buf => by simp [encValue, entry, ety, elen]
  | .num n, _, buf => by simp [encValue, entry, ety, elen]
  | .str s, _, buf => by simp [encValue, entry, ety, elen]
  | .arr vs, hg, buf => by
    simp only [good, Bool.and_eq_true, decide_eq_true_eq] at hg
    obtain ⟨⟨hn, _⟩, hgl⟩ := hg
    have hw : headerWord C.ARRAY_CONTAINER_TAG vs.length = C.ARRAY_CONTAINER_TAG + vs.length := by
      rw [tag_arr']; exact headerWord_eq 4 _ hn
    have ih := encArrLoop_spec vs hgl (buf ++ u32be (C.ARRAY_CONTAINER_TAG + vs.length)) [] []
      (buf.length + 4) (4 + vs.length * 4) (by simp)
    simp only [List.append_nil, List.nil_append, List.append_assoc] at ih
    simp only [encValue, hw, List.append_assoc]
    rw [ih]
    simp only [entry, ety, elen, List.append_assoc, List.length_append, u32be_length,
      wordsL_length']
    congr 3
    omega
  | .obj kvs, hg, buf => by
    simp only [good, Bool.and_eq_true, decide_eq_true_eq] at hg
    obtain ⟨⟨⟨hn, _⟩, _⟩, hgk⟩ := hg
    have hw : headerWord C.OBJECT_CONTAINER_TAG kvs.length = C.OBJECT_CONTAINER_TAG + kvs.length := by
      rw [tag_obj']; exact headerWord_eq 2 _ hn
    have ihk := encObjKeys_spec kvs hgk (buf ++ u32be (C.OBJECT_CONTAINER_TAG + kvs.length)) [] []
      (kvs.length * 4) (buf.length + 4) (4 + kvs.length * 8) (by simp)
    simp only [List.append_nil, List.nil_append] at ihk
    have ihv := encObjVals_spec kvs hgk (buf ++ u32be (C.OBJECT_CONTAINER_TAG + kvs.length)) (keyWords kvs)
      (keyBytes kvs) (buf.length + 4 + kvs.length * 4) (4 + kvs.length * 8 + (keyBytes kvs).length)
      (by simp [keyWords_length'])
    have hz : zeros (kvs.length * 8) = zeros (kvs.length * 4) ++ zeros (kvs.length * 4) := by
      unfold zeros; rw [List.replicate_append_replicate]; congr 1; omega
    simp only [encValue, hw, hz, List.append_assoc] at ihk ⊢
    rw [ihk]
    simp only [List.append_assoc] at ihv
    simp only [ihv, entry, ety, elen, List.append_assoc, List.length_append, u32be_length,
      wordsK_length', keyWords_length']
    congr 3
    omega
theorem encArrLoop_spec : (vs : List JV) → goodL vs = true → (pre doneW doneP : Bytes) →
    (idx acc : Nat) → idx = pre.length + doneW.length →
    encArrLoop (pre ++ (doneW ++ (zeros (vs.length * 4) ++ doneP))) idx acc vs
      = .ok (pre ++ (doneW ++ (wordsL vs ++ (doneP ++ paysL vs))), acc + (paysL vs).length)
  | [], _, pre, doneW, doneP, idx, acc, _ => by simp [encArrLoop, wordsL, paysL, zeros]
  | v :: vs, hg, pre, doneW, doneP, idx, acc, hidx => by
    simp only [goodL, Bool.and_eq_true] at hg
    have hl := elen_lt_of_good v hg.1
    simp only [encArrLoop, List.length_cons]
    rw [encValue_spec v hg.1]
    simp only [lor_eq_add_entry v hl]
    rw [zeros_succ4]
    have e1 : pre ++ (doneW ++ (zeros 4 ++ zeros (vs.length * 4) ++ doneP)) ++ (entry v).2
        = (pre ++ doneW) ++ (zeros 4 ++ (zeros (vs.length * 4) ++ (doneP ++ (entry v).2))) := by
      simp
    rw [e1, hidx, ← List.length_append, replaceJentry_mid _ _ _ _ (by simp)]
    have ih := encArrLoop_spec vs hg.2 pre (doneW ++ u32be (entry v).1) (doneP ++ (entry v).2)
      ((pre ++ doneW).length + 4) (acc + elen v % 4294967296) (by simp; omega)
    simp only [List.append_assoc] at ih ⊢
    rw [ih]
    simp only [wordsL, paysL, List.append_assoc, List.length_append, elen]
    rw [Nat.mod_eq_of_lt (by simp only [elen] at hl; omega)]
    congr 2
    omega
theorem encObjVals_spec : (kvs : List (Bytes × JV)) → goodK kvs = true → (pre doneW doneP : Bytes) →
    (idx acc : Nat) → idx = pre.length + doneW.length →
    encObjVals (pre ++ (doneW ++ (zeros (kvs.length * 4) ++ doneP))) idx acc kvs
      = .ok (pre ++ (doneW ++ (wordsK kvs ++ (doneP ++ paysK kvs))), acc + (paysK kvs).length)
  | [], _, pre, doneW, doneP, idx, acc, _ => by simp [encObjVals, wordsK, paysK, zeros]
  | (k, v) :: kvs, hg, pre, doneW, doneP, idx, acc, hidx => by
    simp only [goodK, Bool.and_eq_true] at hg
    have hl := elen_lt_of_good v hg.1.2
    simp only [encObjVals, List.length_cons]
    rw [encValue_spec v hg.1.2]
    simp only [lor_eq_add_entry v hl]
    rw [zeros_succ4]
    have e1 : pre ++ (doneW ++ (zeros 4 ++ zeros (kvs.length * 4) ++ doneP)) ++ (entry v).2
        = (pre ++ doneW) ++ (zeros 4 ++ (zeros (kvs.length * 4) ++ (doneP ++ (entry v).2))) := by
      simp
    rw [e1, hidx, ← List.length_append, replaceJentry_mid _ _ _ _ (by simp)]
    have ih := encObjVals_spec kvs hg.2 pre (doneW ++ u32be (entry v).1) (doneP ++ (entry v).2)
      ((pre ++ doneW).length + 4) (acc + elen v % 4294967296) (by simp; omega)
    simp only [List.append_assoc] at ih ⊢
    rw [ih]
    simp only [wordsK, paysK, List.append_assoc, List.length_append, elen]
    rw [Nat.mod_eq_of_lt (by simp only [elen] at hl; omega)]
    congr 2
    omega
theorem encObjKeys_spec : (kvs : List (Bytes × JV)) → goodK kvs = true → (pre doneW doneK : Bytes) →
    (nz idx acc : Nat) → idx = pre.length + doneW.length →
    encObjKeys (pre ++ (doneW ++ (zeros (kvs.length * 4) ++ (zeros nz ++ doneK)))) idx acc kvs
      = .ok (pre ++ (doneW ++ (keyWords kvs ++ (zeros nz ++ (doneK ++ keyBytes kvs)))),
             idx + kvs.length * 4, acc + (keyBytes kvs).length)
  | [], _, pre, doneW, doneK, nz, idx, acc, _ => by simp [encObjKeys, keyWords, keyBytes, zeros]
  | (k, v) :: kvs, hg, pre, doneW, doneK, nz, idx, acc, hidx => by
    simp only [goodK, Bool.and_eq_true, decide_eq_true_eq] at hg
    have hl := hg.1.1.1
    simp only [encObjKeys, List.length_cons]
    rw [jentryWord_key k hl, zeros_succ4]
    have e1 : pre ++ (doneW ++ (zeros 4 ++ zeros (kvs.length * 4) ++ (zeros nz ++ doneK))) ++ k
        = (pre ++ doneW) ++ (zeros 4 ++ (zeros (kvs.length * 4) ++ (zeros nz ++ (doneK ++ k)))) := by
      simp
    rw [e1, hidx, ← List.length_append, replaceJentry_mid _ _ _ _ (by simp)]
    have ih := encObjKeys_spec kvs hg.2 pre (doneW ++ u32be (C.STRING_TAG + k.length)) (doneK ++ k) nz
      ((pre ++ doneW).length + 4) (acc + k.length) (by simp; omega)
    simp only [List.append_assoc] at ih ⊢
    rw [ih]
    simp only [keyWords, keyBytes, List.append_assoc, List.length_append]
    congr 2 <;> (try congr 1) <;> omega
end


theorem encValue_arr_top (vs : List JV) (hn : vs.length < 536870912) (hgl : goodL vs = true)
    (buf : Bytes) :
    encValue buf (arr vs) = .ok (buf ++ (entry (arr vs)).2, C.CONTAINER_TAG, elen (arr vs) % 4294967296) := by
  have hw : headerWord C.ARRAY_CONTAINER_TAG vs.length = C.ARRAY_CONTAINER_TAG + vs.length := by
    rw [tag_arr']; exact headerWord_eq 4 _ hn
  have ih := encArrLoop_spec vs hgl (buf ++ u32be (C.ARRAY_CONTAINER_TAG + vs.length)) [] []
    (buf.length + 4) (4 + vs.length * 4) (by simp)
  simp only [List.append_nil, List.nil_append, List.append_assoc] at ih
  simp only [encValue, hw, List.append_assoc]
  rw [ih]
  simp only [entry, elen, List.length_append, u32be_length, wordsL_length']
  congr 3
  omega

theorem encValue_obj_top (kvs : List (Bytes × JV)) (hn : kvs.length < 536870912)
    (hgk : goodK kvs = true) (buf : Bytes) :
    encValue buf (obj kvs) = .ok (buf ++ (entry (obj kvs)).2, C.CONTAINER_TAG, elen (obj kvs) % 4294967296) := by
  have hw : headerWord C.OBJECT_CONTAINER_TAG kvs.length = C.OBJECT_CONTAINER_TAG + kvs.length := by
    rw [tag_obj']; exact headerWord_eq 2 _ hn
  have ihk := encObjKeys_spec kvs hgk (buf ++ u32be (C.OBJECT_CONTAINER_TAG + kvs.length)) [] []
    (kvs.length * 4) (buf.length + 4) (4 + kvs.length * 8) (by simp)
  simp only [List.append_nil, List.nil_append] at ihk
  have ihv := encObjVals_spec kvs hgk (buf ++ u32be (C.OBJECT_CONTAINER_TAG + kvs.length)) (keyWords kvs)
    (keyBytes kvs) (buf.length + 4 + kvs.length * 4) (4 + kvs.length * 8 + (keyBytes kvs).length)
    (by simp [keyWords_length'])
  have hz : zeros (kvs.length * 8) = zeros (kvs.length * 4) ++ zeros (kvs.length * 4) := by
    unfold zeros; rw [List.replicate_append_replicate]; congr 1; omega
  simp only [encValue, hw, hz, List.append_assoc] at ihk ⊢
  rw [ihk]
  simp only [List.append_assoc] at ihv
  simp only [ihv, entry, elen, List.length_append, u32be_length,
    wordsK_length', keyWords_length']
  congr 3
  omega

/-- **C17 for `Value::write_to_vec`, C01 layout**: for every prior buffer content the encoder
only appends, and what it appends is the README layout of the value. -/
theorem writeToVec_spec (pre : Bytes) (v : JV) (hg : goodTop v = true) :
    writeToVec pre v = .ok (pre ++ encodeSpec v) := by
  cases v with
  | arr vs =>
    simp only [goodTop, Bool.and_eq_true, decide_eq_true_eq] at hg
    simp only [writeToVec, encValue_arr_top vs hg.1 hg.2, encodeSpec]
  | obj kvs =>
    simp only [goodTop, Bool.and_eq_true, decide_eq_true_eq] at hg
    simp only [writeToVec, encValue_obj_top kvs hg.1.1 hg.2, encodeSpec]
  | null => exact scalarDoc pre null hg
  | bool b => exact scalarDoc pre (bool b) hg
  | num n => exact scalarDoc pre (num n) hg
  | str s => exact scalarDoc pre (str s) hg
where
  scalarDoc (pre : Bytes) (v : JV) (hg : good v = true) :
      encScalarDoc pre v = .ok (pre ++ (u32be C.SCALAR_CONTAINER_TAG ++ (u32be (entry v).1 ++ (entry v).2))) := by
    have hl := elen_lt_of_good v hg
    unfold encScalarDoc
    rw [encValue_spec v hg]
    simp only [lor_eq_add_entry v hl]
    have e1 : pre ++ u32be C.SCALAR_CONTAINER_TAG ++ zeros 4 ++ (entry v).2
        = (pre ++ u32be C.SCALAR_CONTAINER_TAG) ++ (zeros 4 ++ (entry v).2) := by simp
    have e2 : pre.length + 4 = (pre ++ u32be C.SCALAR_CONTAINER_TAG).length := by simp
    rw [e1, e2, replaceJentry_mid _ _ _ _ (by simp)]
    simp

theorem toVec_eq_encodeSpec (v : JV) (hg : goodTop v = true) : toVec v = .ok (encodeSpec v) := by
  have := writeToVec_spec [] v hg
  simpa [toVec] using this

end Jsonb
