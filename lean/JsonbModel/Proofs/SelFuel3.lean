/-
Quantitative fuel adequacy for the JSONPath selector, part 3: the refinement theorem with an
EXPLICIT spec fuel.

`select_main` (SelectRefine3) shows: when the model answers `.ok` the tree evaluator answers the
represented items "for all sufficiently large fuel".  Here the bound is made explicit: a model
answer at fuel `F` is reproduced by the spec at every fuel `≥ F + m`, for any `m` above the size
of the path.  (The slack `m` pays for the comparison operands: the model's `exprVal` runs an
operand path without consuming fuel, the spec's `operandValues` goes through `evalPaths`.)
No Mathlib.
-/
import JsonbModel.Proofs.SelFuel2

namespace Jsonb
open JV Sel

/-- the spec answers `r` at every fuel from `F + m` on -/
def EvQ {α : Type} (m F : Nat) (g : Nat → Option α) (r : α) : Prop := ∀ f, F + m ≤ f → g f = some r

theorem EvQ_succ {α β : Type} {m F : Nat} {g : Nat → Option α} {h : Nat → Option β} {r : α} {s : β}
    (hs : ∀ f, h f = some s → g (f + 1) = some r) (hh : EvQ m F h s) : EvQ m (F + 1) g r := by
  intro f hf
  obtain ⟨f', rfl⟩ : ∃ f', f = f' + 1 := ⟨f - 1, by omega⟩
  exact hs f' (hh f' (by omega))

theorem EvQ_succ2 {α β γ : Type} {m F : Nat} {g : Nat → Option α} {h1 : Nat → Option β}
    {h2 : Nat → Option γ} {r : α} {s1 : β} {s2 : γ}
    (hs : ∀ f, h1 f = some s1 → h2 f = some s2 → g (f + 1) = some r) (hh1 : EvQ m F h1 s1)
    (hh2 : EvQ m F h2 s2) : EvQ m (F + 1) g r := by
  intro f hf
  obtain ⟨f', rfl⟩ : ∃ f', f = f' + 1 := ⟨f - 1, by omega⟩
  exact hs f' (hh1 f' (by omega)) (hh2 f' (by omega))

theorem EvQ_const_succ {α : Type} {m F : Nat} {g : Nat → Option α} {r : α} (hs : ∀ f, g (f + 1) = some r) :
    EvQ m (F + 1) g r := by
  intro f hf
  obtain ⟨f', rfl⟩ : ∃ f', f = f' + 1 := ⟨f - 1, by omega⟩
  exact hs f'

theorem exprSize_pos (e : Expr) : 1 ≤ exprSize e := by
  cases e <;> simp only [exprSize] <;> omega

/-! ### comparison operands -/

/-- operand steps: the spec needs one unit per step and one for the end of the list -/
theorem operandSteps_repQ (v₀ : JV) (root : Bytes) : ∀ (rest : List Path) (ps : List Pos) (ws : List JV)
    (ps' : List Pos), operandSteps root rest ps = .ok ps' → Sel.RepL root ps ws →
    ∃ ws', Sel.RepL root ps' ws' ∧ ∀ f, rest.length + 1 ≤ f → Spec.evalSteps f v₀ rest ws = some ws'
  | [], ps, ws, ps', h, hr => by
    simp only [operandSteps, Res.ok.injEq] at h
    subst h
    refine ⟨ws, hr, fun f hf => ?_⟩
    obtain ⟨f', rfl⟩ : ∃ f', f = f' + 1 := ⟨f - 1, by omega⟩
    simp only [Spec.evalSteps]
  | p :: rest, ps, ws, ps', h, hr => by
    by_cases hp : isPlain p = true
    · rw [operandSteps_plain root p hp] at h
      cases hs : stepAll root p ps with
      | ok ps1 =>
        rw [hs] at h
        simp only [] at h
        have hr1 := stepAll_ok_rep root p hp ps ws ps1 hr hs
        obtain ⟨ws', h1, h2⟩ := operandSteps_repQ v₀ root rest ps1 _ ps' h hr1
        refine ⟨ws', h1, fun f hf => ?_⟩
        simp only [List.length_cons] at hf
        obtain ⟨f', rfl⟩ : ∃ f', f = f' + 1 := ⟨f - 1, by omega⟩
        rw [evalSteps_plain f' v₀ p hp]; exact h2 f' (by omega)
      | err e => rw [hs] at h; simp at h
      | panic s => rw [hs] at h; simp at h
      | fuel => rw [hs] at h; simp at h
    · rw [operandSteps_notPlain root p (by simpa using hp)] at h
      simp at h

/-- `convert_expr_val`: the spec's operand needs `exprSize e + 2` units -/
theorem exprVal_repQ (v₀ : JV) (hg : goodTop v₀ = true) (fuel : Nat) (pos : Pos) (w : JV) (e : Expr)
    (vals : List PathValue) (h : exprVal fuel (encodeSpec v₀) pos e = .ok vals) (hok : okOperand e = true)
    (hr : Sel.Rep (encodeSpec v₀) pos w) :
    ∃ svals, PVL vals svals ∧ ∀ f, exprSize e + 2 ≤ f → Spec.operandValues f v₀ w e = some svals := by
  cases fuel with
  | zero => simp [exprVal] at h
  | succ fuel =>
    cases e with
    | value v =>
      simp only [exprVal, Res.ok.injEq] at h
      subst h
      refine ⟨[v], PVL_refl _, fun f hf => ?_⟩
      obtain ⟨f', rfl⟩ : ∃ f', f = f' + 1 := ⟨f - 1, by omega⟩
      simp only [Spec.operandValues]
    | paths paths =>
      simp only [okOperand] at hok
      rw [exprVal_paths] at h
      have hst1 := startOf_exprStart (encodeSpec v₀) pos paths
      generalize exprStart (encodeSpec v₀) pos paths = start at h hst1
      have hrs := startOf_rep v₀ hg (some pos) (some w) paths start hst1 hr
      cases hos : operandSteps (encodeSpec v₀) (paths.drop 1) [start] with
      | ok ps1 =>
        rw [hos] at h
        simp only [] at h
        obtain ⟨ws1, h1, h2⟩ := operandSteps_repQ v₀ (encodeSpec v₀) (paths.drop 1) [start]
          [sstartOf v₀ (some w) paths] ps1 hos ⟨hrs, trivial⟩
        obtain ⟨vals', h3, h4⟩ := valuesOf_rep (encodeSpec v₀) ps1 ws1 h1
        rw [h3] at h
        simp only [Res.ok.injEq] at h
        subst h
        refine ⟨ws1.filterMap Spec.toPathValue, h4, fun f hf => ?_⟩
        have hlen := length_le_pathsSize paths
        simp only [exprSize] at hf
        -- the spec walks the whole list, whose head `$`/`@` is skipped
        have hev : ∀ g, paths.length + 2 ≤ g → Spec.evalPaths g v₀ (some w) paths = some ws1 := by
          intro g hg'
          obtain ⟨g', rfl⟩ : ∃ g', g = g' + 1 := ⟨g - 1, by omega⟩
          rw [evalPaths_succ]
          cases paths with
          | nil => exact h2 g' (by simp only [List.length_nil] at hg'; simp; omega)
          | cons p rest =>
            have hp : p = .root ∨ p = .current := by
              cases p <;> simp_all [headOK]
            simp only [List.length_cons] at hg'
            obtain ⟨g'', rfl⟩ : ∃ g'', g' = g'' + 1 := ⟨g' - 1, by omega⟩
            have h2' := h2 g'' (by simp only [List.drop_succ_cons, List.drop_zero]; omega)
            rcases hp with rfl | rfl <;> (simp only [Spec.evalSteps]; exact h2')
        obtain ⟨f', rfl⟩ : ∃ f', f = f' + 1 := ⟨f - 1, by omega⟩
        simp only [Spec.operandValues, hev f' (by omega), Option.map_some]
      | err e => rw [hos] at h; simp at h
      | panic s => rw [hos] at h; simp at h
      | fuel => rw [hos] at h; simp at h
    | binaryOp op l r => simp [exprVal] at h
    | arithUnary op e => simp [exprVal] at h
    | arithBinary op l r => simp [exprVal] at h
    | existsFn ps => simp [exprVal] at h

/-! ### the four fuel-indexed statements, spec fuel `≥ model fuel + m` -/

def FindQ (m : Nat) (v₀ : JV) (fuel : Nat) : Prop :=
  ∀ (cur : Option Pos) (scur : Option JV) (paths : List Path) (ps' : List Pos),
    findPositions fuel (encodeSpec v₀) cur paths = .ok ps' → okPaths paths = true → pathsSize paths < m →
    RepO (encodeSpec v₀) cur scur →
    ∃ ws', Sel.RepL (encodeSpec v₀) ps' ws' ∧ EvQ m fuel (fun f => Spec.evalPaths f v₀ scur paths) ws'

def WalkQ (m : Nat) (v₀ : JV) (fuel : Nat) : Prop :=
  ∀ (paths : List Path) (ps : List Pos) (ws : List JV) (ps' : List Pos),
    walk fuel (encodeSpec v₀) paths ps = .ok ps' → okPaths paths = true → pathsSize paths < m →
    Sel.RepL (encodeSpec v₀) ps ws →
    ∃ ws', Sel.RepL (encodeSpec v₀) ps' ws' ∧ EvQ m fuel (fun f => Spec.evalSteps f v₀ paths ws) ws'

def FilterAllQ (m : Nat) (v₀ : JV) (fuel : Nat) : Prop :=
  ∀ (e : Expr) (ps : List Pos) (ws : List JV) (ps' : List Pos),
    filterAll fuel (encodeSpec v₀) e ps = .ok ps' → okExpr e = true → exprSize e < m →
    Sel.RepL (encodeSpec v₀) ps ws →
    ∃ ws', Sel.RepL (encodeSpec v₀) ps' ws' ∧ EvQ m fuel (fun f => Spec.filterItems f v₀ e ws) ws'

def FilterExprQ (m : Nat) (v₀ : JV) (fuel : Nat) : Prop :=
  ∀ (e : Expr) (pos : Pos) (w : JV) (b : Bool),
    filterExpr fuel (encodeSpec v₀) pos e = .ok b → okExpr e = true → exprSize e < m →
    Sel.Rep (encodeSpec v₀) pos w →
    EvQ m fuel (fun f => Spec.evalFilter f v₀ w e) b

theorem findQ_succ (m : Nat) (v₀ : JV) (hg : goodTop v₀ = true) (fuel : Nat) (hw : WalkQ m v₀ fuel) :
    FindQ m v₀ (fuel + 1) := by
  intro cur scur paths ps' h hok hm hc
  rw [findPositions_succ] at h
  cases hs : startOf (encodeSpec v₀) cur paths with
  | ok start =>
    rw [hs] at h
    simp only [] at h
    have hrs := startOf_rep v₀ hg cur scur paths start hs hc
    obtain ⟨ws', h1, h2⟩ := hw paths [start] [sstartOf v₀ scur paths] ps' h hok hm ⟨hrs, trivial⟩
    refine ⟨ws', h1, EvQ_succ (fun f hf => ?_) h2⟩
    rw [evalPaths_succ]; exact hf
  | err e => rw [hs] at h; simp at h
  | panic s => rw [hs] at h; simp at h
  | fuel => rw [hs] at h; simp at h

theorem walkQ_succ (m : Nat) (v₀ : JV) (fuel : Nat) (hw : WalkQ m v₀ fuel) (hfa : FilterAllQ m v₀ fuel) :
    WalkQ m v₀ (fuel + 1) := by
  intro paths ps ws ps' h hok hm hr
  cases paths with
  | nil =>
    simp only [walk, Res.ok.injEq] at h
    subst h
    exact ⟨ws, hr, EvQ_const_succ (fun f => by simp only [Spec.evalSteps])⟩
  | cons p rest =>
    simp only [okPaths, Bool.and_eq_true] at hok
    simp only [pathsSize] at hm
    have hpp := pathSize_pos p
    by_cases hp : isPlain p = true
    · rw [walk_plain fuel _ p hp] at h
      cases hs : stepAll (encodeSpec v₀) p ps with
      | ok ps1 =>
        rw [hs] at h
        simp only [] at h
        have hr1 := stepAll_ok_rep _ p hp ps ws ps1 hr hs
        obtain ⟨ws', h1, h2⟩ := hw rest ps1 _ ps' h hok.2 (by omega) hr1
        refine ⟨ws', h1, EvQ_succ (fun f hf => ?_) h2⟩
        rw [evalSteps_plain f v₀ p hp]; exact hf
      | err e => rw [hs] at h; simp at h
      | panic s => rw [hs] at h; simp at h
      | fuel => rw [hs] at h; simp at h
    · have hcases : p = .root ∨ p = .current ∨ ∃ e, (p = .filterExpr e ∨ p = .predicate e) := by
        cases p <;> simp_all [isPlain]
      rcases hcases with rfl | rfl | ⟨e, hpe⟩
      · simp only [walk] at h
        obtain ⟨ws', h1, h2⟩ := hw rest ps ws ps' h hok.2 (by omega) hr
        exact ⟨ws', h1, EvQ_succ (fun f hf => by simp only [Spec.evalSteps]; exact hf) h2⟩
      · simp only [walk] at h
        obtain ⟨ws', h1, h2⟩ := hw rest ps ws ps' h hok.2 (by omega) hr
        exact ⟨ws', h1, EvQ_succ (fun f hf => by simp only [Spec.evalSteps]; exact hf) h2⟩
      · have hoke : okExpr e = true := by
          rcases hpe with rfl | rfl <;> simpa [okPath] using hok.1
        have hse : pathSize p = 1 + exprSize e := by
          rcases hpe with rfl | rfl <;> simp only [pathSize]
        rw [walk_filter fuel _ p e hpe] at h
        cases hs : filterAll fuel (encodeSpec v₀) e ps with
        | ok ps1 =>
          rw [hs] at h
          simp only [] at h
          obtain ⟨ws1, hr1, hev1⟩ := hfa e ps ws ps1 hs hoke (by omega) hr
          obtain ⟨ws', h1, h2⟩ := hw rest ps1 ws1 ps' h hok.2 (by omega) hr1
          refine ⟨ws', h1, EvQ_succ2 (fun f hf1 hf2 => ?_) hev1 h2⟩
          rw [evalSteps_filter f v₀ p e hpe, hf1]; exact hf2
        | err e => rw [hs] at h; simp at h
        | panic s => rw [hs] at h; simp at h
        | fuel => rw [hs] at h; simp at h

theorem filterAllQ_succ (m : Nat) (v₀ : JV) (fuel : Nat) (hfe : FilterExprQ m v₀ fuel)
    (hfa : FilterAllQ m v₀ fuel) : FilterAllQ m v₀ (fuel + 1) := by
  intro e ps ws ps' h hok hm hr
  cases ps with
  | nil =>
    have := RepL_nil_left hr
    subst this
    simp only [filterAll, Res.ok.injEq] at h
    subst h
    exact ⟨[], trivial, EvQ_const_succ (fun f => by simp only [Spec.filterItems])⟩
  | cons pos rest =>
    cases ws with
    | nil => exact hr.elim
    | cons w ws =>
      simp only [filterAll] at h
      cases hk : filterExpr fuel (encodeSpec v₀) pos e with
      | ok keep =>
        rw [hk] at h
        simp only [] at h
        cases hrest : filterAll fuel (encodeSpec v₀) e rest with
        | ok r =>
          rw [hrest] at h
          simp only [Res.ok.injEq] at h
          subst h
          have hev1 := hfe e pos w keep hk hok hm hr.1
          obtain ⟨ws1, hr1, hev2⟩ := hfa e rest ws r hrest hok hm hr.2
          refine ⟨if keep then w :: ws1 else ws1, ?_, EvQ_succ2 (fun f hf1 hf2 => ?_) hev1 hev2⟩
          · cases keep
            · simpa using hr1
            · exact (⟨hr.1, hr1⟩ : Sel.RepL _ (pos :: r) (w :: ws1))
          · simp only [Spec.filterItems, hf1, hf2]
        | err e => rw [hrest] at h; simp at h
        | panic s => rw [hrest] at h; simp at h
        | fuel => rw [hrest] at h; simp at h
      | err e => rw [hk] at h; simp at h
      | panic s => rw [hk] at h; simp at h
      | fuel => rw [hk] at h; simp at h

theorem filterExprQ_succ (m : Nat) (v₀ : JV) (hg : goodTop v₀ = true) (fuel : Nat)
    (hfe : FilterExprQ m v₀ fuel) (hfp : FindQ m v₀ fuel) : FilterExprQ m v₀ (fuel + 1) := by
  intro e pos w b h hok hm hr
  cases e with
  | binaryOp op l r =>
    simp only [okExpr] at hok
    simp only [exprSize] at hm
    have hpl := exprSize_pos l
    have hpr := exprSize_pos r
    by_cases hor : op = .or
    · subst hor
      simp only [isLogic, if_true, Bool.and_eq_true] at hok
      simp only [filterExpr] at h
      cases hl : filterExpr fuel (encodeSpec v₀) pos l <;> cases hrr : filterExpr fuel (encodeSpec v₀) pos r <;>
        rw [hl, hrr] at h <;> simp only [] at h <;> first | (simp at h; done) | skip
      rename_i a c
      simp only [Res.ok.injEq] at h
      subst h
      refine EvQ_succ2 (fun f hf1 hf2 => ?_) (hfe l pos w a hl hok.1 (by omega) hr)
        (hfe r pos w c hrr hok.2 (by omega) hr)
      simp only [Spec.evalFilter, hf1, hf2]
    · by_cases hand : op = .and
      · subst hand
        simp only [isLogic, if_true, Bool.and_eq_true] at hok
        simp only [filterExpr] at h
        cases hl : filterExpr fuel (encodeSpec v₀) pos l <;> cases hrr : filterExpr fuel (encodeSpec v₀) pos r <;>
          rw [hl, hrr] at h <;> simp only [] at h <;> first | (simp at h; done) | skip
        rename_i a c
        simp only [Res.ok.injEq] at h
        subst h
        refine EvQ_succ2 (fun f hf1 hf2 => ?_) (hfe l pos w a hl hok.1 (by omega) hr)
          (hfe r pos w c hrr hok.2 (by omega) hr)
        simp only [Spec.evalFilter, hf1, hf2]
      · have hlg : isLogic op = false := by cases op <;> simp_all [isLogic]
        simp only [hlg, Bool.false_eq_true, if_false, Bool.and_eq_true] at hok
        rw [filterExpr_cmp fuel _ pos op hand hor] at h
        cases hl : exprVal fuel (encodeSpec v₀) pos l with
        | ok lv =>
          rw [hl] at h
          simp only [] at h
          cases hrr : exprVal fuel (encodeSpec v₀) pos r with
          | ok rv =>
            rw [hrr] at h
            simp only [] at h
            obtain ⟨sl, hpl', hel⟩ := exprVal_repQ v₀ hg fuel pos w l lv hl hok.1 hr
            obtain ⟨sr, hpr', her⟩ := exprVal_repQ v₀ hg fuel pos w r rv hrr hok.2 hr
            have hb := anyPair_spec op hpl' hpr' b h
            intro f hf
            obtain ⟨f', rfl⟩ : ∃ f', f = f' + 1 := ⟨f - 1, by omega⟩
            show Spec.evalFilter (f' + 1) v₀ w (.binaryOp op l r) = some b
            rw [evalFilter_cmp f' v₀ w op hand hor, hel f' (by omega), her f' (by omega)]
            exact congrArg some hb.symm
          | err e => rw [hrr] at h; simp at h
          | panic s => rw [hrr] at h; simp at h
          | fuel => rw [hrr] at h; simp at h
        | err e => rw [hl] at h; simp at h
        | panic s => rw [hl] at h; simp at h
        | fuel => rw [hl] at h; simp at h
  | existsFn paths =>
    simp only [okExpr] at hok
    simp only [exprSize] at hm
    simp only [filterExpr] at h
    cases hf : findPositions fuel (encodeSpec v₀) (some pos) paths with
    | ok ps =>
      rw [hf] at h
      simp only [Res.map, Res.bind, Res.ok.injEq] at h
      subst h
      obtain ⟨ws', h1, h2⟩ := hfp (some pos) (some w) paths ps hf hok (by omega) hr
      refine EvQ_succ (fun f hf' => ?_) h2
      simp only [Spec.evalFilter, hf', Option.map_some, RepL_isEmpty h1]
    | err e => rw [hf] at h; simp [Res.map, Res.bind] at h
    | panic s => rw [hf] at h; simp [Res.map, Res.bind] at h
    | fuel => rw [hf] at h; simp [Res.map, Res.bind] at h
  | paths ps => simp [filterExpr] at h
  | value v => simp [filterExpr] at h
  | arithUnary op e => simp [filterExpr] at h
  | arithBinary op l r => simp [filterExpr] at h

/-- all four statements, by induction on the model's fuel -/
theorem select_mainQ (m : Nat) (v₀ : JV) (hg : goodTop v₀ = true) : ∀ fuel,
    FindQ m v₀ fuel ∧ WalkQ m v₀ fuel ∧ FilterAllQ m v₀ fuel ∧ FilterExprQ m v₀ fuel
  | 0 => by
    refine ⟨?_, ?_, ?_, ?_⟩
    · intro cur scur paths ps' h; simp [findPositions] at h
    · intro paths ps ws ps' h; simp [walk] at h
    · intro e ps ws ps' h; simp [filterAll] at h
    · intro e pos w b h; simp [filterExpr] at h
  | fuel + 1 => by
    obtain ⟨h1, h2, h3, h4⟩ := select_mainQ m v₀ hg fuel
    exact ⟨findQ_succ m v₀ hg fuel h2, walkQ_succ m v₀ fuel h2 h3, filterAllQ_succ m v₀ fuel h4 h3,
      filterExprQ_succ m v₀ hg fuel h4 h1⟩

/-- **quantitative refinement**: a model answer at fuel `F` is the spec's answer at every fuel
`≥ F + pathsSize jp + 1` -/
theorem findPositions_refines_quant (v₀ : JV) (hg : goodTop v₀ = true) (jp : JsonPath)
    (hok : okPaths jp = true) (F : Nat) (ps : List Pos)
    (h : findPositions F (encodeSpec v₀) none jp = .ok ps) :
    ∃ items, Sel.RepL (encodeSpec v₀) ps items ∧
      ∀ f, F + (pathsSize jp + 1) ≤ f → Spec.evalPaths f v₀ none jp = some items :=
  (select_mainQ (pathsSize jp + 1) v₀ hg F).1 none none jp ps h hok (by omega) trivial

end Jsonb
