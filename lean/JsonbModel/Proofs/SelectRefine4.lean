/-
C08 refinement, part 4: the public selector API on whole documents.

`select` in the four result modes, `exists` and `predicate_match`, stated on
`root = encodeSpec v₀`: whatever they return is determined by the items
`Spec.evalPaths … v₀ none jp` denotes — each item re-encoded as its own document
(`encodeSpec item`) with running end offsets, the first of them, one array of them, or the
boolean "there is an item".
-/
import JsonbModel.Proofs.SelectRefine3
import JsonbModel.Proofs.SelectModes

namespace Jsonb
open JV Sel

/-! ### the writers on a representing frontier -/

/-- running end offsets of the items written one after the other, starting at `acc` -/
def ends (acc : Nat) : List JV → List Nat
  | [] => []
  | w :: ws => (acc + (encodeSpec w).length) :: ends (acc + (encodeSpec w).length) ws

theorem word_eq (v : JV) (h : elen v < 268435456) : ety v ||| (elen v % 4294967296) = (entry v).1 := by
  have := lor_eq_add_entry v h
  unfold jentryWord at this
  rwa [Nat.mod_mod] at this

theorem rep_slice' {root : Bytes} {off len : Nat} {w : JV} (hlen : len = elen w) (h : At root off w) :
    slice root off (off + len) = .ok (entry w).2 := by
  subst hlen; exact rep_slice h

theorem encodeSpec_of_container (w : JV) (hs : isScalar w = false) : encodeSpec w = (entry w).2 := by
  cases w <;> simp_all [isScalar, encodeSpec]

theorem encodeSpec_scalarA' (w : JV) (hs : isScalar w = true) :
    encodeSpec w = u32be C.SCALAR_CONTAINER_TAG ++ (u32be (entry w).1 ++ (entry w).2) := by
  rw [encodeSpec_scalarA w hs]; simp

/-- **`build_values`** on positions that represent `ws` writes exactly `encodeSpec w` per item -/
theorem buildValues_rep (root : Bytes) : ∀ (ps : List Pos) (ws : List JV), Sel.RepL root ps ws →
    ∀ (data : Bytes) (offs : List Nat),
      buildValues root ps data offs = .ok (data ++ ws.flatMap encodeSpec, offs ++ ends data.length ws)
  | [], [], _, data, offs => by simp [buildValues, ends]
  | [], _ :: _, h, _, _ => h.elim
  | _ :: _, [], h, _, _ => h.elim
  | .container off len :: ps, w :: ws, h, data, offs => by
    obtain ⟨hs, _, hlen, hat⟩ := h.1
    simp only [buildValues, rep_slice' hlen hat]
    rw [buildValues_rep root ps ws h.2, ← encodeSpec_of_container w hs]
    simp [ends, List.flatMap_cons]
  | .scalar ty off len :: ps, w :: ws, h, data, offs => by
    obtain ⟨hs, hg, hty, hlen, hat⟩ := h.1
    have hl := elen_lt_of_good w hg
    have hw : ty ||| (len % 4294967296) = (entry w).1 := by rw [hty, hlen]; exact word_eq w hl
    simp only [buildValues, hw]
    by_cases hpos : len > 0
    · rw [if_pos hpos]
      simp only [rep_slice' hlen hat]
      rw [buildValues_rep root ps ws h.2]
      simp [ends, List.flatMap_cons, encodeSpec_scalarA' w hs]
    · rw [if_neg hpos]
      have hnil : (entry w).2 = [] := by
        apply List.eq_nil_of_length_eq_zero
        have : elen w = 0 := by omega
        exact this
      rw [buildValues_rep root ps ws h.2]
      simp [ends, List.flatMap_cons, encodeSpec_scalarA' w hs, hnil]

/-- a represented sub-value of a document shorter than 2^28 bytes is `good` (its length fits
the 28-bit entry field) -/
theorem rep_good {root : Bytes} {pos : Pos} {w : JV} (h : Sel.Rep root pos w) (hsmall : root.length < 268435456) :
    good w = true := by
  cases pos with
  | scalar ty off len => exact h.2.1
  | container off len =>
    obtain ⟨hs, hg, _, a, b, rfl, _⟩ := h
    have hl : (entry w).2.length < 268435456 := by
      simp only [List.length_append] at hsmall; omega
    cases w with
    | arr vs =>
      have ⟨hn, hgl⟩ := goodTop_arr_parts hg
      simp [good, hn, hgl, hl]
    | obj kvs =>
      have ⟨hn, hgk⟩ := goodTop_obj_parts hg
      have hks : keysSorted kvs = true := by
        simp only [goodTop, Bool.and_eq_true] at hg; exact hg.1.2
      simp [good, hn, hgk, hl, hks]
    | null => simp [isScalar] at hs
    | bool _ => simp [isScalar] at hs
    | num _ => simp [isScalar] at hs
    | str _ => simp [isScalar] at hs

theorem repL_goodL {root : Bytes} (hsmall : root.length < 268435456) :
    ∀ {ps : List Pos} {ws : List JV}, Sel.RepL root ps ws → goodL ws = true
  | [], [], _ => rfl
  | [], _ :: _, h => h.elim
  | _ :: _, [], h => h.elim
  | _ :: ps, _ :: ws, h => by
    simp [goodL, rep_good h.1 hsmall, repL_goodL hsmall (ps := ps) (ws := ws) h.2]

/-- the item loop of `build_scalar_array`: entry words and payloads of the items -/
theorem arrayParts_rep (root : Bytes) : ∀ (ps : List Pos) (ws : List JV), Sel.RepL root ps ws →
    goodL ws = true → arrayParts root ps = .ok (wordsL ws, paysL ws)
  | [], [], _, _ => rfl
  | [], _ :: _, h, _ => h.elim
  | _ :: _, [], h, _ => h.elim
  | .container off len :: ps, w :: ws, h, hgl => by
    simp only [goodL, Bool.and_eq_true] at hgl
    obtain ⟨hs, _, hlen, hat⟩ := h.1
    have hl := elen_lt_of_good w hgl.1
    have hw : C.CONTAINER_TAG ||| (len % 4294967296) = (entry w).1 := by
      rw [hlen, ← (ety_container_iff_isScalar w).2 hs]; exact word_eq w hl
    simp only [arrayParts, rep_slice' hlen hat, arrayParts_rep root ps ws h.2 hgl.2, hw, wordsL, paysL]
  | .scalar ty off len :: ps, w :: ws, h, hgl => by
    simp only [goodL, Bool.and_eq_true] at hgl
    obtain ⟨hs, hg, hty, hlen, hat⟩ := h.1
    have hl := elen_lt_of_good w hg
    have hw : ty ||| (len % 4294967296) = (entry w).1 := by rw [hty, hlen]; exact word_eq w hl
    have hp : (if len > 0 then slice root off (off + len) else Res.ok []) = .ok (entry w).2 := by
      by_cases hpos : len > 0
      · rw [if_pos hpos]; exact rep_slice' hlen hat
      · rw [if_neg hpos]
        have : (entry w).2 = [] := by
          apply List.eq_nil_of_length_eq_zero
          have : elen w = 0 := by omega
          exact this
        rw [this]
    simp only [arrayParts, hp, arrayParts_rep root ps ws h.2 hgl.2, hw, wordsL, paysL]

/-- **`build_scalar_array`** writes `encodeSpec (arr items)` when the items are good and few
enough for the 29-bit count field -/
theorem buildArrayOf_rep (root : Bytes) (ps : List Pos) (ws : List JV) (h : Sel.RepL root ps ws)
    (hgl : goodL ws = true) (hn : ws.length < 536870912) (data : Bytes) (offs : List Nat) :
    buildArrayOf root ps data offs
      = .ok (data ++ encodeSpec (arr ws), offs ++ [(data ++ encodeSpec (arr ws)).length]) := by
  have hhw : C.ARRAY_CONTAINER_TAG ||| (ps.length % 4294967296) = C.ARRAY_CONTAINER_TAG + ws.length := by
    rw [RepL_length h]
    have := headerWord_eq 4 ws.length hn
    rw [← tag_arr'] at this
    exact this
  simp only [buildArrayOf, arrayParts_rep root ps ws h hgl, hhw, encodeSpec, entry]

/-! ### 5. the public API -/

/-- all-mode: every item as its own document, with the running end offsets -/
theorem select_all_refines (v₀ : JV) (hg : goodTop v₀ = true) (jp : JsonPath) (hok : okPaths jp = true)
    (hnp : isPredicate jp = false) (fuel : Nat) (data : Bytes) (offs : List Nat) (r : Bytes × List Nat)
    (h : select jp .all (encodeSpec v₀) data offs fuel = .ok r) :
    ∃ items, Ev (fun f => Spec.evalPaths f v₀ none jp) items ∧
      r = (data ++ items.flatMap encodeSpec, offs ++ ends data.length items) := by
  unfold select at h
  cases hf : findPositions fuel (encodeSpec v₀) none jp with
  | ok ps =>
    rw [hf] at h
    simp only [hnp, Bool.false_eq_true, if_false] at h
    obtain ⟨items, h1, h2⟩ := findPositions_refines v₀ hg jp hok fuel ps hf
    rw [buildValues_rep _ ps items h1] at h
    exact ⟨items, h2, (Res.ok.inj h).symm⟩
  | err e => rw [hf] at h; simp at h
  | panic s => rw [hf] at h; simp at h
  | fuel => rw [hf] at h; simp at h

/-- first-mode: the first item (or nothing) -/
theorem select_first_refines (v₀ : JV) (hg : goodTop v₀ = true) (jp : JsonPath) (hok : okPaths jp = true)
    (hnp : isPredicate jp = false) (fuel : Nat) (data : Bytes) (offs : List Nat) (r : Bytes × List Nat)
    (h : select jp .first (encodeSpec v₀) data offs fuel = .ok r) :
    ∃ items, Ev (fun f => Spec.evalPaths f v₀ none jp) items ∧
      r = (data ++ (items.take 1).flatMap encodeSpec, offs ++ ends data.length (items.take 1)) := by
  unfold select at h
  cases hf : findPositions fuel (encodeSpec v₀) none jp with
  | ok ps =>
    rw [hf] at h
    simp only [hnp, Bool.false_eq_true, if_false] at h
    obtain ⟨items, h1, h2⟩ := findPositions_refines v₀ hg jp hok fuel ps hf
    have h1' : Sel.RepL (encodeSpec v₀) (ps.take 1) (items.take 1) := by
      cases ps <;> cases items <;> first | exact h1.elim | trivial | exact ⟨h1.1, trivial⟩
    rw [buildValues_rep _ _ _ h1'] at h
    exact ⟨items, h2, (Res.ok.inj h).symm⟩
  | err e => rw [hf] at h; simp at h
  | panic s => rw [hf] at h; simp at h
  | fuel => rw [hf] at h; simp at h

/-- array-mode: one array of all items (document below 2^28 bytes, fewer than 2^29 items) -/
theorem select_array_refines (v₀ : JV) (hg : goodTop v₀ = true) (jp : JsonPath) (hok : okPaths jp = true)
    (hnp : isPredicate jp = false) (hsmall : (encodeSpec v₀).length < 268435456)
    (fuel : Nat) (data : Bytes) (offs : List Nat) (r : Bytes × List Nat)
    (h : select jp .array (encodeSpec v₀) data offs fuel = .ok r) :
    ∃ items, Ev (fun f => Spec.evalPaths f v₀ none jp) items ∧
      (items.length < 536870912 →
        r = (data ++ encodeSpec (arr items), offs ++ [(data ++ encodeSpec (arr items)).length])) := by
  unfold select at h
  cases hf : findPositions fuel (encodeSpec v₀) none jp with
  | ok ps =>
    rw [hf] at h
    simp only [hnp, Bool.false_eq_true, if_false] at h
    obtain ⟨items, h1, h2⟩ := findPositions_refines v₀ hg jp hok fuel ps hf
    refine ⟨items, h2, fun hn => ?_⟩
    rw [buildArrayOf_rep _ ps items h1 (repL_goodL hsmall h1) hn] at h
    exact (Res.ok.inj h).symm
  | err e => rw [hf] at h; simp at h
  | panic s => rw [hf] at h; simp at h
  | fuel => rw [hf] at h; simp at h

/-- mixed-mode: an array when there are two or more items, otherwise the item itself (or nothing) -/
theorem select_mixed_refines (v₀ : JV) (hg : goodTop v₀ = true) (jp : JsonPath) (hok : okPaths jp = true)
    (hnp : isPredicate jp = false) (hsmall : (encodeSpec v₀).length < 268435456)
    (fuel : Nat) (data : Bytes) (offs : List Nat) (r : Bytes × List Nat)
    (h : select jp .mixed (encodeSpec v₀) data offs fuel = .ok r) :
    ∃ items, Ev (fun f => Spec.evalPaths f v₀ none jp) items ∧
      (items.length < 536870912 →
        r = if items.length > 1
            then (data ++ encodeSpec (arr items), offs ++ [(data ++ encodeSpec (arr items)).length])
            else (data ++ items.flatMap encodeSpec, offs ++ ends data.length items)) := by
  unfold select at h
  cases hf : findPositions fuel (encodeSpec v₀) none jp with
  | ok ps =>
    rw [hf] at h
    simp only [hnp, Bool.false_eq_true, if_false] at h
    obtain ⟨items, h1, h2⟩ := findPositions_refines v₀ hg jp hok fuel ps hf
    refine ⟨items, h2, fun hn => ?_⟩
    rw [RepL_length h1] at h
    by_cases hm : items.length > 1
    · rw [if_pos hm] at h ⊢
      rw [buildArrayOf_rep _ ps items h1 (repL_goodL hsmall h1) hn] at h
      exact (Res.ok.inj h).symm
    · rw [if_neg hm] at h ⊢
      rw [buildValues_rep _ ps items h1] at h
      exact (Res.ok.inj h).symm
  | err e => rw [hf] at h; simp at h
  | panic s => rw [hf] at h; simp at h
  | fuel => rw [hf] at h; simp at h

/-- a predicate path (`$ ? …` without `?`: a bare filter expression) yields, in every mode, the
single boolean document "the root satisfies the predicate"; no offset is pushed -/
theorem select_predicate_refines (v₀ : JV) (hg : goodTop v₀ = true) (jp : JsonPath) (hok : okPaths jp = true)
    (hp : isPredicate jp = true) (m : Mode) (fuel : Nat) (data : Bytes) (offs : List Nat)
    (r : Bytes × List Nat) (h : select jp m (encodeSpec v₀) data offs fuel = .ok r) :
    ∃ items, Ev (fun f => Spec.evalPaths f v₀ none jp) items ∧
      r = (data ++ encodeSpec (.bool (!items.isEmpty)), offs) := by
  unfold select at h
  cases hf : findPositions fuel (encodeSpec v₀) none jp with
  | ok ps =>
    rw [hf] at h
    simp only [hp, if_true, Res.ok.injEq] at h
    obtain ⟨items, h1, h2⟩ := findPositions_refines v₀ hg jp hok fuel ps hf
    refine ⟨items, h2, ?_⟩
    rw [← h, RepL_isEmpty h1]
    cases items.isEmpty <;> simp [encodeSpec, entry]
  | err e => rw [hf] at h; simp at h
  | panic s => rw [hf] at h; simp at h
  | fuel => rw [hf] at h; simp at h

/-- `exists`: some item is selected (always true for predicate paths) -/
theorem exists_refines (v₀ : JV) (hg : goodTop v₀ = true) (jp : JsonPath) (hok : okPaths jp = true)
    (hnp : isPredicate jp = false) (fuel : Nat) (b : Bool)
    (h : exists_ jp (encodeSpec v₀) fuel = .ok b) :
    ∃ items, Ev (fun f => Spec.evalPaths f v₀ none jp) items ∧ b = !items.isEmpty := by
  unfold exists_ at h
  simp only [hnp, Bool.false_eq_true, if_false] at h
  cases hf : findPositions fuel (encodeSpec v₀) none jp with
  | ok ps =>
    rw [hf] at h
    simp only [Res.map, Res.bind, Res.ok.injEq] at h
    obtain ⟨items, h1, h2⟩ := findPositions_refines v₀ hg jp hok fuel ps hf
    exact ⟨items, h2, by rw [← h, RepL_isEmpty h1]⟩
  | err e => rw [hf] at h; simp [Res.map, Res.bind] at h
  | panic s => rw [hf] at h; simp [Res.map, Res.bind] at h
  | fuel => rw [hf] at h; simp [Res.map, Res.bind] at h

/-- `predicate_match`: the root satisfies the predicate -/
theorem predicateMatch_refines (v₀ : JV) (hg : goodTop v₀ = true) (jp : JsonPath) (hok : okPaths jp = true)
    (fuel : Nat) (b : Bool) (h : predicateMatch jp (encodeSpec v₀) fuel = .ok b) :
    isPredicate jp = true ∧
    ∃ items, Ev (fun f => Spec.evalPaths f v₀ none jp) items ∧ b = !items.isEmpty := by
  unfold predicateMatch at h
  by_cases hp : isPredicate jp = true
  · simp only [hp, Bool.not_true, Bool.false_eq_true, if_false] at h
    refine ⟨hp, ?_⟩
    cases hf : findPositions fuel (encodeSpec v₀) none jp with
    | ok ps =>
      rw [hf] at h
      simp only [Res.map, Res.bind, Res.ok.injEq] at h
      obtain ⟨items, h1, h2⟩ := findPositions_refines v₀ hg jp hok fuel ps hf
      exact ⟨items, h2, by rw [← h, RepL_isEmpty h1]⟩
    | err e => rw [hf] at h; simp [Res.map, Res.bind] at h
    | panic s => rw [hf] at h; simp [Res.map, Res.bind] at h
    | fuel => rw [hf] at h; simp [Res.map, Res.bind] at h
  · simp [hp] at h

end Jsonb
