/-
Phase 6c, editors: the `delete_by_keypath` family.  I24: the precondition `KeysDistinct` holds on the encoding of
every good document; the corollary of `delete_by_keypath_jsonb` on such encodings; the witness of the difference
outside the precondition.
-/
import JsonbModel.Proofs.TranslatedAgreeI23
import JsonbModel.Proofs.KeypathRefine
import JsonbModel.Proofs.ChainGood

set_option linter.unusedSimpArgs false
set_option linter.unusedVariables false

namespace Jsonb.TrAgree
open Jsonb.Rs Jsonb.JV

theorem keysSorted_nodup (kvs : List (Bytes × JV)) (hs : keysSorted kvs = true) : (kvs.map (fun kv => kv.1)).Nodup := by
  rw [keysSorted_iff_pairwise] at hs
  rw [List.Nodup, List.pairwise_map]
  exact hs.imp (fun {a b} h => lexCmp_lt_ne h)

/-- a good container stored in a container is a good document of its own -/
theorem goodTop_of_good_container (u : JV) (hg : good u = true) (hc : ety u = C.CONTAINER_TAG) :
    goodTop u = true ∧ (entry u).2 = encodeSpec u := by
  cases u with
  | arr ws =>
    simp only [good, Bool.and_eq_true, decide_eq_true_eq] at hg
    exact ⟨by simp [goodTop, hg.1.1, hg.2], rfl⟩
  | obj kvs =>
    simp only [good, Bool.and_eq_true, decide_eq_true_eq] at hg
    exact ⟨by simp [goodTop, hg.1.1.1, hg.1.2, hg.2], rfl⟩
  | null => simp [ety, C.NULL_TAG, C.CONTAINER_TAG] at hc
  | bool b => cases b <;> simp [ety, C.TRUE_TAG, C.FALSE_TAG, C.CONTAINER_TAG] at hc
  | num n => simp [ety, C.NUMBER_TAG, C.CONTAINER_TAG] at hc
  | str s => simp [ety, C.STRING_TAG, C.CONTAINER_TAG] at hc

/-- every container reachable from the encoding of a good document is the encoding of a good document -/
theorem subDoc_encodeSpec (v : JV) (hg : goodTop v = true) :
    ∀ x, SubDoc (encodeSpec v) x → ∃ w, goodTop w = true ∧ x = encodeSpec w := by
  intro x hs
  induction hs with
  | root => exact ⟨v, hg, rfl⟩
  | arr v' h items x _ hr ht hit hx hc ih =>
    obtain ⟨w, hgw, rfl⟩ := ih
    rw [readHdr w hgw, Option.some.injEq] at hr
    subst hr
    have hk := hdrType_hdrOf w hgw
    cases w with
    | arr vs =>
      simp only [goodTop, Bool.and_eq_true, decide_eq_true_eq] at hgw
      simp only [hdrOf] at hit
      rw [iterArray_doc vs hgw.1 hgw.2, Res.ok.injEq] at hit
      subst hit
      obtain ⟨u, hu, rfl⟩ := List.mem_map.1 hx
      obtain ⟨a, b⟩ := goodTop_of_good_container u (goodL_mem hgw.2 hu) hc
      exact ⟨u, a, b⟩
    | obj kvs => rw [ht] at hk; exact absurd hk.symm ne_obj_arr
    | null => rw [ht] at hk; exact absurd hk.symm ne_sca_arr
    | bool b => rw [ht] at hk; exact absurd hk.symm ne_sca_arr
    | num n => rw [ht] at hk; exact absurd hk.symm ne_sca_arr
    | str s => rw [ht] at hk; exact absurd hk.symm ne_sca_arr
  | obj v' h ms m _ hr ht hms hm hc ih =>
    obtain ⟨w, hgw, rfl⟩ := ih
    rw [readHdr w hgw, Option.some.injEq] at hr
    subst hr
    have hk := hdrType_hdrOf w hgw
    cases w with
    | obj kvs =>
      simp only [goodTop, Bool.and_eq_true, decide_eq_true_eq] at hgw
      simp only [hdrOf] at hms
      rw [iterObjEntries_doc kvs hgw.1.1 hgw.2, Res.ok.injEq] at hms
      subst hms
      obtain ⟨kv, hkv, rfl⟩ := List.mem_map.1 hm
      obtain ⟨a, b⟩ := goodTop_of_good_container kv.2 (goodK_mem kvs hgw.2 kv hkv).1 hc
      exact ⟨kv.2, a, b⟩
    | arr vs => rw [ht] at hk; exact absurd hk ne_obj_arr
    | null => rw [ht] at hk; exact absurd hk.symm ne_sca_obj
    | bool b => rw [ht] at hk; exact absurd hk.symm ne_sca_obj
    | num n => rw [ht] at hk; exact absurd hk.symm ne_sca_obj
    | str s => rw [ht] at hk; exact absurd hk.symm ne_sca_obj

/-- the precondition of the `delete_by_keypath` family holds on the encoding of every good document -/
theorem keysDistinct_encodeSpec (v : JV) (hg : goodTop v = true) : KeysDistinct (encodeSpec v) := by
  intro x hs h ms hr ht hms
  obtain ⟨w, hgw, rfl⟩ := subDoc_encodeSpec v hg x hs
  rw [readHdr w hgw, Option.some.injEq] at hr
  subst hr
  have hk := hdrType_hdrOf w hgw
  cases w with
  | obj kvs =>
    simp only [goodTop, Bool.and_eq_true, decide_eq_true_eq] at hgw
    simp only [hdrOf] at hms
    rw [iterObjEntries_doc kvs hgw.1.1 hgw.2, Res.ok.injEq] at hms
    subst hms
    rw [List.map_map]
    exact keysSorted_nodup kvs hgw.1.2
  | arr vs => rw [ht] at hk; exact absurd hk ne_obj_arr
  | null => rw [ht] at hk; exact absurd hk.symm ne_sca_obj
  | bool b => rw [ht] at hk; exact absurd hk.symm ne_sca_obj
  | num n => rw [ht] at hk; exact absurd hk.symm ne_sca_obj
  | str s => rw [ht] at hk; exact absurd hk.symm ne_sca_obj

/-- **C06 / C07, source-level corollary**: on the encoding of a good document the translated
`delete_by_keypath_jsonb` IS the model's `deleteByKeypath`, i.e. it appends the encoding of the tree with the addressed
element removed (or refuses a scalar document) -/
theorem delete_by_keypath_encodeSpec_agrees (v : JV) (hg : goodTop v = true) (kp : List KeyPath) (hk : kpOK kp) (buf : Bytes)
    (hb : buf.length < 1152921504606846976) (fuel : Nat)
    (hfuel : 2 * (encodeSpec v).length + 4 * kp.length + 536870932 < fuel) :
    Tr.delete_by_keypath_jsonb fuel (encodeSpec v) (kp.map ofKPath) buf =
      match Spec.deleteByKeypath v kp with
      | some r => .ok (buf ++ encodeSpec r)
      | none => .err "InvalidJsonType" := by
  have hr := deleteByKeypath_refines v hg kp hk buf
  have hne : Fn.deleteByKeypath (encodeSpec v) kp buf ≠ .fuel := by
    rw [hr]; cases Spec.deleteByKeypath v kp <;> exact fun c => by cases c
  have hnp : (Fn.deleteByKeypath (encodeSpec v) kp buf).isPanic = false := by
    rw [hr]; cases Spec.deleteByKeypath v kp <;> rfl
  rw [delete_by_keypath_jsonb_agrees _ buf kp fuel hfuel (encodeSpec_length_lt60 v hg) (keysDistinct_encodeSpec v hg) hne hnp
    (fun out ho => by
      rw [hr] at ho
      cases hd : Spec.deleteByKeypath v kp with
      | none => rw [hd] at ho; cases ho
      | some r =>
        rw [hd] at ho
        simp only [Res.ok.injEq] at ho
        subst ho
        have hl := encodeSpec_length_lt60 r (deleteByKeypath_good v hg kp hk r hd)
        simp only [List.length_append]; omega)]
  exact hr

/-! ## outside the precondition: the recorded difference (forged buffers only) -/

/-- the object `{"a": {"x": null}, "a": {"c": null}}` — the key `a` twice, which no encoder of the crate writes -/
def dupKeyDoc : Bytes := [0x40, 0, 0, 2, 0x10, 0, 0, 1, 0x10, 0, 0, 1, 0x50, 0, 0, 13, 0x50, 0, 0, 13, 0x61, 0x61,
  0x40, 0, 0, 1, 0x10, 0, 0, 1, 0, 0, 0, 0, 0x78,
  0x40, 0, 0, 1, 0x10, 0, 0, 1, 0, 0, 0, 0, 0x63]
/-- the key path `{a,b,c}` -/
def dupKeyPath : List KeyPath := [.name [0x61], .name [0x62], .name [0x63]]

/-- The first `a` does not hold `b`, so the source's shared `VecDeque` still holds `c` at the second `a` and the source
descends into it (result `{"a": {}}`); the model continues with the empty path after the first `a` and drops the second
(result `{"a": {"x": null}}`).  The real crate answers as the translation does. -/
theorem delete_by_keypath_dup_key_witness :
    Fn.deleteByKeypath dupKeyDoc dupKeyPath [] =
        .ok [0x40, 0, 0, 1, 0x10, 0, 0, 1, 0x50, 0, 0, 13, 0x61, 0x40, 0, 0, 1, 0x10, 0, 0, 1, 0, 0, 0, 0, 0x78] ∧
      Tr.delete_by_keypath_jsonb 60 dupKeyDoc (dupKeyPath.map ofKPath) [] =
        .ok [0x40, 0, 0, 1, 0x10, 0, 0, 1, 0x50, 0, 0, 4, 0x61, 0x40, 0, 0, 0] := by
  refine ⟨?_, ?_⟩ <;> decide +kernel

end Jsonb.TrAgree
