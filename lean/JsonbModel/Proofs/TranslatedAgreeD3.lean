/-
Phase 4: `for x in <iterator struct>` (`Rs.forIter`, `Rs.forIterEnum`) against "collect, then fold":
generic lemmas, their instance for `ArrayIterator` (phase 2's `array_iterator_next_agrees`), and the
corollaries of the builder theorems for builders that hold raw entries only (all the editors of
functions.rs except `strip_nulls` / `delete_by_keypath`).
-/
import JsonbModel.Proofs.TranslatedAgreeD2
import JsonbModel.Proofs.TranslatedAgreeB5
import JsonbModel.Functions.Edit

set_option linter.unusedSimpArgs false
set_option linter.unusedVariables false

namespace Jsonb.TrAgree
open Jsonb.Rs

/-! ## draining an iterator -/

/-- calling `next` until it answers `None` (at most `n` times), collecting the items -/
def drainIter {ι α : Type} (next : ι → Res (Option α × ι)) : Nat → ι → Res (List α)
  | 0, _ => .fuel
  | n + 1, it =>
    match next it with
    | .ok (none, _) => .ok []
    | .ok (some x, it') =>
      (match drainIter next n it' with
       | .ok rest => .ok (x :: rest)
       | .err e => .err e
       | .panic s => .panic s
       | .fuel => .fuel)
    | .err e => .err e
    | .panic s => .panic s
    | .fuel => .fuel

theorem drainIter_arr : ∀ (n : Nat) (it : Tr.ArrayIterator), drainIter Tr.ArrayIterator.next n it = drainArr n it := by
  intro n
  induction n with
  | zero => intro it; rfl
  | succ n ih =>
    intro it
    simp only [drainIter, drainArr]
    cases h : Tr.ArrayIterator.next it with
    | ok p =>
      obtain ⟨o, it'⟩ := p
      cases o with
      | none => rfl
      | some x => simp only [ih]; cases drainArr n it' <;> rfl
    | err e => rfl
    | panic s => rfl
    | fuel => rfl

/-- more fuel does not change an answer that is not `fuel` -/
theorem drainIter_mono {ι α : Type} (next : ι → Res (Option α × ι)) : ∀ (n m : Nat) (it : ι), n ≤ m →
    drainIter next n it ≠ .fuel → drainIter next m it = drainIter next n it := by
  intro n
  induction n with
  | zero => intro m it _ h; exact absurd rfl h
  | succ n ih =>
    intro m it hnm h
    obtain ⟨m, rfl⟩ : ∃ m', m = m' + 1 := ⟨m - 1, by omega⟩
    simp only [drainIter] at h ⊢
    cases hn : next it with
    | ok p =>
      obtain ⟨o, it'⟩ := p
      rw [hn] at h
      cases o with
      | none => rfl
      | some x =>
        simp only [] at h ⊢
        have h' : drainIter next n it' ≠ .fuel := by
          intro hf; rw [hf] at h; exact h rfl
        rw [ih m it' (by omega) h']
    | err e => rfl
    | panic s => rfl
    | fuel => rfl

/-- a loop whose body never fails, breaks or returns is the fold of its effect over the drained items -/
theorem forIter_total {ρ σ ι α : Type} (next : ι → Res (Option α × ι)) (f : α → σ → σ)
    (body : α → σ → Ctl ρ (Step σ)) (hbody : ∀ x s, body x s = .val (.next (f x s))) :
    ∀ (n : Nat) (it : ι) (s : σ), Rs.forIter n next it s body =
      match drainIter next n it with
      | .ok xs => .val (xs.foldl (fun s x => f x s) s)
      | .err e => .ret (.err e)
      | .panic p => .ret (.panic p)
      | .fuel => .ret .fuel := by
  intro n
  induction n with
  | zero => intro it s; rfl
  | succ n ih =>
    intro it s
    simp only [Rs.forIter, drainIter]
    cases hn : next it with
    | ok p =>
      obtain ⟨o, it'⟩ := p
      cases o with
      | none => rfl
      | some x =>
        simp only [hbody, ih]
        cases drainIter next n it' <;> rfl
    | err e => rfl
    | panic s => rfl
    | fuel => rfl

/-- fold with the running index of `.enumerate()` -/
def foldIdx {α σ : Type} (f : Nat → α → σ → σ) : Nat → List α → σ → σ
  | _, [], s => s
  | i, x :: xs, s => foldIdx f (i + 1) xs (f i x s)

theorem forIterEnum_total {ρ σ ι α : Type} (next : ι → Res (Option α × ι)) (f : Nat → α → σ → σ)
    (body : (Int × α) → σ → Ctl ρ (Step σ)) (hbody : ∀ (i : Nat) x s, body ((i : Int), x) s = .val (.next (f i x s))) :
    ∀ (n i : Nat) (it : ι) (s : σ), Rs.forIterEnumFrom n next i it s body =
      match drainIter next n it with
      | .ok xs => .val (foldIdx f i xs s)
      | .err e => .ret (.err e)
      | .panic p => .ret (.panic p)
      | .fuel => .ret .fuel := by
  intro n
  induction n with
  | zero => intro i it s; rfl
  | succ n ih =>
    intro i it s
    simp only [Rs.forIterEnumFrom, drainIter]
    cases hn : next it with
    | ok p =>
      obtain ⟨o, it'⟩ := p
      cases o with
      | none => rfl
      | some x =>
        simp only [hbody, ih]
        cases drainIter next n it' <;> simp only [foldIdx]
    | err e => rfl
    | panic s => rfl
    | fuel => rfl

/-! ## `iterate_array` -/

theorem slice_ne_fuel (value : Bytes) (a b : Nat) : Jsonb.slice value a b ≠ .fuel := by
  unfold Jsonb.slice; split <;> simp

theorem iterArrayLoop_ne_fuel (value : Bytes) : ∀ (n jo vo : Nat), iterArrayLoop value n jo vo ≠ .fuel := by
  intro n
  induction n with
  | zero => intro jo vo; simp [iterArrayLoop]
  | succ n ih =>
    intro jo vo
    simp only [iterArrayLoop]
    cases readU32At value jo with
    | none => simp
    | some w =>
      simp only []
      have hs := slice_ne_fuel value vo (vo + jeLen w)
      cases h1 : Jsonb.slice value vo (vo + jeLen w) with
      | ok item =>
        simp only []
        have := ih (jo + 4) (vo + jeLen w)
        cases h : iterArrayLoop value n (jo + 4) (vo + jeLen w) <;> simp_all
      | err e => simp
      | panic s => simp
      | fuel => exact absurd h1 hs

theorem iterArray_ne_fuel (value : Bytes) (header : Nat) : iterArray value header ≠ .fuel :=
  iterArrayLoop_ne_fuel value _ _ _

theorem slice_ne_err (value : Bytes) (a b : Nat) (e : String) : Jsonb.slice value a b ≠ .err e := by
  unfold Jsonb.slice; split <;> simp

theorem iterArrayLoop_ne_err (value : Bytes) : ∀ (n jo vo : Nat) (e : String), iterArrayLoop value n jo vo ≠ .err e := by
  intro n
  induction n with
  | zero => intro jo vo e; simp [iterArrayLoop]
  | succ n ih =>
    intro jo vo e
    simp only [iterArrayLoop]
    cases readU32At value jo with
    | none => simp
    | some w =>
      simp only []
      cases h1 : Jsonb.slice value vo (vo + jeLen w) with
      | ok item =>
        simp only []
        cases h : iterArrayLoop value n (jo + 4) (vo + jeLen w) with
        | err e' => exact absurd h (ih _ _ _)
        | _ => simp
      | err e' => exact absurd h1 (slice_ne_err _ _ _ _)
      | panic s => simp
      | fuel => simp

theorem iterArray_ne_err (value : Bytes) (header : Nat) (e : String) : iterArray value header ≠ .err e :=
  iterArrayLoop_ne_err value _ _ _ e

/-- `iterate_array(value, header)` drained with any fuel above the header's count = the model's `iterArray` -/
theorem iterate_array_drain_fuel (value : Bytes) (header fuel : Nat) (hf : hdrLen header < fuel) :
    drainIter Tr.ArrayIterator.next fuel (arrIt value 4 (4 * hdrLen header + 4) (hdrLen header) 0) =
      (iterArray value header).map (List.map ofItem) := by
  have h1 := iterate_array_drain value header
  rw [iterate_array_agrees] at h1
  simp only [Res.bind] at h1
  rw [← drainIter_arr] at h1
  rw [drainIter_mono _ (hdrLen header + 1) fuel _ (by omega), h1]
  rw [h1]
  have := iterArray_ne_fuel value header
  cases h : iterArray value header <;> simp_all [Res.map, Res.bind]

/-- `for x in iterate_array(value, header) { body }` with a body that only updates its state -/
theorem forIter_array (value : Bytes) (header fuel : Nat) (hf : hdrLen header < fuel) {ρ σ : Type}
    (f : (Tr.JEntry × Bytes) → σ → σ) (body : (Tr.JEntry × Bytes) → σ → Ctl ρ (Step σ))
    (hbody : ∀ x s, body x s = .val (.next (f x s))) (s : σ) :
    Rs.forIter fuel Tr.ArrayIterator.next (arrIt value 4 (4 * hdrLen header + 4) (hdrLen header) 0) s body =
      match iterArray value header with
      | .ok items => .val ((items.map ofItem).foldl (fun s x => f x s) s)
      | .err e => .ret (.err e)
      | .panic p => .ret (.panic p)
      | .fuel => .ret .fuel := by
  rw [forIter_total _ f body hbody, iterate_array_drain_fuel value header fuel hf]
  cases iterArray value header <;> rfl

theorem forIterEnum_array (value : Bytes) (header fuel : Nat) (hf : hdrLen header < fuel) {ρ σ : Type}
    (f : Nat → (Tr.JEntry × Bytes) → σ → σ) (body : (Int × (Tr.JEntry × Bytes)) → σ → Ctl ρ (Step σ))
    (hbody : ∀ (i : Nat) x s, body ((i : Int), x) s = .val (.next (f i x s))) (s : σ) :
    Rs.forIterEnum fuel Tr.ArrayIterator.next (arrIt value 4 (4 * hdrLen header + 4) (hdrLen header) 0) s body =
      match iterArray value header with
      | .ok items => .val (foldIdx f 0 (items.map ofItem) s)
      | .err e => .ret (.err e)
      | .panic p => .ret (.panic p)
      | .fuel => .ret .fuel := by
  unfold Rs.forIterEnum
  rw [forIterEnum_total _ f body hbody, iterate_array_drain_fuel value header fuel hf]
  cases iterArray value header <;> rfl

/-! ## what `iterArray` returns: bounds on the items -/

/-- total payload length of a list of items -/
def sumLen : List (JE × Bytes) → Nat
  | [] => 0
  | x :: xs => x.2.length + sumLen xs

theorem sumLen_append (a b : List (JE × Bytes)) : sumLen (a ++ b) = sumLen a + sumLen b := by
  induction a with
  | nil => simp [sumLen]
  | cons x xs ih => simp [sumLen, ih]; omega

/-- an entry read from a word: both fields are `u32` values -/
def JEFits (je : JE) : Prop := je.ty < 4294967296 ∧ je.len < 4294967296

theorem readU32At_lt (bs : Bytes) (i w : Nat) (h : readU32At bs i = some w) : w < 4294967296 := by
  unfold readU32At at h
  split at h
  · have := ofBe_lt ((bs.drop i).take 4)
    have hl : ((bs.drop i).take 4).length = 4 := by simp; omega
    rw [hl] at this
    cases h; omega
  · cases h

theorem jeFits_ofWord (w : Nat) (h : w < 4294967296) : JEFits (JE.ofWord w) := by
  unfold JEFits JE.ofWord jeType jeLen
  exact ⟨Nat.lt_of_le_of_lt Nat.and_le_left h, Nat.lt_of_le_of_lt Nat.and_le_left h⟩

/-- the items `iterArrayLoop` collects are consecutive slices of `value`, one per entry word it could read -/
theorem iterArrayLoop_bounds (value : Bytes) : ∀ (n jo vo : Nat) (items : List (JE × Bytes)),
    iterArrayLoop value n jo vo = .ok items →
    items.length ≤ n ∧ (∀ x ∈ items, JEFits x.1) ∧
      (items ≠ [] → jo + 4 * items.length ≤ value.length ∧ vo + sumLen items ≤ value.length) := by
  intro n
  induction n with
  | zero =>
    intro jo vo items h
    simp only [iterArrayLoop, Res.ok.injEq] at h
    subst h
    exact ⟨by simp, by simp, by simp⟩
  | succ n ih =>
    intro jo vo items h
    simp only [iterArrayLoop] at h
    cases hr : readU32At value jo with
    | none =>
      rw [hr] at h
      simp only [Res.ok.injEq] at h
      subst h
      exact ⟨by simp, by simp, by simp⟩
    | some w =>
      rw [hr] at h
      simp only [] at h
      have hw := readU32At_lt value jo w hr
      have hjo : jo + 4 ≤ value.length := by
        unfold readU32At at hr
        split at hr
        · assumption
        · cases hr
      cases hs : Jsonb.slice value vo (vo + jeLen w) with
      | ok item =>
        rw [hs] at h
        simp only [] at h
        have hitem : vo + jeLen w ≤ value.length ∧ item.length = jeLen w := by
          unfold Jsonb.slice at hs
          split at hs
          · next hc =>
            simp only [Res.ok.injEq] at hs
            subst hs
            refine ⟨hc.2, ?_⟩
            simp; omega
          · cases hs
        cases hrest : iterArrayLoop value n (jo + 4) (vo + jeLen w) with
        | ok rest =>
          rw [hrest] at h
          simp only [Res.ok.injEq] at h
          subst h
          obtain ⟨h1, h2, h3⟩ := ih (jo + 4) (vo + jeLen w) rest hrest
          refine ⟨by simp; omega, ?_, ?_⟩
          · intro x hx
            simp only [List.mem_cons] at hx
            cases hx with
            | inl hx => subst hx; exact jeFits_ofWord w hw
            | inr hx => exact h2 x hx
          · intro _
            simp only [List.length_cons, sumLen]
            by_cases hre : rest = []
            · subst hre; simp [sumLen]; omega
            · have := h3 hre; omega
        | err e => rw [hrest] at h; cases h
        | panic s => rw [hrest] at h; cases h
        | fuel => rw [hrest] at h; cases h
      | err e => rw [hs] at h; cases h
      | panic s => rw [hs] at h; cases h
      | fuel => rw [hs] at h; cases h

theorem iterArray_bounds (value : Bytes) (header : Nat) (items : List (JE × Bytes))
    (h : iterArray value header = .ok items) :
    items.length ≤ hdrLen header ∧ (∀ x ∈ items, JEFits x.1) ∧ 4 * items.length + sumLen items ≤ value.length := by
  unfold iterArray at h
  obtain ⟨h1, h2, h3⟩ := iterArrayLoop_bounds value _ _ _ items h
  refine ⟨h1, h2, ?_⟩
  by_cases he : items = []
  · subst he; simp [sumLen]
  · have := h3 he; omega

/-! ## builders that hold raw entries only -/

/-- a list of raw entries whose fields are `u32` values -/
def RawFits : List BEntry → Prop
  | [] => True
  | .raw ty len _ :: es => (ty < 4294967296 ∧ len < 4294967296) ∧ RawFits es
  | _ :: _ => False

theorem rawFits_append (a b : List BEntry) : RawFits (a ++ b) ↔ RawFits a ∧ RawFits b := by
  induction a with
  | nil => simp [RawFits]
  | cons e es ih =>
    cases e with
    | raw ty len d => simp only [List.cons_append, RawFits, ih, and_assoc]
    | arr _ => simp [RawFits]
    | obj _ => simp [RawFits]

theorem rawFits_map_rawOf (items : List (JE × Bytes)) (h : ∀ x ∈ items, JEFits x.1) :
    RawFits (items.map Fn.rawOf) := by
  induction items with
  | nil => simp [RawFits]
  | cons x xs ih =>
    simp only [List.map_cons, Fn.rawOf, RawFits]
    exact ⟨h x (by simp), ih (fun y hy => h y (by simp [hy]))⟩

theorem rawFits_facts : ∀ (es : List BEntry), RawFits es →
    fitsBL es ∧ bdepthL es = 0 ∧ bsizeL es ≤ es.length * 4294967296
  | [], _ => by simp [fitsBL, bdepthL, bsizeL]
  | .raw ty len d :: es, h => by
    simp only [RawFits] at h
    obtain ⟨h1, h2, h3⟩ := rawFits_facts es h.2
    refine ⟨by simp only [fitsBL, fitsB]; exact ⟨h.1, h1⟩, by simp [bdepthL, bdepth, h2], ?_⟩
    simp only [bsizeL, bspec_raw, List.length_cons]
    have := Nat.mod_lt len (show 0 < 4294967296 by decide)
    omega
  | .arr _ :: _, h => by simp [RawFits] at h
  | .obj _ :: _, h => by simp [RawFits] at h

theorem bpaysL_map_rawOf (items : List (JE × Bytes)) : (bpaysL (items.map Fn.rawOf)).length = sumLen items := by
  induction items with
  | nil => rfl
  | cons x xs ih => simp [bpaysL, Fn.rawOf, bspec_raw, sumLen, ih]

theorem bpaysL_append (a b : List BEntry) : bpaysL (a ++ b) = bpaysL a ++ bpaysL b := by
  induction a with
  | nil => simp [bpaysL]
  | cons e es ih => simp [bpaysL, ih]

/-- **`ArrayBuilder::build_into` on raw entries** (what every array editor ends with): the new buffer is the
model's `buildArrayInto`, for fuel ≥ 2 -/
theorem array_build_raw (es : List BEntry) (hraw : RawFits es) (b : Bytes) (g : Nat) (hg : 1 < g)
    (hn : es.length < 2147483648)
    (hsz : b.length + 4 + es.length * 4 + (bpaysL es).length < 18446744073709551616) :
    ∃ n : Int, Tr.ArrayBuilder.build_into g ⟨ofBEs es⟩ b = .ok (n, b ++ bpay (.arr es)) ∧
      buildArrayInto b es = .ok (b ++ bpay (.arr es)) := by
  obtain ⟨h1, h2, h3⟩ := rawFits_facts es hraw
  have := array_build_into_agrees es b g (by omega) (by simp only [fitsB]; exact ⟨h1, by omega⟩)
    (by rw [bpay_arr_length]; omega)
  rw [buildArrayInto_spec] at this
  exact ⟨_, this, buildArrayInto_spec b es⟩

end Jsonb.TrAgree
