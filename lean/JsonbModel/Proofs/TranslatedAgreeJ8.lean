/-
Agreement theorems, phase 6d, part 8 (BRIDGE to phase 6b; NOT imported by the root `TranslatedAgreeJ`, so that the root
builds whether or not phase 6b's files are present): the callee parameter `parse_string__` of the scanners can be
instantiated with the translated `util::parse_string` of phase 6b (`Generated/Translated6b.lean`).
  1. the two hand-written models of `parse_string` — `PathStr.parseString` (PathParser.lean) and `JP.parseString`
     (JsonParser.lean) — answer alike on every byte string (`MSim`: the same value, an error for an error, a panic for
     a panic);
  2. with phase 6b's `parse_string_sim` (`Tr.parse_string` against `JP.parseString`): `PSpec Tr.parse_string`, hence
     `parse_key_paths` / `parse_json_path` with the TRANSLATED `parse_string` as callee equal the models.
-/
import JsonbModel.Proofs.TranslatedAgreeJ5
import JsonbModel.Proofs.TranslatedAgreeH5

set_option linter.unusedSimpArgs false
set_option linter.unusedVariables false

namespace Jsonb.TrAgree

/-- two model results of the same Rust call: values related by `R`, an error for an error, a panic for a panic -/
inductive MSim {α β : Type} (R : α → β → Prop) : Res α → Res β → Prop where
  | ok {a : α} {b : β} : R a b → MSim R (.ok a) (.ok b)
  | err (e e' : String) : MSim R (.err e) (.err e')
  | panic (s s' : String) : MSim R (.panic s) (.panic s')
  | fuel : MSim R .fuel .fuel

theorem MSim_ok_iff {α β : Type} {R : α → β → Prop} {a : α} {b : β} : MSim R (.ok a) (.ok b) ↔ R a b :=
  ⟨fun h => by cases h; assumption, MSim.ok⟩

theorem MSim_bind {α β γ δ : Type} {R : α → β → Prop} {S : γ → δ → Prop} {r : Res α} {m : Res β}
    {f : α → Res γ} {g : β → Res δ} (h : MSim R r m) (hf : ∀ a b, R a b → MSim S (f a) (g b)) :
    MSim S (r.bind f) (m.bind g) := by
  cases h with
  | ok hr => exact hf _ _ hr
  | err e e' => exact MSim.err e e'
  | panic s s' => exact MSim.panic s s'
  | fuel => exact MSim.fuel

/-- closes a goal `MSim R x y` on constructor applications -/
macro "msim" : tactic => `(tactic| first
  | exact MSim.err _ _ | exact MSim.panic _ _ | exact MSim.fuel | exact MSim.ok rfl | exact MSim.ok ⟨rfl, rfl⟩
  | exact MSim.ok (by simp))

theorem hexVal_models (b : UInt8) : JP.decodeHexVal b = .ok (PathStr.decodeHexVal b) := by
  unfold JP.decodeHexVal PathStr.decodeHexVal
  have hb : b.toNat < C.HEX.length := by rw [JP.HEX_length]; exact b.toNat_lt
  rw [List.getElem?_eq_getElem hb]
  simp only [List.getD_eq_getElem?_getD, List.getElem?_eq_getElem hb, Option.getD_some]
  split <;> simp_all

theorem utf8_models (c : Nat) : encodeUtf8 c = PathStr.utf8Encode c := rfl

theorem hexVal_lt16 (b : UInt8) (h : Nat) (hh : PathStr.decodeHexVal b = some h) : h < 16 := by
  have := decodeHexVal_some_lt b h (by rw [hexVal_models, hh])
  exact this

/-- one step of the fold of `PathStr.decodeHexEscape` -/
def hexStep (acc : Res Nat) (b : UInt8) : Res Nat :=
  acc.bind fun n =>
    match PathStr.decodeHexVal b with
    | some h => .ok (n * 16 % 65536 + h)
    | none => .err "InvalidHex"

theorem decodeHexEscape_fold (bs : Bytes) : PathStr.decodeHexEscape bs = bs.foldl hexStep (.ok 0) := rfl

theorem hexStep_err_fold (l : Bytes) (e : String) : l.foldl hexStep (.err e) = .err e := by
  induction l with
  | nil => rfl
  | cons x xs ih => exact ih

/-- `decode_hex_escape`: the recursion of the JSON parser's model against the fold of the path parser's model -/
theorem decodeHexEscape_models (bs : Bytes) : ∀ n : Nat, n < 65536 →
    MSim (fun a b => a = b ∧ b < 65536) (bs.foldl hexStep (.ok n)) (JP.decodeHexEscape bs n) := by
  induction bs with
  | nil => intro n hn; simp [MSim_ok_iff, JP.decodeHexEscape, hn]
  | cons b bs ih =>
    intro n hn
    rw [List.foldl_cons, JP.decodeHexEscape, hexVal_models]
    cases hh : PathStr.decodeHexVal b with
    | none =>
      have e1 : hexStep (.ok n) b = .err "InvalidHex" := by simp [hexStep, Res.bind, hh]
      rw [e1, hexStep_err_fold]
      exact MSim.err _ _
    | some h =>
      have h16 := hexVal_lt16 b h hh
      have hlt : n * 16 % 65536 + h < 65536 := by omega
      have hnge : ¬ (n * 16 % 65536 + h ≥ 65536) := by omega
      have e1 : hexStep (.ok n) b = .ok (n * 16 % 65536 + h) := by simp [hexStep, Res.bind, hh]
      rw [e1]
      simp only [bind, Res.bind, hnge, if_false]
      exact ih _ hlt

theorem MSim_refl_ok {α : Type} (a : α) : MSim (fun x y => x = y) (Res.ok a) (Res.ok a) := MSim.ok rfl

theorem readExact_models (d : Bytes) :
    JP.readExact d = (match PathStr.readExact4 d with
      | some p => .ok p
      | none => .err "io: failed to fill whole buffer") := by
  unfold JP.readExact PathStr.readExact4
  have : C.UNICODE_LEN = 4 := rfl
  simp only [this]
  split <;> rfl

theorem readHex4_models (site : String) (d : Bytes) :
    MSim (fun x y => x = y) (PathStr.readUnicode d) (JP.readHex4 site d) := by
  unfold PathStr.readUnicode JP.readHex4
  cases d with
  | nil => (try simp [JP.data0, bind, Res.bind]); msim
  | cons b r =>
    simp only [JP.data0, bind, Res.bind]
    by_cases hb : (b == 123) = true
    · have hb' : (b == 0x7B) = true := hb
      simp only [hb, hb', if_true, JP.dataFrom, List.length_cons, List.drop_succ_cons, List.drop_zero, readExact_models]
      have h1 : 1 ≤ r.length + 1 := by omega
      simp only [h1, if_true]
      cases PathStr.readExact4 r with
      | none => msim
      | some p =>
        obtain ⟨nums, r'⟩ := p
        cases r' with
        | nil => (try simp [JP.data0]); msim
        | cons c r'' =>
          simp only [JP.data0]
          by_cases hc : (c != 125) = true
          · have hc' : (c != 0x7D) = true := hc
            (try simp [hc, hc']); msim
          · have hc' : ¬ (c != 0x7D) = true := hc
            (try simp [hc, hc', pure]); msim
    · have hb' : ¬ (b == 0x7B) = true := hb
      simp only [hb, hb', Bool.false_eq_true, if_false, readExact_models]
      cases PathStr.readExact4 (b :: r) with
      | none => msim
      | some p => msim

theorem encInv_models (numbers : Bytes) : JP.encodeInvalidUnicode numbers = PathStr.encodeInvalidUnicode numbers := by
  unfold JP.encodeInvalidUnicode PathStr.encodeInvalidUnicode
  have e1 : encodeUtf8 0x5C = [92] := rfl
  have e2 : encodeUtf8 0x75 = [117] := rfl
  rw [e1, e2, List.flatMap_def]
  rfl

/-- the relation between the answers of the two escape readers: (text, rest) against (rest, text) -/
def SwapRel (a : Bytes × Bytes) (b : Bytes × Bytes) : Prop := a.1 = b.2 ∧ a.2 = b.1

theorem charFromU32_models (site : String) (n : Nat) :
    MSim (fun s c => s = encodeUtf8 c) (PathStr.charFromU32Unwrap n) (JP.charFromU32 site n) := by
  unfold PathStr.charFromU32Unwrap JP.charFromU32
  by_cases h : n < 0xD800 ∨ (0xE000 ≤ n ∧ n < 0x110000)
  · have h' : ¬ ((0xD800 ≤ n ∧ n ≤ 0xDFFF) ∨ n > 0x10FFFF) := by omega
    (try simp [h, h', utf8_models]); msim
  · have h' : (0xD800 ≤ n ∧ n ≤ 0xDFFF) ∨ n > 0x10FFFF := by omega
    (try simp [h, h']); msim

theorem pairCombine_models (hex n2 : Nat) (h1 : 0xD800 ≤ hex ∧ hex ≤ 0xDBFF) (h2 : 0xDC00 ≤ n2 ∧ n2 ≤ 0xDFFF) :
    MSim (fun s c => s = encodeUtf8 c)
      (PathStr.charFromU32Unwrap (((hex - 0xD800) * 1024 ||| (n2 - 0xDC00)) + 0x10000)) (JP.pairCombine hex n2) := by
  unfold JP.pairCombine JP.subUsize
  have ha : ¬ (hex < 0xD800) := by omega
  have hb : ¬ (n2 < 0xDC00) := by omega
  simp only [ha, hb, if_false, bind, Res.bind]
  have hs : (hex - 0xD800) <<< 10 = (hex - 0xD800) * 1024 := by rw [Nat.shiftLeft_eq]
  have hlt : (hex - 0xD800) * 1024 < 2 ^ 20 := by omega
  have hlt2 : n2 - 0xDC00 < 2 ^ 20 := by omega
  have hor : ((hex - 0xD800) * 1024 ||| (n2 - 0xDC00)) < 2 ^ 20 := Nat.or_lt_two_pow hlt hlt2
  have hmod : (hex - 0xD800) * 1024 % 4294967296 = (hex - 0xD800) * 1024 := Nat.mod_eq_of_lt (by omega)
  rw [hs, hmod]
  have hn : ¬ (((hex - 0xD800) * 1024 ||| (n2 - 0xDC00)) + 0x10000 ≥ 4294967296) := by omega
  simp only [hn, if_false]
  exact charFromU32_models _ _

theorem decodeHexEscape0_models (bs : Bytes) :
    MSim (fun a b => a = b ∧ b < 65536) (PathStr.decodeHexEscape bs) (JP.decodeHexEscape bs 0) := by
  rw [decodeHexEscape_fold]; exact decodeHexEscape_models bs 0 (by omega)

theorem mb_ok {α β : Type} (a : α) (f : α → Res β) : (Res.ok a).bind f = f a := Eq.trans rfl rfl
theorem mbind_ok {α β : Type} (a : α) (f : α → Res β) : (Res.ok a >>= f) = f a := Eq.trans rfl rfl
theorem MSim_ok {α β : Type} {R : α → β → Prop} {a : α} {b : β} (h : R a b) : MSim R (.ok a) (.ok b) := MSim.ok h

set_option maxRecDepth 100000 in
/-- the continuation of the path model after the `\u` of a low surrogate has been consumed, against `pairLow` -/
theorem pairLow_models (numbers : Bytes) (hex : Nat) (data2 : Bytes) (h1 : 0xD800 ≤ hex ∧ hex ≤ 0xDBFF) :
    MSim SwapRel
      ((PathStr.readUnicode data2).bind fun (lower, data3) =>
        (PathStr.decodeHexEscape lower).bind fun n2 =>
        if ¬ (0xDC00 ≤ n2 ∧ n2 ≤ 0xDFFF) then
          .ok (PathStr.encodeInvalidUnicode numbers ++ PathStr.encodeInvalidUnicode lower, data3)
        else
          (PathStr.charFromU32Unwrap (((hex - 0xD800) * 1024 ||| (n2 - 0xDC00)) + 0x10000)).bind fun s =>
          .ok (s, data3))
      (JP.pairLow numbers hex data2) := by
  unfold JP.pairLow
  refine MSim_bind (readHex4_models _ data2) ?_
  rintro ⟨lower, data3⟩ _ rfl
  refine MSim_bind (decodeHexEscape0_models lower) ?_
  rintro n2 _ ⟨rfl, _⟩
  by_cases hn : 0xDC00 ≤ n2 ∧ n2 ≤ 0xDFFF
  · have hd : (!decide (0xDC00 ≤ n2 ∧ n2 ≤ 0xDFFF)) = false := by simp only [hn, and_self, decide_true, Bool.not_true]
    rw [if_neg (fun h => h hn)]
    simp only [hd, Bool.false_eq_true, if_false]
    refine MSim_bind (pairCombine_models hex n2 h1 hn) ?_
    rintro s c rfl
    exact MSim_ok ⟨rfl, rfl⟩
  · have hd : (!decide (0xDC00 ≤ n2 ∧ n2 ≤ 0xDFFF)) = true := by simp only [hn, decide_false, Bool.not_false]
    rw [if_pos hn]
    simp only [hd, if_true]
    exact MSim_ok ⟨by simp only [encInv_models], rfl⟩

/-- the JSON parser model's test for a following `\u`, on data of at least two bytes -/
theorem jp_low_head (numbers : Bytes) (hex : Nat) (d0 d1 : UInt8) (data2 : Bytes) (X : Bytes) :
    (do
      let d0' ← JP.data0 "parse_escaped_string(surrogate): data[0]" (d0 :: d1 :: data2)
      let isBsU ← (if d0' == 0x5C then do
          let d1' ← JP.bufIndex "parse_escaped_string(surrogate): data[1]" (d0 :: d1 :: data2) 1
          pure (d1' == 0x75)
        else pure false : Res Bool)
      if !isBsU then pure (d0 :: d1 :: data2, X)
      else do
        let data ← JP.dataFrom "parse_escaped_string(surrogate): &data[2..]" (d0 :: d1 :: data2) 2
        JP.pairLow numbers hex data : Res (Bytes × Bytes)) =
      if (d0 == 0x5C && d1 == 0x75) = true then JP.pairLow numbers hex data2 else .ok (d0 :: d1 :: data2, X) := by
  have hdf : JP.dataFrom "parse_escaped_string(surrogate): &data[2..]" (d0 :: d1 :: data2) 2 = .ok data2 := by
    simp [JP.dataFrom]
  have hbi : JP.bufIndex "parse_escaped_string(surrogate): data[1]" (d0 :: d1 :: data2) 1 = .ok d1 := rfl
  have hd0 : JP.data0 "parse_escaped_string(surrogate): data[0]" (d0 :: d1 :: data2) = .ok d0 := rfl
  rw [hd0, mbind_ok, hbi, hdf]
  cases h0 : (d0 == 0x5C) <;> cases h1 : (d1 == 0x75) <;> simp_all [bind, Res.bind, pure]

theorem afterHex_models (numbers data : Bytes) :
    MSim SwapRel
      ((PathStr.decodeHexEscape numbers).bind fun hex =>
        if 0xDC00 ≤ hex ∧ hex ≤ 0xDFFF then .ok (PathStr.encodeInvalidUnicode numbers, data)
        else if 0xD800 ≤ hex ∧ hex ≤ 0xDBFF then PathStr.parseLowSurrogate numbers hex data
        else (PathStr.charFromU32Unwrap hex).bind fun s => .ok (s, data))
      (JP.afterHex numbers data) := by
  unfold JP.afterHex
  refine MSim_bind (decodeHexEscape0_models numbers) ?_
  rintro hex _ ⟨rfl, _⟩
  by_cases h1 : 0xDC00 ≤ hex ∧ hex ≤ 0xDFFF
  · rw [if_pos h1, if_pos h1]
    exact MSim_ok ⟨by simp only [encInv_models], rfl⟩
  · rw [if_neg h1, if_neg h1]
    by_cases h2 : 0xD800 ≤ hex ∧ hex ≤ 0xDBFF
    · rw [if_pos h2, if_pos h2]
      unfold PathStr.parseLowSurrogate
      by_cases hl : data.length < 2
      · rw [if_pos hl, if_pos hl]
        exact MSim_ok ⟨by simp only [encInv_models], rfl⟩
      · rw [if_neg hl, if_neg hl]
        rcases data with _ | ⟨d0, _ | ⟨d1, data2⟩⟩
        · exact absurd (by simp) hl
        · exact absurd (by simp) hl
        · rw [jp_low_head]
          by_cases h0 : d0 = 92
          · subst h0
            by_cases h1' : d1 = 117
            · subst h1'
              rw [if_pos (by rfl)]
              exact pairLow_models numbers hex data2 h2
            · have hb : (((92 : UInt8) == 0x5C) && (d1 == 0x75)) = false := by simp [h1']
              rw [if_neg (by rw [hb]; simp)]
              split
              · rename_i heq; simp only [List.cons.injEq] at heq; exact absurd heq.2.1 h1'
              · exact MSim_ok ⟨by simp only [encInv_models], rfl⟩
          · have hb : ((d0 == 0x5C) && (d1 == 0x75)) = false := by simp [h0]
            rw [if_neg (by rw [hb]; simp)]
            split
            · rename_i heq; simp only [List.cons.injEq] at heq; exact absurd heq.1 h0
            · exact MSim_ok ⟨by simp only [encInv_models], rfl⟩
    · rw [if_neg h2, if_neg h2]
      refine MSim_bind (charFromU32_models _ hex) ?_
      rintro s c rfl
      exact MSim_ok ⟨rfl, rfl⟩

theorem parseEscapedU_models (data : Bytes) :
    MSim SwapRel (PathStr.parseEscapedU data) (do
      let (numbers, data) ← JP.readHex4 "parse_escaped_string(u):" data
      JP.afterHex numbers data) := by
  unfold PathStr.parseEscapedU
  refine MSim_bind (readHex4_models _ data) ?_
  rintro ⟨numbers, d'⟩ _ rfl
  exact afterHex_models numbers d'

theorem parseEscaped_models (data : Bytes) : MSim SwapRel (PathStr.parseEscaped data) (JP.parseEscaped data) := by
  unfold PathStr.parseEscaped JP.parseEscaped
  cases data with
  | nil => exact MSim.panic _ _
  | cons byte d =>
    have hd0 : JP.data0 "parse_escaped_string: data[0]" (byte :: d) = .ok byte := rfl
    have hdf : JP.dataFrom "parse_escaped_string: &data[1..]" (byte :: d) 1 = .ok d := by simp [JP.dataFrom]
    rw [hd0, mbind_ok, hdf, mbind_ok]
    dsimp only
    by_cases h1 : (byte == 92) = true
    · rw [if_pos h1, if_pos h1]; exact MSim.ok ⟨rfl, rfl⟩
    · rw [if_neg h1, if_neg h1]
      by_cases h2 : (byte == 34) = true
      · rw [if_pos h2, if_pos h2]; exact MSim.ok ⟨rfl, rfl⟩
      · rw [if_neg h2, if_neg h2]
        by_cases h3 : (byte == 47) = true
        · rw [if_pos h3, if_pos h3]; exact MSim.ok ⟨rfl, rfl⟩
        · rw [if_neg h3, if_neg h3]
          by_cases h4 : (byte == 98) = true
          · rw [if_pos h4, if_pos h4]; exact MSim.ok ⟨rfl, rfl⟩
          · rw [if_neg h4, if_neg h4]
            by_cases h5 : (byte == 102) = true
            · rw [if_pos h5, if_pos h5]; exact MSim.ok ⟨rfl, rfl⟩
            · rw [if_neg h5, if_neg h5]
              by_cases h6 : (byte == 110) = true
              · rw [if_pos h6, if_pos h6]; exact MSim.ok ⟨rfl, rfl⟩
              · rw [if_neg h6, if_neg h6]
                by_cases h7 : (byte == 114) = true
                · rw [if_pos h7, if_pos h7]; exact MSim.ok ⟨rfl, rfl⟩
                · rw [if_neg h7, if_neg h7]
                  by_cases h8 : (byte == 116) = true
                  · rw [if_pos h8, if_pos h8]; exact MSim.ok ⟨rfl, rfl⟩
                  · rw [if_neg h8, if_neg h8]
                    by_cases h9 : (byte == 117) = true
                    · rw [if_pos h9, if_pos h9]; exact parseEscapedU_models d
                    · rw [if_neg h9, if_neg h9]; exact MSim.err _ _

theorem parseStringLoop_models : ∀ (n : Nat) (data buf : Bytes),
    MSim (fun a b => a = b) (PathStr.parseStringLoop n data buf) (JP.parseStringLoop n data buf) := by
  intro n
  induction n with
  | zero => intro data buf; exact MSim.fuel
  | succ n ih =>
    intro data buf
    cases data with
    | nil => exact MSim.ok rfl
    | cons byte d =>
      unfold PathStr.parseStringLoop JP.parseStringLoop
      have he : (byte :: d).isEmpty = false := rfl
      have hd0 : JP.data0 "parse_string: data[0]" (byte :: d) = .ok byte := rfl
      have hdf1 : JP.dataFrom "parse_string: &data[1..] (escape)" (byte :: d) 1 = .ok d := by simp [JP.dataFrom]
      have hdf2 : JP.dataFrom "parse_string: &data[1..]" (byte :: d) 1 = .ok d := by simp [JP.dataFrom]
      simp only [he, Bool.false_eq_true, if_false]
      rw [hd0, mbind_ok]
      by_cases hb : (byte == 92) = true
      · rw [if_pos hb, if_pos hb, hdf1, mbind_ok]
        refine MSim_bind (parseEscaped_models d) ?_
        rintro ⟨s, rest⟩ ⟨rest', out⟩ ⟨h1, h2⟩
        simp only at h1 h2
        subst h1; subst h2
        exact ih _ _
      · rw [if_neg hb, if_neg hb, hdf2, mbind_ok]
        exact ih _ _

/-- **the two hand-written models of `util::parse_string` answer alike on every byte string** -/
theorem parseString_models (data : Bytes) :
    MSim (fun a b => a = b) (PathStr.parseString data) (JP.parseString data) := by
  unfold PathStr.parseString JP.parseString
  refine MSim_bind (parseStringLoop_models _ data []) ?_
  rintro buf _ rfl
  by_cases hv : validUtf8 buf = true
  · rw [if_pos hv, if_pos hv]; exact MSim.ok rfl
  · rw [if_neg hv, if_neg hv]; exact MSim.err _ _

/-! ## the bridge -/

/-- **the translated `util::parse_string` of phase 6b is an admissible callee of the scanners** -/
theorem pspec_translated : PSpec Tr.parse_string := by
  intro data len idx rest hd hl hlen hidx
  obtain ⟨ln, rfl⟩ := Int.eq_ofNat_of_zero_le hlen.1
  obtain ⟨ix, rfl⟩ := Int.eq_ofNat_of_zero_le hidx.1
  have sim := parse_string_sim data ln ix (by omega) (by omega)
  have mm := parseString_models data
  have np := PathStr.parseString_ne_panic data hd
  have nf := PathStr.parseString_ne_fuel data
  cases hP : PathStr.parseString data with
  | ok a =>
    rw [hP] at mm
    cases hJ : JP.parseString data with
    | ok b =>
      rw [hJ] at mm sim
      have hab : a = b := MSim_ok_iff.mp mm
      subst hab
      have hs : Tr.parse_string data (ln : Int) (ix : Int) = .ok (a, ((ix + data.length : Nat) : Int)) := sim
      rw [hs]; rfl
    | err e => rw [hJ] at mm; cases mm
    | panic s => rw [hJ] at mm; cases mm
    | fuel => rw [hJ] at mm; cases mm
  | err e =>
    rw [hP] at mm
    cases hJ : JP.parseString data with
    | ok b => rw [hJ] at mm; cases mm
    | err e' =>
      rw [hJ] at sim
      have hs : Tr.parse_string data (ln : Int) (ix : Int) = .err (normE e') := sim
      rw [hs]; rfl
    | panic s => rw [hJ] at mm; cases mm
    | fuel => rw [hJ] at mm; cases mm
  | panic s => exact absurd hP (np s)
  | fuel => exact absurd hP nf

/-- `parse_key_paths` with the TRANSLATED `parse_string` as callee -/
theorem parse_key_paths_translated (bs : Bytes) (hlen : bs.length < 9223372036854775808) :
    Tr.parse_key_paths Tr.parse_string bs = (parseKeyPaths bs).map ofKeyPaths :=
  parse_key_paths_agrees Tr.parse_string pspec_translated bs hlen

/-- `parse_json_path` with the TRANSLATED `parse_string` as callee -/
theorem parse_json_path_translated (bs : Bytes) (hlen : bs.length + 2 ≤ 9223372036854775808) (fuel : Nat)
    (hf : 8 * bs.length + 10 ≤ fuel) :
    Tr.parse_json_path fuel Tr.parse_string bs = (parseJsonPath bs).map ofJsonPath :=
  parse_json_path_agrees Tr.parse_string pspec_translated bs hlen fuel hf

end Jsonb.TrAgree
