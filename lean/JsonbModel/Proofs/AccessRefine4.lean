/-
Refinement of the read-only accessors, part 3: `get_by_keypath`.  The loop descends into
nested containers by absolute offsets inside the top-level buffer; the invariant `Located`
says that the current `(offset, jentry)` state designates a sub-value `w` of the document
whose image sits at that offset.
-/
import JsonbModel.Proofs.AccessRefine3

namespace Jsonb
open JV

/-! ### one step on the tree -/

/-- the child selected by one key-path element -/
def childOf : JV → KeyPath → Option JV
  | arr vs, .index i =>
    let n : Int := vs.length
    if i > n ∨ n + i < 0 then none else vs[(if i ≥ 0 then i else n + i).toNat]?
  | obj kvs, .name nm => Spec.lookup nm kvs
  | obj kvs, .quoted nm => Spec.lookup nm kvs
  | _, _ => none

theorem getByKeypath_cons (w : JV) (p : KeyPath) (ps : List KeyPath) :
    Spec.getByKeypath w (p :: ps) = (childOf w p).bind (fun v => Spec.getByKeypath v ps) := by
  cases w <;> cases p <;> simp only [Spec.getByKeypath, childOf, Option.bind_none]
  · split
    · rfl
    · split <;> simp_all
  · cases Spec.lookup _ _ <;> rfl
  · cases Spec.lookup _ _ <;> rfl

/-! ### offset-generalised `get_jentry_by_index` -/

theorem getJentryByIndex_spec (vs : List JV) (hn : vs.length < 536870912) (hg : goodL vs = true)
    (a b : Bytes) (off : Nat) (hoff : off = a.length) (i : Nat) :
    getJentryByIndex (a ++ ((entry (arr vs)).2 ++ b)) off (C.ARRAY_CONTAINER_TAG + vs.length) i
      = (vs[i]?).map (fun v => (jeOf v, off + 4 * vs.length + 4 + (paysL (vs.take i)).length)) := by
  unfold getJentryByIndex
  rw [hdrLen_arr _ hn]
  by_cases hi : i ≥ vs.length
  · rw [if_pos hi]
    have : vs[i]? = none := by simp; omega
    simp [this]
  · rw [if_neg hi]
    simp only [entry, List.append_assoc]
    have e0 : a ++ (u32be (C.ARRAY_CONTAINER_TAG + vs.length) ++ (wordsL vs ++ (paysL vs ++ b)))
        = (a ++ u32be (C.ARRAY_CONTAINER_TAG + vs.length)) ++ (wordsL vs ++ (paysL vs ++ b)) := by simp
    rw [e0, getJentryByIndexLoop_spec vs hg _ _ i 0 (off + 4) (off + 4 * vs.length + 4) (by simp; omega)
      (by omega) (by omega)]
    simp only [Nat.sub_zero]
    rfl

theorem index_at (vs : List JV) (a b : Bytes) (i : Nat) (v : JV) (h : vs[i]? = some v) :
    At (a ++ ((entry (arr vs)).2 ++ b)) (a.length + 4 * vs.length + 4 + (paysL (vs.take i)).length) v := by
  refine ⟨a ++ (u32be (C.ARRAY_CONTAINER_TAG + vs.length) ++ (wordsL vs ++ paysL (vs.take i))),
    paysL (vs.drop (i + 1)) ++ b, ?_, ?_⟩
  · simp only [entry]
    rw [paysL_split vs i v h]
    simp
  · simp [wordsL_length']; omega

/-! ### the loop invariant -/

/-- the first test of the loop body: the current entry is not a container -/
def jeBad (je : Option JE) : Bool := match je with | some j => j.ty != C.CONTAINER_TAG | none => false

/-- the walker state `(off, je)` designates the sub-value `w` of `buf` -/
def Located (buf : Bytes) (off : Nat) (je : Option JE) (w : JV) : Prop :=
  (je = some (jeOf w) ∧ good w = true ∧ At buf off w) ∨
  (je = none ∧ isScalar w = false ∧ goodTop w = true ∧ At buf off w)

theorem good_arr_parts (vs : List JV) (h : good (arr vs) = true) : vs.length < 536870912 ∧ goodL vs = true := by
  simp only [good, Bool.and_eq_true, decide_eq_true_eq] at h
  exact ⟨h.1.1, h.2⟩

theorem good_obj_parts (kvs : List (Bytes × JV)) (h : good (obj kvs) = true) :
    kvs.length < 536870912 ∧ goodK kvs = true := by
  simp only [good, Bool.and_eq_true, decide_eq_true_eq] at h
  exact ⟨h.1.1.1, h.2⟩

theorem located_arr (buf : Bytes) (off : Nat) (je : Option JE) (vs : List JV) (h : Located buf off je (arr vs)) :
    vs.length < 536870912 ∧ goodL vs = true ∧ At buf off (arr vs) ∧
      jeBad je = false := by
  rcases h with ⟨rfl, h2, h3⟩ | ⟨rfl, _, h2, h3⟩
  · have := good_arr_parts vs h2
    exact ⟨this.1, this.2, h3, by simp [jeBad, jeOf, ety]⟩
  · simp only [goodTop, Bool.and_eq_true, decide_eq_true_eq] at h2
    exact ⟨h2.1, h2.2, h3, rfl⟩

theorem located_obj (buf : Bytes) (off : Nat) (je : Option JE) (kvs : List (Bytes × JV))
    (h : Located buf off je (obj kvs)) :
    kvs.length < 536870912 ∧ goodK kvs = true ∧ At buf off (obj kvs) ∧
      jeBad je = false := by
  rcases h with ⟨rfl, h2, h3⟩ | ⟨rfl, _, h2, h3⟩
  · have := good_obj_parts kvs h2
    exact ⟨this.1, this.2, h3, by simp [jeBad, jeOf, ety]⟩
  · simp only [goodTop, Bool.and_eq_true, decide_eq_true_eq] at h2
    exact ⟨h2.1.1, h2.2, h3, rfl⟩

theorem located_scalar (buf : Bytes) (off : Nat) (je : Option JE) (w : JV) (hs : isScalar w = true)
    (h : Located buf off je w) :
    jeBad je = true := by
  rcases h with ⟨rfl, _, _⟩ | ⟨_, h1, _⟩
  · cases w with
    | arr vs => simp [isScalar] at hs
    | obj kvs => simp [isScalar] at hs
    | bool b => cases b <;> simp [jeBad, jeOf, ety, tagDefs]
    | _ => simp [jeBad, jeOf, ety, tagDefs]
  · rw [hs] at h1; simp at h1

theorem childOf_scalar (w : JV) (hs : isScalar w = true) (p : KeyPath) : childOf w p = none := by
  cases w <;> simp_all [isScalar, childOf]

/-! ### one step of the byte loop -/

theorem loop_cons_ok (buf : Bytes) (p : KeyPath) (ps : List KeyPath) (off : Nat) (je : Option JE)
    (h : jeBad je = false) :
    Fn.getByKeypathLoop buf (p :: ps) off je = Fn.getByKeypathLoop buf (p :: ps) off none := by
  cases je with
  | none => rfl
  | some j =>
    simp only [jeBad] at h
    simp only [Fn.getByKeypathLoop, h]

theorem loop_cons_bad (buf : Bytes) (p : KeyPath) (ps : List KeyPath) (off : Nat) (je : Option JE)
    (h : jeBad je = true) :
    Fn.getByKeypathLoop buf (p :: ps) off je = .ok none := by
  cases je with
  | none => simp [jeBad] at h
  | some j =>
    simp only [jeBad] at h
    simp only [Fn.getByKeypathLoop, h, if_true]

theorem keypath_step (buf : Bytes) (w : JV) (off : Nat) (je : Option JE) (hL : Located buf off je w)
    (p : KeyPath) (ps : List KeyPath) :
    match childOf w p with
    | none => Fn.getByKeypathLoop buf (p :: ps) off je = .ok none
    | some v => ∃ vo, off < vo ∧ good v = true ∧ At buf vo v ∧
        Fn.getByKeypathLoop buf (p :: ps) off je = Fn.getByKeypathLoop buf ps vo (some (jeOf v)) := by
  cases w with
  | arr vs =>
    obtain ⟨hn, hg, hat, hje⟩ := located_arr buf off je vs hL
    rw [loop_cons_ok buf p ps off je hje]
    clear hje hL
    obtain ⟨a, b, rfl, rfl⟩ := hat
    have hr : readU32At (a ++ ((entry (arr vs)).2 ++ b)) a.length = some (C.ARRAY_CONTAINER_TAG + vs.length) := by
      simp only [entry, List.append_assoc]
      exact readU32At_mid a _ _ _ rfl (arr_header_lt _ hn)
    cases p with
    | index idx =>
      simp only [childOf]
      by_cases hguard : idx > (vs.length : Int) ∨ (vs.length : Int) + idx < 0
      · rw [if_pos hguard]
        simp only [Fn.getByKeypathLoop, Bool.false_eq_true, if_false, hr, hdrType_arr _ hn, hdrLen_arr _ hn,
          if_true, hguard]
      · rw [if_neg hguard]
        have hi : (if idx ≥ 0 then idx.toNat else ((vs.length : Int) + idx).toNat)
            = (if idx ≥ 0 then idx else (vs.length : Int) + idx).toNat := by
          split <;> rfl
        simp only [Fn.getByKeypathLoop, Bool.false_eq_true, if_false, hr, hdrType_arr _ hn, hdrLen_arr _ hn,
          if_true, hguard, hi, getJentryByIndex_spec vs hn hg a b a.length rfl]
        cases hv : vs[(if idx ≥ 0 then idx else (vs.length : Int) + idx).toNat]? with
        | none => simp
        | some v =>
          simp only [Option.map_some]
          exact ⟨_, by omega, goodL_get vs hg _ v hv, index_at vs a b _ v hv, rfl⟩
    | name nm =>
      simp only [childOf, Fn.getByKeypathLoop, Bool.false_eq_true, if_false, hr, hdrType_arr _ hn]
      rw [if_neg ne_arr_obj]
    | quoted nm =>
      simp only [childOf, Fn.getByKeypathLoop, Bool.false_eq_true, if_false, hr, hdrType_arr _ hn]
      rw [if_neg ne_arr_obj]
  | obj kvs =>
    obtain ⟨hn, hg, hat, hje⟩ := located_obj buf off je kvs hL
    rw [loop_cons_ok buf p ps off je hje]
    clear hje hL
    obtain ⟨a, b, rfl, rfl⟩ := hat
    have hr : readU32At (a ++ ((entry (obj kvs)).2 ++ b)) a.length = some (C.OBJECT_CONTAINER_TAG + kvs.length) := by
      simp only [entry, List.append_assoc]
      exact readU32At_mid a _ _ _ rfl (obj_header_lt _ hn)
    have key : ∀ nm : Bytes,
        match Spec.lookup nm kvs with
        | none => (match getJentryByName (a ++ ((entry (obj kvs)).2 ++ b)) a.length
                      (C.OBJECT_CONTAINER_TAG + kvs.length) nm false with
                   | .ok (some (j, vo)) => Fn.getByKeypathLoop (a ++ ((entry (obj kvs)).2 ++ b)) ps vo (some j)
                   | .ok none => .ok none
                   | .err e => .err e
                   | .panic s => .panic s
                   | .fuel => .fuel) = .ok none
        | some v => ∃ vo, a.length < vo ∧ good v = true ∧ At (a ++ ((entry (obj kvs)).2 ++ b)) vo v ∧
            (match getJentryByName (a ++ ((entry (obj kvs)).2 ++ b)) a.length
                      (C.OBJECT_CONTAINER_TAG + kvs.length) nm false with
                   | .ok (some (j, vo)) => Fn.getByKeypathLoop (a ++ ((entry (obj kvs)).2 ++ b)) ps vo (some j)
                   | .ok none => .ok none
                   | .err e => .err e
                   | .panic s => .panic s
                   | .fuel => .fuel)
              = Fn.getByKeypathLoop (a ++ ((entry (obj kvs)).2 ++ b)) ps vo (some (jeOf v)) := by
      intro nm
      rw [getJentryByName_spec kvs hn hg a b a.length rfl nm false]
      have hspec : Spec.getByName (obj kvs) nm false = Spec.lookup nm kvs := by
        simp only [Spec.getByName]; cases Spec.lookup nm kvs <;> simp
      cases hres : nameResult nm false kvs (a.length + 4 + 8 * kvs.length + (keyBytes kvs).length) with
      | none =>
        have := nameResult_miss kvs nm false _ hres
        rw [hspec] at this
        rw [this]; rfl
      | some r =>
        obtain ⟨v, vo⟩ := r
        obtain ⟨h1, h2, h3⟩ := nameResult_hit kvs hg a b nm false v vo hres
        rw [hspec] at h2
        rw [h2]
        obtain ⟨_, A, B, _, hpos⟩ := nameResult_at nm false kvs hg _ v vo hres
        exact ⟨vo, by omega, h1, h3, rfl⟩
    cases p with
    | index idx =>
      simp only [childOf, Fn.getByKeypathLoop, Bool.false_eq_true, if_false, hr, hdrType_obj _ hn]
      rw [if_neg ne_obj_arr]
    | name nm =>
      simp only [childOf, Fn.getByKeypathLoop, Bool.false_eq_true, if_false, hr, hdrType_obj _ hn, if_true]
      exact key nm
    | quoted nm =>
      simp only [childOf, Fn.getByKeypathLoop, Bool.false_eq_true, if_false, hr, hdrType_obj _ hn, if_true]
      exact key nm
  | null =>
    simp only [childOf_scalar null rfl]
    exact loop_cons_bad buf p ps off je (located_scalar buf off je null rfl hL)
  | bool x =>
    simp only [childOf_scalar (bool x) rfl]
    exact loop_cons_bad buf p ps off je (located_scalar buf off je (bool x) rfl hL)
  | num n =>
    simp only [childOf_scalar (num n) rfl]
    exact loop_cons_bad buf p ps off je (located_scalar buf off je (num n) rfl hL)
  | str s =>
    simp only [childOf_scalar (str s) rfl]
    exact loop_cons_bad buf p ps off je (located_scalar buf off je (str s) rfl hL)

/-! ### the whole loop -/

theorem keypathLoop_spec (buf : Bytes) (path : List KeyPath) :
    ∀ (w : JV) (off : Nat) (je : Option JE), Located buf off je w →
      match Spec.getByKeypath w path with
      | none => Fn.getByKeypathLoop buf path off je = .ok none
      | some w' => ∃ off' je', Fn.getByKeypathLoop buf path off je = .ok (some (off', je')) ∧
          Located buf off' je' w' ∧ (path = [] → off' = off ∧ je' = je) ∧
          (path ≠ [] → off < off' ∧ je' = some (jeOf w')) := by
  induction path with
  | nil =>
    intro w off je hL
    simp only [Spec.getByKeypath, Fn.getByKeypathLoop]
    exact ⟨off, je, rfl, hL, fun _ => ⟨rfl, rfl⟩, fun h => absurd rfl h⟩
  | cons p ps ih =>
    intro w off je hL
    rw [getByKeypath_cons]
    have hstep := keypath_step buf w off je hL p ps
    cases hc : childOf w p with
    | none =>
      rw [hc] at hstep
      simpa using hstep
    | some v =>
      rw [hc] at hstep
      obtain ⟨vo, hlt, hgv, hat, heq⟩ := hstep
      simp only [Option.bind_some]
      have hL' : Located buf vo (some (jeOf v)) v := Or.inl ⟨rfl, hgv, hat⟩
      have := ih v vo (some (jeOf v)) hL'
      cases hs : Spec.getByKeypath v ps with
      | none =>
        rw [hs] at this
        simp only []
        rw [heq]; exact this
      | some w' =>
        rw [hs] at this
        obtain ⟨off', je', h1, h2, h3, h4⟩ := this
        simp only []
        refine ⟨off', je', by rw [heq]; exact h1, h2, fun h => by simp at h, fun _ => ?_⟩
        by_cases hps : ps = []
        · obtain ⟨e1, e2⟩ := h3 hps
          subst hps
          simp only [Spec.getByKeypath, Option.some.injEq] at hs
          subst hs
          exact ⟨by omega, e2⟩
        · obtain ⟨e1, e2⟩ := h4 hps
          exact ⟨by omega, e2⟩

/-! ### get_by_keypath -/

theorem good_goodTop (v : JV) (h : good v = true) : goodTop v = true := by
  cases v with
  | arr vs => have := good_arr_parts vs h; simp [goodTop, this.1, this.2]
  | obj kvs =>
    have := good_obj_parts kvs h
    simp only [good, Bool.and_eq_true, decide_eq_true_eq] at h
    simp [goodTop, this.1, this.2, h.1.2]
  | _ => exact h

theorem getByKeypath_container (v : JV) (hs : isScalar v = false) (hg : goodTop v = true) (path : List KeyPath) :
    Fn.getByKeypath (encodeSpec v) path = .ok ((Spec.getByKeypath v path).map encodeSpec) := by
  have henc : encodeSpec v = (entry v).2 := by
    cases v <;> simp_all [isScalar, encodeSpec]
  have hL : Located (encodeSpec v) 0 none v :=
    Or.inr ⟨rfl, hs, hg, [], [], by simp [henc], rfl⟩
  have := keypathLoop_spec (encodeSpec v) path v 0 none hL
  unfold Fn.getByKeypath
  cases hsp : Spec.getByKeypath v path with
  | none =>
    rw [hsp] at this
    rw [this]; rfl
  | some w' =>
    rw [hsp] at this
    obtain ⟨off', je', h1, h2, h3, h4⟩ := this
    rw [h1]
    simp only []
    by_cases hp : path = []
    · obtain ⟨e1, e2⟩ := h3 hp
      subst hp
      simp only [Spec.getByKeypath, Option.some.injEq] at hsp
      subst hsp
      rw [if_pos e1]; rfl
    · obtain ⟨e1, e2⟩ := h4 hp
      rw [if_neg (by omega), e2]
      simp only []
      rcases h2 with ⟨_, hgw, hat⟩ | ⟨hnone, _⟩
      · simp only [Fn.extractOpt, extract_at _ off' w' hgw hat, Option.map_some]
      · rw [e2] at hnone; simp at hnone

/-- `get_by_keypath`: the sub-value the path selects, as its own document -/
theorem getByKeypath_refines (v : JV) (hg : goodTop v = true) (path : List KeyPath) :
    Fn.getByKeypath (encodeSpec v) path = .ok ((Spec.getByKeypath v path).map encodeSpec) := by
  by_cases hs : isScalar v = true
  · cases path with
    | nil => simp [Fn.getByKeypath, Fn.getByKeypathLoop, Spec.getByKeypath]
    | cons p ps =>
      have hsp : Spec.getByKeypath v (p :: ps) = none := by
        rw [getByKeypath_cons, childOf_scalar v hs]; rfl
      rw [hsp]
      simp only [Fn.getByKeypath, Fn.getByKeypathLoop, Bool.false_eq_true, if_false, hdr_scalar v hs, hdrType_sca]
      cases p <;> simp [ne_sca_obj, ne_sca_arr]
  · exact getByKeypath_container v (by simpa using hs) hg path

end Jsonb
