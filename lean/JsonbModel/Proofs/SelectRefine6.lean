/-
C08 refinement, part 6: completeness on supported ASTs.  Whenever the spec evaluator returns
items with fuel `f`, the implementation model run with the *same* fuel `f` succeeds and its
positions represent exactly those items.
-/
import JsonbModel.Proofs.SelectRefine5

namespace Jsonb
open JV Sel

theorem operandValues_some_eq {v item : JV} {e : Expr} {f : Nat} {r r' : List PathValue}
    (h : Spec.operandValues f v item e = some r) (h' : Ev (fun f => Spec.operandValues f v item e) r') :
    r = r' :=
  Ev_unique (Ev_of_some (fun f r => (spec_mono f).2.2.2.2 v item e r) h) h'

theorem startOf_total (root : Bytes) (cur : Option Pos) (paths : List Path)
    (h : cur = none → paths.head? ≠ some .current) : ∃ start, startOf root cur paths = .ok start := by
  cases cur with
  | some c => exact ⟨_, startOf_exprStart root c paths⟩
  | none =>
    cases paths with
    | nil => exact ⟨_, rfl⟩
    | cons p rest =>
      cases p <;> first | exact ⟨_, rfl⟩ | exact absurd rfl (h rfl)

theorem isStep_isPlain (p : Path) (h : isStep p = true) : isPlain p = true := by
  cases p <;> simp_all [isStep, isPlain]

theorem supp_plain_isStep (p : Path) (hs : suppPath p = true) (hp : isPlain p = true) : isStep p = true := by
  cases p <;> simp_all [suppPath, isPlain, isStep]

/-- operand paths made of steps never fail on a representing frontier -/
theorem operandSteps_total (root : Bytes) : ∀ (rest : List Path) (ps : List Pos) (ws : List JV),
    rest.all isStep = true → Sel.RepL root ps ws → ∃ ps', operandSteps root rest ps = .ok ps'
  | [], ps, _, _, _ => ⟨ps, rfl⟩
  | p :: rest, ps, ws, h, hr => by
    simp only [List.all_cons, Bool.and_eq_true] at h
    obtain ⟨ps1, h1, h2⟩ := stepAll_rep root p h.1 ps ws hr
    obtain ⟨ps', h3⟩ := operandSteps_total root rest ps1 _ h.2 h2
    exact ⟨ps', by rw [operandSteps_plain root p (isStep_isPlain p h.1), h1]; exact h3⟩

/-- comparison operands: `convert_expr_val` succeeds wherever the spec's operand does -/
theorem exprVal_complete (v₀ : JV) (hg : goodTop v₀ = true) (f : Nat) (pos : Pos) (w : JV) (e : Expr)
    (svals : List PathValue) (h : Spec.operandValues f v₀ w e = some svals) (hs : suppOperand e = true)
    (hr : Sel.Rep (encodeSpec v₀) pos w) :
    ∃ vals, exprVal f (encodeSpec v₀) pos e = .ok vals ∧ PVL vals svals := by
  have hokop := suppOperand_ok e hs
  have key : ∃ vals, exprVal f (encodeSpec v₀) pos e = .ok vals := by
    cases f with
    | zero => simp [Spec.operandValues] at h
    | succ f =>
      cases e with
      | value pv => exact ⟨[pv], by simp only [exprVal]⟩
      | paths paths =>
        simp only [suppOperand, Bool.and_eq_true] at hs
        have hrs := startOf_rep v₀ hg (some pos) (some w) paths _ (startOf_exprStart _ pos paths) hr
        obtain ⟨ps1, h1⟩ := operandSteps_total (encodeSpec v₀) (paths.drop 1)
          [exprStart (encodeSpec v₀) pos paths] [sstartOf v₀ (some w) paths] hs.2 ⟨hrs, trivial⟩
        obtain ⟨ws1, hr1, _⟩ := operandSteps_rep v₀ (encodeSpec v₀) (paths.drop 1) _
          [sstartOf v₀ (some w) paths] ps1 h1 ⟨hrs, trivial⟩
        obtain ⟨vals, h2, _⟩ := valuesOf_rep (encodeSpec v₀) ps1 ws1 hr1
        exact ⟨vals, by rw [exprVal_paths, h1]; exact h2⟩
      | binaryOp op l r => simp [suppOperand] at hs
      | arithUnary op e => simp [suppOperand] at hs
      | arithBinary op l r => simp [suppOperand] at hs
      | existsFn ps => simp [suppOperand] at hs
  obtain ⟨vals, hv⟩ := key
  obtain ⟨svals', h1, h2⟩ := exprVal_rep v₀ hg f pos w e vals hv hokop hr
  rw [operandValues_some_eq h h2]
  exact ⟨vals, hv, h1⟩

/-! ### the four fuel-indexed statements (same fuel on both sides) -/

def FindC (v₀ : JV) (f : Nat) : Prop :=
  ∀ (cur : Option Pos) (scur : Option JV) (paths : List Path) (items : List JV),
    Spec.evalPaths f v₀ scur paths = some items → suppPaths paths = true →
    RepO (encodeSpec v₀) cur scur → (cur = none → paths.head? ≠ some .current) →
    ∃ ps, findPositions f (encodeSpec v₀) cur paths = .ok ps ∧ Sel.RepL (encodeSpec v₀) ps items

def WalkC (v₀ : JV) (f : Nat) : Prop :=
  ∀ (paths : List Path) (ps : List Pos) (ws : List JV) (items : List JV),
    Spec.evalSteps f v₀ paths ws = some items → suppPaths paths = true →
    Sel.RepL (encodeSpec v₀) ps ws →
    ∃ ps', walk f (encodeSpec v₀) paths ps = .ok ps' ∧ Sel.RepL (encodeSpec v₀) ps' items

def FilterAllC (v₀ : JV) (f : Nat) : Prop :=
  ∀ (e : Expr) (ps : List Pos) (ws : List JV) (items : List JV),
    Spec.filterItems f v₀ e ws = some items → suppFilter e = true →
    Sel.RepL (encodeSpec v₀) ps ws →
    ∃ ps', filterAll f (encodeSpec v₀) e ps = .ok ps' ∧ Sel.RepL (encodeSpec v₀) ps' items

def FilterExprC (v₀ : JV) (f : Nat) : Prop :=
  ∀ (e : Expr) (pos : Pos) (w : JV) (b : Bool),
    Spec.evalFilter f v₀ w e = some b → suppFilter e = true →
    Sel.Rep (encodeSpec v₀) pos w → filterExpr f (encodeSpec v₀) pos e = .ok b

theorem findC_succ (v₀ : JV) (hg : goodTop v₀ = true) (f : Nat) (hw : WalkC v₀ f) : FindC v₀ (f + 1) := by
  intro cur scur paths items h hs hc hcur
  rw [evalPaths_succ] at h
  obtain ⟨start, hst⟩ := startOf_total (encodeSpec v₀) cur paths hcur
  have hrs := startOf_rep v₀ hg cur scur paths start hst hc
  obtain ⟨ps, h1, h2⟩ := hw paths [start] _ items h hs ⟨hrs, trivial⟩
  exact ⟨ps, by rw [findPositions_succ, hst]; exact h1, h2⟩

theorem walkC_succ (v₀ : JV) (f : Nat) (hw : WalkC v₀ f) (hfa : FilterAllC v₀ f) : WalkC v₀ (f + 1) := by
  intro paths ps ws items h hs hr
  cases paths with
  | nil =>
    rw [evalSteps_nil] at h
    simp only [Option.some.injEq] at h
    subst h
    exact ⟨ps, by simp only [walk], hr⟩
  | cons p rest =>
    simp only [suppPaths, Bool.and_eq_true] at hs
    rcases path_cases p with hp | rfl | rfl | ⟨e, hpe⟩
    · rw [evalSteps_plain _ _ p hp] at h
      obtain ⟨ps1, h1, h2⟩ := stepAll_rep _ p (supp_plain_isStep p hs.1 hp) ps ws hr
      obtain ⟨ps', h3, h4⟩ := hw rest ps1 _ items h hs.2 h2
      exact ⟨ps', by rw [walk_plain f _ p hp, h1]; exact h3, h4⟩
    · rw [evalSteps_root] at h
      obtain ⟨ps', h3, h4⟩ := hw rest ps ws items h hs.2 hr
      exact ⟨ps', by simp only [walk]; exact h3, h4⟩
    · rw [evalSteps_current] at h
      obtain ⟨ps', h3, h4⟩ := hw rest ps ws items h hs.2 hr
      exact ⟨ps', by simp only [walk]; exact h3, h4⟩
    · have hse : suppFilter e = true := by
        rcases hpe with rfl | rfl <;> simpa [suppPath] using hs.1
      rw [evalSteps_filter _ _ p e hpe] at h
      cases hfi : Spec.filterItems f v₀ e ws with
      | none => rw [hfi] at h; simp at h
      | some items1 =>
        rw [hfi] at h
        simp only [] at h
        obtain ⟨ps1, h1, h2⟩ := hfa e ps ws items1 hfi hse hr
        obtain ⟨ps', h3, h4⟩ := hw rest ps1 items1 items h hs.2 h2
        exact ⟨ps', by rw [walk_filter f _ p e hpe, h1]; exact h3, h4⟩

theorem filterAllC_succ (v₀ : JV) (f : Nat) (hfe : FilterExprC v₀ f) (hfa : FilterAllC v₀ f) :
    FilterAllC v₀ (f + 1) := by
  intro e ps ws items h hs hr
  cases ws with
  | nil =>
    have := RepL_nil_right hr
    subst this
    rw [filterItems_nil] at h
    simp only [Option.some.injEq] at h
    subst h
    exact ⟨[], by simp only [filterAll], trivial⟩
  | cons w ws =>
    cases ps with
    | nil => exact hr.elim
    | cons pos rest =>
      rw [filterItems_cons] at h
      cases h1 : Spec.evalFilter f v₀ w e with
      | none => rw [h1] at h; simp at h
      | some keep =>
        cases h2 : Spec.filterItems f v₀ e ws with
        | none => rw [h1, h2] at h; simp at h
        | some r =>
          rw [h1, h2] at h
          simp only [Option.some.injEq] at h
          subst h
          have hk := hfe e pos w keep h1 hs hr.1
          obtain ⟨ps1, h3, h4⟩ := hfa e rest ws r h2 hs hr.2
          refine ⟨if keep then pos :: ps1 else ps1, by simp only [filterAll, hk, h3], ?_⟩
          cases keep
          · simpa using h4
          · exact (⟨hr.1, h4⟩ : Sel.RepL _ (pos :: ps1) (w :: r))

theorem filterExprC_succ (v₀ : JV) (hg : goodTop v₀ = true) (f : Nat) (hfe : FilterExprC v₀ f)
    (hfp : FindC v₀ f) : FilterExprC v₀ (f + 1) := by
  intro e pos w b h hs hr
  cases e with
  | binaryOp op l r =>
    simp only [suppFilter] at hs
    by_cases hor : op = .or
    · subst hor
      simp only [isLogic, if_true, Bool.and_eq_true] at hs
      rw [evalFilter_or] at h
      cases h1 : Spec.evalFilter f v₀ w l with
      | none => rw [h1] at h; simp at h
      | some a =>
        cases h2 : Spec.evalFilter f v₀ w r with
        | none => rw [h1, h2] at h; simp at h
        | some c =>
          rw [h1, h2] at h
          simp only [Option.some.injEq] at h
          subst h
          simp only [filterExpr, hfe l pos w a h1 hs.1 hr, hfe r pos w c h2 hs.2 hr]
    · by_cases hand : op = .and
      · subst hand
        simp only [isLogic, if_true, Bool.and_eq_true] at hs
        rw [evalFilter_and] at h
        cases h1 : Spec.evalFilter f v₀ w l with
        | none => rw [h1] at h; simp at h
        | some a =>
          cases h2 : Spec.evalFilter f v₀ w r with
          | none => rw [h1, h2] at h; simp at h
          | some c =>
            rw [h1, h2] at h
            simp only [Option.some.injEq] at h
            subst h
            simp only [filterExpr, hfe l pos w a h1 hs.1 hr, hfe r pos w c h2 hs.2 hr]
      · have hlg : isLogic op = false := by cases op <;> simp_all [isLogic]
        simp only [hlg, Bool.false_eq_true, if_false, Bool.and_eq_true] at hs
        rw [evalFilter_cmp _ _ _ op hand hor] at h
        cases h1 : Spec.operandValues f v₀ w l with
        | none => rw [h1] at h; simp at h
        | some sl =>
          cases h2 : Spec.operandValues f v₀ w r with
          | none => rw [h1, h2] at h; simp at h
          | some sr =>
            rw [h1, h2] at h
            simp only [Option.some.injEq] at h
            obtain ⟨lv, hl1, hl2⟩ := exprVal_complete v₀ hg f pos w l sl h1 hs.1 hr
            obtain ⟨rv, hr1, hr2⟩ := exprVal_complete v₀ hg f pos w r sr h2 hs.2 hr
            obtain ⟨b', hb'⟩ := anyPair_total op hand hor lv rv
            have := anyPair_spec op hl2 hr2 b' hb'
            rw [filterExpr_cmp f _ pos op hand hor, hl1, hr1]
            simp only []
            rw [hb', this]
            exact congrArg Res.ok h
  | existsFn paths =>
    simp only [suppFilter] at hs
    rw [evalFilter_exists] at h
    cases h1 : Spec.evalPaths f v₀ (some w) paths with
    | none => rw [h1] at h; simp at h
    | some l =>
      rw [h1] at h
      simp only [Option.map_some, Option.some.injEq] at h
      obtain ⟨ps, h2, h3⟩ := hfp (some pos) (some w) paths l h1 hs hr (fun hn => by simp at hn)
      simp only [filterExpr, h2, Res.map, Res.bind, RepL_isEmpty h3, h]
  | paths ps => simp [Spec.evalFilter] at h
  | value pv => simp [Spec.evalFilter] at h
  | arithUnary op e => simp [Spec.evalFilter] at h
  | arithBinary op l r => simp [Spec.evalFilter] at h

theorem select_complete_main (v₀ : JV) (hg : goodTop v₀ = true) : ∀ f,
    FindC v₀ f ∧ WalkC v₀ f ∧ FilterAllC v₀ f ∧ FilterExprC v₀ f
  | 0 => by
    refine ⟨?_, ?_, ?_, ?_⟩
    · intro cur scur paths items h; simp [Spec.evalPaths] at h
    · intro paths ps ws items h; simp [Spec.evalSteps] at h
    · intro e ps ws items h; simp [Spec.filterItems] at h
    · intro e pos w b h; simp [Spec.evalFilter] at h
  | f + 1 => by
    obtain ⟨h1, h2, h3, h4⟩ := select_complete_main v₀ hg f
    exact ⟨findC_succ v₀ hg f h2, walkC_succ v₀ f h2 h3, filterAllC_succ v₀ f h4 h3,
      filterExprC_succ v₀ hg f h4 h1⟩

/-- **completeness**: on a supported path that does not start with `@`, if the spec denotes
`items` (with fuel `f`) then `find_positions` with the same fuel finds positions representing
exactly `items` -/
theorem findPositions_complete (v₀ : JV) (hg : goodTop v₀ = true) (jp : JsonPath) (hs : suppPaths jp = true)
    (hhead : jp.head? ≠ some .current) (f : Nat) (items : List JV)
    (h : Spec.evalPaths f v₀ none jp = some items) :
    ∃ ps, findPositions f (encodeSpec v₀) none jp = .ok ps ∧ Sel.RepL (encodeSpec v₀) ps items :=
  (select_complete_main v₀ hg f).1 none none jp items h hs trivial (fun _ => hhead)

end Jsonb
