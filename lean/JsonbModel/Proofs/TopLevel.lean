/-
Top-level corollaries of the round trip: fuel adequacy, `parse_jsonb (encodeSpec v)`,
re-encoding, injectivity.
-/
import JsonbModel.Proofs.RoundTrip

namespace Jsonb
open JV

theorem wordsL_length (vs : List JV) : (wordsL vs).length = 4 * vs.length := by
  induction vs with
  | nil => rfl
  | cons v vs ih => simp [wordsL, ih]; omega
theorem wordsK_length (kvs : List (Bytes × JV)) : (wordsK kvs).length = 4 * kvs.length := by
  induction kvs with
  | nil => rfl
  | cons kv kvs ih => obtain ⟨k, v⟩ := kv; simp [wordsK, ih]; omega
theorem keyWords_length (kvs : List (Bytes × JV)) : (keyWords kvs).length = 4 * kvs.length := by
  induction kvs with
  | nil => rfl
  | cons kv kvs ih => obtain ⟨k, v⟩ := kv; simp [keyWords, ih]; omega

mutual
theorem szS_le : (v : JV) → szS v ≤ 2 * elen v + 1
  | .null => by simp [szS]
  | .bool _ => by simp [szS]
  | .num _ => by simp [szS]
  | .str _ => by simp [szS]
  | .arr vs => by
    have := szL_le vs
    simp only [szS, elen, entry, List.length_append, u32be_length, wordsL_length]
    omega
  | .obj kvs => by
    have := szK_le kvs
    simp only [szS, elen, entry, List.length_append, u32be_length, wordsK_length, keyWords_length]
    omega
theorem szL_le : (vs : List JV) → szL vs ≤ 1 + 3 * vs.length + 2 * (paysL vs).length
  | [] => by simp [szL]
  | v :: vs => by
    have h1 := szS_le v
    have h2 := szL_le vs
    simp only [szL, paysL, List.length_append, List.length_cons]
    simp only [elen] at h1
    omega
theorem szK_le : (kvs : List (Bytes × JV)) → szK kvs ≤ 1 + 3 * kvs.length + 2 * (paysK kvs).length
  | [] => by simp [szK]
  | (k, v) :: kvs => by
    have h1 := szS_le v
    have h2 := szK_le kvs
    simp only [szK, paysK, List.length_append, List.length_cons]
    simp only [elen] at h1
    omega
end

/-- decoding the image of a top-level array (no bound on its own image length) -/
theorem decJsonb_arr (vs : List JV) (hn : vs.length < 536870912) (hgl : goodL vs = true)
    (fuel : Nat) (hf : szL vs + 1 ≤ fuel) (rest : Bytes) :
    decJsonb fuel ((entry (arr vs)).2 ++ rest) = .ok (arr (normList vs), rest) := by
  match fuel, hf with
  | f + 1, hf =>
    have ih := decItems_entries vs hgl f (by omega) rest
    simp only [entry, List.append_assoc, decJsonb]
    rw [readU32_u32be _ _ (by rw [tag_arr]; omega)]
    have t1 : hdrType (C.ARRAY_CONTAINER_TAG + vs.length) = C.ARRAY_CONTAINER_TAG := by
      rw [tag_arr]; exact hdrType_add 4 _ (by omega) hn
    have t2 : hdrLen (C.ARRAY_CONTAINER_TAG + vs.length) = vs.length := by
      rw [tag_arr]; exact hdrLen_add 4 _ hn
    have d1 : ¬ C.ARRAY_CONTAINER_TAG = C.SCALAR_CONTAINER_TAG := by decide
    simp only [t1, t2, d1, if_false, if_true, readEntries_wordsL vs hgl, ih]

theorem decJsonb_obj (kvs : List (Bytes × JV)) (hn : kvs.length < 536870912)
    (hs : keysSorted kvs = true) (hgk : goodK kvs = true)
    (fuel : Nat) (hf : szK kvs + kvs.length + 3 ≤ fuel) (rest : Bytes) :
    decJsonb fuel ((entry (obj kvs)).2 ++ rest) = .ok (obj (normKvs kvs), rest) := by
  match fuel, hf with
  | f + 1, hf =>
    have ihk := decItems_keys kvs hgk f (by omega) (paysK kvs ++ rest)
    have ihv := decObjVals_entries kvs hgk f (by omega) rest
    simp only [entry, List.append_assoc, decJsonb]
    rw [readU32_u32be _ _ (by rw [tag_obj]; omega)]
    have t1 : hdrType (C.OBJECT_CONTAINER_TAG + kvs.length) = C.OBJECT_CONTAINER_TAG := by
      rw [tag_obj]; exact hdrType_add 2 _ (by omega) hn
    have t2 : hdrLen (C.OBJECT_CONTAINER_TAG + kvs.length) = kvs.length := by
      rw [tag_obj]; exact hdrLen_add 2 _ hn
    have d1 : ¬ C.OBJECT_CONTAINER_TAG = C.SCALAR_CONTAINER_TAG := by decide
    have d2 : ¬ C.OBJECT_CONTAINER_TAG = C.ARRAY_CONTAINER_TAG := by decide
    have re : readEntries (kvs.length * 2) (keyWords kvs ++ (wordsK kvs ++ (keyBytes kvs ++ (paysK kvs ++ rest))))
        = some (keyEntries kvs ++ entriesK kvs, keyBytes kvs ++ (paysK kvs ++ rest)) := by
      rw [show kvs.length * 2 = kvs.length + kvs.length by omega]
      exact readEntries_append _ _ _ _ (readEntries_keyWords kvs hgk _) _ _ _
        (readEntries_wordsK kvs hgk _)
    have hk : (keyEntries kvs).length = kvs.length := keyEntries_length kvs
    simp only [t1, t2, d1, d2, if_false, if_true, re]
    rw [show (keyEntries kvs ++ entriesK kvs).take kvs.length = keyEntries kvs by
          rw [← hk]; simp,
        show (keyEntries kvs ++ entriesK kvs).drop kvs.length = entriesK kvs by
          rw [← hk]; simp]
    simp only [ihk, ihv]
    rw [mkObj_sorted _ (by rw [keysSorted_normKvs]; exact hs)]

theorem decJsonb_scalarDoc (v : JV) (hg : good v = true) (hs : ∀ vs, v ≠ arr vs) (ho : ∀ kvs, v ≠ obj kvs)
    (fuel : Nat) (hf : 2 ≤ fuel) (rest : Bytes) :
    decJsonb fuel (u32be C.SCALAR_CONTAINER_TAG ++ (u32be (entry v).1 ++ ((entry v).2 ++ rest)))
      = .ok (norm v, rest) := by
  match fuel, hf with
  | f + 1, hf =>
    have hl := elen_lt_of_good v hg
    simp only [decJsonb]
    rw [readU32_u32be _ _ (by decide)]
    have t1 : hdrType C.SCALAR_CONTAINER_TAG = C.SCALAR_CONTAINER_TAG := by
      have := hdrType_add 1 0 (by omega) (by omega)
      rw [tag_sca]; simpa using this
    simp only [t1, if_true]
    rw [readU32_u32be _ _ (entry_lt v hl)]
    simp only [jeType_entry v hl, jeLen_entry v hl]
    apply decScalar_entry v hg f _ rest
    cases v with
    | arr vs => exact absurd rfl (hs vs)
    | obj kvs => exact absurd rfl (ho kvs)
    | _ => simp [szS]; omega

theorem encodeSpec_length_ge (v : JV) : 4 ≤ (encodeSpec v).length := by
  cases v with
  | arr vs => simp only [encodeSpec, entry, List.length_append, u32be_length]; omega
  | obj kvs => simp only [encodeSpec, entry, List.length_append, u32be_length]; omega
  | null => simp only [encodeSpec, List.length_append, u32be_length]; omega
  | bool b => simp only [encodeSpec, List.length_append, u32be_length]; omega
  | num n => simp only [encodeSpec, List.length_append, u32be_length]; omega
  | str s => simp only [encodeSpec, List.length_append, u32be_length]; omega

theorem parseJsonb_of_decJsonb (bs : Bytes) (v : JV) (hl : 4 ≤ bs.length)
    (h : decJsonb (decFuel bs) bs = .ok (v, [])) : parseJsonb bs = .ok v := by
  unfold parseJsonb
  rw [if_neg (by omega), h]

/-- **Round trip** (`parse_jsonb ∘ to_vec`, on the README layout). -/
theorem parseJsonb_encodeSpec (v : JV) (hg : goodTop v = true) :
    parseJsonb (encodeSpec v) = .ok (norm v) := by
  apply parseJsonb_of_decJsonb _ _ (encodeSpec_length_ge v)
  cases v with
  | arr vs =>
    simp only [goodTop, Bool.and_eq_true, decide_eq_true_eq] at hg
    have h := decJsonb_arr vs hg.1 hg.2 (decFuel (encodeSpec (arr vs))) (by
      have := szL_le vs
      simp only [decFuel, encodeSpec, entry, List.length_append, u32be_length, wordsL_length]
      omega) []
    simp only [List.append_nil] at h
    simp only [norm]; exact h
  | obj kvs =>
    simp only [goodTop, Bool.and_eq_true, decide_eq_true_eq] at hg
    have h := decJsonb_obj kvs hg.1.1 hg.1.2 hg.2 (decFuel (encodeSpec (obj kvs))) (by
      have := szK_le kvs
      simp only [decFuel, encodeSpec, entry, List.length_append, u32be_length, wordsK_length, keyWords_length]
      omega) []
    simp only [List.append_nil] at h
    simp only [norm]; exact h
  | null =>
    have h := decJsonb_scalarDoc null hg (by simp) (by simp) (decFuel (encodeSpec null)) (by simp [decFuel]) []
    simp only [List.append_nil] at h
    exact h
  | bool b =>
    have h := decJsonb_scalarDoc (bool b) hg (by simp) (by simp) (decFuel (encodeSpec (bool b))) (by simp [decFuel]) []
    simp only [List.append_nil] at h
    exact h
  | num n =>
    have h := decJsonb_scalarDoc (num n) hg (by simp) (by simp) (decFuel (encodeSpec (num n))) (by simp [decFuel]) []
    simp only [List.append_nil] at h
    exact h
  | str s =>
    have h := decJsonb_scalarDoc (str s) hg (by simp) (by simp) (decFuel (encodeSpec (str s))) (by simp [decFuel]) []
    simp only [List.append_nil] at h
    exact h

/-! ### re-encoding the decoded value reproduces the bytes -/

theorem Num.enc_norm (n : Num) : Num.enc (Num.norm n) = Num.enc n := by
  cases n with
  | int i =>
    by_cases h : i = 0
    · simp [Num.norm, Num.enc, h]
    · simp [Num.norm, h]
  | uint n => rfl
  | float b =>
    by_cases h : F64.isNaN b = true
    · have : F64.isNaN F64.canonNaN = true := by decide
      simp [Num.norm, Num.enc, h, this]
    · simp [Num.norm, h]

mutual
theorem entry_norm : (v : JV) → entry (norm v) = entry v
  | .null => rfl
  | .bool _ => rfl
  | .num n => by simp [norm, entry, Num.enc_norm]
  | .str _ => rfl
  | .arr vs => by
    simp only [norm, entry, wordsL_norm vs, paysL_norm vs, normList_length vs]
  | .obj kvs => by
    simp only [norm, entry, wordsK_norm kvs, paysK_norm kvs, keyWords_norm kvs, keyBytes_norm kvs,
      normKvs_length kvs]
theorem wordsL_norm : (vs : List JV) → wordsL (normList vs) = wordsL vs
  | [] => rfl
  | v :: vs => by simp only [normList, wordsL, entry_norm v, wordsL_norm vs]
theorem paysL_norm : (vs : List JV) → paysL (normList vs) = paysL vs
  | [] => rfl
  | v :: vs => by simp only [normList, paysL, entry_norm v, paysL_norm vs]
theorem normList_length : (vs : List JV) → (normList vs).length = vs.length
  | [] => rfl
  | v :: vs => by simp only [normList, List.length_cons, normList_length vs]
theorem wordsK_norm : (kvs : List (Bytes × JV)) → wordsK (normKvs kvs) = wordsK kvs
  | [] => rfl
  | (k, v) :: kvs => by simp only [normKvs, wordsK, entry_norm v, wordsK_norm kvs]
theorem paysK_norm : (kvs : List (Bytes × JV)) → paysK (normKvs kvs) = paysK kvs
  | [] => rfl
  | (k, v) :: kvs => by simp only [normKvs, paysK, entry_norm v, paysK_norm kvs]
theorem keyWords_norm : (kvs : List (Bytes × JV)) → keyWords (normKvs kvs) = keyWords kvs
  | [] => rfl
  | (k, v) :: kvs => by simp only [normKvs, keyWords, keyWords_norm kvs]
theorem keyBytes_norm : (kvs : List (Bytes × JV)) → keyBytes (normKvs kvs) = keyBytes kvs
  | [] => rfl
  | (k, v) :: kvs => by simp only [normKvs, keyBytes, keyBytes_norm kvs]
theorem normKvs_length : (kvs : List (Bytes × JV)) → (normKvs kvs).length = kvs.length
  | [] => rfl
  | (k, v) :: kvs => by simp only [normKvs, List.length_cons, normKvs_length kvs]
end

theorem encodeSpec_norm (v : JV) : encodeSpec (norm v) = encodeSpec v := by
  cases v with
  | arr vs => have := entry_norm (arr vs); simp only [norm] at this; simp only [norm, encodeSpec, this]
  | obj kvs => have := entry_norm (obj kvs); simp only [norm] at this; simp only [norm, encodeSpec, this]
  | null => rfl
  | bool b => rfl
  | num n => have := entry_norm (num n); simp only [norm] at this; simp only [norm, encodeSpec, this]
  | str s => rfl


theorem Num.norm_WF (n : Num) (h : n.WF) : (Num.norm n).WF := by
  cases n with
  | int i => simp only [Num.norm]; split <;> simp_all [Num.WF]
  | uint n => exact h
  | float b => simp only [Num.norm]; split <;> simp_all [Num.WF, F64.canonNaN]

mutual
theorem good_norm : (v : JV) → good v = true → good (norm v) = true
  | .null, _ => rfl
  | .bool _, _ => rfl
  | .num n, h => by
    simp only [good, decide_eq_true_eq] at h
    simp only [norm, good, decide_eq_true_eq]; exact Num.norm_WF n h
  | .str _, h => h
  | .arr vs, h => by
    simp only [good, Bool.and_eq_true, decide_eq_true_eq] at h
    have e := entry_norm (arr vs)
    simp only [norm] at e
    simp only [norm, good, Bool.and_eq_true, decide_eq_true_eq, e, normList_length]
    exact ⟨⟨h.1.1, h.1.2⟩, goodL_norm vs h.2⟩
  | .obj kvs, h => by
    simp only [good, Bool.and_eq_true, decide_eq_true_eq] at h
    have e := entry_norm (obj kvs)
    simp only [norm] at e
    simp only [norm, good, Bool.and_eq_true, decide_eq_true_eq, e, normKvs_length, keysSorted_normKvs]
    exact ⟨⟨⟨h.1.1.1, h.1.1.2⟩, h.1.2⟩, goodK_norm kvs h.2⟩
theorem goodL_norm : (vs : List JV) → goodL vs = true → goodL (normList vs) = true
  | [], _ => rfl
  | v :: vs, h => by
    simp only [goodL, Bool.and_eq_true] at h
    simp only [normList, goodL, Bool.and_eq_true]
    exact ⟨good_norm v h.1, goodL_norm vs h.2⟩
theorem goodK_norm : (kvs : List (Bytes × JV)) → goodK kvs = true → goodK (normKvs kvs) = true
  | [], _ => rfl
  | (k, v) :: kvs, h => by
    simp only [goodK, Bool.and_eq_true] at h
    simp only [normKvs, goodK, Bool.and_eq_true]
    exact ⟨⟨h.1.1, good_norm v h.1.2⟩, goodK_norm kvs h.2⟩
end

theorem goodTop_norm (v : JV) (h : goodTop v = true) : goodTop (norm v) = true := by
  cases v with
  | arr vs =>
    simp only [goodTop, Bool.and_eq_true, decide_eq_true_eq] at h
    simp only [norm, goodTop, Bool.and_eq_true, decide_eq_true_eq, normList_length]
    exact ⟨h.1, goodL_norm vs h.2⟩
  | obj kvs =>
    simp only [goodTop, Bool.and_eq_true, decide_eq_true_eq] at h
    simp only [norm, goodTop, Bool.and_eq_true, decide_eq_true_eq, normKvs_length, keysSorted_normKvs]
    exact ⟨⟨h.1.1, h.1.2⟩, goodK_norm kvs h.2⟩
  | null => exact h
  | bool b => exact h
  | num n => exact good_norm (num n) h
  | str s => exact h

end Jsonb
