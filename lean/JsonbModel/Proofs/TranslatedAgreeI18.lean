/-
Phase 6c, editors: the `delete_by_keypath` family (`delete_jsonb_array_by_keypath`, `delete_jsonb_object_by_keypath`,
`delete_by_keypath_jsonb`): a recursive group that shares a `&mut VecDeque<&KeyPath>` and returns `Option<builder>`,
against `Fn.delArrKp` / `Fn.delArrItems` / `Fn.delObjKp` / `Fn.delObjMembers` / `Fn.deleteByKeypath` of
Functions/Edit.lean.  I18: definitions, one iteration of the array loop.
-/
import JsonbModel.Proofs.TranslatedAgreeI17
import JsonbModel.KeyPath

set_option linter.unusedSimpArgs false
set_option linter.unusedVariables false

namespace Jsonb.TrAgree
open Jsonb.Rs

/-- the model's key-path items as the translated `enum KeyPath` -/
def ofKPath : KeyPath → Tr.KeyPath
  | .index i => .Index i
  | .quoted s => .QuotedName s
  | .name s => .Name s

/-- what a member of the group answers in terms of the model: the builder (or `None`) of the model, next to SOME
remaining key path (the model passes the key path functionally; what the source leaves in the shared queue is read again
only where the preconditions exclude it) -/
def DelRel {α β : Type} (conv : α → β) (tr : Res (Option β × List Tr.KeyPath)) (m : Res (Option α)) : Prop :=
  match m with
  | .ok (some a) => ∃ kp', tr = .ok (some (conv a), kp')
  | .ok none => ∃ kp', tr = .ok (none, kp')
  | .err e => tr = .err e
  | .panic _ => True
  | .fuel => True

/-- the types of the two members once `fuel` is given -/
abbrev DelArrFn := Bytes → Int → List Tr.KeyPath → Res (Option Tr.ArrayBuilder × List Tr.KeyPath)
abbrev DelObjFn := Bytes → Int → List Tr.KeyPath → Res (Option Tr.ObjectBuilder × List Tr.KeyPath)

/-- what one iteration of a loop of the family answers: the next state, or the function's result -/
def DelStep {β σ : Type} (c : Ctl (Option β × List Tr.KeyPath) (Step σ)) (next : Res σ) : Prop :=
  match next with
  | .ok s => c = .val (.next s)
  | .err e => c = .ret (.err e)
  | .panic _ => True
  | .fuel => True

theorem ne_idx (i idx : Nat) : decide (((i : Nat) : Int) ≠ ((idx : Nat) : Int)) = decide (i ≠ idx) := ne_dec i idx

theorem isEmpty_map_ofKPath (kp : List KeyPath) : Rs.isEmpty (kp.map ofKPath) = kp.isEmpty := by
  cases kp <;> rfl

/-- the array loop on an entry that is NOT the indexed one: the entry is pushed as it is -/
theorem dka_loop1_other (recA : DelArrFn) (recO : DelObjFn) (idx i : Nat) (x : JE × Bytes) (acc : List BEntry)
    (kpT : List Tr.KeyPath) (h : i ≠ idx) :
    Tr.delete_jsonb_array_by_keypath.loop1 recA recO (idx : Int) ((i : Int), ofItem x) (arrB acc, kpT) =
      Ctl.val (.next (arrB (acc ++ [Fn.rawOf x]), kpT)) := by
  obtain ⟨je, item⟩ := x
  unfold Tr.delete_jsonb_array_by_keypath.loop1 ofItem arrB
  dsimp only
  simp only [ne_idx, decide_eq_true h, decide_eq_true (Ne.symm h), if_true, array_push_raw_any, Ctl.ofRes_ok', Ctl.val_bind', Ctl.pure_eq',
    Rs.loopStep_val', ofBEs_append, ofBEs, ofBE, Fn.rawOf, ofJE]

/-- the array loop on the indexed entry when the key path is exhausted: the entry is dropped -/
theorem dka_loop1_drop (recA : DelArrFn) (recO : DelObjFn) (idx : Nat) (x : JE × Bytes) (acc : List BEntry) :
    Tr.delete_jsonb_array_by_keypath.loop1 recA recO (idx : Int) ((idx : Int), ofItem x) (arrB acc, []) =
      Ctl.val (.next (arrB acc, [])) := by
  obtain ⟨je, item⟩ := x
  unfold Tr.delete_jsonb_array_by_keypath.loop1 ofItem arrB
  dsimp only
  have hne : decide (((idx : Nat) : Int) ≠ ((idx : Nat) : Int)) = false := by simp
  have hemp : Rs.isEmpty ([] : List Tr.KeyPath) = true := rfl
  simp only [hne, Bool.false_eq_true, if_false, hemp, Bool.not_true, Ctl.pure_eq', Ctl.val_bind', Rs.loopStep_val']

/-- the model's treatment of the INDEXED entry (or of the NAMED member) when the key path goes on, given the answers
of the two callees: `some entry` = the rebuilt sub-container, `none` = "no change" -/
def hitOf (ra : Nat → Res (Option (List BEntry))) (ro : Nat → Res (Option (List (Bytes × BEntry)))) (je : JE) (item : Bytes) :
    Res (Option BEntry) :=
  if je.ty = C.CONTAINER_TAG then
    match readU32At item 0 with
    | none => .err "InvalidEOF"
    | some ih =>
      if hdrType ih = C.ARRAY_CONTAINER_TAG then (ra ih).map (Option.map BEntry.arr)
      else if hdrType ih = C.OBJECT_CONTAINER_TAG then (ro ih).map (Option.map BEntry.obj)
      else .panic "unreachable"
  else .ok none

/-- what the loop does on a hit, in terms of `hitOf` -/
def HitRel {β σ : Type} (c : Ctl (Option β × List Tr.KeyPath) (Step σ)) (mk : BEntry → List Tr.KeyPath → σ) (m : Res (Option BEntry)) : Prop :=
  match m with
  | .ok (some e) => ∃ kp', c = .val (.next (mk e kp'))
  | .ok none => ∃ kp', c = .ret (.ok (none, kp'))
  | .err e => c = .ret (.err e)
  | .panic _ => True
  | .fuel => True

/-- the array loop on the indexed entry when the key path goes on -/
theorem dka_loop1_hit (recA : DelArrFn) (recO : DelObjFn) (idx : Nat) (x : JE × Bytes) (acc : List BEntry)
    (kpT : List Tr.KeyPath) (hk : Rs.isEmpty kpT = false)
    (ra : Nat → Res (Option (List BEntry))) (ro : Nat → Res (Option (List (Bytes × BEntry))))
    (ha : ∀ ih, x.1.ty = C.CONTAINER_TAG → readU32At x.2 0 = some ih → hdrType ih = C.ARRAY_CONTAINER_TAG → ra ih ≠ .fuel → (ra ih).isPanic = false →
      DelRel arrB (recA x.2 (ih : Int) kpT) (ra ih))
    (ho : ∀ ih, x.1.ty = C.CONTAINER_TAG → readU32At x.2 0 = some ih → hdrType ih = C.OBJECT_CONTAINER_TAG → ro ih ≠ .fuel → (ro ih).isPanic = false →
      DelRel objB (recO x.2 (ih : Int) kpT) (ro ih)) :
    HitRel (Tr.delete_jsonb_array_by_keypath.loop1 recA recO (idx : Int) ((idx : Int), ofItem x) (arrB acc, kpT))
      (fun e kp' => (arrB (acc ++ [e]), kp')) (hitOf ra ro x.1 x.2) := by
  obtain ⟨je, item⟩ := x
  unfold Tr.delete_jsonb_array_by_keypath.loop1 ofItem ofJE arrB hitOf
  dsimp only at ha ho ⊢
  have hne : decide (((idx : Nat) : Int) ≠ ((idx : Nat) : Int)) = false := by simp
  simp only [hne, Bool.false_eq_true, if_false, hk, Bool.not_false, if_true, tag_eq]
  by_cases hc : je.ty = C.CONTAINER_TAG
  · simp only [decide_eq_true hc, if_true, if_pos hc, read_u32_zero]
    cases hr : readU32At item 0 with
    | none => simp only [Ctl.ofRes_err', Ctl.ret_bind', Rs.loopStep_err', HitRel]
    | some ih =>
      simp only [Ctl.ofRes_ok', Ctl.val_bind', hdrType_eq]
      simp only [decide_eq_true_eq]
      by_cases hA : hdrType ih = C.ARRAY_CONTAINER_TAG
      · simp only [if_pos hA]
        have ha' := ha ih hc hr hA
        cases hra : ra ih with
        | fuel => simp only [Res.map, Res.bind, HitRel]
        | panic s => simp only [Res.map, Res.bind, HitRel]
        | err e =>
          rw [hra] at ha'
          have h1 := ha' (fun c => by cases c) rfl
          simp only [DelRel] at h1
          simp only [h1, Res.map, Res.bind, Ctl.ofRes_err', Ctl.ret_bind', Rs.loopStep_err', HitRel]
        | ok o =>
          rw [hra] at ha'
          have h1 := ha' (fun c => by cases c) rfl
          cases o with
          | none =>
            simp only [DelRel] at h1
            obtain ⟨kp', h1⟩ := h1
            simp only [h1, Res.map, Res.bind, Option.map, Ctl.ofRes_ok', Ctl.val_bind', Ctl.ret_bind', Rs.loopStep_ret', HitRel]
            exact ⟨kp', rfl⟩
          | some es =>
            simp only [DelRel] at h1
            obtain ⟨kp', h1⟩ := h1
            simp only [h1, Res.map, Res.bind, Option.map, Ctl.ofRes_ok', Ctl.val_bind', array_push_array_any, Ctl.pure_eq',
              Rs.loopStep_val', HitRel, arrB, ofBEs_append, ofBEs, ofBE]
            exact ⟨kp', rfl⟩
      · simp only [if_neg hA]
        by_cases hO : hdrType ih = C.OBJECT_CONTAINER_TAG
        · simp only [if_pos hO]
          have ho' := ho ih hc hr hO
          cases hro : ro ih with
          | fuel => simp only [Res.map, Res.bind, HitRel]
          | panic s => simp only [Res.map, Res.bind, HitRel]
          | err e =>
            rw [hro] at ho'
            have h1 := ho' (fun c => by cases c) rfl
            simp only [DelRel] at h1
            simp only [h1, Res.map, Res.bind, Ctl.ofRes_err', Ctl.ret_bind', Rs.loopStep_err', HitRel]
          | ok o =>
            rw [hro] at ho'
            have h1 := ho' (fun c => by cases c) rfl
            cases o with
            | none =>
              simp only [DelRel] at h1
              obtain ⟨kp', h1⟩ := h1
              simp only [h1, Res.map, Res.bind, Option.map, Ctl.ofRes_ok', Ctl.val_bind', Ctl.ret_bind', Rs.loopStep_ret', HitRel]
              exact ⟨kp', rfl⟩
            | some m =>
              simp only [DelRel] at h1
              obtain ⟨kp', h1⟩ := h1
              simp only [h1, Res.map, Res.bind, Option.map, Ctl.ofRes_ok', Ctl.val_bind', array_push_object_any, Ctl.pure_eq',
                Rs.loopStep_val', HitRel, objB, arrB, ofBEs_append, ofBEs, ofBE]
              exact ⟨kp', rfl⟩
        · simp only [if_neg hO, HitRel]
  · simp only [decide_eq_false hc, Bool.false_eq_true, if_false, if_neg hc, Ctl.ret_bind', Rs.loopStep_ret', HitRel]
    exact ⟨kpT, rfl⟩

end Jsonb.TrAgree
