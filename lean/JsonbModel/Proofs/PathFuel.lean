/-
The fuel of the model is always sufficient: `parse_json_path` and `parse_key_paths` never
return `.fuel`.  Together with `Proofs/PathParserTotal.lean` this says that on every byte string
the model — hence, as far as the model is faithful, the Rust code — returns `Ok` or `Err`.
-/
import JsonbModel.PathParser
import JsonbModel.Proofs.NomFine
import JsonbModel.Proofs.PathStrTotal
import JsonbModel.Proofs.PathParserTotal

namespace Jsonb
namespace PathStr
open PathParser

/-- not `.fuel`; on success the remaining data has at most `n` bytes -/
def RPost (n : Nat) (x : Res (Bytes × Bytes)) : Prop :=
  x ≠ .fuel ∧ ∀ o rest, x = .ok (o, rest) → rest.length ≤ n

theorem rpost_ok {n : Nat} (o d : Bytes) (h : d.length ≤ n) : RPost n (.ok (o, d)) :=
  ⟨by simp, by intro o' r e; simp at e; rw [← e.2]; exact h⟩
theorem rpost_err {n : Nat} (e : String) : RPost n (.err e) := ⟨by simp, by simp⟩
theorem rpost_panic {n : Nat} (e : String) : RPost n (.panic e) := ⟨by simp, by simp⟩

theorem rpost_bind {α} {n : Nat} {r : Res α} {f : α → Res (Bytes × Bytes)} (hr : r ≠ .fuel)
    (hf : ∀ a, r = .ok a → RPost n (f a)) : RPost n (r.bind f) := by
  cases r with
  | ok a => exact hf a rfl
  | err e => exact rpost_err e
  | panic s => exact rpost_panic s
  | fuel => exact absurd rfl hr

theorem readUnicode_rpost (data : Bytes) : RPost data.length (readUnicode data) := by
  cases data with
  | nil => exact rpost_panic _
  | cons b r =>
    unfold readUnicode
    by_cases hb : (b == 123) = true
    · simp only [hb, if_true]
      unfold readExact4
      by_cases h4 : 4 ≤ r.length
      · simp only [h4, if_true]
        have hl : (List.drop 4 r).length = r.length - 4 := List.length_drop ..
        cases hd : List.drop 4 r with
        | nil => exact rpost_panic _
        | cons c r'' =>
          rw [hd] at hl
          simp only []
          split
          · exact rpost_err _
          · exact rpost_ok _ _ (by simp only [List.length_cons] at hl ⊢; omega)
      · simp only [h4, if_false]; exact rpost_err _
    · simp only [hb]
      unfold readExact4
      by_cases h4 : 4 ≤ (b :: r).length
      · simp only [h4, if_true]
        exact rpost_ok _ _ (by simp only [List.length_drop]; omega)
      · simp only [h4, if_false]; exact rpost_err _

theorem decodeHexEscape_ne_fuel (numbers : Bytes) : decodeHexEscape numbers ≠ .fuel := by
  rcases decodeHexEscape_good numbers with ⟨n, h, _⟩ | ⟨e, h⟩ <;> rw [h] <;> simp

theorem charFromU32Unwrap_ne_fuel (n : Nat) : charFromU32Unwrap n ≠ .fuel := by
  unfold charFromU32Unwrap; split <;> simp

theorem parseLowSurrogate_rpost (numbers : Bytes) (hex : Nat) (data : Bytes) :
    RPost data.length (parseLowSurrogate numbers hex data) := by
  unfold parseLowSurrogate
  split
  · exact rpost_ok _ _ (Nat.le_refl _)
  · split
    · rename_i data2 _
      have h1 := readUnicode_rpost data2
      refine rpost_bind h1.1 (fun a ha => ?_)
      obtain ⟨lower, data3⟩ := a
      have hl := h1.2 lower data3 ha
      refine rpost_bind (decodeHexEscape_ne_fuel _) (fun n2 _ => ?_)
      split
      · exact rpost_ok _ _ (by simp; omega)
      · exact rpost_bind (charFromU32Unwrap_ne_fuel _) (fun s _ => rpost_ok _ _ (by simp; omega))
    · exact rpost_ok _ _ (Nat.le_refl _)

theorem parseEscapedU_rpost (data : Bytes) : RPost data.length (parseEscapedU data) := by
  unfold parseEscapedU
  have h1 := readUnicode_rpost data
  refine rpost_bind h1.1 (fun a ha => ?_)
  obtain ⟨numbers, data'⟩ := a
  have hl := h1.2 numbers data' ha
  refine rpost_bind (decodeHexEscape_ne_fuel _) (fun hex _ => ?_)
  split
  · exact rpost_ok _ _ hl
  · split
    · have := parseLowSurrogate_rpost numbers hex data'
      exact ⟨this.1, fun o r e => Nat.le_trans (this.2 o r e) hl⟩
    · exact rpost_bind (charFromU32Unwrap_ne_fuel _) (fun s _ => rpost_ok _ _ hl)

theorem parseEscaped_rpost (data : Bytes) : RPost data.length (parseEscaped data) := by
  unfold parseEscaped
  split
  · exact rpost_panic _
  · rename_i byte data'
    have hU := parseEscapedU_rpost data'
    have hU' : RPost (byte :: data').length (parseEscapedU data') :=
      ⟨hU.1, fun o r e => by have := hU.2 o r e; simp; omega⟩
    repeat' split
    all_goals first
      | exact rpost_ok _ _ (by simp)
      | exact rpost_err _
      | exact hU'

theorem parseStringLoop_ne_fuel (n : Nat) :
    ∀ (data buf : Bytes), data.length < n → parseStringLoop n data buf ≠ .fuel := by
  induction n with
  | zero => intro d b h; omega
  | succ n ih =>
    intro data buf hn
    cases data with
    | nil => simp [parseStringLoop]
    | cons byte data =>
      unfold parseStringLoop
      split
      · have h1 := parseEscaped_rpost data
        cases he : parseEscaped data with
        | ok a =>
          obtain ⟨s, rest⟩ := a
          simp only [Res.bind]
          have := h1.2 s rest he
          exact ih _ _ (by simp at hn; omega)
        | err e => simp [Res.bind]
        | panic s => simp [Res.bind]
        | fuel => exact absurd he h1.1
      · exact ih _ _ (by simpa using hn)

theorem parseString_ne_fuel (data : Bytes) : parseString data ≠ .fuel := by
  unfold parseString
  cases h : parseStringLoop (data.length + 1) data [] with
  | ok a => simp only [Res.bind]; split <;> simp
  | err e => simp [Res.bind]
  | panic s => simp [Res.bind]
  | fuel => exact absurd h (parseStringLoop_ne_fuel _ _ _ (by omega))

end PathStr

namespace PathParser
open PathStr Nom

theorem scan_ne_fuel (stop : UInt8 → Bool) (n : Nat) :
    ∀ (rem : Bytes) (i e : Nat), rem.length < n → scan stop n rem i e ≠ .fuel := by
  induction n with
  | zero => intro r i e h; omega
  | succ n ih =>
    intro rem i e hn
    cases rem with
    | nil => simp [scan]
    | cons c r =>
      unfold scan
      split
      · split
        · simp
        · rename_i k hk
          have := checkEscaped_bounds _ _ hk
          exact ih _ _ _ (by simp only [List.length_drop]; simp at hn this ⊢; omega)
      · split
        · simp
        · exact ih _ _ _ (by simpa using hn)

theorem ofRes_post {α} (r : Res α) (rest : Bytes) (n : Nat) (h : r ≠ .fuel)
    (hl : rest.length ≤ n) : Post n (ofRes r rest) := by
  cases r with
  | ok a => exact post_ok _ _ hl
  | err e => exact post_error
  | panic t => exact post_panic _
  | fuel => exact absurd rfl h

theorem fine_rawString {L : Nat} : Fine L rawString := by
  intro input _
  unfold rawString
  split
  · split
    · split
      · exact post_panic _
      · split
        · split
          · exact post_ok _ _ (by simp)
          · exact post_error
        · split
          · exact post_panic _
          · exact ofRes_post _ _ _ (parseString_ne_fuel _) (by simp)
    · exact post_error
  · exact post_error
  · exact post_panic _
  · rename_i h
    exact absurd h (scan_ne_fuel _ _ _ _ _ (by omega))

theorem fine_string {L : Nat} : Fine L string := by
  intro input _
  unfold string
  split
  · exact post_error
  · rename_i q body
    split
    · exact post_error
    · split
      · split
        · split
          · split
            · exact post_ok _ _ (by simp only [List.length_drop, List.length_cons]; omega)
            · exact post_error
          · split
            · exact post_panic _
            · exact ofRes_post _ _ _ (parseString_ne_fuel _)
                (by simp only [List.length_drop, List.length_cons]; omega)
        · exact post_error
      · exact post_error
      · exact post_panic _
      · rename_i h
        exact absurd h (scan_ne_fuel _ _ _ _ _ (by simp only [List.length_cons]; omega))

variable {L : Nat}

theorem fine_ws : Fine L ws := fine_multispace0

theorem fine_bracketWildcard : Fine L bracketWildcard :=
  fine_value _ (fine_delimited (fine_char _) (fine_delimited fine_ws (fine_char _) fine_ws) (fine_char _))

theorem fine_colonField : Fine L colonField :=
  fine_alt (fine_preceded (fine_char _) fine_string) (fine_preceded (fine_char _) fine_rawString)

theorem fine_dotField : Fine L dotField :=
  fine_alt (fine_preceded (fine_char _) fine_string) (fine_preceded (fine_char _) fine_rawString)

theorem fine_objectField : Fine L objectField :=
  fine_delimited (fine_terminated (fine_char _) fine_ws) fine_string (fine_preceded fine_ws (fine_char _))

theorem fine_index : Fine L index :=
  fine_alt (fine_map _ fine_i32)
    (fine_alt (fine_map _ (fine_preceded (fine_tuple4 (fine_tagNoCase _) fine_ws (fine_char _) fine_ws) fine_i64))
      (fine_alt (fine_map _ (fine_preceded (fine_tuple4 (fine_tagNoCase _) fine_ws (fine_char _) fine_ws) fine_i32))
        (fine_map _ (fine_tagNoCase _))))

theorem fine_arrayIndex : Fine L arrayIndex :=
  fine_alt (fine_map _ (fine_separatedPair fine_index (fine_delimited fine_ws (fine_tagNoCase _) fine_ws) fine_index))
    (fine_map _ fine_index)

theorem fine_arrayIndices : Fine L arrayIndices :=
  fine_delimited (fine_char _)
    (fine_separatedList1 (fine_char _) (fine_delimited fine_ws fine_arrayIndex fine_ws)) (fine_char _)

theorem fine_innerPath : Fine L innerPath :=
  fine_alt (fine_value _ (fine_tag _))
    (fine_alt (fine_value _ fine_bracketWildcard)
      (fine_alt (fine_map _ fine_colonField)
        (fine_alt (fine_map _ fine_dotField)
          (fine_alt (fine_map _ fine_arrayIndices) (fine_map _ fine_objectField)))))

theorem fine_prePath : Fine L prePath :=
  fine_alt (fine_value _ (fine_char _)) (fine_map _ (fine_delimited fine_ws fine_rawString fine_ws))

theorem fine_exprPaths (rp : Bool) : Fine L (exprPaths rp) :=
  fine_map _ (fine_pair
    (fine_alt (fine_value _ (fine_char _)) (fine_mapRes _ (fine_cond _ (fine_value _ (fine_char _)))))
    (fine_many0 (fine_delimited fine_ws fine_innerPath fine_ws)))

theorem fine_op : Fine L op :=
  fine_alt (fine_value _ (fine_tag _)) (fine_alt (fine_value _ (fine_tag _)) (fine_alt (fine_value _ (fine_tag _))
    (fine_alt (fine_value _ (fine_tag _)) (fine_alt (fine_value _ (fine_char _))
      (fine_alt (fine_value _ (fine_tag _)) (fine_value _ (fine_char _)))))))

theorem fine_unaryArithOp : Fine L unaryArithOp :=
  fine_alt (fine_value _ (fine_char _)) (fine_value _ (fine_char _))

theorem fine_binaryArithOp : Fine L binaryArithOp :=
  fine_alt (fine_value _ (fine_char _)) (fine_alt (fine_value _ (fine_char _)) (fine_alt (fine_value _ (fine_char _))
    (fine_alt (fine_value _ (fine_char _)) (fine_value _ (fine_char _)))))

theorem fine_pathValue : Fine L pathValue :=
  fine_alt (fine_value _ (fine_tag _))
    (fine_alt (fine_value _ (fine_tag _))
      (fine_alt (fine_value _ (fine_tag _))
        (fine_alt (fine_map _ (fine_terminated fine_u64 (fine_not (fine_oneOf _))))
          (fine_alt (fine_map _ (fine_terminated fine_i64 (fine_not (fine_oneOf _))))
            (fine_alt (fine_map _ fine_double) (fine_map _ fine_string))))))

theorem fine_innerExpr (rp : Bool) : Fine L (innerExpr rp) :=
  fine_alt (fine_map _ (fine_exprPaths rp)) (fine_map _ fine_pathValue)

theorem foldBin_post (o : BinOp) (es : List Expr) (r : Bytes) (n : Nat) (h : r.length ≤ n) :
    Post n (foldBin o es r) := by
  unfold foldBin
  split
  · exact post_panic _
  · exact post_ok _ _ h

theorem terminated_char_ws_strict (c : UInt8) (i : Bytes) (a : UInt8) (t : Bytes)
    (h : terminated (char c) ws i = .ok a t) : t.length < i.length := by
  unfold terminated at h
  cases hc : char c i with
  | ok x r =>
    rw [hc] at h
    simp only [PR.bind, ws, multispace0] at h
    simp at h
    have := char_strict c i x r hc
    have := dropSpaces_length r
    rw [← h.2]; omega
  | error => rw [hc] at h; simp [PR.bind] at h
  | failure => rw [hc] at h; simp [PR.bind] at h
  | panic s => rw [hc] at h; simp [PR.bind] at h
  | fuel => rw [hc] at h; simp [PR.bind] at h

theorem filterOpen_strict (i : Bytes) (a : Unit) (t : Bytes)
    (h : delimited (char 63) ws (char 40) i = .ok a t) : t.length < i.length := by
  unfold delimited at h
  cases hc : char 63 i with
  | ok x r =>
    rw [hc] at h
    simp only [PR.bind, ws, multispace0] at h
    have h1 := char_strict 63 i x r hc
    have h2 := dropSpaces_length r
    cases hc2 : char 40 (dropSpaces r) with
    | ok y r2 =>
      rw [hc2] at h; simp at h
      have := char_strict _ _ _ _ hc2
      rw [← h]; omega
    | error => rw [hc2] at h; simp at h
    | failure => rw [hc2] at h; simp at h
    | panic s => rw [hc2] at h; simp at h
    | fuel => rw [hc2] at h; simp at h
  | error => rw [hc] at h; simp [PR.bind] at h
  | failure => rw [hc] at h; simp [PR.bind] at h
  | panic s => rw [hc] at h; simp [PR.bind] at h
  | fuel => rw [hc] at h; simp [PR.bind] at h

section knot
-- the recursive `expr_or` is fine on inputs shorter than `L`; the functions below are then
-- fine on inputs shorter than `L + 1` (they call it only after consuming `(`).
variable {exprOr : Bool → Parser Expr} (hrec : ∀ rp, Fine L (exprOr rp))
include hrec

theorem fine_filterExpr : Fine (L + 1) (filterExpr exprOr) :=
  fine_delimited_strict (fine_delimited (fine_char _) fine_ws (fine_char _)) filterOpen_strict
    (fine_delimited fine_ws (hrec false) fine_ws) (fine_char _)

theorem fine_path : Fine (L + 1) (path exprOr) :=
  fine_alt (fine_delimited fine_ws fine_innerPath fine_ws)
    (fine_map _ (fine_delimited fine_ws (fine_filterExpr hrec) fine_ws))

theorem fine_existsPaths : Fine (L + 1) (existsPaths exprOr) :=
  fine_map _ (fine_pair (fine_alt (fine_value _ (fine_char _)) (fine_value _ (fine_char _)))
    (fine_many0 (fine_path hrec)))

theorem fine_existsFn : Fine (L + 1) (existsFn exprOr) :=
  fine_preceded (fine_tag _) (fine_preceded fine_ws
    (fine_delimited (fine_terminated (fine_char _) fine_ws) (fine_existsPaths hrec)
      (fine_preceded fine_ws (fine_char _))))

theorem fine_exprAtom (rp : Bool) : Fine (L + 1) (exprAtom exprOr rp) :=
  fine_alt (fine_map _ (fine_tuple3 (fine_delimited fine_ws (fine_innerExpr rp) fine_ws) fine_binaryArithOp
      (fine_delimited fine_ws (fine_innerExpr rp) fine_ws)))
    (fine_alt (fine_map _ (fine_tuple3 (fine_delimited fine_ws (fine_innerExpr rp) fine_ws) fine_op
          (fine_delimited fine_ws (fine_innerExpr rp) fine_ws)))
      (fine_alt (fine_map _ (fine_pair fine_unaryArithOp (fine_delimited fine_ws (fine_innerExpr rp) fine_ws)))
        (fine_alt
          (fine_delimited_strict (fine_terminated (fine_char _) fine_ws)
            (terminated_char_ws_strict 40) (hrec rp) (fine_preceded fine_ws (fine_char _)))
          (fine_map _ (fine_existsFn hrec)))))

theorem fine_exprAnd (rp : Bool) : Fine (L + 1) (exprAnd exprOr rp) := by
  intro i hi
  unfold exprAnd
  have h := fine_separatedList1 (fine_delimited fine_ws (fine_tag [38, 38]) fine_ws)
    (fine_exprAtom hrec rp) i hi
  exact post_bind h.1 (fun es r e => foldBin_post _ _ _ _ (h.2 es r e))

theorem fine_exprOrStep (rp : Bool) : Fine (L + 1) (exprOrStep exprOr rp) := by
  intro i hi
  unfold exprOrStep
  have h := fine_separatedList1 (fine_delimited fine_ws (fine_tag [124, 124]) fine_ws)
    (fine_exprAnd hrec rp) i hi
  exact post_bind h.1 (fun es r e => foldBin_post _ _ _ _ (h.2 es r e))

end knot

/-- with `n` units of fuel, `expr_or` is fine on every input shorter than `n` -/
theorem fine_exprOr (n : Nat) : ∀ rp, Fine n (exprOr n rp) := by
  induction n with
  | zero => intro rp i hi; omega
  | succ n ih => intro rp; exact fine_exprOrStep ih rp

theorem fine_predicate (n : Nat) : Fine n (predicate n) :=
  fine_map _ (fine_delimited fine_ws (fine_exprOr n true) fine_ws)

theorem fine_paths (n : Nat) : Fine (n + 1) (paths n) :=
  fine_map _ (fine_pair (fine_opt fine_prePath) (fine_many0 (fine_path (fine_exprOr n))))

theorem fine_keyPath : Fine L keyPath :=
  fine_alt (fine_map _ fine_i32) (fine_alt (fine_map _ fine_string) (fine_map _ fine_rawString))

theorem fine_keyPaths : Fine L keyPaths :=
  fine_alt
    (fine_delimited (fine_preceded fine_ws (fine_char _))
      (fine_separatedList1 (fine_char _) (fine_delimited fine_ws fine_keyPath fine_ws))
      (fine_terminated (fine_char _) fine_ws))
    (fine_map _ (fine_delimited (fine_preceded fine_ws (fine_char _)) fine_ws (fine_terminated (fine_char _) fine_ws)))

theorem finish_ne_fuel {α} (r : PR α) (e : String) (h : r ≠ .fuel) : finish r e ≠ .fuel := by
  unfold finish
  split <;> simp_all

end PathParser

open PathParser Nom in
/-- the fuel `input.len() + 1` given to `expr_or` always suffices -/
theorem parseJsonPath_ne_fuel (bs : Bytes) : parseJsonPath bs ≠ .fuel := by
  unfold parseJsonPath
  apply finish_ne_fuel
  have hpp : Fine (bs.length + 1) (predicateOrPaths (bs.length + 1)) :=
    fine_alt (fine_predicate _) (fun i hi => fine_paths (bs.length + 1) i (by omega))
  exact (fine_delimited fine_ws hpp fine_ws bs (by omega)).1

open PathParser Nom in
theorem parseKeyPaths_ne_fuel (bs : Bytes) : parseKeyPaths bs ≠ .fuel := by
  unfold parseKeyPaths
  apply finish_ne_fuel
  exact (fine_keyPaths (L := bs.length + 1) bs (by omega)).1

/-- On every input the model of `parse_json_path` returns `Ok` or `Err`. -/
theorem parseJsonPath_total (bs : Bytes) :
    (∃ jp, parseJsonPath bs = .ok jp) ∨ (∃ e, parseJsonPath bs = .err e) := by
  cases h : parseJsonPath bs with
  | ok a => exact Or.inl ⟨a, rfl⟩
  | err e => exact Or.inr ⟨e, rfl⟩
  | panic s => exact absurd h (parseJsonPath_ne_panic bs s)
  | fuel => exact absurd h (parseJsonPath_ne_fuel bs)

/-- On every input the model of `parse_key_paths` returns `Ok` or `Err`. -/
theorem parseKeyPaths_total (bs : Bytes) :
    (∃ ps, parseKeyPaths bs = .ok ps) ∨ (∃ e, parseKeyPaths bs = .err e) := by
  cases h : parseKeyPaths bs with
  | ok a => exact Or.inl ⟨a, rfl⟩
  | err e => exact Or.inr ⟨e, rfl⟩
  | panic s => exact absurd h (parseKeyPaths_ne_panic bs s)
  | fuel => exact absurd h (parseKeyPaths_ne_fuel bs)

end Jsonb

#print axioms Jsonb.parseJsonPath_total
#print axioms Jsonb.parseKeyPaths_total
