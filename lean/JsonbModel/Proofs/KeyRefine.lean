/-
Refinement: the byte-level `convert_to_comparable` (`Fn.convertToComparable`) on an encoded document
appends exactly the tree-level key `Spec.keyOf 0 v` to the buffer, provided the container nesting
depth fits the `u8` depth counter (`Spec.cdepth v ≤ 255`).
-/
import JsonbModel.Functions.Order
import JsonbModel.Proofs.KeySpec
import JsonbModel.Proofs.CmpRefine

namespace Jsonb
open JV

namespace Fn

/-! ### small helpers -/

theorem Res_map_ok {α β} (f : α → β) (a : α) : Res.map f (Res.ok a) = Res.ok (f a) := rfl

theorem readU32At_eq (buf X : Bytes) (w : Nat) (Y : Bytes) (n : Nat) (h : buf = X ++ (u32be w ++ Y))
    (hn : n = X.length) (hw : w < 4294967296) : readU32At buf n = some w := by
  subst h; exact readU32At_mid X w Y n hn hw

theorem incDepth_ok (d : Nat) (h : d + 1 ≤ 255) : incDepth d = .ok (d + 1) := by
  rw [incDepth, if_pos h]

/-! ### One step of `scalar_convert_to_comparable`, branch by branch -/

theorem keyScalar_plain (fuel d : Nat) (je : JE) (value : Bytes) (h1 : je.ty ≠ C.CONTAINER_TAG)
    (h2 : je.ty ≠ C.STRING_TAG) (h3 : je.ty ≠ C.NUMBER_TAG) :
    keyScalar (fuel + 1) d je value = .ok (Spec.keyHead d (level je.ty)) := by
  rw [keyScalar]
  simp only [h1, h2, h3, if_false]
  rfl

theorem keyScalar_string (fuel d : Nat) (je : JE) (value s : Bytes) (h1 : je.ty = C.STRING_TAG)
    (hs : slice value 0 je.len = .ok s) :
    keyScalar (fuel + 1) d je value = .ok (Spec.keyHead d C.STRING_LEVEL ++ s) := by
  rw [keyScalar, h1, hs]
  rw [if_neg (by decide), if_pos rfl]
  rfl

theorem keyScalar_number (fuel d : Nat) (je : JE) (value s : Bytes) (n : Num)
    (h1 : je.ty = C.NUMBER_TAG) (hs : slice value 0 je.len = .ok s) (hn : Num.dec s = .ok n) :
    keyScalar (fuel + 1) d je value
      = .ok (Spec.keyHead d C.NUMBER_LEVEL ++ f64Key (Num.asF64 n)) := by
  rw [keyScalar, h1, hs]
  rw [if_neg (by decide), if_neg (by decide), if_pos rfl]
  simp only [hn]
  rfl

theorem keyScalar_arr (fuel d : Nat) (je : JE) (h : Nat) (rest : Bytes)
    (h1 : je.ty = C.CONTAINER_TAG) (hh : h < 4294967296) (ht : hdrType h = C.ARRAY_CONTAINER_TAG)
    (hd : d + 1 ≤ 255) :
    keyScalar (fuel + 1) d je (u32be h ++ rest)
      = (keyArray fuel (d + 1) (hdrLen h) rest 0 (4 * hdrLen h)).map
          (fun k => Spec.keyHead d C.ARRAY_LEVEL ++ k) := by
  rw [keyScalar, h1, if_pos rfl, readU32At_zero _ _ hh]
  simp only [ht, if_true, incDepth_ok d hd, sliceFrom_u32be]
  rfl

theorem keyScalar_obj (fuel d : Nat) (je : JE) (h : Nat) (rest : Bytes)
    (h1 : je.ty = C.CONTAINER_TAG) (hh : h < 4294967296) (ht : hdrType h = C.OBJECT_CONTAINER_TAG)
    (hd : d + 1 ≤ 255) :
    keyScalar (fuel + 1) d je (u32be h ++ rest)
      = (keyObject fuel (d + 1) (hdrLen h) rest).map
          (fun k => Spec.keyHead d C.OBJECT_LEVEL ++ k) := by
  rw [keyScalar, h1, if_pos rfl, readU32At_zero _ _ hh]
  simp only [ht]
  rw [if_neg (by decide), if_pos trivial]
  simp only [incDepth_ok d hd, sliceFrom_u32be]
  rfl

/-- `object_convert_to_comparable` on the part of a good object's image after its header -/
theorem keyObject_step (fuel d : Nat) (kvs : List (Bytes × JV)) (hg : goodK kvs = true)
    (post : Bytes) :
    keyObject (fuel + 1) d kvs.length
        (keyWords kvs ++ (wordsK kvs ++ (keyBytes kvs ++ (paysK kvs ++ post))))
      = keyObjLoop fuel d (keyWords kvs ++ (wordsK kvs ++ (keyBytes kvs ++ (paysK kvs ++ post))))
          (kvs.map (fun kv => kv.1.length)) (8 * kvs.length) (4 * kvs.length)
          (8 * kvs.length + (keyBytes kvs).length) := by
  rw [keyObject]
  have f := fillKeys_spec kvs hg [] (wordsK kvs ++ (keyBytes kvs ++ (paysK kvs ++ post))) 0
    (8 * kvs.length) rfl
  simp only [List.nil_append, Nat.zero_add] at f
  rw [f]

/-! ### The walker computes the tree-level key -/

mutual
theorem keyScalar_spec : (v : JV) → good v = true → (fuel : Nat) → cost v ≤ fuel → (d : Nat) →
    d + Spec.cdepth v ≤ 255 → (je : JE) → je.ty = ety v → je.len = elen v → (post : Bytes) →
    keyScalar fuel d je ((entry v).2 ++ post) = .ok (Spec.keyOf d v)
  | null, _, fuel, hf, d, _, je, h1, _, post => by
    obtain ⟨f, rfl⟩ : ∃ f, fuel = f + 1 := ⟨fuel - 1, by simp only [cost] at hf; omega⟩
    simp only [ety] at h1
    rw [keyScalar_plain f d je _ (by rw [h1]; decide) (by rw [h1]; decide) (by rw [h1]; decide), h1]
    rfl
  | JV.bool true, _, fuel, hf, d, _, je, h1, _, post => by
    obtain ⟨f, rfl⟩ : ∃ f, fuel = f + 1 := ⟨fuel - 1, by simp only [cost] at hf; omega⟩
    simp only [ety] at h1
    rw [keyScalar_plain f d je _ (by rw [h1]; decide) (by rw [h1]; decide) (by rw [h1]; decide), h1]
    rfl
  | JV.bool false, _, fuel, hf, d, _, je, h1, _, post => by
    obtain ⟨f, rfl⟩ : ∃ f, fuel = f + 1 := ⟨fuel - 1, by simp only [cost] at hf; omega⟩
    simp only [ety] at h1
    rw [keyScalar_plain f d je _ (by rw [h1]; decide) (by rw [h1]; decide) (by rw [h1]; decide), h1]
    rfl
  | num n, hg, fuel, hf, d, _, je, h1, h2, post => by
    obtain ⟨f, rfl⟩ : ∃ f, fuel = f + 1 := ⟨fuel - 1, by simp only [cost] at hf; omega⟩
    have hn : n.WF := by simpa [good] using hg
    simp only [entry]
    rw [keyScalar_number f d je _ (Num.enc n) n.norm h1 (slice_zero _ _ _ (by rw [h2]; rfl))
      (Num.dec_enc n hn)]
    rfl
  | str s, _, fuel, hf, d, _, je, h1, h2, post => by
    obtain ⟨f, rfl⟩ : ∃ f, fuel = f + 1 := ⟨fuel - 1, by simp only [cost] at hf; omega⟩
    simp only [entry]
    rw [keyScalar_string f d je _ s h1 (slice_zero _ _ _ (by rw [h2]; rfl))]
    rfl
  | arr vs, hg, fuel, hf, d, hd, je, h1, _, post => by
    obtain ⟨f, rfl⟩ : ∃ f, fuel = f + 2 := ⟨fuel - 2, by
      have := costL_pos vs; simp only [cost] at hf; omega⟩
    have ⟨hn, hgl⟩ := good_arr hg
    simp only [Spec.cdepth] at hd
    simp only [cost] at hf
    simp only [entry, List.append_assoc]
    rw [keyScalar_arr (f + 1) d je _ _ h1 (arr_header_lt _ hn) (hdrType_arr _ hn) (by omega),
      hdrLen_arr _ hn]
    rw [keyArray_spec vs hgl (f + 1) (by omega) (d + 1) (by omega)
      (wordsL vs ++ (paysL vs ++ post)) [] [] post 0 (4 * vs.length) (by simp) rfl (by simp) _ rfl]
    rfl
  | obj kvs, hg, fuel, hf, d, hd, je, h1, _, post => by
    obtain ⟨f, rfl⟩ : ∃ f, fuel = f + 3 := ⟨fuel - 3, by
      have := costK_pos kvs; simp only [cost] at hf; omega⟩
    have ⟨hn, hgk⟩ := good_obj hg
    simp only [Spec.cdepth] at hd
    simp only [cost] at hf
    simp only [entry, List.append_assoc]
    rw [keyScalar_obj (f + 2) d je _ _ h1 (obj_header_lt _ hn) (hdrType_obj _ hn) (by omega),
      hdrLen_obj _ hn, keyObject_step (f + 1) (d + 1) kvs hgk post]
    rw [keyObjLoop_spec kvs hgk (f + 1) (by omega) (d + 1) (by omega) _
      (keyWords kvs) [] [] post _ _ _ (by simp)
      (by simp [keyWords_length]) (by simp [keyWords_length]; try omega)
      (by simp [keyWords_length]; try omega)]
    rfl
theorem keyArray_spec : (vs : List JV) → goodL vs = true → (fuel : Nat) → costL vs ≤ fuel →
    (d : Nat) → d + Spec.cdepthL vs ≤ 255 → (value pre mid post : Bytes) → (jo vo : Nat) →
    value = pre ++ (wordsL vs ++ (mid ++ (paysL vs ++ post))) →
    jo = pre.length → vo = pre.length + 4 * vs.length + mid.length →
    (n : Nat) → n = vs.length →
    keyArray fuel d n value jo vo = .ok (Spec.keyL d vs)
  | [], _, fuel, hf, d, _, value, pre, mid, post, jo, vo, _, _, _, n, hn => by
    obtain ⟨f, rfl⟩ : ∃ f, fuel = f + 1 := ⟨fuel - 1, by simp only [costL] at hf; omega⟩
    simp only [List.length_nil] at hn
    subst hn
    rw [keyArray]
    rfl
  | v :: vs, hg, fuel, hf, d, hd, value, pre, mid, post, jo, vo, hV, hjo, hvo, n, hn => by
    obtain ⟨f, rfl⟩ : ∃ f, fuel = f + 1 := ⟨fuel - 1, by simp only [costL] at hf; omega⟩
    simp only [costL] at hf
    simp only [goodL, Bool.and_eq_true] at hg
    simp only [Spec.cdepthL] at hd
    have hl := elen_lt_of_good v hg.1
    simp only [List.length_cons] at hvo hn
    subst hn
    rw [keyArray]
    rw [readU32At_eq value pre (entry v).1 (wordsL vs ++ (mid ++ (paysL (v :: vs) ++ post))) jo
      (by rw [hV]; simp [wordsL]) hjo (entry_lt v hl)]
    simp only []
    rw [sliceFrom_eq value (pre ++ (wordsL (v :: vs) ++ mid)) ((entry v).2 ++ (paysL vs ++ post))
      vo (by rw [hV]; simp [paysL]) (by simp [wordsL_length]; omega)]
    simp only []
    rw [keyScalar_spec v hg.1 f (by omega) d (by omega) _
      (by simp [JE_ofWord_entry v hl]) (by simp [JE_ofWord_entry v hl])]
    simp only []
    rw [keyArray_spec vs hg.2 f (by omega) d (by omega) value
      (pre ++ u32be (entry v).1) (mid ++ (entry v).2) post _ _
      (by rw [hV]; simp [wordsL, paysL]) (by simp; omega)
      (by simp [jeLen_entry v hl, elen]; omega) _ rfl]
    rfl
theorem keyObjLoop_spec : (kvs : List (Bytes × JV)) → goodK kvs = true → (fuel : Nat) →
    costK kvs ≤ fuel → (d : Nat) → d + Spec.cdepthK kvs ≤ 255 →
    (value pre kpre mid post : Bytes) → (ko jo vo : Nat) →
    value = pre ++ (wordsK kvs ++ (kpre ++ (keyBytes kvs ++ (mid ++ (paysK kvs ++ post))))) →
    jo = pre.length →
    ko = pre.length + 4 * kvs.length + kpre.length →
    vo = pre.length + 4 * kvs.length + kpre.length + (keyBytes kvs).length + mid.length →
    keyObjLoop fuel d value (kvs.map (fun kv => kv.1.length)) ko jo vo = .ok (Spec.keyK d kvs)
  | [], _, fuel, hf, d, _, value, pre, kpre, mid, post, ko, jo, vo, _, _, _, _ => by
    obtain ⟨f, rfl⟩ : ∃ f, fuel = f + 1 := ⟨fuel - 1, by simp only [costK] at hf; omega⟩
    simp only [List.map_nil]
    rw [keyObjLoop]
    rfl
  | (k, v) :: kvs, hg, fuel, hf, d, hd, value, pre, kpre, mid, post, ko, jo, vo, hV, hjo, hko,
      hvo => by
    have hcv := cost_pos v
    obtain ⟨f, rfl⟩ : ∃ f, fuel = f + 2 := ⟨fuel - 2, by simp only [costK] at hf; omega⟩
    simp only [costK] at hf
    simp only [goodK, Bool.and_eq_true, decide_eq_true_eq] at hg
    simp only [Spec.cdepthK] at hd
    have hl := elen_lt_of_good v hg.1.2
    simp only [List.length_cons, keyBytes, List.length_append] at hko hvo
    simp only [List.map_cons]
    rw [keyObjLoop]
    rw [sliceFrom_eq value (pre ++ (wordsK ((k, v) :: kvs) ++ kpre))
      (k ++ (keyBytes kvs ++ (mid ++ (paysK ((k, v) :: kvs) ++ post))))
      ko (by rw [hV]; simp [keyBytes]) (by simp [wordsK_length]; omega)]
    simp only []
    rw [keyScalar_string f d ⟨C.STRING_TAG, k.length, 0⟩ _ k rfl (slice_zero _ _ _ rfl)]
    simp only []
    rw [readU32At_eq value pre (entry v).1
      (wordsK kvs ++ (kpre ++ (keyBytes ((k, v) :: kvs) ++ (mid ++ (paysK ((k, v) :: kvs) ++ post)))))
      jo (by rw [hV]; simp [wordsK]) hjo (entry_lt v hl)]
    simp only []
    rw [sliceFrom_eq value
      (pre ++ (wordsK ((k, v) :: kvs) ++ (kpre ++ (keyBytes ((k, v) :: kvs) ++ mid))))
      ((entry v).2 ++ (paysK kvs ++ post))
      vo (by rw [hV]; simp [paysK]) (by simp [wordsK_length, keyBytes]; omega)]
    simp only []
    rw [keyScalar_spec v hg.1.2 (f + 1) (by omega) d (by omega) _
      (by simp [JE_ofWord_entry v hl]) (by simp [JE_ofWord_entry v hl])]
    simp only []
    rw [keyObjLoop_spec kvs hg.2 (f + 1) (by omega) d (by omega) value
      (pre ++ u32be (entry v).1) (kpre ++ k) (mid ++ (entry v).2) post _ _ _
      (by rw [hV]; simp [wordsK, paysK, keyBytes])
      (by simp; omega) (by simp; omega) (by simp [jeLen_entry v hl, elen]; omega)]
    rfl
end

/-! ### The document level -/

theorem convertToComparable_sca (w : Nat) (p buf : Bytes) (hw : w < 4294967296) :
    convertToComparable (u32be C.SCALAR_CONTAINER_TAG ++ (u32be w ++ p)) buf
      = (keyScalar (2 * p.length + 24) 0 (JE.ofWord w) p).map (buf ++ ·) := by
  unfold convertToComparable
  rw [readU32At_zero _ _ sca_lt]
  simp only [hdrType_sca, if_true]
  rw [readU32At_eq _ (u32be C.SCALAR_CONTAINER_TAG) w p 4 rfl (by simp) hw]
  simp only []
  rw [sliceFrom_eq _ (u32be C.SCALAR_CONTAINER_TAG ++ u32be w) p 8 (by simp) (by simp)]
  simp only [List.length_append, u32be_length]
  congr 2; omega

theorem convertToComparable_arr (h : Nat) (rest buf : Bytes) (hh : h < 4294967296)
    (ht : hdrType h = C.ARRAY_CONTAINER_TAG) :
    convertToComparable (u32be h ++ rest) buf
      = (keyArray (2 * rest.length + 16) 1 (hdrLen h) rest 0 (4 * hdrLen h)).map
          (fun k => buf ++ (Spec.keyHead 0 C.ARRAY_LEVEL ++ k)) := by
  unfold convertToComparable
  rw [readU32At_zero _ _ hh]
  simp only [ht]
  rw [if_neg (by decide), if_pos trivial, sliceFrom_u32be]
  simp only [List.length_append, u32be_length]
  have e : 2 * (4 + rest.length) + 8 = 2 * rest.length + 16 := by omega
  rw [e]
  rfl

theorem convertToComparable_obj (h : Nat) (rest buf : Bytes) (hh : h < 4294967296)
    (ht : hdrType h = C.OBJECT_CONTAINER_TAG) :
    convertToComparable (u32be h ++ rest) buf
      = (keyObject (2 * rest.length + 16) 1 (hdrLen h) rest).map
          (fun k => buf ++ (Spec.keyHead 0 C.OBJECT_LEVEL ++ k)) := by
  unfold convertToComparable
  rw [readU32At_zero _ _ hh]
  simp only [ht]
  rw [if_neg (by decide), if_neg (by decide), if_pos trivial, sliceFrom_u32be]
  simp only [List.length_append, u32be_length]
  have e : 2 * (4 + rest.length) + 8 = 2 * rest.length + 16 := by omega
  rw [e]
  rfl

/-- **Refinement of `convert_to_comparable`**: on the encoding of a good document whose container
nesting depth fits the `u8` depth counter, the byte-level walker appends exactly the tree-level
key to the buffer; it never fails, panics or runs out of its fuel. -/
theorem convertToComparable_refines (v : JV) (hg : goodTop v = true) (hd : Spec.cdepth v ≤ 255)
    (buf : Bytes) :
    Fn.convertToComparable (encodeSpec v) buf = .ok (buf ++ Spec.keyOf 0 v) := by
  cases hs : Spec.isScalarJ v
  · rcases container_cases v hs with ⟨vs, rfl⟩ | ⟨kvs, rfl⟩
    · have ⟨hn, hgl⟩ := goodTop_arr hg
      simp only [Spec.cdepth] at hd
      rw [encodeSpec_arr, convertToComparable_arr _ _ _ (arr_header_lt _ hn) (hdrType_arr _ hn),
        hdrLen_arr _ hn]
      have hc := costL_le vs
      rw [keyArray_spec vs hgl _ (by simp only [List.length_append, wordsL_length]; omega) 1
        (by omega) (wordsL vs ++ paysL vs) [] [] [] 0 (4 * vs.length) (by simp) rfl (by simp) _ rfl]
      rfl
    · have ⟨hn, hgk⟩ := goodTop_obj hg
      simp only [Spec.cdepth] at hd
      rw [encodeSpec_obj, convertToComparable_obj _ _ _ (obj_header_lt _ hn) (hdrType_obj _ hn),
        hdrLen_obj _ hn]
      have hc := costK_le kvs
      have e : (keyWords kvs ++ (wordsK kvs ++ (keyBytes kvs ++ paysK kvs))).length
          = 8 * kvs.length + (keyBytes kvs).length + (paysK kvs).length := by
        simp only [List.length_append, wordsK_length, keyWords_length]; omega
      obtain ⟨f, hf⟩ : ∃ f, 2 * (keyWords kvs ++ (wordsK kvs ++ (keyBytes kvs ++ paysK kvs))).length
          + 16 = f + 1 := ⟨_, rfl⟩
      rw [hf]
      have := keyObject_step f 1 kvs hgk []
      simp only [List.append_nil] at this
      rw [this]
      rw [keyObjLoop_spec kvs hgk f (by omega) 1 (by omega) _
        (keyWords kvs) [] [] [] _ _ _ (by simp)
        (by simp [keyWords_length]) (by simp [keyWords_length]; try omega)
        (by simp [keyWords_length]; try omega)]
      rfl
  · have hgv := goodTop_scalar v hs hg
    have hl := elen_lt_of_good v hgv
    rw [encodeSpec_scalar v hs, convertToComparable_sca _ _ _ (entry_lt v hl)]
    have hc : cost v = 1 := by cases v <;> first | rfl | simp [Spec.isScalarJ] at hs
    have := keyScalar_spec v hgv (2 * (entry v).2.length + 24) (by omega) 0 (by omega)
      (JE.ofWord (entry v).1) (by simp [JE_ofWord_entry v hl]) (by simp [JE_ofWord_entry v hl]) []
    simp only [List.append_nil] at this
    rw [this]
    rfl

end Fn
end Jsonb
