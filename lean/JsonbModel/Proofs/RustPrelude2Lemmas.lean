/-
Lemmas about the primitives of `RustPrelude2.lean` (and propositional copies of the definitional
`Ctl` lemmas of `RustPrelude.lean`).  Proof support for `Proofs/TranslatedAgreeB*.lean`; nothing
here is a property statement.

Why the primed copies: the `@[simp]` lemmas of the preludes are proved by `rfl`, so `simp` uses them
as definitional steps and leaves the check to the kernel, which then compares `Ctl.val a` with
`Ctl.ofRes (Rs.add .usize x 4)` by evaluating the overflow test on a symbolic `x` (unary
subtraction of `2^64 - 1`).  The copies below are ordinary rewrite rules: `simp only` records each
use as a proof step and the kernel never unfolds the arithmetic.
-/
import JsonbModel.RustPrelude2
import JsonbModel.Proofs.RustPreludeLemmas

namespace Jsonb.Rs

namespace Ctl
theorem pure_eq' {ρ α : Type} (a : α) : (pure a : Ctl ρ α) = val a := Eq.trans rfl rfl
theorem val_bind' {ρ α β : Type} (a : α) (f : α → Ctl ρ β) : (val a >>= f) = f a := Eq.trans rfl rfl
theorem ret_bind' {ρ α β : Type} (r : Res ρ) (f : α → Ctl ρ β) : ((ret r : Ctl ρ α) >>= f) = ret r :=
  Eq.trans rfl rfl
theorem ofRes_ok' {ρ α : Type} (a : α) : (ofRes (.ok a) : Ctl ρ α) = val a := Eq.trans rfl rfl
theorem ofRes_err' {ρ α : Type} (e : String) : (ofRes (.err e : Res α) : Ctl ρ α) = ret (.err e) :=
  Eq.trans rfl rfl
theorem ofRes_panic' {ρ α : Type} (s : String) : (ofRes (.panic s : Res α) : Ctl ρ α) = ret (.panic s) :=
  Eq.trans rfl rfl
theorem run_val' {ρ : Type} (a : ρ) : run (val a : Ctl ρ ρ) = .ok a := Eq.trans rfl rfl
theorem run_ret' {ρ : Type} (r : Res ρ) : run (ret r : Ctl ρ ρ) = r := Eq.trans rfl rfl
end Ctl

theorem loopStep_val' {ρ σ : Type} (s : σ) :
    loopStep (Ctl.val s : Ctl (LoopCtl ρ σ) σ) = .val (.next s) := Eq.trans rfl rfl
theorem loopStep_cont' {ρ σ : Type} (s : σ) :
    loopStep (Ctl.ret (.ok (.cont s)) : Ctl (LoopCtl ρ σ) σ) = .val (.next s) := Eq.trans rfl rfl
theorem loopStep_brk' {ρ σ : Type} (s : σ) :
    loopStep (Ctl.ret (.ok (.brk s)) : Ctl (LoopCtl ρ σ) σ) = .val (.done s) := Eq.trans rfl rfl
theorem loopStep_ret' {ρ σ : Type} (r : ρ) :
    loopStep (Ctl.ret (.ok (.ret r)) : Ctl (LoopCtl ρ σ) σ) = .ret (.ok r) := Eq.trans rfl rfl
theorem loopStep_err' {ρ σ : Type} (e : String) :
    loopStep (Ctl.ret (.err e) : Ctl (LoopCtl ρ σ) σ) = .ret (.err e) := Eq.trans rfl rfl
theorem loopStep_panic' {ρ σ : Type} (p : String) :
    loopStep (Ctl.ret (.panic p) : Ctl (LoopCtl ρ σ) σ) = .ret (.panic p) := Eq.trans rfl rfl

theorem okQ_ok' {ρ α : Type} (a : α) (r : Res ρ) : okQ (.ok a) r = .val a := Eq.trans rfl rfl
theorem okQ_err' {ρ α : Type} (e : String) (r : Res ρ) : okQ (.err e : Res α) r = .ret r := Eq.trans rfl rfl
theorem okQ_panic' {ρ α : Type} (s : String) (r : Res ρ) : okQ (.panic s : Res α) r = .ret (.panic s) :=
  Eq.trans rfl rfl
theorem optQ_some' {ρ α : Type} (a : α) (r : Res ρ) : optQ (some a) r = .val a := Eq.trans rfl rfl
theorem optQ_none' {ρ α : Type} (r : Res ρ) : optQ (none : Option α) r = .ret r := Eq.trans rfl rfl

/-! ### loops, one step at a time -/

theorem forRangeAux_zero {ρ σ : Type} (body : Int → σ → Ctl ρ (Step σ)) (i : Int) (s : σ) :
    forRangeAux body 0 i s = .val s := Eq.trans rfl rfl

theorem forRangeAux_next {ρ σ : Type} (body : Int → σ → Ctl ρ (Step σ)) (n : Nat) (i : Int) (s s' : σ)
    (h : body i s = .val (.next s')) : forRangeAux body (n + 1) i s = forRangeAux body n (i + 1) s' := by
  rw [forRangeAux, h]
theorem forRangeAux_done {ρ σ : Type} (body : Int → σ → Ctl ρ (Step σ)) (n : Nat) (i : Int) (s s' : σ)
    (h : body i s = .val (.done s')) : forRangeAux body (n + 1) i s = .val s' := by
  rw [forRangeAux, h]
theorem forRangeAux_ret {ρ σ : Type} (body : Int → σ → Ctl ρ (Step σ)) (n : Nat) (i : Int) (s : σ) (r : Res ρ)
    (h : body i s = .ret r) : forRangeAux body (n + 1) i s = .ret r := by
  rw [forRangeAux, h]

/-- `for i in a..b` with natural-number bounds `a ≤ b` -/
theorem forRange_nat {ρ σ : Type} (a b : Nat) (init : σ) (body : Int → σ → Ctl ρ (Step σ)) :
    forRange (a : Int) (b : Int) init body = forRangeAux body (b - a) (a : Int) init := by
  unfold forRange
  have : ((b : Int) - (a : Int)).toNat = b - a := by omega
  rw [this]

theorem forIn_nil {ρ σ α : Type} (init : σ) (body : α → σ → Ctl ρ (Step σ)) :
    forIn ([] : List α) init body = .val init := Eq.trans rfl rfl
theorem forIn_next {ρ σ α : Type} (x : α) (xs : List α) (s s' : σ) (body : α → σ → Ctl ρ (Step σ))
    (h : body x s = .val (.next s')) : forIn (x :: xs) s body = forIn xs s' body := by
  rw [forIn, h]
theorem forIn_done {ρ σ α : Type} (x : α) (xs : List α) (s s' : σ) (body : α → σ → Ctl ρ (Step σ))
    (h : body x s = .val (.done s')) : forIn (x :: xs) s body = .val s' := by
  rw [forIn, h]
theorem forIn_ret {ρ σ α : Type} (x : α) (xs : List α) (s : σ) (r : Res ρ) (body : α → σ → Ctl ρ (Step σ))
    (h : body x s = .ret r) : forIn (x :: xs) s body = .ret r := by
  rw [forIn, h]

theorem whileFuel_next {ρ σ : Type} (n : Nat) (s s' : σ) (body : σ → Ctl ρ (Step σ))
    (h : body s = .val (.next s')) : whileFuel (n + 1) s body = whileFuel n s' body := by
  rw [whileFuel, h]
theorem whileFuel_done {ρ σ : Type} (n : Nat) (s s' : σ) (body : σ → Ctl ρ (Step σ))
    (h : body s = .val (.done s')) : whileFuel (n + 1) s body = .val s' := by
  rw [whileFuel, h]
theorem whileFuel_ret {ρ σ : Type} (n : Nat) (s : σ) (r : Res ρ) (body : σ → Ctl ρ (Step σ))
    (h : body s = .ret r) : whileFuel (n + 1) s body = .ret r := by
  rw [whileFuel, h]

/-! ### `usize` arithmetic on natural numbers (bounds in the strict form `omega` is happy with) -/

theorem le_max_of_lt {a : Nat} (h : a < 18446744073709551616) : a ≤ 18446744073709551615 :=
  Nat.le_of_lt_succ h

theorem usize_nat (n : Nat) (h : n < 18446744073709551616) : Rs.cast .usize (n : Int) = (n : Int) :=
  Rs.cast_of_inRange _ _ (by rw [Rs.inRange_iff]; simp; omega)

theorem add_usize_nat (a b : Nat) (h : a + b < 18446744073709551616) :
    Rs.add .usize (a : Int) (b : Int) = .ok ((a + b : Nat) : Int) := by
  rw [Rs.add_ok _ _ _ (by rw [Rs.inRange_iff]; simp; omega)]; simp

theorem add_usize_overflow (a b : Nat) (h : 18446744073709551616 ≤ a + b) :
    Rs.add .usize (a : Int) (b : Int) = .panic "attempt to add with overflow" :=
  Rs.checked_panic _ _ _ (by rw [Rs.inRange_iff]; simp; omega)

theorem mul_usize_nat (a b : Nat) (h : a * b < 18446744073709551616) :
    Rs.mul .usize (a : Int) (b : Int) = .ok ((a * b : Nat) : Int) := by
  unfold Rs.mul
  have hc : (a : Int) * (b : Int) = ((a * b : Nat) : Int) := by push_cast; rfl
  rw [hc, Rs.checked_ok _ _ _ (by rw [Rs.inRange_iff]; simp; omega)]

/-- checked `usize` arithmetic on arbitrary integer terms (used with `simp (disch := omega)`: the
side condition is discharged from the hypotheses, whatever the shape of the operands) -/
theorem add_usize_ok' (x y : Int) (h : 0 ≤ x + y ∧ x + y < 18446744073709551616) :
    Rs.add .usize x y = .ok (x + y) :=
  Rs.add_ok _ _ _ (by rw [Rs.inRange_iff]; simp; omega)
theorem sub_usize_ok' (x y : Int) (h : 0 ≤ x - y ∧ x - y < 18446744073709551616) :
    Rs.sub .usize x y = .ok (x - y) :=
  Rs.sub_ok _ _ _ (by rw [Rs.inRange_iff]; simp; omega)
theorem mul_usize_ok' (x y : Int) (h : 0 ≤ x * y ∧ x * y < 18446744073709551616) :
    Rs.mul .usize x y = .ok (x * y) := by
  unfold Rs.mul; exact Rs.checked_ok _ _ _ (by rw [Rs.inRange_iff]; simp; omega)

theorem forRange_zero {ρ σ : Type} (b : Nat) (init : σ) (body : Int → σ → Ctl ρ (Step σ)) :
    forRange 0 (b : Int) init body = forRangeAux body b 0 init := by
  have := forRange_nat 0 b init body
  simpa using this

/-- `&s[a..b]` with natural-number bounds -/
theorem slice_nat (s : Bytes) (a b : Nat) :
    Rs.slice s (a : Int) (b : Int) =
      if a ≤ b ∧ b ≤ s.length then .ok ((s.drop a).take (b - a)) else .panic "slice index out of range" := by
  unfold Rs.slice
  by_cases h : a ≤ b ∧ b ≤ s.length
  · have h' : (0:Int) ≤ a ∧ (a:Int) ≤ b ∧ (b:Int) ≤ s.length := by omega
    rw [if_pos h', if_pos h]; simp
  · have h' : ¬ ((0:Int) ≤ a ∧ (a:Int) ≤ b ∧ (b:Int) ≤ s.length) := by omega
    rw [if_neg h', if_neg h]

theorem toBeBytes_u32_nat (n : Nat) (h : n < 4294967296) : Rs.toBeBytes .u32 (n : Int) = beN 4 n := by
  unfold Rs.toBeBytes
  have h1 : IntTy.u32.bytes = 4 := rfl
  have h2 : ((n : Int) % ((2 ^ IntTy.u32.bits : Nat) : Int)).toNat = n := by
    have : IntTy.u32.bits = 32 := rfl
    rw [this]; omega
  rw [h1, h2]

end Jsonb.Rs
