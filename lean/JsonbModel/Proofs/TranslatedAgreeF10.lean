import JsonbModel.Proofs.TranslatedAgreeF9

set_option linter.unusedSimpArgs false
set_option linter.unusedVariables false

namespace Jsonb.TrAgree
open Jsonb.Rs
open JV

/-! ## the precondition holds on the encoding of every good document -/

/-- the key entries of an encoded object: string-typed, with the key lengths -/
theorem fillKeyEntries_spec (kvs : List (Bytes × JV)) (hg : goodK kvs = true) (pre post : Bytes) (jo vo : Nat)
    (hjo : jo = pre.length) :
    fillKeyEntries (pre ++ (keyWords kvs ++ post)) kvs.length jo vo
      = some (kvs.map (fun kv => (C.STRING_TAG, kv.1.length)), jo + 4 * kvs.length, vo + (keyBytes kvs).length) := by
  induction kvs generalizing pre jo vo with
  | nil => simp [fillKeyEntries, keyBytes]
  | cons kv kvs ih =>
    obtain ⟨k, v⟩ := kv
    simp only [goodK, Bool.and_eq_true, decide_eq_true_eq] at hg
    have hl := hg.1.1.1
    have e1 : C.STRING_TAG = 1 * 268435456 := by decide
    simp only [List.length_cons, fillKeyEntries, keyWords, List.append_assoc]
    rw [readU32At_mid pre _ _ jo hjo (by rw [e1]; omega)]
    simp only []
    have hjl : jeLen (C.STRING_TAG + k.length) = k.length := by rw [e1]; exact jeLen_add 1 _ hl
    have hjt : jeType (C.STRING_TAG + k.length) = C.STRING_TAG := by rw [e1]; exact jeType_add 1 _ (by omega) hl
    rw [hjl, hjt]
    have e2 : pre ++ (u32be (C.STRING_TAG + k.length) ++ (keyWords kvs ++ post))
        = (pre ++ u32be (C.STRING_TAG + k.length)) ++ (keyWords kvs ++ post) := by simp
    rw [e2, ih hg.2 (pre ++ u32be (C.STRING_TAG + k.length)) (jo + 4) (vo + k.length) (by simp; omega)]
    simp only [List.map_cons, keyBytes, List.length_append, Option.some.injEq, Prod.mk.injEq, true_and]
    omega

theorem readU32At_eq (buf X : Bytes) (w : Nat) (Y : Bytes) (n : Nat) (h : buf = X ++ (u32be w ++ Y))
    (hn : n = X.length) (hw : w < 4294967296) : readU32At buf n = some w := by
  subst h; exact readU32At_mid X w Y n hn hw

theorem drop_eq (buf X Y : Bytes) (n : Nat) (h : buf = X ++ Y) (hn : n = X.length) : buf.drop n = Y := by
  subst h; subst hn; simp

mutual
theorem kasScalar_spec : (a : JV) → good a = true → (fuel : Nat) → Fn.cost a ≤ fuel → (ra : Bytes) →
    kasScalar fuel (ety a) ((entry a).2 ++ ra) = true
  | null, _, fuel, hf, ra => by
    obtain ⟨f, rfl⟩ : ∃ f, fuel = f + 1 := ⟨fuel - 1, by simp only [Fn.cost] at hf; omega⟩
    simp [kasScalar, ety, C.NULL_TAG, C.CONTAINER_TAG]
  | JV.bool x, _, fuel, hf, ra => by
    obtain ⟨f, rfl⟩ : ∃ f, fuel = f + 1 := ⟨fuel - 1, by simp only [Fn.cost] at hf; omega⟩
    cases x <;> simp [kasScalar, ety, C.TRUE_TAG, C.FALSE_TAG, C.CONTAINER_TAG]
  | num n, _, fuel, hf, ra => by
    obtain ⟨f, rfl⟩ : ∃ f, fuel = f + 1 := ⟨fuel - 1, by simp only [Fn.cost] at hf; omega⟩
    simp [kasScalar, ety, C.NUMBER_TAG, C.CONTAINER_TAG]
  | str s, _, fuel, hf, ra => by
    obtain ⟨f, rfl⟩ : ∃ f, fuel = f + 1 := ⟨fuel - 1, by simp only [Fn.cost] at hf; omega⟩
    simp [kasScalar, ety, C.STRING_TAG, C.CONTAINER_TAG]
  | arr as, ha, fuel, hf, ra => by
    obtain ⟨f, rfl⟩ : ∃ f, fuel = f + 2 := ⟨fuel - 2, by
      have := Fn.costL_pos as; simp only [Fn.cost] at hf; omega⟩
    have ⟨hna, hga⟩ := Fn.good_arr ha
    simp only [entry, List.append_assoc, ety]
    rw [kasScalar, if_pos rfl, kasContainer, readU32At_zero _ _ (arr_header_lt _ hna)]
    simp only [hdrType_arr _ hna, hdrLen_arr _ hna, if_true]
    exact kasItems_spec as hga f (by simp only [Fn.cost] at hf; omega) _ [] [] ra 0 _
      (by simp [u32be]) (by simp) (by simp)
  | obj as, ha, fuel, hf, ra => by
    obtain ⟨f, rfl⟩ : ∃ f, fuel = f + 3 := ⟨fuel - 3, by
      have := Fn.costK_pos as; simp only [Fn.cost] at hf; omega⟩
    have ⟨hna, hga⟩ := Fn.good_obj ha
    simp only [entry, List.append_assoc, ety]
    rw [kasScalar, if_pos rfl, kasContainer, readU32At_zero _ _ (obj_header_lt _ hna)]
    simp only [hdrType_obj _ hna, hdrLen_obj _ hna]
    rw [if_neg (by decide)]
    simp only [if_true]
    rw [kasObject]
    have e0 : List.drop 4 (u32be (C.OBJECT_CONTAINER_TAG + as.length) ++ (keyWords as ++ (wordsK as ++ (keyBytes as ++ (paysK as ++ ra)))))
        = keyWords as ++ (wordsK as ++ (keyBytes as ++ (paysK as ++ ra))) := by simp [u32be]
    rw [e0]
    have fk := fillKeyEntries_spec as hga [] (wordsK as ++ (keyBytes as ++ (paysK as ++ ra))) 0 (8 * as.length) rfl
    simp only [List.nil_append, Nat.zero_add] at fk
    rw [fk]
    simp only [Bool.and_eq_true, List.all_eq_true, List.mem_map, beq_iff_eq]
    refine ⟨?_, ?_⟩
    · rintro x ⟨kv, _, rfl⟩; rfl
    · exact kasItemsK_spec as hga f (by simp only [Fn.cost] at hf; omega) _ (keyWords as) (keyBytes as) ra _ _
        rfl (by simp [keyWords_length]) (by simp [keyWords_length]; omega)
theorem kasItems_spec : (as : List JV) → goodL as = true → (fuel : Nat) → Fn.costL as ≤ fuel →
    (buf pre mid post : Bytes) → (jo vo : Nat) →
    buf = pre ++ (wordsL as ++ (mid ++ (paysL as ++ post))) → jo = pre.length →
    vo = pre.length + 4 * as.length + mid.length →
    kasItems fuel buf as.length jo vo = true
  | [], _, fuel, hf, buf, pre, mid, post, jo, vo, _, _, _ => by
    obtain ⟨f, rfl⟩ : ∃ f, fuel = f + 1 := ⟨fuel - 1, by simp only [Fn.costL] at hf; omega⟩
    simp [kasItems]
  | a :: as, hga, fuel, hf, buf, pre, mid, post, jo, vo, hb, hjo, hvo => by
    obtain ⟨f, rfl⟩ : ∃ f, fuel = f + 1 := ⟨fuel - 1, by simp only [Fn.costL] at hf; omega⟩
    simp only [Fn.costL] at hf
    simp only [goodL, Bool.and_eq_true] at hga
    have hla := elen_lt_of_good a hga.1
    simp only [List.length_cons] at hvo ⊢
    rw [kasItems, readU32At_eq buf pre (entry a).1 (wordsL as ++ (mid ++ (paysL (a :: as) ++ post))) jo
      (by rw [hb]; simp [wordsL]) hjo (entry_lt a hla)]
    simp only [Bool.and_eq_true]
    refine ⟨?_, ?_⟩
    · rw [drop_eq buf (pre ++ (wordsL (a :: as) ++ mid)) ((entry a).2 ++ (paysL as ++ post)) vo
        (by rw [hb]; simp [paysL]) (by simp [wordsL_length]; omega), jeType_entry a hla]
      exact kasScalar_spec a hga.1 f (by omega) _
    · rw [jeLen_entry a hla]
      exact kasItems_spec as hga.2 f (by omega) buf (pre ++ u32be (entry a).1) (mid ++ (entry a).2) post _ _
        (by rw [hb]; simp [wordsL, paysL]) (by simp; omega) (by simp [elen]; omega)
theorem kasItemsK_spec : (as : List (Bytes × JV)) → goodK as = true → (fuel : Nat) → Fn.costK as ≤ fuel →
    (buf pre mid post : Bytes) → (jo vo : Nat) →
    buf = pre ++ (wordsK as ++ (mid ++ (paysK as ++ post))) → jo = pre.length →
    vo = pre.length + 4 * as.length + mid.length →
    kasItems fuel buf as.length jo vo = true
  | [], _, fuel, hf, buf, pre, mid, post, jo, vo, _, _, _ => by
    obtain ⟨f, rfl⟩ : ∃ f, fuel = f + 1 := ⟨fuel - 1, by simp only [Fn.costK] at hf; omega⟩
    simp [kasItems]
  | (ka, a) :: as, hga, fuel, hf, buf, pre, mid, post, jo, vo, hb, hjo, hvo => by
    obtain ⟨f, rfl⟩ : ∃ f, fuel = f + 1 := ⟨fuel - 1, by simp only [Fn.costK] at hf; omega⟩
    simp only [Fn.costK] at hf
    simp only [goodK, Bool.and_eq_true, decide_eq_true_eq] at hga
    have hla := elen_lt_of_good a hga.1.2
    simp only [List.length_cons] at hvo ⊢
    rw [kasItems, readU32At_eq buf pre (entry a).1 (wordsK as ++ (mid ++ (paysK ((ka, a) :: as) ++ post))) jo
      (by rw [hb]; simp [wordsK]) hjo (entry_lt a hla)]
    simp only [Bool.and_eq_true]
    refine ⟨?_, ?_⟩
    · rw [drop_eq buf (pre ++ (wordsK ((ka, a) :: as) ++ mid)) ((entry a).2 ++ (paysK as ++ post)) vo
        (by rw [hb]; simp [paysK]) (by simp [wordsK_length]; omega), jeType_entry a hla]
      exact kasScalar_spec a hga.1.2 f (by omega) _
    · rw [jeLen_entry a hla]
      exact kasItemsK_spec as hga.2 f (by omega) buf (pre ++ u32be (entry a).1) (mid ++ (entry a).2) post _ _
        (by rw [hb]; simp [wordsK, paysK]) (by simp; omega) (by simp [elen]; omega)
end

theorem paysL_length_le : (vs : List JV) → goodL vs = true → (paysL vs).length ≤ vs.length * 268435456
  | [], _ => by simp [paysL]
  | v :: vs, hg => by
    simp only [goodL, Bool.and_eq_true] at hg
    have h1 := elen_lt_of_good v hg.1
    have h2 := paysL_length_le vs hg.2
    simp only [paysL, List.length_append, List.length_cons]
    simp only [elen] at h1
    omega

theorem paysK_length_le : (kvs : List (Bytes × JV)) → goodK kvs = true →
    (paysK kvs).length ≤ kvs.length * 268435456 ∧ (keyBytes kvs).length ≤ kvs.length * 268435456
  | [], _ => by simp [paysK, keyBytes]
  | (k, v) :: kvs, hg => by
    simp only [goodK, Bool.and_eq_true, decide_eq_true_eq] at hg
    have h1 := elen_lt_of_good v hg.1.2
    have h2 := paysK_length_le kvs hg.2
    have h3 := hg.1.1.1
    simp only [paysK, keyBytes, List.length_append, List.length_cons]
    simp only [elen] at h1
    omega

/-- an encoded good document is far below the size limit of a Rust slice -/
theorem encodeSpec_length_lt (v : JV) (hg : goodTop v = true) : (encodeSpec v).length < 9223372036854775808 := by
  cases hs : Spec.isScalarJ v
  · rcases Fn.container_cases v hs with ⟨vs, rfl⟩ | ⟨kvs, rfl⟩
    · have ⟨hn, hgl⟩ := Fn.goodTop_arr hg
      have := paysL_length_le vs hgl
      simp only [Fn.encodeSpec_arr, List.length_append, u32be_length, wordsL_length]
      omega
    · have ⟨hn, hgk⟩ := Fn.goodTop_obj hg
      have := paysK_length_le kvs hgk
      simp only [Fn.encodeSpec_obj, List.length_append, u32be_length, wordsK_length, keyWords_length]
      omega
  · have hgv := Fn.goodTop_scalar v hs hg
    have := elen_lt_of_good v hgv
    simp only [Fn.encodeSpec_scalar v hs, List.length_append, u32be_length]
    simp only [elen] at this
    omega

/-- **the precondition holds on the encoding of every good document** -/
theorem keysAreStrings_encodeSpec (v : JV) (hg : goodTop v = true) : KeysAreStrings (encodeSpec v) = true := by
  cases hs : Spec.isScalarJ v
  · rcases Fn.container_cases v hs with ⟨vs, rfl⟩ | ⟨kvs, rfl⟩
    · have ⟨hn, hgl⟩ := Fn.goodTop_arr hg
      have hc := Fn.costL_le vs
      rw [Fn.encodeSpec_arr, KeysAreStrings, readU32At_zero _ _ (arr_header_lt _ hn)]
      simp only [hdrType_arr _ hn]
      rw [if_neg (by decide)]
      obtain ⟨F, hF⟩ : ∃ m, (u32be (C.ARRAY_CONTAINER_TAG + vs.length) ++ (wordsL vs ++ paysL vs)).length + 8 = m + 1 :=
        ⟨_, rfl⟩
      rw [hF, kasContainer, readU32At_zero _ _ (arr_header_lt _ hn)]
      simp only [hdrType_arr _ hn, hdrLen_arr _ hn, if_true]
      exact kasItems_spec vs hgl F (by simp only [List.length_append, u32be_length, wordsL_length] at hF; omega)
        _ [] [] [] 0 _ (by simp [u32be]) (by simp) (by simp)
    · have ⟨hn, hgk⟩ := Fn.goodTop_obj hg
      have hc := Fn.costK_le kvs
      rw [Fn.encodeSpec_obj, KeysAreStrings, readU32At_zero _ _ (obj_header_lt _ hn)]
      simp only [hdrType_obj _ hn]
      rw [if_neg (by decide)]
      obtain ⟨F, hF⟩ : ∃ m, (u32be (C.OBJECT_CONTAINER_TAG + kvs.length) ++
          (keyWords kvs ++ (wordsK kvs ++ (keyBytes kvs ++ paysK kvs)))).length + 8 = m + 2 := ⟨_, rfl⟩
      rw [hF, kasContainer, readU32At_zero _ _ (obj_header_lt _ hn)]
      simp only [hdrType_obj _ hn, hdrLen_obj _ hn]
      rw [if_neg (by decide)]
      simp only [if_true]
      rw [kasObject]
      have e0 : List.drop 4 (u32be (C.OBJECT_CONTAINER_TAG + kvs.length) ++ (keyWords kvs ++ (wordsK kvs ++ (keyBytes kvs ++ paysK kvs))))
          = keyWords kvs ++ (wordsK kvs ++ (keyBytes kvs ++ paysK kvs)) := by simp [u32be]
      rw [e0]
      have fk := fillKeyEntries_spec kvs hgk [] (wordsK kvs ++ (keyBytes kvs ++ paysK kvs)) 0 (8 * kvs.length) rfl
      simp only [List.nil_append, Nat.zero_add] at fk
      rw [fk]
      simp only [Bool.and_eq_true, List.all_eq_true, List.mem_map, beq_iff_eq]
      refine ⟨?_, ?_⟩
      · rintro x ⟨kv, _, rfl⟩; rfl
      · exact kasItemsK_spec kvs hgk F
          (by simp only [List.length_append, u32be_length, wordsK_length, keyWords_length] at hF; omega)
          _ (keyWords kvs) (keyBytes kvs) [] _ _ (by simp) (by simp [keyWords_length]) (by simp [keyWords_length]; omega)
  · have hgv := Fn.goodTop_scalar v hs hg
    have hl := elen_lt_of_good v hgv
    rw [Fn.encodeSpec_scalar v hs, KeysAreStrings, readU32At_zero _ _ Fn.sca_lt]
    simp only [hdrType_sca, if_true]
    rw [readU32At_mid (u32be C.SCALAR_CONTAINER_TAG) _ _ 4 (by simp) (entry_lt v hl)]
    simp only []
    have e0 : List.drop 8 (u32be C.SCALAR_CONTAINER_TAG ++ (u32be (entry v).1 ++ (entry v).2)) = (entry v).2 ++ [] := by
      rw [← List.append_assoc, List.append_nil]
      exact drop_eq _ (u32be C.SCALAR_CONTAINER_TAG ++ u32be (entry v).1) _ 8 rfl (by simp)
    rw [e0, jeType_entry v hl]
    have hc : Fn.cost v = 1 := by cases v <;> first | rfl | simp [Spec.isScalarJ] at hs
    exact kasScalar_spec v hgv _ (by omega) []

/-- **C04, source-level corollary**: on the encodings of two good documents (that `is_jsonb` recognises: top-level
counts below `2^24`, `isJsonb_encodeSpec`) the translated `compare` IS the model's `compareDocs`, for every
adequate fuel and whatever the text branches hold -/
theorem compare_encodeSpec_agrees (a b : JV) (ha : goodTop a = true) (hb : goodTop b = true)
    (hja : isJsonb (encodeSpec a) = true) (hjb : isJsonb (encodeSpec b) = true)
    (fuel : Nat) (hfuel : (encodeSpec a).length + (encodeSpec b).length + 8 < fuel) (t1 t2 t3 : Res Ordering) :
    Tr.compare fuel (encodeSpec a) (encodeSpec b) t1 t2 t3 = Fn.compareDocs (encodeSpec a) (encodeSpec b) := by
  have hr := Fn.compareDocs_refines a b ha hb
  refine panicAny_eq _ _ (compare_jsonb_agrees fuel _ _ t1 t2 t3 hja hjb hfuel (encodeSpec_length_lt a ha)
    (encodeSpec_length_lt b hb) (keysAreStrings_encodeSpec a ha) (keysAreStrings_encodeSpec b hb) ?_) ?_
  · rw [hr]; exact fun c => by cases c
  · rw [hr]; rfl

/-- the same, with the documented order of the trees on the right -/
theorem compare_encodeSpec_spec (a b : JV) (ha : goodTop a = true) (hb : goodTop b = true)
    (hja : isJsonb (encodeSpec a) = true) (hjb : isJsonb (encodeSpec b) = true)
    (fuel : Nat) (hfuel : (encodeSpec a).length + (encodeSpec b).length + 8 < fuel) (t1 t2 t3 : Res Ordering) :
    Tr.compare fuel (encodeSpec a) (encodeSpec b) t1 t2 t3 = .ok (Spec.cmpJV (norm a) (norm b)) := by
  rw [compare_encodeSpec_agrees a b ha hb hja hjb fuel hfuel, Fn.compareDocs_refines a b ha hb]

end Jsonb.TrAgree
