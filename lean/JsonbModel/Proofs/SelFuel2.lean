/-
Quantitative fuel adequacy for the JSONPath selector, part 2: a cost semantics for the model.

The fuel of `Sel.findPositions` / `walk` / `filterAll` / `filterExpr` is a *depth* budget: every
call passes `fuel - 1` to each of its callees.  `wcost b a paths` bounds the depth `walk` needs on
a frontier of at most `a` positions when one step multiplies a frontier by at most `b`:
one unit per path element, `a + 2 + fecost e` for a filter (`filterAll` spends one unit per
position), and a nested `exists(paths)` restarts from a single position.
Main result: with fuel at least the cost, the model never answers "out of fuel"
(`walk_adequate`, `filterExpr_adequate`, `findPositions_adequate`).
No Mathlib.
-/
import JsonbModel.Proofs.SelFuel1

namespace Jsonb
open JV Sel

/-- frontier multiplier of a path element: `b` for a step, `1` for `$`, `@` and filters -/
def pmul (b : Nat) (p : Path) : Nat := if isPlain p then b else 1

mutual
/-- depth spent on one path element over a frontier of at most `a` positions -/
def pcost (b : Nat) : Nat → Path → Nat
  | a, .filterExpr e => a + 2 + fecost b e
  | a, .predicate e => a + 2 + fecost b e
  | _, _ => 1
/-- depth `filterExpr` needs on one position -/
def fecost (b : Nat) : Expr → Nat
  | .binaryOp _ l r => 1 + fecost b l + fecost b r
  | .existsFn ps => 2 + wcost b 1 ps
  | _ => 1
/-- depth `walk` needs on a frontier of at most `a` positions -/
def wcost (b : Nat) : Nat → List Path → Nat
  | _, [] => 1
  | a, p :: ps => pcost b a p + wcost b (a * pmul b p) ps
end

theorem wcost_nil (b a : Nat) : wcost b a [] = 1 := by simp only [wcost]

theorem wcost_cons (b a : Nat) (p : Path) (ps : List Path) :
    wcost b a (p :: ps) = pcost b a p + wcost b (a * pmul b p) ps := by simp only [wcost]

theorem fecost_pos (b : Nat) (e : Expr) : 1 ≤ fecost b e := by
  cases e <;> simp only [fecost] <;> omega

theorem pcost_step (b a : Nat) (p : Path) (hp : isStep p = true) : pcost b a p = 1 := by
  cases p <;> first | (simp [isStep] at hp; done) | simp only [pcost]

theorem pmul_step (b : Nat) (p : Path) (hp : isStep p = true) : pmul b p = b := by
  simp [pmul, isStep_isPlain p hp]

/-! ### the statements -/

/-- with fuel ≥ `wcost`, `walk` does not run out of fuel on a representing frontier of ≤ `a` positions -/
def WalkAdq (v₀ : JV) (b : Nat) (paths : List Path) : Prop :=
  ∀ (ps : List Pos) (ws : List JV) (a : Nat), Sel.RepL (encodeSpec v₀) ps ws → ps.length ≤ a →
    ∀ F, wcost b a paths ≤ F → walk F (encodeSpec v₀) paths ps ≠ .fuel

def FEAdq (v₀ : JV) (b : Nat) (e : Expr) : Prop :=
  ∀ (pos : Pos) (w : JV), Sel.Rep (encodeSpec v₀) pos w →
    ∀ F, fecost b e ≤ F → filterExpr F (encodeSpec v₀) pos e ≠ .fuel

theorem walkAdq_nil (v₀ : JV) (b : Nat) : WalkAdq v₀ b [] := by
  intro ps ws a _ _ F hF
  rw [wcost_nil] at hF
  obtain ⟨F', rfl⟩ : ∃ F', F = F' + 1 := ⟨F - 1, by omega⟩
  simp [walk]

theorem walkAdq_root (v₀ : JV) (b : Nat) (rest : List Path) (ih : WalkAdq v₀ b rest) :
    WalkAdq v₀ b (.root :: rest) := by
  intro ps ws a hr hl F hF
  rw [wcost_cons] at hF
  simp only [pcost, pmul, isPlain, Bool.false_eq_true, if_false, Nat.mul_one] at hF
  obtain ⟨F', rfl⟩ : ∃ F', F = F' + 1 := ⟨F - 1, by omega⟩
  rw [walk_root]
  exact ih ps ws a hr hl F' (by omega)

theorem walkAdq_current (v₀ : JV) (b : Nat) (rest : List Path) (ih : WalkAdq v₀ b rest) :
    WalkAdq v₀ b (.current :: rest) := by
  intro ps ws a hr hl F hF
  rw [wcost_cons] at hF
  simp only [pcost, pmul, isPlain, Bool.false_eq_true, if_false, Nat.mul_one] at hF
  obtain ⟨F', rfl⟩ : ∃ F', F = F' + 1 := ⟨F - 1, by omega⟩
  rw [walk_current]
  exact ih ps ws a hr hl F' (by omega)

/-- a step: one unit, and the frontier grows by at most `b` -/
theorem walkAdq_step (v₀ : JV) (b : Nat) (p : Path) (hp : isStep p = true)
    (hmul : stepMul (encodeSpec v₀).length p ≤ b) (rest : List Path) (ih : WalkAdq v₀ b rest) :
    WalkAdq v₀ b (p :: rest) := by
  intro ps ws a hr hl F hF
  rw [wcost_cons, pcost_step b a p hp, pmul_step b p hp] at hF
  obtain ⟨F', rfl⟩ : ∃ F', F = F' + 1 := ⟨F - 1, by omega⟩
  obtain ⟨ps1, h1, h2, h3⟩ := stepAll_length (encodeSpec v₀) p hp ps ws hr
  rw [walk_plain _ _ p (isStep_isPlain p hp), h1]
  refine ih ps1 _ (a * b) h2 ?_ F' (by omega)
  exact Nat.le_trans h3 (Nat.mul_le_mul hl hmul)

/-- the whole frontier can be filtered with `length + 1 + fecost` units -/
theorem filterAll_adequate (v₀ : JV) (b : Nat) (e : Expr) (hfe : FEAdq v₀ b e) :
    ∀ (ps : List Pos) (ws : List JV), Sel.RepL (encodeSpec v₀) ps ws →
      ∀ F, ps.length + 1 + fecost b e ≤ F → filterAll F (encodeSpec v₀) e ps ≠ .fuel
  | [], _, _, F, hF => by
    obtain ⟨F', rfl⟩ : ∃ F', F = F' + 1 := ⟨F - 1, by omega⟩
    simp [filterAll]
  | _ :: _, [], h, _, _ => h.elim
  | pos :: rest, w :: ws, h, F, hF => by
    simp only [List.length_cons] at hF
    obtain ⟨F', rfl⟩ : ∃ F', F = F' + 1 := ⟨F - 1, by omega⟩
    have h1 := hfe pos w h.1 F' (by omega)
    have h2 := filterAll_adequate v₀ b e hfe rest ws h.2 F' (by omega)
    rw [filterAll_cons]
    cases hk : filterExpr F' (encodeSpec v₀) pos e with
    | ok keep =>
      simp only []
      cases hr : filterAll F' (encodeSpec v₀) e rest with
      | ok r => simp
      | err er => simp
      | panic s => simp
      | fuel => exact absurd hr h2
    | err er => simp
    | panic s => simp
    | fuel => exact absurd hk h1

/-- a filter: `a + 2 + fecost e` units, and the frontier does not grow -/
theorem walkAdq_filter (v₀ : JV) (hg : goodTop v₀ = true) (b : Nat) (p : Path) (e : Expr)
    (hpe : p = .filterExpr e ∨ p = .predicate e) (hok : okExpr e = true) (hfe : FEAdq v₀ b e)
    (rest : List Path) (ih : WalkAdq v₀ b rest) : WalkAdq v₀ b (p :: rest) := by
  intro ps ws a hr hl F hF
  rw [wcost_cons] at hF
  have hpc : pcost b a p = a + 2 + fecost b e := by rcases hpe with rfl | rfl <;> simp only [pcost]
  have hpm : pmul b p = 1 := by rcases hpe with rfl | rfl <;> simp [pmul, isPlain]
  rw [hpc, hpm, Nat.mul_one] at hF
  obtain ⟨F', rfl⟩ : ∃ F', F = F' + 1 := ⟨F - 1, by omega⟩
  have h1 := filterAll_adequate v₀ b e hfe ps ws hr F' (by omega)
  rw [walk_filter _ _ p e hpe]
  cases hfa : filterAll F' (encodeSpec v₀) e ps with
  | ok ps1 =>
    simp only []
    obtain ⟨ws1, hr1, _⟩ := (select_main v₀ hg F').2.2.1 e ps ws ps1 hfa hok hr
    have hl1 := filterAll_length _ e F' ps ps1 hfa
    exact ih ps1 ws1 a hr1 (by omega) F' (by omega)
  | err er => simp
  | panic s => simp
  | fuel => exact absurd hfa h1

/-! ### expressions -/

theorem logic2_ne_fuel (g : Bool → Bool → Bool) {L R : Res Bool} (hL : L ≠ .fuel) (hR : R ≠ .fuel) :
    logic2 g L R ≠ .fuel := by
  cases L <;> cases R <;> first | (exact absurd rfl hL) | (exact absurd rfl hR) | simp [logic2]

theorem feAdq_logic (v₀ : JV) (b : Nat) (op : BinOp) (hlg : isLogic op = true) (l r : Expr)
    (hl : FEAdq v₀ b l) (hr : FEAdq v₀ b r) : FEAdq v₀ b (.binaryOp op l r) := by
  intro pos w hrep F hF
  simp only [fecost] at hF
  obtain ⟨F', rfl⟩ : ∃ F', F = F' + 1 := ⟨F - 1, by omega⟩
  have h1 := hl pos w hrep F' (by omega)
  have h2 := hr pos w hrep F' (by omega)
  have hop : op = .and ∨ op = .or := by cases op <;> simp_all [isLogic]
  rcases hop with rfl | rfl
  · rw [filterExpr_and]; exact logic2_ne_fuel _ h1 h2
  · rw [filterExpr_or]; exact logic2_ne_fuel _ h1 h2

theorem feAdq_cmp (v₀ : JV) (hg : goodTop v₀ = true) (b : Nat) (op : BinOp) (hlg : isLogic op = false)
    (l r : Expr) (hl : suppOperand l = true) (hr : suppOperand r = true) :
    FEAdq v₀ b (.binaryOp op l r) := by
  intro pos w hrep F hF
  simp only [fecost] at hF
  have := fecost_pos b l
  have := fecost_pos b r
  obtain ⟨F', rfl⟩ : ∃ F', F = F' + 2 := ⟨F - 2, by omega⟩
  have hand : op ≠ .and := by intro h; subst h; simp [isLogic] at hlg
  have hor : op ≠ .or := by intro h; subst h; simp [isLogic] at hlg
  obtain ⟨lv, hlv⟩ := exprVal_total v₀ hg F' pos w l hl hrep
  obtain ⟨rv, hrv⟩ := exprVal_total v₀ hg F' pos w r hr hrep
  obtain ⟨c, hc⟩ := anyPair_total op hand hor lv rv
  rw [filterExpr_cmp (F' + 1) _ pos op hand hor, hlv, hrv]
  simp [hc]

theorem feAdq_exists (v₀ : JV) (hg : goodTop v₀ = true) (b : Nat) (paths : List Path)
    (hw : WalkAdq v₀ b paths) : FEAdq v₀ b (.existsFn paths) := by
  intro pos w hrep F hF
  simp only [fecost] at hF
  obtain ⟨F', rfl⟩ : ∃ F', F = F' + 2 := ⟨F - 2, by omega⟩
  have hst := startOf_exprStart (encodeSpec v₀) pos paths
  have hrs := startOf_rep v₀ hg (some pos) (some w) paths _ hst hrep
  have hF' := hw [exprStart (encodeSpec v₀) pos paths] [sstartOf v₀ (some w) paths] 1 ⟨hrs, trivial⟩
    (by simp) F' (by omega)
  rw [filterExpr_exists, findPositions_succ, hst]
  simp only []
  cases hwk : walk F' (encodeSpec v₀) paths [exprStart (encodeSpec v₀) pos paths] with
  | ok ps => simp [Res.map, Res.bind]
  | err er => simp [Res.map, Res.bind]
  | panic s => simp [Res.map, Res.bind]
  | fuel => exact absurd hwk hF'

theorem feAdq_other (v₀ : JV) (b : Nat) (e : Expr)
    (he : (∃ ps, e = .paths ps) ∨ (∃ pv, e = .value pv) ∨ (∃ op e', e = .arithUnary op e') ∨
      (∃ op l r, e = .arithBinary op l r)) : FEAdq v₀ b e := by
  intro pos w _ F hF
  have := fecost_pos b e
  obtain ⟨F', rfl⟩ : ∃ F', F = F' + 1 := ⟨F - 1, by omega⟩
  rcases he with ⟨ps, rfl⟩ | ⟨pv, rfl⟩ | ⟨op, e', rfl⟩ | ⟨op, l, r, rfl⟩ <;> simp [filterExpr]

/-! ### the mutual induction over the path AST -/

theorem stepMul_le (L I : Nat) (p : Path) (h : pathIdx p ≤ I) : stepMul L p ≤ (L + 1) * (I + 1) :=
  Nat.mul_le_mul_left _ (by omega)

mutual
/-- **`walk` with fuel ≥ `wcost`** never answers "out of fuel" -/
theorem walk_adequate (v₀ : JV) (hg : goodTop v₀ = true) (I b : Nat)
    (hb : ((encodeSpec v₀).length + 1) * (I + 1) ≤ b) :
    (paths : List Path) → suppPaths paths = true → pathsIdx paths ≤ I → WalkAdq v₀ b paths
  | [], _, _ => walkAdq_nil v₀ b
  | .root :: rest, hs, hI => by
    simp only [suppPaths, Bool.and_eq_true] at hs
    simp only [pathsIdx, pathIdx] at hI
    exact walkAdq_root v₀ b rest (walk_adequate v₀ hg I b hb rest hs.2 (by omega))
  | .current :: rest, hs, hI => by
    simp only [suppPaths, Bool.and_eq_true] at hs
    simp only [pathsIdx, pathIdx] at hI
    exact walkAdq_current v₀ b rest (walk_adequate v₀ hg I b hb rest hs.2 (by omega))
  | .dotWildcard :: rest, hs, hI => by
    simp only [suppPaths, Bool.and_eq_true] at hs
    simp only [pathsIdx, pathIdx] at hI
    exact walkAdq_step v₀ b _ rfl (Nat.le_trans (stepMul_le _ I _ (by simp [pathIdx])) hb) rest
      (walk_adequate v₀ hg I b hb rest hs.2 (by omega))
  | .bracketWildcard :: rest, hs, hI => by
    simp only [suppPaths, Bool.and_eq_true] at hs
    simp only [pathsIdx, pathIdx] at hI
    exact walkAdq_step v₀ b _ rfl (Nat.le_trans (stepMul_le _ I _ (by simp [pathIdx])) hb) rest
      (walk_adequate v₀ hg I b hb rest hs.2 (by omega))
  | .dotField nm :: rest, hs, hI => by
    simp only [suppPaths, Bool.and_eq_true] at hs
    simp only [pathsIdx, pathIdx] at hI
    exact walkAdq_step v₀ b _ rfl (Nat.le_trans (stepMul_le _ I _ (by simp [pathIdx])) hb) rest
      (walk_adequate v₀ hg I b hb rest hs.2 (by omega))
  | .colonField nm :: rest, hs, hI => by
    simp only [suppPaths, Bool.and_eq_true] at hs
    simp only [pathsIdx, pathIdx] at hI
    exact walkAdq_step v₀ b _ rfl (Nat.le_trans (stepMul_le _ I _ (by simp [pathIdx])) hb) rest
      (walk_adequate v₀ hg I b hb rest hs.2 (by omega))
  | .objectField nm :: rest, hs, hI => by
    simp only [suppPaths, Bool.and_eq_true] at hs
    simp only [pathsIdx, pathIdx] at hI
    exact walkAdq_step v₀ b _ rfl (Nat.le_trans (stepMul_le _ I _ (by simp [pathIdx])) hb) rest
      (walk_adequate v₀ hg I b hb rest hs.2 (by omega))
  | .arrayIndices is :: rest, hs, hI => by
    simp only [suppPaths, Bool.and_eq_true] at hs
    simp only [pathsIdx, pathIdx] at hI
    exact walkAdq_step v₀ b _ rfl (Nat.le_trans (stepMul_le _ I _ (by simp only [pathIdx]; omega)) hb) rest
      (walk_adequate v₀ hg I b hb rest hs.2 (by omega))
  | .arithmeticExpr e :: rest, hs, _ => by simp [suppPaths, suppPath] at hs
  | .filterExpr e :: rest, hs, hI => by
    simp only [suppPaths, suppPath, Bool.and_eq_true] at hs
    simp only [pathsIdx, pathIdx] at hI
    exact walkAdq_filter v₀ hg b _ e (.inl rfl) (suppFilter_ok e hs.1)
      (filterExpr_adequate v₀ hg I b hb e hs.1 (by omega)) rest
      (walk_adequate v₀ hg I b hb rest hs.2 (by omega))
  | .predicate e :: rest, hs, hI => by
    simp only [suppPaths, suppPath, Bool.and_eq_true] at hs
    simp only [pathsIdx, pathIdx] at hI
    exact walkAdq_filter v₀ hg b _ e (.inr rfl) (suppFilter_ok e hs.1)
      (filterExpr_adequate v₀ hg I b hb e hs.1 (by omega)) rest
      (walk_adequate v₀ hg I b hb rest hs.2 (by omega))
/-- **`filterExpr` with fuel ≥ `fecost`** never answers "out of fuel" -/
theorem filterExpr_adequate (v₀ : JV) (hg : goodTop v₀ = true) (I b : Nat)
    (hb : ((encodeSpec v₀).length + 1) * (I + 1) ≤ b) :
    (e : Expr) → suppFilter e = true → exprIdx e ≤ I → FEAdq v₀ b e
  | .binaryOp op l r, hs, hI => by
    simp only [suppFilter] at hs
    simp only [exprIdx] at hI
    by_cases hlg : isLogic op = true
    · rw [if_pos hlg] at hs
      simp only [Bool.and_eq_true] at hs
      exact feAdq_logic v₀ b op hlg l r (filterExpr_adequate v₀ hg I b hb l hs.1 (by omega))
        (filterExpr_adequate v₀ hg I b hb r hs.2 (by omega))
    · rw [if_neg hlg] at hs
      simp only [Bool.and_eq_true] at hs
      exact feAdq_cmp v₀ hg b op (by simpa using hlg) l r hs.1 hs.2
  | .existsFn paths, hs, hI => by
    simp only [suppFilter] at hs
    simp only [exprIdx] at hI
    exact feAdq_exists v₀ hg b paths (walk_adequate v₀ hg I b hb paths hs hI)
  | .paths ps, _, _ => feAdq_other v₀ b _ (.inl ⟨ps, rfl⟩)
  | .value pv, _, _ => feAdq_other v₀ b _ (.inr (.inl ⟨pv, rfl⟩))
  | .arithUnary op e, _, _ => feAdq_other v₀ b _ (.inr (.inr (.inl ⟨op, e, rfl⟩)))
  | .arithBinary op l r, _, _ => feAdq_other v₀ b _ (.inr (.inr (.inr ⟨op, l, r, rfl⟩)))
end

/-- **`find_positions` with fuel ≥ `1 + wcost b 1 jp`** never answers "out of fuel"
(`b` ≥ (document length + 1) × (index entries of the path + 1)) -/
theorem findPositions_adequate (v₀ : JV) (hg : goodTop v₀ = true) (I b : Nat)
    (hb : ((encodeSpec v₀).length + 1) * (I + 1) ≤ b) (jp : JsonPath) (hs : suppPaths jp = true)
    (hI : pathsIdx jp ≤ I) (hhead : jp.head? ≠ some .current) (F : Nat) (hF : 1 + wcost b 1 jp ≤ F) :
    findPositions F (encodeSpec v₀) none jp ≠ .fuel := by
  obtain ⟨F', rfl⟩ : ∃ F', F = F' + 1 := ⟨F - 1, by omega⟩
  obtain ⟨start, hst⟩ := startOf_total (encodeSpec v₀) none jp (fun _ => hhead)
  have hrs := startOf_rep v₀ hg none none jp start hst trivial
  rw [findPositions_succ, hst]
  exact walk_adequate v₀ hg I b hb jp hs hI [start] [sstartOf v₀ none jp] 1 ⟨hrs, trivial⟩ (by simp) F'
    (by omega)

end Jsonb
