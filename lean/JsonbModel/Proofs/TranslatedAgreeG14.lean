/-
Agreement theorems, phase 6a, part 14: `JsonPath::is_predicate` and the public methods `Selector::select` (the four
modes), `Selector::exists`, `Selector::predicate_match` = `Sel.select` / `Sel.exists_` / `Sel.predicateMatch`.
-/
import JsonbModel.Proofs.TranslatedAgreeG13

set_option linter.unusedSimpArgs false
set_option linter.unusedVariables false

namespace Jsonb.TrAgree
open Jsonb.Rs

def ofMode : Sel.Mode → Tr.Mode
  | .first => .First
  | .array => .Array
  | .all => .All
  | .mixed => .Mixed

/-- the translated `Selector { json_path, mode }` -/
def selOf (jp : JsonPath) (mode : Sel.Mode) : Tr.Selector := ⟨⟨ofPaths jp⟩, ofMode mode⟩

theorem is_predicate_agrees (jp : JsonPath) : Tr.JsonPath.is_predicate ⟨ofPaths jp⟩ = .ok (Sel.isPredicate jp) := by
  unfold Tr.JsonPath.is_predicate Sel.isPredicate
  cases jp with
  | nil => simp [ofPaths, Rs.len, Ctl.run]
  | cons p rest =>
    cases rest with
    | nil => cases p <;> simp [ofPaths, ofPath, Rs.len, Rs.indexVec, Ctl.ofRes, Ctl.run]
    | cons q rest =>
      have : ¬ ((((ofPaths (p :: q :: rest)).length : Nat) : Int) = 1) := by simp [ofPaths]; omega
      simp [Rs.len, this, Ctl.run]

/-! ## exists, predicate_match -/

theorem exists_agrees (jp : JsonPath) (mode : Sel.Mode) (root : Bytes) (fuel : Nat) (hok : PathsOK jp)
    (hlen : root.length < 9223372036854775808) (hne : Sel.findPositions fuel root none jp ≠ .fuel) :
    AgR (fun b => b) (Tr.Selector.exists fuel (selOf jp mode) root) (Sel.exists_ jp root fuel) := by
  unfold Tr.Selector.exists Sel.exists_ selOf
  simp only [is_predicate_agrees, Ctl.ofRes_ok', Ctl.val_bind']
  cases hp : Sel.isPredicate jp with
  | true => right; rfl
  | false =>
    simp only [Bool.false_eq_true, if_false, Ctl.pure_eq', Ctl.val_bind']
    have h := find_positions_agrees fuel fuel (selOf jp mode) root none jp (Nat.le_refl _) hok hlen hne
    simp only [Option.map_none, selOf] at h
    rcases h with h | h
    · left; rw [h]; rfl
    · right
      cases hm : Sel.findPositions fuel root none jp with
      | ok ps => rw [hm] at h; simp only [] at h; rw [h]; simp [Ctl.ofRes, Ctl.run, Res.map, Res.bind, isEmpty_map_g]
      | err e => rw [hm] at h; simp only [] at h; rw [h]; rfl
      | panic s => rw [hm] at h; obtain ⟨t, ht⟩ := h; exact ⟨t, by rw [ht]; rfl⟩
      | fuel => exact absurd hm hne

theorem predicate_match_agrees (jp : JsonPath) (mode : Sel.Mode) (root : Bytes) (fuel : Nat) (hok : PathsOK jp)
    (hlen : root.length < 9223372036854775808) (hne : Sel.findPositions fuel root none jp ≠ .fuel) :
    AgR (fun b => b) (Tr.Selector.predicate_match fuel (selOf jp mode) root) (Sel.predicateMatch jp root fuel) := by
  unfold Tr.Selector.predicate_match Sel.predicateMatch selOf
  simp only [is_predicate_agrees, Ctl.ofRes_ok', Ctl.val_bind']
  cases hp : Sel.isPredicate jp with
  | false => right; rfl
  | true =>
    simp only [Bool.not_true, Bool.false_eq_true, if_false, Ctl.pure_eq', Ctl.val_bind']
    have h := find_positions_agrees fuel fuel (selOf jp mode) root none jp (Nat.le_refl _) hok hlen hne
    simp only [Option.map_none, selOf] at h
    rcases h with h | h
    · left; rw [h]; rfl
    · right
      cases hm : Sel.findPositions fuel root none jp with
      | ok ps => rw [hm] at h; simp only [] at h; rw [h]; simp [Ctl.ofRes, Ctl.run, Res.map, Res.bind, isEmpty_map_g]
      | err e => rw [hm] at h; simp only [] at h; rw [h]; rfl
      | panic s => rw [hm] at h; obtain ⟨t, ht⟩ := h; exact ⟨t, by rw [ht]; rfl⟩
      | fuel => exact absurd hm hne

/-! ## select -/

/-- the writer part of `select` on a frontier -/
def writeOut (jp : JsonPath) (mode : Sel.Mode) (root : Bytes) (ps : List Sel.Pos) (data : Bytes) (offs : List Nat) :
    Res (Bytes × List Nat) :=
  if Sel.isPredicate jp then
    .ok (data ++ (u32be C.SCALAR_CONTAINER_TAG ++ u32be (if ps.isEmpty then C.FALSE_TAG else C.TRUE_TAG)), offs)
  else
    match mode with
    | .all => Sel.buildValues root ps data offs
    | .first => Sel.buildValues root (ps.take 1) data offs
    | .array => Sel.buildArrayOf root ps data offs
    | .mixed => if ps.length > 1 then Sel.buildArrayOf root ps data offs else Sel.buildValues root ps data offs

theorem select_eq (jp : JsonPath) (mode : Sel.Mode) (root data : Bytes) (offs : List Nat) (fuel : Nat) :
    Sel.select jp mode root data offs fuel =
      (Sel.findPositions fuel root none jp).bind (fun ps => writeOut jp mode root ps data offs) := by
  unfold Sel.select writeOut
  cases Sel.findPositions fuel root none jp <;> rfl

theorem truncate_one_g (ps : List Sel.Pos) : Rs.truncate (ps.map ofPos) (1 : Int) = (ps.take 1).map ofPos := by
  simp [Rs.truncate, List.map_take]

/-- the writer part of the translated `select`, on the model's frontier -/
theorem select_tail (jp : JsonPath) (mode : Sel.Mode) (root : Bytes) (ps : List Sel.Pos) (data : Bytes) (offs : List Nat)
    (hfit : ∀ p ∈ ps, PosFits p) (hsize : data.length + 4 + ps.length * (root.length + 8) < 18446744073709551616) :
    Ctl.run (do
      let tmp2 ← Ctl.ofRes (Tr.JsonPath.is_predicate (selOf jp mode).json_path)
      let (poses, data) ← (
        if tmp2 then do
          let (poses, data) ← Ctl.ofRes (Tr.Selector.build_predicate_result (ps.map ofPos) data)
          Ctl.ret (Res.ok (data, natsG offs))
        else do
          pure (ps.map ofPos, data))
      let (poses, data, offsets) ← (
        match (selOf jp mode).mode with
        | .All => do
          let (poses, data, offsets) ← Ctl.ofRes (Tr.Selector.build_values root poses data (natsG offs))
          pure (poses, data, offsets)
        | .First => do
          let poses := (Rs.truncate poses (1 : Int))
          let (poses, data, offsets) ← Ctl.ofRes (Tr.Selector.build_values root poses data (natsG offs))
          pure (poses, data, offsets)
        | .Array => do
          let (poses, data, offsets) ← Ctl.ofRes (Tr.Selector.build_scalar_array root poses data (natsG offs))
          pure (poses, data, offsets)
        | .Mixed => do
          let (poses, data, offsets) ← (
            if (decide ((Rs.len poses) > (1 : Int))) then do
              let (poses, data, offsets) ← Ctl.ofRes (Tr.Selector.build_scalar_array root poses data (natsG offs))
              pure (poses, data, offsets)
            else do
              let (poses, data, offsets) ← Ctl.ofRes (Tr.Selector.build_values root poses data (natsG offs))
              pure (poses, data, offsets))
          pure (poses, data, offsets))
      Ctl.ret (Res.ok (data, offsets))) =
    (writeOut jp mode root ps data offs).map (fun r => (r.1, natsG r.2)) := by
  have hmul : ps.length * (root.length + 8) = ps.length * (root.length + 4) + 4 * ps.length := by
    rw [Nat.mul_add, Nat.mul_add]; omega
  have htake : (ps.take 1).length ≤ ps.length := by simp
  have hmono : (ps.take 1).length * (root.length + 8) ≤ ps.length * (root.length + 8) := Nat.mul_le_mul_right _ htake
  unfold writeOut
  simp only [selOf, is_predicate_agrees, Ctl.ofRes_ok', Ctl.val_bind']
  cases hp : Sel.isPredicate jp with
  | true =>
    simp only [if_true, build_predicate_result_agrees, Ctl.ofRes_ok', Ctl.val_bind', Ctl.ret_bind', Ctl.run_ret']
    rfl
  | false =>
    simp only [Bool.false_eq_true, if_false, Ctl.pure_eq', Ctl.val_bind']
    cases mode with
    | all =>
      simp only [ofMode]
      rw [build_values_agrees root ps data offs hfit (by omega)]
      cases Sel.buildValues root ps data offs with
      | ok r => obtain ⟨d, o⟩ := r; rfl
      | err e => rfl
      | panic s => rfl
      | fuel => rfl
    | first =>
      simp only [ofMode, truncate_one_g]
      rw [build_values_agrees root (ps.take 1) data offs (fun p hp => hfit p (List.mem_of_mem_take hp)) (by omega)]
      cases Sel.buildValues root (ps.take 1) data offs with
      | ok r => obtain ⟨d, o⟩ := r; rfl
      | err e => rfl
      | panic s => rfl
      | fuel => rfl
    | array =>
      simp only [ofMode]
      rw [build_scalar_array_agrees root ps data offs hfit (by omega)]
      cases Sel.buildArrayOf root ps data offs with
      | ok r => obtain ⟨d, o⟩ := r; rfl
      | err e => rfl
      | panic s => rfl
      | fuel => rfl
    | mixed =>
      simp only [ofMode]
      have hl : Rs.len (ps.map ofPos) = ((ps.length : Nat) : Int) := by simp [Rs.len]
      rw [hl]
      by_cases h1 : ps.length > 1
      · have h1' : (((ps.length : Nat) : Int) > 1) := by omega
        simp only [h1, h1', decide_true, if_true]
        rw [build_scalar_array_agrees root ps data offs hfit (by omega)]
        cases Sel.buildArrayOf root ps data offs with
        | ok r => obtain ⟨d, o⟩ := r; rfl
        | err e => rfl
        | panic s => rfl
        | fuel => rfl
      · have h1' : ¬ (((ps.length : Nat) : Int) > 1) := by omega
        simp only [h1, h1', decide_false, Bool.false_eq_true, if_false]
        rw [build_values_agrees root ps data offs hfit (by omega)]
        cases Sel.buildValues root ps data offs with
        | ok r => obtain ⟨d, o⟩ := r; rfl
        | err e => rfl
        | panic s => rfl
        | fuel => rfl

/-- **`Selector::select`** (all four modes and the predicate result).  `hfit` / `hsize`: the positions of the model's
frontier are values of their Rust types (true of every frontier, `findPositions_fits` in part 15) and the output fits
a `usize` length -/
theorem select_agrees (jp : JsonPath) (mode : Sel.Mode) (root data : Bytes) (offs : List Nat) (fuel : Nat) (hok : PathsOK jp)
    (hlen : root.length < 9223372036854775808) (hne : Sel.findPositions fuel root none jp ≠ .fuel)
    (hfit : ∀ ps, Sel.findPositions fuel root none jp = .ok ps → ∀ p ∈ ps, PosFits p)
    (hsize : ∀ ps, Sel.findPositions fuel root none jp = .ok ps →
      data.length + 4 + ps.length * (root.length + 8) < 18446744073709551616) :
    AgR (fun r => (r.1, natsG r.2)) (Tr.Selector.select fuel (selOf jp mode) root data (natsG offs))
      (Sel.select jp mode root data offs fuel) := by
  rw [select_eq]
  unfold Tr.Selector.select
  have h := find_positions_agrees fuel fuel (selOf jp mode) root none jp (Nat.le_refl _) hok hlen hne
  simp only [Option.map_none] at h
  have hjp : (selOf jp mode).json_path.paths = ofPaths jp := rfl
  rw [hjp]
  rcases h with h | h
  · left; rw [h]; rfl
  · cases hm : Sel.findPositions fuel root none jp with
    | ok ps =>
      rw [hm] at h; simp only [] at h
      rw [h]
      simp only [Ctl.ofRes_ok', Ctl.val_bind', Res.bind]
      have ht := select_tail jp mode root ps data offs (hfit ps hm) (hsize ps hm)
      apply AgR.of_eq
      exact ht
    | err e => rw [hm] at h; simp only [] at h; right; rw [h]; rfl
    | panic s => rw [hm] at h; obtain ⟨t, ht⟩ := h; right; exact ⟨t, by rw [ht]; rfl⟩
    | fuel => exact absurd hm hne

end Jsonb.TrAgree
