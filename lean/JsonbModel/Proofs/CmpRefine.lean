/-
Refinement: the byte-level `compare` (`Fn.compareDocs`) on two encoded documents computes the
documented order `Spec.cmpJV` of the (normalised) trees.
-/
import JsonbModel.Functions.Order
import JsonbModel.Proofs.CmpLaws
import JsonbModel.Proofs.AccessRefine
import JsonbModel.Proofs.NumCodec

namespace Jsonb
open JV

namespace Fn

/-! ### One step of `compare_scalar`, branch by branch -/

theorem cmpScalar_level_ne (fuel : Nat) (lj : JE) (l : Bytes) (rj : JE) (r : Bytes)
    (h : level lj.ty ≠ level rj.ty) :
    cmpScalar (fuel + 1) lj l rj r = .ok (compare (level lj.ty) (level rj.ty)) := by
  rw [cmpScalar, if_pos h]

theorem cmpScalar_null (fuel : Nat) (lj : JE) (l : Bytes) (rj : JE) (r : Bytes)
    (h1 : lj.ty = C.NULL_TAG) (h2 : rj.ty = C.NULL_TAG) :
    cmpScalar (fuel + 1) lj l rj r = .ok .eq := by
  rw [cmpScalar, h1, h2]; simp

theorem cmpScalar_true (fuel : Nat) (lj : JE) (l : Bytes) (rj : JE) (r : Bytes)
    (h1 : lj.ty = C.TRUE_TAG) (h2 : rj.ty = C.TRUE_TAG) :
    cmpScalar (fuel + 1) lj l rj r = .ok .eq := by
  rw [cmpScalar, h1, h2]; simp [C.TRUE_TAG, C.NULL_TAG, C.CONTAINER_TAG, C.STRING_TAG, C.NUMBER_TAG]

theorem cmpScalar_false (fuel : Nat) (lj : JE) (l : Bytes) (rj : JE) (r : Bytes)
    (h1 : lj.ty = C.FALSE_TAG) (h2 : rj.ty = C.FALSE_TAG) :
    cmpScalar (fuel + 1) lj l rj r = .ok .eq := by
  rw [cmpScalar, h1, h2]
  simp [C.TRUE_TAG, C.FALSE_TAG, C.NULL_TAG, C.CONTAINER_TAG, C.STRING_TAG, C.NUMBER_TAG]

theorem cmpScalar_container (fuel : Nat) (lj : JE) (l : Bytes) (rj : JE) (r : Bytes)
    (h1 : lj.ty = C.CONTAINER_TAG) (h2 : rj.ty = C.CONTAINER_TAG) :
    cmpScalar (fuel + 1) lj l rj r = cmpContainer fuel l r := by
  rw [cmpScalar, h1, h2]
  simp [C.NULL_TAG, C.CONTAINER_TAG]

theorem cmpScalar_string (fuel : Nat) (lj : JE) (l : Bytes) (rj : JE) (r : Bytes) (s t : Bytes)
    (h1 : lj.ty = C.STRING_TAG) (h2 : rj.ty = C.STRING_TAG)
    (hs : slice l 0 lj.len = .ok s) (ht : slice r 0 rj.len = .ok t) :
    cmpScalar (fuel + 1) lj l rj r = .ok (lexCmp s t) := by
  rw [cmpScalar, h1, h2, hs, ht]
  simp [C.NULL_TAG, C.CONTAINER_TAG, C.STRING_TAG]

theorem cmpScalar_number (fuel : Nat) (lj : JE) (l : Bytes) (rj : JE) (r : Bytes) (s t : Bytes)
    (n m : Num) (h1 : lj.ty = C.NUMBER_TAG) (h2 : rj.ty = C.NUMBER_TAG)
    (hs : slice l 0 lj.len = .ok s) (ht : slice r 0 rj.len = .ok t)
    (hn : Num.dec s = .ok n) (hm : Num.dec t = .ok m) :
    cmpScalar (fuel + 1) lj l rj r = .ok (Num.cmp n m) := by
  rw [cmpScalar, h1, h2, hs, ht]
  simp [C.NULL_TAG, C.CONTAINER_TAG, C.STRING_TAG, C.NUMBER_TAG, hn, hm]

/-! ### One step of `compare_container` on container images -/

theorem sliceFrom_u32be (w : Nat) (rest : Bytes) : sliceFrom (u32be w ++ rest) 4 = .ok rest := by
  simp [sliceFrom]

theorem sliceFrom_pre (pre rest : Bytes) (n : Nat) (hn : n = pre.length) :
    sliceFrom (pre ++ rest) n = .ok rest := by
  subst hn; simp [sliceFrom]

theorem slice_zero (p rest : Bytes) (n : Nat) (hn : n = p.length) : slice (p ++ rest) 0 n = .ok p := by
  subst hn
  have := slice_mid [] p rest
  simpa using this

theorem cmpContainer_arr_arr (fuel : Nat) (as bs : List JV) (ha : as.length < 536870912)
    (hb : bs.length < 536870912) (ra rb : Bytes) :
    cmpContainer (fuel + 1) ((entry (arr as)).2 ++ ra) ((entry (arr bs)).2 ++ rb)
      = cmpArrayLoop fuel (wordsL as ++ (paysL as ++ ra)) (wordsL bs ++ (paysL bs ++ rb))
          (min as.length bs.length) 0 (4 * as.length) (4 * bs.length)
          (compare as.length bs.length) := by
  simp only [entry, List.append_assoc]
  rw [cmpContainer, readU32At_zero _ _ (arr_header_lt _ ha), readU32At_zero _ _ (arr_header_lt _ hb)]
  simp only [hdrType_arr _ ha, hdrType_arr _ hb, hdrLen_arr _ ha, hdrLen_arr _ hb, and_self, if_true,
    sliceFrom_u32be]

theorem cmpContainer_arr_obj (fuel : Nat) (as : List JV) (bs : List (Bytes × JV))
    (ha : as.length < 536870912) (hb : bs.length < 536870912) (ra rb : Bytes) :
    cmpContainer (fuel + 1) ((entry (arr as)).2 ++ ra) ((entry (obj bs)).2 ++ rb) = .ok .gt := by
  simp only [entry, List.append_assoc]
  rw [cmpContainer, readU32At_zero _ _ (arr_header_lt _ ha), readU32At_zero _ _ (obj_header_lt _ hb)]
  simp only [hdrType_arr _ ha, hdrType_obj _ hb]
  rw [if_neg (by decide), if_neg (by decide), if_pos (by decide)]

theorem cmpContainer_obj_arr (fuel : Nat) (as : List (Bytes × JV)) (bs : List JV)
    (ha : as.length < 536870912) (hb : bs.length < 536870912) (ra rb : Bytes) :
    cmpContainer (fuel + 1) ((entry (obj as)).2 ++ ra) ((entry (arr bs)).2 ++ rb) = .ok .lt := by
  simp only [entry, List.append_assoc]
  rw [cmpContainer, readU32At_zero _ _ (obj_header_lt _ ha), readU32At_zero _ _ (arr_header_lt _ hb)]
  simp only [hdrType_arr _ hb, hdrType_obj _ ha]
  rw [if_neg (by decide), if_neg (by decide), if_neg (by decide), if_pos (by decide)]

theorem cmpContainer_obj_obj (fuel : Nat) (as bs : List (Bytes × JV)) (ha : as.length < 536870912)
    (hb : bs.length < 536870912) (hga : goodK as = true) (hgb : goodK bs = true) (ra rb : Bytes) :
    cmpContainer (fuel + 2) ((entry (obj as)).2 ++ ra) ((entry (obj bs)).2 ++ rb)
      = cmpObjLoop fuel
          (keyWords as ++ (wordsK as ++ (keyBytes as ++ (paysK as ++ ra))))
          (keyWords bs ++ (wordsK bs ++ (keyBytes bs ++ (paysK bs ++ rb))))
          (min as.length bs.length)
          (as.map (fun kv => kv.1.length)) (bs.map (fun kv => kv.1.length))
          (8 * as.length) (8 * bs.length) (4 * as.length) (4 * bs.length)
          (8 * as.length + (keyBytes as).length) (8 * bs.length + (keyBytes bs).length)
          (compare as.length bs.length) := by
  simp only [entry, List.append_assoc]
  rw [cmpContainer, readU32At_zero _ _ (obj_header_lt _ ha), readU32At_zero _ _ (obj_header_lt _ hb)]
  simp only [hdrType_obj _ ha, hdrType_obj _ hb, and_self, if_true, sliceFrom_u32be]
  rw [if_neg (by decide)]
  rw [cmpObject]
  simp only [hdrLen_obj _ ha, hdrLen_obj _ hb]
  have fa := fillKeys_spec as hga [] (wordsK as ++ (keyBytes as ++ (paysK as ++ ra))) 0 (8 * as.length) rfl
  have fb := fillKeys_spec bs hgb [] (wordsK bs ++ (keyBytes bs ++ (paysK bs ++ rb))) 0 (8 * bs.length) rfl
  simp only [List.nil_append, Nat.zero_add] at fa fb
  rw [fa, fb]

/-! ### Reading a buffer presented as a concatenation -/

theorem sliceFrom_eq (buf X Y : Bytes) (n : Nat) (h : buf = X ++ Y) (hn : n = X.length) :
    sliceFrom buf n = .ok Y := by
  subst h; exact sliceFrom_pre X Y n hn

theorem readJe_eq (buf X : Bytes) (w : Nat) (Y : Bytes) (n : Nat) (h : buf = X ++ (u32be w ++ Y))
    (hn : n = X.length) (hw : w < 4294967296) : readJe buf n = .ok (JE.ofWord w) := by
  subst h; rw [readJe, readU32At_mid X w Y n hn hw]

/-! ### Levels versus ranks -/

theorem cmp_of_level_ne (a b : JV) (h : level (ety a) ≠ level (ety b)) :
    compare (level (ety a)) (level (ety b)) = Spec.cmpJV (norm a) (norm b) := by
  rcases a with _ | x | n | s | as | as <;> rcases b with _ | y | m | t | bs | bs
    <;> (try cases x) <;> (try cases y) <;> simp only [norm]
    <;> first | exact absurd rfl h | rfl

/-! ### Fuel -/

mutual
/-- fuel sufficient for `compare_scalar` with this value on the left -/
def cost : JV → Nat
  | arr vs => 2 + costL vs
  | obj kvs => 3 + costK kvs
  | _ => 1
def costL : List JV → Nat
  | [] => 1
  | v :: vs => 1 + cost v + costL vs
def costK : List (Bytes × JV) → Nat
  | [] => 1
  | (_, v) :: kvs => 1 + cost v + costK kvs
end

theorem cost_pos (v : JV) : 1 ≤ cost v := by cases v <;> simp only [cost] <;> omega
theorem costL_pos (vs : List JV) : 1 ≤ costL vs := by cases vs <;> simp only [costL] <;> omega
theorem costK_pos (kvs : List (Bytes × JV)) : 1 ≤ costK kvs := by
  rcases kvs with _ | ⟨⟨k, v⟩, kvs⟩ <;> simp only [costK] <;> omega

theorem compare_succ (n m : Nat) : compare (n + 1) (m + 1) = compare n m := by
  rcases Nat.lt_trichotomy n m with h | h | h
  · rw [Nat.compare_eq_lt.2 h, Nat.compare_eq_lt.2 (by omega)]
  · rw [Nat.compare_eq_eq.2 h, Nat.compare_eq_eq.2 (by omega)]
  · rw [Nat.compare_eq_gt.2 h, Nat.compare_eq_gt.2 (by omega)]

/-- values of different levels: decided by the level alone, in agreement with the ranking -/
theorem cmpScalar_of_level_ne (a b : JV) (f : Nat) (lj rj : JE) (l r : Bytes)
    (h1 : lj.ty = ety a) (h3 : rj.ty = ety b) (hl : level (ety a) ≠ level (ety b)) :
    cmpScalar (f + 1) lj l rj r = .ok (Spec.cmpJV (norm a) (norm b)) := by
  rw [cmpScalar_level_ne f lj l rj r (by rw [h1, h3]; exact hl), h1, h3, cmp_of_level_ne a b hl]

theorem good_arr {vs : List JV} (h : good (arr vs) = true) :
    vs.length < 536870912 ∧ goodL vs = true := by
  simp only [good, Bool.and_eq_true, decide_eq_true_eq] at h
  exact ⟨h.1.1, h.2⟩

theorem good_obj {kvs : List (Bytes × JV)} (h : good (obj kvs) = true) :
    kvs.length < 536870912 ∧ goodK kvs = true := by
  simp only [good, Bool.and_eq_true, decide_eq_true_eq] at h
  exact ⟨h.1.1.1, h.2⟩

/-- closes `level (ety a) ≠ level (ety b)` for concrete constructors -/
macro "lvl_ne" : tactic => `(tactic| (simp only [ety]; decide))

mutual
theorem cmpScalar_spec : (a b : JV) → good a = true → good b = true → (fuel : Nat) →
    cost a ≤ fuel → (lj rj : JE) → lj.ty = ety a → lj.len = elen a → rj.ty = ety b →
    rj.len = elen b → (ra rb : Bytes) →
    cmpScalar fuel lj ((entry a).2 ++ ra) rj ((entry b).2 ++ rb)
      = .ok (Spec.cmpJV (norm a) (norm b))
  | null, b, _, _, fuel, hf, lj, rj, h1, _, h3, _, ra, rb => by
    obtain ⟨f, rfl⟩ : ∃ f, fuel = f + 1 := ⟨fuel - 1, by simp only [cost] at hf; omega⟩
    cases b with
    | null => rw [cmpScalar_null f lj _ rj _ h1 h3]; rfl
    | bool y => cases y <;> exact cmpScalar_of_level_ne _ _ f lj rj _ _ h1 h3 (by lvl_ne)
    | _ => exact cmpScalar_of_level_ne _ _ f lj rj _ _ h1 h3 (by lvl_ne)
  | JV.bool x, b, _, _, fuel, hf, lj, rj, h1, _, h3, _, ra, rb => by
    obtain ⟨f, rfl⟩ : ∃ f, fuel = f + 1 := ⟨fuel - 1, by simp only [cost] at hf; omega⟩
    cases b with
    | bool y =>
      cases x <;> cases y
      · rw [cmpScalar_false f lj _ rj _ h1 h3]; rfl
      · exact cmpScalar_of_level_ne _ _ f lj rj _ _ h1 h3 (by lvl_ne)
      · exact cmpScalar_of_level_ne _ _ f lj rj _ _ h1 h3 (by lvl_ne)
      · rw [cmpScalar_true f lj _ rj _ h1 h3]; rfl
    | _ => cases x <;> exact cmpScalar_of_level_ne _ _ f lj rj _ _ h1 h3 (by lvl_ne)
  | num n, b, ha, hb, fuel, hf, lj, rj, h1, h2, h3, h4, ra, rb => by
    obtain ⟨f, rfl⟩ : ∃ f, fuel = f + 1 := ⟨fuel - 1, by simp only [cost] at hf; omega⟩
    cases b with
    | num m =>
      have hn : n.WF := by simpa [good] using ha
      have hm : m.WF := by simpa [good] using hb
      simp only [entry]
      rw [cmpScalar_number f lj _ rj _ (Num.enc n) (Num.enc m) n.norm m.norm h1 h3
        (slice_zero _ _ _ (by rw [h2]; rfl)) (slice_zero _ _ _ (by rw [h4]; rfl))
        (Num.dec_enc n hn) (Num.dec_enc m hm)]
      simp only [norm, Spec.cmpJV]
    | bool y => cases y <;> exact cmpScalar_of_level_ne _ _ f lj rj _ _ h1 h3 (by lvl_ne)
    | _ => exact cmpScalar_of_level_ne _ _ f lj rj _ _ h1 h3 (by lvl_ne)
  | str s, b, _, _, fuel, hf, lj, rj, h1, h2, h3, h4, ra, rb => by
    obtain ⟨f, rfl⟩ : ∃ f, fuel = f + 1 := ⟨fuel - 1, by simp only [cost] at hf; omega⟩
    cases b with
    | str t =>
      simp only [entry]
      rw [cmpScalar_string f lj _ rj _ s t h1 h3
        (slice_zero _ _ _ (by rw [h2]; rfl)) (slice_zero _ _ _ (by rw [h4]; rfl))]
      simp only [norm, Spec.cmpJV]
    | bool y => cases y <;> exact cmpScalar_of_level_ne _ _ f lj rj _ _ h1 h3 (by lvl_ne)
    | _ => exact cmpScalar_of_level_ne _ _ f lj rj _ _ h1 h3 (by lvl_ne)
  | arr as, b, ha, hb, fuel, hf, lj, rj, h1, _, h3, _, ra, rb => by
    obtain ⟨f, rfl⟩ : ∃ f, fuel = f + 2 := ⟨fuel - 2, by
      have := costL_pos as; simp only [cost] at hf; omega⟩
    have ⟨hna, hga⟩ := good_arr ha
    cases b with
    | arr bs =>
      have ⟨hnb, hgb⟩ := good_arr hb
      rw [cmpScalar_container (f + 1) lj _ rj _ h1 h3, cmpContainer_arr_arr f as bs hna hnb]
      simp only [norm, Spec.cmpJV]
      exact cmpArrayLoop_spec as bs hga hgb f (by simp only [cost] at hf; omega) _ _
        [] [] ra [] [] rb 0 _ _ (by simp) (by simp) rfl rfl (by simp) (by simp) _ rfl _ rfl
    | obj bs =>
      have ⟨hnb, _⟩ := good_obj hb
      rw [cmpScalar_container (f + 1) lj _ rj _ h1 h3, cmpContainer_arr_obj f as bs hna hnb]
      simp only [norm]; rfl
    | bool y => cases y <;> exact cmpScalar_of_level_ne _ _ (f + 1) lj rj _ _ h1 h3 (by lvl_ne)
    | _ => exact cmpScalar_of_level_ne _ _ (f + 1) lj rj _ _ h1 h3 (by lvl_ne)
  | obj as, b, ha, hb, fuel, hf, lj, rj, h1, _, h3, _, ra, rb => by
    obtain ⟨f, rfl⟩ : ∃ f, fuel = f + 3 := ⟨fuel - 3, by
      have := costK_pos as; simp only [cost] at hf; omega⟩
    have ⟨hna, hga⟩ := good_obj ha
    cases b with
    | obj bs =>
      have ⟨hnb, hgb⟩ := good_obj hb
      rw [cmpScalar_container (f + 2) lj _ rj _ h1 h3,
        cmpContainer_obj_obj f as bs hna hnb hga hgb]
      simp only [norm, Spec.cmpJV]
      exact cmpObjLoop_spec as bs hga hgb f (by simp only [cost] at hf; omega) _ _
        (keyWords as) [] [] ra (keyWords bs) [] [] rb _ _ _ _ _ _ (by simp) (by simp)
        (by simp [keyWords_length]; try omega) (by simp [keyWords_length]; try omega)
        (by simp [keyWords_length]; try omega) (by simp [keyWords_length]; try omega)
        (by simp [keyWords_length]; try omega) (by simp [keyWords_length]; try omega) _ rfl _ rfl
    | arr bs =>
      have ⟨hnb, _⟩ := good_arr hb
      rw [cmpScalar_container (f + 2) lj _ rj _ h1 h3, cmpContainer_obj_arr (f + 1) as bs hna hnb]
      simp only [norm]; rfl
    | bool y => cases y <;> exact cmpScalar_of_level_ne _ _ (f + 2) lj rj _ _ h1 h3 (by lvl_ne)
    | _ => exact cmpScalar_of_level_ne _ _ (f + 2) lj rj _ _ h1 h3 (by lvl_ne)
theorem cmpArrayLoop_spec : (as bs : List JV) → goodL as = true → goodL bs = true → (fuel : Nat) →
    costL as ≤ fuel → (left right preL midL postL preR midR postR : Bytes) → (jo lvo rvo : Nat) →
    left = preL ++ (wordsL as ++ (midL ++ (paysL as ++ postL))) →
    right = preR ++ (wordsL bs ++ (midR ++ (paysL bs ++ postR))) →
    jo = preL.length → jo = preR.length →
    lvo = preL.length + 4 * as.length + midL.length →
    rvo = preR.length + 4 * bs.length + midR.length →
    (final : Ordering) → final = compare as.length bs.length →
    (n : Nat) → n = min as.length bs.length →
    cmpArrayLoop fuel left right n jo lvo rvo final
      = .ok (Spec.cmpL (normList as) (normList bs))
  | [], bs, _, _, fuel, hf, left, right, preL, midL, postL, preR, midR, postR, jo, lvo, rvo,
      _, _, _, _, _, _, final, hfin, n, hn => by
    obtain ⟨f, rfl⟩ : ∃ f, fuel = f + 1 := ⟨fuel - 1, by simp only [costL] at hf; omega⟩
    simp only [List.length_nil, Nat.zero_min] at hn
    subst hn
    rw [cmpArrayLoop, hfin]
    cases bs with
    | nil => rfl
    | cons b bs =>
      simp only [normList, Spec.cmpL, List.length_nil, List.length_cons]
      rw [Nat.compare_eq_lt.2 (by omega)]
  | a :: as, [], _, _, fuel, hf, left, right, preL, midL, postL, preR, midR, postR, jo, lvo, rvo,
      _, _, _, _, _, _, final, hfin, n, hn => by
    obtain ⟨f, rfl⟩ : ∃ f, fuel = f + 1 := ⟨fuel - 1, by simp only [costL] at hf; omega⟩
    simp only [List.length_nil, Nat.min_zero] at hn
    subst hn
    rw [cmpArrayLoop, hfin]
    simp only [normList, Spec.cmpL, List.length_nil, List.length_cons]
    rw [Nat.compare_eq_gt.2 (by omega)]
  | a :: as, b :: bs, hga, hgb, fuel, hf, left, right, preL, midL, postL, preR, midR, postR,
      jo, lvo, rvo, hL, hR, hjl, hjr, hlvo, hrvo, final, hfin, n, hn => by
    obtain ⟨f, rfl⟩ : ∃ f, fuel = f + 1 := ⟨fuel - 1, by simp only [costL] at hf; omega⟩
    simp only [costL] at hf
    simp only [goodL, Bool.and_eq_true] at hga hgb
    have hla := elen_lt_of_good a hga.1
    have hlb := elen_lt_of_good b hgb.1
    simp only [List.length_cons] at hlvo hrvo hfin hn
    have hn' : n = min as.length bs.length + 1 := by omega
    subst hn'
    rw [cmpArrayLoop]
    rw [readJe_eq left preL (entry a).1 (wordsL as ++ (midL ++ (paysL (a :: as) ++ postL))) jo
        (by rw [hL]; simp [wordsL]) hjl (entry_lt a hla),
      readJe_eq right preR (entry b).1 (wordsL bs ++ (midR ++ (paysL (b :: bs) ++ postR))) jo
        (by rw [hR]; simp [wordsL]) hjr (entry_lt b hlb)]
    simp only []
    rw [sliceFrom_eq left (preL ++ (wordsL (a :: as) ++ midL)) ((entry a).2 ++ (paysL as ++ postL))
        lvo (by rw [hL]; simp [paysL]) (by simp [wordsL_length]; omega),
      sliceFrom_eq right (preR ++ (wordsL (b :: bs) ++ midR)) ((entry b).2 ++ (paysL bs ++ postR))
        rvo (by rw [hR]; simp [paysL]) (by simp [wordsL_length]; omega)]
    simp only []
    rw [cmpScalar_spec a b hga.1 hgb.1 f (by omega) _ _
      (by simp [JE_ofWord_entry a hla]) (by simp [JE_ofWord_entry a hla])
      (by simp [JE_ofWord_entry b hlb]) (by simp [JE_ofWord_entry b hlb])]
    simp only [normList, Spec.cmpL_cons]
    cases hc : Spec.cmpJV (norm a) (norm b) with
    | lt => rfl
    | gt => rfl
    | eq =>
      simp only [Ordering.then]
      exact cmpArrayLoop_spec as bs hga.2 hgb.2 f (by omega) left right
        (preL ++ u32be (entry a).1) (midL ++ (entry a).2) postL
        (preR ++ u32be (entry b).1) (midR ++ (entry b).2) postR _ _ _
        (by rw [hL]; simp [wordsL, paysL]) (by rw [hR]; simp [wordsL, paysL])
        (by simp; omega) (by simp; omega)
        (by simp [JE_ofWord_entry a hla, elen]; omega) (by simp [JE_ofWord_entry b hlb, elen]; omega)
        final (by rw [hfin, compare_succ]) _ rfl
theorem cmpObjLoop_spec : (as bs : List (Bytes × JV)) → goodK as = true → goodK bs = true →
    (fuel : Nat) → costK as ≤ fuel →
    (left right preL kpreL midL postL preR kpreR midR postR : Bytes) →
    (lko rko ljo rjo lvo rvo : Nat) →
    left = preL ++ (wordsK as ++ (kpreL ++ (keyBytes as ++ (midL ++ (paysK as ++ postL))))) →
    right = preR ++ (wordsK bs ++ (kpreR ++ (keyBytes bs ++ (midR ++ (paysK bs ++ postR))))) →
    ljo = preL.length → rjo = preR.length →
    lko = preL.length + 4 * as.length + kpreL.length →
    rko = preR.length + 4 * bs.length + kpreR.length →
    lvo = preL.length + 4 * as.length + kpreL.length + (keyBytes as).length + midL.length →
    rvo = preR.length + 4 * bs.length + kpreR.length + (keyBytes bs).length + midR.length →
    (final : Ordering) → final = compare as.length bs.length →
    (n : Nat) → n = min as.length bs.length →
    cmpObjLoop fuel left right n (as.map (fun kv => kv.1.length)) (bs.map (fun kv => kv.1.length))
        lko rko ljo rjo lvo rvo final
      = .ok (Spec.cmpK (normKvs as) (normKvs bs))
  | [], bs, _, _, fuel, hf, left, right, preL, kpreL, midL, postL, preR, kpreR, midR, postR,
      lko, rko, ljo, rjo, lvo, rvo, _, _, _, _, _, _, _, _, final, hfin, n, hn => by
    obtain ⟨f, rfl⟩ : ∃ f, fuel = f + 1 := ⟨fuel - 1, by simp only [costK] at hf; omega⟩
    simp only [List.length_nil, Nat.zero_min] at hn
    subst hn
    rw [cmpObjLoop, hfin]
    cases bs with
    | nil => rfl
    | cons b bs =>
      obtain ⟨kb, b⟩ := b
      simp only [normKvs, Spec.cmpK, List.length_nil, List.length_cons]
      rw [Nat.compare_eq_lt.2 (by omega)]
  | (ka, a) :: as, [], _, _, fuel, hf, left, right, preL, kpreL, midL, postL, preR, kpreR, midR,
      postR, lko, rko, ljo, rjo, lvo, rvo, _, _, _, _, _, _, _, _, final, hfin, n, hn => by
    obtain ⟨f, rfl⟩ : ∃ f, fuel = f + 1 := ⟨fuel - 1, by simp only [costK] at hf; omega⟩
    simp only [List.length_nil, Nat.min_zero] at hn
    subst hn
    rw [cmpObjLoop, hfin]
    simp only [normKvs, Spec.cmpK, List.length_nil, List.length_cons]
    rw [Nat.compare_eq_gt.2 (by omega)]
  | (ka, a) :: as, (kb, b) :: bs, hga, hgb, fuel, hf, left, right, preL, kpreL, midL, postL,
      preR, kpreR, midR, postR, lko, rko, ljo, rjo, lvo, rvo, hL, hR, hjl, hjr, hlko, hrko,
      hlvo, hrvo, final, hfin, n, hn => by
    have hca := cost_pos a
    obtain ⟨f, rfl⟩ : ∃ f, fuel = f + 2 := ⟨fuel - 2, by simp only [costK] at hf; omega⟩
    simp only [costK] at hf
    simp only [goodK, Bool.and_eq_true, decide_eq_true_eq] at hga hgb
    have hla := elen_lt_of_good a hga.1.2
    have hlb := elen_lt_of_good b hgb.1.2
    simp only [List.length_cons, keyBytes, List.length_append] at hlko hrko hlvo hrvo hfin hn
    have hn' : n = min as.length bs.length + 1 := by omega
    subst hn'
    simp only [List.map_cons]
    rw [cmpObjLoop]
    rw [sliceFrom_eq left (preL ++ (wordsK ((ka, a) :: as) ++ kpreL))
        (ka ++ (keyBytes as ++ (midL ++ (paysK ((ka, a) :: as) ++ postL))))
        lko (by rw [hL]; simp [keyBytes]) (by simp [wordsK_length]; omega),
      sliceFrom_eq right (preR ++ (wordsK ((kb, b) :: bs) ++ kpreR))
        (kb ++ (keyBytes bs ++ (midR ++ (paysK ((kb, b) :: bs) ++ postR))))
        rko (by rw [hR]; simp [keyBytes]) (by simp [wordsK_length]; omega)]
    simp only []
    rw [cmpScalar_string f ⟨C.STRING_TAG, ka.length, 0⟩ _ ⟨C.STRING_TAG, kb.length, 0⟩ _ ka kb rfl rfl
      (slice_zero _ _ _ rfl) (slice_zero _ _ _ rfl)]
    simp only [normKvs, Spec.cmpK_cons]
    cases hk : lexCmp ka kb with
    | lt => rfl
    | gt => rfl
    | eq =>
      simp only [Ordering.then]
      rw [readJe_eq left preL (entry a).1
          (wordsK as ++ (kpreL ++ (keyBytes ((ka, a) :: as) ++ (midL ++ (paysK ((ka, a) :: as) ++ postL)))))
          ljo (by rw [hL]; simp [wordsK]) hjl (entry_lt a hla),
        readJe_eq right preR (entry b).1
          (wordsK bs ++ (kpreR ++ (keyBytes ((kb, b) :: bs) ++ (midR ++ (paysK ((kb, b) :: bs) ++ postR)))))
          rjo (by rw [hR]; simp [wordsK]) hjr (entry_lt b hlb)]
      simp only []
      rw [sliceFrom_eq left
          (preL ++ (wordsK ((ka, a) :: as) ++ (kpreL ++ (keyBytes ((ka, a) :: as) ++ midL))))
          ((entry a).2 ++ (paysK as ++ postL))
          lvo (by rw [hL]; simp [paysK]) (by simp [wordsK_length, keyBytes]; omega),
        sliceFrom_eq right
          (preR ++ (wordsK ((kb, b) :: bs) ++ (kpreR ++ (keyBytes ((kb, b) :: bs) ++ midR))))
          ((entry b).2 ++ (paysK bs ++ postR))
          rvo (by rw [hR]; simp [paysK]) (by simp [wordsK_length, keyBytes]; omega)]
      simp only []
      rw [cmpScalar_spec a b hga.1.2 hgb.1.2 (f + 1) (by omega) _ _
        (by simp [JE_ofWord_entry a hla]) (by simp [JE_ofWord_entry a hla])
        (by simp [JE_ofWord_entry b hlb]) (by simp [JE_ofWord_entry b hlb])]
      cases hc : Spec.cmpJV (norm a) (norm b) with
      | lt => rfl
      | gt => rfl
      | eq =>
        simp only []
        exact cmpObjLoop_spec as bs hga.2 hgb.2 (f + 1) (by omega) left right
          (preL ++ u32be (entry a).1) (kpreL ++ ka) (midL ++ (entry a).2) postL
          (preR ++ u32be (entry b).1) (kpreR ++ kb) (midR ++ (entry b).2) postR _ _ _ _ _ _
          (by rw [hL]; simp [wordsK, paysK, keyBytes]) (by rw [hR]; simp [wordsK, paysK, keyBytes])
          (by simp; omega) (by simp; omega) (by simp; omega) (by simp; omega)
          (by simp [JE_ofWord_entry a hla, elen]; omega)
          (by simp [JE_ofWord_entry b hlb, elen]; omega)
          final (by rw [hfin, compare_succ]) _ rfl
end

/-! ### Adequate fuel: the cost is below the image length -/

mutual
theorem cost_le : (v : JV) → cost v ≤ elen v + 3
  | null => by simp [cost]
  | JV.bool _ => by simp [cost]
  | num _ => by simp [cost]
  | str _ => by simp [cost]
  | arr vs => by
    have := costL_le vs
    simp only [cost, elen, entry, List.length_append, u32be_length, wordsL_length]
    omega
  | obj kvs => by
    have := costK_le kvs
    simp only [cost, elen, entry, List.length_append, u32be_length, wordsK_length, keyWords_length]
    omega
theorem costL_le : (vs : List JV) → costL vs ≤ 1 + 4 * vs.length + (paysL vs).length
  | [] => by simp [costL]
  | v :: vs => by
    have h1 := cost_le v
    have h2 := costL_le vs
    simp only [costL, paysL, List.length_append, List.length_cons]
    simp only [elen] at h1
    omega
theorem costK_le : (kvs : List (Bytes × JV)) → costK kvs ≤ 1 + 4 * kvs.length + (paysK kvs).length
  | [] => by simp [costK]
  | (k, v) :: kvs => by
    have h1 := cost_le v
    have h2 := costK_le kvs
    simp only [costK, paysK, List.length_append, List.length_cons]
    simp only [elen] at h1
    omega
end

/-! ### The document level: `compare` -/

theorem sca_lt : C.SCALAR_CONTAINER_TAG < 4294967296 := by decide

theorem compareDocs_sca_sca (wa wb : Nat) (pa pb : Bytes) (ha : wa < 4294967296)
    (hb : wb < 4294967296) :
    compareDocs (u32be C.SCALAR_CONTAINER_TAG ++ (u32be wa ++ pa))
        (u32be C.SCALAR_CONTAINER_TAG ++ (u32be wb ++ pb))
      = cmpScalar (pa.length + pb.length + 24) (JE.ofWord wa) pa (JE.ofWord wb) pb := by
  unfold compareDocs
  rw [readU32At_zero _ _ sca_lt, readU32At_zero _ _ sca_lt]
  simp only [hdrType_sca, and_self, if_true]
  rw [readJe_eq _ (u32be C.SCALAR_CONTAINER_TAG) wa pa 4 rfl (by simp) ha,
    readJe_eq _ (u32be C.SCALAR_CONTAINER_TAG) wb pb 4 rfl (by simp) hb]
  simp only []
  rw [sliceFrom_eq _ (u32be C.SCALAR_CONTAINER_TAG ++ u32be wa) pa 8 (by simp) (by simp),
    sliceFrom_eq _ (u32be C.SCALAR_CONTAINER_TAG ++ u32be wb) pb 8 (by simp) (by simp)]
  simp only [List.length_append, u32be_length]
  congr 1; omega

theorem compareDocs_sca_con (wa h : Nat) (pa rest : Bytes) (ha : wa < 4294967296)
    (hh : h < 4294967296)
    (ht : hdrType h = C.ARRAY_CONTAINER_TAG ∨ hdrType h = C.OBJECT_CONTAINER_TAG) :
    compareDocs (u32be C.SCALAR_CONTAINER_TAG ++ (u32be wa ++ pa)) (u32be h ++ rest)
      = if jeType wa = C.NULL_TAG then .ok .gt else .ok .lt := by
  unfold compareDocs
  rw [readU32At_zero _ _ sca_lt, readU32At_zero _ _ hh]
  simp only [hdrType_sca]
  rw [readJe_eq _ (u32be C.SCALAR_CONTAINER_TAG) wa pa 4 rfl (by simp) ha]
  rcases ht with ht | ht <;> rw [ht] <;>
    rw [if_neg (by decide), if_neg (by decide), if_pos (by decide)] <;> rfl

theorem compareDocs_con_sca (wb h : Nat) (pb rest : Bytes) (hb : wb < 4294967296)
    (hh : h < 4294967296)
    (ht : hdrType h = C.ARRAY_CONTAINER_TAG ∨ hdrType h = C.OBJECT_CONTAINER_TAG) :
    compareDocs (u32be h ++ rest) (u32be C.SCALAR_CONTAINER_TAG ++ (u32be wb ++ pb))
      = if jeType wb = C.NULL_TAG then .ok .lt else .ok .gt := by
  unfold compareDocs
  rw [readU32At_zero _ _ sca_lt, readU32At_zero _ _ hh]
  simp only [hdrType_sca]
  rw [readJe_eq _ (u32be C.SCALAR_CONTAINER_TAG) wb pb 4 rfl (by simp) hb]
  rcases ht with ht | ht <;> rw [ht] <;>
    rw [if_neg (by decide), if_neg (by decide), if_neg (by decide), if_pos (by decide)] <;> rfl

theorem compareDocs_same (h1 h2 : Nat) (r1 r2 : Bytes) (hh1 : h1 < 4294967296)
    (hh2 : h2 < 4294967296)
    (ht : (hdrType h1 = C.ARRAY_CONTAINER_TAG ∧ hdrType h2 = C.ARRAY_CONTAINER_TAG)
      ∨ (hdrType h1 = C.OBJECT_CONTAINER_TAG ∧ hdrType h2 = C.OBJECT_CONTAINER_TAG)) :
    compareDocs (u32be h1 ++ r1) (u32be h2 ++ r2)
      = cmpContainer (r1.length + r2.length + 16) (u32be h1 ++ r1) (u32be h2 ++ r2) := by
  unfold compareDocs
  rw [readU32At_zero _ _ hh1, readU32At_zero _ _ hh2]
  simp only []
  have e : (u32be h1 ++ r1).length + (u32be h2 ++ r2).length + 8 = r1.length + r2.length + 16 := by
    simp only [List.length_append, u32be_length]; omega
  rw [e]
  rcases ht with ⟨t1, t2⟩ | ⟨t1, t2⟩ <;> rw [t1, t2] <;>
    rw [if_neg (by decide), if_pos (by decide)]

theorem compareDocs_arr_obj (h1 h2 : Nat) (r1 r2 : Bytes) (hh1 : h1 < 4294967296)
    (hh2 : h2 < 4294967296) (t1 : hdrType h1 = C.ARRAY_CONTAINER_TAG)
    (t2 : hdrType h2 = C.OBJECT_CONTAINER_TAG) :
    compareDocs (u32be h1 ++ r1) (u32be h2 ++ r2) = .ok .gt := by
  unfold compareDocs
  rw [readU32At_zero _ _ hh1, readU32At_zero _ _ hh2]
  simp only []
  rw [t1, t2, if_neg (by decide), if_neg (by decide), if_neg (by decide), if_neg (by decide),
    if_pos (by decide)]

theorem compareDocs_obj_arr (h1 h2 : Nat) (r1 r2 : Bytes) (hh1 : h1 < 4294967296)
    (hh2 : h2 < 4294967296) (t1 : hdrType h1 = C.OBJECT_CONTAINER_TAG)
    (t2 : hdrType h2 = C.ARRAY_CONTAINER_TAG) :
    compareDocs (u32be h1 ++ r1) (u32be h2 ++ r2) = .ok .lt := by
  unfold compareDocs
  rw [readU32At_zero _ _ hh1, readU32At_zero _ _ hh2]
  simp only []
  rw [t1, t2, if_neg (by decide), if_neg (by decide), if_neg (by decide), if_neg (by decide),
    if_neg (by decide), if_pos (by decide)]

theorem encodeSpec_scalar (v : JV) (h : Spec.isScalarJ v = true) :
    encodeSpec v = u32be C.SCALAR_CONTAINER_TAG ++ (u32be (entry v).1 ++ (entry v).2) := by
  cases v <;> first | rfl | simp [Spec.isScalarJ] at h

theorem goodTop_scalar (v : JV) (h : Spec.isScalarJ v = true) (hg : goodTop v = true) :
    good v = true := by
  cases v <;> first | exact hg | simp [Spec.isScalarJ] at h

theorem container_cases (v : JV) (h : Spec.isScalarJ v = false) :
    (∃ vs, v = arr vs) ∨ (∃ kvs, v = obj kvs) := by
  cases v <;> simp [Spec.isScalarJ] at h
  · exact .inl ⟨_, rfl⟩
  · exact .inr ⟨_, rfl⟩

theorem goodTop_arr {vs : List JV} (h : goodTop (arr vs) = true) :
    vs.length < 536870912 ∧ goodL vs = true := by
  simpa [goodTop] using h

theorem goodTop_obj {kvs : List (Bytes × JV)} (h : goodTop (obj kvs) = true) :
    kvs.length < 536870912 ∧ goodK kvs = true := by
  simp only [goodTop, Bool.and_eq_true, decide_eq_true_eq] at h
  exact ⟨h.1.1, h.2⟩

/-- a scalar against a container: null is above, everything else below -/
theorem cmpJV_scalar_container (a b : JV) (ha : Spec.isScalarJ a = true)
    (hb : Spec.isScalarJ b = false) :
    Spec.cmpJV (norm a) (norm b) = if ety a = C.NULL_TAG then .gt else .lt := by
  rcases container_cases b hb with ⟨bs, rfl⟩ | ⟨bs, rfl⟩ <;>
    rcases a with _ | x | n | s | as | as <;> (try cases x) <;> simp only [norm] <;>
    first | rfl | simp [Spec.isScalarJ] at ha

theorem cmpJV_container_scalar (a b : JV) (ha : Spec.isScalarJ a = false)
    (hb : Spec.isScalarJ b = true) :
    Spec.cmpJV (norm a) (norm b) = if ety b = C.NULL_TAG then .lt else .gt := by
  rcases container_cases a ha with ⟨as, rfl⟩ | ⟨as, rfl⟩ <;>
    rcases b with _ | x | n | s | bs | bs <;> (try cases x) <;> simp only [norm] <;>
    first | rfl | simp [Spec.isScalarJ] at hb

/-- header word and remainder of a container document -/
theorem encodeSpec_arr (vs : List JV) :
    encodeSpec (arr vs) = u32be (C.ARRAY_CONTAINER_TAG + vs.length) ++ (wordsL vs ++ paysL vs) := rfl

theorem encodeSpec_obj (kvs : List (Bytes × JV)) :
    encodeSpec (obj kvs) = u32be (C.OBJECT_CONTAINER_TAG + kvs.length) ++
      (keyWords kvs ++ (wordsK kvs ++ (keyBytes kvs ++ paysK kvs))) := rfl

/-- **Refinement of `compare`**: on the encodings of two good documents the byte-level
comparison returns the documented order of the (normalised) trees; it never fails, panics or
runs out of its fuel. -/
theorem compareDocs_refines (a b : JV) (ha : goodTop a = true) (hb : goodTop b = true) :
    compareDocs (encodeSpec a) (encodeSpec b) = .ok (Spec.cmpJV (norm a) (norm b)) := by
  cases hsa : Spec.isScalarJ a <;> cases hsb : Spec.isScalarJ b
  · -- two containers
    rcases container_cases a hsa with ⟨as, rfl⟩ | ⟨as, rfl⟩ <;>
      rcases container_cases b hsb with ⟨bs, rfl⟩ | ⟨bs, rfl⟩
    · have ⟨hna, hga⟩ := goodTop_arr ha
      have ⟨hnb, hgb⟩ := goodTop_arr hb
      rw [encodeSpec_arr, encodeSpec_arr,
        compareDocs_same _ _ _ _ (arr_header_lt _ hna) (arr_header_lt _ hnb)
          (.inl ⟨hdrType_arr _ hna, hdrType_arr _ hnb⟩)]
      have := cmpContainer_arr_arr ((wordsL as ++ paysL as).length + (wordsL bs ++ paysL bs).length + 15)
        as bs hna hnb [] []
      simp only [entry, List.append_nil] at this
      rw [this]
      simp only [norm, Spec.cmpJV]
      have hc := costL_le as
      exact cmpArrayLoop_spec as bs hga hgb _
        (by simp only [List.length_append, wordsL_length]; omega) _ _
        [] [] [] [] [] [] 0 _ _ (by simp) (by simp) rfl rfl (by simp) (by simp) _ rfl _ rfl
    · have ⟨hna, _⟩ := goodTop_arr ha
      have ⟨hnb, _⟩ := goodTop_obj hb
      rw [encodeSpec_arr, encodeSpec_obj,
        compareDocs_arr_obj _ _ _ _ (arr_header_lt _ hna) (obj_header_lt _ hnb)
          (hdrType_arr _ hna) (hdrType_obj _ hnb)]
      simp only [norm]; rfl
    · have ⟨hna, _⟩ := goodTop_obj ha
      have ⟨hnb, _⟩ := goodTop_arr hb
      rw [encodeSpec_obj, encodeSpec_arr,
        compareDocs_obj_arr _ _ _ _ (obj_header_lt _ hna) (arr_header_lt _ hnb)
          (hdrType_obj _ hna) (hdrType_arr _ hnb)]
      simp only [norm]; rfl
    · have ⟨hna, hga⟩ := goodTop_obj ha
      have ⟨hnb, hgb⟩ := goodTop_obj hb
      rw [encodeSpec_obj, encodeSpec_obj,
        compareDocs_same _ _ _ _ (obj_header_lt _ hna) (obj_header_lt _ hnb)
          (.inr ⟨hdrType_obj _ hna, hdrType_obj _ hnb⟩)]
      have := cmpContainer_obj_obj
        ((keyWords as ++ (wordsK as ++ (keyBytes as ++ paysK as))).length
          + (keyWords bs ++ (wordsK bs ++ (keyBytes bs ++ paysK bs))).length + 14)
        as bs hna hnb hga hgb [] []
      simp only [entry, List.append_nil] at this
      rw [this]
      simp only [norm, Spec.cmpJV]
      have hc := costK_le as
      exact cmpObjLoop_spec as bs hga hgb _
        (by simp only [List.length_append, wordsK_length, keyWords_length]; omega) _ _
        (keyWords as) [] [] [] (keyWords bs) [] [] [] _ _ _ _ _ _ (by simp) (by simp)
        (by simp [keyWords_length]; try omega) (by simp [keyWords_length]; try omega)
        (by simp [keyWords_length]; try omega) (by simp [keyWords_length]; try omega)
        (by simp [keyWords_length]; try omega) (by simp [keyWords_length]; try omega) _ rfl _ rfl
  · -- container against scalar
    have hgb := goodTop_scalar b hsb hb
    have hlb := elen_lt_of_good b hgb
    rw [encodeSpec_scalar b hsb, cmpJV_container_scalar a b hsa hsb]
    rcases container_cases a hsa with ⟨as, rfl⟩ | ⟨as, rfl⟩
    · have ⟨hna, _⟩ := goodTop_arr ha
      rw [encodeSpec_arr, compareDocs_con_sca _ _ _ _ (entry_lt b hlb) (arr_header_lt _ hna)
        (.inl (hdrType_arr _ hna)), jeType_entry b hlb]
      split <;> rfl
    · have ⟨hna, _⟩ := goodTop_obj ha
      rw [encodeSpec_obj, compareDocs_con_sca _ _ _ _ (entry_lt b hlb) (obj_header_lt _ hna)
        (.inr (hdrType_obj _ hna)), jeType_entry b hlb]
      split <;> rfl
  · -- scalar against container
    have hga := goodTop_scalar a hsa ha
    have hla := elen_lt_of_good a hga
    rw [encodeSpec_scalar a hsa, cmpJV_scalar_container a b hsa hsb]
    rcases container_cases b hsb with ⟨bs, rfl⟩ | ⟨bs, rfl⟩
    · have ⟨hnb, _⟩ := goodTop_arr hb
      rw [encodeSpec_arr, compareDocs_sca_con _ _ _ _ (entry_lt a hla) (arr_header_lt _ hnb)
        (.inl (hdrType_arr _ hnb)), jeType_entry a hla]
      split <;> rfl
    · have ⟨hnb, _⟩ := goodTop_obj hb
      rw [encodeSpec_obj, compareDocs_sca_con _ _ _ _ (entry_lt a hla) (obj_header_lt _ hnb)
        (.inr (hdrType_obj _ hnb)), jeType_entry a hla]
      split <;> rfl
  · -- two scalars
    have hga := goodTop_scalar a hsa ha
    have hgb := goodTop_scalar b hsb hb
    have hla := elen_lt_of_good a hga
    have hlb := elen_lt_of_good b hgb
    rw [encodeSpec_scalar a hsa, encodeSpec_scalar b hsb,
      compareDocs_sca_sca _ _ _ _ (entry_lt a hla) (entry_lt b hlb)]
    have hc : cost a = 1 := by cases a <;> first | rfl | simp [Spec.isScalarJ] at hsa
    have := cmpScalar_spec a b hga hgb ((entry a).2.length + (entry b).2.length + 24)
      (by omega) (JE.ofWord (entry a).1) (JE.ofWord (entry b).1)
      (by simp [JE_ofWord_entry a hla]) (by simp [JE_ofWord_entry a hla])
      (by simp [JE_ofWord_entry b hlb]) (by simp [JE_ofWord_entry b hlb]) [] []
    simpa using this

end Fn

/-! ### The order does not see the codec's normalisation

`norm` replaces `Int64(0)` by `UInt64(0)` and every NaN by the canonical one; both are equal
to the original in the order, so `cmpJV (norm a) (norm b) = cmpJV a b`. -/

theorem Num.cmp_norm_self (x : Num) (h : x.WF) : Num.cmp (Num.norm x) x = .eq := by
  cases x with
  | int i =>
    simp only [Num.norm]
    split
    · rename_i h0; subst h0; decide
    · exact Num.cmp_refl _ h
  | uint n => exact Num.cmp_refl _ h
  | float b =>
    simp only [Num.norm]
    split
    · rename_i hn; exact Num.cmp_nan_nan _ _ (by decide) hn
    · exact Num.cmp_refl _ h

namespace Spec

mutual
theorem numsWF_norm : (a : JV) → numsWF a → numsWF (norm a)
  | null, _ => trivial
  | JV.bool _, _ => trivial
  | str _, _ => trivial
  | num n, h => by simpa [norm, numsWF] using Num.norm_WF n h
  | arr vs, h => by simpa [norm, numsWF] using numsWFL_norm vs h
  | obj kvs, h => by simpa [norm, numsWF] using numsWFK_norm kvs h
theorem numsWFL_norm : (as : List JV) → numsWFL as → numsWFL (normList as)
  | [], _ => trivial
  | a :: as, h => ⟨numsWF_norm a h.1, numsWFL_norm as h.2⟩
theorem numsWFK_norm : (as : List (Bytes × JV)) → numsWFK as → numsWFK (normKvs as)
  | [], _ => trivial
  | (_, a) :: as, h => ⟨numsWF_norm a h.1, numsWFK_norm as h.2⟩
end

mutual
theorem cmpJV_norm_self : (a : JV) → numsWF a → cmpJV (norm a) a = .eq
  | null, _ => rfl
  | JV.bool b, _ => by simp [norm, cmpJV]
  | str s, _ => by simpa [norm, cmpJV] using lexCmp_refl s
  | num n, h => by simpa [norm, cmpJV] using Num.cmp_norm_self n h
  | arr vs, h => by simpa [norm, cmpJV] using cmpL_norm_self vs h
  | obj kvs, h => by simpa [norm, cmpJV] using cmpK_norm_self kvs h
theorem cmpL_norm_self : (as : List JV) → numsWFL as → cmpL (normList as) as = .eq
  | [], _ => rfl
  | a :: as, h => by
    rw [normList, cmpL_cons, cmpJV_norm_self a h.1, cmpL_norm_self as h.2]; rfl
theorem cmpK_norm_self : (as : List (Bytes × JV)) → numsWFK as → cmpK (normKvs as) as = .eq
  | [], _ => rfl
  | (k, a) :: as, h => by
    rw [normKvs, cmpK_cons, lexCmp_refl, cmpJV_norm_self a h.1, cmpK_norm_self as h.2]; rfl
end

/-- the order is invariant under the codec's normalisation -/
theorem cmpJV_norm (a b : JV) (ha : numsWF a) (hb : numsWF b) :
    cmpJV (norm a) (norm b) = cmpJV a b := by
  have hna := numsWF_norm a ha
  have hnb := numsWF_norm b hb
  rw [cmpJV_congr_left (norm a) a (norm b) hna ha hnb (cmpJV_norm_self a ha),
    cmpJV_swap (norm b) a hnb ha,
    cmpJV_congr_left (norm b) b a hnb hb ha (cmpJV_norm_self b hb),
    ← cmpJV_swap b a hb ha]

end Spec

namespace Fn

/-- **Refinement of `compare`**, stated on the trees themselves -/
theorem compareDocs_refines' (a b : JV) (ha : goodTop a = true) (hb : goodTop b = true) :
    compareDocs (encodeSpec a) (encodeSpec b) = .ok (Spec.cmpJV a b) := by
  rw [compareDocs_refines a b ha hb,
    Spec.cmpJV_norm a b (numsWF_of_goodTop a ha) (numsWF_of_goodTop b hb)]

/-- the byte-level comparison is reflexive, antisymmetric and transitive on good documents -/
theorem compareDocs_swap (a b : JV) (ha : goodTop a = true) (hb : goodTop b = true) :
    compareDocs (encodeSpec b) (encodeSpec a)
      = (compareDocs (encodeSpec a) (encodeSpec b)).map Ordering.swap := by
  rw [compareDocs_refines' a b ha hb, compareDocs_refines' b a hb ha,
    Spec.cmpJV_swap a b (numsWF_of_goodTop a ha) (numsWF_of_goodTop b hb)]
  rfl

theorem compareDocs_eq_iff (a b : JV) (ha : goodTop a = true) (hb : goodTop b = true) :
    compareDocs (encodeSpec a) (encodeSpec b) = .ok .eq ↔ Spec.valEq a b = true := by
  rw [compareDocs_refines' a b ha hb, ← Spec.cmpJV_eq_iff_valEq]
  constructor
  · intro h; injection h
  · intro h; rw [h]

end Fn
end Jsonb
