/-
C11 for the whole functions of Functions/Text2.lean: the JSON-text branch agrees with the JSONB
branch on the encoding of the text (`TextOf t v`: sniffed as text, parsed to the good value `v`).

* exact agreement `T.f t args = T.f (encodeSpec v) args`: `path_match`, `get_by_path{,_first,_array}`,
  `exists_any_keys`, `object_each`, `array_values`, `is_array`, `is_object`, `is_null`, `is_boolean`,
  `is_number`, `is_string`, `as_i64`, `as_u64`, `is_i64`, `is_u64`, `is_f64`, `to_bool`, `to_i64`,
  `to_u64`, `to_serde_json_object`, `delete_by_keypath` (indices `i32`);
* `as_f64`, `to_f64`, `to_str`: exact when the number is not a NaN float (no text parses to one),
  in general up to the codec's NaN canonicalisation;
* `to_string` / `to_pretty_string`: the text is echoed, so the strings differ; both denote `v`.
Also: on JSONB input the new whole functions are the `Fn.*` functions; what the new text branches
answer on a text that does not parse; the sniffing witness for a text with a leading space.
-/
import JsonbModel.Functions.Text2
import JsonbModel.Proofs.TextEquiv4
import JsonbModel.Proofs.ChainGood
import JsonbModel.Proofs.KeyNum
import JsonbModel.Proofs.ToStringPretty
import JsonbModel.Proofs.SerdeRefine

namespace Jsonb
open JV

/-! ### `from_utf8_lossy` -/

theorem utf8Lossy_valid_aux : ∀ (n : Nat) (t : Bytes), t.length ≤ n → validUtf8 t = true → utf8Lossy t = t
  | _, [], _, _ => by unfold utf8Lossy; rfl
  | 0, _ :: _, hl, _ => by simp at hl
  | n + 1, b0 :: rest, hl, hv => by
    have IH := utf8Lossy_valid_aux n
    unfold utf8Lossy
    unfold validUtf8 at hv
    by_cases c1 : b0 < 0x80
    · simp only [c1, if_true] at hv ⊢; rw [IH rest (by simp only [List.length_cons] at hl; omega) hv]
    · simp only [c1, if_false] at hv ⊢
      by_cases c2 : (0xC2 ≤ b0 && b0 ≤ 0xDF) = true
      · simp only [c2, if_true] at hv ⊢
        cases rest with
        | nil => simp at hv
        | cons b1 r =>
          simp only [Bool.and_eq_true] at hv
          simp only [hv.1, if_true]; rw [IH r (by simp only [List.length_cons] at hl; omega) hv.2]
      · simp only [c2, if_false, Bool.false_eq_true] at hv ⊢
        by_cases c3 : (b0 == 0xE0) = true
        · simp only [c3, if_true] at hv ⊢
          cases rest with
          | nil => simp at hv
          | cons b1 r1 =>
            cases r1 with
            | nil => simp at hv
            | cons b2 r2 =>
              simp only [Bool.and_eq_true] at hv
              have ih := IH r2 (by simp only [List.length_cons] at hl; omega) hv.2
              simp [hv.1.1.1, hv.1.1.2, hv.1.2, ih]
        · simp only [c3, if_false, Bool.false_eq_true] at hv ⊢
          by_cases c4 : ((0xE1 ≤ b0 && b0 ≤ 0xEC) || b0 == 0xEE || b0 == 0xEF) = true
          · simp only [c4, if_true] at hv ⊢
            cases rest with
            | nil => simp at hv
            | cons b1 r1 =>
              cases r1 with
              | nil => simp at hv
              | cons b2 r2 =>
                simp only [Bool.and_eq_true] at hv
                have ih := IH r2 (by simp only [List.length_cons] at hl; omega) hv.2
                simp [hv.1.1, hv.1.2, ih]
          · simp only [c4, if_false, Bool.false_eq_true] at hv ⊢
            by_cases c5 : (b0 == 0xED) = true
            · simp only [c5, if_true] at hv ⊢
              cases rest with
              | nil => simp at hv
              | cons b1 r1 =>
                cases r1 with
                | nil => simp at hv
                | cons b2 r2 =>
                  simp only [Bool.and_eq_true] at hv
                  have ih := IH r2 (by simp only [List.length_cons] at hl; omega) hv.2
                  simp [hv.1.1.1, hv.1.1.2, hv.1.2, ih]
            · simp only [c5, if_false, Bool.false_eq_true] at hv ⊢
              by_cases c6 : (b0 == 0xF0) = true
              · simp only [c6, if_true] at hv ⊢
                cases rest with
                | nil => simp at hv
                | cons b1 r1 =>
                  cases r1 with
                  | nil => simp at hv
                  | cons b2 r2 =>
                    cases r2 with
                    | nil => simp at hv
                    | cons b3 r3 =>
                      simp only [Bool.and_eq_true] at hv
                      have ih := IH r3 (by simp only [List.length_cons] at hl; omega) hv.2
                      simp [hv.1.1.1.1, hv.1.1.1.2, hv.1.1.2, hv.1.2, ih]
              · simp only [c6, if_false, Bool.false_eq_true] at hv ⊢
                by_cases c7 : (0xF1 ≤ b0 && b0 ≤ 0xF3) = true
                · simp only [c7, if_true] at hv ⊢
                  cases rest with
                  | nil => simp at hv
                  | cons b1 r1 =>
                    cases r1 with
                    | nil => simp at hv
                    | cons b2 r2 =>
                      cases r2 with
                      | nil => simp at hv
                      | cons b3 r3 =>
                        simp only [Bool.and_eq_true] at hv
                        have ih := IH r3 (by simp only [List.length_cons] at hl; omega) hv.2
                        simp [hv.1.1.1, hv.1.1.2, hv.1.2, ih]
                · simp only [c7, if_false, Bool.false_eq_true] at hv ⊢
                  by_cases c8 : (b0 == 0xF4) = true
                  · simp only [c8, if_true] at hv ⊢
                    cases rest with
                    | nil => simp at hv
                    | cons b1 r1 =>
                      cases r1 with
                      | nil => simp at hv
                      | cons b2 r2 =>
                        cases r2 with
                        | nil => simp at hv
                        | cons b3 r3 =>
                          simp only [Bool.and_eq_true] at hv
                          have ih := IH r3 (by simp only [List.length_cons] at hl; omega) hv.2
                          simp [hv.1.1.1.1, hv.1.1.1.2, hv.1.1.2, hv.1.2, ih]
                  · simp [c8] at hv

/-- on valid UTF-8 `from_utf8_lossy` is the identity -/
theorem utf8Lossy_valid (t : Bytes) (h : validUtf8 t = true) : utf8Lossy t = t :=
  utf8Lossy_valid_aux t.length t (Nat.le_refl _) h


/-! ### the integer / float views do not see the codec's number normalisation -/

theorem Num.asI64_norm (n : Num) : Num.asI64 n.norm = Num.asI64 n := by
  cases n with
  | int i =>
    by_cases h0 : i = 0
    · subst h0; decide
    · simp [Num.norm, h0]
  | uint n => rfl
  | float b => simp only [Num.norm]; split <;> rfl

theorem Num.asU64_norm (n : Num) : Num.asU64 n.norm = Num.asU64 n := by
  cases n with
  | int i =>
    by_cases h0 : i = 0
    · subst h0; decide
    · simp [Num.norm, h0]
  | uint n => rfl
  | float b => simp only [Num.norm]; split <;> rfl

theorem F64.canon_of_not_nan (b : Nat) (hb : F64.isNaN b = false) : F64.canon b = b := by
  simp [F64.canon, hb]

/-- `as_f64`: integers are converted the same way on both sides (and never to a NaN); a float
comes back from JSONB with its NaN canonicalised -/
theorem Num.asF64_norm (n : Num) (hwf : n.WF) : Num.asF64 n.norm = F64.canon (Num.asF64 n) := by
  cases n with
  | int i =>
    rw [Num.asF64_norm_int]
    simp only [Num.WF] at hwf
    have hI := F64.ofIntRNE_isInt i hwf.1 hwf.2
    rw [Num.asF64, F64.canon_of_not_nan _ (Num.not_nan_of_isInt _ _ hI)]
  | uint n =>
    simp only [Num.WF] at hwf
    have hI := F64.ofNatRNE_isInt n hwf
    simp only [Num.norm, Num.asF64]
    rw [F64.canon_of_not_nan _ (Num.not_nan_of_isInt _ _ hI)]
  | float b =>
    by_cases hb : F64.isNaN b = true <;> simp [Num.norm, F64.canon, Num.asF64, hb]

theorem Num.asF64_not_nan (n : Num) (hwf : n.WF) (hnn : ∀ b, n = .float b → F64.isNaN b = false) :
    F64.isNaN (Num.asF64 n) = false := by
  cases n with
  | int i =>
    simp only [Num.WF] at hwf
    exact Num.not_nan_of_isInt _ _ (F64.ofIntRNE_isInt i hwf.1 hwf.2)
  | uint n =>
    simp only [Num.WF] at hwf
    exact Num.not_nan_of_isInt _ _ (F64.ofNatRNE_isInt n hwf)
  | float b => exact hnn b rfl

theorem numToString_norm_nan (fmt : Nat → Bytes) (hnan : ∀ b, F64.isNaN b = true → fmt b = fmt F64.canonNaN)
    (n : Num) : Fn.numToString fmt n.norm = Fn.numToString fmt n := by
  cases n with
  | int i =>
    by_cases h0 : i = 0
    · subst h0; simp [Num.norm, Fn.numToString, Fn.intDigits]
    · simp [Num.norm, h0]
  | uint n => rfl
  | float b =>
    simp only [Num.norm]
    split
    · rename_i hb; simp only [Fn.numToString]; exact (hnan b hb).symm
    · rfl

/-! ### `to_vec` of every element / member value -/

theorem encList_good : ∀ (vs : List JV), goodL vs = true → T.encList vs = .ok (vs.map encodeSpec)
  | [], _ => rfl
  | w :: ws, hg => by
    simp only [goodL, Bool.and_eq_true] at hg
    simp only [T.encList, enc_good w hg.1, encList_good ws hg.2, List.map_cons]

theorem encMembers_good : ∀ (kvs : List (Bytes × JV)), goodK kvs = true →
    T.encMembers kvs = .ok (kvs.map (fun kv => (kv.1, encodeSpec kv.2)))
  | [], _ => rfl
  | (k, w) :: ws, hg => by
    simp only [goodK, Bool.and_eq_true] at hg
    simp only [T.encMembers, enc_good w hg.1.2, encMembers_good ws hg.2, List.map_cons]

/-! ### `delete_by_keypath`: the in-place tree editor computes `Spec.delKp` (unchanged document when the
path leads nowhere deletable) -/

theorem map_replace_self (nm : Bytes) (w : JV) : ∀ (kvs : List (Bytes × JV)), keysSorted kvs = true →
    Spec.lookup nm kvs = some w →
    kvs.map (fun kv => if kv.1 == nm then (kv.1, w) else kv) = kvs
  | [], _, _ => rfl
  | (k, x) :: rest, hs, hl => by
    have ⟨hs', hlt⟩ := keysSorted_cons hs
    simp only [Spec.lookup] at hl
    by_cases hk : (k == nm) = true
    · rw [if_pos hk] at hl
      have hx : x = w := Option.some.inj hl
      subst hx
      have hkn : k = nm := by simpa using hk
      simp only [List.map_cons, hk, if_true]
      congr 1
      have : ∀ kv ∈ rest, (fun kv : Bytes × JV => if kv.1 == nm then (kv.1, x) else kv) kv = kv := by
        intro kv hm
        have h1 := hlt kv hm
        have hne : (kv.1 == nm) = false := by
          cases hb : (kv.1 == nm) with
          | false => rfl
          | true =>
            have : kv.1 = nm := by simpa using hb
            rw [this, hkn, lexCmp_refl] at h1
            cases h1
        simp only [hne]; rfl
      rw [List.map_congr_left this, List.map_id']
    · rw [if_neg hk] at hl
      simp only [List.map_cons, hk]
      congr 1
      exact map_replace_self nm w rest hs' hl



theorem set_same {α} (l : List α) (i : Nat) (a : α) (h : l[i]? = some a) : l.set i a = l := by
  obtain ⟨hi, rfl⟩ := List.getElem?_eq_some_iff.mp h
  exact List.set_getElem_self hi

theorem good_obj_sorted (kvs : List (Bytes × JV)) (h : good (obj kvs) = true) : keysSorted kvs = true := by
  simp only [good, Bool.and_eq_true] at h
  exact h.1.2

theorem arr_inj' {a b : List JV} (h : arr a = arr b) : a = b := by injection h
theorem obj_inj' {a b : List (Bytes × JV)} (h : obj a = obj b) : a = b := by injection h

def TreeDelStmt (kp : List KeyPath) : Prop :=
  (∀ vs, goodL vs = true → arr (T.treeDelArr kp vs) = (Spec.delKp (arr vs) kp).getD (arr vs)) ∧
  (∀ kvs, keysSorted kvs = true → goodK kvs = true →
    obj (T.treeDelObj kp kvs) = (Spec.delKp (obj kvs) kp).getD (obj kvs))

theorem treeDelObj_name (nm : Bytes) (kp : List KeyPath) (ih : TreeDelStmt kp)
    (kvs : List (Bytes × JV)) (hs : keysSorted kvs = true) (hg : goodK kvs = true) :
    obj (if kp.isEmpty then Spec.removeKey nm kvs
      else match Spec.lookup nm kvs with
        | some (arr a) => kvs.map (fun kv => if kv.1 == nm then (kv.1, arr (T.treeDelArr kp a)) else kv)
        | some (obj o) => kvs.map (fun kv => if kv.1 == nm then (kv.1, obj (T.treeDelObj kp o)) else kv)
        | _ => kvs)
      = (Spec.delKp.delKpObj kvs nm kp (Spec.delKp · kp)).getD (obj kvs) := by
  simp only [Spec.delKp.delKpObj]
  by_cases he : kp.isEmpty = true
  · simp [he]
  · simp only [he, if_false, Bool.false_eq_true]
    cases hl : Spec.lookup nm kvs with
    | none => simp
    | some w =>
      have hw := lookup_good nm kvs hg w hl
      cases w with
      | arr a =>
        have ha := ih.1 a (good_arr_parts a hw).2
        simp only [Spec.isScalar, Bool.false_eq_true, if_false]
        cases hd : Spec.delKp (arr a) kp with
        | none =>
          rw [hd] at ha; simp only [Option.getD_none] at ha
          simp only [Option.getD_none, ha]
          rw [map_replace_self nm (arr a) kvs hs hl]
        | some w' =>
          rw [hd] at ha; simp only [Option.getD_some] at ha
          simp only [Option.getD_some, ha]
      | obj o =>
        have ho := ih.2 o (good_obj_sorted o hw) (good_obj_parts o hw).2
        simp only [Spec.isScalar, Bool.false_eq_true, if_false]
        cases hd : Spec.delKp (obj o) kp with
        | none =>
          rw [hd] at ho; simp only [Option.getD_none] at ho
          simp only [Option.getD_none, ho]
          rw [map_replace_self nm (obj o) kvs hs hl]
        | some w' =>
          rw [hd] at ho; simp only [Option.getD_some] at ho
          simp only [Option.getD_some, ho]
      | null => simp [Spec.isScalar]
      | bool b => simp [Spec.isScalar]
      | num n => simp [Spec.isScalar]
      | str s => simp [Spec.isScalar]



theorem treeDel_eq : ∀ (kp : List KeyPath), TreeDelStmt kp
  | [] => ⟨fun vs _ => by simp [T.treeDelArr, Spec.delKp], fun kvs _ _ => by simp [T.treeDelObj, Spec.delKp]⟩
  | .index i :: kp => by
    have ih := treeDel_eq kp
    refine ⟨fun vs hg => ?_, fun kvs _ _ => by simp [T.treeDelObj, Spec.delKp]⟩
    simp only [T.treeDelArr, Spec.delKp]
    by_cases hr : (if i < 0 then (vs.length : Int) + i else i) < 0 ∨ (if i < 0 then (vs.length : Int) + i else i) ≥ vs.length
    · simp only [hr, if_true, Option.getD_none]
    · simp only [hr, if_false]
      by_cases he : kp.isEmpty = true
      · simp only [he, if_true, Option.getD_some]
      · simp only [he, if_false, Bool.false_eq_true]
        cases hl : vs[(if i < 0 then (vs.length : Int) + i else i).toNat]? with
        | none => simp
        | some w =>
          have hw := goodL_get vs hg _ w hl
          cases w with
          | arr a =>
            have ha := ih.1 a (good_arr_parts a hw).2
            simp only [Spec.isScalar, Bool.false_eq_true, if_false]
            cases hd : Spec.delKp (arr a) kp with
            | none =>
              rw [hd] at ha; simp only [Option.getD_none] at ha
              simp only [Option.getD_none, ha, set_same vs _ _ hl]
            | some w' =>
              rw [hd] at ha; simp only [Option.getD_some] at ha
              simp only [Option.getD_some, ha]
          | obj o =>
            have ho := ih.2 o (good_obj_sorted o hw) (good_obj_parts o hw).2
            simp only [Spec.isScalar, Bool.false_eq_true, if_false]
            cases hd : Spec.delKp (obj o) kp with
            | none =>
              rw [hd] at ho; simp only [Option.getD_none] at ho
              simp only [Option.getD_none, ho, set_same vs _ _ hl]
            | some w' =>
              rw [hd] at ho; simp only [Option.getD_some] at ho
              simp only [Option.getD_some, ho]
          | null => simp [Spec.isScalar]
          | bool b => simp [Spec.isScalar]
          | num n => simp [Spec.isScalar]
          | str s => simp [Spec.isScalar]
  | .name nm :: kp => by
    have ih := treeDel_eq kp
    refine ⟨fun vs _ => by simp [T.treeDelArr, Spec.delKp], fun kvs hs hg => ?_⟩
    rw [Spec.delKp]
    simp only [T.treeDelObj]
    exact treeDelObj_name nm kp ih kvs hs hg
  | .quoted nm :: kp => by
    have ih := treeDel_eq kp
    refine ⟨fun vs _ => by simp [T.treeDelArr, Spec.delKp], fun kvs hs hg => ?_⟩
    rw [Spec.delKp]
    simp only [T.treeDelObj]
    exact treeDelObj_name nm kp ih kvs hs hg


/-! ### what the scalar accessors answer on each side -/

section
variable {t : Bytes} {v : JV} (h : TextOf t v)
include h

theorem asBool_text_val : T.asBool t = .ok (Spec.asBool v) := by
  simp [T.asBool, h.notJsonb, h.parses]
theorem asBool_bin_val : T.asBool (encodeSpec v) = .ok (Spec.asBool v) := by
  simp [T.asBool, isJsonb_encodeSpec v h.small, asBool_refines v h.good]
theorem asStr_text_val : T.asStr t = .ok (Spec.asStr v) := by
  simp [T.asStr, h.notJsonb, h.parses]
theorem asStr_bin_val : T.asStr (encodeSpec v) = .ok (Spec.asStr v) := by
  simp [T.asStr, isJsonb_encodeSpec v h.small, asStr_refines v h.good]
theorem asNull_text_val : T.asNull t = .ok (Spec.asNull v) := by
  simp [T.asNull, h.notJsonb, h.parses]
theorem asNull_bin_val : T.asNull (encodeSpec v) = .ok (Spec.asNull v) := by
  simp [T.asNull, isJsonb_encodeSpec v h.small, asNull_refines v h.good]
theorem asNumber_text_val : T.asNumber t = .ok (Spec.asNumber v) := by
  simp [T.asNumber, h.notJsonb, h.parses]
theorem asNumber_bin_val : T.asNumber (encodeSpec v) = .ok ((Spec.asNumber v).map Num.norm) := by
  simp [T.asNumber, isJsonb_encodeSpec v h.small, asNumber_refines v h.good]


/-! ### JSONPath wrappers, keys, type tests -/

theorem pathMatch_text (jp : JsonPath) : T.pathMatch t jp = T.pathMatch (encodeSpec v) jp := by
  simp [T.pathMatch, h.notJsonb, isJsonb_encodeSpec v h.small, h.parses, T.enc,
    toVec_eq_encodeSpec v h.good, Res.bind]
theorem getByPath_text (jp : JsonPath) (data : Bytes) :
    T.getByPath t jp data = T.getByPath (encodeSpec v) jp data := getByPathMode_text h .mixed jp data
theorem getByPathFirst_text (jp : JsonPath) (data : Bytes) :
    T.getByPathFirst t jp data = T.getByPathFirst (encodeSpec v) jp data := getByPathMode_text h .first jp data
theorem getByPathArray_text (jp : JsonPath) (data : Bytes) :
    T.getByPathArray t jp data = T.getByPathArray (encodeSpec v) jp data := getByPathMode_text h .array jp data

theorem existsAnyKeys_text (keys : List Bytes) : T.existsAnyKeys t keys = T.existsAnyKeys (encodeSpec v) keys := by
  simp [T.existsAnyKeys, h.notJsonb, isJsonb_encodeSpec v h.small, h.parses, existsAnyKeys_refines v h.good]

theorem objectEach_text : T.objectEach t = T.objectEach (encodeSpec v) := by
  have hj := isJsonb_encodeSpec v h.small
  simp only [T.objectEach, h.notJsonb, hj, h.parses, Bool.not_false, Bool.not_true, if_true]
  rw [objectEach_refines v h.good]
  cases v with
  | obj kvs =>
    have hg := goodTop_obj_parts h.good
    simp [Spec.objectEach, encMembers_good kvs hg.2, Res.map, Res.bind]
  | _ => simp [Spec.objectEach]

theorem arrayValues_text : T.arrayValues t = T.arrayValues (encodeSpec v) := by
  have hj := isJsonb_encodeSpec v h.small
  simp only [T.arrayValues, h.notJsonb, hj, h.parses, Bool.not_false, Bool.not_true, if_true]
  rw [arrayValues_refines v h.good]
  cases v with
  | arr vs =>
    have hg := goodTop_arr_parts h.good
    simp [Spec.arrayValues, encList_good vs hg.2, Res.map, Res.bind]
  | _ => simp [Spec.arrayValues]

theorem isArray_text : T.isArray t = T.isArray (encodeSpec v) := by
  simp [T.isArray, h.notJsonb, isJsonb_encodeSpec v h.small, h.parses, isArray_refines v h.good]
theorem isObject_text : T.isObject t = T.isObject (encodeSpec v) := by
  simp [T.isObject, h.notJsonb, isJsonb_encodeSpec v h.small, h.parses, isObject_refines v h.good]

theorem isNull_text : T.isNull t = T.isNull (encodeSpec v) := by
  simp only [T.isNull, asNull_text h]
theorem isBoolean_text : T.isBoolean t = T.isBoolean (encodeSpec v) := by
  simp only [T.isBoolean, asBool_text h]
theorem isString_text : T.isString t = T.isString (encodeSpec v) := by
  simp only [T.isString, asStr_text h]
theorem isNumber_text : T.isNumber t = T.isNumber (encodeSpec v) := by
  simp only [T.isNumber, asNumber_text_val h, asNumber_bin_val h]
  cases Spec.asNumber v <;> rfl

/-! ### number views and casts -/

theorem asI64_text : T.asI64 t = T.asI64 (encodeSpec v) := by
  simp only [T.asI64, asNumber_text_val h, asNumber_bin_val h]
  cases Spec.asNumber v <;> simp [Res.map, Res.bind, Num.asI64_norm]
theorem asU64_text : T.asU64 t = T.asU64 (encodeSpec v) := by
  simp only [T.asU64, asNumber_text_val h, asNumber_bin_val h]
  cases Spec.asNumber v <;> simp [Res.map, Res.bind, Num.asU64_norm]

theorem asNumber_wf (n : Num) (hn : Spec.asNumber v = some n) : n.WF := by
  have hg := h.good
  cases v <;> simp [Spec.asNumber] at hn
  subst hn
  simpa [goodTop, good] using hg

/-- `as_f64`: the same double; a NaN (which no text parses to) would come back canonical -/
theorem asF64_text : (T.asF64 t).map (Option.map F64.canon) = T.asF64 (encodeSpec v) := by
  simp only [T.asF64, asNumber_text_val h, asNumber_bin_val h]
  cases hn : Spec.asNumber v with
  | none => rfl
  | some n => simp [Res.map, Res.bind, Num.asF64_norm n (asNumber_wf h n hn)]

/-- exact agreement when the number is not a NaN float (always the case for a parsed text: the
number lexer has no NaN spelling) -/
theorem asF64_text_exact (hnn : ∀ b, v = num (.float b) → F64.isNaN b = false) :
    T.asF64 t = T.asF64 (encodeSpec v) := by
  rw [← asF64_text h]
  simp only [T.asF64, asNumber_text_val h]
  cases hn : Spec.asNumber v with
  | none => rfl
  | some n =>
    have hv : v = num n := by cases v <;> simp_all [Spec.asNumber]
    have := Num.asF64_not_nan n (asNumber_wf h n hn) (fun b hb => hnn b (by rw [hv, hb]))
    simp [Res.map, Res.bind, F64.canon_of_not_nan _ this]

theorem isI64_text : T.isI64 t = T.isI64 (encodeSpec v) := by simp only [T.isI64, asI64_text h]
theorem isU64_text : T.isU64 t = T.isU64 (encodeSpec v) := by simp only [T.isU64, asU64_text h]
theorem isF64_text : T.isF64 t = T.isF64 (encodeSpec v) := by
  simp only [T.isF64, ← asF64_text h]
  cases T.asF64 t with
  | ok o => cases o <;> rfl
  | err e => rfl
  | panic s => rfl
  | fuel => rfl

theorem toBool_text : T.toBool t = T.toBool (encodeSpec v) := by
  simp only [T.toBool, asBool_text_val h, asBool_bin_val h, asStr_text_val h, asStr_bin_val h]

theorem castTail_text {α} (one zero : α) (parse : Bytes → Option α) :
    T.castTail t one zero parse = T.castTail (encodeSpec v) one zero parse := by
  simp only [T.castTail, asBool_text_val h, asBool_bin_val h, asStr_text_val h, asStr_bin_val h]

theorem toI64_text : T.toI64 t = T.toI64 (encodeSpec v) := by
  simp only [T.toI64, asI64_text h, castTail_text h]
theorem toU64_text : T.toU64 t = T.toU64 (encodeSpec v) := by
  simp only [T.toU64, asU64_text h, castTail_text h]

/-- `to_f64`: as for `as_f64` -/
theorem toF64_text : (T.toF64 t).map F64.canon = (T.toF64 (encodeSpec v)).map F64.canon := by
  simp only [T.toF64, ← asF64_text h, castTail_text h]
  cases T.asF64 t with
  | ok o =>
    cases o with
    | none => rfl
    | some b => simp [Res.map, Res.bind, F64.canon]; split <;> simp_all
  | err e => rfl
  | panic s => rfl
  | fuel => rfl

theorem toF64_text_exact (hnn : ∀ b, v = num (.float b) → F64.isNaN b = false) :
    T.toF64 t = T.toF64 (encodeSpec v) := by
  simp only [T.toF64, asF64_text_exact h hnn, castTail_text h]

/-- `to_str`; the float formatter prints every NaN alike (ryu: `NaN`) -/
theorem toStr_text (fmt : Nat → Bytes) (hnan : ∀ b, F64.isNaN b = true → fmt b = fmt F64.canonNaN) :
    T.toStr fmt t = T.toStr fmt (encodeSpec v) := by
  simp only [T.toStr, asBool_text_val h, asBool_bin_val h, asStr_text_val h, asStr_bin_val h,
    asNumber_text_val h, asNumber_bin_val h]
  cases Spec.asNumber v <;> simp [numToString_norm_nan fmt hnan]

/-- `delete_by_keypath` (indices are `i32`: `kpOK`) -/
theorem deleteByKeypath_text (kp : List KeyPath) (hk : kpOK kp) (buf : Bytes) :
    T.deleteByKeypath t kp buf = T.deleteByKeypath (encodeSpec v) kp buf := by
  have hj := isJsonb_encodeSpec v h.small
  have hp := h.parses
  have hn := h.notJsonb
  have hgood := deleteByKeypath_good v h.good kp hk
  have href := deleteByKeypath_refines v h.good kp hk buf
  cases v with
  | arr vs =>
    have hg := goodTop_arr_parts h.good
    simp only [T.deleteByKeypath, hn, hj, hp, Bool.not_false, Bool.not_true, if_true, Bool.false_eq_true, if_false]
    rw [href, (treeDel_eq kp).1 vs hg.2]
    simp only [Spec.deleteByKeypath]
    exact writeToVec_spec buf _ (hgood _ rfl)
  | obj kvs =>
    have hg := h.good
    simp only [goodTop, Bool.and_eq_true, decide_eq_true_eq] at hg
    simp only [T.deleteByKeypath, hn, hj, hp, Bool.not_false, Bool.not_true, if_true, Bool.false_eq_true, if_false]
    rw [href, (treeDel_eq kp).2 kvs hg.1.2 hg.2]
    simp only [Spec.deleteByKeypath]
    exact writeToVec_spec buf _ (hgood _ rfl)
  | null => simp only [T.deleteByKeypath, hn, hj, hp, Bool.not_false, Bool.not_true, if_true, Bool.false_eq_true, if_false, href, Spec.deleteByKeypath]
  | bool b => simp only [T.deleteByKeypath, hn, hj, hp, Bool.not_false, Bool.not_true, if_true, Bool.false_eq_true, if_false, href, Spec.deleteByKeypath]
  | num n => simp only [T.deleteByKeypath, hn, hj, hp, Bool.not_false, Bool.not_true, if_true, Bool.false_eq_true, if_false, href, Spec.deleteByKeypath]
  | str s => simp only [T.deleteByKeypath, hn, hj, hp, Bool.not_false, Bool.not_true, if_true, Bool.false_eq_true, if_false, href, Spec.deleteByKeypath]

/-! ### `to_string` / `to_pretty_string`

On text input nothing is parsed or rendered: the text comes back as it is (byte for byte when it
is valid UTF-8), also from the pretty variant.  So the two calls do not return the same string
(`[1, 2]` stays `[1, 2]`, its encoding prints as `[1,2]`); what holds is that both strings denote
the same document: the echoed text is read as `v` by this crate's parser (that is `TextOf`), the
rendering of `encodeSpec v` is strict RFC 8259 JSON whose value is `v` (C10). -/

theorem text_ne_nil : t ≠ [] := by
  intro e
  have hp := h.parses
  rw [e] at hp
  have hnil : parseValue [] = .err "InvalidEOF" := by
    simp [parseValue, JP.fuelFor, JP.parseJsonValue, JP.skipUnused, JP.next, bind, Res.bind, pure]
  rw [hnil] at hp
  cases hp

theorem toString_text_echo (fmt : Nat → Bytes) (pretty : Bool) (hu : validUtf8 t = true) :
    T.toStringFn fmt pretty t = .ok t := by
  have hne := text_ne_nil h
  cases t with
  | nil => exact absurd rfl hne
  | cons b bs => simp [T.toStringFn, h.notJsonb, utf8Lossy_valid _ hu]

theorem toString_text (fmt : Nat → Bytes) (pretty : Bool) (hu : validUtf8 t = true) (hok : fmtOK fmt v) :
    ∃ text v', T.toStringFn fmt pretty t = .ok t ∧ parseValue t = .ok v ∧
      T.toStringFn fmt pretty (encodeSpec v) = .ok text ∧ Strict.parse text = some v' ∧
      Spec.valEq v' v = true ∧ (Driver.allUnsigned v = true → v' = v) := by
  obtain ⟨text, v', h1, h2, h3, h4⟩ := strict_toStringDoc fmt pretty v h.good hok
  refine ⟨text, v', toString_text_echo h fmt pretty hu, h.parses, ?_, h2, h3, h4⟩
  simp only [T.toStringFn, isJsonb_encodeSpec v h.small, Bool.not_true, Bool.false_eq_true, if_false]
  exact h1

theorem toSerdeJsonObject_text : T.toSerdeJsonObject t = T.toSerdeJsonObject (encodeSpec v) :=
  viaJsonb1_text _ h

end

/-- `to_str` without an assumption on the formatter when the number is not a NaN float -/
theorem toStr_text_exact {t : Bytes} {v : JV} (h : TextOf t v) (fmt : Nat → Bytes)
    (hnn : ∀ b, v = num (.float b) → F64.isNaN b = false) :
    T.toStr fmt t = T.toStr fmt (encodeSpec v) := by
  simp only [T.toStr, asBool_text_val h, asBool_bin_val h, asStr_text_val h, asStr_bin_val h,
    asNumber_text_val h, asNumber_bin_val h]
  cases hn : Spec.asNumber v with
  | none => rfl
  | some n =>
    have hv : v = num n := by cases v <;> simp_all [Spec.asNumber]
    cases n with
    | int i =>
      by_cases h0 : i = 0
      · subst h0; simp [Num.norm, Fn.numToString, Fn.intDigits]
      · simp [Num.norm, h0]
    | uint n => rfl
    | float b => simp [Num.norm, hnn b hv]

/-! ### on JSONB input the whole functions are the JSONB functions of Functions/Access.lean -/
section
variable {b : Bytes} (hb : isJsonb b = true)
include hb
theorem asI64_bin : T.asI64 b = Fn.asI64 b := by simp [T.asI64, Fn.asI64, T.asNumber, hb]
theorem asU64_bin : T.asU64 b = Fn.asU64 b := by simp [T.asU64, Fn.asU64, T.asNumber, hb]
theorem toBool_bin : T.toBool b = Fn.toBool b := by
  simp only [T.toBool, Fn.toBool, T.asBool, T.asStr, hb, Bool.not_true, Bool.false_eq_true, if_false]
  rfl
theorem toI64_bin : T.toI64 b = Fn.toI64 b := by
  simp only [T.toI64, Fn.toI64, T.castTail, asI64_bin hb, T.asBool, T.asStr, hb, Bool.not_true,
    Bool.false_eq_true, if_false]
  cases Fn.asI64 b with
  | ok o =>
    cases o with
    | some x => rfl
    | none =>
      cases Fn.asBool b with
      | ok ob =>
        cases ob with
        | some x => rfl
        | none => cases Fn.asStr b with
          | ok os =>
            cases os with
            | none => rfl
            | some x => simp only []; split <;> simp_all
          | err e => rfl
          | panic s => rfl
          | fuel => rfl
      | err e => rfl
      | panic s => rfl
      | fuel => rfl
  | err e => rfl
  | panic s => rfl
  | fuel => rfl
theorem toU64_bin : T.toU64 b = Fn.toU64 b := by
  simp only [T.toU64, Fn.toU64, T.castTail, asU64_bin hb, T.asBool, T.asStr, hb, Bool.not_true,
    Bool.false_eq_true, if_false]
  cases Fn.asU64 b with
  | ok o =>
    cases o with
    | some x => rfl
    | none =>
      cases Fn.asBool b with
      | ok ob =>
        cases ob with
        | some x => rfl
        | none => cases Fn.asStr b with
          | ok os =>
            cases os with
            | none => rfl
            | some x => simp only []; split <;> simp_all
          | err e => rfl
          | panic s => rfl
          | fuel => rfl
      | err e => rfl
      | panic s => rfl
      | fuel => rfl
  | err e => rfl
  | panic s => rfl
  | fuel => rfl
theorem existsAnyKeys_bin (keys : List Bytes) : T.existsAnyKeys b keys = Fn.existsAnyKeys b keys := by
  simp [T.existsAnyKeys, hb]
theorem objectEach_bin : T.objectEach b = Fn.objectEach b := by simp [T.objectEach, hb]
theorem arrayValues_bin : T.arrayValues b = Fn.arrayValues b := by simp [T.arrayValues, hb]
theorem isArray_bin : T.isArray b = .ok (Fn.isArray b) := by simp [T.isArray, hb]
theorem isObject_bin : T.isObject b = .ok (Fn.isObject b) := by simp [T.isObject, hb]
theorem deleteByKeypath_bin (kp : List KeyPath) (buf : Bytes) :
    T.deleteByKeypath b kp buf = Fn.deleteByKeypath b kp buf := by simp [T.deleteByKeypath, hb]
theorem pathMatch_bin (jp : JsonPath) : T.pathMatch b jp = Sel.predicateMatch jp b (Sel.selFuel b jp) := by
  simp [T.pathMatch, hb]
theorem toStringFn_bin (fmt : Nat → Bytes) (pretty : Bool) :
    T.toStringFn fmt pretty b = Fn.toStringDoc fmt pretty b := by simp [T.toStringFn, hb]
end

/-! ### a text that does not parse: what each text branch answers -/
section
variable {t : Bytes} {e : String} (hn : isJsonb t = false) (hp : parseValue t = .err e)
include hn hp
/-- `path_match` passes the parse error on (`path_exists` answers `false`: `pathExists_unparsable`) -/
theorem pathMatch_unparsable (jp : JsonPath) : T.pathMatch t jp = .err e := by
  simp [T.pathMatch, hn, hp]
theorem existsAnyKeys_unparsable (keys : List Bytes) : T.existsAnyKeys t keys = .ok false := by
  simp [T.existsAnyKeys, hn, hp]
theorem objectEach_unparsable : T.objectEach t = .ok none := by simp [T.objectEach, hn, hp]
theorem arrayValues_unparsable : T.arrayValues t = .ok none := by simp [T.arrayValues, hn, hp]
theorem isX_unparsable :
    T.isArray t = .ok false ∧ T.isObject t = .ok false ∧ T.isNull t = .ok false ∧ T.isBoolean t = .ok false ∧
    T.isNumber t = .ok false ∧ T.isString t = .ok false ∧ T.isI64 t = .ok false ∧ T.isU64 t = .ok false ∧
    T.isF64 t = .ok false := by
  simp [T.isArray, T.isObject, T.isNull, T.isBoolean, T.isNumber, T.isString, T.isI64, T.isU64, T.isF64,
    T.asI64, T.asU64, T.asF64, T.asNull, T.asBool, T.asNumber, T.asStr, hn, hp, Res.map, Res.bind]
theorem casts_unparsable (fmt : Nat → Bytes) :
    T.toBool t = .err "InvalidCast" ∧ T.toI64 t = .err "InvalidCast" ∧ T.toU64 t = .err "InvalidCast" ∧
    T.toF64 t = .err "InvalidCast" ∧ T.toStr fmt t = .err "InvalidCast" := by
  simp [T.toBool, T.toI64, T.toU64, T.toF64, T.toStr, T.castTail, T.asI64, T.asU64, T.asF64, T.asBool,
    T.asNumber, T.asStr, hn, hp, Res.map, Res.bind]
theorem deleteByKeypath_unparsable (kp : List KeyPath) (buf : Bytes) : T.deleteByKeypath t kp buf = .err e := by
  simp [T.deleteByKeypath, hn, hp]
theorem toSerdeJsonObject_unparsable : T.toSerdeJsonObject t = .err e := viaJsonb1_unparsable hn hp _
end

/-! ### texts the sniffing takes for JSONB (outside `TextOf`: known finding, here for the new functions)

`is_jsonb` looks at the first byte only; a space is 0x20 = the first byte of a scalar header. -/

/-- ` [1]` (leading space) is valid JSON for `parse_value`, but `is_array` answers `false` on it
and `true` on its encoding -/
example :
    (match parseValue " [1]".toUTF8.toList with | .ok (arr [num (.uint 1)]) => true | _ => false) = true ∧
    (match T.isArray " [1]".toUTF8.toList with | .ok b => b | _ => true) = false ∧
    (match T.isArray (encodeSpec (arr [num (.uint 1)])) with | .ok b => b | _ => false) = true := by
  decide +kernel

/-- the empty input (not a text: `parse_value` rejects it) is printed as `null` -/
theorem toString_empty (fmt : Nat → Bytes) (pretty : Bool) : T.toStringFn fmt pretty [] = .ok (Fn.lit "null") := by
  simp [T.toStringFn, isJsonb]

/-- witness that the strings differ: the text `[1, 2]` -/
example : T.toStringFn (fun _ => []) false "[1, 2]".toUTF8.toList = .ok "[1, 2]".toUTF8.toList ∧
    T.toStringFn (fun _ => []) false (encodeSpec (arr [num (.uint 1), num (.uint 2)])) = .ok "[1,2]".toUTF8.toList := by
  constructor
  · have hu : validUtf8 "[1, 2]".toUTF8.toList = true := by decide +kernel
    have hn : isJsonb "[1, 2]".toUTF8.toList = false := by decide +kernel
    have he : "[1, 2]".toUTF8.toList ≠ [] := by decide +kernel
    cases hc : "[1, 2]".toUTF8.toList with
    | nil => exact absurd hc he
    | cons b bs => rw [hc] at hu hn; simp [T.toStringFn, hn, utf8Lossy_valid _ hu]
  · decide +kernel

end Jsonb
