/-
Completeness of the JSON text parser model on a compact RFC 8259 renderer: `render v` parses
back to the expected tree.
-/
import JsonbModel.Proofs.JsonParserExact

namespace Jsonb
namespace JP

/-! ### The renderer -/

/-- lower-case hex digit -/
def hexDigitByte (n : Nat) : UInt8 := if n < 10 then UInt8.ofNat (48 + n) else UInt8.ofNat (87 + n)

/-- one byte of string content: `\"`, `\\`, `\u00XX` for control characters, else the byte -/
def escByte (b : UInt8) : Bytes :=
  if b = 0x22 then [0x5C, 0x22]
  else if b = 0x5C then [0x5C, 0x5C]
  else if b.toNat < 0x20 then
    [0x5C, 0x75, 0x30, 0x30, hexDigitByte (b.toNat / 16), hexDigitByte (b.toNat % 16)]
  else [b]

def escBody : Bytes → Bytes
  | [] => []
  | b :: bs => escByte b ++ escBody bs

/-- number of bytes that get escaped -/
def nesc : Bytes → Nat
  | [] => 0
  | b :: bs => (if b = 0x22 ∨ b = 0x5C ∨ b.toNat < 0x20 then 1 else 0) + nesc bs

def renderStr (s : Bytes) : Bytes := 0x22 :: (escBody s ++ [0x22])

/-! ### Strings: first pass -/

theorem getElem_of_drop {buf : Bytes} {i : Nat} {c : UInt8} {s : Bytes} (h : buf.drop i = c :: s)
    (hlt : i < buf.length) : buf[i] = c := by
  have := getv h
  rw [List.getElem?_eq_getElem hlt] at this
  simpa using this

theorem scanString_plain {buf : Bytes} {i e : Nat} {c : UInt8} {s : Bytes} (h : buf.drop i = c :: s)
    (h1 : c ≠ 0x5C) (h2 : c ≠ 0x22) : scanString buf i e = scanString buf (i + 1) e := by
  have hlt := lt_of_drop_cons h
  rw [scanString, dif_pos hlt]
  simp only [getElem_of_drop h hlt]
  have e1 : (c == 0x5C) = false := by simpa using h1
  have e2 : (c == 0x22) = false := by simpa using h2
  simp [e1, e2]

theorem scanString_quote {buf : Bytes} {i e : Nat} {s : Bytes} (h : buf.drop i = 0x22 :: s) :
    scanString buf i e = .ok (i + 1, e) := by
  have hlt := lt_of_drop_cons h
  rw [scanString, dif_pos hlt]
  simp [getElem_of_drop h hlt]

theorem scanString_esc2 {buf : Bytes} {i e : Nat} {c : UInt8} {s : Bytes}
    (h : buf.drop i = 0x5C :: c :: s) (hc : c ≠ 0x75) :
    scanString buf i e = scanString buf (i + 2) (e + 1) := by
  have hlt := lt_of_drop_cons h
  rw [scanString, dif_pos hlt]
  have e1 : (c == 0x75) = false := by simpa using hc
  simp [getElem_of_drop h hlt, next_view (drop_succ_of_drop h), e1]

theorem scanString_escU {buf : Bytes} {i e : Nat} {x : UInt8} {s : Bytes}
    (h : buf.drop i = 0x5C :: 0x75 :: x :: s) (hx : x ≠ 0x7B) :
    scanString buf i e = scanString buf (i + 6) (e + 1) := by
  have hlt := lt_of_drop_cons h
  rw [scanString, dif_pos hlt]
  have e1 : (x == 0x7B) = false := by simpa using hx
  simp [getElem_of_drop h hlt, next_view (drop_succ_of_drop h),
    next_view (drop_succ_of_drop (drop_succ_of_drop h)), e1, C.UNICODE_LEN]

theorem escByte_cases (b : UInt8) :
    (b = 0x22 ∧ escByte b = [0x5C, 0x22]) ∨ (b = 0x5C ∧ escByte b = [0x5C, 0x5C]) ∨
    (b ≠ 0x22 ∧ b ≠ 0x5C ∧ b.toNat < 0x20 ∧
      escByte b = [0x5C, 0x75, 0x30, 0x30, hexDigitByte (b.toNat / 16), hexDigitByte (b.toNat % 16)]) ∨
    (b ≠ 0x22 ∧ b ≠ 0x5C ∧ ¬ b.toNat < 0x20 ∧ escByte b = [b]) := by
  unfold escByte
  by_cases h1 : b = 0x22
  · left; simp [h1]
  · by_cases h2 : b = 0x5C
    · right; left; simp [h2]
    · by_cases h3 : b.toNat < 0x20
      · right; right; left; simp [h1, h2, h3]
      · right; right; right; simp [h1, h2, h3]

theorem scanString_escBody (buf : Bytes) (s : Bytes) :
    ∀ (i e : Nat) (rest : Bytes), buf.drop i = escBody s ++ 0x22 :: rest →
      scanString buf i e = .ok (i + (escBody s).length + 1, e + nesc s) := by
  induction s with
  | nil =>
    intro i e rest h
    simpa [escBody, nesc] using scanString_quote (e := e) (by simpa [escBody] using h)
  | cons b bs ih =>
    intro i e rest h
    simp only [escBody, List.append_assoc] at h
    rcases escByte_cases b with ⟨hb, he⟩ | ⟨hb, he⟩ | ⟨h1, h2, h3, he⟩ | ⟨h1, h2, h3, he⟩
    · subst hb
      rw [he] at h
      rw [scanString_esc2 (by simpa using h) (by decide)]
      have h' : buf.drop (i + 2) = escBody bs ++ 0x22 :: rest :=
        drop_succ_of_drop (drop_succ_of_drop (by simpa using h))
      rw [ih (i + 2) (e + 1) rest h']
      simp only [escBody, he, nesc, List.length_append, List.length_cons, List.length_nil]
      simp; omega
    · subst hb
      rw [he] at h
      rw [scanString_esc2 (by simpa using h) (by decide)]
      have h' : buf.drop (i + 2) = escBody bs ++ 0x22 :: rest :=
        drop_succ_of_drop (drop_succ_of_drop (by simpa using h))
      rw [ih (i + 2) (e + 1) rest h']
      simp only [escBody, he, nesc, List.length_append, List.length_cons, List.length_nil]
      simp; omega
    · rw [he] at h
      rw [scanString_escU (by simpa using h) (by decide)]
      have h' : buf.drop (i + 6) = escBody bs ++ 0x22 :: rest :=
        drop_succ_of_drop (drop_succ_of_drop (drop_succ_of_drop (drop_succ_of_drop
          (drop_succ_of_drop (drop_succ_of_drop (by simpa using h))))))
      rw [ih (i + 6) (e + 1) rest h']
      simp only [escBody, he, nesc, h3, List.length_append, List.length_cons, List.length_nil]
      simp; omega
    · rw [he] at h
      rw [scanString_plain (by simpa using h) h2 h1]
      have h' : buf.drop (i + 1) = escBody bs ++ 0x22 :: rest :=
        drop_succ_of_drop (by simpa using h)
      rw [ih (i + 1) e rest h']
      simp only [escBody, he, nesc, h1, h2, h3, List.length_append, List.length_cons, List.length_nil]
      simp; omega

theorem escBody_of_nesc_zero (s : Bytes) (h : nesc s = 0) : escBody s = s := by
  induction s with
  | nil => rfl
  | cons b bs ih =>
    simp only [nesc] at h
    have hb : ¬(b = 0x22 ∨ b = 0x5C ∨ b.toNat < 0x20) := by
      intro hc; rw [if_pos hc] at h; omega
    have h0 : nesc bs = 0 := by omega
    rcases escByte_cases b with ⟨hb', _⟩ | ⟨hb', _⟩ | ⟨_, _, h3, _⟩ | ⟨_, _, _, he⟩
    · exact absurd (Or.inl hb') hb
    · exact absurd (Or.inr (Or.inl hb')) hb
    · exact absurd (Or.inr (Or.inr h3)) hb
    · simp [escBody, he, ih h0]

/-! ### Strings: second pass -/

set_option maxRecDepth 100000 in
theorem decodeHexEscape_ctl : ∀ k : Fin 32,
    decodeHexEscape [0x30, 0x30, hexDigitByte (k.val / 16), hexDigitByte (k.val % 16)] 0 = .ok k.val := by
  decide

theorem encodeUtf8_ascii (k : Nat) (h : k < 0x80) : encodeUtf8 k = [UInt8.ofNat k] := by
  simp [encodeUtf8, h]

theorem parseEscaped_quote (rest : Bytes) : parseEscaped (0x22 :: rest) = .ok (rest, [0x22]) := by
  simp [parseEscaped, data0, dataFrom, encodeUtf8, C.QU]

theorem parseEscaped_bs (rest : Bytes) : parseEscaped (0x5C :: rest) = .ok (rest, [0x5C]) := by
  simp [parseEscaped, data0, dataFrom, encodeUtf8, C.BS]

theorem parseEscaped_ctl (b : UInt8) (h : b.toNat < 0x20) (rest : Bytes) :
    parseEscaped (0x75 :: 0x30 :: 0x30 :: hexDigitByte (b.toNat / 16) :: hexDigitByte (b.toNat % 16) :: rest)
      = .ok (rest, [b]) := by
  have hd := decodeHexEscape_ctl ⟨b.toNat, h⟩
  simp only at hd
  unfold parseEscaped
  simp only [data0, dataFrom, bind_ok, List.length_cons, List.drop_succ_cons, List.drop_zero]
  rw [if_pos (by omega)]
  simp only [bind_ok, u_beq_1, u_beq_2, u_beq_3, u_beq_4, u_beq_5, u_beq_6, u_beq_7, u_beq_8,
    beq_self_eq_true, Bool.false_eq_true, if_false, if_true]
  rw [readHex4_plain _ _ _ _ _ _ (by decide)]
  simp only [bind_ok]
  unfold afterHex
  rw [hd]
  simp only [bind_ok]
  rw [if_neg (by omega), if_neg (by omega), charFromU32_ok _ _ (by left; omega)]
  simp only [bind_ok, pure_eq, encodeUtf8_ascii _ (by omega : b.toNat < 0x80), UInt8.ofNat_toNat]

theorem parseStringLoop_escBody (s : Bytes) :
    ∀ (fuel : Nat) (acc : Bytes), (escBody s).length < fuel →
      parseStringLoop fuel (escBody s) acc = .ok (acc ++ s) := by
  induction s with
  | nil =>
    intro fuel acc hf
    cases fuel with
    | zero => omega
    | succ f => simp [escBody, parseStringLoop]
  | cons b bs ih =>
    intro fuel acc hf
    cases fuel with
    | zero => omega
    | succ f =>
      simp only [escBody, List.length_append] at hf
      have step : ∀ (out : Bytes) (r : Bytes), escByte b = 0x5C :: r →
          parseEscaped (r ++ escBody bs) = .ok (escBody bs, out) → out = [b] →
          parseStringLoop (f + 1) (escBody (b :: bs)) acc = .ok (acc ++ b :: bs) := by
        intro out r he hp ho
        have hlen : (escBody bs).length < f := by
          rw [he] at hf; simp only [List.length_cons] at hf; omega
        simp only [escBody, he, List.cons_append, parseStringLoop, List.isEmpty_cons, Bool.false_eq_true,
          if_false, data0, bind_ok, beq_self_eq_true, if_true, dataFrom, List.length_cons,
          List.drop_succ_cons, List.drop_zero]
        rw [if_pos (by omega)]
        simp only [bind_ok, hp, ho]
        rw [ih f (acc ++ [b]) hlen]
        simp
      rcases escByte_cases b with ⟨hb, he⟩ | ⟨hb, he⟩ | ⟨h1, h2, h3, he⟩ | ⟨h1, h2, h3, he⟩
      · exact step [b] [0x22] he (by rw [hb]; exact parseEscaped_quote _) rfl
      · exact step [b] [0x5C] he (by rw [hb]; exact parseEscaped_bs _) rfl
      · exact step [b] _ he (parseEscaped_ctl b h3 _) rfl
      · have hlen : (escBody bs).length < f := by
          rw [he] at hf; simp only [List.length_cons, List.length_nil] at hf; omega
        have hb : (b == 0x5C) = false := by simpa using h2
        simp only [escBody, he, List.cons_append, List.nil_append, parseStringLoop, List.isEmpty_cons,
          Bool.false_eq_true, if_false, data0, bind_ok, hb, dataFrom, List.length_cons,
          List.drop_succ_cons, List.drop_zero]
        rw [if_pos (by omega)]
        simp only [bind_ok]
        rw [ih f (acc ++ [b]) hlen]
        simp

theorem nesc_le (s : Bytes) : nesc s ≤ (escBody s).length := by
  induction s with
  | nil => simp [nesc, escBody]
  | cons b bs ih =>
    simp only [nesc, escBody, List.length_append]
    rcases escByte_cases b with ⟨_, he⟩ | ⟨_, he⟩ | ⟨_, _, _, he⟩ | ⟨_, _, _, he⟩ <;>
      (rw [he]; simp only [List.length_cons, List.length_nil]; split <;> omega)

/-- a rendered string at the cursor parses back to its content -/
theorem parseJsonString_render {buf : Bytes} {i : Nat} {s rest : Bytes}
    (h : buf.drop i = renderStr s ++ rest) (hu : validUtf8 s = true) :
    parseJsonString buf i = .ok (.str s, i + (renderStr s).length) := by
  have h0 : buf.drop i = 0x22 :: (escBody s ++ 0x22 :: rest) := by simpa [renderStr] using h
  have h1 := drop_succ_of_drop h0
  have hlt := lt_of_drop_cons h0
  have hm : mustIs buf i 0x22 = .ok (i + 1) := by
    unfold mustIs; rw [getv h0]; simp
  have hs := scanString_escBody buf s (i + 1) 0 rest h1
  have hlt2 := lt_of_drop_eq h1
  have hsl := slice_of_drop "parse_json_string: buf[start_idx..idx-1]" h1 (by omega)
  unfold parseJsonString
  simp only [hm, bind_ok, hs, Nat.zero_add]
  have s1 : subUsize "parse_json_string: self.idx - 1" (i + 1 + (escBody s).length + 1) 1
      = .ok (i + 1 + (escBody s).length) := by
    unfold subUsize; rw [if_neg (by omega)]; rfl
  simp only [s1, bind_ok, hsl]
  have hlenr : i + (renderStr s).length = i + 1 + (escBody s).length + 1 := by
    simp [renderStr]; omega
  rw [hlenr]
  split
  · have hn := nesc_le s
    have s3 : subUsize "parse_json_string: idx - 1 - start_idx" (i + 1 + (escBody s).length) (i + 1)
        = .ok ((escBody s).length) := by
      unfold subUsize; rw [if_neg (by omega)]; congr 1; omega
    have s4 : subUsize "parse_json_string: idx - 1 - start_idx - escapes" (escBody s).length (nesc s)
        = .ok ((escBody s).length - nesc s) := by
      unfold subUsize; rw [if_neg (by omega)]
    simp only [s3, s4, bind_ok]
    unfold parseString
    rw [parseStringLoop_escBody s _ [] (by omega)]
    simp [hu]
  · rename_i hz
    have hz : nesc s = 0 := by omega
    rw [escBody_of_nesc_zero s hz] at *
    simp [hu]

/-! ### Values -/

def renderNum : Num → Bytes
  | .int i => if i < 0 then 0x2D :: decBytes (-i).toNat else decBytes i.toNat
  | .uint n => decBytes n
  | .float _ => [0x6E, 0x75, 0x6C, 0x6C]   -- outside the domain of the theorem

mutual
/-- compact RFC 8259 text of a value -/
def render : JV → Bytes
  | .null => [0x6E, 0x75, 0x6C, 0x6C]
  | .bool true => [0x74, 0x72, 0x75, 0x65]
  | .bool false => [0x66, 0x61, 0x6C, 0x73, 0x65]
  | .num n => renderNum n
  | .str s => renderStr s
  | .arr [] => [0x5B, 0x5D]
  | .arr (v :: vs) => 0x5B :: (render v ++ renderTail vs)
  | .obj [] => [0x7B, 0x7D]
  | .obj ((k, v) :: kvs) => 0x7B :: (renderStr k ++ 0x3A :: (render v ++ renderMemTail kvs))
/-- `,v` for every remaining element, then `]` -/
def renderTail : List JV → Bytes
  | [] => [0x5D]
  | v :: vs => 0x2C :: (render v ++ renderTail vs)
/-- `,"k":v` for every remaining member, then `}` -/
def renderMemTail : List (Bytes × JV) → Bytes
  | [] => [0x7D]
  | (k, v) :: kvs => 0x2C :: (renderStr k ++ 0x3A :: (render v ++ renderMemTail kvs))
end

/-- the number the parser returns for the rendered number: non-negative `Int64` comes back as
`UInt64` -/
def expectNum : Num → Num
  | .int i => if i < 0 then .int i else .uint i.toNat
  | n => n

/-- successive `BTreeMap::insert` -/
def insertAll : List (Bytes × JV) → List (Bytes × JV) → List (Bytes × JV)
  | [], m => m
  | (k, v) :: kvs, m => insertAll kvs (insertKV k v m)

mutual
/-- the tree the parser returns for `render v`: numbers as in `expectNum`, object members
inserted one by one into the `BTreeMap` (sorted by key, last duplicate wins) -/
def expect : JV → JV
  | .null => .null
  | .bool b => .bool b
  | .num n => .num (expectNum n)
  | .str s => .str s
  | .arr vs => .arr (expectL vs)
  | .obj kvs => .obj (insertAll (expectK kvs) [])
def expectL : List JV → List JV
  | [] => []
  | v :: vs => expect v :: expectL vs
/-- members with their values mapped -/
def expectK : List (Bytes × JV) → List (Bytes × JV)
  | [] => []
  | (k, v) :: kvs => (k, expect v) :: expectK kvs
end

def okNum : Num → Bool
  | .int i => decide (-9223372036854775808 ≤ i ∧ i < 18446744073709551616)
  | .uint n => decide (n < 18446744073709551616)
  | .float _ => false

mutual
/-- domain of the completeness theorem: integers in range, strings and keys valid UTF-8 -/
def rendOk : JV → Bool
  | .null => true
  | .bool _ => true
  | .num n => okNum n
  | .str s => validUtf8 s
  | .arr vs => rendOkL vs
  | .obj kvs => rendOkK kvs
def rendOkL : List JV → Bool
  | [] => true
  | v :: vs => rendOk v && rendOkL vs
def rendOkK : List (Bytes × JV) → Bool
  | [] => true
  | (k, v) :: kvs => validUtf8 k && rendOk v && rendOkK kvs
end

/-! ### Token classes -/

def StartByte (c : UInt8) : Prop :=
  c = 0x6E ∨ c = 0x74 ∨ c = 0x66 ∨ isDigit c = true ∨ c = 0x2D ∨ c = 0x22 ∨ c = 0x5B ∨ c = 0x7B

theorem StartByte_facts {c : UInt8} (h : StartByte c) :
    isWs c = false ∧ c ≠ 0x5C ∧ (c == 0x5D) = false ∧ (c == 0x7D) = false := by
  rcases h with h | h | h | h | h | h | h | h
  case inr.inr.inr.inl =>
    have := (isDigit_iff c).mp h
    obtain ⟨h1, h2, -⟩ := digit_facts (Or.inl h)
    refine ⟨h1, h2, ?_, ?_⟩ <;>
      (simp only [beq_eq_false_iff_ne, ne_eq]; intro he; rw [he] at this; simp at this)
  all_goals (subst h; decide)

/-- what follows a value inside a compact document -/
def Delim (rest : Bytes) : Prop := ∀ c, rest.head? = some c → c = 0x2C ∨ c = 0x5D ∨ c = 0x7D

theorem Delim_nil : Delim [] := by intro c h; simp at h
theorem Delim_cons {c : UInt8} (s : Bytes) (h : c = 0x2C ∨ c = 0x5D ∨ c = 0x7D) : Delim (c :: s) := by
  intro x hx; simp only [List.head?_cons, Option.some.injEq] at hx; subst hx; exact h

theorem Delim.numEnd {rest : Bytes} (h : Delim rest) : NumEnd rest := by
  intro c hc
  rcases h c hc with h | h | h <;> (subst h; decide)

theorem Delim.tok {rest : Bytes} (h : Delim rest) : Tok rest := by
  intro c hc
  rcases h c hc with h | h | h <;> (subst h; decide)

theorem Tok_start {c : UInt8} (s : Bytes) (h : StartByte c) : Tok (c :: s) := by
  intro x hx; simp only [List.head?_cons, Option.some.injEq] at hx; subst hx
  exact ⟨(StartByte_facts h).1, (StartByte_facts h).2.1⟩

theorem decBytes_head (n : Nat) : ∃ c r, decBytes n = c :: r ∧ isDigit c = true := by
  obtain ⟨⟨ne, hall, -⟩, -, -⟩ := decBytes_spec n
  obtain ⟨c, r, e⟩ := List.exists_cons_of_ne_nil ne
  exact ⟨c, r, e, hall c (by simp [e])⟩

theorem render_head (v : JV) (hv : rendOk v = true) : ∃ c r, render v = c :: r ∧ StartByte c := by
  cases v with
  | null => exact ⟨_, _, by rw [render], Or.inl rfl⟩
  | bool b => cases b
              · exact ⟨_, _, by rw [render], Or.inr (Or.inr (Or.inl rfl))⟩
              · exact ⟨_, _, by rw [render], Or.inr (Or.inl rfl)⟩
  | num n =>
    cases n with
    | int i =>
      simp only [render, renderNum]
      split
      · exact ⟨_, _, rfl, Or.inr (Or.inr (Or.inr (Or.inr (Or.inl rfl))))⟩
      · obtain ⟨c, r, e, hd⟩ := decBytes_head i.toNat
        exact ⟨c, r, e, Or.inr (Or.inr (Or.inr (Or.inl hd)))⟩
    | uint n =>
      obtain ⟨c, r, e, hd⟩ := decBytes_head n
      exact ⟨c, r, by simpa [render, renderNum] using e, Or.inr (Or.inr (Or.inr (Or.inl hd)))⟩
    | float b => simp [rendOk, okNum] at hv
  | str s => exact ⟨_, _, by rw [render, renderStr], Or.inr (Or.inr (Or.inr (Or.inr (Or.inr (Or.inl rfl)))))⟩
  | arr vs =>
    cases vs with
    | nil => exact ⟨_, _, by rw [render], Or.inr (Or.inr (Or.inr (Or.inr (Or.inr (Or.inr (Or.inl rfl))))))⟩
    | cons v vs => exact ⟨_, _, by rw [render], Or.inr (Or.inr (Or.inr (Or.inr (Or.inr (Or.inr (Or.inl rfl))))))⟩
  | obj kvs =>
    cases kvs with
    | nil => exact ⟨_, _, by rw [render], Or.inr (Or.inr (Or.inr (Or.inr (Or.inr (Or.inr (Or.inr rfl))))))⟩
    | cons kv kvs =>
      obtain ⟨k, v⟩ := kv
      exact ⟨_, _, by rw [render], Or.inr (Or.inr (Or.inr (Or.inr (Or.inr (Or.inr (Or.inr rfl))))))⟩

/-! ### Dispatch on the first byte -/

theorem mustIs_view {buf : Bytes} {i : Nat} {c : UInt8} {s : Bytes} (h : buf.drop i = c :: s) :
    mustIs buf i c = .ok (i + 1) := by
  unfold mustIs; rw [getv h]; simp

theorem mustAll_view (buf : Bytes) (cs : List UInt8) : ∀ (i : Nat) (rest : Bytes),
    buf.drop i = cs ++ rest → mustAll buf i cs = .ok (i + cs.length) := by
  induction cs with
  | nil => intro i rest _; rfl
  | cons c cs ih =>
    intro i rest h
    unfold mustAll
    rw [mustIs_view (by simpa using h)]
    simp only [bind_ok]
    rw [ih (i + 1) rest (drop_succ_of_drop (by simpa using h))]
    simp only [List.length_cons]; congr 1; omega

theorem pv_null {buf : Bytes} {i : Nat} {rest : Bytes} (fuel : Nat)
    (h : buf.drop i = [0x6E, 0x75, 0x6C, 0x6C] ++ rest) :
    parseJsonValue (fuel + 1) buf i = .ok (.null, i + 4) := by
  simp only [parseJsonValue]
  rw [skipUnused_view h (Tok_start _ (Or.inl rfl))]
  simp only [bind_ok, next_view (by simpa using h)]
  rw [if_pos (by decide), mustAll_view buf _ i rest h]
  rfl

theorem pv_true {buf : Bytes} {i : Nat} {rest : Bytes} (fuel : Nat)
    (h : buf.drop i = [0x74, 0x72, 0x75, 0x65] ++ rest) :
    parseJsonValue (fuel + 1) buf i = .ok (.bool true, i + 4) := by
  simp only [parseJsonValue]
  rw [skipUnused_view h (Tok_start _ (Or.inr (Or.inl rfl)))]
  simp only [bind_ok, next_view (by simpa using h)]
  rw [if_neg (by decide), if_pos (by decide), mustAll_view buf _ i rest h]
  rfl

theorem pv_false {buf : Bytes} {i : Nat} {rest : Bytes} (fuel : Nat)
    (h : buf.drop i = [0x66, 0x61, 0x6C, 0x73, 0x65] ++ rest) :
    parseJsonValue (fuel + 1) buf i = .ok (.bool false, i + 5) := by
  simp only [parseJsonValue]
  rw [skipUnused_view h (Tok_start _ (Or.inr (Or.inr (Or.inl rfl))))]
  simp only [bind_ok, next_view (by simpa using h)]
  rw [if_neg (by decide), if_neg (by decide), if_pos (by decide), mustAll_view buf _ i rest h]
  rfl

theorem pv_string {buf : Bytes} {i : Nat} {s : Bytes} (fuel : Nat) (h : buf.drop i = 0x22 :: s) :
    parseJsonValue (fuel + 1) buf i = parseJsonString buf i := by
  simp only [parseJsonValue]
  rw [skipUnused_view h (Tok_start _ (Or.inr (Or.inr (Or.inr (Or.inr (Or.inr (Or.inl rfl)))))))]
  simp only [bind_ok, next_view h]
  rw [if_neg (by decide), if_neg (by decide), if_neg (by decide), if_neg (by decide), if_pos (by decide)]

theorem pv_arr {buf : Bytes} {i : Nat} {s : Bytes} (fuel : Nat) (h : buf.drop i = 0x5B :: s) :
    parseJsonValue (fuel + 1) buf i = arrLoop fuel buf (i + 1) true [] := by
  simp only [parseJsonValue]
  rw [skipUnused_view h (Tok_start _ (Or.inr (Or.inr (Or.inr (Or.inr (Or.inr (Or.inr (Or.inl rfl))))))))]
  simp only [bind_ok, next_view h]
  rw [if_neg (by decide), if_neg (by decide), if_neg (by decide), if_neg (by decide), if_neg (by decide),
    if_pos (by decide), mustIs_view h]
  rfl

theorem pv_obj {buf : Bytes} {i : Nat} {s : Bytes} (fuel : Nat) (h : buf.drop i = 0x7B :: s) :
    parseJsonValue (fuel + 1) buf i = objLoop fuel buf (i + 1) true [] := by
  simp only [parseJsonValue]
  rw [skipUnused_view h (Tok_start _ (Or.inr (Or.inr (Or.inr (Or.inr (Or.inr (Or.inr (Or.inr rfl))))))))]
  simp only [bind_ok, next_view h]
  rw [if_neg (by decide), if_neg (by decide), if_neg (by decide), if_neg (by decide), if_neg (by decide),
    if_neg (by decide), if_pos (by decide), mustIs_view h]
  rfl

/-! ### Completeness on rendered values -/

theorem len_of_drop {buf : Bytes} {i : Nat} {s : Bytes} (h : buf.drop i = s) :
    buf.length - i = s.length := by rw [← h]; simp

theorem renderTail_delim (vs : List JV) (rest : Bytes) : Delim (renderTail vs ++ rest) := by
  cases vs with
  | nil => exact Delim_cons _ (Or.inr (Or.inl rfl))
  | cons v vs => simp only [renderTail, List.cons_append]; exact Delim_cons _ (Or.inl rfl)

theorem renderMemTail_delim (kvs : List (Bytes × JV)) (rest : Bytes) :
    Delim (renderMemTail kvs ++ rest) := by
  cases kvs with
  | nil => exact Delim_cons _ (Or.inr (Or.inr rfl))
  | cons kv kvs =>
    obtain ⟨k, v⟩ := kv
    simp only [renderMemTail, List.cons_append]; exact Delim_cons _ (Or.inl rfl)

theorem render_num_parse (n : Num) (hv : okNum n = true) (f : Nat) (buf : Bytes) (i : Nat)
    (rest : Bytes) (h : buf.drop i = renderNum n ++ rest) (hd : Delim rest) :
    parseJsonValue (f + 1) buf i = .ok (.num (expectNum n), i + (renderNum n).length) := by
  cases n with
  | int z =>
    simp only [okNum, decide_eq_true_eq] at hv
    by_cases hz : z < 0
    · simp only [renderNum, hz, if_true, expectNum] at h ⊢
      obtain ⟨hl, hval, -⟩ := decBytes_spec (-z).toNat
      have h' : buf.drop i = 0x2D :: (decBytes (-z).toNat ++ rest) := by simpa using h
      rw [parseJsonValue_number f h' (Or.inr rfl),
        parseNumber_int h' hl hd.numEnd (by rw [hval]; omega)]
      rw [hval]
      have : -((-z).toNat : Int) = z := by omega
      rw [this]
      simp only [List.length_cons]
      congr 2; omega
    · simp only [renderNum, hz, if_false, expectNum] at h ⊢
      obtain ⟨hl, hval, -⟩ := decBytes_spec z.toNat
      obtain ⟨c, r, hc, hdg⟩ := decBytes_head z.toNat
      rw [parseJsonValue_number f (c := c) (s := r ++ rest) (by rw [h, hc]; simp) (Or.inl hdg),
        parseNumber_uint h hl hd.numEnd (by rw [hval]; omega), hval]
  | uint m =>
    simp only [okNum, decide_eq_true_eq] at hv
    simp only [renderNum, expectNum] at h ⊢
    obtain ⟨hl, hval, -⟩ := decBytes_spec m
    obtain ⟨c, r, hc, hdg⟩ := decBytes_head m
    rw [parseJsonValue_number f (c := c) (s := r ++ rest) (by rw [h, hc]; simp) (Or.inl hdg),
      parseNumber_uint h hl hd.numEnd (by rw [hval]; omega), hval]
  | float b => simp [okNum] at hv

mutual
theorem render_parse : (v : JV) → rendOk v = true → (fuel : Nat) → (buf : Bytes) → (i : Nat) →
    (rest : Bytes) → buf.drop i = render v ++ rest → Delim rest → 2 * (buf.length - i) + 1 ≤ fuel →
    parseJsonValue fuel buf i = .ok (expect v, i + (render v).length)
  | .null, _, fuel, buf, i, rest, h, _, hf => by
    cases fuel with
    | zero => omega
    | succ f => simpa [render, expect] using pv_null f (by simpa [render] using h)
  | .bool true, _, fuel, buf, i, rest, h, _, hf => by
    cases fuel with
    | zero => omega
    | succ f => simpa [render, expect] using pv_true f (by simpa [render] using h)
  | .bool false, _, fuel, buf, i, rest, h, _, hf => by
    cases fuel with
    | zero => omega
    | succ f => simpa [render, expect] using pv_false f (by simpa [render] using h)
  | .num n, hv, fuel, buf, i, rest, h, hd, hf => by
    cases fuel with
    | zero => omega
    | succ f =>
      simp only [render, expect] at h ⊢
      exact render_num_parse n (by simpa [rendOk] using hv) f buf i rest h hd
  | .str s, hv, fuel, buf, i, rest, h, _, hf => by
    cases fuel with
    | zero => omega
    | succ f =>
      simp only [render, expect] at h ⊢
      rw [pv_string f (by simpa [renderStr] using h : buf.drop i = 0x22 :: (escBody s ++ 0x22 :: rest))]
      exact parseJsonString_render h (by simpa [rendOk] using hv)
  | .arr [], _, fuel, buf, i, rest, h, _, hf => by
    have h0 : buf.drop i = 0x5B :: 0x5D :: rest := by simpa [render] using h
    have hlen := len_of_drop h0
    simp only [List.length_cons] at hlen
    cases fuel with
    | zero => omega
    | succ f =>
      rw [pv_arr f h0]
      cases f with
      | zero => omega
      | succ f' =>
        have h1 := drop_succ_of_drop h0
        simp only [arrLoop]
        rw [skipUnused_view h1 (Delim_cons _ (Or.inr (Or.inl rfl))).tok]
        simp only [bind_ok, next_view h1]
        rw [if_pos (by decide)]
        simp [render, expect, expectL]
  | .arr (v :: vs), hv, fuel, buf, i, rest, h, hd, hf => by
    have hv' : rendOk v = true ∧ rendOkL vs = true := by simpa [rendOk, rendOkL] using hv
    have h0 : buf.drop i = 0x5B :: (render v ++ (renderTail vs ++ rest)) := by simpa [render] using h
    have hlen := len_of_drop h0
    simp only [List.length_cons, List.length_append] at hlen
    obtain ⟨c, r, hc, hs⟩ := render_head v hv'.1
    have hvl : 1 ≤ (render v).length := by rw [hc]; simp
    cases fuel with
    | zero => omega
    | succ f =>
      rw [pv_arr f h0]
      cases f with
      | zero => omega
      | succ f' =>
        have h1 := drop_succ_of_drop h0
        have h1c : buf.drop (i + 1) = c :: (r ++ (renderTail vs ++ rest)) := by rw [h1, hc]; simp
        have facts := StartByte_facts hs
        have h2 := drop_add_of_drop h1
        simp only [arrLoop]
        rw [skipUnused_view h1c (Tok_start _ hs)]
        simp only [bind_ok, next_view h1c, facts.2.2.1, Bool.false_eq_true, if_false, Bool.not_true,
          Bool.false_and, if_true]
        rw [render_parse v hv'.1 f' buf (i + 1) (renderTail vs ++ rest) h1 (renderTail_delim vs rest)
          (by omega)]
        simp only [bind_ok]
        rw [renderTail_parse vs hv'.2 f' buf _ rest _ h2 (by omega)]
        simp only [render, expect, expectL, List.length_cons, List.length_append, List.nil_append,
          List.singleton_append]
        congr 2; omega
  | .obj [], _, fuel, buf, i, rest, h, _, hf => by
    have h0 : buf.drop i = 0x7B :: 0x7D :: rest := by simpa [render] using h
    have hlen := len_of_drop h0
    simp only [List.length_cons] at hlen
    cases fuel with
    | zero => omega
    | succ f =>
      rw [pv_obj f h0]
      cases f with
      | zero => omega
      | succ f' =>
        have h1 := drop_succ_of_drop h0
        simp only [objLoop]
        rw [skipUnused_view h1 (Delim_cons _ (Or.inr (Or.inr rfl))).tok]
        simp only [bind_ok, next_view h1]
        rw [if_pos (by decide)]
        simp [render, expect, expectK, insertAll]
  | .obj ((k, v) :: kvs), hv, fuel, buf, i, rest, h, hd, hf => by
    have hv' : validUtf8 k = true ∧ rendOk v = true ∧ rendOkK kvs = true := by
      simpa [rendOk, rendOkK, and_assoc] using hv
    have h0 : buf.drop i = 0x7B :: (renderStr k ++ 0x3A :: (render v ++ (renderMemTail kvs ++ rest))) := by
      simpa [render] using h
    have hlen := len_of_drop h0
    simp only [List.length_cons, List.length_append] at hlen
    cases fuel with
    | zero => omega
    | succ f =>
      rw [pv_obj f h0]
      cases f with
      | zero => omega
      | succ f1 =>
        have h1 := drop_succ_of_drop h0
        have h1q : buf.drop (i + 1) = 0x22 :: (escBody k ++ 0x22 :: (0x3A :: (render v ++ (renderMemTail kvs ++ rest)))) := by
          simpa [renderStr] using h1
        simp only [objLoop]
        rw [skipUnused_view h1q (Tok_start _ (Or.inr (Or.inr (Or.inr (Or.inr (Or.inr (Or.inl rfl)))))))]
        simp only [bind_ok, next_view h1q]
        rw [if_neg (by decide), if_neg (by decide)]
        simp only [if_true]
        obtain ⟨f', rfl⟩ : ∃ f', f1 = f' + 1 := ⟨f1 - 1, by omega⟩
        have hk1 : buf.drop (i + 1) = renderStr k ++ (0x3A :: (render v ++ (renderMemTail kvs ++ rest))) := h1
        have hkq : buf.drop (i + 1) = 0x22 :: (escBody k ++ 0x22 :: (0x3A :: (render v ++ (renderMemTail kvs ++ rest)))) := by
          simpa [renderStr] using hk1
        have hcolon := drop_add_of_drop hk1
        have hval := drop_succ_of_drop hcolon
        have hkl : 2 ≤ (renderStr k).length := by simp [renderStr]
        obtain ⟨cv, rv, hcv, hsv⟩ := render_head v hv'.2.1
        have hvl : 1 ≤ (render v).length := by rw [hcv]; simp
        have hmt := drop_add_of_drop hval
        rw [pv_string f' hkq, parseJsonString_render hk1 hv'.1]
        simp only [bind_ok, isString, Bool.not_true, Bool.false_eq_true, if_false]
        rw [skipUnused_view hcolon (by intro x hx; simp only [List.head?_cons, Option.some.injEq] at hx; subst hx; decide)]
        simp only [bind_ok, next_view hcolon]
        rw [if_neg (by decide)]
        rw [render_parse v hv'.2.1 (f' + 1) buf _ (renderMemTail kvs ++ rest) hval (renderMemTail_delim kvs rest)
          (by omega)]
        simp only [bind_ok, asStrUnwrap]
        rw [renderMemTail_parse kvs hv'.2.2 (f' + 1) buf _ rest _ hmt (by omega)]
        simp only [render, expect, expectK, insertAll, List.length_cons, List.length_append]
        congr 2; omega
theorem renderTail_parse : (vs : List JV) → rendOkL vs = true → (fuel : Nat) → (buf : Bytes) →
    (i : Nat) → (rest : Bytes) → (acc : List JV) → buf.drop i = renderTail vs ++ rest →
    2 * (buf.length - i) + 2 ≤ fuel →
    arrLoop fuel buf i false acc = .ok (.arr (acc ++ expectL vs), i + (renderTail vs).length)
  | [], _, fuel, buf, i, rest, acc, h, hf => by
    have h0 : buf.drop i = 0x5D :: rest := by simpa [renderTail] using h
    cases fuel with
    | zero => omega
    | succ f =>
      simp only [arrLoop]
      rw [skipUnused_view h0 (Delim_cons _ (Or.inr (Or.inl rfl))).tok]
      simp only [bind_ok, next_view h0]
      rw [if_pos (by decide)]
      simp [renderTail, expectL]
  | v :: vs, hv, fuel, buf, i, rest, acc, h, hf => by
    have hv' : rendOk v = true ∧ rendOkL vs = true := by simpa [rendOkL] using hv
    have h0 : buf.drop i = 0x2C :: (render v ++ (renderTail vs ++ rest)) := by simpa [renderTail] using h
    have hlen := len_of_drop h0
    simp only [List.length_cons, List.length_append] at hlen
    obtain ⟨c, r, hc, hs⟩ := render_head v hv'.1
    have hvl : 1 ≤ (render v).length := by rw [hc]; simp
    cases fuel with
    | zero => omega
    | succ f =>
      have h1 := drop_succ_of_drop h0
      have h2 := drop_add_of_drop h1
      simp only [arrLoop]
      rw [skipUnused_view h0 (Delim_cons _ (Or.inl rfl)).tok]
      simp only [bind_ok, next_view h0]
      rw [if_neg (by decide), if_neg (by decide)]
      simp only [Bool.false_eq_true, if_false]
      rw [render_parse v hv'.1 f buf (i + 1) (renderTail vs ++ rest) h1 (renderTail_delim vs rest)
        (by omega)]
      simp only [bind_ok]
      rw [renderTail_parse vs hv'.2 f buf _ rest _ h2 (by omega)]
      simp only [renderTail, expectL, List.length_cons, List.length_append, List.append_assoc,
        List.singleton_append]
      congr 2; omega
theorem renderMemTail_parse : (kvs : List (Bytes × JV)) → rendOkK kvs = true → (fuel : Nat) →
    (buf : Bytes) → (i : Nat) → (rest : Bytes) → (m : List (Bytes × JV)) →
    buf.drop i = renderMemTail kvs ++ rest → 2 * (buf.length - i) + 2 ≤ fuel →
    objLoop fuel buf i false m
      = .ok (.obj (insertAll (expectK kvs) m), i + (renderMemTail kvs).length)
  | [], _, fuel, buf, i, rest, m, h, hf => by
    have h0 : buf.drop i = 0x7D :: rest := by simpa [renderMemTail] using h
    cases fuel with
    | zero => omega
    | succ f =>
      simp only [objLoop]
      rw [skipUnused_view h0 (Delim_cons _ (Or.inr (Or.inr rfl))).tok]
      simp only [bind_ok, next_view h0]
      rw [if_pos (by decide)]
      simp [renderMemTail, expectK, insertAll]
  | (k, v) :: kvs, hv, fuel, buf, i, rest, m, h, hf => by
    have hv' : validUtf8 k = true ∧ rendOk v = true ∧ rendOkK kvs = true := by
      simpa [rendOkK, and_assoc] using hv
    have h0 : buf.drop i = 0x2C :: (renderStr k ++ 0x3A :: (render v ++ (renderMemTail kvs ++ rest))) := by
      simpa [renderMemTail] using h
    have hlen := len_of_drop h0
    simp only [List.length_cons, List.length_append] at hlen
    cases fuel with
    | zero => omega
    | succ f1 =>
        have h1 := drop_succ_of_drop h0
        simp only [objLoop]
        rw [skipUnused_view h0 (Delim_cons _ (Or.inl rfl)).tok]
        simp only [bind_ok, next_view h0]
        rw [if_neg (by decide), if_neg (by decide)]
        simp only [Bool.false_eq_true, if_false]
        obtain ⟨f', rfl⟩ : ∃ f', f1 = f' + 1 := ⟨f1 - 1, by omega⟩
        have hk1 : buf.drop (i + 1) = renderStr k ++ (0x3A :: (render v ++ (renderMemTail kvs ++ rest))) := h1
        have hkq : buf.drop (i + 1) = 0x22 :: (escBody k ++ 0x22 :: (0x3A :: (render v ++ (renderMemTail kvs ++ rest)))) := by
          simpa [renderStr] using hk1
        have hcolon := drop_add_of_drop hk1
        have hval := drop_succ_of_drop hcolon
        have hkl : 2 ≤ (renderStr k).length := by simp [renderStr]
        obtain ⟨cv, rv, hcv, hsv⟩ := render_head v hv'.2.1
        have hvl : 1 ≤ (render v).length := by rw [hcv]; simp
        have hmt := drop_add_of_drop hval
        rw [pv_string f' hkq, parseJsonString_render hk1 hv'.1]
        simp only [bind_ok, isString, Bool.not_true, Bool.false_eq_true, if_false]
        rw [skipUnused_view hcolon (by intro x hx; simp only [List.head?_cons, Option.some.injEq] at hx; subst hx; decide)]
        simp only [bind_ok, next_view hcolon]
        rw [if_neg (by decide)]
        rw [render_parse v hv'.2.1 (f' + 1) buf _ (renderMemTail kvs ++ rest) hval (renderMemTail_delim kvs rest)
          (by omega)]
        simp only [bind_ok, asStrUnwrap]
        rw [renderMemTail_parse kvs hv'.2.2 (f' + 1) buf _ rest _ hmt (by omega)]
        simp only [renderMemTail, expectK, insertAll, List.length_cons, List.length_append]
        congr 2; omega
end

end JP

open JP in
/-- **Completeness on the compact renderer**: for every value in the renderer's domain
(integers in range, no floats, strings and keys valid UTF-8), the compact RFC 8259 text parses
successfully to the expected tree. -/
theorem parseValue_render (v : JV) (hv : rendOk v = true) :
    parseValue (render v) = .ok (expect v) := by
  have h := render_parse v hv (fuelFor (render v)) (render v) 0 [] (by simp) Delim_nil
    (by unfold fuelFor; omega)
  unfold parseValue
  rw [h]
  simp only [bind_ok, Nat.zero_add]
  rw [skipUnused_view (s := []) (by simp) Tok_nil]
  simp

end Jsonb
