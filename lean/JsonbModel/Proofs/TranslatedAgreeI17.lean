/-
Phase 6c, editors: `build_object` (generic over `IntoIterator` and `K: AsRef<str>`: translated for a list of
(key, bytes) pairs) against `Fn.buildObject` / `Fn.insertDoc` / `Fn.partsOf` of Functions/Edit.lean.
-/
import JsonbModel.Proofs.TranslatedAgreeI16

set_option linter.unusedSimpArgs false
set_option linter.unusedVariables false

namespace Jsonb.TrAgree
open Jsonb.Rs

/-- `BTreeMap<String, &[u8]>::insert` on the key-sorted entry list is the model's `insertDoc` -/
theorem btreeInsert_insertDoc (k v : Bytes) : ∀ (m : List (Bytes × Bytes)), Rs.btreeInsert m k v = Fn.insertDoc k v m
  | [] => rfl
  | (k', v') :: rest => by
    simp only [Rs.btreeInsert, Fn.insertDoc, cmpBytes_eq_lexCmp]
    cases lexCmp k k' with
    | lt => rfl
    | eq => rfl
    | gt => simp only [btreeInsert_insertDoc k v rest]

theorem btreeCollect_insertDoc (items : List (Bytes × Bytes)) :
    Rs.btreeCollect items = items.foldl (fun m kv => Fn.insertDoc kv.1 kv.2 m) [] := by
  unfold Rs.btreeCollect Rs.btreeNew
  generalize ([] : List (Bytes × Bytes)) = acc
  induction items generalizing acc with
  | nil => rfl
  | cons kv rest ih => simp only [List.foldl_cons, btreeInsert_insertDoc, ih]

theorem insertDoc_length (k v : Bytes) : ∀ (m : List (Bytes × Bytes)), (Fn.insertDoc k v m).length ≤ m.length + 1
  | [] => by simp [Fn.insertDoc]
  | (k', v') :: rest => by
    have := insertDoc_length k v rest
    simp only [Fn.insertDoc]
    cases lexCmp k k' with
    | lt => simp
    | eq => simp
    | gt => simp; omega

theorem foldl_insertDoc_length : ∀ (items acc : List (Bytes × Bytes)),
    (items.foldl (fun m kv => Fn.insertDoc kv.1 kv.2 m) acc).length ≤ acc.length + items.length
  | [], acc => by simp
  | kv :: rest, acc => by
    have h1 := insertDoc_length kv.1 kv.2 acc
    have h2 := foldl_insertDoc_length rest (Fn.insertDoc kv.1 kv.2 acc)
    simp only [List.foldl_cons, List.length_cons]
    omega

/-- `(STRING_TAG | key.len() as u32).to_be_bytes()` -/
theorem string_word_bytes (n : Nat) :
    Rs.toBeBytes .u32 (Rs.bitor ((C.STRING_TAG : Nat) : Int) (Rs.cast .u32 ((n : Nat) : Int))) =
      u32be (C.STRING_TAG ||| (n % 4294967296)) := by
  have h1 : C.STRING_TAG < 4294967296 := by decide
  have h2 : n % 4294967296 < 4294967296 := Nat.mod_lt _ (by omega)
  rw [cast_u32_nat, Rs.bitor_natCast, Rs.toBeBytes_u32_nat _ (or_lt_u32 _ _ h1 h2)]
  rfl

/-- the model's `partsOf`, keeping the entry words apart (the source queues them) -/
def partWords : List Bytes → Res (List Bytes × Bytes)
  | [] => .ok ([], [])
  | v :: vs =>
    match Fn.partOf v with
    | .ok (w, d) => (partWords vs).map (fun (ws, ds) => (w :: ws, d ++ ds))
    | .err e => .err e
    | .panic s => .panic s
    | .fuel => .fuel

theorem partsOf_eq_words : ∀ (vs : List Bytes), Fn.partsOf vs = (partWords vs).map (fun p => (p.1.flatten, p.2))
  | [] => rfl
  | v :: vs => by
    rw [Fn.partsOf, partWords]
    cases Fn.partOf v with
    | ok wd =>
      obtain ⟨w, d⟩ := wd
      dsimp only
      rw [partsOf_eq_words vs]
      cases partWords vs with
      | ok q => obtain ⟨ws, ds⟩ := q; simp [Res.map, Res.bind]
      | err e => rfl
      | panic s => rfl
      | fuel => rfl
    | err e => rfl
    | panic s => rfl
    | fuel => rfl

theorem partWords_length : ∀ (vs : List Bytes) (ws : List Bytes) (ds : Bytes), partWords vs = .ok (ws, ds) →
    ws.length = vs.length ∧ ∀ w ∈ ws, w.length = 4
  | [], ws, ds, h => by
    simp only [partWords, Res.ok.injEq, Prod.mk.injEq] at h
    rw [← h.1]; simp
  | v :: vs, ws, ds, h => by
    rw [partWords] at h
    cases hp : Fn.partOf v with
    | ok wd =>
      obtain ⟨w, d⟩ := wd
      rw [hp] at h
      dsimp only at h
      cases hr : partWords vs with
      | ok q =>
        obtain ⟨ws', ds'⟩ := q
        rw [hr] at h
        simp only [Res.map, Res.bind, Res.ok.injEq, Prod.mk.injEq] at h
        obtain ⟨a, b⟩ := partWords_length vs ws' ds' hr
        rw [← h.1]
        refine ⟨by simp [a], fun x hx => ?_⟩
        simp only [List.mem_cons] at hx
        rcases hx with rfl | hx
        · exact partOf_word_length v x d hp
        · exact b x hx
      | err e => rw [hr] at h; cases h
      | panic s => rw [hr] at h; cases h
      | fuel => rw [hr] at h; cases h
    | err e => rw [hp] at h; cases h
    | panic s => rw [hp] at h; cases h
    | fuel => rw [hp] at h; cases h

/-- the key words and key bytes of the model -/
def keyWordsOf (m : List (Bytes × Bytes)) : Bytes := (m.map (fun kv => u32be (C.STRING_TAG ||| (kv.1.length % 4294967296)))).flatten
def keyBytesOf (m : List (Bytes × Bytes)) : Bytes := (m.map (·.1)).flatten

/-- one iteration of the member loop of `build_object` -/
theorem bo_loop1_step (kv : Bytes × Bytes) (buf kd vd : Bytes) (vj : List Bytes) (len : Nat)
    (hlen : kv.2.length < 9223372036854775808) :
    Tr.build_object_into.loop1 kv (buf, kd, vd, vj, ((len : Nat) : Int)) =
      match Fn.partOf kv.2 with
      | .ok (w, d) =>
        if len + 1 < 4294967296 then
          Ctl.val (.next (buf ++ u32be (C.STRING_TAG ||| (kv.1.length % 4294967296)), kd ++ kv.1, vd ++ d, vj ++ [w],
            ((len + 1 : Nat) : Int)))
        else Ctl.ret (.panic "attempt to add with overflow")
      | .err e => Ctl.ret (.err e)
      | .panic s => Ctl.ret (.panic s)
      | .fuel => Ctl.ret .fuel := by
  obtain ⟨key, value⟩ := kv
  unfold Tr.build_object_into.loop1 Fn.partOf
  dsimp only
  rw [read_u32_zero]
  cases hr : readU32At value 0 with
  | none => simp only [Ctl.ofRes_err', Ctl.ret_bind', Rs.loopStep_err']
  | some h =>
    have h4 : ((4 : Nat) : Int) = 4 := rfl
    have h8 : ((8 : Nat) : Int) = 8 := rfl
    have h1 : ((1 : Nat) : Int) = 1 := rfl
    have hadd : Rs.add .u32 ((len : Nat) : Int) ((1 : Nat) : Int) =
        if len + 1 < 4294967296 then .ok (((len + 1 : Nat)) : Int) else .panic "attempt to add with overflow" := by
      unfold Rs.add Rs.checked
      by_cases hc : len + 1 < 4294967296
      · rw [if_pos hc, if_pos (by rw [Rs.inRange_iff]; simp [IntTy.minVal, IntTy.maxVal, IntTy.signed, IntTy.bits]; omega)]
        simp
      · rw [if_neg hc, if_neg (by rw [Rs.inRange_iff]; simp [IntTy.minVal, IntTy.maxVal, IntTy.signed, IntTy.bits]; omega)]
    simp only [Ctl.ofRes_ok', Ctl.val_bind', hdrType_eq, ← h4, ← h8, ← h1, hadd, Rs.len, container_word_bytes, string_word_bytes,
      Rs.extendFromSlice, Rs.pushBack]
    simp only [Bool.or_eq_true, decide_eq_true_eq]
    by_cases hS : hdrType h = C.SCALAR_CONTAINER_TAG
    · simp only [if_pos hS, slice_model]
      by_cases h8l : 8 ≤ value.length
      · have hs : Jsonb.slice value 4 8 = .ok ((value.drop 4).take 4) := by
          unfold Jsonb.slice; rw [if_pos ⟨by omega, h8l⟩]
        have hsl : ((value.drop 4).take 4).length = 4 := by simp; omega
        simp only [hs, sliceFrom_nat value 8 h8l, (sliceFrom_eight value h8l).2, Ctl.ofRes_ok', Ctl.val_bind',
          Rs.tryIntoArray_of_length 4 _ hsl, Rs.unwrap, Ctl.pure_eq']
        by_cases hc : len + 1 < 4294967296
        · simp only [if_pos hc, Ctl.ofRes_ok', Ctl.val_bind', Rs.loopStep_val']
        · simp only [if_neg hc, Ctl.ofRes_panic', Ctl.ret_bind', Rs.loopStep_panic']
      · have hs : Jsonb.slice value 4 8 = .panic "slice index out of range" := by
          unfold Jsonb.slice; rw [if_neg (fun c => h8l c.2)]
        simp only [hs, Ctl.ofRes_panic', Ctl.ret_bind', Rs.loopStep_panic']
    · simp only [if_neg hS]
      by_cases hC : hdrType h = C.ARRAY_CONTAINER_TAG ∨ hdrType h = C.OBJECT_CONTAINER_TAG
      · simp only [if_pos hC, Ctl.pure_eq', Ctl.val_bind']
        by_cases hc : len + 1 < 4294967296
        · simp only [if_pos hc, Ctl.ofRes_ok', Ctl.val_bind', Rs.loopStep_val']
        · simp only [if_neg hc, Ctl.ofRes_panic', Ctl.ret_bind', Rs.loopStep_panic']
      · simp only [if_neg hC, Ctl.ret_bind', Rs.loopStep_err']

/-- the member loop: key words into `buf`, key bytes, value data and value words collected -/
theorem bo_loop1_run : ∀ (m : List (Bytes × Bytes)) (buf kd vd : Bytes) (vj : List Bytes) (len : Nat),
    (∀ kv ∈ m, kv.2.length < 9223372036854775808) → len + m.length < 4294967296 →
    (Rs.forIn m (buf, kd, vd, vj, ((len : Nat) : Int)) Tr.build_object_into.loop1 :
        Ctl Bytes (Bytes × Bytes × Bytes × List Bytes × Int)) =
      match partWords (m.map (·.2)) with
      | .ok (ws, ds) => Ctl.val (buf ++ keyWordsOf m, kd ++ keyBytesOf m, vd ++ ds, vj ++ ws, ((len + m.length : Nat) : Int))
      | .err e => Ctl.ret (.err e)
      | .panic s => Ctl.ret (.panic s)
      | .fuel => Ctl.ret .fuel
  | [], buf, kd, vd, vj, len, _, _ => by simp [Rs.forIn_nil, partWords, keyWordsOf, keyBytesOf]
  | kv :: rest, buf, kd, vd, vj, len, hb, hl => by
    simp only [List.length_cons] at hl
    have hstep := bo_loop1_step kv buf kd vd vj len (hb kv List.mem_cons_self)
    rw [List.map_cons, partWords]
    cases hp : Fn.partOf kv.2 with
    | ok wd =>
      obtain ⟨w, d⟩ := wd
      rw [hp] at hstep
      dsimp only at hstep ⊢
      rw [if_pos (by omega)] at hstep
      rw [Rs.forIn_next _ _ _ _ _ hstep, bo_loop1_run rest _ _ _ _ (len + 1)
        (fun x hx => hb x (List.mem_cons_of_mem _ hx)) (by omega)]
      cases partWords (rest.map (·.2)) with
      | ok q =>
        obtain ⟨ws, ds⟩ := q
        simp only [Res.map, Res.bind, List.append_assoc, List.length_cons, keyWordsOf, keyBytesOf, List.map_cons,
          List.flatten_cons, List.singleton_append]
        congr 6
        omega
      | err e => rfl
      | panic s => rfl
      | fuel => rfl
    | err e => rw [hp] at hstep; exact Rs.forIn_ret _ _ _ _ _ hstep
    | panic s => rw [hp] at hstep; exact Rs.forIn_ret _ _ _ _ _ hstep
    | fuel => rw [hp] at hstep; exact Rs.forIn_ret _ _ _ _ _ hstep

theorem bo_loop2_step (idx k : Nat) (b : UInt8) (buf : Bytes) (h : idx + k < buf.length) (hl : buf.length < 18446744073709551616) :
    Tr.build_object_into.loop2 (idx : Int) ((k : Int), ((b.toNat : Nat) : Int)) buf = Ctl.val (.next (buf.set (idx + k) b)) := by
  unfold Tr.build_object_into.loop2
  dsimp only
  simp only [Rs.add_usize_nat _ _ (show idx + k < 18446744073709551616 by omega), Ctl.ofRes_ok', Ctl.val_bind', setIndex_nat,
    if_pos h, Ctl.pure_eq', Rs.loopStep_val']

/-- `while let Some(w) = val_jentries.pop_front() { buf.extend_from_slice(&w) }` -/
theorem bo_loop3_run : ∀ (vj : List Bytes) (n : Nat) (buf : Bytes), vj.length < n →
    (Rs.whileFuel n (vj, buf) Tr.build_object_into.loop3 : Ctl Bytes (List Bytes × Bytes)) = Ctl.val ([], buf ++ vj.flatten)
  | [], n, buf, h => by
    obtain ⟨n, rfl⟩ : ∃ m, n = m + 1 := ⟨n - 1, by simp at h; omega⟩
    have hs : Tr.build_object_into.loop3 ([], buf) = (Ctl.val (.done ([], buf)) : Ctl Bytes (Step (List Bytes × Bytes))) := by
      unfold Tr.build_object_into.loop3
      simp only [Rs.popFront, Rs.loopStep_brk']
    rw [Rs.whileFuel_done _ _ _ _ hs]
    simp
  | w :: rest, n, buf, h => by
    obtain ⟨n, rfl⟩ : ∃ m, n = m + 1 := ⟨n - 1, by simp at h; omega⟩
    have hs : Tr.build_object_into.loop3 (w :: rest, buf) = (Ctl.val (.next (rest, buf ++ w)) : Ctl Bytes (Step (List Bytes × Bytes))) := by
      unfold Tr.build_object_into.loop3
      simp only [Rs.popFront, Rs.extendFromSlice, Ctl.pure_eq', Rs.loopStep_val']
    rw [Rs.whileFuel_next _ _ _ _ hs, bo_loop3_run rest n (buf ++ w) (by simp at h; omega)]
    simp

/-- the body of `build_object` (the private `build_object_into`, for a list of (key, bytes) pairs) is the model's
`buildObject` -/
theorem build_object_into_agrees (items : List (Bytes × Bytes)) (buf : Bytes)
    (hn : items.length < 4294967296) (hb : buf.length < 4611686018427387904)
    (hi : ∀ kv ∈ items, kv.2.length < 9223372036854775808) :
    Tr.build_object_into items buf = Fn.buildObject items buf := by
  unfold Tr.build_object_into Fn.buildObject
  have h4 : ((4 : Nat) : Int) = 4 := rfl
  have h0 : ((0 : Nat) : Int) = 0 := rfl
  have hid : List.map (fun (x : Bytes × Bytes) => (x.1, x.2)) items = items := by simp
  simp only [Rs.len, ← h4, Rs.add_usize_nat buf.length 4 (by omega), Ctl.ofRes_ok', Ctl.val_bind',
    resize_zeros buf 4 _ rfl, hid, btreeCollect_insertDoc]
  generalize hm : items.foldl (fun m kv => Fn.insertDoc kv.1 kv.2 m) [] = m
  have hml : m.length ≤ items.length := by
    have := foldl_insertDoc_length items []
    rw [hm] at this
    simpa using this
  -- the values of the map are values of the input
  have hmv : ∀ kv ∈ m, kv.2.length < 9223372036854775808 := by
    have key : ∀ (its acc : List (Bytes × Bytes)), (∀ kv ∈ its, kv.2.length < 9223372036854775808) →
        (∀ kv ∈ acc, kv.2.length < 9223372036854775808) →
        ∀ kv ∈ its.foldl (fun m kv => Fn.insertDoc kv.1 kv.2 m) acc, kv.2.length < 9223372036854775808 := by
      intro its
      induction its with
      | nil => intro acc _ ha; simpa using ha
      | cons x rest ih =>
        intro acc h1 h2
        simp only [List.foldl_cons]
        refine ih _ (fun kv hkv => h1 kv (List.mem_cons_of_mem _ hkv)) ?_
        have hx := h1 x List.mem_cons_self
        clear ih h1
        induction acc with
        | nil => intro kv hkv; simp only [Fn.insertDoc, List.mem_singleton] at hkv; subst hkv; exact hx
        | cons a acc iha =>
          intro kv hkv
          simp only [Fn.insertDoc] at hkv
          cases hc : lexCmp x.1 a.1 with
          | lt =>
            rw [hc] at hkv
            simp only [List.mem_cons] at hkv
            rcases hkv with rfl | rfl | h
            · exact hx
            · exact h2 _ List.mem_cons_self
            · exact h2 _ (List.mem_cons_of_mem _ h)
          | eq =>
            rw [hc] at hkv
            simp only [List.mem_cons] at hkv
            rcases hkv with rfl | h
            · exact hx
            · exact h2 _ (List.mem_cons_of_mem _ h)
          | gt =>
            rw [hc] at hkv
            simp only [List.mem_cons] at hkv
            rcases hkv with rfl | h
            · exact h2 _ List.mem_cons_self
            · exact iha (fun y hy => h2 y (List.mem_cons_of_mem _ hy)) kv h
    rw [← hm]
    exact key items [] hi (by simp)
  rw [← h0, bo_loop1_run m (buf ++ zeros 4) [] [] [] 0 hmv (by omega), partsOf_eq_words]
  cases hp : partWords (m.map (·.2)) with
  | err e => simp only [Ctl.ret_bind', Ctl.run_ret', Res.map, Res.bind]
  | panic s => simp only [Ctl.ret_bind', Ctl.run_ret', Res.map, Res.bind]
  | fuel => simp only [Ctl.ret_bind', Ctl.run_ret', Res.map, Res.bind]
  | ok q =>
    obtain ⟨ws, ds⟩ := q
    obtain ⟨hwl, hw4⟩ := partWords_length _ ws ds hp
    simp only [List.length_map] at hwl
    have hO : C.OBJECT_CONTAINER_TAG < 4294967296 := by decide
    have hmn : m.length < 4294967296 := by omega
    have hw := or_lt_u32 C.OBJECT_CONTAINER_TAG m.length hO hmn
    have hmod : m.length % 4294967296 = m.length := Nat.mod_eq_of_lt hmn
    have hkwl : (keyWordsOf m).length = 4 * m.length := by
      unfold keyWordsOf
      clear hm hml hmv hp hwl hmn hw hmod
      induction m with
      | nil => rfl
      | cons a m ih => simp only [List.map_cons, List.flatten_cons, List.length_append, u32be_length, ih, List.length_cons]; omega
    simp only [Ctl.val_bind', Nat.zero_add, Rs.bitor_natCast, Nat.or_comm m.length C.OBJECT_CONTAINER_TAG, Rs.toBeBytes_u32_nat _ hw, Rs.enumerate, List.nil_append, hmod,
      Res.map, Res.bind]
    have hrun := patch_run (ρ := Bytes) buf.length (Tr.build_object_into.loop2 (buf.length : Int))
      (fun k b bf h hl => bo_loop2_step buf.length k b bf h hl) (beN 4 (C.OBJECT_CONTAINER_TAG ||| m.length)) 0
      (buf ++ zeros 4 ++ keyWordsOf m) (by simp [zeros, beN]) (by simp [zeros]; omega)
    rw [hrun]
    have hmid := setBytes_mid buf (zeros 4) (keyWordsOf m) (beN 4 (C.OBJECT_CONTAINER_TAG ||| m.length)) (by simp [zeros, beN])
    simp only [Nat.add_zero, List.append_assoc] at hmid ⊢
    rw [hmid]
    simp only [Ctl.val_bind']
    rw [bo_loop3_run ws _ _ (by simp [Rs.len])]
    simp only [Ctl.val_bind', Rs.extendFromSlice, Ctl.run_ret', u32be, List.append_assoc, keyWordsOf, keyBytesOf]

/-- the public `build_object` — `let start = buf.len(); let res = build_object_into(items, buf); if res.is_err() {
buf.truncate(start); } res` — is translated as the outcome of `build_object_into` (the buffer is carried by `.ok` only) -/
theorem build_object_eq_into (items : List (Bytes × Bytes)) (buf : Bytes) :
    Tr.build_object items buf = Tr.build_object_into items buf := rfl

/-- **`build_object`** (for a list of (key, bytes) pairs) is the model's `buildObject` -/
theorem build_object_agrees (items : List (Bytes × Bytes)) (buf : Bytes)
    (hn : items.length < 4294967296) (hb : buf.length < 4611686018427387904)
    (hi : ∀ kv ∈ items, kv.2.length < 9223372036854775808) :
    Tr.build_object items buf = Fn.buildObject items buf := by
  rw [build_object_eq_into]
  exact build_object_into_agrees items buf hn hb hi

end Jsonb.TrAgree
