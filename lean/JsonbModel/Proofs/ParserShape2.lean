/-
The shape of the ASTs built by `parse_json_path`, part 3: the leaves.

The Lean ASTs `Index (n : Int)`, `Num.uint (n : Nat)`, `Num.int (i : Int)`, names as `Bytes` are
wider than the Rust types (`i32`, `u64`, `i64`, `Cow<str>`).  `typedPaths jp` says that every leaf
of `jp` is a value of the Rust type: every `Index` is an `i32`, every integer literal a `u64` /
`i64`, every name and every string literal valid UTF-8.  The model of the parser only builds such
ASTs (`parseJsonPath_typed`) — which is what makes e.g. "arithmetic in i64 cannot overflow" in the
model of `convert_index` faithful.  (`Num.float` bit patterns are not bounded here.)
No Mathlib.
-/
import JsonbModel.Proofs.ParserShape1

namespace Jsonb
set_option autoImplicit false

/-! ### the typed leaves -/

def i32ok (n : Int) : Bool := decide (-2147483648 ≤ n) && decide (n ≤ 2147483647)
def i64ok (n : Int) : Bool := decide (-9223372036854775808 ≤ n) && decide (n ≤ 9223372036854775807)
def u64ok (n : Nat) : Bool := decide (n ≤ 18446744073709551615)

def typedIndex : Index → Bool
  | .index n | .last n => i32ok n

def typedArrayIndex : ArrayIndex → Bool
  | .index i => typedIndex i
  | .slice s e => typedIndex s && typedIndex e

def typedValue : PathValue → Bool
  | .num (.uint v) => u64ok v
  | .num (.int v) => i64ok v
  | .str s => validUtf8 s
  | _ => true

mutual
def typedPath : Path → Bool
  | .dotField s | .colonField s | .objectField s => validUtf8 s
  | .arrayIndices is => is.all typedArrayIndex
  | .arithmeticExpr e | .filterExpr e | .predicate e => typedExpr e
  | _ => true
def typedExpr : Expr → Bool
  | .paths ps | .existsFn ps => typedPaths ps
  | .value v => typedValue v
  | .binaryOp _ l r | .arithBinary _ l r => typedExpr l && typedExpr r
  | .arithUnary _ e => typedExpr e
/-- every `Index` is an `i32`, every integer literal a `u64`/`i64`, every name and string
literal valid UTF-8 — everywhere in the path -/
def typedPaths : List Path → Bool
  | [] => true
  | p :: ps => typedPath p && typedPaths ps
end

theorem typedPaths_of_forall : ∀ (ps : List Path), (∀ p ∈ ps, typedPath p = true) → typedPaths ps = true
  | [], _ => by simp [typedPaths]
  | p :: ps, h => by
    simp only [typedPaths, Bool.and_eq_true]
    exact ⟨h p (by simp), typedPaths_of_forall ps (fun q hq => h q (by simp [hq]))⟩

namespace PShape
open Nom PathParser

/-! ### numbers -/

theorem intLoop_range (neg : Bool) (lo hi : Int) : ∀ (bs : Bytes) (v : Int) (first : Bool) (v' : Int)
    (t : Bytes), lo ≤ v ∧ v ≤ hi → intLoop neg lo hi bs v first = .ok v' t → lo ≤ v' ∧ v' ≤ hi
  | [], v, _, v', t, hv, h => by
    simp only [intLoop, PR.ok.injEq] at h
    rw [← h.1]; exact hv
  | b :: r, v, first, v', t, hv, h => by
    unfold intLoop at h
    split at h
    · split at h
      · cases h
      · split at h
        · cases h
        · rename_i h1 h2
          refine intLoop_range neg lo hi r _ false v' t ?_ h
          omega
    · split at h
      · cases h
      · simp only [PR.ok.injEq] at h
        rw [← h.1]; exact hv

theorem out_signedInt (lo hi : Int) (h0 : lo ≤ 0 ∧ 0 ≤ hi) :
    Out (fun v => lo ≤ v ∧ v ≤ hi) (signedInt lo hi) := by
  intro i v t h
  unfold signedInt at h
  split at h
  · cases h
  · exact intLoop_range _ lo hi _ 0 true v t h0 h

theorem out_unsignedInt (hi : Int) (h0 : 0 ≤ hi) : Out (fun v => 0 ≤ v ∧ v ≤ hi) (unsignedInt hi) := by
  intro i v t h
  unfold unsignedInt at h
  split at h
  · cases h
  · exact intLoop_range _ 0 hi _ 0 true v t ⟨Int.le_refl 0, h0⟩ h

theorem out_i32 : Out (fun v => i32ok v = true) i32 := by
  refine out_mono (out_signedInt _ _ (by decide)) ?_
  intro v hv
  simp only [i32ok, Bool.and_eq_true, decide_eq_true_eq]; exact hv

theorem out_i64 : Out (fun v => i64ok v = true) i64 := by
  refine out_mono (out_signedInt _ _ (by decide)) ?_
  intro v hv
  simp only [i64ok, Bool.and_eq_true, decide_eq_true_eq]; exact hv

theorem out_u64 : Out (fun v => u64ok v = true) u64 := by
  unfold u64
  refine out_map (out_unsignedInt _ (by decide)) ?_
  intro v hv
  simp only [u64ok, decide_eq_true_eq]
  omega

/-! ### names and string literals -/

theorem parseString_valid (d s : Bytes) (h : PathStr.parseString d = .ok s) : validUtf8 s = true := by
  unfold PathStr.parseString at h
  cases hl : PathStr.parseStringLoop (d.length + 1) d [] with
  | ok buf =>
    rw [hl] at h
    simp only [Res.bind] at h
    split at h
    · rename_i hv
      simp only [Res.ok.injEq] at h
      rw [← h]; exact hv
    · cases h
  | err e => rw [hl] at h; simp [Res.bind] at h
  | panic e => rw [hl] at h; simp [Res.bind] at h
  | fuel => rw [hl] at h; simp [Res.bind] at h

theorem ofRes_valid (d rest s t : Bytes) (h : ofRes (PathStr.parseString d) rest = .ok s t) :
    validUtf8 s = true := by
  unfold ofRes at h
  split at h
  · rename_i a ha
    simp only [PR.ok.injEq] at h
    rw [← h.1]; exact parseString_valid d a ha
  all_goals cases h

/-- `raw_string` returns a `Cow<str>`: valid UTF-8 -/
theorem out_rawString : Out (fun s => validUtf8 s = true) rawString := by
  intro i s t h
  unfold rawString at h
  split at h
  · split at h
    · split at h
      · cases h
      · split at h
        · split at h
          · rename_i hv
            simp only [PR.ok.injEq] at h
            rw [← h.1]; exact hv
          · cases h
        · split at h
          · cases h
          · exact ofRes_valid _ _ s t h
    · cases h
  all_goals cases h

/-- `string` returns a `Cow<str>`: valid UTF-8 -/
theorem out_string : Out (fun s => validUtf8 s = true) string := by
  intro i s t h
  unfold string at h
  split at h
  · cases h
  · split at h
    · cases h
    · split at h
      · split at h
        · split at h
          · split at h
            · rename_i hv
              simp only [PR.ok.injEq] at h
              rw [← h.1]; exact hv
            · cases h
          · split at h
            · cases h
            · exact ofRes_valid _ _ s t h
        · cases h
      all_goals cases h

/-! ### more combinators -/

theorem out_separatedPair {α β γ} {P : α → Prop} {R : γ → Prop} {p : Parser α} {sep : Parser β}
    {q : Parser γ} (hp : Out P p) (hq : Out R q) :
    Out (fun x => P x.1 ∧ R x.2) (separatedPair p sep q) := by
  intro i x t h
  unfold separatedPair at h
  obtain ⟨a, u, h1, h2⟩ := bind_ok h
  obtain ⟨b, w, _, h4⟩ := bind_ok h2
  obtain ⟨c, y, h5, h6⟩ := bind_ok h4
  simp only [PR.ok.injEq] at h6
  rw [← h6.1]; exact ⟨hp i a u h1, hq w c y h5⟩

/-! ### the parsers -/

theorem clampI32_ok (v : Int) : i32ok (clampI32 v) = true := by
  simp only [i32ok, Bool.and_eq_true, decide_eq_true_eq]
  unfold clampI32
  split
  · omega
  · split <;> omega

theorem out_index : Out (fun x => typedIndex x = true) index := by
  unfold index
  refine out_alt (out_map out_i32 (fun v hv => hv))
    (out_alt (out_map (out_true _) (fun v _ => ?_))
      (out_alt (out_map (out_preceded out_i32) (fun v hv => hv))
        (out_map (out_true _) (fun _ _ => by decide))))
  simp only [lastMinus, typedIndex]
  exact clampI32_ok _

theorem out_arrayIndex : Out (fun x => typedArrayIndex x = true) arrayIndex := by
  unfold arrayIndex
  refine out_alt (out_map (out_separatedPair out_index out_index) ?_) (out_map out_index (fun i hi => hi))
  intro se h
  simp only [typedArrayIndex, Bool.and_eq_true]; exact h

theorem out_arrayIndices_typed : Out (fun l => l.all typedArrayIndex = true) arrayIndices := by
  unfold arrayIndices
  refine out_delimited (out_mono (out_separatedList1 (out_delimited out_arrayIndex)) ?_)
  intro l h
  exact List.all_eq_true.mpr h.1

theorem out_innerPath_typed : Out (fun p => typedPath p = true) innerPath := by
  unfold innerPath colonField dotField objectField
  refine out_alt (out_value rfl) (out_alt (out_value rfl)
    (out_alt (out_map (out_alt (out_preceded out_string) (out_preceded out_rawString)) ?_)
      (out_alt (out_map (out_alt (out_preceded out_string) (out_preceded out_rawString)) ?_)
        (out_alt (out_map out_arrayIndices_typed ?_) (out_map (out_delimited out_string) ?_)))))
  all_goals intro s h; simpa only [typedPath] using h

theorem out_pathValue : Out (fun v => typedValue v = true) pathValue := by
  unfold pathValue
  exact out_alt (out_value rfl) (out_alt (out_value rfl) (out_alt (out_value rfl)
    (out_alt (out_map (out_terminated out_u64) (fun v hv => by simpa only [typedValue] using hv))
      (out_alt (out_map (out_terminated out_i64) (fun v hv => by simpa only [typedValue] using hv))
        (out_alt (out_map (out_true _) (fun _ _ => rfl))
          (out_map out_string (fun s hs => by simpa only [typedValue] using hs)))))))

theorem out_exprPaths_typed (rp : Bool) : Out (fun ps => typedPaths ps = true) (exprPaths rp) := by
  show Out _ (map (pair (alt (value Path.root (char 36))
      (mapRes (Nom.cond (!rp) (value Path.current (char 64))) id))
    (many0 (delimited ws innerPath ws))) (fun pp => pp.1 :: pp.2))
  refine out_map (out_pair (P := fun p => typedPath p = true)
    (out_alt (out_value rfl) (out_mapRes (out_cond (out_value (Q := fun p => typedPath p = true) rfl)) ?_))
    (out_many0 (out_delimited out_innerPath_typed))) ?_
  · intro o b ho hb
    exact (ho b hb).2
  · intro pp h
    simp only [typedPaths, Bool.and_eq_true]
    exact ⟨h.1, typedPaths_of_forall _ h.2⟩

theorem out_innerExpr_typed (rp : Bool) : Out (fun e => typedExpr e = true) (innerExpr rp) := by
  unfold innerExpr
  exact out_alt (out_map (out_exprPaths_typed rp) (fun ps h => by simpa only [typedExpr] using h))
    (out_map out_pathValue (fun v h => by simpa only [typedExpr] using h))

theorem foldl_typed (o : BinOp) : ∀ (es : List Expr) (e : Expr), typedExpr e = true →
    (∀ x ∈ es, typedExpr x = true) →
      typedExpr (es.foldl (fun acc r => Expr.binaryOp o acc r) e) = true
  | [], e, he, _ => he
  | x :: es, e, he, hes => by
    simp only [List.foldl_cons]
    refine foldl_typed o es _ ?_ (fun y hy => hes y (by simp [hy]))
    simp only [typedExpr, Bool.and_eq_true]
    exact ⟨he, hes x (by simp)⟩

theorem foldBin_typed (o : BinOp) (l : List Expr) (hl : ∀ x ∈ l, typedExpr x = true) (u : Bytes)
    (e : Expr) (t : Bytes) (h : foldBin o l u = .ok e t) : typedExpr e = true := by
  cases l with
  | nil => simp [foldBin] at h
  | cons a es =>
    simp only [foldBin, PR.ok.injEq] at h
    rw [← h.1]
    exact foldl_typed o es a (hl a (by simp)) (fun x hx => hl x (by simp [hx]))

section knot
variable {eo : Bool → Parser Expr} (heo : ∀ rp, Out (fun e => typedExpr e = true) (eo rp))
include heo

theorem out_path_typed : Out (fun p => typedPath p = true) (path eo) := by
  unfold path filterExpr
  exact out_alt (out_delimited out_innerPath_typed)
    (out_map (out_delimited (out_delimited (out_delimited (heo false))))
      (fun e h => by simpa only [typedPath] using h))

theorem out_existsFn_typed : Out (fun ps => typedPaths ps = true) (existsFn eo) := by
  unfold existsFn existsPaths
  refine out_preceded (out_preceded (out_delimited (out_map (out_pair (P := fun p => typedPath p = true)
    (out_alt (out_value rfl) (out_value rfl)) (out_many0 (out_path_typed heo))) ?_)))
  intro pp h
  simp only [typedPaths, Bool.and_eq_true]
  exact ⟨h.1, typedPaths_of_forall _ h.2⟩

theorem out_exprAtom_typed (rp : Bool) : Out (fun e => typedExpr e = true) (exprAtom eo rp) := by
  unfold exprAtom
  refine out_alt ?_ (out_alt ?_ (out_alt ?_ (out_alt (out_delimited (heo rp)) ?_)))
  · refine out_map (out_tuple3 (out_delimited (out_innerExpr_typed rp)) (out_true _)
      (out_delimited (out_innerExpr_typed rp))) ?_
    intro t h
    simp only [typedExpr, Bool.and_eq_true]
    exact ⟨h.1, h.2.2⟩
  · refine out_map (out_tuple3 (out_delimited (out_innerExpr_typed rp)) (out_true _)
      (out_delimited (out_innerExpr_typed rp))) ?_
    intro t h
    simp only [typedExpr, Bool.and_eq_true]
    exact ⟨h.1, h.2.2⟩
  · refine out_map (out_pair (out_true _) (out_delimited (out_innerExpr_typed rp))) ?_
    intro t h
    simp only [typedExpr]
    exact h.2
  · exact out_map (out_existsFn_typed heo) (fun ps h => by simpa only [typedExpr] using h)

theorem out_exprAnd_typed (rp : Bool) : Out (fun e => typedExpr e = true) (exprAnd eo rp) := by
  intro i e t h
  unfold exprAnd at h
  obtain ⟨l, u, h1, h2⟩ := bind_ok h
  have hl := out_separatedList1 (sep := delimited ws (tag [38, 38]) ws) (out_exprAtom_typed heo rp) i l u h1
  exact foldBin_typed _ l hl.1 u e t h2

theorem out_exprOrStep_typed (rp : Bool) : Out (fun e => typedExpr e = true) (exprOrStep eo rp) := by
  intro i e t h
  unfold exprOrStep at h
  obtain ⟨l, u, h1, h2⟩ := bind_ok h
  have hl := out_separatedList1 (sep := delimited ws (tag [124, 124]) ws) (out_exprAnd_typed heo rp) i l u h1
  exact foldBin_typed _ l hl.1 u e t h2

end knot

theorem out_exprOr_typed : ∀ (n : Nat) (rp : Bool), Out (fun e => typedExpr e = true) (exprOr n rp)
  | 0, _ => by intro i e t h; simp [exprOr] at h
  | n + 1, rp => by
    show Out _ (exprOrStep (exprOr n) rp)
    exact out_exprOrStep_typed (out_exprOr_typed n) rp

theorem out_jsonPath_typed (n : Nat) : Out (fun jp => typedPaths jp = true) (jsonPath n) := by
  unfold jsonPath predicateOrPaths predicate paths prePath
  refine out_delimited (out_alt (out_map (out_delimited (out_exprOr_typed n true)) ?_) (out_map
    (out_pair (out_opt (P := fun p => typedPath p = true) (out_alt (out_value rfl)
      (out_map (out_delimited out_rawString) (fun s h => by simpa only [typedPath] using h))))
      (out_many0 (out_path_typed (out_exprOr_typed n)))) ?_))
  · intro e h
    simp only [typedPaths, typedPath, Bool.and_true]; exact h
  · intro pp h
    obtain ⟨h1, h2⟩ := h
    have h2' := typedPaths_of_forall _ h2
    cases ho : pp.1 with
    | none => exact h2'
    | some p =>
      simp only [typedPaths, Bool.and_eq_true]
      exact ⟨h1 p ho, h2'⟩

end PShape

open PShape in
/-- **Every leaf of an accepted path is a value of the Rust type**: indices are `i32`, integer
literals `u64` / `i64`, names and string literals valid UTF-8 — for every byte string. -/
theorem parseJsonPath_typed (bs : Bytes) (jp : JsonPath) (h : parseJsonPath bs = .ok jp) :
    typedPaths jp = true := by
  unfold parseJsonPath PathParser.finish at h
  split at h
  · rename_i a e
    simp only [Res.ok.injEq] at h
    rw [← h]
    exact out_jsonPath_typed _ bs a [] e
  all_goals cases h

end Jsonb
